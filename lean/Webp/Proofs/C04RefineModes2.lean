import Webp.Proofs.C04RefineModes
import Webp.Proofs.C04RefineTokens
/-
  C04 refinement, macroblock-level syntax (stage B), part 2: one sub-block mode — the Go tree walk
  `T.readI4Mode` with the Go-numbered context modes vs one `bStep` of the staged `readMBHeader`.
-/
namespace Webp.Proofs.C04RefineModes
open Webp.Spec.VP8
open Webp.Impl.VP8SyntaxBytes (P runR rd)
open Webp.Impl.VP8Recon (Slot)
open Webp.Proofs.C04RefineOps Webp.Proofs.C04RefineSyntax Webp.Proofs.C04RefineTokens

/-- a tree only looks at the probabilities of its nodes -/
theorem readTree_congr (tree : Array Int) (nodes : List Nat) (B : Nat)
    (hstep : ∀ i ∈ nodes, ∀ b : Bool, tree.getD (i + (if b then 1 else 0)) 0 ≤ 0 ∨
      (tree.getD (i + (if b then 1 else 0)) 0).toNat ∈ nodes)
    (hhalf : ∀ i ∈ nodes, i >>> 1 ≤ B) (p q : Nat → Nat) (h : ∀ n, n ≤ B → p n = q n)
    (fuel i : Nat) (d : BoolDec) (hi : i ∈ nodes) :
    BoolDec.readTree.go tree p fuel i d = BoolDec.readTree.go tree q fuel i d := by
  induction fuel generalizing i d with
  | zero => rfl
  | succ fuel ih =>
    rw [readTree_go_succ, readTree_go_succ, h _ (hhalf i hi)]
    rcases hstep i hi (d.readBool (q (i >>> 1))).1 with h1 | h2
    · rw [if_pos h1, if_pos h1]
    · by_cases h1 : tree.getD (i + (if (d.readBool (q (i >>> 1))).1 then 1 else 0)) 0 ≤ 0
      · rw [if_pos h1, if_pos h1]
      · rw [if_neg h1, if_neg h1]; exact ih _ _ h2

def bNodes : List Nat := [0, 2, 4, 6, 8, 10, 12, 14, 16]

theorem bTree_step : ∀ i ∈ bNodes, ∀ b : Bool, bModeTree.getD (i + (if b then 1 else 0)) 0 ≤ 0 ∨
    (bModeTree.getD (i + (if b then 1 else 0)) 0).toNat ∈ bNodes := by decide

theorem bNodes_half : ∀ i ∈ bNodes, i >>> 1 ≤ 8 := by decide

/-- the sub-block mode probabilities the Go decoder uses (`KBModesProba[top][left][i]`, Go numbering) are the
    RFC's `kf_bmode_probs` at the renumbered contexts -/
def BModeOK (prob : Slot → UInt8) : Prop :=
  ∀ top left i, top < 10 → left < 10 → i ≤ 8 →
    (prob (.bmode top left i)).toNat = Tables.kfBModeProbs.getD ((rfcB top * 10 + rfcB left) * 9 + i) 128

theorem runD_guard (prob : Slot → UInt8) (x : P Nat) (d : BoolDec) (m : Nat) (d' : BoolDec)
    (h : runD prob (x >>= fun m => if m ≥ 10 then (P.fail : P Nat) else pure m) d = some (m, d')) :
    m < 10 ∧ runD prob x d = some (m, d') := by
  rw [runD_bind] at h
  cases hx : runD prob x d with
  | none => rw [hx] at h; cases h
  | some r =>
    obtain ⟨a, e⟩ := r
    rw [hx] at h
    have h' : runD prob (if a ≥ 10 then (P.fail : P Nat) else pure a) e = some (m, d') := h
    by_cases ha : a ≥ 10
    · rw [if_pos ha] at h'; cases h'
    · rw [if_neg ha] at h'
      have : (a, e) = (m, d') := Option.some.inj h'
      obtain ⟨rfl, rfl⟩ := Prod.mk.inj this
      exact ⟨by omega, rfl⟩

/-- **one sub-block mode**: `readI4Mode top left` on the reference decoder returns the mode `treed_read(bmode_tree)`
    returns with the probabilities of the renumbered contexts, renumbered back; it is a valid mode -/
theorem i4_runD (prob : Slot → UInt8) (hb : BModeOK prob) (top left : Nat) (ht : top < 10) (hl : left < 10) (d : BoolDec) :
    ∃ m, runD prob (T.readI4Mode top left) d =
        some (m, (BoolDec.readTree bModeTree
          (fun i => Tables.kfBModeProbs.getD ((rfcB top * 10 + rfcB left) * 9 + i) 128) d).2) ∧
      rfcB m = (BoolDec.readTree bModeTree
          (fun i => Tables.kfBModeProbs.getD ((rfcB top * 10 + rfcB left) * 9 + i) 128) d).1 ∧ m < 10 := by
  have hT := bmode_tree top left
  have hD : runD prob (T.readI4Mode top left >>= fun m => pure (rfcB m)) d =
      some (BoolDec.readTree.go bModeTree (fun n => (prob (.bmode top left n)).toNat) 16 0 d) := by
    rw [hT]; exact treeP_runD prob bModeTree (fun i => .bmode top left i) _ (fun _ => rfl) 16 0 d
  rw [readTree_congr bModeTree bNodes 8 bTree_step bNodes_half _
    (fun i => Tables.kfBModeProbs.getD ((rfcB top * 10 + rfcB left) * 9 + i) 128)
    (fun n hn => hb top left n ht hl hn) 16 0 d (by decide)] at hD
  rw [runD_bind] at hD
  cases hrd : runD prob (T.readI4Mode top left) d with
  | none => rw [hrd] at hD; cases hD
  | some y =>
    obtain ⟨m, d'⟩ := y
    rw [hrd] at hD
    have e : (rfcB m, d') = BoolDec.readTree.go bModeTree
        (fun i => Tables.kfBModeProbs.getD ((rfcB top * 10 + rfcB left) * 9 + i) 128) 16 0 d := Option.some.inj hD
    have hlt : m < 10 := by
      have hg : T.readI4Mode top left =
          ((rd (.bmode top left 0) >>= fun b => T.readI4Loop top left 10 (Webp.Impl.VP8Recon.treeAt (Webp.Impl.VP8Recon.b2n b))) >>=
            fun m => if m ≥ 10 then (P.fail : P Nat) else pure m) := by
        unfold Webp.Impl.VP8SyntaxBytes.T.readI4Mode
        rw [Webp.Proofs.C04RefineHeader.bind_assoc']
      rw [hg] at hrd
      exact (runD_guard prob _ d m d' hrd).1
    refine ⟨m, ?_, ?_, hlt⟩
    · show some (m, d') = some (m, (BoolDec.readTree.go bModeTree _ 16 0 d).2)
      rw [← e]
    · show rfcB m = (BoolDec.readTree.go bModeTree _ 16 0 d).1
      rw [← e]

end Webp.Proofs.C04RefineModes
