import Webp.Proofs.C04RefinePush
import Webp.Proofs.C04RefineSyntax
import Webp.Impl.VP8Kernels
import Webp.Spec.VP8.Recon
import Mathlib.Tactic.IntervalCases
/-
  C04 refinement, reconstruction (stage C), the whole-block predictors (16×16 luma, 8×8 chroma):
  `Webp.Impl.VP8Kernels.predBig` (predict_lossy.go; Go modes DC 0, TM 1, V 2, H 3 and the three edge
  variants of DC chosen by `checkMode`) = RFC 6386 §12.2 `Webp.Spec.VP8.predictBlock` (RFC modes, `rfcY`).
-/
namespace Webp.Proofs.C04RefinePredBig
set_option linter.unusedSimpArgs false
open Webp.Spec.VP8 (predictBlock Plane)
open Webp.Impl.VP8Kernels (predBig sumTo)
open Webp.Proofs.C04RefinePush
open Webp.Proofs.C04RefineHeader (forIn_range_id)
open Webp.Proofs.C04RefineSyntax (rfcY)

/-- `a 0 + … + a (n-1)` -/
def sumR (a : Nat → Nat) (n : Nat) : Nat := (List.range' 0 n).foldl (fun s i => s + a i) 0

theorem foldl_add (a : Nat → Nat) (l : List Nat) (s0 : Nat) :
    l.foldl (fun s i => s + a i) s0 = s0 + l.foldl (fun s i => s + a i) 0 := by
  induction l generalizing s0 with
  | nil => simp
  | cons x l ih => rw [List.foldl_cons, List.foldl_cons, ih, ih (0 + a x)]; omega

theorem sum_loop (a : Nat → Nat) (n s0 : Nat) :
    forIn (m := Id) [:n] s0 (fun i s => pure (ForInStep.yield (s + a i))) = pure (s0 + sumR a n) := by
  rw [forIn_range_id n _ _ (fun i s => s + a i) (fun _ _ => rfl), foldl_add]; rfl

theorem sumR_succ (a : Nat → Nat) (n : Nat) : sumR a (n + 1) = sumR a n + a n := by
  unfold sumR
  rw [List.range'_concat, List.foldl_append]; simp

theorem sumR_le (a : Nat → Nat) (h : ∀ i, a i ≤ 255) (n : Nat) : sumR a n ≤ n * 255 := by
  induction n with
  | zero => simp [sumR]
  | succ n ih => rw [sumR_succ]; have := h n; omega

theorem sumTo_succ (f : Nat → Int) (n : Nat) : sumTo (n + 1) f = sumTo n f + f n := by
  unfold sumTo
  rw [List.range_succ, List.foldl_append]; simp

theorem sumR_cast (a : Nat → Nat) (n : Nat) : ((sumR a n : Nat) : Int) = sumTo n (fun i => (a i : Int)) := by
  induction n with
  | zero => simp [sumR, sumTo]
  | succ n ih => rw [sumR_succ, sumTo_succ, ← ih]; push_cast; rfl

/-- `k` pushes of the same value -/
def constArr {α : Type} (k : Nat) (v : α) : Array α := (List.range' 0 k).foldl (fun s _ => s.push v) #[]

theorem const_loop {α : Type} (k c : Nat) (v : α) :
    forIn (m := Id) [:k] (Array.mkEmpty c : Array α) (fun _ s => pure (ForInStep.yield (s.push v))) = pure (constArr k v) :=
  forIn_range_id k (Array.mkEmpty c : Array α) _ (fun _ (s : Array α) => s.push v) (fun _ _ => rfl)

theorem constArr_getD {α : Type} (k : Nat) (v d : α) (j : Nat) (hj : j < k) : (constArr k v).getD j d = v := by
  unfold constArr
  rw [row_eq k (fun _ => v) #[]]
  simp [hj]

theorem sample_le (p : Plane) (a b : Nat) : p.sample a b ≤ 255 := by
  have hb : ∀ k, (p.data.get! k).toNat ≤ 255 := fun k => by have := (p.data.get! k).toNat_lt; omega
  unfold Plane.sample
  split_ifs <;> first | omega | exact hb _

open Webp.Spec.VP8 in
theorem predV (n : Nat) (p : Plane) (x0 y0 x y : Nat) (hx : x < n) (hy : y < n) :
    (predictBlock p n x0 y0 V_PRED).getD (y * n + x) 0 = p.sample (x0 + 1 + x) y0 := by
  unfold predictBlock
  simp only [Id.run, V_PRED, DC_PRED, Nat.reduceEqDiff, if_false, if_true, OfNat.ofNat_ne_zero, OfNat.one_ne_ofNat,
    one_ne_zero]
  rw [nested_push n n _ _]
  show (rows n _ #[] n).getD (y * n + x) 0 = _
  rw [rows_getD n _ n 0 y x hy hx]

open Webp.Spec.VP8 in
theorem predH (n : Nat) (p : Plane) (x0 y0 x y : Nat) (hx : x < n) (hy : y < n) :
    (predictBlock p n x0 y0 H_PRED).getD (y * n + x) 0 = p.sample x0 (y0 + 1 + y) := by
  unfold predictBlock
  simp only [Id.run, V_PRED, H_PRED, DC_PRED, Nat.reduceEqDiff, if_false, if_true, OfNat.ofNat_ne_zero,
    OfNat.ofNat_ne_one]
  rw [nested_push n n _ _]
  show (rows n _ #[] n).getD (y * n + x) 0 = _
  rw [rows_getD n _ n 0 y x hy hx]

open Webp.Spec.VP8 in
theorem predTM (n : Nat) (p : Plane) (x0 y0 x y : Nat) (hx : x < n) (hy : y < n) :
    (predictBlock p n x0 y0 TM_PRED).getD (y * n + x) 0 =
      (clampInt 0 255 ((p.sample x0 (y0 + 1 + y) : Int) + (p.sample (x0 + 1 + x) y0 : Int) - (p.sample x0 y0 : Int))).toNat := by
  unfold predictBlock
  simp only [Id.run, V_PRED, H_PRED, TM_PRED, DC_PRED, Nat.reduceEqDiff, if_false, if_true, OfNat.ofNat_ne_zero,
    OfNat.ofNat_ne_one]
  rw [nested_push n n _ _]
  show (rows n _ #[] n).getD (y * n + x) 0 = _
  rw [rows_getD n _ n 0 y x hy hx]

/-- `checkMode`: the DC variant by position (Go modes 4 no-top, 5 no-left, 6 neither) -/
def dcMode (g x0 y0 : Nat) : Nat :=
  if g = 0 then (if x0 = 0 then (if y0 = 0 then 6 else 5) else if y0 = 0 then 4 else 0) else g

open Webp.Spec.VP8 in
theorem predDC (n : Nat) (p : Plane) (x0 y0 j : Nat) (hj : j < n * n) :
    (predictBlock p n x0 y0 DC_PRED).getD j 0 =
      if y0 > 0 then
        (if x0 > 0 then
          (if n + n = 0 then 128 else
            (sumR (fun i => p.sample (x0 + 1 + i) y0) n + sumR (fun i => p.sample x0 (y0 + 1 + i)) n + (n + n) / 2) / (n + n))
         else (if n = 0 then 128 else (sumR (fun i => p.sample (x0 + 1 + i) y0) n + n / 2) / n))
      else if x0 > 0 then (if n = 0 then 128 else (sumR (fun i => p.sample x0 (y0 + 1 + i)) n + n / 2) / n)
      else 128 := by
  unfold predictBlock
  simp only [Id.run, DC_PRED, if_true, sum_loop, pure_bind, Nat.zero_add]
  by_cases hy : y0 > 0 <;> by_cases hx : x0 > 0
  all_goals
    simp only [hy, hx, if_true, if_false, sum_loop, pure_bind, Nat.zero_add, const_loop]
    exact constArr_getD _ _ _ _ hj

theorem idx_lt (n x y : Nat) (hx : x < n) (hy : y < n) : y * n + x < n * n := by
  calc y * n + x < y * n + n := by omega
    _ = (y + 1) * n := by ring
    _ ≤ n * n := Nat.mul_le_mul_right _ hy

open Webp.Spec.VP8 Webp.Impl.VP8Kernels in
/-- **the whole-block predictors: Go = RFC 6386 §12.2**, 16×16 luma and 8×8 chroma, every position of the
    block in the frame (`x0 = 0` / `y0 = 0`: the DC variants `checkMode` selects; the 127 / 129 borders
    are what `Plane.sample` answers outside the frame). -/
theorem predBig_eq_spec (n : Nat) (hn : n = 16 ∨ n = 8) (p : Plane) (x0 y0 g : Nat) (hg : g < 4) (x y : Nat)
    (hx : x < n) (hy : y < n) :
    (((predictBlock p n x0 y0 (rfcY g)).getD (y * n + x) 0 : Nat) : Int) =
      predBig n (dcMode g x0 y0) (fun i => (p.sample (x0 + 1 + i) y0 : Int)) (fun j => (p.sample x0 (y0 + 1 + j) : Int))
        (p.sample x0 y0 : Int) x y := by
  interval_cases g
  · -- DC
    show (((predictBlock p n x0 y0 DC_PRED).getD (y * n + x) 0 : Nat) : Int) = _
    rw [predDC n p x0 y0 _ (idx_lt n x y hx hy)]
    have hT := sumR_le (fun i => p.sample (x0 + 1 + i) y0) (fun i => sample_le p _ _) n
    have hL := sumR_le (fun i => p.sample x0 (y0 + 1 + i)) (fun i => sample_le p _ _) n
    have cT := sumR_cast (fun i => p.sample (x0 + 1 + i) y0) n
    have cL := sumR_cast (fun i => p.sample x0 (y0 + 1 + i)) n
    unfold dcMode predBig
    simp only [if_true]
    rw [← cT, ← cL]
    generalize sumR (fun i => p.sample (x0 + 1 + i) y0) n = T at *
    generalize sumR (fun i => p.sample x0 (y0 + 1 + i)) n = L at *
    rcases hn with rfl | rfl <;> by_cases hx0 : x0 = 0 <;> by_cases hy0 : y0 = 0 <;>
      simp [hx0, hy0, toU8, Nat.pos_iff_ne_zero] <;> omega
  · -- TM
    show (((predictBlock p n x0 y0 TM_PRED).getD (y * n + x) 0 : Nat) : Int) = _
    rw [predTM n p x0 y0 x y hx hy]
    have h1 := sample_le p x0 (y0 + 1 + y)
    have h2 := sample_le p (x0 + 1 + x) y0
    have h3 := sample_le p x0 y0
    unfold dcMode predBig clampInt clip8b
    simp only [show ¬ (1 = 0) by decide, if_false]
    split_ifs <;> omega
  · -- V
    show (((predictBlock p n x0 y0 V_PRED).getD (y * n + x) 0 : Nat) : Int) = _
    rw [predV n p x0 y0 x y hx hy]; rfl
  · -- H
    show (((predictBlock p n x0 y0 H_PRED).getD (y * n + x) 0 : Nat) : Int) = _
    rw [predH n p x0 y0 x y hx hy]; rfl

end Webp.Proofs.C04RefinePredBig
