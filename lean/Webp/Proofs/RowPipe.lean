import Webp.Impl.RowPipe
/-
  Helper lemmas for the row pipeline (`Webp.Impl.RowPipe`): closed form of the serial encoder,
  the inductive invariant of the transition system, freshness of reads.
-/
namespace Webp.Impl.RowPipe

variable {Val Ctx : Type}

@[simp] theorem upd_same {α : Type} (g : Nat → α) (i : Nat) (v : α) : upd g i v i = v := by
  simp [upd]

theorem upd_ne {α : Type} (g : Nat → α) {i j : Nat} (v : α) (h : j ≠ i) : upd g i v j = g j := by
  simp [upd, h]

theorem upd_comm {α : Type} (g : Nat → α) {i j : Nat} (u v : α) (h : i ≠ j) :
    upd (upd g i u) j v = upd (upd g j v) i u := by
  funext k; simp only [upd]; by_cases h1 : k = i <;> by_cases h2 : k = j <;> simp_all

theorem upd2_comm {α : Type} (g : Nat → Nat → α) {i j i' j' : Nat} (u v : α)
    (h : ¬ (i = i' ∧ j = j')) :
    upd2 (upd2 g i j u) i' j' v = upd2 (upd2 g i' j' v) i j u := by
  funext a b; simp only [upd2]
  by_cases h1 : a = i ∧ b = j
  · by_cases h2 : a = i' ∧ b = j'
    · exfalso; exact h ⟨h1.1.symm.trans h2.1, h1.2.symm.trans h2.2⟩
    · rw [if_neg h2, if_pos h1, if_pos h1]
  · by_cases h2 : a = i' ∧ b = j'
    · rw [if_pos h2, if_neg h1, if_pos h2]
    · rw [if_neg h2, if_neg h1, if_neg h1, if_neg h2]

/-! ### closed form of the serial loop -/

/-- left context before column `x` of row `y`, when the row above left `tp` in the top array -/
def leftAt (P : Params Val Ctx) (y : Nat) (tp : Nat → Val) : Nat → Ctx
  | 0 => P.left0
  | x + 1 => (P.f y x (tp x) (topRight P.mbW tp x) (leftAt P y tp x)).2

/-- value computed for macroblock (y,x) when the row above left `tp` in the top array -/
def cellAt (P : Params Val Ctx) (y : Nat) (tp : Nat → Val) (x : Nat) : Val :=
  (P.f y x (tp x) (topRight P.mbW tp x) (leftAt P y tp x)).1

/-- content of the top array when the serial encoder starts row `y` -/
def topBefore (P : Params Val Ctx) : Nat → Nat → Val
  | 0, _ => P.border
  | y + 1, x => if x < P.mbW then cellAt P y (topBefore P y) x else P.border

/-- the value the serial encoder computes for macroblock (y,x) -/
def cell (P : Params Val Ctx) (y x : Nat) : Val := cellAt P y (topBefore P y) x

/-- the left context the serial encoder holds before macroblock (y,x) -/
def leftOf (P : Params Val Ctx) (y x : Nat) : Ctx := leftAt P y (topBefore P y) x

theorem topBefore_high (P : Params Val Ctx) : ∀ y c, P.mbW ≤ c → topBefore P y c = P.border
  | 0, _, _ => rfl
  | y + 1, c, h => by simp [topBefore, Nat.not_lt.mpr h]

theorem serCols_spec (P : Params Val Ctx) (y : Nat) (s : SerState Val) : ∀ k,
    (serCols P y s k).2 = leftAt P y s.top k ∧
    (∀ c, (serCols P y s k).1.top c = if c < k then cellAt P y s.top c else s.top c) ∧
    (∀ a c, (serCols P y s k).1.out a c =
        if a = y ∧ c < k then some (cellAt P y s.top c) else s.out a c)
  | 0 => by simp [serCols, leftAt]
  | k + 1 => by
    obtain ⟨h2, ht, ho⟩ := serCols_spec P y s k
    have e1 : (serCols P y s k).1.top k = s.top k := by rw [ht]; simp
    have e2 : topRight P.mbW (serCols P y s k).1.top k = topRight P.mbW s.top k := by
      unfold topRight; split
      · rw [ht]; have : ¬ k + 1 < k := by omega
        simp [this]
      · rfl
    refine ⟨?_, ?_, ?_⟩
    · simp only [serCols, leftAt, e1, e2, h2]
    · intro c
      simp only [serCols, e1, e2, h2, upd]
      by_cases hc : c = k
      · subst hc; simp [cellAt]
      · rw [if_neg hc, ht]
        by_cases h1 : c < k
        · have : c < k + 1 := by omega
          simp [h1, this]
        · have : ¬ c < k + 1 := by omega
          simp [h1, this]
    · intro a c
      simp only [serCols, e1, e2, h2, upd2]
      by_cases hc : a = y ∧ c = k
      · obtain ⟨rfl, rfl⟩ := hc; simp [cellAt]
      · rw [if_neg hc, ho]
        by_cases h1 : a = y ∧ c < k
        · have : a = y ∧ c < k + 1 := ⟨h1.1, by omega⟩
          simp [h1, this]
        · have : ¬ (a = y ∧ c < k + 1) := by
            intro h; apply h1; refine ⟨h.1, ?_⟩
            have : c ≠ k := fun e => hc ⟨h.1, e⟩
            omega
          simp [h1, this]

theorem serRows_spec (P : Params Val Ctx) : ∀ y,
    (serRows P y).top = topBefore P y ∧
    (∀ a c, (serRows P y).out a c = if a < y ∧ c < P.mbW then some (cell P a c) else none)
  | 0 => by
    refine ⟨?_, ?_⟩
    · funext c; simp [serRows, topBefore]
    · intro a c; simp [serRows]
  | y + 1 => by
    obtain ⟨ht, ho⟩ := serRows_spec P y
    obtain ⟨_, ht', ho'⟩ := serCols_spec P y (serRows P y) P.mbW
    refine ⟨?_, ?_⟩
    · funext c
      simp only [serRows]
      rw [ht' c, ht]
      by_cases h : c < P.mbW
      · simp [h, topBefore]
      · simp [h, topBefore, topBefore_high P y c (Nat.not_lt.mp h)]
    · intro a c
      simp only [serRows]
      rw [ho' a c, ho a c, ht]
      by_cases h1 : a = y
      · subst h1
        by_cases h2 : c < P.mbW
        · simp [h2, cell]
        · simp [h2]
      · by_cases h2 : a < y
        · have : a < y + 1 := by omega
          simp [h1, h2, this]
        · have : ¬ a < y + 1 := by omega
          simp [h1, h2, this]

/-- closed form of `serialOut` -/
theorem serialOut_eq (P : Params Val Ctx) (y x : Nat) :
    serialOut P y x = if y < P.mbH ∧ x < P.mbW then some (cell P y x) else none := by
  unfold serialOut; exact (serRows_spec P P.mbH).2 y x

/-! ### the inductive invariant -/

structure Inv (P : Params Val Ctx) (s : State Val Ctx) : Prop where
  hW : ∀ w y x l, s.worker w = .at y x l →
      y < s.next ∧ y < P.mbH ∧ x ≤ P.mbW ∧ s.done y = x ∧ l = leftOf P y x
  hUniq : ∀ w1 w2 y x1 x2 l1 l2, s.worker w1 = .at y x1 l1 → s.worker w2 = .at y x2 l2 → w1 = w2
  hUnclaimed : ∀ y, s.next ≤ y → s.done y = 0
  hHigh : ∀ y, P.mbH ≤ y → s.done y = 0
  hLe : ∀ y, s.done y ≤ P.mbW
  hOwner : ∀ y, y < s.next → y < P.mbH → s.done y < P.mbW →
      ∃ w l, w < P.n ∧ s.worker w = .at y (s.done y) l
  hWave : ∀ y, s.done (y + 1) ≠ 0 → waitX P.mbW (s.done (y + 1) - 1) ≤ s.done y
  hTopN : ∀ c, s.ver c = none → s.top c = P.border ∧ s.done 0 ≤ c
  hTopS : ∀ c y, s.ver c = some y → s.top c = cell P y c ∧ c < s.done y ∧ s.done (y + 1) ≤ c
  hOut : ∀ y x, s.out y x = if x < s.done y then some (cell P y x) else none
  hRec : s.recd ≤ P.mbH ∧ ∀ y, y < s.recd → s.done y = P.mbW
  hExit : ∀ w, s.worker w = .exited → P.mbH ≤ s.next

theorem inv_init (P : Params Val Ctx) : Inv P (init P) := by
  constructor <;> simp [init]

/-- the progress counters decrease from top to bottom (the wavefront is a staircase) -/
theorem done_antitone {P : Params Val Ctx} {s : State Val Ctx} (h : Inv P s) :
    ∀ d i, s.done (i + d) ≤ s.done i
  | 0, i => Nat.le_refl _
  | d + 1, i => by
    have ih := done_antitone h d i
    have hw := h.hWave (i + d)
    have hl := h.hLe (i + d + 1)
    have : s.done (i + d + 1) ≤ s.done (i + d) := by
      by_cases h0 : s.done (i + d + 1) = 0
      · omega
      · have := hw h0; unfold waitX at this; omega
    exact Nat.le_trans this ih

theorem done_antitone' {P : Params Val Ctx} {s : State Val Ctx} (h : Inv P s) {i j : Nat}
    (hij : i ≤ j) : s.done j ≤ s.done i := by
  have := done_antitone h (j - i) i
  rwa [Nat.add_sub_cancel' hij] at this

/-- Freshness: when the guard of `process` holds for (y,x), columns `x` and `x+1` of the shared
    top array were last written by row `y-1` (or never, for `y = 0`) and hold what the serial
    encoder has there when it starts row `y`. -/
theorem fresh {P : Params Val Ctx} {s : State Val Ctx} (h : Inv P s) {w y x : Nat} {l : Ctx}
    (hw : s.worker w = .at y x l) (hx : x < P.mbW) (hg : procGuard P.mbW s.done y x)
    (c : Nat) (hc : c = x ∨ (c = x + 1 ∧ c < P.mbW)) :
    s.ver c = verOf y ∧ s.top c = topBefore P y c := by
  obtain ⟨_, _, _, hdone, _⟩ := h.hW w y x l hw
  have hcW : c < P.mbW := by omega
  -- for y > 0 the row above is strictly past column c
  have habove : y ≠ 0 → c < s.done (y - 1) := by
    intro hy
    rcases hg with h0 | hg
    · exact absurd h0 hy
    · unfold waitX at hg; omega
  cases hv : s.ver c with
  | none =>
    obtain ⟨ht, hd0⟩ := h.hTopN c hv
    by_cases hy : y = 0
    · subst hy; simp [verOf, topBefore, ht]
    · exfalso
      have h1 := habove hy
      have h2 : s.done (y - 1) ≤ s.done 0 := done_antitone' h (Nat.zero_le _)
      omega
  | some y0 =>
    obtain ⟨ht, hlt, hge⟩ := h.hTopS c y0 hv
    have hy : y = y0 + 1 := by
      by_cases h1 : y ≤ y0
      · exfalso
        have := done_antitone' h h1
        omega
      · by_cases h2 : y0 + 1 < y
        · exfalso
          have h3 := habove (by omega)
          have h4 : s.done (y - 1) ≤ s.done (y0 + 1) := done_antitone' h (by omega)
          omega
        · omega
    subst hy
    simp [verOf, topBefore, ht, hcW, cell]

/-- what `process` computes is what the serial encoder computes for that macroblock -/
theorem proc_value {P : Params Val Ctx} {s : State Val Ctx} (h : Inv P s) {w y x : Nat} {l : Ctx}
    (hw : s.worker w = .at y x l) (hx : x < P.mbW) (hg : procGuard P.mbW s.done y x) :
    P.f y x (s.top x) (topRight P.mbW s.top x) l = (cell P y x, leftOf P y (x + 1)) := by
  obtain ⟨_, _, _, _, hl⟩ := h.hW w y x l hw
  have e1 := (fresh h hw hx hg x (Or.inl rfl)).2
  have e2 : topRight P.mbW s.top x = topRight P.mbW (topBefore P y) x := by
    unfold topRight; split
    · rename_i hlt
      rw [(fresh h hw hx hg (x + 1) (Or.inr ⟨rfl, hlt⟩)).2]
    · rfl
  rw [e1, e2, hl]
  rfl

theorem inv_step {P : Params Val Ctx} {s s' : State Val Ctx} {a : Action}
    (h : Inv P s) (st : Step P s a s') : Inv P s' := by
  cases st with
  | @claim w hwn hidle =>
    unfold claimEff
    by_cases hn : s.next < P.mbH
    · rw [if_pos hn]
      constructor
      · intro w' y x l hw'
        by_cases e : w' = w
        · subst e
          simp only [upd_same] at hw'
          cases hw'
          exact ⟨by simp, hn, Nat.zero_le _, h.hUnclaimed _ (Nat.le_refl _), rfl⟩
        · simp only [upd_ne _ _ e] at hw'
          obtain ⟨a1, a2, a3, a4, a5⟩ := h.hW w' y x l hw'
          exact ⟨by simp; omega, a2, a3, a4, a5⟩
      · intro w1 w2 y x1 x2 l1 l2 h1 h2
        by_cases e1 : w1 = w <;> by_cases e2 : w2 = w
        · omega
        · subst e1
          simp only [upd_same] at h1; simp only [upd_ne _ _ e2] at h2
          cases h1
          have := (h.hW w2 _ _ _ h2).1; omega
        · subst e2
          simp only [upd_same] at h2; simp only [upd_ne _ _ e1] at h1
          cases h2
          have := (h.hW w1 _ _ _ h1).1; omega
        · simp only [upd_ne _ _ e1] at h1; simp only [upd_ne _ _ e2] at h2
          exact h.hUniq _ _ _ _ _ _ _ h1 h2
      · intro y hy; exact h.hUnclaimed y (by simp at hy; omega)
      · exact h.hHigh
      · exact h.hLe
      · intro y hy1 hy2 hy3
        by_cases e : y = s.next
        · subst e
          refine ⟨w, P.left0, hwn, ?_⟩
          simp [h.hUnclaimed _ (Nat.le_refl _)]
        · obtain ⟨w', l, hw'n, hw'⟩ := h.hOwner y (by simp at hy1; omega) hy2 hy3
          refine ⟨w', l, hw'n, ?_⟩
          have : w' ≠ w := by intro e'; subst e'; rw [hidle] at hw'; cases hw'
          simp only [upd_ne _ _ this]; exact hw'
      · exact h.hWave
      · exact h.hTopN
      · exact h.hTopS
      · exact h.hOut
      · exact h.hRec
      · intro w' hw'
        by_cases e : w' = w
        · subst e; simp only [upd_same] at hw'; cases hw'
        · simp only [upd_ne _ _ e] at hw'
          have := h.hExit w' hw'; simp; omega
    · rw [if_neg hn]
      constructor
      · intro w' y x l hw'
        by_cases e : w' = w
        · subst e; simp only [upd_same] at hw'; cases hw'
        · simp only [upd_ne _ _ e] at hw'
          obtain ⟨a1, a2, a3, a4, a5⟩ := h.hW w' y x l hw'
          exact ⟨by simp; omega, a2, a3, a4, a5⟩
      · intro w1 w2 y x1 x2 l1 l2 h1 h2
        by_cases e1 : w1 = w
        · subst e1; simp only [upd_same] at h1; cases h1
        · by_cases e2 : w2 = w
          · subst e2; simp only [upd_same] at h2; cases h2
          · simp only [upd_ne _ _ e1] at h1; simp only [upd_ne _ _ e2] at h2
            exact h.hUniq _ _ _ _ _ _ _ h1 h2
      · intro y hy; exact h.hUnclaimed y (by simp at hy; omega)
      · exact h.hHigh
      · exact h.hLe
      · intro y hy1 hy2 hy3
        obtain ⟨w', l, hw'n, hw'⟩ := h.hOwner y (by omega) hy2 hy3
        refine ⟨w', l, hw'n, ?_⟩
        have : w' ≠ w := by intro e'; subst e'; rw [hidle] at hw'; cases hw'
        simp only [upd_ne _ _ this]; exact hw'
      · exact h.hWave
      · exact h.hTopN
      · exact h.hTopS
      · exact h.hOut
      · exact h.hRec
      · intro w' _; simp; omega
  | @process w y x l hwn hw hx hg =>
    obtain ⟨hy1, hy2, _, hdone, hl⟩ := h.hW w y x l hw
    have hval := proc_value h hw hx hg
    -- the row below has not passed column x
    have hbelow : s.done (y + 1) ≤ x := by
      by_cases h0 : s.done (y + 1) = 0
      · omega
      · have := h.hWave y h0; unfold waitX at this; omega
    unfold procEff
    simp only [hval]
    constructor
    · intro w' y' x' l' hw'
      by_cases e : w' = w
      · subst e; simp only [upd_same] at hw'; cases hw'
        exact ⟨hy1, hy2, hx, by simp, rfl⟩
      · simp only [upd_ne _ _ e] at hw'
        obtain ⟨a1, a2, a3, a4, a5⟩ := h.hW w' y' x' l' hw'
        have : y' ≠ y := by
          intro e'; subst e'; exact e (h.hUniq _ _ _ _ _ _ _ hw' hw)
        exact ⟨a1, a2, a3, by simp only [upd_ne _ _ this]; exact a4, a5⟩
    · intro w1 w2 y' x1 x2 l1 l2 h1 h2
      by_cases e1 : w1 = w <;> by_cases e2 : w2 = w
      · omega
      · subst e1
        simp only [upd_same] at h1; simp only [upd_ne _ _ e2] at h2
        cases h1
        exact h.hUniq _ _ _ _ _ _ _ hw h2
      · subst e2
        simp only [upd_same] at h2; simp only [upd_ne _ _ e1] at h1
        cases h2
        exact h.hUniq _ _ _ _ _ _ _ h1 hw
      · simp only [upd_ne _ _ e1] at h1; simp only [upd_ne _ _ e2] at h2
        exact h.hUniq _ _ _ _ _ _ _ h1 h2
    · intro y' hy'
      have : y' ≠ y := by simp at hy'; omega
      simp only [upd_ne _ _ this]; exact h.hUnclaimed y' hy'
    · intro y' hy'
      have : y' ≠ y := by omega
      simp only [upd_ne _ _ this]; exact h.hHigh y' hy'
    · intro y'
      by_cases e : y' = y
      · subst e; simp; omega
      · simp only [upd_ne _ _ e]; exact h.hLe y'
    · intro y' hy1' hy2' hy3'
      by_cases e : y' = y
      · subst e
        refine ⟨w, leftOf P y' (x + 1), hwn, ?_⟩
        simp
      · simp only [upd_ne _ _ e] at hy3' ⊢
        obtain ⟨w', l', hw'n, hw'⟩ := h.hOwner y' hy1' hy2' hy3'
        refine ⟨w', l', hw'n, ?_⟩
        have : w' ≠ w := by
          intro e'; subst e'; rw [hw] at hw'; cases hw'; exact e rfl
        simp only [upd_ne _ _ this]; exact hw'
    · intro y' hy'
      by_cases e1 : y' + 1 = y
      · subst e1
        have e2 : y' ≠ y' + 1 := by omega
        simp only [upd_same, upd_ne _ _ e2] at hy' ⊢
        rcases hg with h0 | hg
        · omega
        · simpa using hg
      · simp only [upd_ne _ _ e1] at hy' ⊢
        have := h.hWave y' hy'
        by_cases e2 : y' = y
        · subst e2; simp; omega
        · simp only [upd_ne _ _ e2]; exact this
    · intro c hc
      have hcx : c ≠ x := by intro e; subst e; simp at hc
      simp only [upd_ne _ _ hcx] at hc ⊢
      obtain ⟨a1, a2⟩ := h.hTopN c hc
      refine ⟨a1, ?_⟩
      by_cases e : (0 : Nat) = y
      · subst e; simp; omega
      · simp only [upd_ne _ _ e]; exact a2
    · intro c y0 hc
      by_cases hcx : c = x
      · subst hcx
        simp only [upd_same] at hc ⊢
        cases hc
        have e2 : y + 1 ≠ y := by omega
        simp only [upd_same, upd_ne _ _ e2]
        refine ⟨?_, by omega, hbelow⟩
        first | rfl | trivial
      · simp only [upd_ne _ _ hcx] at hc ⊢
        obtain ⟨a1, a2, a3⟩ := h.hTopS c y0 hc
        refine ⟨a1, ?_, ?_⟩
        · by_cases e : y0 = y
          · subst e; simp; omega
          · simp only [upd_ne _ _ e]; exact a2
        · by_cases e : y0 + 1 = y
          · subst e; simp; omega
          · simp only [upd_ne _ _ e]; exact a3
    · intro y' x'
      simp only [upd2, upd]
      by_cases e : y' = y
      · subst e
        by_cases e' : x' = x
        · subst e'; simp
        · have := h.hOut y' x'
          simp only [e', and_false, if_false, if_true, this, hdone]
          by_cases h1 : x' < x
          · have : x' < x + 1 := by omega
            simp [h1, this]
          · have : ¬ x' < x + 1 := by omega
            simp [h1, this]
      · simp only [e, false_and, if_false]; exact h.hOut y' x'
    · refine ⟨h.hRec.1, ?_⟩
      intro y' hy'
      have := h.hRec.2 y' hy'
      have e : y' ≠ y := by intro e; subst e; omega
      simp only [upd_ne _ _ e]; exact this
    · intro w' hw'
      by_cases e : w' = w
      · subst e; simp only [upd_same] at hw'; cases hw'
      · simp only [upd_ne _ _ e] at hw'; exact h.hExit w' hw'
  | @finishRow w y l hwn hw =>
    unfold finEff
    constructor
    · intro w' y' x' l' hw'
      by_cases e : w' = w
      · subst e; simp only [upd_same] at hw'; cases hw'
      · simp only [upd_ne _ _ e] at hw'; exact h.hW w' y' x' l' hw'
    · intro w1 w2 y' x1 x2 l1 l2 h1 h2
      by_cases e1 : w1 = w
      · subst e1; simp only [upd_same] at h1; cases h1
      · by_cases e2 : w2 = w
        · subst e2; simp only [upd_same] at h2; cases h2
        · simp only [upd_ne _ _ e1] at h1; simp only [upd_ne _ _ e2] at h2
          exact h.hUniq _ _ _ _ _ _ _ h1 h2
    · exact h.hUnclaimed
    · exact h.hHigh
    · exact h.hLe
    · intro y' hy1' hy2' hy3'
      dsimp only at hy1' hy3' ⊢
      obtain ⟨w', l', hw'n, hw'⟩ := h.hOwner y' hy1' hy2' hy3'
      refine ⟨w', l', hw'n, ?_⟩
      have : w' ≠ w := by
        intro e'; subst e'
        have e3 := hw.symm.trans hw'
        injection e3 with e4 e5 e6
        subst e4
        omega
      simp only [upd_ne _ _ this]; exact hw'
    · exact h.hWave
    · exact h.hTopN
    · exact h.hTopS
    · exact h.hOut
    · exact h.hRec
    · intro w' hw'
      by_cases e : w' = w
      · subst e; simp only [upd_same] at hw'; cases hw'
      · simp only [upd_ne _ _ e] at hw'; exact h.hExit w' hw'
  | record hr hd =>
    unfold recEff
    constructor
    · exact h.hW
    · exact h.hUniq
    · exact h.hUnclaimed
    · exact h.hHigh
    · exact h.hLe
    · exact h.hOwner
    · exact h.hWave
    · exact h.hTopN
    · exact h.hTopS
    · exact h.hOut
    · refine ⟨by simp; omega, ?_⟩
      intro y hy
      by_cases e : y = s.recd
      · subst e; exact hd
      · exact h.hRec.2 y (by simp at hy; omega)
    · exact h.hExit

theorem inv_reachable {P : Params Val Ctx} {s : State Val Ctx} (h : Reachable P s) : Inv P s := by
  induction h with
  | init => exact inv_init P
  | step _ st ih => exact inv_step ih st

end Webp.Impl.RowPipe
