import Webp.Proofs.CodecFrontBasic
import Webp.Proofs.FuncsLE
/-
  Model-side facts used by `Webp/Props/C14FuncsSites.lean` to connect the translated expression
  sites of `lossy.parseHeaders` with the hand model `Impl.CodecFront.frameTag`: the fields of the
  `Tag` it returns, written with `Go.le16` / `Go.le24` / `Go.byteAt` of the input.
-/
namespace Webp.Impl.CodecFront
open Webp.Go Webp.Proofs.FuncsLE

/-- what an accepted frame tag contains, in terms of the input bytes (`buf = data[3:]`) -/
structure TagFields (data : Bytes) (t : Tag) : Prop where
  len : 10 ≤ data.length
  key : le24 data 0 % 2 = 0
  profile : t.profile = le24 data 0 / 2 % 8
  shown : le24 data 0 / 16 % 2 ≠ 0
  partLen : t.partLen = le24 data 0 / 32
  width : t.width = le16 (data.drop 3) 3 % 16384
  height : t.height = le16 (data.drop 3) 5 % 16384
  xScale : t.xScale = byteAt (data.drop 3) 4 / 64
  yScale : t.yScale = byteAt (data.drop 3) 6 / 64

theorem frameTag_fields (data : Bytes) : (frameTag data).Post (TagFields data) := by
  unfold frameTag
  by_cases h4 : data.length < 4
  · rw [if_pos h4]; trivial
  rw [if_neg h4]
  refine Res.Post.bind (idx_post data 0 (by omega)) (fun b0 e0 => ?_)
  refine Res.Post.bind (idx_post data 1 (by omega)) (fun b1 e1 => ?_)
  refine Res.Post.bind (idx_post data 2 (by omega)) (fun b2 e2 => ?_)
  have hbits : b0.toNat + b1.toNat * 256 + b2.toNat * 65536 = le24 data 0 := by
    rw [e0, e1, e2]; rfl
  obtain ⟨bits, hb'⟩ : ∃ bits, bits = le24 data 0 := ⟨_, rfl⟩
  rw [hbits, ← hb']
  dsimp only
  split
  · trivial
  split
  · trivial
  split
  · trivial
  rename_i hp hs hk
  refine Res.Post.bind (sliceFrom_post data 3 (by omega)) (fun buf hbuf => ?_)
  have hbl : buf.length = data.length - 3 := by rw [hbuf, List.length_drop]
  by_cases h7 : buf.length < 7
  · rw [if_pos h7]; trivial
  rw [if_neg h7]
  refine Res.Post.bind (idx_post buf 0 (by omega)) (fun s0 _ => ?_)
  refine Res.Post.bind (idx_post buf 1 (by omega)) (fun s1 _ => ?_)
  refine Res.Post.bind (idx_post buf 2 (by omega)) (fun s2 _ => ?_)
  split
  · trivial
  refine Res.Post.bind (slice_post buf 3 5 (by omega) (by omega)) (fun wb hwb => ?_)
  have hwbl : wb.length = 2 := by
    rw [hwb, List.length_drop, List.length_take]; omega
  refine Res.Post.bind (idx_post wb 0 (by omega)) (fun w0 ew0 => ?_)
  refine Res.Post.bind (idx_post wb 1 (by omega)) (fun w1 ew1 => ?_)
  refine Res.Post.bind (idx_post buf 4 (by omega)) (fun b4 eb4 => ?_)
  refine Res.Post.bind (slice_post buf 5 7 (by omega) (by omega)) (fun hb hhb => ?_)
  have hhbl : hb.length = 2 := by
    rw [hhb, List.length_drop, List.length_take]; omega
  refine Res.Post.bind (idx_post hb 0 (by omega)) (fun h0 eh0 => ?_)
  refine Res.Post.bind (idx_post hb 1 (by omega)) (fun h1 eh1 => ?_)
  refine Res.Post.bind (idx_post buf 6 (by omega)) (fun b6 eb6 => ?_)
  refine Res.Post.bind (sliceFrom_post buf 7 (by omega)) (fun rest _ => ?_)
  split
  · trivial
  · have hw0 : w0.toNat = byteAt buf 3 := by
      rw [ew0, hwb]; exact byteAt_slice buf 3 5 0 (by omega)
    have hw1 : w1.toNat = byteAt buf 4 := by
      rw [ew1, hwb]; exact byteAt_slice buf 3 5 1 (by omega)
    have hh0 : h0.toNat = byteAt buf 5 := by
      rw [eh0, hhb]; exact byteAt_slice buf 5 7 0 (by omega)
    have hh1 : h1.toNat = byteAt buf 6 := by
      rw [eh1, hhb]; exact byteAt_slice buf 5 7 1 (by omega)
    subst hbuf hb'
    refine ⟨by omega, ?_, rfl, ?_, rfl, ?_, ?_, ?_, ?_⟩
    · simpa using hk
    · simpa using hs
    · show (w0.toNat + w1.toNat * 256) % 16384 = _
      rw [hw0, hw1]; rfl
    · show (h0.toNat + h1.toNat * 256) % 16384 = _
      rw [hh0, hh1]; rfl
    · show b4.toNat / 64 = _
      rw [eb4]; rfl
    · show b6.toNat / 64 = _
      rw [eb6]; rfl

theorem frameTag_ok_fields {data : Bytes} {t : Tag} (h : frameTag data = .ok t) : TagFields data t := by
  have := frameTag_fields data
  rw [h] at this
  exact this

end Webp.Impl.CodecFront
