import Webp.Props.C04Refine6
/-
  C04 refinement, frame-level syntax of the FIRST partition: the per-macroblock mode parses of `parseFrame`
  (`parseIntraModeRow`, macroblocks in raster order, left contexts reset at each row start; the first-partition
  thread of `Webp.Impl.VP8SyntaxBytes.parseMBsBytes`) vs the specification's (`readMBHeader` in the macroblock loop
  of `Spec.VP8.decodeCore`: `mctx.left` reset per row), by induction over the macroblocks.
-/
namespace Webp.Proofs.C04RefinePart0
open Webp.Go (Bytes)
open Webp.Impl.BoolCoder
open Webp.Spec.VP8
open Webp.Impl.VP8SyntaxBytes (P runR rd)
open Webp.Impl.VP8Recon (Slot MBModes)
open Webp.Proofs.C04RefineBool Webp.Proofs.C04RefineOps Webp.Proofs.C04RefineTokens Webp.Proofs.C04RefineModes
open Webp.Proofs.C04RefineHeader (HdrRel)
open Webp.Proofs.C04RefineSyntax (rfcB rfcY)

/-- Go: the intra-mode contexts and per-column leftovers the first-partition pass carries
    (`intraT` / `topModes`, `intraL` / `leftModes`, `mbData[x].IModes`) -/
structure GoSt where
  topModes : Nat → Fin 4 → Nat
  leftModes : Fin 4 → Nat
  imodes : Nat → Fin 16 → Nat

/-- the first-partition thread of `parseMBsBytes`: macroblocks `ks` (raster indices) -/
def goPass (prob : Slot → UInt8) (um us : Bool) (mbW : Nat) :
    List Nat → GoSt → BoolReader → (Nat → Option MBModes) → Option ((Nat → Option MBModes) × GoSt × BoolReader)
  | [], st, r, out => some (out, st, r)
  | k :: ks, st, r, out =>
    let x := k % mbW
    let left := if x = 0 then (fun _ => 0) else st.leftModes
    (runR prob (Webp.Impl.VP8SyntaxBytes.T.parseModes um us (st.imodes x) { top := st.topModes x, left := left }) r).bind
      fun (mm, r') =>
        goPass prob um us mbW ks
          { topModes := fun x' => if x' = x then mm.2.top else st.topModes x'
            leftModes := mm.2.left
            imodes := fun x' => if x' = x then mm.1.imodes else st.imodes x' } r'
          (fun k' => if k' = k then some mm.1 else out k')

/-- the specification: `readMBHeader` over the same macroblocks, `left` reset at each row start -/
def specPass (h : FrameHdr) (mbW : Nat) :
    List Nat → ModeCtx → BoolDec → (Nat → Option MBInfo) → (Nat → Option MBInfo) × ModeCtx × BoolDec
  | [], c, d, out => (out, c, d)
  | k :: ks, c, d, out =>
    let x := k % mbW
    let c' : ModeCtx := if x = 0 then { c with left := Array.replicate 4 B_DC_PRED } else c
    specPass h mbW ks (readMBHeader h x c' d).2.1 (readMBHeader h x c' d).2.2
      (fun k' => if k' = k then some (readMBHeader h x c' d).1 else out k')

/-- contexts of the whole row of macroblock columns -/
structure FRel (mbW : Nat) (st : GoSt) (sc : ModeCtx) : Prop where
  a : ∀ x, x < mbW → ∀ j : Fin 4, sc.above.getD (4 * x + j.val) 0 = rfcB (st.topModes x j)
  l : ∀ j : Fin 4, sc.left.getD j.val 0 = rfcB (st.leftModes j)
  asz : sc.above.size = 4 * mbW
  lsz : 4 ≤ sc.left.size
  tlt : ∀ x, x < mbW → ∀ j, st.topModes x j < 10
  llt : ∀ j, st.leftModes j < 10

theorem rep4 (j : Fin 4) : (Array.replicate 4 B_DC_PRED).getD j.val 0 = rfcB 0 := by
  have : j = 0 ∨ j = 1 ∨ j = 2 ∨ j = 3 := by omega
  rcases this with rfl | rfl | rfl | rfl <;> rfl

theorem goPass_eof_mono (prob : Slot → UInt8) (um us : Bool) (mbW : Nat) :
    ∀ (ks : List Nat) (st : GoSt) (r : BoolReader) (out : Nat → Option MBModes) (res : (Nat → Option MBModes) × GoSt × BoolReader),
      goPass prob um us mbW ks st r out = some res → r.eof = true → res.2.2.eof = true := by
  intro ks
  induction ks with
  | nil => intro st r out res h he; cases h; exact he
  | cons k ks ih =>
    intro st r out res h he
    unfold goPass at h
    simp only [] at h
    cases hr : runR prob (Webp.Impl.VP8SyntaxBytes.T.parseModes um us (st.imodes (k % mbW))
        { top := st.topModes (k % mbW), left := if k % mbW = 0 then (fun _ => 0) else st.leftModes }) r with
    | none => rw [hr] at h; cases h
    | some y =>
      obtain ⟨mm, r'⟩ := y
      rw [hr] at h
      exact ih _ _ _ _ h (runR_eof_mono prob _ r mm r' hr he)

/-- outputs: the same macroblocks are filled, with related modes -/
def ORel : Option MBModes → Option MBInfo → Prop
  | none, none => True
  | some g, some m => ModeRel g m
  | _, _ => False

theorem goPass_cons (prob : Slot → UInt8) (um us : Bool) (mbW k : Nat) (ks : List Nat) (st : GoSt) (r : BoolReader)
    (out : Nat → Option MBModes) :
    goPass prob um us mbW (k :: ks) st r out =
      (runR prob (Webp.Impl.VP8SyntaxBytes.T.parseModes um us (st.imodes (k % mbW))
        { top := st.topModes (k % mbW), left := if k % mbW = 0 then (fun _ => 0) else st.leftModes }) r).bind
      fun mm => goPass prob um us mbW ks
          { topModes := fun x' => if x' = k % mbW then mm.1.2.top else st.topModes x'
            leftModes := mm.1.2.left
            imodes := fun x' => if x' = k % mbW then mm.1.1.imodes else st.imodes x' } mm.2
          (fun k' => if k' = k then some mm.1.1 else out k') := by
  rw [goPass]

/-- the context `readMBHeader` gets at macroblock column `x` -/
def rowCtx (x : Nat) (c : ModeCtx) : ModeCtx :=
  if x = 0 then { c with left := Array.replicate 4 B_DC_PRED } else c

theorem rowCtx_above (x : Nat) (c : ModeCtx) : (rowCtx x c).above = c.above := by
  unfold rowCtx; split <;> rfl

theorem specPass_cons (h : FrameHdr) (mbW k : Nat) (ks : List Nat) (c : ModeCtx) (d : BoolDec) (out : Nat → Option MBInfo) :
    specPass h mbW (k :: ks) c d out =
      specPass h mbW ks (readMBHeader h (k % mbW) (rowCtx (k % mbW) c) d).2.1 (readMBHeader h (k % mbW) (rowCtx (k % mbW) c) d).2.2
        (fun k' => if k' = k then some (readMBHeader h (k % mbW) (rowCtx (k % mbW) c) d).1 else out k') := by
  rw [specPass]; rfl

theorem crel_of_frel {mbW : Nat} {st : GoSt} {sc : ModeCtx} (hf : FRel mbW st sc) (x : Nat) (hx : x < mbW) :
    CRel x (rowCtx x sc).above { top := st.topModes x, left := if x = 0 then (fun _ => 0) else st.leftModes } (rowCtx x sc) := by
  refine CRel.mk ?_ ?_ (fun _ _ => rfl) rfl ?_ ?_ (hf.tlt x hx) ?_
  · intro j; rw [rowCtx_above]; exact hf.a x hx j
  · intro j
    unfold rowCtx
    by_cases h0 : x = 0
    · rw [if_pos h0, if_pos h0]; exact rep4 j
    · rw [if_neg h0, if_neg h0]; exact hf.l j
  · rw [rowCtx_above, hf.asz]; omega
  · unfold rowCtx
    by_cases h0 : x = 0
    · rw [if_pos h0]; show 4 ≤ (Array.replicate 4 B_DC_PRED).size; simp
    · rw [if_neg h0]; exact hf.lsz
  · intro j
    by_cases h0 : x = 0
    · rw [if_pos h0]; show (0 : Nat) < 10; omega
    · rw [if_neg h0]; exact hf.llt j

theorem frel_of_crel {mbW : Nat} {st : GoSt} {sc : ModeCtx} (hf : FRel mbW st sc) (x : Nat) (_hx : x < mbW)
    (gc' : Webp.Impl.VP8Recon.ModeCtx) (sc' : ModeCtx) (im : Nat → Fin 16 → Nat)
    (hc : CRel x (rowCtx x sc).above gc' sc') :
    FRel mbW { topModes := fun x' => if x' = x then gc'.top else st.topModes x', leftModes := gc'.left, imodes := im } sc' := by
  refine FRel.mk ?_ hc.l ?_ hc.lsz ?_ hc.llt
  · intro x' hx' j
    show _ = rfcB ((if x' = x then gc'.top else st.topModes x') j)
    by_cases he : x' = x
    · rw [if_pos he, he]; exact hc.a j
    · rw [if_neg he, hc.o (4 * x' + j.val) (by have := j.isLt; omega), rowCtx_above]
      exact hf.a x' hx' j
  · rw [hc.asz, rowCtx_above]; exact hf.asz
  · intro x' hx' j
    show (if x' = x then gc'.top else st.topModes x') j < 10
    by_cases he : x' = x
    · rw [if_pos he]; exact hc.tlt j
    · rw [if_neg he]; exact hf.tlt x' hx' j

/-- **the first partition, all macroblocks**: induction over the macroblock list -/
theorem pass_sim (prob : Slot → UInt8) (hfix : FixedOK prob) (hb : BModeOK prob) (h : FrameHdr)
    (hseg : h.seg.updateMap = true → ∀ i, i ≤ 2 → (prob (.seg i)).toNat = h.seg.treeProbs.getD i 255)
    (hskip : h.skipEnabled = true → (prob .skip).toNat = h.probSkipFalse) (mbW : Nat) (hW : 0 < mbW) (F : Bytes) :
    ∀ (ks : List Nat) (st : GoSt) (r : BoolReader) (out : Nat → Option MBModes) (sc : ModeCtx) (d : BoolDec)
      (sout : Nat → Option MBInfo) (res : (Nat → Option MBModes) × GoSt × BoolReader),
      FRel mbW st sc → Sim F r d → (∀ k, ORel (out k) (sout k)) →
      goPass prob h.seg.updateMap h.skipEnabled mbW ks st r out = some res → res.2.2.eof = false →
      (∀ k, ORel (res.1 k) ((specPass h mbW ks sc d sout).1 k)) ∧
        FRel mbW res.2.1 (specPass h mbW ks sc d sout).2.1 ∧ Sim F res.2.2 (specPass h mbW ks sc d sout).2.2 := by
  intro ks
  induction ks with
  | nil =>
    intro st r out sc d sout res hf hs ho hg _
    rw [goPass] at hg; cases hg
    exact ⟨ho, hf, hs⟩
  | cons k ks ih =>
    intro st r out sc d sout res hf hs ho hg he
    rw [goPass_cons] at hg
    rw [specPass_cons]
    have hx : k % mbW < mbW := Nat.mod_lt _ hW
    cases hr : runR prob (Webp.Impl.VP8SyntaxBytes.T.parseModes h.seg.updateMap h.skipEnabled (st.imodes (k % mbW))
        { top := st.topModes (k % mbW), left := if k % mbW = 0 then (fun _ => 0) else st.leftModes }) r with
    | none => rw [hr] at hg; cases hg
    | some y =>
      obtain ⟨⟨m, gc'⟩, r'⟩ := y
      rw [hr] at hg
      have hg' : goPass prob h.seg.updateMap h.skipEnabled mbW ks
          { topModes := fun x' => if x' = k % mbW then gc'.top else st.topModes x'
            leftModes := gc'.left
            imodes := fun x' => if x' = k % mbW then m.imodes else st.imodes x' } r'
          (fun k' => if k' = k then some m else out k') = some res := hg
      have he' : r'.eof = false := by
        cases hre : r'.eof with
        | false => rfl
        | true => rw [goPass_eof_mono prob _ _ mbW ks _ r' _ res hg' hre] at he; cases he
      have hfree := treeFree_of_eof prob _ r _ r' hr he'
      obtain ⟨m2, gc2, r2, hrun, hm, hc, hs'⟩ :=
        Webp.Props.C04Refine6.mb_modes_eq_spec prob hfix hb h hseg hskip (k % mbW) (st.imodes (k % mbW)) _ _ (crel_of_frel hf (k % mbW) hx) hs hfree
      rw [hr] at hrun
      cases hrun
      refine ih _ r' _ _ _ _ res (frel_of_crel hf (k % mbW) hx gc' _ _ hc) hs' ?_ hg' he
      intro k'
      by_cases hk : k' = k
      · rw [if_pos hk, if_pos hk]; exact hm
      · rw [if_neg hk, if_neg hk]; exact ho k'

def GoSt.init (im : Nat → Fin 16 → Nat) : GoSt := { topModes := fun _ _ => 0, leftModes := fun _ => 0, imodes := im }

/-- the contexts a frame starts with: Go's zeroed `intraT` / `intraL`, the RFC's `B_DC_PRED` everywhere -/
theorem frel_init (mbW : Nat) (im : Nat → Fin 16 → Nat) :
    FRel mbW (GoSt.init im) { above := Array.replicate (4 * mbW) B_DC_PRED } := by
  refine FRel.mk ?_ ?_ ?_ ?_ ?_ ?_
  · intro x hx j
    show (Array.replicate (4 * mbW) B_DC_PRED).getD (4 * x + j.val) 0 = rfcB 0
    have := j.isLt
    rw [Array.getD_eq_getD_getElem?, Array.getElem?_eq_getElem (by simp only [Array.size_replicate]; omega)]
    simp only [Array.getElem_replicate, Option.getD_some]; rfl
  · intro j
    have : j = 0 ∨ j = 1 ∨ j = 2 ∨ j = 3 := by omega
    rcases this with rfl | rfl | rfl | rfl <;> rfl
  · simp
  · show 4 ≤ (#[0, 0, 0, 0] : Array Nat).size; decide
  · intro _ _ _; show (0 : Nat) < 10; omega
  · intro _; show (0 : Nat) < 10; omega

theorem specPass_some (h : FrameHdr) (mbW : Nat) :
    ∀ (ks : List Nat) (c : ModeCtx) (d : BoolDec) (out : Nat → Option MBInfo) (k : Nat),
      (k ∈ ks ∨ (out k).isSome = true) → ((specPass h mbW ks c d out).1 k).isSome = true := by
  intro ks
  induction ks with
  | nil => intro c d out k hk; rw [specPass]; rcases hk with hk | hk; exact absurd hk (by simp); exact hk
  | cons k0 ks ih =>
    intro c d out k hk
    rw [specPass_cons]
    apply ih
    by_cases he : k = k0
    · right; rw [if_pos he]; rfl
    · rw [if_neg he]
      rcases hk with hk | hk
      · left; simpa [he] using hk
      · right; exact hk

/-- `goPass` is the first-partition thread of the decoder model `parseMBsBytes` -/
theorem goPass_of_parseMBs (K : Webp.Impl.VP8Recon.Kernels) (dqm : Fin 4 → Webp.Impl.VP8Recon.QuantMatrix)
    (fs : Webp.Impl.VP8Recon.FrameSyntax) (prob : Slot → UInt8) :
    ∀ (ks : List Nat) (c : Webp.Impl.VP8Recon.TokCtx) (r0 : BoolReader) (rp : Nat → BoolReader)
      (col : Webp.Impl.VP8Recon.ColData) (out : Nat → MBModes × Webp.Impl.VP8Recon.ResData) (gout : Nat → Option MBModes)
      (res : (Nat → MBModes × Webp.Impl.VP8Recon.ResData) × BoolReader × (Nat → BoolReader)),
      Webp.Impl.VP8SyntaxBytes.parseMBsBytes K dqm fs prob ks c r0 rp col out = some res →
      (∀ k m, gout k = some m → (out k).1 = m) →
      ∃ gres, goPass prob fs.updateMap fs.useSkip fs.mbW ks
          { topModes := c.topModes, leftModes := c.leftModes, imodes := col.imodes } r0 gout = some gres ∧
        gres.2.2 = res.2.1 ∧ (∀ k m, gres.1 k = some m → (res.1 k).1 = m) := by
  intro ks
  induction ks with
  | nil =>
    intro c r0 rp col out gout res hp ho
    rw [Webp.Impl.VP8SyntaxBytes.parseMBsBytes] at hp; cases hp
    exact ⟨_, by rw [goPass], rfl, ho⟩
  | cons k ks ih =>
    intro c r0 rp col out gout res hp ho
    rw [Webp.Impl.VP8SyntaxBytes.parseMBsBytes] at hp
    simp only [] at hp
    rw [goPass_cons]
    have hctx : (if k % fs.mbW = 0 then c.rowStart else c).modes (k % fs.mbW) =
        { top := c.topModes (k % fs.mbW), left := if k % fs.mbW = 0 then (fun _ => 0) else c.leftModes } := by
      by_cases h0 : k % fs.mbW = 0
      · rw [if_pos h0, if_pos h0]; rfl
      · rw [if_neg h0, if_neg h0]; rfl
    rw [hctx] at hp
    cases hr : runR prob (Webp.Impl.VP8SyntaxBytes.T.parseModes fs.updateMap fs.useSkip (col.imodes (k % fs.mbW))
        { top := c.topModes (k % fs.mbW), left := if k % fs.mbW = 0 then (fun _ => 0) else c.leftModes }) r0 with
    | none => rw [hr] at hp; cases hp
    | some y =>
      obtain ⟨mm, r0'⟩ := y
      rw [hr] at hp
      simp only [Option.bind_some] at hp ⊢
      cases hq : runR prob (Webp.Impl.VP8SyntaxBytes.T.parseTokens K (dqm (Webp.Impl.VP8Recon.segFin mm.1.segment)) mm.1.isI4 mm.1.skip
          fs.useSkip (col.coeffs (k % fs.mbW)) ((if k % fs.mbW = 0 then c.rowStart else c).nz (k % fs.mbW)))
          (rp (k / fs.mbW &&& (fs.numParts - 1))) with
      | none => rw [hq] at hp; cases hp
      | some z =>
        obtain ⟨rn, rpi'⟩ := z
        rw [hq] at hp
        simp only [Option.bind_some] at hp
        have hih := ih _ _ _ _ _ (fun k' => if k' = k then some mm.1 else gout k') res hp (by
          intro k' m hk'
          by_cases he : k' = k
          · rw [if_pos he] at hk' ⊢; cases hk'; rfl
          · rw [if_neg he] at hk' ⊢; exact ho k' m hk')
        have hst : (((if k % fs.mbW = 0 then c.rowStart else c).setModes (k % fs.mbW) mm.2).setNz (k % fs.mbW) rn.2).topModes =
            (fun x' => if x' = k % fs.mbW then mm.2.top else c.topModes x') ∧
            (((if k % fs.mbW = 0 then c.rowStart else c).setModes (k % fs.mbW) mm.2).setNz (k % fs.mbW) rn.2).leftModes = mm.2.left := by
          by_cases h0 : k % fs.mbW = 0
          · rw [if_pos h0]; exact ⟨rfl, rfl⟩
          · rw [if_neg h0]; exact ⟨rfl, rfl⟩
        rw [hst.1, hst.2] at hih
        exact hih

end Webp.Proofs.C04RefinePart0
