import Webp.Proofs.VP8LWindow3Image
import Webp.Impl.VP8LWindow3
/-
  The WINDOW BUDGET, part 12: the level-0 sequence (`decodeImageStream(…, true)` + `decodeImageData`)
  on the window reader against the specification's stream decode after the header.
-/
namespace Webp.Proofs.VP8LWindow
open Webp.Go (Res)
open Webp.Spec.VP8L (BitReader Err Token Code Group EntropyParams Transform readGroup readEntropyCodedImage
  decodePixels readColorCacheInfo readTransformData readTransforms readMetaPrefix subSampleSize packedWidth
  deltaDecodePalette)
open Webp.Impl.VP8LEntropy
open Webp.Impl.VP8LWindow
open Webp.Impl.VP8LFastPaths (HTreeGroup Tables5 MaxLens5 mkGroup)
open Webp.Proofs.VP8LEntropyReader

/-! ## after the end of the input -/

theorem readBits_flag {r : Reader} (hd : Doomed r) (n : Nat) : (r.readBits n).2.eos = true := by
  by_cases he : r.eos = true
  · exact (readBits_eos r n he).2
  · have he' : r.eos = false := by cases hh : r.eos <;> simp_all
    have hp : r.pos = r.buf.size ∧ 64 < r.bitPos := by
      unfold Doomed Reader.isEndOfStream at hd
      simpa [he'] using hd
    unfold Reader.readBits
    by_cases hn : n ≤ 24
    · rw [if_pos (by simp [he', hn])]
      show (Reader.shiftBytes { r with bitPos := r.bitPos + n }).eos = true
      unfold Reader.shiftBytes
      have hsl : Reader.shiftLoop ((r.bitPos + n) / 8 + 1) { r with bitPos := r.bitPos + n } =
          { r with bitPos := r.bitPos + n } := by
        unfold Reader.shiftLoop
        rw [if_neg (by show ¬ (r.bitPos + n ≥ 8 ∧ r.pos < r.buf.size); omega)]
      simp only [hsl]
      have hd2 : ({ r with bitPos := r.bitPos + n } : Reader).isEndOfStream = true := by
        unfold Reader.isEndOfStream
        simp only [he', Bool.false_or, Bool.and_eq_true, beq_iff_eq, decide_eq_true_eq]
        exact ⟨hp.1, by omega⟩
      rw [if_pos hd2]
      rfl
    · rw [if_neg (by simp [hn])]
      rfl

/-- with the flag set `ReadBits` returns 0 -/
theorem readBits_zero {r : Reader} (he : r.eos = true) (n : Nat) : (r.readBits n).1 = 0 := (readBits_eos r n he).1

theorem decodeEntropyImageGo_doomed (w h : Nat) {r : Reader} (hd : Doomed r) :
    ∃ e, decodeEntropyImageGo w h r = .err e := by
  unfold decodeEntropyImageGo
  by_cases hb : (r.readBits 1).1 = 1
  · rw [if_pos hb]
    exact ite_err _ _ _ (imageBody_doomed w h _ (doomed_readBits (doomed_readBits hd 1) 4))
  · rw [if_neg hb]
    exact imageBody_doomed w h 0 (doomed_readBits hd 1)

/-! ## one transform -/

/-- the specification's view of what `readTransform` recorded -/
def xformSpec (x : XForm) : Transform :=
  if x.ty = 0 then .predictor x.bits x.data
  else if x.ty = 1 then .crossColor x.bits x.data
  else if x.ty = 2 then .subtractGreen
  else .colorIndexing (deltaDecodePalette x.data)

theorem xformSpec_kind (x : XForm) (h : x.ty < 4) : (xformSpec x).kind = x.ty := by
  unfold xformSpec
  have : x.ty = 0 ∨ x.ty = 1 ∨ x.ty = 2 ∨ x.ty = 3 := by omega
  rcases this with h | h | h | h <;> simp [h, Transform.kind]

theorem subSample_le (w b : Nat) : subSampleSize w b ≤ w + 2 ^ b := by
  unfold subSampleSize
  rw [Nat.shiftRight_eq_div_pow, Nat.one_shiftLeft]
  have h1 := Nat.div_le_self (w + 2 ^ b - 1) (2 ^ b)
  have hp : 0 < 2 ^ b := Nat.pow_pos (by decide)
  generalize 2 ^ b = q at h1 hp ⊢
  generalize (w + q - 1) / q = d at h1 ⊢
  omega

theorem subSample_le_self (w b : Nat) : subSampleSize w b ≤ w := by
  unfold subSampleSize
  rw [Nat.shiftRight_eq_div_pow, Nat.one_shiftLeft]
  have hp : 0 < 2 ^ b := Nat.pow_pos (by decide)
  generalize 2 ^ b = q at hp
  cases w with
  | zero =>
    rw [Nat.zero_add]
    exact Nat.le_of_eq (Nat.div_eq_of_lt (by omega))
  | succ n =>
    apply Nat.div_le_of_le_mul
    have : q * (n + 1) = q * n + q := Nat.mul_succ q n
    have : n ≤ q * n := Nat.le_mul_of_pos_left n hp
    omega

/-- outcome of `transformData` against `readTransformData` -/
def XOut (buf : Array UInt8) (ty w : Nat) (go : Res Err ((XForm × Nat) × Reader))
    (sp : Res Err (Transform × Nat × BitReader)) : Prop :=
  match sp with
  | .ok (t, w', br') => ∃ x r' P', go = .ok ((x, w'), r') ∧ t = xformSpec x ∧ x.ty = ty ∧ x.xsize = w ∧
      w' ≤ w ∧ br' = brAt buf P' ∧ Good buf r' P' 62
  | .err _ => ∃ e', go = .err e'
  | .panic => True
  | .hang => True

theorem pair_eta {α β : Type} (p : α × β) : p = (p.1, p.2) := rfl

theorem transformData_go (ty w h : Nat) (r : Reader) :
    transformData goOps2 goSubs ty w h r =
      if ty = 0 ∨ ty = 1 then
        subXForm goSubs ty w (2 + (r.readBits 3).1.toNat) w (subSampleSize w (2 + (r.readBits 3).1.toNat))
          (subSampleSize h (2 + (r.readBits 3).1.toNat)) (r.readBits 3).2
      else if ty = 3 then
        subXForm goSubs ty w (palBits ((r.readBits 8).1.toNat + 1)) (subSampleSize w (palBits ((r.readBits 8).1.toNat + 1)))
          ((r.readBits 8).1.toNat + 1) 1 (r.readBits 8).2
      else .ok ((⟨ty, w, 0, #[]⟩, w), r) := rfl

/-- a transform with a sub-image: the sub-image is the specification's, the register position `≤ 62` after it -/
theorem subXForm_agree {buf : Array UInt8} (ty xs bits outW w h : Nat) (hw : w ≤ 153391689) {r : Reader} {P : Nat}
    (hg : Good buf r P 63) :
    match readEntropyCodedImage w h (brAt buf P) with
    | .ok (d, br') => ∃ r' P', subXForm goSubs ty xs bits outW w h r = .ok ((⟨ty, xs, bits, d⟩, outW), r') ∧
        br' = brAt buf P' ∧ Good buf r' P' 62
    | .err _ => ∃ e', subXForm goSubs ty xs bits outW w h r = .err e'
    | .panic => True
    | .hang => True := by
  have hsub := decodeEntropyImage_agree62 (buf := buf) w h hw hg
  have hsi : goSubs.subImage w h r = decodeEntropyImageGo w h r := rfl
  unfold subXForm
  rw [hsi]
  cases hs : readEntropyCodedImage w h (brAt buf P) with
  | ok y =>
    obtain ⟨d, br2⟩ := y
    rw [hs] at hsub
    obtain ⟨a, r', P', hgo, rfl, hbr, hg'⟩ := hsub
    rw [hgo]
    exact ⟨r', P', rfl, hbr, hg'⟩
  | err e =>
    rw [hs] at hsub
    obtain ⟨e', hgo⟩ := hsub
    rw [hgo]
    exact ⟨e', rfl⟩
  | panic => trivial
  | hang => trivial

theorem subXForm_doomed (ty xs bits outW w h : Nat) {r : Reader} (hd : Doomed r) :
    ∃ e, subXForm goSubs ty xs bits outW w h r = .err e := by
  obtain ⟨e, he⟩ := decodeEntropyImageGo_doomed w h hd
  have hsi : goSubs.subImage w h r = decodeEntropyImageGo w h r := rfl
  unfold subXForm
  rw [hsi]
  rw [he]
  exact ⟨e, rfl⟩

theorem transformData_agree {buf : Array UInt8} (ty w h : Nat) (hty : ty < 4) (hw : w ≤ 100000000)
    (hh : h ≤ 100000000) {r : Reader} {P : Nat} (hg : Good buf r P 7) :
    XOut buf ty w (transformData goOps2 goSubs ty w h r) (readTransformData ty w h (brAt buf P)) := by
  have hcases : ty = 0 ∨ ty = 1 ∨ ty = 2 ∨ ty = 3 := by omega
  rw [transformData_go]
  have key01 : ∀ (mk : Nat → Array UInt32 → Transform) (tyv : Nat),
      (∀ b d, mk b d = xformSpec { ty := tyv, xsize := w, bits := b, data := d }) →
      (readTransformData tyv w h (brAt buf P) = match (brAt buf P).readBits 3 with
          | .ok (b, br) =>
            match readEntropyCodedImage (subSampleSize w (b + 2)) (subSampleSize h (b + 2)) br with
            | .ok (modes, br) => .ok (mk (b + 2) modes, w, br)
            | .err e => .err e
            | .panic => .panic
            | .hang => .hang
          | .err e => .err e
          | .panic => .panic
          | .hang => .hang) →
      XOut buf tyv w
        (subXForm goSubs tyv w (2 + (r.readBits 3).1.toNat) w (subSampleSize w (2 + (r.readBits 3).1.toNat))
          (subSampleSize h (2 + (r.readBits 3).1.toNat)) (r.readBits 3).2)
        (readTransformData tyv w h (brAt buf P)) := by
    intro mk tyv hmk hsp
    rw [hsp]
    revert mk tyv
    intro mk tyv hmk _
    show XOut buf tyv w _ (match (brAt buf P).readBits 3 with
          | .ok (b, br) =>
            match readEntropyCodedImage (subSampleSize w (b + 2)) (subSampleSize h (b + 2)) br with
            | .ok (modes, br) => .ok (mk (b + 2) modes, w, br)
            | .err e => .err e
            | .panic => .panic
            | .hang => .hang
          | .err e => .err e
          | .panic => .panic
          | .hang => .hang)
    have hb3 := readBits_lt r 3 (by omega)
    rcases readBits_good hg 3 (by omega) (by omega) with ⟨h3, g3⟩ | ⟨h3, d3⟩
    · rw [h3]
      dsimp only
      rw [Nat.add_comm (r.readBits 3).1.toNat 2]
      have hsw := subSample_le w (2 + (r.readBits 3).1.toNat)
      have hp : 2 ^ (2 + (r.readBits 3).1.toNat) ≤ 2 ^ 9 := Nat.pow_le_pow_right (by decide) (by omega)
      have hsub := subXForm_agree (buf := buf) tyv w (2 + (r.readBits 3).1.toNat) w
        (subSampleSize w (2 + (r.readBits 3).1.toNat)) (subSampleSize h (2 + (r.readBits 3).1.toNat)) (by omega)
        (g3.mono (by omega))
      cases hs : readEntropyCodedImage (subSampleSize w (2 + (r.readBits 3).1.toNat))
          (subSampleSize h (2 + (r.readBits 3).1.toNat)) (brAt buf (P + 3)) with
      | ok y =>
        obtain ⟨modes, br2⟩ := y
        rw [hs] at hsub
        obtain ⟨r', P', hgo, hbr, hg'⟩ := hsub
        rw [hgo]
        exact ⟨_, r', P', rfl, hmk _ _, rfl, rfl, Nat.le_refl _, hbr, hg'⟩
      | err e =>
        rw [hs] at hsub
        exact hsub
      | panic => trivial
      | hang => trivial
    · rw [h3]
      exact subXForm_doomed _ _ _ _ _ _ d3
  rcases hcases with rfl | rfl | rfl | rfl
  · rw [if_pos (by decide)]
    refine key01 Transform.predictor 0 (fun b d => by simp [xformSpec]) ?_
    unfold readTransformData
    simp only [bind, Res.bind, pure]
    cases (brAt buf P).readBits 3 with
    | ok x => obtain ⟨b, br1⟩ := x; dsimp only; cases readEntropyCodedImage _ _ br1 <;> rfl
    | err e => rfl
    | panic => rfl
    | hang => rfl
  · rw [if_pos (by decide)]
    refine key01 Transform.crossColor 1 (fun b d => by simp [xformSpec]) ?_
    unfold readTransformData
    simp only [bind, Res.bind, pure]
    cases (brAt buf P).readBits 3 with
    | ok x => obtain ⟨b, br1⟩ := x; dsimp only; cases readEntropyCodedImage _ _ br1 <;> rfl
    | err e => rfl
    | panic => rfl
    | hang => rfl
  · rw [if_neg (by decide), if_neg (by decide)]
    have hsp : readTransformData 2 w h (brAt buf P) = .ok (.subtractGreen, w, brAt buf P) := rfl
    rw [hsp]
    exact ⟨_, r, P, rfl, by simp [xformSpec], rfl, rfl, Nat.le_refl _, rfl, hg.mono (by omega)⟩
  · -- colour indexing
    rw [if_neg (by decide), if_pos rfl]
    have hsp : readTransformData 3 w h (brAt buf P) = (match (brAt buf P).readBits 8 with
        | .ok (n, br) =>
          match readEntropyCodedImage (n + 1) 1 br with
          | .ok (coded, br) => .ok (.colorIndexing (deltaDecodePalette coded), packedWidth w (n + 1), br)
          | .err e => .err e
          | .panic => .panic
          | .hang => .hang
        | .err e => .err e
        | .panic => .panic
        | .hang => .hang) := by
      unfold readTransformData
      simp only [bind, Res.bind, pure]
      cases (brAt buf P).readBits 8 with
      | ok x => obtain ⟨b, br1⟩ := x; dsimp only; cases readEntropyCodedImage _ _ br1 <;> rfl
      | err e => rfl
      | panic => rfl
      | hang => rfl
    rw [hsp]
    show XOut buf 3 w _
      (match (brAt buf P).readBits 8 with
        | .ok (n, br) =>
          match readEntropyCodedImage (n + 1) 1 br with
          | .ok (coded, br) => .ok (.colorIndexing (deltaDecodePalette coded), packedWidth w (n + 1), br)
          | .err e => .err e
          | .panic => .panic
          | .hang => .hang
        | .err e => .err e
        | .panic => .panic
        | .hang => .hang)
    have hb8 := readBits_lt r 8 (by omega)
    rcases readBits_good hg 8 (by omega) (by omega) with ⟨h8, g8⟩ | ⟨h8, d8⟩
    · rw [h8]
      dsimp only
      have hsub := subXForm_agree (buf := buf) 3 w (palBits ((r.readBits 8).1.toNat + 1))
        (subSampleSize w (palBits ((r.readBits 8).1.toNat + 1))) ((r.readBits 8).1.toNat + 1) 1 (by omega)
        (g8.mono (by omega))
      have hpw : packedWidth w ((r.readBits 8).1.toNat + 1) = subSampleSize w (palBits ((r.readBits 8).1.toNat + 1)) := by
        unfold packedWidth Webp.Spec.VP8L.packingBits palBits
        congr 1
        generalize (r.readBits 8).1.toNat + 1 = nc
        by_cases c1 : nc ≤ 2
        · rw [if_pos c1, if_neg (by omega), if_neg (by omega), if_neg (by omega)]
        · rw [if_neg c1]
          by_cases c2 : nc ≤ 4
          · rw [if_pos c2, if_neg (by omega), if_neg (by omega), if_pos (by omega)]
          · rw [if_neg c2]
            by_cases c3 : nc ≤ 16
            · rw [if_pos c3, if_neg (by omega), if_pos (by omega)]
            · rw [if_neg c3, if_pos (by omega)]
      cases hs : readEntropyCodedImage ((r.readBits 8).1.toNat + 1) 1 (brAt buf (P + 8)) with
      | ok y =>
        obtain ⟨coded, br2⟩ := y
        rw [hs] at hsub
        obtain ⟨r', P', hgo, hbr, hg'⟩ := hsub
        rw [hgo, hpw]
        exact ⟨_, r', P', rfl, by simp [xformSpec], rfl, rfl, subSample_le_self _ _, hbr, hg'⟩
      | err e =>
        rw [hs] at hsub
        exact hsub
      | panic => trivial
      | hang => trivial
    · rw [h8]
      exact subXForm_doomed _ _ _ _ _ _ d8

/-! ## the transform loop -/

theorem readTransformAt_go (seen : List Nat) (w h : Nat) (r : Reader) :
    readTransformAt goOps2 goSubs seen w h r =
      if (r.readBits 2).1.toNat ∈ seen then .err .dupTransform
      else
        match transformData goOps2 goSubs (r.readBits 2).1.toNat w h (r.readBits 2).2 with
        | .ok ((x, xsize'), r') => .ok ((x, xsize', (r.readBits 2).1.toNat), r')
        | .err e => .err e
        | .panic => .panic
        | .hang => .hang := by
  unfold readTransformAt
  show (if (r.readBits 2).1.toNat ∈ seen then _ else _) = _
  by_cases hm : (r.readBits 2).1.toNat ∈ seen
  · rw [if_pos hm, if_pos hm]
  · rw [if_neg hm, if_neg hm]
    simp only [goOps2_readBits]
    cases transformData goOps2 goSubs (r.readBits 2).1.toNat w h (r.readBits 2).2 <;> rfl

theorem transformLoop_succ_go (h fuel w : Nat) (seen : List Nat) (acc : Array XForm) (r : Reader) :
    transformLoop goOps2 goSubs h (fuel + 1) w seen acc r =
      if (r.readBits 1).1 = 1 then
        match readTransformAt goOps2 goSubs seen w h (r.readBits 1).2 with
        | .ok ((x, xsize', ty), r') => transformLoop goOps2 goSubs h fuel xsize' (ty :: seen) (acc.push x) r'
        | .err e => .err e
        | .panic => .panic
        | .hang => .hang
      else .ok ((acc, w), (r.readBits 1).2) := by
  rw [transformLoop]
  show (if (r.readBits 1).1 = 1 then _ else _) = _
  by_cases hb : (r.readBits 1).1 = 1
  · rw [if_pos hb, if_pos hb]
    simp only [goOps2_readBits, goOps2_note]
    cases readTransformAt goOps2 goSubs seen w h (r.readBits 1).2 <;> rfl
  · rw [if_neg hb, if_neg hb]
    rfl

/-- with the end-of-stream flag set a transform read fails, unless it is a subtract-green (no data) -/
theorem transformData_flag (ty w h : Nat) {r : Reader} (hd : Doomed r) :
    (∃ e, transformData goOps2 goSubs ty w h r = .err e) ∨
    ∃ x, transformData goOps2 goSubs ty w h r = .ok (x, r) := by
  rw [transformData_go]
  by_cases h01 : ty = 0 ∨ ty = 1
  · rw [if_pos h01]; exact Or.inl (subXForm_doomed _ _ _ _ _ _ (doomed_readBits hd 3))
  · rw [if_neg h01]
    by_cases h3 : ty = 3
    · rw [if_pos h3]; exact Or.inl (subXForm_doomed _ _ _ _ _ _ (doomed_readBits hd 8))
    · rw [if_neg h3]; exact Or.inr ⟨_, rfl⟩

/-- once the flag is set the transform loop ends at once: `ReadBits(1)` returns 0 -/
theorem transformLoop_flag (h fuel w : Nat) (seen : List Nat) (acc : Array XForm) {r : Reader} (he : r.eos = true) :
    ∃ r', transformLoop goOps2 goSubs h (fuel + 1) w seen acc r = .ok ((acc, w), r') ∧ Doomed r' := by
  rw [transformLoop_succ_go, readBits_zero he 1, if_neg (by decide)]
  exact ⟨_, rfl, isEndOfStream_of_eos (readBits_eos r 1 he).2⟩

/-- from a reader past the end, the loop (fuel ≥ 2) fails or ends with the reader still past the end -/
theorem transformLoop_doomed (h fuel w : Nat) (seen : List Nat) (acc : Array XForm) {r : Reader} (hd : Doomed r) :
    (∃ e, transformLoop goOps2 goSubs h (fuel + 2) w seen acc r = .err e) ∨
    ∃ a r', transformLoop goOps2 goSubs h (fuel + 2) w seen acc r = .ok (a, r') ∧ Doomed r' := by
  rw [transformLoop_succ_go]
  have hf1 := readBits_flag hd 1
  by_cases hb : (r.readBits 1).1 = 1
  · rw [if_pos hb, readTransformAt_go]
    by_cases hm : ((r.readBits 1).2.readBits 2).1.toNat ∈ seen
    · rw [if_pos hm]; exact Or.inl ⟨_, rfl⟩
    · rw [if_neg hm]
      have hf2 := readBits_flag (isEndOfStream_of_eos hf1) 2
      rcases transformData_flag ((r.readBits 1).2.readBits 2).1.toNat w h (isEndOfStream_of_eos hf2) with ⟨e, he⟩ | ⟨x, hx⟩
      · rw [he]; exact Or.inl ⟨e, rfl⟩
      · rw [hx]
        dsimp only
        obtain ⟨r', h1, h2⟩ := transformLoop_flag h fuel x.2 (((r.readBits 1).2.readBits 2).1.toNat :: seen) (acc.push x.1) hf2
        exact Or.inr ⟨_, r', h1, h2⟩
  · rw [if_neg hb]
    exact Or.inr ⟨_, _, rfl, isEndOfStream_of_eos hf1⟩

/-- Go's exits against a failing specification: an error, or success with the reader past the end
    (the `IsEndOfStream` test of `readHuffmanCodes` follows) -/
def FailOr2 {α : Type} (go : Res Err (α × Reader)) : Prop :=
  (∃ e, go = .err e) ∨ ∃ a r', go = .ok (a, r') ∧ Doomed r'

/-- the loop body once the reader behind `ReadBits(1)` is past the end -/
theorem loopBody_doomed (h fuel w : Nat) (seen : List Nat) (acc : Array XForm) (b : UInt32) {r1 : Reader}
    (hd : Doomed r1) :
    FailOr2 (if b = 1 then
        match readTransformAt goOps2 goSubs seen w h r1 with
        | .ok ((x, xsize', ty), r') => transformLoop goOps2 goSubs h (fuel + 1) xsize' (ty :: seen) (acc.push x) r'
        | .err e => .err e
        | .panic => .panic
        | .hang => .hang
      else .ok ((acc, w), r1)) := by
  by_cases hb : b = 1
  · rw [if_pos hb, readTransformAt_go]
    by_cases hm : (r1.readBits 2).1.toNat ∈ seen
    · rw [if_pos hm]; exact Or.inl ⟨_, rfl⟩
    · rw [if_neg hm]
      have hf2 := readBits_flag hd 2
      rcases transformData_flag (r1.readBits 2).1.toNat w h (isEndOfStream_of_eos hf2) with ⟨e, he⟩ | ⟨x, hx⟩
      · rw [he]; exact Or.inl ⟨e, rfl⟩
      · rw [hx]
        dsimp only
        obtain ⟨r', h1, h2⟩ := transformLoop_flag h fuel x.2 ((r1.readBits 2).1.toNat :: seen) (acc.push x.1) hf2
        exact Or.inr ⟨_, r', h1, h2⟩
  · rw [if_neg hb]
    exact Or.inr ⟨_, _, rfl, hd⟩

/-- the Go bookkeeping stands for the specification's transform list -/
structure TInv (seen : List Nat) (acc : Array XForm) (ts : Array (Transform × Nat)) : Prop where
  seen : ∀ t, t ∈ seen ↔ ∃ x, x ∈ acc ∧ x.ty = t
  ty : ∀ x, x ∈ acc → x.ty < 4
  ts : ts = acc.map (fun x => (xformSpec x, x.xsize))

theorem any_kind {seen : List Nat} {acc : Array XForm} {ts : Array (Transform × Nat)} (hinv : TInv seen acc ts)
    (ty : Nat) : (ts.any (fun p => decide (p.1.kind = ty))) = true ↔ ty ∈ seen := by
  rw [hinv.ts, hinv.seen]
  constructor
  · intro h
    obtain ⟨i, hi, _, _, hp⟩ := Array.any_iff_exists.mp h
    simp only [Array.size_map] at hi
    have hx : acc[i] ∈ acc := Array.getElem_mem hi
    refine ⟨acc[i], hx, ?_⟩
    have := hp
    simp only [Array.getElem_map, decide_eq_true_eq] at this
    rw [xformSpec_kind _ (hinv.ty _ hx)] at this
    exact this
  · intro ⟨x, hx, hty⟩
    obtain ⟨i, hi, rfl⟩ := Array.mem_iff_getElem.mp hx
    apply Array.any_iff_exists.mpr
    refine ⟨i, by simpa using hi, Nat.zero_le _, by simpa using hi, ?_⟩
    simp only [Array.getElem_map, decide_eq_true_eq]
    rw [xformSpec_kind _ (hinv.ty _ hx)]
    exact hty

theorem tinv_push {seen : List Nat} {acc : Array XForm} {ts : Array (Transform × Nat)} (hinv : TInv seen acc ts)
    (x : XForm) (hx : x.ty < 4) : TInv (x.ty :: seen) (acc.push x) (ts.push (xformSpec x, x.xsize)) := by
  refine ⟨fun t => ?_, fun y hy => ?_, ?_⟩
  · simp only [List.mem_cons, Array.mem_push, hinv.seen]
    constructor
    · rintro (h | ⟨y, hy, h⟩)
      · exact ⟨x, Or.inr rfl, h.symm⟩
      · exact ⟨y, Or.inl hy, h⟩
    · rintro ⟨y, hy | hy, h⟩
      · exact Or.inr ⟨y, hy, h⟩
      · subst hy; exact Or.inl h.symm
  · rcases Array.mem_push.mp hy with h | h
    · exact hinv.ty y h
    · subst h; exact hx
  · rw [hinv.ts]; simp

/-- a `ReadBits` that left the reader past the end has set the flag -/
theorem flag_of_doomed_readBits (r : Reader) (n : Nat) (hd : Doomed (r.readBits n).2) : (r.readBits n).2.eos = true := by
  unfold Doomed at hd
  unfold Reader.readBits at hd ⊢
  split
  · rename_i hc
    rw [if_pos hc] at hd
    simp only at hd ⊢
    unfold Reader.shiftBytes at hd ⊢
    simp only at hd ⊢
    split
    · rfl
    · rename_i hne
      rw [if_neg hne] at hd
      exact absurd hd hne
  · rfl

/-- outcome of the transform loop against `readTransforms` -/
def LoopOutT (buf : Array UInt8) (go : Res Err ((Array XForm × Nat) × Reader))
    (sp : Res Err (Array (Transform × Nat) × Nat × BitReader)) : Prop :=
  match sp with
  | .ok (ts', w', br') => ∃ acc' r' P', go = .ok ((acc', w'), r') ∧
      ts' = acc'.map (fun x => (xformSpec x, x.xsize)) ∧ w' ≤ 100000000 ∧ br' = brAt buf P' ∧ Good buf r' P' 62
  | .err _ => FailOr2 go
  | .panic => True
  | .hang => True

theorem transformLoop_agree (buf : Array UInt8) (h : Nat) (hh : h ≤ 100000000) :
    ∀ (f w : Nat) (seen : List Nat) (acc : Array XForm) (ts : Array (Transform × Nat)) (r : Reader) (P : Nat),
    w ≤ 100000000 → Good buf r P 62 → TInv seen acc ts →
    LoopOutT buf (transformLoop goOps2 goSubs h (f + 1) w seen acc r) (readTransforms h f w ts (brAt buf P)) := by
  intro f
  induction f with
  | zero => intro w seen acc ts r P _ _ _; rw [readTransforms]; trivial
  | succ f ih =>
    intro w seen acc ts r P hw hg hinv
    rw [readTransforms, transformLoop_succ_go]
    have hb1 := readBits_lt r 1 (by omega)
    rcases readBits_good hg 1 (by omega) (by omega) with ⟨h1, g1⟩ | ⟨h1, d1⟩
    swap
    · rw [h1]
      exact loopBody_doomed h f w seen acc _ d1
    rw [h1]
    dsimp only
    by_cases hb : (r.readBits 1).1 = 1
    swap
    · have h0 : (r.readBits 1).1.toNat = 0 := by
        have : (r.readBits 1).1.toNat ≠ 1 := fun hh => hb ((u32_eq_one _).mpr hh)
        omega
      rw [if_neg hb, if_pos h0]
      exact ⟨acc, _, _, rfl, hinv.ts, hw, rfl, g1.mono (by omega)⟩
    rw [if_pos hb, if_neg (by rw [(u32_eq_one _).mp hb]; decide), readTransformAt_go]
    have hb2 := readBits_lt (r.readBits 1).2 2 (by omega)
    generalize (r.readBits 1).2 = r1 at g1 hb2 ⊢
    rcases readBits_good g1 2 (by omega) (by omega) with ⟨h2, g2⟩ | ⟨h2, d2⟩
    swap
    · rw [h2]
      show FailOr2 _
      by_cases hm : (r1.readBits 2).1.toNat ∈ seen
      · rw [if_pos hm]; exact Or.inl ⟨_, rfl⟩
      · rw [if_neg hm]
        have hf2 := flag_of_doomed_readBits r1 2 d2
        rcases transformData_flag (r1.readBits 2).1.toNat w h d2 with ⟨e, he⟩ | ⟨x, hx⟩
        · rw [he]; exact Or.inl ⟨e, rfl⟩
        · rw [hx]
          dsimp only
          obtain ⟨r', e1, e2⟩ := transformLoop_flag h f x.2 ((r1.readBits 2).1.toNat :: seen) (acc.push x.1) hf2
          exact Or.inr ⟨_, r', e1, e2⟩
    rw [h2]
    dsimp only
    by_cases hm : (r1.readBits 2).1.toNat ∈ seen
    · rw [if_pos hm, if_pos ((any_kind hinv _).mpr hm)]
      exact Or.inl ⟨_, rfl⟩
    · rw [if_neg hm, if_neg (fun hh => hm ((any_kind hinv _).mp hh))]
      have hx := transformData_agree (buf := buf) (r1.readBits 2).1.toNat w h (by omega) hw hh g2
      cases hsp : readTransformData (r1.readBits 2).1.toNat w h (brAt buf (P + 1 + 2)) with
      | ok y =>
        obtain ⟨t, w', br'⟩ := y
        rw [hsp] at hx
        obtain ⟨x, r', P', hgo, ht, hxt, hxs, hww, hbr, hg'⟩ := hx
        rw [hgo, hbr]
        dsimp only
        have hinv' := tinv_push hinv x (by omega)
        rw [hxt, hxs, ← ht] at hinv'
        exact ih w' _ _ _ r' P' (by omega) hg' hinv'
      | err e =>
        rw [hsp] at hx
        obtain ⟨e', hgo⟩ := hx
        rw [hgo]
        exact Or.inl ⟨e', rfl⟩
      | panic => trivial
      | hang => trivial

/-! ## colour cache, codes, pixels -/

open Webp.Spec.VP8L in
/-- the specification's stream decode after the transforms -/
def specTail (w h : Nat) (br : BitReader) : Res Err (Array UInt32 × BitReader) := do
  let (cacheBits, br) ← readColorCacheInfo br
  let (params, br) ← readMetaPrefix w h cacheBits br
  decodePixels params br

open Webp.Spec.VP8L in
/-- … after the colour-cache info -/
def specCodes (w h cb : Nat) (br : BitReader) : Res Err (Array UInt32 × BitReader) := do
  let (params, br) ← readMetaPrefix w h cb br
  decodePixels params br

open Webp.Spec.VP8L in
/-- the meta-code branch of the specification's `readMetaPrefix` (after the `present` bit) -/
def specMetaParams (w h cb : Nat) (br : BitReader) : Res Err (EntropyParams × BitReader) := do
  let (b, br) ← br.readBits 3
  let prefixBits := b + 2
  let (img, br) ← readEntropyCodedImage (subSampleSize w prefixBits) (subSampleSize h prefixBits) br
  let entropy : Array Nat := img.map (fun (px : UInt32) => ((px >>> 8) &&& 0xffff).toNat)
  let numGroups := entropy.foldl max 0 + 1
  let (groups, br) ← readGroups cb numGroups (Array.emptyWithCapacity numGroups) br
  pure ({ width := w, height := h, cacheBits := cb, prefixBits, entropy, groups }, br)

open Webp.Spec.VP8L in
theorem readMetaPrefix_eq (w h cb : Nat) (br : BitReader) :
    readMetaPrefix w h cb br = (do
      let (present, br) ← br.readBits 1
      if present = 1 then specMetaParams w h cb br
      else do
        let (g, br) ← readGroup cb br
        pure ({ width := w, height := h, cacheBits := cb, groups := #[g] }, br)) := rfl

/-- the specification's meta-code branch and the pixels -/
def specMetaPixels (w h cb : Nat) (br : BitReader) : Res Err (Array UInt32 × BitReader) :=
  match specMetaParams w h cb br with
  | .ok (params, br) => decodePixels params br
  | .err e => .err e
  | .panic => .panic
  | .hang => .hang

/-- **the obligation for the meta-code branch** of `readHuffmanCodes` (meta image, group count, the
    groups loop, the pixel loop with a meta image), stated for the reader behind the meta bit -/
def MetaAgree (buf : Array UInt8) : Prop :=
  ∀ (w h cb : Nat) (r : Reader) (P : Nat), w ≤ 100000000 → h ≤ 100000000 → cb ≤ 11 → Good buf r P 7 →
    RelOut (fun a b => a = b) buf 62 (metaPart goOps2 goSubs w h cb r) (specMetaPixels w h cb (brAt buf P))

theorem singleGroupPart_go (w h cb : Nat) (r : Reader) :
    singleGroupPart goOps2 goSubs w h cb r =
      if r.isEndOfStream = true then .err .eos else imageBody w h cb r := by
  unfold singleGroupPart imageBody
  show (if r.isEndOfStream = true then _ else _) = _
  by_cases he : r.isEndOfStream = true
  · rw [if_pos he, if_pos he]
  · rw [if_neg he, if_neg he]
    have e1 : goSubs.group cb (goOps2.eos r).2 = readGroupGo cb r := rfl
    rw [e1]
    cases readGroupGo cb r <;> rfl

theorem codesPart_go (w h cb : Nat) (r : Reader) :
    codesPart goOps2 goSubs w h cb r =
      if (r.readBits 1).1 = 1 then metaPart goOps2 goSubs w h cb (r.readBits 1).2
      else singleGroupPart goOps2 goSubs w h cb (r.readBits 1).2 := rfl

theorem cachePart_go (w h : Nat) (r : Reader) :
    cachePart goOps2 goSubs w h r =
      if (r.readBits 1).1 = 1 then
        if ((r.readBits 1).2.readBits 4).1.toNat < 1 ∨ ((r.readBits 1).2.readBits 4).1.toNat > 11 then .err .badCacheBits
        else codesPart goOps2 goSubs w h ((r.readBits 1).2.readBits 4).1.toNat ((r.readBits 1).2.readBits 4).2
      else codesPart goOps2 goSubs w h 0 (r.readBits 1).2 := rfl

theorem singleGroupPart_agree {buf : Array UInt8} (w h cb : Nat) (hcb : cb ≤ 11) (hw : w ≤ 100000000) {r : Reader}
    {P : Nat} (hg : Good buf r P 7) :
    RelOut (fun a b => a = b) buf 62 (singleGroupPart goOps2 goSubs w h cb r) (specBody w h cb (brAt buf P)) := by
  rw [singleGroupPart_go, if_neg (by rw [hg.not_eos (by omega)]; simp)]
  exact imageBody_agree62 w h cb hcb (by omega) (hg.mono (by omega))

theorem singleGroupPart_doomed (w h cb : Nat) {r : Reader} (hd : Doomed r) :
    ∃ e, singleGroupPart goOps2 goSubs w h cb r = .err e := by
  unfold Doomed at hd
  rw [singleGroupPart_go, if_pos hd]
  exact ⟨_, rfl⟩

theorem metaPart_go (w h cb : Nat) (r : Reader) :
    metaPart goOps2 goSubs w h cb r =
      bindSub goSubs (subSampleSize w (2 + (r.readBits 3).1.toNat)) (subSampleSize h (2 + (r.readBits 3).1.toNat))
        (r.readBits 3).2 (metaBody goOps2 goSubs w h cb (2 + (r.readBits 3).1.toNat)) := rfl

theorem metaPart_doomed (w h cb : Nat) {r : Reader} (hd : Doomed r) :
    ∃ e, metaPart goOps2 goSubs w h cb r = .err e := by
  obtain ⟨e, he⟩ := decodeEntropyImageGo_doomed (subSampleSize w (2 + (r.readBits 3).1.toNat))
    (subSampleSize h (2 + (r.readBits 3).1.toNat)) (doomed_readBits hd 3)
  have hsi : goSubs.subImage (subSampleSize w (2 + (r.readBits 3).1.toNat)) (subSampleSize h (2 + (r.readBits 3).1.toNat))
      (r.readBits 3).2 = .err e := he
  rw [metaPart_go]
  unfold bindSub
  rw [hsi]
  exact ⟨e, rfl⟩

theorem codesPart_doomed (w h cb : Nat) {r : Reader} (hd : Doomed r) :
    ∃ e, codesPart goOps2 goSubs w h cb r = .err e := by
  rw [codesPart_go]
  by_cases hb : (r.readBits 1).1 = 1
  · rw [if_pos hb]; exact metaPart_doomed w h cb (doomed_readBits hd 1)
  · rw [if_neg hb]; exact singleGroupPart_doomed w h cb (doomed_readBits hd 1)

theorem cachePart_doomed (w h : Nat) {r : Reader} (hd : Doomed r) :
    ∃ e, cachePart goOps2 goSubs w h r = .err e := by
  rw [cachePart_go]
  by_cases hb : (r.readBits 1).1 = 1
  · rw [if_pos hb]
    exact ite_err _ _ _ (codesPart_doomed w h _ (doomed_readBits (doomed_readBits hd 1) 4))
  · rw [if_neg hb]; exact codesPart_doomed w h 0 (doomed_readBits hd 1)

theorem codesPart_agree {buf : Array UInt8} (hmeta : MetaAgree buf) (w h cb : Nat) (hcb : cb ≤ 11)
    (hw : w ≤ 100000000) (hh : h ≤ 100000000) {r : Reader} {P : Nat} (hg : Good buf r P 7) :
    RelOut (fun a b => a = b) buf 62 (codesPart goOps2 goSubs w h cb r) (specCodes w h cb (brAt buf P)) := by
  rw [codesPart_go]
  unfold specCodes
  rw [readMetaPrefix_eq]
  simp only [bind, Res.bind, pure]
  rcases readBits_good hg 1 (by omega) (by omega) with ⟨h1, g1⟩ | ⟨h1, d1⟩
  swap
  · rw [h1]
    show ∃ e', _ = Res.err e'
    by_cases hb : (r.readBits 1).1 = 1
    · rw [if_pos hb]; exact metaPart_doomed w h cb d1
    · rw [if_neg hb]; exact singleGroupPart_doomed w h cb d1
  rw [h1]
  simp only
  by_cases hb : (r.readBits 1).1 = 1
  · rw [if_pos hb, if_pos ((u32_eq_one _).mp hb)]
    have hm := hmeta w h cb _ _ hw hh hcb g1
    unfold specMetaPixels at hm
    cases hsp : specMetaParams w h cb (brAt buf (P + 1)) with
    | ok x => rw [hsp] at hm; exact hm
    | err e => rw [hsp] at hm; exact hm
    | panic => trivial
    | hang => trivial
  · rw [if_neg hb, if_neg (fun hh => hb ((u32_eq_one _).mpr hh))]
    have := singleGroupPart_agree (buf := buf) w h cb hcb hw g1
    unfold specBody at this
    simp only [bind, Res.bind] at this
    cases hsp : readGroup cb (brAt buf (P + 1)) with
    | ok x => rw [hsp] at this; exact this
    | err e => rw [hsp] at this; exact this
    | panic => trivial
    | hang => trivial

theorem cachePart_agree {buf : Array UInt8} (hmeta : MetaAgree buf) (w h : Nat)
    (hw : w ≤ 100000000) (hh : h ≤ 100000000) {r : Reader} {P : Nat} (hg : Good buf r P 62) :
    RelOut (fun a b => a = b) buf 62 (cachePart goOps2 goSubs w h r) (specTail w h (brAt buf P)) := by
  rw [cachePart_go]
  have hst : specTail w h (brAt buf P) = (do
      let (cb, br) ← readColorCacheInfo (brAt buf P)
      specCodes w h cb br) := rfl
  rw [hst]
  unfold readColorCacheInfo
  simp only [bind, Res.bind, pure]
  rcases readBits_good hg 1 (by omega) (by omega) with ⟨h1, g1⟩ | ⟨h1, d1⟩
  swap
  · rw [h1]
    show ∃ e', _ = Res.err e'
    by_cases hb : (r.readBits 1).1 = 1
    · rw [if_pos hb]
      exact ite_err _ _ _ (codesPart_doomed w h _ (doomed_readBits d1 4))
    · rw [if_neg hb]; exact codesPart_doomed w h 0 d1
  rw [h1]
  simp only
  by_cases hb : (r.readBits 1).1 = 1
  · rw [if_pos hb, if_pos ((u32_eq_one _).mp hb)]
    rcases readBits_good g1 4 (by omega) (by omega) with ⟨h4, g4⟩ | ⟨h4, d4⟩
    swap
    · rw [h4]
      show ∃ e', _ = Res.err e'
      exact ite_err _ _ _ (codesPart_doomed w h _ d4)
    rw [h4]
    simp only
    by_cases hr : ((r.readBits 1).2.readBits 4).1.toNat < 1 ∨ ((r.readBits 1).2.readBits 4).1.toNat > 11
    · rw [if_pos hr, if_pos hr]; exact ⟨_, rfl⟩
    · rw [if_neg hr, if_neg hr]
      exact codesPart_agree hmeta w h _ (by omega) hw hh g4
  · rw [if_neg hb, if_neg (fun hh => hb ((u32_eq_one _).mpr hh))]
    exact codesPart_agree hmeta w h 0 (by omega) hw hh g1

/-! ## the level-0 sequence -/

open Webp.Spec.VP8L in
/-- the specification's `decodeStream` after the header: transforms, colour cache, codes, pixels -/
def specStream (w h : Nat) (br : BitReader) :
    Res Err ((Array (Transform × Nat) × Nat × Array UInt32) × BitReader) := do
  let (ts, w', br) ← readTransforms h 5 w (Array.emptyWithCapacity 4) br
  let (px, br) ← specTail w' h br
  pure ((ts, w', px), br)

/-- **the level-0 sequence on the window reader = the specification's stream decode after the header**
    (given the obligation `MetaAgree` for the meta-code branch) -/
theorem decodeStream_agree {buf : Array UInt8} (hmeta : MetaAgree buf) (w h : Nat) (hw : w ≤ 100000000)
    (hh : h ≤ 100000000) {r : Reader} {P : Nat} (hg : Good buf r P 62) :
    match specStream w h (brAt buf P) with
    | .ok ((ts, w', px), br') => ∃ l0 r' P', decodeStreamGo w h r = .ok (l0, r') ∧
        ts = l0.transforms.map (fun x => (xformSpec x, x.xsize)) ∧ w' = l0.width ∧ px = l0.pixels ∧
        br' = brAt buf P' ∧ Good buf r' P' 62
    | .err _ => ∃ e', decodeStreamGo w h r = .err e'
    | .panic => True
    | .hang => True := by
  have hinv : TInv [] #[] (Array.emptyWithCapacity 4) :=
    ⟨fun t => by simp, fun x hx => by simp at hx, by simp⟩
  have hloop := transformLoop_agree buf h hh 5 w [] #[] (Array.emptyWithCapacity 4) r P hw hg hinv
  unfold decodeStreamGo decodeStreamAt specStream
  simp only [goOps2_note]
  simp only [bind, Res.bind, pure]
  cases hsp : readTransforms h 5 w (Array.emptyWithCapacity 4) (brAt buf P) with
  | ok y =>
    obtain ⟨ts, w', br1⟩ := y
    rw [hsp] at hloop
    obtain ⟨acc', r1, P1, hgo, hts, hw', hbr, hg1⟩ := hloop
    rw [hgo, hbr]
    dsimp only
    have hc := cachePart_agree hmeta w' h hw' hh hg1
    cases hs2 : specTail w' h (brAt buf P1) with
    | ok z =>
      obtain ⟨px, br2⟩ := z
      rw [hs2] at hc
      obtain ⟨a, r2, P2, hgo2, rfl, hbr2, hg2⟩ := hc
      rw [hgo2]
      exact ⟨_, r2, P2, rfl, hts, rfl, rfl, hbr2, hg2⟩
    | err e =>
      rw [hs2] at hc
      obtain ⟨e', hgo2⟩ := hc
      rw [hgo2]
      exact ⟨e', rfl⟩
    | panic => trivial
    | hang => trivial
  | err e =>
    rw [hsp] at hloop
    show ∃ e', _ = Res.err e'
    rcases hloop with ⟨e', hgo⟩ | ⟨a, r', hgo, hd⟩
    · rw [hgo]; exact ⟨e', rfl⟩
    · rw [hgo]
      obtain ⟨e', he'⟩ := cachePart_doomed a.2 h hd
      dsimp only
      rw [he']
      exact ⟨e', rfl⟩
  | panic => trivial
  | hang => trivial

end Webp.Proofs.VP8LWindow
