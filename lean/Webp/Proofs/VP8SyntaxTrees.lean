import Webp.Impl.VP8SyntaxBytes
/-
  C06 bytes, part 1: the parse functions of `VP8Recon` ARE decision trees — `runS (T.f …) = VP8Recon.f …`
  (up to the nesting of result tuples and the stream field of the state records).
-/
namespace Webp.Proofs.VP8SyntaxTrees
open Webp.Impl.VP8Recon Webp.Impl.VP8SyntaxBytes

theorem bind_ext {α β : Type} (o : Option α) {f g : α → Option β} (h : ∀ a, f a = g a) : o.bind f = o.bind g := by
  cases o with
  | none => rfl
  | some a => exact h a

theorem map_bind' {α β γ : Type} (o : Option α) (f : α → Option β) (g : β → γ) :
    (o.bind f).map g = o.bind fun a => (f a).map g := by
  cases o <;> rfl

theorem bind_map' {α β γ : Type} (o : Option α) (g : α → β) (f : β → Option γ) :
    (o.map g).bind f = o.bind fun a => f (g a) := by
  cases o <;> rfl

@[simp] theorem runS_pure {α} (a : α) (s : Stream) : runS (Pure.pure a : P α) s = some (a, s) := rfl
@[simp] theorem runS_fail {α} (s : Stream) : runS (P.fail : P α) s = none := rfl
theorem runS_rd_bind {α} (sl : Slot) (f : Bool → P α) (s : Stream) :
    runS (rd sl >>= f) s = (readBit sl s).bind fun p => runS (f p.1) p.2 := by
  show (readBit sl s).bind _ = _
  exact bind_ext _ fun ⟨b, s'⟩ => rfl

theorem runS_bind {α β} (x : P α) (f : α → P β) (s : Stream) :
    runS (x >>= f) s = (runS x s).bind fun p => runS (f p.1) p.2 := by
  induction x generalizing s with
  | pure a => rfl
  | fail => rfl
  | read sl k ih =>
    show (readBit sl s).bind _ = ((readBit sl s).bind _).bind _
    rw [Option.bind_assoc]
    exact bind_ext _ fun ⟨b, s'⟩ => ih b s'

/-- the shape `(o).bind fun (b, s) => …` of `VP8Recon` against the projections used here -/
theorem bind_pair {α β : Type} (o : Option (α × Stream)) {f : α × Stream → Option β} {g : α × Stream → Option β}
    (h : ∀ a s, f (a, s) = g (a, s)) : o.bind f = o.bind g :=
  bind_ext o fun ⟨a, s⟩ => h a s

theorem readExtra_eq (ps : List Nat) (v : Nat) (s : Stream) :
    runS (T.readExtra ps v) s = readExtra ps v s := by
  induction ps generalizing v s with
  | nil => rfl
  | cons p ps ih =>
    unfold T.readExtra readExtra
    rw [runS_rd_bind]
    exact bind_pair _ fun b s' => ih _ _

theorem readLevel_eq (p : Nat → Slot) (s : Stream) : runS (T.readLevel p) s = readLevel p s := by
  unfold T.readLevel readLevel
  rw [runS_rd_bind]
  refine bind_pair _ fun b s => ?_
  cases b
  · rfl
  simp only [Bool.not_true, if_false, Bool.false_eq_true]
  rw [runS_rd_bind]
  refine bind_pair _ fun b s => ?_
  cases b <;> simp only [Bool.not_true, Bool.not_false, if_true, if_false, Bool.false_eq_true]
  · rw [runS_rd_bind]
    refine bind_pair _ fun b s => ?_
    cases b <;> simp only [Bool.not_true, Bool.not_false, if_true, if_false, Bool.false_eq_true]
    · rfl
    · rw [runS_rd_bind]
      exact bind_pair _ fun b s => rfl
  · rw [runS_rd_bind]
    refine bind_pair _ fun b s => ?_
    cases b <;> simp only [Bool.not_true, Bool.not_false, if_true, if_false, Bool.false_eq_true]
    · rw [runS_rd_bind]
      refine bind_pair _ fun b s => ?_
      cases b <;> simp only [Bool.not_true, Bool.not_false, if_true, if_false, Bool.false_eq_true]
      · rw [runS_rd_bind]
        exact bind_pair _ fun b s => rfl
      · rw [runS_rd_bind]
        refine bind_pair _ fun b s => ?_
        rw [runS_rd_bind]
        exact bind_pair _ fun b s => rfl
    · rw [runS_rd_bind]
      refine bind_pair _ fun b1 s => ?_
      rw [runS_rd_bind]
      refine bind_pair _ fun b0 s => ?_
      rw [runS_bind, readExtra_eq]
      exact bind_pair _ fun v s => rfl

/-- `((a, b), s) ↦ (a, b, s)` -/
def fl3 {α β γ : Type} (p : (α × β) × γ) : α × β × γ := (p.1.1, p.1.2, p.2)

theorem getLoop_eq (t : Nat) (dq0 dq1 : Int) (fuel n ctx : Nat) (inner : Bool) (out : Coeffs) (s : Stream) :
    (runS (T.getLoop t dq0 dq1 fuel n ctx inner out) s).map fl3 = getLoop t dq0 dq1 fuel n ctx inner out s := by
  induction fuel generalizing n ctx inner out s with
  | zero => cases inner <;> rfl
  | succ fuel ih =>
    cases inner
    · unfold T.getLoop getLoop
      by_cases h16 : n ≥ 16
      · simp only [h16, if_true]; rfl
      · simp only [h16, if_false]
        rw [runS_rd_bind, map_bind']
        refine bind_pair _ fun b s => ?_
        cases b <;> simp only [Bool.not_true, Bool.not_false, if_true, if_false, Bool.false_eq_true]
        · rfl
        · exact ih _ _ _ _ _
    · unfold T.getLoop getLoop
      by_cases h16 : n < 16
      · simp only [h16, dite_true]
        rw [runS_rd_bind, map_bind']
        refine bind_pair _ fun b s => ?_
        cases b <;> simp only [Bool.not_true, Bool.not_false, if_true, if_false, Bool.false_eq_true]
        · by_cases hn : n + 1 = 16
          · simp only [hn, if_true]; rfl
          · simp only [hn, if_false]; exact ih _ _ _ _ _
        · rw [runS_bind, readLevel_eq, map_bind']
          refine bind_pair _ fun v s => ?_
          simp only
          rw [runS_rd_bind, map_bind']
          refine bind_pair _ fun neg s => ?_
          exact ih _ _ _ _ _
      · simp only [h16, dite_false]; rfl

theorem getCoeffs_eq (t ctx : Nat) (dq0 dq1 : Int) (first : Nat) (out : Coeffs) (s : Stream) :
    (runS (T.getCoeffs t ctx dq0 dq1 first out) s).map fl3 = getCoeffs t ctx dq0 dq1 first out s :=
  getLoop_eq t dq0 dq1 34 first ctx false out s

/-! ### the state records: `VP8Recon`'s carry the stream as a field -/

def mkY (st : T.YSt) (s : Stream) : YSt := { tnz := st.tnz, l := st.l, nzCoeffs := st.nzCoeffs, store := st.store, s := s }
def mkY2 (st : T.YSt2) (s : Stream) : YSt2 :=
  { tnz := st.tnz, lnz := st.lnz, nonZeroY := st.nonZeroY, store := st.store, s := s }
def mkUV (st : T.UVSt) (s : Stream) : UVSt :=
  { tnz := st.tnz, lnz := st.lnz, nzCoeffs := st.nzCoeffs, store := st.store, s := s }

theorem decYRow_eq (t first : Nat) (qm : QuantMatrix) (y : Nat) (xs : List Nat) (st : T.YSt) (s : Stream) :
    (runS (T.decYRow t first qm y xs st) s).map (fun p => mkY p.1 p.2) = decYRow t first qm y xs (mkY st s) := by
  induction xs generalizing st s with
  | nil => rfl
  | cons x xs ih =>
    unfold T.decYRow decYRow
    rw [runS_bind, map_bind']
    simp only [mkY]
    rw [← getCoeffs_eq, bind_map']
    refine bind_ext _ fun ⟨⟨nz, out⟩, s'⟩ => ?_
    exact ih _ _

theorem decYRows_eq (t first : Nat) (qm : QuantMatrix) (ys : List Nat) (st : T.YSt2) (s : Stream) :
    (runS (T.decYRows t first qm ys st) s).map (fun p => mkY2 p.1 p.2) = decYRows t first qm ys (mkY2 st s) := by
  induction ys generalizing st s with
  | nil => rfl
  | cons y ys ih =>
    unfold T.decYRows decYRows
    rw [runS_bind, map_bind']
    simp only [mkY2]
    have h := decYRow_eq t first qm y [0, 1, 2, 3] { tnz := st.tnz, l := st.lnz &&& 1, nzCoeffs := 0, store := st.store } s
    simp only [mkY] at h
    rw [← h, bind_map']
    refine bind_ext _ fun ⟨r, s'⟩ => ?_
    exact ih _ _

theorem decUVRow_eq (qm : QuantMatrix) (base y : Nat) (xs : List Nat) (st : T.YSt) (s : Stream) :
    (runS (T.decUVRow qm base y xs st) s).map (fun p => mkY p.1 p.2) = decUVRow qm base y xs (mkY st s) := by
  induction xs generalizing st s with
  | nil => rfl
  | cons x xs ih =>
    unfold T.decUVRow decUVRow
    rw [runS_bind, map_bind']
    simp only [mkY]
    rw [← getCoeffs_eq, bind_map']
    refine bind_ext _ fun ⟨⟨nz, out⟩, s'⟩ => ?_
    exact ih _ _

theorem decUVRows_eq (qm : QuantMatrix) (base : Nat) (ys : List Nat) (st : T.UVSt) (s : Stream) :
    (runS (T.decUVRows qm base ys st) s).map (fun p => mkUV p.1 p.2) = decUVRows qm base ys (mkUV st s) := by
  induction ys generalizing st s with
  | nil => rfl
  | cons y ys ih =>
    unfold T.decUVRows decUVRows
    rw [runS_bind, map_bind']
    simp only [mkUV]
    have h := decUVRow_eq qm base y [0, 1] { tnz := st.tnz, l := st.lnz &&& 1, nzCoeffs := st.nzCoeffs, store := st.store } s
    simp only [mkY] at h
    rw [← h, bind_map']
    refine bind_ext _ fun ⟨r, s'⟩ => ?_
    exact ih _ _

/-- the result record of `VP8Recon.parseResiduals` -/
def mkRes (p : (ResData × NzCtx) × Stream) : Residuals :=
  { coeffs := p.1.1.coeffs, nonZeroY := p.1.1.nonZeroY, nonZeroUV := p.1.1.nonZeroUV, nz := p.1.2, rest := p.2 }

theorem parseResiduals_eq (K : Kernels) (qm : QuantMatrix) (isI4 : Bool) (n : NzCtx) (s : Stream) :
    (runS (T.parseResiduals K qm isI4 n) s).map mkRes = parseResiduals K qm isI4 n s := by
  unfold T.parseResiduals parseResiduals
  rw [runS_bind, map_bind']
  -- the Y2 step
  have hy2 : (runS (T.parseY2 K qm isI4 n) s).map fl3 =
      (if isI4 then some ((fun _ : Nat => Coeffs.zero), n, s)
       else
        (getCoeffs 1 (n.tnzDC + n.lnzDC) qm.y2dc qm.y2ac 0 Coeffs.zero s).bind fun (nz, dc, s) =>
          let flag := if nz > 0 then 1 else 0
          let dcs : Coeffs := if nz > 1 then K.iwht dc else fun _ => wrap16 ((dc 0 + 3) >>> 3)
          some (fun b => if h : b < 16 then Coeffs.zero.set 0 (dcs ⟨b, h⟩) else Coeffs.zero,
                { n with tnzDC := flag, lnzDC := flag }, s)) := by
    unfold T.parseY2
    cases isI4
    · simp only [Bool.false_eq_true, if_false]
      rw [runS_bind, map_bind', ← getCoeffs_eq, bind_map']
      exact bind_ext _ fun ⟨⟨nz, dc⟩, s'⟩ => rfl
    · rfl
  simp only
  rw [← hy2, bind_map']
  refine bind_ext _ fun ⟨⟨store, n1⟩, s1⟩ => ?_
  simp only [fl3]
  rw [runS_bind, map_bind']
  have hY := decYRows_eq (if isI4 then 3 else 0) (if isI4 then 0 else 1) qm [0, 1, 2, 3]
    { tnz := n.tnz &&& 0x0f, lnz := n.lnz &&& 0x0f, nonZeroY := 0, store := store } s1
  simp only [mkY2] at hY
  rw [← hY, bind_map']
  refine bind_ext _ fun ⟨yr, s2⟩ => ?_
  simp only
  rw [runS_bind, map_bind']
  have hU := decUVRows_eq qm 16 [0, 1] { tnz := n.tnz >>> 4, lnz := n.lnz >>> 4, nzCoeffs := 0, store := yr.store } s2
  simp only [mkUV] at hU
  rw [← hU, bind_map']
  refine bind_ext _ fun ⟨ur, s3⟩ => ?_
  simp only
  rw [runS_bind, map_bind']
  have hV := decUVRows_eq qm 20 [0, 1] { tnz := n.tnz >>> 6, lnz := n.lnz >>> 6, nzCoeffs := 0, store := ur.store } s3
  simp only [mkUV] at hV
  rw [← hV, bind_map']
  exact bind_ext _ fun ⟨vr, s4⟩ => rfl

theorem parseTokens_eq (K : Kernels) (qm : QuantMatrix) (isI4 skipFlag useSkip : Bool) (stale : Nat → Coeffs)
    (n : NzCtx) (s : Stream) :
    (runS (T.parseTokens K qm isI4 skipFlag useSkip stale n) s).map fl3 =
      parseTokens K qm isI4 skipFlag useSkip stale n s := by
  unfold T.parseTokens parseTokens
  by_cases h : (useSkip && skipFlag) = true
  · simp only [h, if_true]; rfl
  · simp only [h, Bool.false_eq_true, if_false]
    rw [← parseResiduals_eq, bind_map']
    generalize runS (T.parseResiduals K qm isI4 n) s = o
    cases o <;> rfl

/-! ### modes -/

theorem readI4Loop_eq (top left fuel : Nat) (i : Int) (s : Stream) :
    runS (T.readI4Loop top left fuel i) s = readI4Loop top left fuel i s := by
  induction fuel generalizing i s with
  | zero => rfl
  | succ fuel ih =>
    unfold T.readI4Loop readI4Loop
    by_cases hi : i > 0
    · simp only [hi, if_true]
      rw [runS_rd_bind]
      exact bind_pair _ fun b s' => ih _ _
    · simp only [hi, if_false]; rfl

theorem readI4Mode_eq (top left : Nat) (s : Stream) : runS (T.readI4Mode top left) s = readI4Mode top left s := by
  unfold T.readI4Mode readI4Mode
  rw [runS_rd_bind]
  refine bind_pair _ fun b s' => ?_
  simp only
  rw [runS_bind, readI4Loop_eq]
  refine bind_pair _ fun m s'' => ?_
  simp only
  split <;> rfl

theorem readI16Mode_eq (s : Stream) : runS T.readI16Mode s = readI16Mode s := by
  unfold T.readI16Mode readI16Mode
  rw [runS_rd_bind]
  refine bind_pair _ fun b s' => ?_
  cases b <;> simp only [if_true, if_false, Bool.false_eq_true] <;> rw [runS_rd_bind] <;>
    exact bind_pair _ fun b s'' => rfl

theorem readUVMode_eq (s : Stream) : runS T.readUVMode s = readUVMode s := by
  unfold T.readUVMode readUVMode
  rw [runS_rd_bind]
  refine bind_pair _ fun b s' => ?_
  cases b <;> simp only [Bool.not_true, Bool.not_false, if_true, if_false, Bool.false_eq_true]
  · rfl
  rw [runS_rd_bind]
  refine bind_pair _ fun b s' => ?_
  cases b <;> simp only [Bool.not_true, Bool.not_false, if_true, if_false, Bool.false_eq_true]
  · rfl
  rw [runS_rd_bind]
  exact bind_pair _ fun b s'' => rfl

theorem readSegmentID_eq (s : Stream) : runS T.readSegmentID s = readSegmentID s := by
  unfold T.readSegmentID readSegmentID
  rw [runS_rd_bind]
  refine bind_pair _ fun b s' => ?_
  cases b <;> simp only [Bool.not_true, Bool.not_false, if_true, if_false, Bool.false_eq_true] <;>
    rw [runS_rd_bind] <;> exact bind_pair _ fun b s'' => rfl

/-- `((a, b, c), s) ↦ (a, b, c, s)` -/
def fl4 {α β γ δ : Type} (p : (α × β × γ) × δ) : α × β × γ × δ := (p.1.1, p.1.2.1, p.1.2.2, p.2)

theorem decI4Row_eq (y : Nat) (xs : List (Fin 4)) (top : Fin 4 → Nat) (ymode : Nat) (modes : Fin 16 → Nat)
    (s : Stream) :
    (runS (T.decI4Row y xs top ymode modes) s).map fl4 = decI4Row y xs top ymode modes s := by
  induction xs generalizing top ymode modes s with
  | nil => rfl
  | cons x xs ih =>
    unfold T.decI4Row decI4Row
    by_cases h : 4 * y + x.val < 16
    · simp only [h, dite_true]
      rw [runS_bind, map_bind', readI4Mode_eq]
      exact bind_pair _ fun m s' => ih _ _ _ _
    · simp only [h, dite_false]; rfl

theorem decI4Rows_eq (ys : List (Fin 4)) (m : ModeCtx) (modes : Fin 16 → Nat) (s : Stream) :
    (runS (T.decI4Rows ys m modes) s).map fl3 = decI4Rows ys m modes s := by
  induction ys generalizing m modes s with
  | nil => rfl
  | cons y ys ih =>
    unfold T.decI4Rows decI4Rows
    rw [runS_bind, map_bind', ← decI4Row_eq, bind_map']
    refine bind_ext _ fun ⟨⟨top, ymode, modes'⟩, s'⟩ => ?_
    exact ih _ _ _

theorem parseModes_eq (updateMap useSkip : Bool) (prev : Fin 16 → Nat) (m : ModeCtx) (s : Stream) :
    (runS (T.parseModes updateMap useSkip prev m) s).map fl3 = parseModes updateMap useSkip prev m s := by
  unfold T.parseModes parseModes
  rw [runS_bind, map_bind']
  have hseg : runS (if updateMap then T.readSegmentID else pure 0) s =
      (if updateMap then readSegmentID s else some (0, s)) := by
    cases updateMap
    · rfl
    · exact readSegmentID_eq s
  rw [hseg]
  refine bind_pair _ fun segment s1 => ?_
  simp only
  rw [runS_bind, map_bind']
  have hskip : runS (if useSkip then rd Slot.skip else pure false) s1 =
      (if useSkip then readBit .skip s1 else some (false, s1)) := by
    cases useSkip
    · rfl
    · show (readBit Slot.skip s1).bind _ = _
      cases readBit Slot.skip s1 with
      | none => rfl
      | some p => rfl
  rw [hskip]
  refine bind_pair _ fun skip s2 => ?_
  simp only
  rw [runS_rd_bind, map_bind']
  refine bind_pair _ fun b s3 => ?_
  cases b <;> simp only [if_true, if_false, Bool.false_eq_true]
  · rw [runS_bind, map_bind', ← decI4Rows_eq, bind_map']
    refine bind_ext _ fun ⟨⟨m', modes⟩, s4⟩ => ?_
    simp only [fl3]
    rw [runS_bind, map_bind', readUVMode_eq]
    exact bind_pair _ fun uv s5 => rfl
  · rw [runS_bind, map_bind', readI16Mode_eq]
    refine bind_pair _ fun ymode s4 => ?_
    simp only
    rw [runS_bind, map_bind', readUVMode_eq]
    exact bind_pair _ fun uv s5 => rfl

end Webp.Proofs.VP8SyntaxTrees
