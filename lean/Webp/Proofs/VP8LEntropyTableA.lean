import Webp.Proofs.VP8LEntropyPrefix
import Mathlib.Tactic.Linarith
/-
  Two-level lookup tables, part A: the arithmetic of a complete canonical code seen through its
  keys (bit-reversed code words): prefix-freeness, covering, root prefixes, and what
  `nextTableBitSize` guarantees.
-/
namespace Webp.Proofs.VP8LEntropyTableA
open Webp.Spec.VP8L
open Webp.Impl.VP8LEntropy
open Webp.Proofs.VP8LEntropyBits Webp.Proofs.VP8LEntropyRev Webp.Proofs.VP8LEntropyCanon

/-- a complete code: all lengths ≤ 15 and Kraft sum exactly 1 -/
structure Complete (lens : Array Nat) : Prop where
  h15 : ∀ x ∈ lens, x ≤ 15
  hk : ks lens 16 = 2 ^ 15

/-- `(l, m)`: the `m`-th symbol (in symbol order) of length `l` -/
def Sym (lens : Array Nat) (l m : Nat) : Prop := 1 ≤ l ∧ l ≤ 15 ∧ m < cnt lens l

def cwOf (lens : Array Nat) (l m : Nat) : Nat := first lens l + m

/-- key of a symbol: its code word in stream (LSB-first) order -/
def keyOf (lens : Array Nat) (l m : Nat) : Nat := rev l (cwOf lens l m)

/-- sorted order of the symbols -/
def Before (l' m' l m : Nat) : Prop := l' < l ∨ (l' = l ∧ m' < m)

theorem cw_lt {lens : Array Nat} (hc : Complete lens) {l m : Nat} (hs : Sym lens l m) : cwOf lens l m < 2 ^ l := by
  have := first_add_cnt_le lens l hs.2.1 (Nat.le_of_eq hc.hk)
  rw [cnt', if_neg (by have := hs.1; omega)] at this
  have := hs.2.2
  unfold cwOf; omega

theorem key_lt (lens : Array Nat) (l m : Nat) : keyOf lens l m < 2 ^ l := rev_lt _ _

/-- code words are consecutive when left-aligned -/
theorem before_le {lens : Array Nat} {l' m' l m : Nat} (hs' : Sym lens l' m') (hb : Before l' m' l m) :
    (cwOf lens l' m' + 1) * 2 ^ (l - l') ≤ cwOf lens l m := by
  unfold cwOf
  rcases hb with hlt | ⟨rfl, hm⟩
  · have h1 := first_ge lens hlt
    rw [cnt', if_neg (by have := hs'.1; omega)] at h1
    have h2 : first lens l' + m' + 1 ≤ first lens l' + cnt lens l' := by have := hs'.2.2; omega
    have := Nat.mul_le_mul_right (2 ^ (l - l')) h2
    omega
  · simp; omega

/-- **prefix-freeness in key form** -/
theorem key_prefix_free {lens : Array Nat} (hc : Complete lens) {l' m' l m : Nat}
    (hs' : Sym lens l' m') (hs : Sym lens l m) (hle : l' ≤ l) (hne : ¬ (l' = l ∧ m' = m)) :
    keyOf lens l m % 2 ^ l' ≠ keyOf lens l' m' := by
  intro heq
  unfold keyOf at heq
  rw [rev_mod_pow' l l' _ hle] at heq
  have hlt' := cw_lt hc hs'
  have hlt := cw_lt hc hs
  have hdiv : cwOf lens l m / 2 ^ (l - l') < 2 ^ l' := by
    rw [Nat.div_lt_iff_lt_mul (Nat.pow_pos (by decide)), ← Nat.pow_add]
    have : l' + (l - l') = l := by omega
    rw [this]; exact hlt
  have hcw := rev_inj l' _ _ hdiv hlt' heq
  by_cases hll : l' = l
  · subst hll
    simp at hcw
    unfold cwOf at hcw
    exact hne ⟨rfl, by omega⟩
  · have hb : Before l' m' l m := Or.inl (by omega)
    have h1 := before_le hs' hb
    have h2 : cwOf lens l' m' + 1 ≤ cwOf lens l m / 2 ^ (l - l') := by
      rw [Nat.le_div_iff_mul_le (Nat.pow_pos (by decide))]; exact h1
    omega

/-! ## covering: every window starts with exactly one code word -/

/-- walking down the levels: the first level at which the `15`-bit look-ahead `x` falls below
    `first + cnt` -/
theorem cover_level (lens : Array Nat) (x : Nat) (j : Nat) (hj : j ≤ 15)
    (hlow : first lens j ≤ x / 2 ^ (15 - j))
    (hend : x / 2 ^ (15 - 15) < first lens 15 + cnt' lens 15) :
    ∃ l, j ≤ l ∧ l ≤ 15 ∧ first lens l ≤ x / 2 ^ (15 - l) ∧ x / 2 ^ (15 - l) < first lens l + cnt' lens l := by
  induction hd : 15 - j generalizing j with
  | zero =>
    have : j = 15 := by omega
    subst this
    exact ⟨15, Nat.le_refl _, Nat.le_refl _, hlow, hend⟩
  | succ d ih =>
    by_cases hlt : x / 2 ^ (15 - j) < first lens j + cnt' lens j
    · exact ⟨j, Nat.le_refl _, hj, hlow, hlt⟩
    · have hnext : first lens (j + 1) ≤ x / 2 ^ (15 - (j + 1)) := by
        rw [first]
        have e : 15 - j = (15 - (j + 1)) + 1 := by omega
        have : x / 2 ^ (15 - j) = x / 2 ^ (15 - (j + 1)) / 2 := by
          rw [e, Nat.pow_succ, Nat.div_div_eq_div_mul]
        omega
      obtain ⟨l, h1, h2, h3, h4⟩ := ih (j + 1) (by omega) hnext (by omega)
      exact ⟨l, by omega, h2, h3, h4⟩

theorem cover {lens : Array Nat} (hc : Complete lens) (w : Nat) :
    ∃ l m, Sym lens l m ∧ w % 2 ^ l = keyOf lens l m := by
  let x := rev 15 (w % 2 ^ 15)
  have hx : x < 2 ^ 15 := rev_lt _ _
  have hend : x / 2 ^ (15 - 15) < first lens 15 + cnt' lens 15 := by
    have := first_add_cnt_mul lens 15 (Nat.le_refl _)
    simp only [Nat.sub_self, Nat.pow_zero, Nat.mul_one, Nat.div_one] at this ⊢
    rw [this, hc.hk]; exact hx
  obtain ⟨l, h1, h2, h3, h4⟩ := cover_level lens x 1 (by omega) (by simp [first, cnt']) hend
  have hcnt : cnt' lens l = cnt lens l := by rw [cnt', if_neg (by omega)]
  rw [hcnt] at h4
  refine ⟨l, x / 2 ^ (15 - l) - first lens l, ⟨h1, h2, by omega⟩, ?_⟩
  unfold keyOf cwOf
  have e : first lens l + (x / 2 ^ (15 - l) - first lens l) = x / 2 ^ (15 - l) := by omega
  rw [e, ← rev_mod_pow' 15 l x h2]
  show w % 2 ^ l = rev 15 (rev 15 (w % 2 ^ 15)) % 2 ^ l
  rw [rev_rev 15 _ (Nat.mod_lt _ (Nat.pow_pos (by decide)))]
  have : 2 ^ 15 = 2 ^ l * 2 ^ (15 - l) := by rw [← Nat.pow_add]; congr 1; omega
  rw [this, Nat.mod_mul_right_mod]

/-! ## root prefixes (for codes longer than the root table) -/

/-- the first `R` code-word bits of a symbol of length `l ≥ R`, as a number -/
def pfx (lens : Array Nat) (R l m : Nat) : Nat := cwOf lens l m / 2 ^ (l - R)

theorem pfx_lt {lens : Array Nat} (hc : Complete lens) {R l m : Nat} (hs : Sym lens l m) (hR : R ≤ l) :
    pfx lens R l m < 2 ^ R := by
  unfold pfx
  rw [Nat.div_lt_iff_lt_mul (Nat.pow_pos (by decide)), ← Nat.pow_add]
  have : R + (l - R) = l := by omega
  rw [this]; exact cw_lt hc hs

/-- the root-table index of a long code is its reversed prefix -/
theorem key_mod_root (lens : Array Nat) (R l m : Nat) (hR : R ≤ l) :
    keyOf lens l m % 2 ^ R = rev R (pfx lens R l m) := by
  unfold keyOf pfx
  exact rev_mod_pow' l R _ hR

/-- left-aligned (15-bit) position of a code word -/
def apos (lens : Array Nat) (l m : Nat) : Nat := cwOf lens l m * 2 ^ (15 - l)

theorem pfx_eq_apos (lens : Array Nat) (R l m : Nat) (hR : R ≤ l) (hl : l ≤ 15) :
    pfx lens R l m = apos lens l m / 2 ^ (15 - R) := by
  unfold pfx apos
  have : 2 ^ (15 - R) = 2 ^ (l - R) * 2 ^ (15 - l) := by rw [← Nat.pow_add]; congr 1; omega
  rw [this, Nat.mul_div_mul_right _ _ (Nat.pow_pos (by decide))]

theorem apos_eq (lens : Array Nat) (l m : Nat) (hl : l ≤ 15) :
    apos lens l m = ks lens l + m * 2 ^ (15 - l) := by
  unfold apos cwOf
  rw [Nat.add_mul, first_mul lens l hl]

theorem pfx_mono {lens : Array Nat} {R l' m' l m : Nat} (hs' : Sym lens l' m') (hl : l ≤ 15)
    (hb : Before l' m' l m) (hR : R ≤ l') : pfx lens R l' m' ≤ pfx lens R l m := by
  have hll : l' ≤ l := by rcases hb with h | ⟨h, _⟩ <;> omega
  rw [pfx_eq_apos lens R l' m' hR hs'.2.1, pfx_eq_apos lens R l m (by omega) hl]
  apply Nat.div_le_div_right
  have h1 := before_le hs' hb
  unfold apos
  have e : 2 ^ (15 - l') = 2 ^ (l - l') * 2 ^ (15 - l) := by rw [← Nat.pow_add]; congr 1; omega
  rw [e, ← Nat.mul_assoc]
  apply Nat.mul_le_mul_right
  have : cwOf lens l' m' * 2 ^ (l - l') ≤ (cwOf lens l' m' + 1) * 2 ^ (l - l') :=
    Nat.mul_le_mul_right _ (by omega)
  omega

/-! ## `nextTableBitSize` -/

/-- `Σ_{j=t}^{t+n-1} r j · 2^(15-j)` -/
def wsum (r : Nat → Nat) : Nat → Nat → Nat
  | _, 0 => 0
  | t, n + 1 => r t * 2 ^ (15 - t) + wsum r (t + 1) n

theorem wsum_congr (r r' : Nat → Nat) (t n : Nat) (h : ∀ j, t ≤ j → j < t + n → r j = r' j) :
    wsum r t n = wsum r' t n := by
  induction n generalizing t with
  | zero => rfl
  | succ n ih =>
    rw [wsum, wsum, h t (Nat.le_refl _) (by omega), ih (t + 1) (fun j h1 h2 => h j (by omega) (by omega))]

theorem ks_add (lens : Array Nat) (t n : Nat) : ks lens (t + n) = ks lens t + wsum (cnt' lens) t n := by
  induction n generalizing t with
  | zero => rfl
  | succ n ih =>
    have : t + (n + 1) = (t + 1) + n := by omega
    rw [this, ih (t + 1), wsum, ks]; omega

theorem ntbs_stop (count : Array Nat) (f t : Nat) (left : Int) (h15 : t < 15)
    (hle : left - (count.getD t 0 : Nat) ≤ 0) : nextTableBitSizeLoop count (f + 1) t left = t := by
  rw [nextTableBitSizeLoop, if_pos (show t < maxLen from h15)]
  exact if_pos hle

theorem ntbs_next (count : Array Nat) (f t : Nat) (left : Int) (h15 : t < 15)
    (hle : ¬ left - (count.getD t 0 : Nat) ≤ 0) :
    nextTableBitSizeLoop count (f + 1) t left =
      nextTableBitSizeLoop count f (t + 1) ((left - (count.getD t 0 : Nat)) * 2) := by
  rw [nextTableBitSizeLoop, if_pos (show t < maxLen from h15)]
  exact if_neg hle

theorem ntbs_end (count : Array Nat) (f t : Nat) (left : Int) (h15 : ¬ t < 15) :
    nextTableBitSizeLoop count (f + 1) t left = t := by
  rw [nextTableBitSizeLoop, if_neg (show ¬ t < maxLen from h15)]

/-- the loop stops at a length `t*` by which the remaining codes fill `left` slots of depth `t` -/
theorem nextTableBitSizeLoop_spec (count : Array Nat) (fuel : Nat) :
    ∀ (t : Nat) (left : Int), t ≤ 15 → 15 - t ≤ fuel → 0 < left →
      t ≤ nextTableBitSizeLoop count fuel t left ∧ nextTableBitSizeLoop count fuel t left ≤ 15 ∧
      (nextTableBitSizeLoop count fuel t left < 15 → left * 2 ^ (15 - t) ≤
        (wsum (fun j => count.getD j 0) t (nextTableBitSizeLoop count fuel t left - t + 1) : Nat)) := by
  induction fuel with
  | zero =>
    intro t left ht hf _
    have : t = 15 := by omega
    subst this
    simp [nextTableBitSizeLoop]
  | succ f ih =>
    intro t left ht hf hleft
    by_cases h15 : t < 15
    · by_cases hle : left - (count.getD t 0 : Nat) ≤ 0
      · rw [ntbs_stop count f t left h15 hle]
        refine ⟨Nat.le_refl _, ht, ?_⟩
        intro _
        simp only [Nat.sub_self, Nat.zero_add, wsum, Nat.add_zero]
        have hp : (0 : Int) ≤ 2 ^ (15 - t) := Int.le_of_lt (Int.pow_pos (by decide))
        have hl : left ≤ (count.getD t 0 : Nat) := by omega
        have := Int.mul_le_mul_of_nonneg_right hl hp
        push_cast
        exact this
      · rw [ntbs_next count f t left h15 hle]
        obtain ⟨h1, h2, h3⟩ := ih (t + 1) ((left - (count.getD t 0 : Nat)) * 2) (by omega) (by omega) (by omega)
        refine ⟨by omega, h2, ?_⟩
        intro hts
        have h3' := h3 hts
        generalize nextTableBitSizeLoop count f (t + 1) ((left - ↑(count.getD t 0)) * 2) = ts at h1 h2 h3' hts ⊢
        have e : ts - t + 1 = (ts - (t + 1) + 1) + 1 := by omega
        rw [e, wsum]
        have hp : (2 : Int) ^ (15 - t) = 2 * 2 ^ (15 - (t + 1)) := by
          have : 15 - t = (15 - (t + 1)) + 1 := by omega
          rw [this, Int.pow_succ]; omega
        have hcast : ((count.getD t 0 * 2 ^ (15 - t) + wsum (fun j => count.getD j 0) (t + 1 ) (ts - (t + 1) + 1) : Nat) : Int)
            = (count.getD t 0 : Int) * (2 * 2 ^ (15 - (t + 1))) +
              (wsum (fun j => count.getD j 0) (t + 1) (ts - (t + 1) + 1) : Nat) := by
          rw [Int.natCast_add, Int.natCast_mul, Int.natCast_pow]
          rw [show ((2 : Nat) : Int) = 2 from rfl, hp]
        rw [hcast, hp]
        generalize (2 : Int) ^ (15 - (t + 1)) = q at h3' ⊢
        generalize ((wsum (fun j => count.getD j 0) (t + 1) (ts - (t + 1) + 1) : Nat) : Int) = ws at h3' ⊢
        generalize ((count.getD t 0 : Nat) : Int) = c at h3' ⊢
        linarith
    · rw [ntbs_end count f t left h15]
      exact ⟨Nat.le_refl _, ht, by omega⟩

/-- **what the second-level table size guarantees**: when a sub-table is opened at the symbol
    `(l, m)`, every not yet processed symbol with the same root prefix is short enough to fit -/
theorem subtable_covers {lens : Array Nat} (R l m : Nat) (hs : Sym lens l m) (hR : R < l)
    (count : Array Nat) (hcl : count.getD l 0 = cnt lens l - m)
    (hcj : ∀ j, l < j → j ≤ 15 → count.getD j 0 = cnt lens j)
    {l2 m2 : Nat} (hs2 : Sym lens l2 m2) (hnb : ¬ Before l2 m2 l m)
    (hp : pfx lens R l2 m2 = pfx lens R l m) :
    l ≤ nextTableBitSize count l R + R ∧ l2 - R ≤ nextTableBitSize count l R := by
  have hl15 := hs.2.1
  have hll : l ≤ l2 := by
    unfold Before at hnb
    omega
  unfold nextTableBitSize
  have hleft : (0 : Int) < ((1 <<< (l - R) : Nat) : Int) := by
    rw [Nat.one_shiftLeft]; exact_mod_cast Nat.pow_pos (by decide : 0 < 2)
  obtain ⟨h1, h2, h3⟩ := nextTableBitSizeLoop_spec count maxLen l _ hl15 (by simp [maxLen]) hleft
  generalize nextTableBitSizeLoop count maxLen l ((1 <<< (l - R) : Nat) : Int) = ts at h1 h2 h3
  refine ⟨by omega, ?_⟩
  by_cases hlt : l2 ≤ ts
  · omega
  · exfalso
    have hts : ts < 15 := by have := hs2.2.1; omega
    have h3' := h3 hts
    rw [Nat.one_shiftLeft] at h3'
    have h3n : 2 ^ (l - R) * 2 ^ (15 - l) ≤ wsum (fun j => count.getD j 0) l (ts - l + 1) := by
      exact_mod_cast h3'
    have hB : 2 ^ (l - R) * 2 ^ (15 - l) = 2 ^ (15 - R) := by rw [← Nat.pow_add]; congr 1; omega
    rw [hB] at h3n
    -- the counts seen by the loop versus the true counts
    have hw : wsum (cnt' lens) l (ts - l + 1) = wsum (fun j => count.getD j 0) l (ts - l + 1) + m * 2 ^ (15 - l) := by
      rw [wsum, wsum]
      rw [wsum_congr (cnt' lens) (fun j => count.getD j 0) (l + 1) (ts - l)
        (fun j hj1 hj2 => by
          show cnt' lens j = count.getD j 0
          rw [cnt', if_neg (by omega), hcj j (by omega) (by omega)])]
      show cnt' lens l * 2 ^ (15 - l) + _ = count.getD l 0 * 2 ^ (15 - l) + _ + _
      rw [hcl, cnt', if_neg (by have := hs.1; omega)]
      have hm := hs.2.2
      have : cnt lens l * 2 ^ (15 - l) = (cnt lens l - m) * 2 ^ (15 - l) + m * 2 ^ (15 - l) := by
        rw [← Nat.add_mul]; congr 1; omega
      omega
    have ha2 : apos lens l2 m2 ≥ apos lens l m + 2 ^ (15 - R) := by
      rw [apos_eq lens l2 m2 hs2.2.1, apos_eq lens l m hl15]
      have hk1 : ks lens (ts + 1) ≤ ks lens l2 := ks_mono lens (by omega)
      have hk2 : ks lens (ts + 1) = ks lens l + wsum (cnt' lens) l (ts - l + 1) := by
        rw [← ks_add]; congr 1; omega
      omega
    have hp1 := pfx_eq_apos lens R l2 m2 (by omega) hs2.2.1
    have hp2 := pfx_eq_apos lens R l m (by omega) hl15
    have hpos : 0 < 2 ^ (15 - R) := Nat.pow_pos (by decide)
    have : apos lens l m / 2 ^ (15 - R) + 1 ≤ apos lens l2 m2 / 2 ^ (15 - R) := by
      rw [← Nat.add_div_right _ hpos]
      exact Nat.div_le_div_right ha2
    omega

end Webp.Proofs.VP8LEntropyTableA
