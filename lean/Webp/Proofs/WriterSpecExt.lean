import Webp.Proofs.WriterSpec
/-
  The walker `Spec.RiffStill.wellFormed` on the extended layout written by `writeRIFFExtended`.
-/
namespace Webp.Impl.Writer
open Webp.Go
open Webp.Impl.Parser (ccRIFF ccWEBP ccVP8 ccVP8L ccVP8X ccALPH ccICCP ccEXIF ccXMP)
open Webp.Spec.RiffStill (splitChunks tag Why Layout optChunk)
set_option maxHeartbeats 400000

/-- an optional chunk as a list element -/
def optC (fcc : Nat) (d : Bytes) : List (Nat × Bytes) := if d.length > 0 then [(fcc, d)] else []
/-- … and as the walker's (tag, payload) pair -/
def optT (t d : Bytes) : List (Bytes × Bytes) := if d.length > 0 then [(t, d)] else []
/-- `nil`/empty blob ↦ no chunk -/
def optB (d : Bytes) : Option Bytes := if d.length > 0 then some d else none

theorem chunksBytes_optC (fcc : Nat) (d : Bytes) : chunksBytes (optC fcc d) = optChunkBytes fcc d := by
  unfold optC optChunkBytes
  by_cases h : d.length > 0
  · rw [if_pos h, if_pos h]; exact List.append_nil _
  · rw [if_neg h, if_neg h]; rfl

theorem map_optC (fcc : Nat) (d : Bytes) :
    (optC fcc d).map (fun c => (putLE32 c.1, c.2)) = optT (putLE32 fcc) d := by
  unfold optC optT
  by_cases h : d.length > 0
  · rw [if_pos h, if_pos h]; rfl
  · rw [if_neg h, if_neg h]; rfl

/-- the chunk list of the extended layout -/
def extChunks (fourcc : Nat) (bs alpha : Bytes) (w h : Int) (icc exif xmp : Bytes) :
    List (Nat × Bytes) :=
  [(ccVP8X, vp8xPayload (vp8xFlags fourcc bs alpha icc exif xmp) w h)] ++ optC ccICCP icc ++
    optC ccALPH alpha ++ [(fourcc, bs)] ++ optC ccEXIF exif ++ optC ccXMP xmp

theorem extBody_chunks (fourcc : Nat) (bs alpha : Bytes) (w h : Int) (icc exif xmp : Bytes) :
    extBody fourcc bs alpha w h icc exif xmp =
      chunksBytes (extChunks fourcc bs alpha w h icc exif xmp) := by
  unfold extChunks
  rw [chunksBytes_append, chunksBytes_append, chunksBytes_append, chunksBytes_append,
    chunksBytes_append, chunksBytes_optC, chunksBytes_optC, chunksBytes_optC, chunksBytes_optC,
    extBody_eq]
  show _ = chunkBytes ccVP8X _ ++ [] ++ _ ++ _ ++ (chunkBytes fourcc bs ++ []) ++ _ ++ _
  simp only [List.append_assoc, List.append_nil]

theorem optChunk_hit (t d : Bytes) (rest : List (Bytes × Bytes)) :
    optChunk t ((t, d) :: rest) = (some d, rest) := by
  rw [optChunk, if_pos rfl]

theorem optChunk_miss (t c d : Bytes) (rest : List (Bytes × Bytes)) (h : c ≠ t) :
    optChunk t ((c, d) :: rest) = (none, (c, d) :: rest) := by
  rw [optChunk, if_neg h]

theorem optChunk_optT (t d : Bytes) (rest : List (Bytes × Bytes))
    (hmiss : optChunk t rest = (none, rest)) :
    optChunk t (optT t d ++ rest) = (optB d, rest) := by
  unfold optT optB
  by_cases h : d.length > 0
  · rw [if_pos h, if_pos h]; exact optChunk_hit t d rest
  · rw [if_neg h, if_neg h]; exact hmiss

theorem optB_isSome (d : Bytes) : (optB d).isSome = decide (d.length > 0) := by
  unfold optB
  by_cases h : d.length > 0
  · rw [if_pos h]; simp [h]
  · rw [if_neg h]; simp [h]

/-- what the walker's bitstream-header reader says about alpha and codec agrees with what
    `writeRIFFExtended` reads -/
theorem imageInfo_facts {fourcc : Nat} {bs : Bytes} {l la : Bool} {w h : Nat}
    (hfcc : fourcc = ccVP8 ∨ fourcc = ccVP8L)
    (hi : Spec.RiffStill.imageInfo (putLE32 fourcc) bs = some (l, w, h, la)) :
    la = vp8lAlphaBit fourcc bs ∧ l = decide (fourcc = ccVP8L) := by
  have hne : ccVP8 ≠ ccVP8L := fun h => cc_ne.2.2.1 h.symm
  unfold Spec.RiffStill.imageInfo at hi
  rcases hfcc with hf | hf
  · rw [hf] at hi ⊢
    rw [tag_VP8, if_pos rfl] at hi
    cases hd : Spec.RiffStill.vp8Dims bs with
    | none => rw [hd] at hi; cases hi
    | some p =>
      obtain ⟨w', h'⟩ := p
      rw [hd] at hi
      injection hi with hi
      injection hi with h1 hi
      injection hi with h2 hi
      injection hi with h3 h4
      subst h1 h4
      unfold vp8lAlphaBit
      refine ⟨?_, ?_⟩
      · simp [hne]
      · simp [hne]
  · rw [hf] at hi ⊢
    rw [tag_VP8L, if_neg tags_ne.2.2.1, if_pos rfl] at hi
    cases hd : Spec.RiffStill.vp8lDims bs with
    | none => rw [hd] at hi; cases hi
    | some p =>
      obtain ⟨w', h', a'⟩ := p
      rw [hd] at hi
      injection hi with hi
      injection hi with h1 hi
      injection hi with h2 hi
      injection hi with h3 h4
      subst h1 h4
      unfold Spec.RiffStill.vp8lDims at hd
      unfold vp8lAlphaBit
      by_cases c1 : bs.length < 5
      · rw [if_pos c1] at hd; cases hd
      · rw [if_neg c1] at hd
        by_cases c2 : byteAt bs 0 ≠ 0x2f
        · rw [if_pos c2] at hd; cases hd
        · rw [if_neg c2] at hd
          dsimp only at hd
          by_cases c3 : le32 bs 1 / 536870912 ≠ 0
          · rw [if_pos c3] at hd; cases hd
          · rw [if_neg c3] at hd
            injection hd with hd
            injection hd with _ hd
            injection hd with _ hd
            subst hd
            refine ⟨?_, by simp⟩
            have c2' : byteAt bs 0 = 0x2f := by omega
            by_cases hb : le32 bs 1 / 268435456 % 2 = 1
            · simp [hb, c2', show bs.length ≥ 5 by omega]
            · have : le32 bs 1 / 268435456 % 2 = 0 := by omega
              simp [this]

theorem tags_ne2 : tag "ALPH" ≠ tag "ICCP" ∧ tag "VP8 " ≠ tag "ICCP" ∧ tag "VP8L" ≠ tag "ICCP" ∧
    tag "VP8 " ≠ tag "ALPH" ∧ tag "VP8L" ≠ tag "ALPH" ∧ tag "XMP " ≠ tag "EXIF" ∧
    tag "VP8X" = tag "VP8X" := by
  decide +kernel

theorem vp8xPayload_bytes (F w h : Nat) (hF : F < 64) (hw1 : 1 ≤ w) (hw2 : w ≤ 16383)
    (hh1 : 1 ≤ h) (hh2 : h ≤ 16383) :
    byteAt (vp8xPayload F w h) 0 = F ∧ byteAt (vp8xPayload F w h) 1 = 0 ∧
    byteAt (vp8xPayload F w h) 2 = 0 ∧ byteAt (vp8xPayload F w h) 3 = 0 ∧
    le24 (vp8xPayload F w h) 4 + 1 = w ∧ le24 (vp8xPayload F w h) 7 + 1 = h := by
  have b0 : byteAt (vp8xPayload F w h) 0 = (UInt8.ofNat (F % 256)).toNat := rfl
  have b1 : byteAt (vp8xPayload F w h) 1 = (UInt8.ofNat (F / 256 % 256)).toNat := rfl
  have b2 : byteAt (vp8xPayload F w h) 2 = (UInt8.ofNat (F / 65536 % 256)).toNat := rfl
  have b3 : byteAt (vp8xPayload F w h) 3 = (UInt8.ofNat (F / 16777216 % 256)).toNat := rfl
  have l4 : le24 (vp8xPayload F w h) 4 = le24 (putLE24 (u32OfInt ((w : Int) - 1)) ++
      putLE24 (u32OfInt ((h : Int) - 1))) 0 := by
    unfold vp8xPayload
    rw [List.append_assoc]
    exact le24_append_right (putLE32 F) _ 0
  have l7 : le24 (vp8xPayload F w h) 7 = le24 (putLE24 (u32OfInt ((h : Int) - 1)) ++ []) 0 := by
    unfold vp8xPayload
    rw [List.append_nil]
    exact le24_append_right (putLE32 F ++ putLE24 (u32OfInt ((w : Int) - 1))) _ 0
  rw [b0, b1, b2, b3, l4, l7, toNat_ofNat_mod, toNat_ofNat_mod, toNat_ofNat_mod, toNat_ofNat_mod,
    u32OfInt_pred w hw1 (by omega), u32OfInt_pred h hh1 (by omega),
    le24_putLE24 _ _ (by omega), le24_putLE24 _ _ (by omega)]
  omega

/-- the walker accepts the extended layout and recovers every payload -/
theorem wf_extFile (fourcc : Nat) (bs alpha icc exif xmp : Bytes) (w h : Nat) (l la : Bool)
    (hfcc : fourcc = ccVP8 ∨ fourcc = ccVP8L)
    (himg : Spec.RiffStill.imageInfo (putLE32 fourcc) bs = some (l, w, h, la))
    (hnoalph : fourcc = ccVP8L → alpha.length = 0)
    (hw1 : 1 ≤ w) (hw2 : w ≤ 16383) (hh1 : 1 ≤ h) (hh2 : h ≤ 16383)
    (hN : 4 + (extBody fourcc bs alpha w h icc exif xmp).length ≤ 4294967287) :
    Spec.RiffStill.wellFormed (extFile fourcc bs alpha w h icc exif xmp) = .ok
      { extended := true, lossless := l, image := bs, alpha := optB alpha, icc := optB icc,
        exif := optB exif, xmp := optB xmp, flags := vp8xFlags fourcc bs alpha icc exif xmp,
        canvasW := w, canvasH := h, imageW := w, imageH := h, vp8lAlpha := la } := by
  have hlen := extBody_length fourcc bs alpha w h icc exif xmp
  have g1 := optLen_ge icc
  have g2 := optLen_ge alpha
  have g3 := optLen_ge exif
  have g4 := optLen_ge xmp
  obtain ⟨fb32, fb16, fb8, fb4, fb2, fb1, fb64⟩ := flags_bits fourcc bs alpha icc exif xmp
  obtain ⟨hla, hl⟩ := imageInfo_facts hfcc himg
  unfold extFile
  have hN' : 4 + (chunksBytes (extChunks fourcc bs alpha w h icc exif xmp)).length ≤ 4294967287 := by
    rw [← extBody_chunks]; exact hN
  rw [extBody_chunks]
  rw [wellFormed_riffFile _
    (by
      intro c hc
      unfold extChunks optC at hc
      simp only [List.mem_append, List.mem_cons, List.mem_ite_nil_right, List.not_mem_nil,
        or_false] at hc
      rcases hc with ((((hc | hc) | hc) | hc) | hc) | hc
      · rw [hc]; show (vp8xPayload _ _ _).length < _; rw [vp8xPayload_length]; omega
      · rw [hc.2]; show icc.length < _; omega
      · rw [hc.2]; show alpha.length < _; omega
      · rw [hc]; show bs.length < _; omega
      · rw [hc.2]; show exif.length < _; omega
      · rw [hc.2]; show xmp.length < _; omega)
    (by omega)]
  unfold extChunks
  rw [List.map_append, List.map_append, List.map_append, List.map_append, List.map_append,
    map_optC, map_optC, map_optC, map_optC]
  show Spec.RiffStill.layoutOf ((putLE32 ccVP8X, _) :: ([] ++ _ ++ _ ++ [(putLE32 fourcc, bs)] ++ _ ++ _)) = _
  rw [Spec.RiffStill.layoutOf, tag_VP8X, if_pos rfl]
  generalize hF : vp8xFlags fourcc bs alpha icc exif xmp = F at *
  obtain ⟨p0, p1, p2, p3, pw, ph⟩ := vp8xPayload_bytes F w h fb64 hw1 hw2 hh1 hh2
  unfold Spec.RiffStill.extendedLayout
  rw [vp8xPayload_length, if_neg (by omega)]
  dsimp only
  rw [p0, p1, p2, p3, pw, ph, if_neg (by omega)]
  have hL : [] ++ optT (putLE32 ccICCP) icc ++ optT (putLE32 ccALPH) alpha ++ [(putLE32 fourcc, bs)] ++
      optT (putLE32 ccEXIF) exif ++ optT (putLE32 ccXMP) xmp =
      optT (tag "ICCP") icc ++ (optT (tag "ALPH") alpha ++ ((putLE32 fourcc, bs) ::
        (optT (tag "EXIF") exif ++ optT (tag "XMP ") xmp))) := by
    rw [tag_ICCP, tag_ALPH, tag_EXIF, tag_XMP]
    simp only [List.nil_append, List.append_assoc, List.cons_append]
  rw [hL]
  have hti : putLE32 fourcc ≠ tag "ICCP" ∧ putLE32 fourcc ≠ tag "ALPH" := by
    rcases hfcc with hf | hf <;> rw [hf]
    · rw [tag_VP8]; exact ⟨tags_ne2.2.1, tags_ne2.2.2.2.1⟩
    · rw [tag_VP8L]; exact ⟨tags_ne2.2.2.1, tags_ne2.2.2.2.2.1⟩
  generalize hR : optT (tag "EXIF") exif ++ optT (tag "XMP ") xmp = R
  have m1 : optChunk (tag "ICCP") (optT (tag "ALPH") alpha ++ ((putLE32 fourcc, bs) :: R)) =
      (none, optT (tag "ALPH") alpha ++ ((putLE32 fourcc, bs) :: R)) := by
    unfold optT
    by_cases ha : alpha.length > 0
    · rw [if_pos ha]; exact optChunk_miss _ _ _ _ tags_ne2.1
    · rw [if_neg ha]; exact optChunk_miss _ _ _ _ hti.1
  have s1 := optChunk_optT (tag "ICCP") icc _ m1
  have s2 := optChunk_optT (tag "ALPH") alpha _ (optChunk_miss (tag "ALPH") _ bs R hti.2)
  rw [s1]
  dsimp only
  rw [s2]
  dsimp only
  rw [himg]
  dsimp only
  have m3 : optChunk (tag "EXIF") (optT (tag "XMP ") xmp) = (none, optT (tag "XMP ") xmp) := by
    unfold optT
    by_cases hx : xmp.length > 0
    · rw [if_pos hx]; exact optChunk_miss _ _ _ _ tags_ne2.2.2.2.2.2.1
    · rw [if_neg hx]; rfl
  have s3 := optChunk_optT (tag "EXIF") exif _ m3
  have s4 : optChunk (tag "XMP ") (optT (tag "XMP ") xmp) = (optB xmp, []) := by
    have := optChunk_optT (tag "XMP ") xmp [] rfl
    rw [List.append_nil] at this
    exact this
  rw [← hR, s3]
  dsimp only
  rw [s4]
  dsimp only
  rw [if_neg (fun h => h rfl)]
  have c1 : ¬ (l && (optB alpha).isSome) = true := by
    rw [optB_isSome, hl]
    intro hc
    simp only [Bool.and_eq_true, decide_eq_true_eq] at hc
    have := hnoalph hc.1
    omega
  rw [if_neg c1]
  have c2 : ¬ (decide (F / 32 % 2 = 1) != (optB icc).isSome || decide (F / 8 % 2 = 1) != (optB exif).isSome ||
      decide (F / 4 % 2 = 1) != (optB xmp).isSome ||
      decide (F / 16 % 2 = 1) != ((optB alpha).isSome || la)) = true := by
    rw [optB_isSome, optB_isSome, optB_isSome, optB_isSome, fb32, fb8, fb4, fb16, hla]
    unfold alphaFlag
    by_cases h1 : icc.length > 0 <;> by_cases h2 : exif.length > 0 <;>
    by_cases h3 : xmp.length > 0 <;> by_cases h4 : alpha.length > 0 <;>
    by_cases h5 : vp8lAlphaBit fourcc bs = true <;> simp [h1, h2, h3, h4, h5]
  rw [if_neg c2, if_neg (by simp)]

end Webp.Impl.Writer
