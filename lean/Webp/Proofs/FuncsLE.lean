import Generated.Funcs
import Webp.Go.Basic
import Webp.Go.IntSem
import Webp.Proofs.FuncsBridge
import Webp.Proofs.FuncsListOps
/-
  Bridge between byte lists of the hand models (`Bytes = List UInt8`, `byteAt`, `le16/24/32`,
  `putLE16/24/32` of `Webp/Go/Basic.lean`) and the `List Int` slices of the translated functions
  (`idxI`, `sliceI`, `setI`, `leU16`, `leU32`, `lePutU16`, `lePutU32` of `Webp/Go/IntSem.lean`).
  Used by `Webp/Props/C14FuncsSites.lean`.
-/
namespace Webp.Proofs.FuncsLE
open Webp.Go Webp.Go.IntSem Webp.Proofs.FuncsBridge Webp.Proofs.FuncsListOps

/-- a `[]byte` value as the translator sees it -/
abbrev toI (l : List UInt8) : List Int := l.map (fun x => (x.toNat : Int))

theorem toI_length (l : List UInt8) : (toI l).length = l.length := List.length_map _

theorem byteAt_lt256 (l : Bytes) (k : Nat) : byteAt l k < 256 := (l.getD k 0).toNat_lt

theorem toI_getD (l : List UInt8) (k : Nat) : (toI l).getD k 0 = ((byteAt l k : Nat) : Int) := by
  simp only [toI, byteAt, List.getD, List.getElem?_map]
  cases l[k]? <;> rfl

theorem toI_take (l : List UInt8) (n : Nat) : (toI l).take n = toI (l.take n) := by
  simp only [toI, List.map_take]
theorem toI_drop (l : List UInt8) (n : Nat) : (toI l).drop n = toI (l.drop n) := by
  simp only [toI, List.map_drop]
theorem toI_append (l m : List UInt8) : toI (l ++ m) = toI l ++ toI m := List.map_append

/-! ## reads -/

/-- `b[k]` in range -/
theorem idxI_toI (l : List UInt8) (k : Nat) (h : k < l.length) :
    idxI (toI l) (k : Int) = .ok ((byteAt l k : Nat) : Int) := by
  rw [idxI_nat (toI l) k (by rw [toI_length]; exact h), toI_getD]

/-- `b[k]` out of range -/
theorem idxI_toI_ge (l : List UInt8) (k : Nat) (h : l.length ≤ k) : idxI (toI l) (k : Int) = .panic :=
  idxI_ge (toI l) k (by rw [toI_length]; omega)

/-- the same for a literal index (as the translated code writes them) -/
theorem idxI_toI_lit (l : List UInt8) (k : Nat) (h : k < l.length) :
    idxI (toI l) (no_index (OfNat.ofNat k)) = .ok ((byteAt l k : Nat) : Int) := idxI_toI l k h

theorem idxI_toI_lit_ge (l : List UInt8) (k : Nat) (h : l.length ≤ k) :
    idxI (toI l) (no_index (OfNat.ofNat k)) = .panic := idxI_toI_ge l k h

/-- `b[a:c]` in range -/
theorem sliceI_toI (l : List UInt8) (a c : Nat) (h1 : a ≤ c) (h2 : c ≤ l.length) :
    sliceI (toI l) (a : Int) (c : Int) = .ok (toI ((l.take c).drop a)) := by
  rw [sliceI_ok (toI l) a c (by omega) (by omega) (by rw [toI_length]; omega)]
  simp only [Int.toNat_natCast, toI_take, toI_drop]

theorem sliceI_toI_lit (l : List UInt8) (a c : Nat) (h1 : a ≤ c) (h2 : c ≤ l.length) :
    sliceI (toI l) (no_index (OfNat.ofNat a)) (no_index (OfNat.ofNat c)) = .ok (toI ((l.take c).drop a)) :=
  sliceI_toI l a c h1 h2

/-- `b[a:c]` with `c > len(b)` -/
theorem sliceI_toI_short (l : List UInt8) (a c : Nat) (h : l.length < c) :
    sliceI (toI l) (a : Int) (c : Int) = .panic := by
  unfold sliceI lenI
  rw [toI_length]
  have : ¬ ((0 : Int) ≤ a ∧ (a : Int) ≤ c ∧ (c : Int) ≤ l.length) := by omega
  simp only [this, if_false]

theorem sliceI_toI_lit_short (l : List UInt8) (a c : Nat) (h : l.length < c) :
    sliceI (toI l) (no_index (OfNat.ofNat a)) (no_index (OfNat.ofNat c)) = .panic :=
  sliceI_toI_short l a c h

theorem length_slice (l : List UInt8) (a c : Nat) (h1 : a ≤ c) (h2 : c ≤ l.length) :
    ((l.take c).drop a).length = c - a := by
  simp only [List.length_drop, List.length_take]; omega

theorem byteAt_slice (l : Bytes) (a c j : Nat) (h : a + j < c) :
    byteAt ((l.take c).drop a) j = byteAt l (a + j) := by
  simp only [byteAt, List.getD, List.getElem?_drop, List.getElem?_take, h, if_true]

theorem le16_slice (l : Bytes) (a c o : Nat) (h : a + o + 2 ≤ c) :
    le16 ((l.take c).drop a) o = le16 l (a + o) := by
  simp only [le16, byteAt_slice l a c o (by omega), byteAt_slice l a c (o + 1) (by omega), Nat.add_assoc]

theorem le24_slice (l : Bytes) (a c o : Nat) (h : a + o + 3 ≤ c) :
    le24 ((l.take c).drop a) o = le24 l (a + o) := by
  simp only [le24, byteAt_slice l a c o (by omega), byteAt_slice l a c (o + 1) (by omega),
    byteAt_slice l a c (o + 2) (by omega), Nat.add_assoc]

theorem le32_slice (l : Bytes) (a c o : Nat) (h : a + o + 4 ≤ c) :
    le32 ((l.take c).drop a) o = le32 l (a + o) := by
  simp only [le32, byteAt_slice l a c o (by omega), byteAt_slice l a c (o + 1) (by omega),
    byteAt_slice l a c (o + 2) (by omega), byteAt_slice l a c (o + 3) (by omega), Nat.add_assoc]

/-! ## `|` of disjoint byte lanes is `+` -/

theorem nat_or16 (a b : Nat) (ha : a < 256) : a ||| b <<< 8 = a + b * 256 := by
  rw [Nat.or_comm, ← Nat.shiftLeft_add_eq_or_of_lt (show a < 2 ^ 8 by omega), Nat.shiftLeft_eq]; omega

theorem nat_or24 (a b c : Nat) (ha : a < 256) (hb : b < 256) :
    (a ||| b <<< 8) ||| c <<< 16 = a + b * 256 + c * 65536 := by
  rw [nat_or16 a b ha, Nat.or_comm,
    ← Nat.shiftLeft_add_eq_or_of_lt (show a + b * 256 < 2 ^ 16 by omega), Nat.shiftLeft_eq]; omega

theorem nat_or32 (a b c d : Nat) (ha : a < 256) (hb : b < 256) (hc : c < 256) :
    ((a ||| b <<< 8) ||| c <<< 16) ||| d <<< 24 = a + b * 256 + c * 65536 + d * 16777216 := by
  rw [nat_or24 a b c ha hb, Nat.or_comm,
    ← Nat.shiftLeft_add_eq_or_of_lt (show a + b * 256 + c * 65536 < 2 ^ 24 by omega), Nat.shiftLeft_eq]; omega

/-- `int(a) | int(b)<<8` -/
theorem bor16 (a b : Nat) (ha : a < 256) :
    bor (a : Int) (shl (b : Int) 8) = ((a + b * 256 : Nat) : Int) := by
  simp only [shl_nat_lit, bor_nat, nat_or16 a b ha]

/-- `int(a) | int(b)<<8 | int(c)<<16` -/
theorem bor24 (a b c : Nat) (ha : a < 256) (hb : b < 256) :
    bor (bor (a : Int) (shl (b : Int) 8)) (shl (c : Int) 16) = ((a + b * 256 + c * 65536 : Nat) : Int) := by
  simp only [shl_nat_lit, bor_nat, nat_or24 a b c ha hb]

/-- `binary.LittleEndian.Uint32` -/
theorem bor32 (a b c d : Nat) (ha : a < 256) (hb : b < 256) (hc : c < 256) :
    bor (bor (bor (a : Int) (shl (b : Int) 8)) (shl (c : Int) 16)) (shl (d : Int) 24)
      = ((a + b * 256 + c * 65536 + d * 16777216 : Nat) : Int) := by
  simp only [shl_nat_lit, bor_nat, nat_or32 a b c d ha hb hc]

/-- `uint32(b) << k` of a byte: the `uint32` wrap is the identity for `k ≤ 24` -/
theorem wrapU32_shl_byte (b k : Nat) (hb : b < 256) (hk : k ≤ 24) :
    wrapU 32 (shl (b : Int) (k : Int)) = shl (b : Int) (k : Int) := by
  rw [shl_nat, wrapU_nat]
  congr 1
  apply Nat.mod_eq_of_lt
  rw [Nat.shiftLeft_eq]
  calc b * 2 ^ k < 256 * 2 ^ k := Nat.mul_lt_mul_of_pos_right hb (Nat.pow_pos (by decide))
    _ ≤ 256 * 2 ^ 24 := Nat.mul_le_mul_left _ (Nat.pow_le_pow_right (by decide) hk)
    _ = 2 ^ 32 := by decide

theorem wrapU32_shl_byte_lit (b k : Nat) (hb : b < 256) (hk : k ≤ 24) :
    wrapU 32 (shl (b : Int) (no_index (OfNat.ofNat k))) = shl (b : Int) (no_index (OfNat.ofNat k)) :=
  wrapU32_shl_byte b k hb hk

/-- `uint32(a) | uint32(b)<<8 | uint32(c)<<16` (the wraps of the shifts are identities) -/
theorem bor24_u32 (a b c : Nat) (ha : a < 256) (hb : b < 256) (hc : c < 256) :
    bor (bor (a : Int) (wrapU 32 (shl (b : Int) 8))) (wrapU 32 (shl (c : Int) 16))
      = ((a + b * 256 + c * 65536 : Nat) : Int) := by
  rw [wrapU32_shl_byte_lit b 8 hb (by decide), wrapU32_shl_byte_lit c 16 hc (by decide), bor24 a b c ha hb]

theorem bor32_u32 (a b c d : Nat) (ha : a < 256) (hb : b < 256) (hc : c < 256) (hd : d < 256) :
    bor (bor (bor (a : Int) (wrapU 32 (shl (b : Int) 8))) (wrapU 32 (shl (c : Int) 16)))
        (wrapU 32 (shl (d : Int) 24))
      = ((a + b * 256 + c * 65536 + d * 16777216 : Nat) : Int) := by
  rw [wrapU32_shl_byte_lit b 8 hb (by decide), wrapU32_shl_byte_lit c 16 hc (by decide),
    wrapU32_shl_byte_lit d 24 hd (by decide), bor32 a b c d ha hb hc]

/-! ## the little-endian readers on `toI l` -/

theorem toI_cons2 (l : List UInt8) (h : 2 ≤ l.length) :
    ∃ r, toI l = (byteAt l 0 : Int) :: (byteAt l 1 : Int) :: r := by
  match l, h with
  | a :: b :: r, _ => exact ⟨toI r, rfl⟩

theorem toI_cons4 (l : List UInt8) (h : 4 ≤ l.length) :
    ∃ r, toI l = (byteAt l 0 : Int) :: (byteAt l 1 : Int) :: (byteAt l 2 : Int) :: (byteAt l 3 : Int) :: r := by
  match l, h with
  | a :: b :: c :: d :: r, _ => exact ⟨toI r, rfl⟩

/-- `binary.LittleEndian.Uint16` -/
theorem leU16_toI (l : List UInt8) (h : 2 ≤ l.length) : leU16 (toI l) = .ok ((le16 l 0 : Nat) : Int) := by
  obtain ⟨r, hr⟩ := toI_cons2 l h
  rw [hr]
  simp only [leU16, bor16 _ _ (byteAt_lt256 l 0), le16]

theorem leU16_short (b : List Int) (h : b.length < 2) : leU16 b = .panic := by
  match b, h with
  | [], _ => rfl
  | [_], _ => rfl

/-- `binary.LittleEndian.Uint32` -/
theorem leU32_toI (l : List UInt8) (h : 4 ≤ l.length) : leU32 (toI l) = .ok ((le32 l 0 : Nat) : Int) := by
  obtain ⟨r, hr⟩ := toI_cons4 l h
  rw [hr]
  simp only [leU32, bor32 _ _ _ _ (byteAt_lt256 l 0) (byteAt_lt256 l 1) (byteAt_lt256 l 2), le32]

theorem leU32_short (b : List Int) (h : b.length < 4) : leU32 b = .panic := by
  match b, h with
  | [], _ => rfl
  | [_], _ => rfl
  | [_, _], _ => rfl
  | [_, _, _], _ => rfl

/-- `container.readLE24` on any list of at least three bytes -/
theorem readLE24_toI (l : List UInt8) (h : 3 ≤ l.length) :
    Generated.Funcs.readLE24 (toI l) = .ok ((le24 l 0 : Nat) : Int) := by
  simp only [Generated.Funcs.readLE24, idxI_toI_lit l 0 (by omega), idxI_toI_lit l 1 (by omega),
    idxI_toI_lit l 2 (by omega), ok_bind, bor24 _ _ _ (byteAt_lt256 l 0) (byteAt_lt256 l 1), le24]

/-! ## the little-endian writers -/

theorem toNat_ofNat_mod (n : Nat) : (UInt8.ofNat (n % 256)).toNat = n % 256 := by
  simp [UInt8.toNat_ofNat']

/-- `byte(v)`, `byte(v>>8)`, `byte(v>>16)`, `byte(v>>24)` of a non-negative value -/
theorem wrapU8_nat (n : Nat) : wrapU 8 (n : Int) = ((n % 256 : Nat) : Int) := wrapU_nat 8 n
theorem wrapU8_shr_nat (n k : Nat) :
    wrapU 8 (shr (n : Int) (no_index (OfNat.ofNat k))) = ((n / 2 ^ k % 256 : Nat) : Int) := by
  rw [shr_nat_lit, nat_shr, wrapU_nat]

theorem toI_putLE16 (n : Nat) : toI (putLE16 n) = [((n % 256 : Nat) : Int), ((n / 256 % 256 : Nat) : Int)] := by
  simp only [toI, putLE16, List.map_cons, List.map_nil, toNat_ofNat_mod]

theorem toI_putLE24 (n : Nat) :
    toI (putLE24 n) = [((n % 256 : Nat) : Int), ((n / 256 % 256 : Nat) : Int), ((n / 65536 % 256 : Nat) : Int)] := by
  simp only [toI, putLE24, List.map_cons, List.map_nil, toNat_ofNat_mod]

theorem toI_putLE32 (n : Nat) :
    toI (putLE32 n) = [((n % 256 : Nat) : Int), ((n / 256 % 256 : Nat) : Int), ((n / 65536 % 256 : Nat) : Int),
      ((n / 16777216 % 256 : Nat) : Int)] := by
  simp only [toI, putLE32, List.map_cons, List.map_nil, toNat_ofNat_mod]

/-- the bytes written for an arbitrary (possibly negative or oversized) Go integer are those of
    its low bits: `byte(v >> 8k) = byte((v mod 2^m) >> 8k)` for `8k + 8 ≤ m` -/
theorem wrapU8_low24 (v : Int) :
    wrapU 8 v = wrapU 8 (v % 16777216) ∧ wrapU 8 (shr v 8) = wrapU 8 (shr (v % 16777216) 8)
    ∧ wrapU 8 (shr v 16) = wrapU 8 (shr (v % 16777216) 16) := by
  simp only [wrapU8_eq, shr_lit_eq_div, Int.reducePow]
  omega

/-! ## further small facts -/

theorem bor_lit_nat (m n : Nat) :
    bor (no_index (OfNat.ofNat m)) (n : Int) = ((m ||| n : Nat) : Int) := rfl

theorem nat_and_16383 (n : Nat) : n &&& 16383 = n % 16384 := Nat.and_two_pow_sub_one_eq_mod n 14

/-- three in-range writes at 0, 1, 2 -/
theorem setI3 (a b c : Int) (r : List Int) (x y z : Int) :
    ((setI (a :: b :: c :: r) 0 x).bind fun buf => (setI buf 1 y).bind fun buf =>
      (setI buf 2 z).bind fun buf => (Res.ok buf : R (List Int))) = .ok (x :: y :: z :: r) := rfl

/-- `sliceI` followed by `readLE24` on a three-byte window -/
theorem sliceI_readLE24 {β : Type} (l : List UInt8) (a c : Nat) (hc : c = a + 3) (h : c ≤ l.length)
    (f : Int → R β) :
    ((sliceI (toI l) (no_index (OfNat.ofNat a)) (no_index (OfNat.ofNat c))).bind fun t1 =>
      (Generated.Funcs.readLE24 t1).bind f) = f ((le24 l a : Nat) : Int) := by
  subst hc
  rw [sliceI_toI_lit l a (a + 3) (by omega) h, ok_bind,
    readLE24_toI _ (by rw [length_slice l a (a + 3) (by omega) h]; omega), ok_bind,
    le24_slice l a (a + 3) 0 (by omega)]
  rfl

/-- `sliceI` followed by `leU16` on a two-byte window -/
theorem sliceI_leU16 {β : Type} (l : List UInt8) (a c : Nat) (hc : c = a + 2) (h : c ≤ l.length)
    (f : Int → R β) :
    ((sliceI (toI l) (no_index (OfNat.ofNat a)) (no_index (OfNat.ofNat c))).bind fun t1 =>
      (leU16 t1).bind f) = f ((le16 l a : Nat) : Int) := by
  subst hc
  rw [sliceI_toI_lit l a (a + 2) (by omega) h, ok_bind,
    leU16_toI _ (by rw [length_slice l a (a + 2) (by omega) h]; omega), ok_bind,
    le16_slice l a (a + 2) 0 (by omega)]
  rfl

/-- `uint64(x)` of the translator is `Impl.Mux.u64`-style reduction: a natural number -/
theorem wrapU64_eq (x : Int) : wrapU 64 x = (((x % 18446744073709551616).toNat : Nat) : Int) := by
  unfold wrapU
  rw [Int.toNat_of_nonneg (Int.emod_nonneg _ (by decide))]
  rfl

end Webp.Proofs.FuncsLE
