import Webp.Go.IntSem
/-
  Bridge lemmas between the `Int` encoding of `Webp/Go/IntSem.lean` (used by the translated
  functions of `Generated/Funcs.lean`) and the `Nat` / `UIntN` arithmetic of the hand models.
  Used by `Webp/Proofs/Funcs*.lean` and `Webp/Props/C??Funcs.lean`.
-/
namespace Webp.Proofs.FuncsBridge
open Webp.Go Webp.Go.IntSem

/-! ## bitwise operations on non-negative values are the `Nat` operations -/

theorem band_nat (m n : Nat) : band (m : Int) (n : Int) = ((m &&& n : Nat) : Int) := rfl
theorem bor_nat (m n : Nat) : bor (m : Int) (n : Int) = ((m ||| n : Nat) : Int) := rfl
theorem bxor_nat (m n : Nat) : bxor (m : Int) (n : Int) = ((m ^^^ n : Nat) : Int) := rfl
theorem band_nat_lit (m n : Nat) :
    band (m : Int) (no_index (OfNat.ofNat n)) = ((m &&& n : Nat) : Int) := rfl
theorem band_lit_nat (m n : Nat) :
    band (no_index (OfNat.ofNat m)) (n : Int) = ((m &&& n : Nat) : Int) := rfl
theorem bor_nat_lit (m n : Nat) :
    bor (m : Int) (no_index (OfNat.ofNat n)) = ((m ||| n : Nat) : Int) := rfl
theorem bxor_nat_lit (m n : Nat) :
    bxor (m : Int) (no_index (OfNat.ofNat n)) = ((m ^^^ n : Nat) : Int) := rfl

theorem shr_nat (m s : Nat) : shr (m : Int) (s : Int) = ((m >>> s : Nat) : Int) := by
  unfold shr; simp
theorem shr_nat_lit (m s : Nat) :
    shr (m : Int) (no_index (OfNat.ofNat s)) = ((m >>> s : Nat) : Int) := shr_nat m s
theorem shl_nat (m s : Nat) : shl (m : Int) (s : Int) = ((m <<< s : Nat) : Int) := by
  unfold shl; simp [Nat.shiftLeft_eq]
theorem shl_nat_lit (m s : Nat) :
    shl (m : Int) (no_index (OfNat.ofNat s)) = ((m <<< s : Nat) : Int) := shl_nat m s
theorem shl_lit_nat (m s : Nat) :
    shl (no_index (OfNat.ofNat m)) (s : Int) = ((m <<< s : Nat) : Int) := shl_nat m s

/-- `x >> k` for a literal `k` is floor division by `2^k` (any sign) -/
theorem shr_lit_eq_div (a : Int) (k : Nat) : shr a (no_index (OfNat.ofNat k)) = a / 2 ^ k := by
  show a >>> (Int.toNat (k : Int)) = _
  rw [Int.toNat_natCast, Int.shiftRight_eq_div_pow]; norm_cast

/-! ## arithmetic with a literal operand -/

theorem mul_nat_lit (m n : Nat) :
    (m : Int) * (no_index (OfNat.ofNat n)) = ((m * n : Nat) : Int) := (Int.natCast_mul m n).symm
theorem lit_mul_nat (m n : Nat) :
    (no_index (OfNat.ofNat m)) * (n : Int) = ((m * n : Nat) : Int) := (Int.natCast_mul m n).symm
theorem add_nat_lit (m n : Nat) :
    (m : Int) + (no_index (OfNat.ofNat n)) = ((m + n : Nat) : Int) := (Int.natCast_add m n).symm
theorem lit_add_nat (m n : Nat) :
    (no_index (OfNat.ofNat m)) + (n : Int) = ((m + n : Nat) : Int) := (Int.natCast_add m n).symm

/-! ## wraps -/

theorem wrapU_nat (n m : Nat) : wrapU n (m : Int) = ((m % 2 ^ n : Nat) : Int) := by
  unfold wrapU; norm_cast

theorem wrapU_of_range (n : Nat) (x : Int) (h0 : 0 ≤ x) (h1 : x < 2 ^ n) : wrapU n x = x := by
  unfold wrapU; exact Int.emod_eq_of_lt h0 h1

theorem wrapS_of_range (n : Nat) (x : Int) (hn : 0 < n) (h0 : -(2 : Int) ^ (n - 1) ≤ x)
    (h1 : x < (2 : Int) ^ (n - 1)) : wrapS n x = x := by
  unfold wrapS
  have hp : (2 : Int) ^ n = 2 * 2 ^ (n - 1) := by
    cases n with
    | zero => omega
    | succ k => simp [Int.pow_succ, Int.mul_comm]
  have hpos : (0 : Int) < 2 ^ (n - 1) := Int.pow_pos (by decide)
  by_cases hx : 0 ≤ x
  · have : x % (2 : Int) ^ n = x := Int.emod_eq_of_lt hx (by omega)
    simp only [this]; simp [h1]
  · have : x % (2 : Int) ^ n = x + 2 ^ n := by
      have := Int.add_mul_emod_self_left x ((2 : Int) ^ n) 1
      rw [Int.mul_one] at this
      rw [← this]
      exact Int.emod_eq_of_lt (by omega) (by omega)
    simp only [this]
    have : ¬ (x + (2 : Int) ^ n < 2 ^ (n - 1)) := by omega
    simp [this]

theorem wrapS32_of_range (x : Int) (h0 : -2147483648 ≤ x) (h1 : x < 2147483648) :
    wrapS 32 x = x :=
  wrapS_of_range 32 x (by decide) (by simpa using h0) (by simpa using h1)

theorem wrapS8_of_range (x : Int) (h0 : -128 ≤ x) (h1 : x < 128) : wrapS 8 x = x :=
  wrapS_of_range 8 x (by decide) (by simpa using h0) (by simpa using h1)

theorem wrapU32_of_range (x : Int) (h0 : 0 ≤ x) (h1 : x < 4294967296) : wrapU 32 x = x :=
  wrapU_of_range 32 x h0 (by simpa using h1)

theorem wrapU8_of_range (x : Int) (h0 : 0 ≤ x) (h1 : x < 256) : wrapU 8 x = x :=
  wrapU_of_range 8 x h0 (by simpa using h1)

/-- `wrapS` as an explicit case split (for `omega`) -/
theorem wrapS8_cases (x : Int) : wrapS 8 x = if x % 256 < 128 then x % 256 else x % 256 - 256 := by
  unfold wrapS; simp

theorem wrapS32_cases (x : Int) :
    wrapS 32 x = if x % 4294967296 < 2147483648 then x % 4294967296 else x % 4294967296 - 4294967296 := by
  unfold wrapS; simp

theorem wrapU8_eq (x : Int) : wrapU 8 x = x % 256 := by unfold wrapU; simp
theorem wrapU16_eq (x : Int) : wrapU 16 x = x % 65536 := by unfold wrapU; simp
theorem wrapU32_eq (x : Int) : wrapU 32 x = x % 4294967296 := by unfold wrapU; simp

/-- Go's truncating `/ 2` on a 9-bit difference stays in 8 bits -/
theorem tdiv2_range (x : Int) (h0 : -256 < x) (h1 : x < 256) : -128 ≤ x.tdiv 2 ∧ x.tdiv 2 ≤ 128 := by
  by_cases h : 0 ≤ x
  · rw [Int.tdiv_eq_ediv_of_nonneg h]; omega
  · have e : x = -(-x) := by omega
    rw [e, Int.neg_tdiv, Int.tdiv_eq_ediv_of_nonneg (by omega)]; omega

/-! ## masks and shifts as `%` and `/` (so that `omega` can finish) -/

theorem nat_and_255 (n : Nat) : n &&& 255 = n % 256 := Nat.and_two_pow_sub_one_eq_mod n 8
theorem nat_and_15 (n : Nat) : n &&& 15 = n % 16 := Nat.and_two_pow_sub_one_eq_mod n 4
theorem nat_and_1 (n : Nat) : n &&& 1 = n % 2 := Nat.and_two_pow_sub_one_eq_mod n 1
theorem nat_shr (n k : Nat) : n >>> k = n / 2 ^ k := Nat.shiftRight_eq_div_pow n k

/-! ## partial operations -/

theorem ok_bind {α β : Type} (a : α) (f : α → R β) : (Res.ok a : R α).bind f = f a := rfl
theorem ok_bind' {α β : Type} (a : α) (f : α → R β) : Res.bind (Res.ok a : R α) f = f a := rfl

theorem chkShift_nat (s : Nat) : chkShift (s : Int) = .ok (s : Int) := by
  unfold chkShift; simp

theorem chkShift_of_nonneg (s : Int) (h : 0 ≤ s) : chkShift s = .ok s := by
  unfold chkShift; simp; omega

theorem chkDiv_of_ne (d : Int) (h : d ≠ 0) : chkDiv d = .ok d := by
  unfold chkDiv; simp [h]

theorem idxI_nat (xs : List Int) (i : Nat) (h : i < xs.length) :
    idxI xs (i : Int) = .ok (xs.getD i 0) := by
  unfold idxI
  have : ¬ ((i : Int) < 0) := by omega
  simp [this, List.getD, List.getElem?_eq_getElem h]

theorem idxI_of_range (xs : List Int) (i : Int) (h0 : 0 ≤ i) (h : i.toNat < xs.length) :
    idxI xs i = .ok (xs.getD i.toNat 0) := by
  have := idxI_nat xs i.toNat h
  rwa [Int.toNat_of_nonneg h0] at this

/-- four-step `forRange 0 32 8` (the per-channel loops) -/
theorem forRange_0_32_8 {σ : Type} (s : σ) (f : Int → σ → σ) :
    forRange 0 32 8 s f = f 24 (f 16 (f 8 (f 0 s))) := by
  have h : tripCount 0 32 8 = 4 := by decide
  simp [forRange, h, List.range, List.range.loop]

end Webp.Proofs.FuncsBridge
