import Webp.Proofs.C04RefineModes5
import Mathlib.Tactic.IntervalCases
/-
  C04 refinement, macroblock-level syntax (stage B), part 6: `parseIntraModeRow` for one macroblock
  (`T.parseModes`) vs `Spec.VP8.readMBHeader`, on the reference decoder.
-/
namespace Webp.Proofs.C04RefineModes
open Webp.Spec.VP8
open Webp.Impl.VP8SyntaxBytes (P runR rd)
open Webp.Impl.VP8Recon (Slot)
open Webp.Proofs.C04RefineOps Webp.Proofs.C04RefineSyntax Webp.Proofs.C04RefineTokens

/-- what partition 0 said about the macroblock: Go record vs RFC record -/
structure ModeRel (g : Webp.Impl.VP8Recon.MBModes) (m : MBInfo) : Prop where
  seg : m.segment = g.segment
  skip : m.skip = g.skip
  y : m.ymode = if g.isI4 then 4 else rfcY (g.imodes 0)
  y4 : g.isI4 = false → g.imodes 0 < 4
  b : g.isI4 = true → ∀ b : Fin 16, m.bmodes.getD b.val 0 = rfcB (g.imodes b)
  uv : m.uvmode = rfcY g.uvmode

/-- intra-mode contexts: Go functions (Go numbering) vs RFC arrays; `A0` = `above` before the macroblock -/
structure CRel (mbX : Nat) (A0 : Array Nat) (gc : Webp.Impl.VP8Recon.ModeCtx) (sc : ModeCtx) : Prop where
  a : ∀ j : Fin 4, sc.above.getD (4 * mbX + j.val) 0 = rfcB (gc.top j)
  l : ∀ j : Fin 4, sc.left.getD j.val 0 = rfcB (gc.left j)
  o : ∀ i, (i < 4 * mbX ∨ 4 * mbX + 4 ≤ i) → sc.above.getD i 0 = A0.getD i 0
  asz : sc.above.size = A0.size
  asz4 : 4 * mbX + 4 ≤ A0.size
  lsz : 4 ≤ sc.left.size
  tlt : ∀ j, gc.top j < 10
  llt : ∀ j, gc.left j < 10

theorem implied_rfc : ∀ g, g < 4 → impliedBMode (rfcY g) = rfcB g := by
  intro g hg; interval_cases g <;> rfl

theorem range4 : List.range' 0 4 = [0, 1, 2, 3] := by decide

/-- the contexts a macroblock that is not `B_PRED` leaves: Go `top = left = ymode` -/
theorem implied_crel (mbX : Nat) (A0 : Array Nat) (gc : Webp.Impl.VP8Recon.ModeCtx) (sc : ModeCtx)
    (h : CRel mbX A0 gc sc) (g : Nat) (hg : g < 4) :
    CRel mbX A0 { top := fun _ => g, left := fun _ => g }
      { above := (implied mbX (rfcB g) sc.above sc.left).1, left := (implied mbX (rfcB g) sc.above sc.left).2 } := by
  have hasz := h.asz; have hasz4 := h.asz4; have hlsz := h.lsz
  unfold implied
  rw [range4]
  simp only [List.foldl_cons, List.foldl_nil]
  refine ⟨?_, ?_, ?_, ?_, hasz4, ?_, fun _ => by show g < 10; omega, fun _ => by show g < 10; omega⟩
  · intro j
    have hj := j.isLt
    simp only [getD_setN, Array.size_setIfInBounds]
    split_ifs <;> first | rfl | (exfalso; omega)
  · intro j
    have hj := j.isLt
    simp only [getD_setN, Array.size_setIfInBounds]
    split_ifs <;> first | rfl | (exfalso; omega)
  · intro i hi
    simp only [getD_setN, Array.size_setIfInBounds]
    split_ifs <;> first | (exfalso; omega) | exact h.o i hi
  · simp only [Array.size_setIfInBounds]; exact hasz
  · simp only [Array.size_setIfInBounds]; exact hlsz

/-- the specification's result for a `B_PRED` macroblock -/
theorem specModes_bpred (h : FrameHdr) (mbX : Nat) (sc : ModeCtx) (d : BoolDec)
    (hy : (yRead (segSkip h d).2.2).1 = B_PRED) :
    specModes h mbX sc d =
      ({ segment := (segSkip h d).1, skip := (segSkip h d).2.1, ymode := (yRead (segSkip h d).2.2).1,
         bmodes := (bAll mbX ((yRead (segSkip h d).2.2).2, sc.above, sc.left,
            Array.replicate 16 (impliedBMode (yRead (segSkip h d).2.2).1))).2.2.2,
         uvmode := (BoolDec.readTree uvModeTree (fun i => Tables.kfUVModeProbs.getD i 128)
            (bAll mbX ((yRead (segSkip h d).2.2).2, sc.above, sc.left,
              Array.replicate 16 (impliedBMode (yRead (segSkip h d).2.2).1))).1).1 },
       { above := (bAll mbX ((yRead (segSkip h d).2.2).2, sc.above, sc.left,
            Array.replicate 16 (impliedBMode (yRead (segSkip h d).2.2).1))).2.1,
         left := (bAll mbX ((yRead (segSkip h d).2.2).2, sc.above, sc.left,
            Array.replicate 16 (impliedBMode (yRead (segSkip h d).2.2).1))).2.2.1 },
       (BoolDec.readTree uvModeTree (fun i => Tables.kfUVModeProbs.getD i 128)
            (bAll mbX ((yRead (segSkip h d).2.2).2, sc.above, sc.left,
              Array.replicate 16 (impliedBMode (yRead (segSkip h d).2.2).1))).1).2) := by
  unfold specModes
  simp only []
  have hyr : BoolDec.readTree kfYModeTree (fun i => Tables.kfYModeProbs.getD i 128) (segSkip h d).2.2 = yRead (segSkip h d).2.2 := rfl
  rw [hyr, if_pos hy]

/-- the specification's result for a macroblock with a 16×16 mode -/
theorem specModes_i16 (h : FrameHdr) (mbX : Nat) (sc : ModeCtx) (d : BoolDec)
    (hy : (yRead (segSkip h d).2.2).1 ≠ B_PRED) :
    specModes h mbX sc d =
      ({ segment := (segSkip h d).1, skip := (segSkip h d).2.1, ymode := (yRead (segSkip h d).2.2).1,
         bmodes := Array.replicate 16 (impliedBMode (yRead (segSkip h d).2.2).1),
         uvmode := (BoolDec.readTree uvModeTree (fun i => Tables.kfUVModeProbs.getD i 128) (yRead (segSkip h d).2.2).2).1 },
       { above := (implied mbX (impliedBMode (yRead (segSkip h d).2.2).1) sc.above sc.left).1,
         left := (implied mbX (impliedBMode (yRead (segSkip h d).2.2).1) sc.above sc.left).2 },
       (BoolDec.readTree uvModeTree (fun i => Tables.kfUVModeProbs.getD i 128) (yRead (segSkip h d).2.2).2).2) := by
  unfold specModes
  simp only []
  have hyr : BoolDec.readTree kfYModeTree (fun i => Tables.kfYModeProbs.getD i 128) (segSkip h d).2.2 = yRead (segSkip h d).2.2 := rfl
  rw [hyr, if_neg hy]

def sNodes : List Nat := [0, 2, 4]

theorem sTree_step : ∀ i ∈ sNodes, ∀ b : Bool, segmentTree.getD (i + (if b then 1 else 0)) 0 ≤ 0 ∨
    (segmentTree.getD (i + (if b then 1 else 0)) 0).toNat ∈ sNodes := by decide

theorem sNodes_half : ∀ i ∈ sNodes, i >>> 1 ≤ 2 := by decide

/-- the segment id and the skip flag on the reference decoder, with any continuation; the probabilities are
    needed only where the frame uses them -/
theorem segskip_runD {β : Type} (prob : Slot → UInt8) (h : FrameHdr)
    (hseg : h.seg.updateMap = true → ∀ i, i ≤ 2 → (prob (.seg i)).toNat = h.seg.treeProbs.getD i 255)
    (hskip : h.skipEnabled = true → (prob .skip).toNat = h.probSkipFalse)
    (d : BoolDec) (K : Nat → Bool → P β) :
    runD prob ((if h.seg.updateMap then T.readSegmentID else pure 0) >>= fun s =>
        (if h.skipEnabled then rd .skip else pure false) >>= fun k => K s k) d =
      runD prob (K (segSkip h d).1 (segSkip h d).2.1) (segSkip h d).2.2 := by
  unfold segSkip
  by_cases h1 : h.seg.updateMap = true
  · obtain ⟨sg, hsgr, hsgf⟩ := tree_runD prob segmentTree Slot.seg (fun n => (prob (.seg n)).toNat) (fun _ => rfl)
      T.readSegmentID id 16 0 (by rw [bind_pure_id]; exact segment_tree) d
    rw [readTree_congr segmentTree sNodes 2 sTree_step sNodes_half _ (fun i => h.seg.treeProbs.getD i 255)
      (fun n hn => hseg h1 n hn) 16 0 d (by decide)] at hsgr hsgf
    have hsgf' : sg = (BoolDec.readTree segmentTree (fun i => h.seg.treeProbs.getD i 255) d).1 := hsgf
    have hsgr' : runD prob T.readSegmentID d =
        some (sg, (BoolDec.readTree segmentTree (fun i => h.seg.treeProbs.getD i 255) d).2) := hsgr
    by_cases h2 : h.skipEnabled = true
    · simp only [h1, h2, if_true]
      rw [runD_bind_of' prob hsgr', runD_rd_bind, hskip h2, hsgf']
    · simp only [h1, h2, if_true, if_false, Bool.false_eq_true]
      rw [runD_bind_of' prob hsgr', hsgf']; rfl
  · by_cases h2 : h.skipEnabled = true
    · simp only [h1, h2, if_true, if_false, Bool.false_eq_true]
      show runD prob (rd .skip >>= fun k => K 0 k) d = _
      rw [runD_rd_bind, hskip h2]
    · simp only [h1, h2, if_false, Bool.false_eq_true]
      rfl

end Webp.Proofs.C04RefineModes
