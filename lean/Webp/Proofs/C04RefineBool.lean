import Webp.Proofs.BoolSpecDec
/-
  C04 refinement, layer 1: the Go `BoolReader` (Webp.Impl.BoolCoder, a 64-bit window loaded 7 / 1
  bytes at a time, `bits` counting the loaded bits below the 8-bit comparison window) and the
  RFC 6386 reference decoder `Webp.Spec.VP8.BoolDec` (two-byte window, one shift per round) decode
  the same booleans from ANY byte string that does not begin with 0xff — not only from strings a
  boolean encoder wrote (`specdec_roundtrip`).

  Method.  Both refine the ideal decoder `Webp.Spec.VP8.BoolIdeal.Dec` run on the number denoted by
  the data padded with `padN = 4` zero bytes, `G = F ++ 0000`:

  * Go side (`GInv`): the reader over `F` with `pos` bytes loaded (plus the single zero byte of
    `loadFinalBytes` once `eof` is up) has the state of a *virtual* reader over `G` with
    `pos (+1)` bytes loaded, and that one satisfies the invariant `RInv G` of
    `Webp.Proofs.BoolReader`.  The step lemmas `load_n`, `core_refines` are reused.  This holds
    until the reader would have to load a SECOND byte beyond the end of the data
    (`pastEnd r = r.eof ∧ r.bits < 0`): then Go sets `Bits = 0` without shifting `Value` and stops
    being a zero-extending decoder.  Until then the ideal exponent never drops below
    `8·padN − 16`, so the fixed padding suffices for any number of reads.
  * spec side (`SEq`, `SG`): the reference decoder over `F` (which answers 0 for bytes beyond the
    end) goes in lock step with the reference decoder over `G`, which satisfies `SInv G`
    (`Webp.Proofs.BoolSpecDec`).
  * flags: a decision is taken at ideal exponent `e`; Go's `eof` and the reference decoder's `over`
    are both up after it iff `e < 8·padN`, i.e. iff the 8-bit comparison window of this or an
    earlier decision was not wholly inside the data.
-/
namespace Webp.Proofs.C04RefineBool
open Webp.Go (Bytes)
open Webp.Impl.BoolCoder
open Webp.Spec.VP8 (BoolDec)
open Webp.Spec.VP8.BoolIdeal
open Webp.Proofs.BoolIdeal
open Webp.Proofs.BoolWriter (beNum_append beNum_single beNum_lt pow256 beNum_nil beNum_cons)
open Webp.Proofs.BoolReader
open Webp.Proofs.BoolSpecDec

/-- number of zero bytes of padding -/
def padN : Nat := 4

/-- the data followed by `padN` zero bytes -/
def pad (F : Bytes) : Bytes := F ++ List.replicate padN (0 : UInt8)

theorem pad_length (F : Bytes) : (pad F).length = F.length + padN := by
  simp [pad]

theorem pad_getD (F : Bytes) (i : Nat) : (pad F).getD i 0 = F.getD i 0 := by
  unfold pad
  by_cases h : i < F.length
  · simp [List.getD_eq_getElem?_getD, List.getElem?_append_left h]
  · have h' : F.length ≤ i := by omega
    simp only [List.getD_eq_getElem?_getD, List.getElem?_append_right h']
    rw [List.getElem?_eq_none (l := F) h']
    by_cases h2 : i - F.length < padN
    · rw [List.getElem?_replicate]; simp [h2]
    · rw [List.getElem?_eq_none (by simpa using Nat.le_of_not_lt h2)]

theorem pad_drop_take (F : Bytes) (p n : Nat) (h : p + n ≤ F.length) :
    ((pad F).drop p).take n = (F.drop p).take n := by
  unfold pad
  rw [List.drop_append_of_le_length (by omega), List.take_append_of_le_length (by simp; omega)]

/-! ## Go side -/

/-- the reader needs a second byte beyond the end of the data: from here on `GetBit` is not a
    zero-extending decoder any more (`loadFinalBytes` sets `Bits = 0` and leaves `Value`) -/
def pastEnd (r : BoolReader) : Bool := r.eof && decide (r.bits < 0)

/-- the reader over the padded data with the same window -/
def virt (F : Bytes) (r : BoolReader) : BoolReader :=
  { r with data := pad F, pos := r.pos + (if r.eof then 1 else 0), eof := false }

structure GInv (F : Bytes) (r : BoolReader) (d : Dec) : Prop where
  hv : RInv (pad F) (virt F r) d
  hdata : r.data = F
  hpos : r.pos ≤ F.length
  heof : r.eof = true → r.pos = F.length ∧ r.bits ≤ 7

theorem eight_padN : 8 * padN = 32 := rfl

/-- the ideal exponent stays high -/
theorem ginv_e {F : Bytes} {r : BoolReader} {d : Dec} (h : GInv F r d) :
    r.bits + 24 ≤ (d.e : Int) := by
  have hb := h.hv.hbits
  have hp := h.hpos
  have hl := pad_length F
  have hvp : (virt F r).pos ≤ F.length + 1 := by
    show r.pos + (if r.eof then 1 else 0) ≤ F.length + 1
    split_ifs <;> omega
  have hvb : (virt F r).bits = r.bits := rfl
  rw [hvb, hl] at hb
  have : padN = 4 := rfl
  omega

theorem virt_mk (F : Bytes) (value range : Nat) (bits : Int) (data : Bytes) (pos : Nat) :
    virt F { value, range, bits, data, pos, eof := false } =
      { value, range, bits, data := pad F, pos, eof := false } := rfl

theorem virt_mk_eof (F : Bytes) (value range : Nat) (bits : Int) (data : Bytes) (pos : Nat) :
    virt F { value, range, bits, data, pos, eof := true } =
      { value, range, bits, data := pad F, pos := pos + 1, eof := false } := rfl

/-- `loadNewBytes` when the window reaches below the loaded bits and `eof` is not up yet -/
theorem load_ginv {F : Bytes} {r : BoolReader} {d : Dec} (h : GInv F r d) (hneg : r.bits < 0)
    (he : r.eof = false) :
    GInv F (loadNewBytes r) d ∧ 0 ≤ (loadNewBytes r).bits ∧ (loadNewBytes r).range = r.range := by
  obtain ⟨value, range, bits, data, pos, eof⟩ := r
  simp only at he hneg
  subst he
  have hD : data = F := h.hdata
  subst hD
  have hpos : pos ≤ data.length := h.hpos
  have hv := h.hv
  rw [virt_mk] at hv
  have hb1 : -8 ≤ bits := hv.hb1
  have hpl := pad_length data
  have hp4 : padN = 4 := rfl
  by_cases h8 : pos + 8 ≤ data.length
  · have e : loadNewBytes { value, range, bits, data, pos, eof := false } =
        { value := beNum ((data.drop pos).take 7) ||| wrap64 (value <<< (8 * 7)), range,
          bits := bits + ((8 * 7 : Nat) : Int), data, pos := pos + 7, eof := false } := by
      unfold loadNewBytes
      simp only [h8, if_true]; rfl
    rw [e]
    have hl := load_n 7 (by norm_num) (by norm_num) hv hneg (by show pos + 7 ≤ (pad data).length; omega)
    rw [pad_drop_take data pos 7 (by omega)] at hl
    refine ⟨⟨?_, rfl, by show pos + 7 ≤ data.length; omega, by intro hh; cases hh⟩, ?_, rfl⟩
    · rw [virt_mk]; exact hl
    · show 0 ≤ bits + ((8 * 7 : Nat) : Int); omega
  · by_cases hlt : pos < data.length
    · have hbyte : (data.getD pos 0).toNat = beNum ((data.drop pos).take 1) := by
        have e2 : (data.drop pos).take 1 = [data[pos]] := by rw [List.drop_eq_getElem_cons hlt]; rfl
        rw [e2, beNum_single]
        simp [hlt]
      have e : loadNewBytes { value, range, bits, data, pos, eof := false } =
          { value := beNum ((data.drop pos).take 1) ||| wrap64 (value <<< (8 * 1)), range,
            bits := bits + ((8 * 1 : Nat) : Int), data, pos := pos + 1, eof := false } := by
        unfold loadNewBytes loadFinalBytes
        simp only [h8, if_false, hlt, if_true, hbyte]; rfl
      rw [e]
      have hl := load_n 1 (by norm_num) (by norm_num) hv hneg (by show pos + 1 ≤ (pad data).length; omega)
      rw [pad_drop_take data pos 1 (by omega)] at hl
      refine ⟨⟨?_, rfl, by show pos + 1 ≤ data.length; omega, by intro hh; cases hh⟩, ?_, rfl⟩
      · rw [virt_mk]; exact hl
      · show 0 ≤ bits + ((8 * 1 : Nat) : Int); omega
    · have hpe : pos = data.length := by omega
      have e : loadNewBytes { value, range, bits, data, pos, eof := false } =
          { value := wrap64 (value <<< (8 * 1)), range,
            bits := bits + ((8 * 1 : Nat) : Int), data, pos, eof := true } := by
        unfold loadNewBytes loadFinalBytes
        simp only [h8, if_false, hlt]; rfl
      rw [e]
      have hl := load_n 1 (by norm_num) (by norm_num) hv hneg (by show pos + 1 ≤ (pad data).length; omega)
      have hz : beNum (((pad data).drop pos).take 1) = 0 := by
        unfold pad
        rw [hpe, List.drop_left]
        rfl
      rw [hz, Nat.zero_or] at hl
      refine ⟨⟨?_, rfl, hpos, ?_⟩, ?_, rfl⟩
      · rw [virt_mk_eof]; exact hl
      · intro _
        exact ⟨hpe, by show bits + ((8 * 1 : Nat) : Int) ≤ 7; omega⟩
      · show 0 ≤ bits + ((8 * 1 : Nat) : Int); omega

theorem shiftOf_le (d : Dec) (p : Nat) : shiftOf d p ≤ 7 := normShift_le _

/-- `getBitCore` only touches the window -/
theorem virt_core (F : Bytes) (r : BoolReader) (range p : Nat) :
    (getBitCore (virt F r) range p).1 = (getBitCore r range p).1 ∧
    (getBitCore (virt F r) range p).2 = virt F (getBitCore r range p).2 := ⟨rfl, rfl⟩

theorem core_ginv {F : Bytes} {r : BoolReader} {d : Dec} (h : GInv F r d) (h0 : 0 ≤ r.bits)
    {range p : Nat} (hrange : range + 1 = d.range) (hp : p ≤ 255) :
    (getBitCore r range p).1 = (d.get p).1 ∧ GInv F (getBitCore r range p).2 (d.get p).2 := by
  have he := ginv_e h
  have hsh : shiftOf d p ≤ d.e := by have := shiftOf_le d p; omega
  obtain ⟨hb, hi⟩ := core_refines h.hv (by exact h0) hrange hp hsh
  obtain ⟨v1, v2⟩ := virt_core F r range p
  rw [v1] at hb
  rw [v2] at hi
  refine ⟨hb, hi, h.hdata, h.hpos, ?_⟩
  intro hh
  have hh' : r.eof = true := hh
  obtain ⟨a, b⟩ := h.heof hh'
  refine ⟨a, ?_⟩
  show r.bits - _ ≤ 7
  have : (0 : Int) ≤ ((7 ^^^ (len32 (if (decide (wrap32 (shrU64 r.value r.bits) > wrap32 (wrap32 (range * p) >>> 8))) = true then
      wrap32 (range + 2 ^ 32 - wrap32 (wrap32 (range * p) >>> 8)) else wrap32 (wrap32 (wrap32 (range * p) >>> 8) + 1)) - 1) : Nat) : Int) :=
    Int.natCast_nonneg _
  omega

/-- **One `GetBit` on any data refines one step of the ideal decoder over the padded data**, unless
    the reader is past the end. -/
theorem getBit_ginv {F : Bytes} {r : BoolReader} {d : Dec} (h : GInv F r d) (hpe : pastEnd r = false)
    {p : Nat} (hp : p ≤ 255) :
    (getBit r p).1 = (d.get p).1 ∧ GInv F (getBit r p).2 (d.get p).2 := by
  rw [getBit_eq]
  have hr : r.range + 1 = d.range := h.hv.hr
  by_cases hneg : r.bits < 0
  · have he : r.eof = false := by
      unfold pastEnd at hpe
      simpa [hneg] using hpe
    simp only [hneg, if_true]
    obtain ⟨hl, hl0, hlr⟩ := load_ginv h hneg he
    exact core_ginv hl hl0 hr hp
  · simp only [hneg, if_false]
    exact core_ginv h (by omega) hr hp

/-- `eof` after a `GetBit` in terms of the ideal exponent at which the decision was taken -/
theorem getBit_eof {F : Bytes} {r : BoolReader} {d : Dec} (h : GInv F r d) (hpe : pastEnd r = false)
    (p : Nat) : (getBit r p).2.eof = decide (d.e < 8 * padN) := by
  rw [getBit_eq]
  have hcore : ∀ (r' : BoolReader) (range : Nat), (getBitCore r' range p).2.eof = r'.eof := fun _ _ => rfl
  rw [hcore]
  have hb := h.hv.hbits
  have hb1 : -8 ≤ r.bits := h.hv.hb1
  have hvb : (virt F r).bits = r.bits := rfl
  have hpl := pad_length F
  have hp4 : padN = 4 := rfl
  have hpos := h.hpos
  rw [hvb, hpl] at hb
  by_cases hneg : r.bits < 0
  · have he : r.eof = false := by
      unfold pastEnd at hpe
      simpa [hneg] using hpe
    simp only [hneg, if_true]
    have hvp : (virt F r).pos = r.pos := by
      show r.pos + (if r.eof then 1 else 0) = r.pos
      rw [he]; rfl
    rw [hvp] at hb
    by_cases hlt : r.pos < F.length
    · -- a data byte is available: no eof, and the exponent is high
      have hne : (loadNewBytes r).eof = false := by
        unfold loadNewBytes loadFinalBytes
        rw [h.hdata]
        split_ifs <;> exact he
      rw [hne]
      symm; simp only [decide_eq_false_iff_not]; omega
    · have hne : (loadNewBytes r).eof = true := by
        unfold loadNewBytes loadFinalBytes
        rw [h.hdata]
        split_ifs <;> first | rfl | omega | (simp [he] at *)
      rw [hne]
      symm; simp only [decide_eq_true_eq]; omega
  · simp only [hneg, if_false]
    by_cases he : r.eof = true
    · obtain ⟨a, b⟩ := h.heof he
      have hvp : (virt F r).pos = r.pos + 1 := by
        show r.pos + (if r.eof then 1 else 0) = r.pos + 1
        rw [he]; rfl
      rw [hvp] at hb
      rw [he]; symm; simp only [decide_eq_true_eq]; omega
    · have he' : r.eof = false := by simpa using he
      have hvp : (virt F r).pos = r.pos := by
        show r.pos + (if r.eof then 1 else 0) = r.pos
        rw [he']; rfl
      rw [hvp] at hb
      rw [he']; symm; simp only [decide_eq_false_iff_not]; omega

/-- `eof` is sticky -/
theorem loadNewBytes_eof_mono (r : BoolReader) (h : r.eof = true) : (loadNewBytes r).eof = true := by
  unfold loadNewBytes loadFinalBytes
  split_ifs <;> simp_all

theorem getBit_eof_mono (r : BoolReader) (p : Nat) (h : r.eof = true) : (getBit r p).2.eof = true := by
  rw [getBit_eq]
  show (if r.bits < 0 then loadNewBytes r else r).eof = true
  split_ifs
  · exact loadNewBytes_eof_mono r h
  · exact h

/-- the ideal decoder over the padded data -/
def ideal0 (F : Bytes) : Dec := { val := beNum (pad F), range := 255, e := 8 * (pad F).length - 8 }

/-- the data does not begin with 0xff -/
def NoFF (F : Bytes) : Prop := F.head? ≠ some 0xff

theorem beNum_pad (F : Bytes) : beNum (pad F) = beNum F * 2 ^ (8 * padN) := by
  unfold pad
  rw [beNum_append, Webp.Proofs.BoolWriter.beNum_replicate_zero, List.length_replicate, pow256, Nat.add_zero]

theorem ideal0_dinv (F : Bytes) (h : NoFF F) : DInv (ideal0 F) := by
  refine ⟨by show 128 ≤ 255; omega, by show 255 ≤ 255; omega, ?_⟩
  show beNum (pad F) < 255 * 2 ^ (8 * (pad F).length - 8)
  rw [beNum_pad, pad_length]
  cases F with
  | nil =>
    rw [beNum_nil]; simp
  | cons a rest =>
    have ha : a.toNat ≤ 254 := by
      have h1 : a ≠ 255 := by
        intro hh; apply h; rw [hh]; rfl
      have h2 : a.toNat < 256 := a.toNat_lt
      have h3 : a.toNat ≠ 255 := by
        intro hh; apply h1
        apply UInt8.toNat_inj.mp; rw [hh]; rfl
      omega
    have hB : beNum rest < 2 ^ (8 * rest.length) := by
      have := beNum_lt rest; rwa [pow256] at this
    rw [beNum_cons, pow256, List.length_cons]
    have e1 : 8 * (rest.length + 1 + padN) - 8 = 8 * rest.length + 8 * padN := by omega
    rw [e1, pow_add]
    have : (a.toNat * 2 ^ (8 * rest.length) + beNum rest) < 255 * 2 ^ (8 * rest.length) := by
      have h1 : a.toNat * 2 ^ (8 * rest.length) ≤ 254 * 2 ^ (8 * rest.length) := Nat.mul_le_mul_right _ ha
      omega
    calc (a.toNat * 2 ^ (8 * rest.length) + beNum rest) * 2 ^ (8 * padN)
        < 255 * 2 ^ (8 * rest.length) * 2 ^ (8 * padN) := Nat.mul_lt_mul_of_pos_right this (Nat.two_pow_pos _)
      _ = 255 * (2 ^ (8 * rest.length) * 2 ^ (8 * padN)) := by ring

/-- the invariant holds for a fresh reader -/
theorem ginv_init (F : Bytes) (h : NoFF F) : GInv F (newReader F) (ideal0 F) := by
  have hd := ideal0_dinv F h
  have h0 : GInv F { data := F } (ideal0 F) := by
    refine ⟨?_, rfl, Nat.zero_le _, by intro hh; cases hh⟩
    have := rinv_init (pad F) (by rw [pad_length]; show 1 ≤ F.length + 4; omega) hd
    exact this
  exact (load_ginv h0 (by show (-8 : Int) < 0; omega) rfl).1

/-! ## spec side -/

/-- two reference decoders in the same coder state that see the same bytes, the first one `k`
    bytes further into its array (a partition inside the frame vs the partition on its own) -/
structure SEq (k : Nat) (d d' : BoolDec) : Prop where
  hvalue : d.value = d'.value
  hrange : d.range = d'.range
  hbc : d.bitCount = d'.bitCount
  hpos : d.pos = d'.pos + k
  hstart : d.start = d'.start + k
  hbyte : ∀ i, d.byteAt (i + k) = d'.byteAt i

theorem seq_round {k : Nat} {d d' : BoolDec} (h : SEq k d d') : SEq k (round d) (round d') := by
  unfold round
  rw [h.hbc, h.hvalue, h.hrange, h.hpos, h.hbyte]
  split_ifs
  · exact ⟨rfl, rfl, rfl, by show d'.pos + k + 1 = d'.pos + 1 + k; omega, h.hstart, h.hbyte⟩
  · exact ⟨rfl, rfl, rfl, rfl, h.hstart, h.hbyte⟩

theorem seq_normalize (fuel : Nat) {k : Nat} {d d' : BoolDec} (h : SEq k d d') :
    SEq k (BoolDec.normalize fuel d) (BoolDec.normalize fuel d') := by
  induction fuel generalizing d d' with
  | zero => exact h
  | succ fuel ih =>
    rw [normalize_succ, normalize_succ, h.hrange]
    split_ifs
    · exact h
    · exact ih (seq_round h)

/-- `normalize` leaves the bookkeeping fields alone -/
theorem normalize_over (fuel : Nat) (d : BoolDec) :
    (BoolDec.normalize fuel d).over = d.over ∧ (BoolDec.normalize fuel d).stop = d.stop ∧
    (BoolDec.normalize fuel d).start = d.start ∧ (BoolDec.normalize fuel d).data = d.data := by
  induction fuel generalizing d with
  | zero => exact ⟨rfl, rfl, rfl, rfl⟩
  | succ fuel ih =>
    rw [normalize_succ]
    split_ifs
    · exact ⟨rfl, rfl, rfl, rfl⟩
    · obtain ⟨a, b, c, e⟩ := ih (round d)
      rw [a, b, c, e]
      unfold round
      split_ifs <;> exact ⟨rfl, rfl, rfl, rfl⟩

/-- `readBool` with the `over` bookkeeping separated -/
def readCore (d : BoolDec) (prob : Nat) : Bool × BoolDec :=
  let split := 1 + (((d.range - 1) * prob) >>> 8)
  let bigSplit := split <<< 8
  if d.value ≥ bigSplit then
    (true, BoolDec.normalize 8 { d with range := d.range - split, value := d.value - bigSplit })
  else
    (false, BoolDec.normalize 8 { d with range := split })

theorem readBool_eq (d : BoolDec) (p : Nat) :
    d.readBool p = readCore (if d.needed > d.stop - d.start then { d with over := true, used := true }
      else { d with used := true }) p := rfl

theorem seq_readCore {k : Nat} {d d' : BoolDec} (h : SEq k d d') (p : Nat) :
    (readCore d p).1 = (readCore d' p).1 ∧ SEq k (readCore d p).2 (readCore d' p).2 := by
  unfold readCore
  simp only [h.hvalue, h.hrange]
  split_ifs
  · exact ⟨rfl, seq_normalize 8 ⟨rfl, rfl, h.hbc, h.hpos, h.hstart, h.hbyte⟩⟩
  · exact ⟨rfl, seq_normalize 8 ⟨rfl, rfl, h.hbc, h.hpos, h.hstart, h.hbyte⟩⟩

theorem seq_readBool {k : Nat} {d d' : BoolDec} (h : SEq k d d') (p : Nat) :
    (d.readBool p).1 = (d'.readBool p).1 ∧ SEq k (d.readBool p).2 (d'.readBool p).2 := by
  rw [readBool_eq, readBool_eq]
  apply seq_readCore
  split_ifs <;> exact ⟨h.hvalue, h.hrange, h.hbc, h.hpos, h.hstart, h.hbyte⟩

theorem readBool_over (d : BoolDec) (p : Nat) :
    (d.readBool p).2.over = (d.over || decide (d.needed > d.stop - d.start)) ∧
    (d.readBool p).2.stop = d.stop ∧ (d.readBool p).2.start = d.start ∧ (d.readBool p).2.data = d.data := by
  rw [readBool_eq]
  unfold readCore
  by_cases hn : d.needed > d.stop - d.start
  · simp only [hn, if_true, decide_true, Bool.or_true]
    split_ifs
    · obtain ⟨a, b, c, e⟩ := normalize_over 8
        { d with over := true, used := true, range := d.range - (1 + (((d.range - 1) * p) >>> 8)),
                 value := d.value - (1 + (((d.range - 1) * p) >>> 8)) <<< 8 }
      exact ⟨a, b, c, e⟩
    · obtain ⟨a, b, c, e⟩ := normalize_over 8
        { d with over := true, used := true, range := (1 + (((d.range - 1) * p) >>> 8)) }
      exact ⟨a, b, c, e⟩
  · simp only [hn, if_false, decide_false, Bool.or_false]
    split_ifs
    · obtain ⟨a, b, c, e⟩ := normalize_over 8
        { d with used := true, range := d.range - (1 + (((d.range - 1) * p) >>> 8)),
                 value := d.value - (1 + (((d.range - 1) * p) >>> 8)) <<< 8 }
      exact ⟨a, b, c, e⟩
    · obtain ⟨a, b, c, e⟩ := normalize_over 8
        { d with used := true, range := (1 + (((d.range - 1) * p) >>> 8)) }
      exact ⟨a, b, c, e⟩

/-- the reference decoder over `F`, the reference decoder over the padded data next to it, and the
    ideal decoder the latter refines -/
def SG (F : Bytes) (d : BoolDec) (di : Dec) : Prop :=
  ∃ (k : Nat) (d' : BoolDec), SInv (pad F) d' di.val di.e ∧ d'.range = di.range ∧ SEq k d d' ∧
    d.stop - d.start = F.length

theorem sg_step {F : Bytes} {d : BoolDec} {di : Dec} (h : SG F d di) (hd : DInv di) {p : Nat} (hp : p ≤ 255)
    (hsh : shiftOf di p + 8 ≤ di.e) :
    (d.readBool p).1 = (di.get p).1 ∧ SG F (d.readBool p).2 (di.get p).2 ∧
      (d.readBool p).2.over = (d.over || decide (di.e < 8 * padN)) := by
  obtain ⟨k, d', hs, hr, heq, hstop⟩ := h
  obtain ⟨hb, hseq⟩ := seq_readBool heq p
  obtain ⟨hb', hs', hr'⟩ := readBool_refines hs hr hd hp hsh
  obtain ⟨ho, hst, hsa, _⟩ := readBool_over d p
  refine ⟨hb.trans hb', ⟨k, (d'.readBool p).2, hs', hr', hseq, by rw [hst, hsa]; exact hstop⟩, ?_⟩
  rw [ho]
  congr 1
  -- `needed > len F` iff the exponent is below the padding
  have hn : d.needed = d'.needed := by
    unfold BoolDec.needed; rw [heq.hbc, heq.hpos, heq.hstart]
    split_ifs <;> omega
  rw [hn, hstop]
  have h1 : d'.pos ≤ F.length + padN := by have := hs.hpos; rwa [pad_length] at this
  have h2 := hs.hpos2
  have h3 := hs.hc
  have h4 : di.e + d'.bitCount = 8 * (F.length + padN - d'.pos) + 8 := by have := hs.he; rwa [pad_length] at this
  have h5 := hs.hstart
  have hp4 : padN = 4 := rfl
  apply decide_eq_decide.mpr
  unfold BoolDec.needed
  rw [h5]
  generalize d'.pos = P at *
  generalize d'.bitCount = C at *
  generalize F.length = L at *
  generalize di.e = E at *
  clear hs hr heq hb hseq hb' hs' hr' ho hst hsa hn hsh hd
  by_cases hc : C = 0
  · simp only [hc, if_true]
    omega
  · simp only [hc, if_false]
    omega

/-! ## the simulation relation between the two decoders -/

/-- the Go reader `r` and the reference decoder `d`, both over the data `F`, are in step -/
def Sim (F : Bytes) (r : BoolReader) (d : BoolDec) : Prop :=
  ∃ di : Dec, GInv F r di ∧ SG F d di ∧ (d.over = true → di.e < 8 * padN) ∧ (pastEnd r = true → d.over = true)

theorem ginv_eof_e {F : Bytes} {r : BoolReader} {d : Dec} (h : GInv F r d) (he : r.eof = true) :
    d.e < 8 * padN := by
  obtain ⟨a, b⟩ := h.heof he
  have hb := h.hv.hbits
  have hvb : (virt F r).bits = r.bits := rfl
  have hvp : (virt F r).pos = r.pos + 1 := by
    show r.pos + (if r.eof then 1 else 0) = r.pos + 1
    rw [he]; rfl
  have hpl := pad_length F
  have hp4 : padN = 4 := rfl
  rw [hvb, hvp, hpl, a] at hb
  omega

/-- **One decision.**  From states in step, and unless the Go reader is past the end, `GetBit(p)` and
    `bool_read(p)` return the same boolean, leave states in step, and leave `eof` = `over`. -/
theorem sim_step {F : Bytes} {r : BoolReader} {d : BoolDec} (h : Sim F r d) (hpe : pastEnd r = false)
    {p : Nat} (hp : p ≤ 255) :
    (getBit r p).1 = (d.readBool p).1 ∧ Sim F (getBit r p).2 (d.readBool p).2 ∧
      (getBit r p).2.eof = (d.readBool p).2.over := by
  obtain ⟨di, hg, hs, hov, _⟩ := h
  have he := ginv_e hg
  have hb1 : -8 ≤ r.bits := hg.hv.hb1
  have hsh7 := shiftOf_le di p
  have hsh : shiftOf di p + 8 ≤ di.e := by omega
  obtain ⟨gb, gi⟩ := getBit_ginv hg hpe hp
  obtain ⟨sb, si, so⟩ := sg_step hs hg.hv.hd hp hsh
  have ge := getBit_eof hg hpe p
  have hflag : (getBit r p).2.eof = (d.readBool p).2.over := by
    rw [ge, so]
    by_cases ho : d.over = true
    · have := hov ho
      rw [ho]; simp [this]
    · have : d.over = false := by simpa using ho
      rw [this]; simp
  refine ⟨gb.trans sb.symm, ⟨(di.get p).2, gi, si, ?_, ?_⟩, hflag⟩
  · intro ho
    rw [← hflag] at ho
    have := ginv_eof_e gi ho
    exact this
  · intro hp'
    rw [← hflag]
    unfold pastEnd at hp'
    simp only [Bool.and_eq_true] at hp'
    exact hp'.1

theorem over_mono (d : BoolDec) (p : Nat) (h : d.over = true) : (d.readBool p).2.over = true := by
  rw [(readBool_over d p).1, h]; rfl

theorem specBitsSt_over_mono (d : BoolDec) (ps : List Nat) (h : d.over = true) : (specBitsSt d ps).2.over = true := by
  induction ps generalizing d with
  | nil => exact h
  | cons p ps ih => exact ih _ (over_mono d p h)

theorem readBitsSt_eof_mono (r : BoolReader) (ps : List Nat) (h : r.eof = true) : (readBitsSt r ps).2.eof = true := by
  induction ps generalizing r with
  | nil => exact h
  | cons p ps ih => exact ih _ (getBit_eof_mono r p h)

/-- no read of the run starts past the end -/
def PastEndFree (r : BoolReader) : List Nat → Prop
  | [] => True
  | p :: ps => pastEnd r = false ∧ PastEndFree (getBit r p).2 ps

theorem pastEnd_of_eof_false {r : BoolReader} (h : r.eof = false) : pastEnd r = false := by
  unfold pastEnd; rw [h]; rfl

/-- `eof` still down before the LAST read of the run ⇒ no read started past the end -/
theorem pastEndFree_of_eof_before_last (r : BoolReader) (ps : List Nat)
    (h : (readBitsSt r ps.dropLast).2.eof = false) : PastEndFree r ps := by
  induction ps generalizing r with
  | nil => trivial
  | cons p ps ih =>
    cases ps with
    | nil =>
      exact ⟨pastEnd_of_eof_false h, trivial⟩
    | cons q qs =>
      have hdl : (p :: q :: qs).dropLast = p :: (q :: qs).dropLast := rfl
      rw [hdl] at h
      have h' : (readBitsSt (getBit r p).2 (q :: qs).dropLast).2.eof = false := h
      refine ⟨?_, ih _ h'⟩
      apply pastEnd_of_eof_false
      by_contra hc
      have hc' : r.eof = true := by simpa using hc
      have := readBitsSt_eof_mono (getBit r p).2 (q :: qs).dropLast (getBit_eof_mono r p hc')
      rw [this] at h'; cases h'

theorem pastEndFree_of_eof_final (r : BoolReader) (ps : List Nat)
    (h : (readBitsSt r ps).2.eof = false) : PastEndFree r ps := by
  induction ps generalizing r with
  | nil => trivial
  | cons p ps ih =>
    have h' : (readBitsSt (getBit r p).2 ps).2.eof = false := h
    refine ⟨?_, ih _ h'⟩
    apply pastEnd_of_eof_false
    by_contra hc
    have hc' : r.eof = true := by simpa using hc
    have := readBitsSt_eof_mono (getBit r p).2 ps (getBit_eof_mono r p hc')
    rw [this] at h'; cases h'

/-- **Runs.**  As long as no read starts past the end, the two decoders return the same booleans,
    stay in step, and (after at least one read) `eof = over`. -/
theorem sim_run {F : Bytes} {ps : List Nat} (hp : ∀ p ∈ ps, p ≤ 255) {r : BoolReader} {d : BoolDec}
    (h : Sim F r d) (hfree : PastEndFree r ps) :
    (readBitsSt r ps).1 = (specBitsSt d ps).1 ∧ Sim F (readBitsSt r ps).2 (specBitsSt d ps).2 ∧
      (ps ≠ [] → (readBitsSt r ps).2.eof = (specBitsSt d ps).2.over) := by
  induction ps generalizing r d with
  | nil => exact ⟨rfl, h, fun hh => absurd rfl hh⟩
  | cons p ps ih =>
    obtain ⟨hpe, hfree'⟩ := hfree
    obtain ⟨hb, hs, hf⟩ := sim_step h hpe (hp p (by simp))
    obtain ⟨ih1, ih2, ih3⟩ := ih (fun q hq => hp q (by simp [hq])) hs hfree'
    refine ⟨?_, ih2, ?_⟩
    · show (getBit r p).1 :: (readBitsSt (getBit r p).2 ps).1 = (d.readBool p).1 :: (specBitsSt (d.readBool p).2 ps).1
      rw [hb, ih1]
    · intro _
      show (readBitsSt (getBit r p).2 ps).2.eof = (specBitsSt (d.readBool p).2 ps).2.over
      cases ps with
      | nil => exact hf
      | cons q qs => exact ih3 (by simp)

/-- the reference decoder did not go over ⇒ no Go read started past the end -/
theorem pastEndFree_of_over_false {F : Bytes} {ps : List Nat} (hp : ∀ p ∈ ps, p ≤ 255) {r : BoolReader}
    {d : BoolDec} (h : Sim F r d) (ho : (specBitsSt d ps).2.over = false) : PastEndFree r ps := by
  induction ps generalizing r d with
  | nil => trivial
  | cons p ps ih =>
    have ho' : (specBitsSt (d.readBool p).2 ps).2.over = false := ho
    have hd : d.over = false := by
      by_contra hc
      have hc' : d.over = true := by simpa using hc
      have := specBitsSt_over_mono (d.readBool p).2 ps (over_mono d p hc')
      rw [this] at ho'; cases ho'
    have hpe : pastEnd r = false := by
      obtain ⟨di, _, _, _, hq⟩ := h
      by_contra hc
      have hc' : pastEnd r = true := by simpa using hc
      have := hq hc'
      rw [this] at hd; cases hd
    obtain ⟨_, hs, _⟩ := sim_step h hpe (hp p (by simp))
    exact ⟨hpe, ih (fun q hq => hp q (by simp [hq])) hs ho'⟩

/-- after at least one read, `eof = over` — also when reads went past the end (both flags are
    sticky and were raised together) -/
theorem flags_run {F : Bytes} {ps : List Nat} (hp : ∀ p ∈ ps, p ≤ 255) {r : BoolReader} {d : BoolDec}
    (h : Sim F r d) (hne : ps ≠ []) : (readBitsSt r ps).2.eof = (specBitsSt d ps).2.over := by
  induction ps generalizing r d with
  | nil => exact absurd rfl hne
  | cons p ps ih =>
    by_cases hpe : pastEnd r = true
    · have he : r.eof = true := by
        unfold pastEnd at hpe
        simp only [Bool.and_eq_true] at hpe
        exact hpe.1
      have ho : d.over = true := by
        obtain ⟨di, _, _, _, hq⟩ := h
        exact hq hpe
      rw [readBitsSt_eof_mono r (p :: ps) he, specBitsSt_over_mono d (p :: ps) ho]
    · have hpe' : pastEnd r = false := by simpa using hpe
      obtain ⟨_, hs, hf⟩ := sim_step h hpe' (hp p (by simp))
      show (readBitsSt (getBit r p).2 ps).2.eof = (specBitsSt (d.readBool p).2 ps).2.over
      cases ps with
      | nil => exact hf
      | cons q qs => exact ih (fun x hx => hp x (by simp [hx])) hs (by simp)

/-! ## initial states -/

theorem newReader_bits_nonneg (F : Bytes) : 0 ≤ (newReader F).bits := by
  unfold newReader loadNewBytes loadFinalBytes
  split_ifs <;> (show (0 : Int) ≤ _; simp)

theorem seq_init (F : Bytes) : SEq 0 (specInit F) (specInit (pad F)) := by
  have hsz : ∀ G : Bytes, (ByteArray.mk G.toArray).size = G.length := fun G => by simp [ByteArray.size]
  have hb : ∀ (G : Bytes) (i : Nat),
      (if i < min G.length (ByteArray.mk G.toArray).size then ((ByteArray.mk G.toArray).get! i).toNat else 0)
        = (G.getD i 0).toNat := by
    intro G i
    rw [hsz, Nat.min_self, get!_mk]
    split_ifs with hi
    · rfl
    · simp [List.getD_eq_getElem?_getD, List.getElem?_eq_none (Nat.le_of_not_lt hi)]
  refine ⟨?_, rfl, rfl, rfl, rfl, ?_⟩
  · show (if 0 < min F.length (ByteArray.mk F.toArray).size then ((ByteArray.mk F.toArray).get! 0).toNat else 0) * 256 +
        (if 0 + 1 < min F.length (ByteArray.mk F.toArray).size then ((ByteArray.mk F.toArray).get! (0 + 1)).toNat else 0)
      = (if 0 < min (pad F).length (ByteArray.mk (pad F).toArray).size then ((ByteArray.mk (pad F).toArray).get! 0).toNat else 0) * 256 +
        (if 0 + 1 < min (pad F).length (ByteArray.mk (pad F).toArray).size then ((ByteArray.mk (pad F).toArray).get! (0 + 1)).toNat else 0)
    rw [hb, hb, hb, hb, pad_getD, pad_getD]
  · intro i
    show (if i < min F.length (ByteArray.mk F.toArray).size then ((ByteArray.mk F.toArray).get! i).toNat else 0)
      = (if i < min (pad F).length (ByteArray.mk (pad F).toArray).size then ((ByteArray.mk (pad F).toArray).get! i).toNat else 0)
    rw [hb, hb, pad_getD]

theorem specInit_stop (F : Bytes) : (specInit F).stop = F.length := by
  show min F.length (ByteArray.mk F.toArray).size = F.length
  simp [ByteArray.size]

/-- a fresh Go reader and a fresh reference decoder over the same data are in step -/
theorem sim_init (F : Bytes) (h : NoFF F) : Sim F (newReader F) (specInit F) := by
  have hlen : 2 ≤ (pad F).length := by rw [pad_length]; show 2 ≤ F.length + 4; omega
  obtain ⟨hs, hr⟩ := sinv_init (pad F) hlen
  refine ⟨ideal0 F, ginv_init F h, ⟨0, specInit (pad F), hs, hr, seq_init F, specInit_stop F⟩, ?_, ?_⟩
  · intro ho; cases ho
  · intro hp
    unfold pastEnd at hp
    simp only [Bool.and_eq_true, decide_eq_true_eq] at hp
    have := newReader_bits_nonneg F
    omega

end Webp.Proofs.C04RefineBool
