import Webp.Impl.AnimDec
/-
  Blend arithmetic of `alphaBlendNRGBA` (property C09): bounds on every intermediate, the
  `uint32` computation equals the computation over ℕ, the clamp is dead, and the implementation's
  function equals `Spec.Anim.blend`; relation to libwebp's literal formula.
-/
namespace Webp.Proofs.AnimDecBlend
open Webp.Spec.Anim Webp.Impl.AnimDec

/-- natural-number bounds of all intermediates, for `1 ≤ sa ≤ 255`, everything else `≤ 255` -/
theorem nat_bounds (sa da sc dc : Nat) (hsa0 : 0 < sa) (hsa : sa ≤ 255) (hda : da ≤ 255)
    (hsc : sc ≤ 255) (hdc : dc ≤ 255) :
    da * (256 - sa) < 2 ^ 32 ∧
    sa + (da * (256 - sa)) / 256 ≤ 255 ∧
    sc * sa + dc * ((da * (256 - sa)) / 256) ≤ 255 * (sa + (da * (256 - sa)) / 256) ∧
    (sc * sa + dc * ((da * (256 - sa)) / 256)) * (2 ^ 24 / (sa + (da * (256 - sa)) / 256)) ≤ 255 * 2 ^ 24 ∧
    (sc * sa + dc * ((da * (256 - sa)) / 256)) * (2 ^ 24 / (sa + (da * (256 - sa)) / 256)) / 2 ^ 24 ≤ 255 := by
  have hk : 0 < 256 - sa := by omega
  have h1 : da * (256 - sa) ≤ 255 * 256 := Nat.mul_le_mul hda (by omega)
  have hdfa : (da * (256 - sa)) / 256 < 256 - sa := by
    rw [Nat.div_lt_iff_lt_mul (by decide)]
    calc da * (256 - sa) ≤ 255 * (256 - sa) := Nat.mul_le_mul_right _ hda
      _ < (256 - sa) * 256 := by omega
  generalize hdfa' : (da * (256 - sa)) / 256 = dfa at *
  have hba : sa + dfa ≤ 255 := by omega
  have hU : sc * sa + dc * dfa ≤ 255 * (sa + dfa) := by
    have a1 : sc * sa ≤ 255 * sa := Nat.mul_le_mul_right _ hsc
    have a2 : dc * dfa ≤ 255 * dfa := Nat.mul_le_mul_right _ hdc
    omega
  have hs : (sa + dfa) * (2 ^ 24 / (sa + dfa)) ≤ 2 ^ 24 := Nat.mul_div_le _ _
  have hUs : (sc * sa + dc * dfa) * (2 ^ 24 / (sa + dfa)) ≤ 255 * 2 ^ 24 := by
    calc (sc * sa + dc * dfa) * (2 ^ 24 / (sa + dfa))
        ≤ (255 * (sa + dfa)) * (2 ^ 24 / (sa + dfa)) := Nat.mul_le_mul_right _ hU
      _ = 255 * ((sa + dfa) * (2 ^ 24 / (sa + dfa))) := Nat.mul_assoc _ _ _
      _ ≤ 255 * 2 ^ 24 := Nat.mul_le_mul_left _ hs
  refine ⟨by omega, hba, hU, hUs, ?_⟩
  exact Nat.div_le_of_le_mul (by omega)


/-- ℕ value of `dst_factor_a` -/
def dfaN (sa da : Nat) : Nat := (da * (256 - sa)) / 256
/-- ℕ value of `blend_a` -/
def baN (sa da : Nat) : Nat := sa + dfaN sa da
/-- ℕ value of `scale` -/
def scaleN (sa da : Nat) : Nat := 2 ^ 24 / baN sa da
/-- ℕ value of a blended channel before any truncation or clamp -/
def chanN (sa da sc dc : Nat) : Nat := (sc * sa + dc * dfaN sa da) * scaleN sa da / 2 ^ 24

theorem u8_le (x : UInt8) : x.toNat ≤ 255 := by have := x.toNat_lt; omega

theorem dstFactor_toNat (sa da : UInt8) :
    (dstFactor sa.toUInt32 da.toUInt32).toNat = dfaN sa.toNat da.toNat := by
  have h1 := u8_le sa; have h2 := u8_le da
  have hm : da.toNat * (256 - sa.toNat) ≤ 255 * 256 := Nat.mul_le_mul h2 (by omega)
  unfold dstFactor dfaN
  rw [UInt32.toNat_shiftRight, UInt32.toNat_mul, UInt32.toNat_sub]
  simp only [UInt8.toNat_toUInt32, UInt32.toNat_ofNat, Nat.shiftRight_eq_div_pow]
  have : (2 ^ 32 - sa.toNat + 256 % 2 ^ 32) % 2 ^ 32 = 256 - sa.toNat := by omega
  rw [this, Nat.mod_eq_of_lt (by omega)]

theorem blendA_toNat (sa da : UInt8) (h0 : 0 < sa.toNat) :
    (sa.toUInt32 + dstFactor sa.toUInt32 da.toUInt32).toNat = baN sa.toNat da.toNat := by
  have hb := (nat_bounds sa.toNat da.toNat 0 0 h0 (u8_le sa) (u8_le da) (by omega) (by omega)).2.1
  rw [UInt32.toNat_add, dstFactor_toNat, UInt8.toNat_toUInt32]
  unfold baN dfaN
  omega

theorem scale_toNat (sa da : UInt8) (h0 : 0 < sa.toNat) :
    (((1 : UInt32) <<< 24) / (sa.toUInt32 + dstFactor sa.toUInt32 da.toUInt32)).toNat
      = scaleN sa.toNat da.toNat := by
  rw [UInt32.toNat_div, blendA_toNat sa da h0]
  rfl

/-- `blend_no_overflow` at the level of the code: the `uint32` value of the closure's `v` is the
    value computed over ℕ — no intermediate wraps. -/
theorem blendV_toNat (sa da sc dc : UInt8) (h0 : 0 < sa.toNat) :
    (blendV sa.toUInt32 (dstFactor sa.toUInt32 da.toUInt32)
      (((1 : UInt32) <<< 24) / (sa.toUInt32 + dstFactor sa.toUInt32 da.toUInt32)) sc dc).toNat
      = chanN sa.toNat da.toNat sc.toNat dc.toNat := by
  obtain ⟨-, hba, hU, hUs, -⟩ := nat_bounds sa.toNat da.toNat sc.toNat dc.toNat h0 (u8_le sa) (u8_le da) (u8_le sc) (u8_le dc)
  have hU' : sc.toNat * sa.toNat + dc.toNat * dfaN sa.toNat da.toNat ≤ 255 * 255 := by
    unfold dfaN; omega
  unfold blendV chanN
  rw [UInt32.toNat_shiftRight, UInt32.toNat_mul, scale_toNat sa da h0, UInt32.toNat_add,
    UInt32.toNat_mul, UInt32.toNat_mul, dstFactor_toNat]
  simp only [UInt8.toNat_toUInt32, UInt32.toNat_ofNat, Nat.shiftRight_eq_div_pow]
  have e1 : sc.toNat * sa.toNat % 2 ^ 32 = sc.toNat * sa.toNat := Nat.mod_eq_of_lt (by omega)
  have e2 : dc.toNat * dfaN sa.toNat da.toNat % 2 ^ 32 = dc.toNat * dfaN sa.toNat da.toNat :=
    Nat.mod_eq_of_lt (by omega)
  rw [e1, e2, Nat.mod_eq_of_lt (a := _ + _) (by omega)]
  have e3 : (sc.toNat * sa.toNat + dc.toNat * dfaN sa.toNat da.toNat) * scaleN sa.toNat da.toNat % 2 ^ 32
      = (sc.toNat * sa.toNat + dc.toNat * dfaN sa.toNat da.toNat) * scaleN sa.toNat da.toNat := by
    apply Nat.mod_eq_of_lt
    have : (sc.toNat * sa.toNat + dc.toNat * dfaN sa.toNat da.toNat) * scaleN sa.toNat da.toNat ≤ 255 * 2 ^ 24 := hUs
    omega
  rw [e3]

theorem chanN_le (sa da sc dc : UInt8) (h0 : 0 < sa.toNat) :
    chanN sa.toNat da.toNat sc.toNat dc.toNat ≤ 255 :=
  (nat_bounds sa.toNat da.toNat sc.toNat dc.toNat h0 (u8_le sa) (u8_le da) (u8_le sc) (u8_le dc)).2.2.2.2


theorem u8_pos_of_ne_zero {a : UInt8} (h : a ≠ 0) : 0 < a.toNat := by
  rcases Nat.eq_zero_or_pos a.toNat with h0 | h0
  · exact absurd (UInt8.toNat_inj.mp (by simpa using h0)) h
  · exact h0

theorem u8_lt_255_of_ne {a : UInt8} (h : a ≠ 255) : a.toNat < 255 := by
  have := u8_le a
  rcases Nat.lt_or_ge a.toNat 255 with h0 | h0
  · exact h0
  · exact absurd (UInt8.toNat_inj.mp (by show a.toNat = 255; omega)) h

/-- the spec's integer formula in terms of `chanN`/`baN` -/
theorem blendFormula_eq (s d : Px) :
    blendFormula s d =
      ⟨UInt8.ofNat (chanN s.a.toNat d.a.toNat s.r.toNat d.r.toNat),
       UInt8.ofNat (chanN s.a.toNat d.a.toNat s.g.toNat d.g.toNat),
       UInt8.ofNat (chanN s.a.toNat d.a.toNat s.b.toNat d.b.toNat),
       UInt8.ofNat (baN s.a.toNat d.a.toNat)⟩ := by
  simp only [blendFormula, blendChannel, chanN, scaleN, baN, dfaN, Nat.shiftRight_eq_div_pow,
    Nat.one_shiftLeft]

/-- the closure's result (clamp included) is the ℕ value: the clamp never fires -/
theorem blendChan_eq (sa da sc dc : UInt8) (h0 : 0 < sa.toNat) :
    blendChan sa.toUInt32 (dstFactor sa.toUInt32 da.toUInt32)
      (((1 : UInt32) <<< 24) / (sa.toUInt32 + dstFactor sa.toUInt32 da.toUInt32)) sc dc
      = UInt8.ofNat (chanN sa.toNat da.toNat sc.toNat dc.toNat) := by
  have hv := blendV_toNat sa da sc dc h0
  have hle := chanN_le sa da sc dc h0
  unfold blendChan
  simp only []
  rw [if_neg]
  · apply UInt8.toNat_inj.mp
    rw [UInt32.toNat_toUInt8, hv, UInt8.toNat_ofNat']
  · rw [UInt32.not_lt, UInt32.le_iff_toNat_le, hv]
    exact hle

/-- general branch of `alphaBlendNRGBA` -/
theorem alphaBlend_general (s d : Px) (hs0 : s.a ≠ 0) (hs255 : s.a ≠ 255) (hd0 : d.a ≠ 0) :
    alphaBlendNRGBA s d = blendFormula s d := by
  have h0 := u8_pos_of_ne_zero hs0
  have hba : (s.a.toUInt32 + dstFactor s.a.toUInt32 d.a.toUInt32) ≠ 0 := by
    intro h
    have := congrArg UInt32.toNat h
    rw [blendA_toNat s.a d.a h0] at this
    simp [baN] at this
    omega
  have c1 : ¬ (s.a == 0) = true := by simpa using hs0
  have c2 : ¬ (s.a == 255 || d.a == 0) = true := by simp [hs255, hd0]
  have c3 : ¬ ((s.a.toUInt32 + dstFactor s.a.toUInt32 d.a.toUInt32) == 0) = true := by simpa using hba
  unfold alphaBlendNRGBA
  simp only [c1, c2, c3, Bool.false_eq_true, if_false]
  rw [blendFormula_eq, blendChan_eq _ _ _ _ h0, blendChan_eq _ _ _ _ h0, blendChan_eq _ _ _ _ h0]
  congr 1
  apply UInt8.toNat_inj.mp
  rw [UInt32.toNat_toUInt8, blendA_toNat s.a d.a h0, UInt8.toNat_ofNat']

theorem alphaBlend_src0 (s d : Px) (h : s.a = 0) : alphaBlendNRGBA s d = d := by
  simp [alphaBlendNRGBA, h]

theorem alphaBlend_src255 (s d : Px) (h : s.a = 255) : alphaBlendNRGBA s d = s := by
  simp [alphaBlendNRGBA, h]

theorem alphaBlend_dst0 (s d : Px) (hs : s.a ≠ 0) (h : d.a = 0) : alphaBlendNRGBA s d = s := by
  simp [alphaBlendNRGBA, h, hs]

/-- the implementation's blend is the specification's blend, for all `2^64` pixel pairs -/
theorem alphaBlend_eq_spec (s d : Px) : alphaBlendNRGBA s d = blend s d := by
  unfold blend
  by_cases hs0 : s.a = 0
  · rw [if_pos hs0, alphaBlend_src0 s d hs0]
  by_cases hs255 : s.a = 255
  · rw [if_neg hs0, if_pos hs255, alphaBlend_src255 s d hs255]
  by_cases hd0 : d.a = 0
  · rw [if_neg hs0, if_neg hs255, if_pos hd0, alphaBlend_dst0 s d hs0 hd0]
  · rw [if_neg hs0, if_neg hs255, if_neg hd0, alphaBlend_general s d hs0 hs255 hd0]


/-! ### relation to libwebp's literal `BlendPixelNonPremult` -/

theorem blend_eq_libwebp_of_dst_ne0 (s d : Px) (hd : d.a ≠ 0) : blend s d = blendLibwebp s d := by
  unfold blend blendLibwebp
  by_cases hs0 : s.a = 0
  · have : s.a ≠ 255 := by rw [hs0]; decide
    simp [hs0]
  by_cases hs255 : s.a = 255
  · simp [hs255]
  · simp [hs0, hs255, hd]

/-- what libwebp's formula returns for a channel `c` of a translucent pixel of alpha `a` blended
    over a fully transparent pixel: `c` itself only when `a` divides `2^24` (a power of two) or
    `c = 0`; otherwise one less. -/
def libwebpOverTransparent (a c : UInt8) : UInt8 :=
  UInt8.ofNat (if 2 ^ 24 % a.toNat = 0 ∨ c.toNat = 0 then c.toNat else c.toNat - 1)

theorem chanN_dst0 (a c dc : Nat) (ha0 : 0 < a) (ha : a ≤ 255) (hc : c ≤ 255) :
    chanN a 0 c dc = if 2 ^ 24 % a = 0 ∨ c = 0 then c else c - 1 := by
  have hq := Nat.div_add_mod (2 ^ 24) a
  have hr : 2 ^ 24 % a < a := Nat.mod_lt _ ha0
  unfold chanN scaleN baN dfaN
  simp only [Nat.zero_mul, Nat.zero_div, Nat.mul_zero, Nat.add_zero]
  generalize 2 ^ 24 / a = q at *
  generalize 2 ^ 24 % a = r at *
  have e : c * a * q = c * 2 ^ 24 - c * r := by
    rw [Nat.mul_assoc, ← Nat.mul_sub]
    congr 1
    omega
  have hm : c * r ≤ 255 * 254 := Nat.mul_le_mul hc (by omega)
  rw [e]
  by_cases h0 : r = 0
  · subst h0
    simp
  by_cases hc0 : c = 0
  · subst hc0
    simp
  have hm1 : 1 ≤ c * r := Nat.mul_pos (by omega) (by omega)
  rw [if_neg (by omega)]
  generalize c * r = m at *
  omega

theorem blendLibwebp_dst0 (s d : Px) (hs0 : s.a ≠ 0) (hs255 : s.a ≠ 255) (hd : d.a = 0) :
    blendLibwebp s d =
      ⟨libwebpOverTransparent s.a s.r, libwebpOverTransparent s.a s.g,
       libwebpOverTransparent s.a s.b, s.a⟩ := by
  have h0 := u8_pos_of_ne_zero hs0
  unfold blendLibwebp
  rw [if_neg hs255, if_neg hs0, blendFormula_eq, hd]
  have hz : (0 : UInt8).toNat = 0 := rfl
  simp only [hz, libwebpOverTransparent]
  rw [chanN_dst0 _ _ _ h0 (u8_le _) (u8_le _), chanN_dst0 _ _ _ h0 (u8_le _) (u8_le _),
    chanN_dst0 _ _ _ h0 (u8_le _) (u8_le _)]
  congr 1
  simp [baN, dfaN]

end Webp.Proofs.AnimDecBlend
