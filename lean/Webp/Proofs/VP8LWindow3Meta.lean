import Webp.Proofs.VP8LWindow3Stream
/-
  The WINDOW BUDGET, part 13: the META-CODE branch of `readHuffmanCodes` (meta image, group count, the
  groups loop, the pixel loop with a meta image; the > 1000-groups remapping is not modelled) and with
  it the level-0 sequence without side condition.
-/
namespace Webp.Proofs.VP8LWindow
open Webp.Go (Res)
open Webp.Spec.VP8L (BitReader Err Token Code Group EntropyParams Transform readGroup readGroups readEntropyCodedImage
  decodePixels readColorCacheInfo readTransforms subSampleSize)
open Webp.Impl.VP8LEntropy
open Webp.Impl.VP8LWindow
open Webp.Impl.VP8LFastPaths (HTreeGroup Tables5 MaxLens5 mkGroup)
open Webp.Proofs.VP8LEntropyReader

/-- `RelOut` for equal values, where the Go model may also stop at the group remapping it does not have -/
def RelOutR {α : Type} (buf : Array UInt8) (k : Nat) (go : Res Err (α × Reader)) (sp : Res Err (α × BitReader)) : Prop :=
  match sp with
  | .ok (b, br') => (∃ r' P', go = .ok (b, r') ∧ br' = brAt buf P' ∧ Good buf r' P' k) ∨ go = .err remapNotModelled
  | .err _ => ∃ e', go = .err e'
  | .panic => True
  | .hang => True

theorem RelOut.toR {α : Type} {buf : Array UInt8} {k : Nat} {go : Res Err (α × Reader)} {sp : Res Err (α × BitReader)}
    (h : RelOut (fun a b => a = b) buf k go sp) : RelOutR buf k go sp := by
  unfold RelOut at h
  unfold RelOutR
  cases sp with
  | ok x =>
    obtain ⟨b, br'⟩ := x
    obtain ⟨a, r', P', h1, rfl, h3, h4⟩ := h
    exact Or.inl ⟨r', P', h1, h3, h4⟩
  | err e => exact h
  | panic => trivial
  | hang => trivial

/-- the Go groups stand for the specification's groups, index by index -/
structure BuiltArr (Gs : Array Group) (gs : Array HTreeGroup) : Prop where
  size : gs.size = Gs.size
  ok : ∀ i (h1 : i < gs.size) (h2 : i < Gs.size), ∃ t m Ng, Built Gs[i] t m Ng ∧ gs[i] = mkGroup t m

theorem BuiltArr.push {Gs : Array Group} {gs : Array HTreeGroup} (h : BuiltArr Gs gs) {G : Group} {g : HTreeGroup}
    (hb : ∃ t m Ng, Built G t m Ng ∧ g = mkGroup t m) : BuiltArr (Gs.push G) (gs.push g) := by
  refine ⟨by simp [h.size], ?_⟩
  intro i h1 h2
  by_cases hi : i < gs.size
  · have hi' : i < Gs.size := by rw [← h.size]; exact hi
    rw [Array.getElem_push_lt hi, Array.getElem_push_lt hi']
    exact h.ok i hi hi'
  · have hi1 : i = gs.size := by simp at h1; omega
    have hi2 : i = Gs.size := by rw [← h.size]; exact hi1
    subst hi1
    simp only [Array.getElem_push_eq]
    have : (Gs.push G)[gs.size]'h2 = G := by
      simp only [hi2, Array.getElem_push_eq]
    rw [this]
    exact hb

/-- the groups loop against the specification's `readGroups` -/
theorem groupsLoop_agree (buf : Array UInt8) (cb : Nat) (hcb : cb ≤ 11) :
    ∀ (n : Nat) (acc : Array HTreeGroup) (Gacc : Array Group) (r : Reader) (P : Nat), Good buf r P 62 →
    BuiltArr Gacc acc →
    match readGroups cb n Gacc (brAt buf P) with
    | .ok (Gs, br') => ∃ gs r' P', groupsLoop goSubs cb n acc r = .ok (gs, r') ∧ BuiltArr Gs gs ∧
        Gs.size = Gacc.size + n ∧ br' = brAt buf P' ∧ Good buf r' P' 62
    | .err _ => ∃ e', groupsLoop goSubs cb n acc r = .err e'
    | .panic => True
    | .hang => True := by
  intro n
  induction n with
  | zero => intro acc Gacc r P hg hb; exact ⟨acc, r, P, rfl, hb, rfl, rfl, hg⟩
  | succ n ih =>
    intro acc Gacc r P hg hb
    have h1 := readGroup_agreeBK (buf := buf) 62 (by omega) (by omega) cb hcb hg
    have hgr : goSubs.group cb r = readGroupGo cb r := rfl
    rw [readGroups, groupsLoop, hgr]
    cases hs : readGroup cb (brAt buf P) with
    | ok x =>
      obtain ⟨G, br1⟩ := x
      rw [hs] at h1
      obtain ⟨g, r1, P1, hgo, hbg, hbr, hg1⟩ := h1
      rw [hgo, hbr]
      dsimp only
      have h2 := ih (acc.push g) (Gacc.push G) r1 P1 hg1 (hb.push hbg)
      cases hs2 : readGroups cb n (Gacc.push G) (brAt buf P1) with
      | ok y =>
        obtain ⟨Gs, br2⟩ := y
        rw [hs2] at h2
        obtain ⟨gs, r2, P2, hgo2, hb2, hsz, hbr2, hg2⟩ := h2
        exact ⟨gs, r2, P2, hgo2, hb2, by rw [hsz]; simp; omega, hbr2, hg2⟩
      | err e => rw [hs2] at h2; exact h2
      | panic => trivial
      | hang => trivial
    | err e =>
      rw [hs] at h1
      obtain ⟨e', hgo⟩ := h1
      rw [hgo]
      exact ⟨e', rfl⟩
    | panic => trivial
    | hang => trivial

theorem le_foldl_max_arr (a : Array Nat) (x : Nat) (hx : x ∈ a) : x ≤ a.foldl max 0 := by
  rw [← Array.foldl_toList]
  exact Webp.Proofs.VP8LFastPaths.le_foldl_max a.toList 0 x (by simpa using hx)

theorem metaBody_go (w h cb prec : Nat) (img : Array UInt32) (r : Reader) :
    metaBody goOps2 goSubs w h cb prec img r =
      if (img.map (fun (px : UInt32) => ((px >>> 8) &&& 0xffff).toNat)).foldl max 0 + 1 > 1000 ∨
          (img.map (fun (px : UInt32) => ((px >>> 8) &&& 0xffff).toNat)).foldl max 0 + 1 > w * h then
        .err remapNotModelled
      else if r.isEndOfStream = true then .err .eos
      else
        match groupsLoop goSubs cb ((img.map (fun (px : UInt32) => ((px >>> 8) &&& 0xffff).toNat)).foldl max 0 + 1) #[] r with
        | .ok (gs, r) =>
          decodePixelLoop (goSource gs w)
            { width := w, height := h, cacheBits := cb, subsampleBits := prec, huffmanXSize := subSampleSize w prec,
              huffmanImage := img.map (fun (px : UInt32) => ((px >>> 8) &&& 0xffff).toNat),
              numGroups := (img.map (fun (px : UInt32) => ((px >>> 8) &&& 0xffff).toNat)).foldl max 0 + 1 } r
        | .err e => .err e
        | .panic => .panic
        | .hang => .hang := by
  unfold metaBody
  dsimp only
  split
  · rfl
  · show (if r.isEndOfStream = true then _ else _) = _
    split
    · rfl
    · simp only [goOps2_eos]
      cases groupsLoop goSubs cb ((img.map (fun (px : UInt32) => ((px >>> 8) &&& 0xffff).toNat)).foldl max 0 + 1) #[] r <;> rfl

/-- the meta-code branch behind the meta image -/
theorem metaBody_agree {buf : Array UInt8} (w h cb prec : Nat) (hcb : cb ≤ 11) (hw : w ≤ 100000000)
    (img : Array UInt32) {r : Reader} {P : Nat} (hg : Good buf r P 62) :
    RelOutR buf 62 (metaBody goOps2 goSubs w h cb prec img r)
      (match readGroups cb ((img.map (fun (px : UInt32) => ((px >>> 8) &&& 0xffff).toNat)).foldl max 0 + 1)
          (Array.emptyWithCapacity ((img.map (fun (px : UInt32) => ((px >>> 8) &&& 0xffff).toNat)).foldl max 0 + 1))
          (brAt buf P) with
        | .ok (groups, br) =>
          decodePixels { width := w, height := h, cacheBits := cb, prefixBits := prec,
                         entropy := img.map (fun (px : UInt32) => ((px >>> 8) &&& 0xffff).toNat), groups := groups } br
        | .err e => .err e
        | .panic => .panic
        | .hang => .hang) := by
  rw [metaBody_go]
  generalize hent : img.map (fun (px : UInt32) => ((px >>> 8) &&& 0xffff).toNat) = entropy
  generalize hn : entropy.foldl max 0 + 1 = nmax
  have hgl := groupsLoop_agree buf cb hcb nmax #[] (Array.emptyWithCapacity nmax) r P hg
    ⟨by simp, fun i h1 _ => by simp at h1⟩
  by_cases hremap : nmax > 1000 ∨ nmax > w * h
  · rw [if_pos hremap]
    -- the model stops here; the specification goes on
    unfold RelOutR
    split
    · exact Or.inr rfl
    · exact ⟨_, rfl⟩
    · trivial
    · trivial
  rw [if_neg hremap, if_neg (by rw [hg.not_eos (by omega)]; simp)]
  cases hs : readGroups cb nmax (Array.emptyWithCapacity nmax) (brAt buf P) with
  | ok x =>
    obtain ⟨Gs, br1⟩ := x
    rw [hs] at hgl
    obtain ⟨gs, r1, P1, hgo, hb, hsz, hbr, hg1⟩ := hgl
    rw [hgo, hbr]
    dsimp only
    have hsz' : Gs.size = nmax := by rw [hsz]; simp
    have hgs : GroupsBuilt { width := w, height := h, cacheBits := cb, prefixBits := prec, entropy := entropy, groups := Gs } gs := ⟨hb.size, hb.ok⟩
    have hidx : ∀ e ∈ entropy, e < Gs.size := by
      intro e he
      have := le_foldl_max_arr entropy e he
      omega
    have hloop := decodePixelLoop_window62 hgs hidx (by show w ≤ 153391689; omega) hg1
    have hp : LoopParams.ofSpec { width := w, height := h, cacheBits := cb, prefixBits := prec, entropy := entropy, groups := Gs } = { width := w, height := h, cacheBits := cb, subsampleBits := prec, huffmanXSize := subSampleSize w prec, huffmanImage := entropy, numGroups := nmax } := by
      unfold LoopParams.ofSpec
      simp only [hsz']
    rw [hp] at hloop
    exact RelOut.toR (by
      unfold SimRes at hloop
      unfold RelOut
      cases hd : decodePixels { width := w, height := h, cacheBits := cb, prefixBits := prec, entropy := entropy, groups := Gs } (brAt buf P1) with
      | ok y =>
        obtain ⟨px, br2⟩ := y
        rw [hd] at hloop
        obtain ⟨r2, hgo2, P2, hbr2, hg2⟩ := hloop
        exact ⟨px, r2, P2, hgo2, rfl, hbr2, hg2⟩
      | err e => rw [hd] at hloop; exact ⟨e, hloop⟩
      | panic => trivial
      | hang => trivial)
  | err e =>
    rw [hs] at hgl
    obtain ⟨e', hgo⟩ := hgl
    rw [hgo]
    exact ⟨e', rfl⟩
  | panic => trivial
  | hang => trivial

theorem specMetaPixels_eq (w h cb : Nat) (br : BitReader) :
    specMetaPixels w h cb br =
      match br.readBits 3 with
      | .ok (b, br) =>
        match readEntropyCodedImage (subSampleSize w (b + 2)) (subSampleSize h (b + 2)) br with
        | .ok (img, br) =>
          match readGroups cb ((img.map (fun (px : UInt32) => ((px >>> 8) &&& 0xffff).toNat)).foldl max 0 + 1)
              (Array.emptyWithCapacity ((img.map (fun (px : UInt32) => ((px >>> 8) &&& 0xffff).toNat)).foldl max 0 + 1)) br with
          | .ok (groups, br) =>
            decodePixels { width := w, height := h, cacheBits := cb, prefixBits := b + 2, entropy := img.map (fun (px : UInt32) => ((px >>> 8) &&& 0xffff).toNat), groups := groups } br
          | .err e => .err e
          | .panic => .panic
          | .hang => .hang
        | .err e => .err e
        | .panic => .panic
        | .hang => .hang
      | .err e => .err e
      | .panic => .panic
      | .hang => .hang := by
  unfold specMetaPixels specMetaParams
  simp only [bind, Res.bind, pure]
  cases br.readBits 3 with
  | ok x =>
    obtain ⟨b, br1⟩ := x
    dsimp only
    cases readEntropyCodedImage (subSampleSize w (b + 2)) (subSampleSize h (b + 2)) br1 with
    | ok y =>
      obtain ⟨img, br2⟩ := y
      dsimp only
      cases readGroups cb ((img.map (fun (px : UInt32) => ((px >>> 8) &&& 0xffff).toNat)).foldl max 0 + 1)
          (Array.emptyWithCapacity ((img.map (fun (px : UInt32) => ((px >>> 8) &&& 0xffff).toNat)).foldl max 0 + 1)) br2 <;> rfl
    | err e => rfl
    | panic => rfl
    | hang => rfl
  | err e => rfl
  | panic => rfl
  | hang => rfl

/-- **the meta-code branch** of `readHuffmanCodes` + `decodeImageData` against the specification's
    (`RelOutR`: the Go model has no group remapping and stops there) -/
theorem metaPart_agree {buf : Array UInt8} (w h cb : Nat) (hw : w ≤ 100000000) (hh : h ≤ 100000000) (hcb : cb ≤ 11)
    {r : Reader} {P : Nat} (hg : Good buf r P 7) :
    RelOutR buf 62 (metaPart goOps2 goSubs w h cb r) (specMetaPixels w h cb (brAt buf P)) := by
  rw [metaPart_go, specMetaPixels_eq]
  have hb3 := readBits_lt r 3 (by omega)
  rcases readBits_good hg 3 (by omega) (by omega) with ⟨h3, g3⟩ | ⟨h3, d3⟩
  swap
  · rw [h3]
    obtain ⟨e, he⟩ := decodeEntropyImageGo_doomed (subSampleSize w (2 + (r.readBits 3).1.toNat))
      (subSampleSize h (2 + (r.readBits 3).1.toNat)) d3
    have hsi : goSubs.subImage (subSampleSize w (2 + (r.readBits 3).1.toNat)) (subSampleSize h (2 + (r.readBits 3).1.toNat))
        (r.readBits 3).2 = .err e := he
    unfold bindSub
    rw [hsi]
    exact ⟨e, rfl⟩
  rw [h3]
  dsimp only
  rw [Nat.add_comm (r.readBits 3).1.toNat 2]
  have hsw := subSample_le w (2 + (r.readBits 3).1.toNat)
  have hp : 2 ^ (2 + (r.readBits 3).1.toNat) ≤ 2 ^ 9 := Nat.pow_le_pow_right (by decide) (by omega)
  have hsub := decodeEntropyImage_agree62 (buf := buf) (subSampleSize w (2 + (r.readBits 3).1.toNat))
    (subSampleSize h (2 + (r.readBits 3).1.toNat)) (by omega) (g3.mono (by omega))
  have hsi : goSubs.subImage (subSampleSize w (2 + (r.readBits 3).1.toNat)) (subSampleSize h (2 + (r.readBits 3).1.toNat))
      (r.readBits 3).2 = decodeEntropyImageGo (subSampleSize w (2 + (r.readBits 3).1.toNat))
        (subSampleSize h (2 + (r.readBits 3).1.toNat)) (r.readBits 3).2 := rfl
  unfold bindSub
  rw [hsi]
  cases hs : readEntropyCodedImage (subSampleSize w (2 + (r.readBits 3).1.toNat))
      (subSampleSize h (2 + (r.readBits 3).1.toNat)) (brAt buf (P + 3)) with
  | ok y =>
    obtain ⟨img, br2⟩ := y
    rw [hs] at hsub
    obtain ⟨a, r', P', hgo, rfl, hbr, hg'⟩ := hsub
    rw [hgo, hbr]
    exact metaBody_agree w h cb (2 + (r.readBits 3).1.toNat) hcb hw a hg'
  | err e =>
    rw [hs] at hsub
    obtain ⟨e', hgo⟩ := hsub
    rw [hgo]
    exact ⟨e', rfl⟩
  | panic => trivial
  | hang => trivial

theorem codesPart_agreeR {buf : Array UInt8} (w h cb : Nat) (hcb : cb ≤ 11)
    (hw : w ≤ 100000000) (hh : h ≤ 100000000) {r : Reader} {P : Nat} (hg : Good buf r P 7) :
    RelOutR buf 62 (codesPart goOps2 goSubs w h cb r) (specCodes w h cb (brAt buf P)) := by
  rw [codesPart_go]
  unfold specCodes
  rw [readMetaPrefix_eq]
  simp only [bind, Res.bind, pure]
  rcases readBits_good hg 1 (by omega) (by omega) with ⟨h1, g1⟩ | ⟨h1, d1⟩
  swap
  · rw [h1]
    show ∃ e', _ = Res.err e'
    by_cases hb : (r.readBits 1).1 = 1
    · rw [if_pos hb]; exact metaPart_doomed w h cb d1
    · rw [if_neg hb]; exact singleGroupPart_doomed w h cb d1
  rw [h1]
  simp only
  by_cases hb : (r.readBits 1).1 = 1
  · rw [if_pos hb, if_pos ((u32_eq_one _).mp hb)]
    have hm := metaPart_agree (buf := buf) w h cb hw hh hcb g1
    unfold specMetaPixels at hm
    cases hsp : specMetaParams w h cb (brAt buf (P + 1)) with
    | ok x => rw [hsp] at hm; exact hm
    | err e => rw [hsp] at hm; exact hm
    | panic => trivial
    | hang => trivial
  · rw [if_neg hb, if_neg (fun hh => hb ((u32_eq_one _).mpr hh))]
    have := (singleGroupPart_agree (buf := buf) w h cb hcb hw g1).toR
    unfold specBody at this
    simp only [bind, Res.bind] at this
    cases hsp : readGroup cb (brAt buf (P + 1)) with
    | ok x => rw [hsp] at this; exact this
    | err e => rw [hsp] at this; exact this
    | panic => trivial
    | hang => trivial

theorem cachePart_agreeR {buf : Array UInt8} (w h : Nat)
    (hw : w ≤ 100000000) (hh : h ≤ 100000000) {r : Reader} {P : Nat} (hg : Good buf r P 62) :
    RelOutR buf 62 (cachePart goOps2 goSubs w h r) (specTail w h (brAt buf P)) := by
  rw [cachePart_go]
  have hst : specTail w h (brAt buf P) = (do
      let (cb, br) ← readColorCacheInfo (brAt buf P)
      specCodes w h cb br) := rfl
  rw [hst]
  unfold readColorCacheInfo
  simp only [bind, Res.bind, pure]
  rcases readBits_good hg 1 (by omega) (by omega) with ⟨h1, g1⟩ | ⟨h1, d1⟩
  swap
  · rw [h1]
    show ∃ e', _ = Res.err e'
    by_cases hb : (r.readBits 1).1 = 1
    · rw [if_pos hb]
      exact ite_err _ _ _ (codesPart_doomed w h _ (doomed_readBits d1 4))
    · rw [if_neg hb]; exact codesPart_doomed w h 0 d1
  rw [h1]
  simp only
  by_cases hb : (r.readBits 1).1 = 1
  · rw [if_pos hb, if_pos ((u32_eq_one _).mp hb)]
    rcases readBits_good g1 4 (by omega) (by omega) with ⟨h4, g4⟩ | ⟨h4, d4⟩
    swap
    · rw [h4]
      show ∃ e', _ = Res.err e'
      exact ite_err _ _ _ (codesPart_doomed w h _ d4)
    rw [h4]
    simp only
    by_cases hr : ((r.readBits 1).2.readBits 4).1.toNat < 1 ∨ ((r.readBits 1).2.readBits 4).1.toNat > 11
    · rw [if_pos hr, if_pos hr]; exact ⟨_, rfl⟩
    · rw [if_neg hr, if_neg hr]
      exact codesPart_agreeR w h _ (by omega) hw hh g4
  · rw [if_neg hb, if_neg (fun hh => hb ((u32_eq_one _).mpr hh))]
    exact codesPart_agreeR w h 0 (by omega) hw hh g1

/-- **the level-0 sequence on the window reader = the specification's stream decode after the header**,
    meta codes included; the Go MODEL stops with `remapNotModelled` where `readHuffmanCodes` would remap
    the groups (> 1000 groups or more groups than pixels) -/
theorem decodeStream_agreeR {buf : Array UInt8} (w h : Nat) (hw : w ≤ 100000000)
    (hh : h ≤ 100000000) {r : Reader} {P : Nat} (hg : Good buf r P 62) :
    match specStream w h (brAt buf P) with
    | .ok ((ts, w', px), br') =>
      (∃ l0 r' P', decodeStreamGo w h r = .ok (l0, r') ∧
        ts = l0.transforms.map (fun x => (xformSpec x, x.xsize)) ∧ w' = l0.width ∧ px = l0.pixels ∧
        br' = brAt buf P' ∧ Good buf r' P' 62) ∨ decodeStreamGo w h r = .err remapNotModelled
    | .err _ => ∃ e', decodeStreamGo w h r = .err e'
    | .panic => True
    | .hang => True := by
  have hinv : TInv [] #[] (Array.emptyWithCapacity 4) :=
    ⟨fun t => by simp, fun x hx => by simp at hx, by simp⟩
  have hloop := transformLoop_agree buf h hh 5 w [] #[] (Array.emptyWithCapacity 4) r P hw hg hinv
  unfold decodeStreamGo decodeStreamAt specStream
  simp only [goOps2_note]
  simp only [bind, Res.bind, pure]
  cases hsp : readTransforms h 5 w (Array.emptyWithCapacity 4) (brAt buf P) with
  | ok y =>
    obtain ⟨ts, w', br1⟩ := y
    rw [hsp] at hloop
    obtain ⟨acc', r1, P1, hgo, hts, hw', hbr, hg1⟩ := hloop
    rw [hgo, hbr]
    dsimp only
    have hc := cachePart_agreeR (buf := buf) w' h hw' hh hg1
    cases hs2 : specTail w' h (brAt buf P1) with
    | ok z =>
      obtain ⟨px, br2⟩ := z
      rw [hs2] at hc
      rcases hc with ⟨r2, P2, hgo2, hbr2, hg2⟩ | hgo2
      · rw [hgo2]
        exact Or.inl ⟨_, r2, P2, rfl, hts, rfl, rfl, hbr2, hg2⟩
      · rw [hgo2]
        exact Or.inr rfl
    | err e =>
      rw [hs2] at hc
      obtain ⟨e', hgo2⟩ := hc
      rw [hgo2]
      exact ⟨e', rfl⟩
    | panic => trivial
    | hang => trivial
  | err e =>
    rw [hsp] at hloop
    show ∃ e', _ = Res.err e'
    rcases hloop with ⟨e', hgo⟩ | ⟨a, r', hgo, hd⟩
    · rw [hgo]; exact ⟨e', rfl⟩
    · rw [hgo]
      obtain ⟨e', he'⟩ := cachePart_doomed a.2 h hd
      dsimp only
      rw [he']
      exact ⟨e', rfl⟩
  | panic => trivial
  | hang => trivial

end Webp.Proofs.VP8LWindow
