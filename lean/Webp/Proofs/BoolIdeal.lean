import Webp.Spec.VP8.BoolIdeal
import Mathlib.Tactic.Ring
import Mathlib.Tactic.Linarith
/-
  The ideal boolean coder round trip (interval nesting).
-/
namespace Webp.Proofs.BoolIdeal
open Webp.Spec.VP8.BoolIdeal

/-- the width is normalised -/
def Rng (s : Enc) : Prop := 128 ≤ s.range ∧ s.range ≤ 255

theorem split_pos (r p : Nat) : 1 ≤ split r p := by unfold split; omega

theorem split_lt {r p : Nat} (hr : 2 ≤ r) (hp : p ≤ 255) : split r p < r := by
  unfold split
  rw [Nat.shiftRight_eq_div_pow]
  have h : (r - 1) * p ≤ (r - 1) * 255 := Nat.mul_le_mul_left _ hp
  omega

theorem split_le_254 {r p : Nat} (hr : r ≤ 255) (hp : p ≤ 255) : split r p ≤ 254 := by
  unfold split
  rw [Nat.shiftRight_eq_div_pow]
  have h : (r - 1) * p ≤ (r - 1) * 255 := Nat.mul_le_mul_left _ hp
  omega

theorem normShift_spec {r : Nat} (h1 : 1 ≤ r) (h2 : r ≤ 255) :
    128 ≤ r * 2 ^ normShift r ∧ r * 2 ^ normShift r ≤ 255 := by
  unfold normShift
  split_ifs <;> omega

theorem normShift_le (r : Nat) : normShift r ≤ 7 := by
  unfold normShift; split_ifs <;> omega

/-- the pre-normalisation pair of `put` -/
def preLow (s : Enc) (b : Bool) (p : Nat) : Nat := if b then s.low + split s.range p else s.low
def preRange (s : Enc) (b : Bool) (p : Nat) : Nat := if b then s.range - split s.range p else split s.range p

theorem put_eq (s : Enc) (b : Bool) (p : Nat) :
    s.put b p = { low := preLow s b p * 2 ^ normShift (preRange s b p),
                  range := preRange s b p * 2 ^ normShift (preRange s b p),
                  k := s.k + normShift (preRange s b p) } := rfl

theorem preRange_bounds {s : Enc} (hs : Rng s) (b : Bool) {p : Nat} (hp : p ≤ 255) :
    1 ≤ preRange s b p ∧ preRange s b p ≤ 254 := by
  obtain ⟨h1, h2⟩ := hs
  have a := split_pos s.range p
  have c := split_lt (r := s.range) (p := p) (by omega) hp
  have d := split_le_254 h2 hp
  unfold preRange
  cases b <;> simp <;> omega

theorem pre_nest (s : Enc) (hs : Rng s) (b : Bool) {p : Nat} (hp : p ≤ 255) :
    s.low ≤ preLow s b p ∧ preLow s b p + preRange s b p ≤ s.low + s.range := by
  have c := split_lt (r := s.range) (p := p) (by have := hs.1; omega) hp
  unfold preLow preRange
  cases b <;> simp <;> omega

theorem put_rng {s : Enc} (hs : Rng s) (b : Bool) {p : Nat} (hp : p ≤ 255) : Rng (s.put b p) := by
  have ⟨h1, h2⟩ := preRange_bounds hs b hp
  rw [put_eq]
  exact normShift_spec h1 (by omega)

/-- after at least one symbol the width is at most 254 -/
theorem put_range_le_254 {s : Enc} (hs : Rng s) (b : Bool) {p : Nat} (hp : p ≤ 255) :
    (s.put b p).range ≤ 254 := by
  have ⟨h1, h2⟩ := preRange_bounds hs b hp
  rw [put_eq]; show preRange s b p * 2 ^ normShift (preRange s b p) ≤ 254
  unfold normShift
  split_ifs <;> omega

def Valid (ps : List (Bool × Nat)) : Prop := ∀ p ∈ ps, p.2 ≤ 255

theorem putAll_nil (s : Enc) : s.putAll [] = s := rfl
theorem putAll_cons (s : Enc) (q : Bool × Nat) (ps : List (Bool × Nat)) :
    s.putAll (q :: ps) = (s.put q.1 q.2).putAll ps := rfl

theorem putAll_append (s : Enc) (ps qs : List (Bool × Nat)) :
    s.putAll (ps ++ qs) = (s.putAll ps).putAll qs := by
  unfold Enc.putAll; rw [List.foldl_append]

theorem putAll_rng {s : Enc} (hs : Rng s) {ps : List (Bool × Nat)} (hv : Valid ps) : Rng (s.putAll ps) := by
  induction ps generalizing s with
  | nil => exact hs
  | cons q ps ih =>
    rw [putAll_cons]
    exact ih (put_rng hs q.1 (hv q (by simp))) (fun p hp => hv p (by simp [hp]))

/-- one symbol: the new interval lies inside the old one (at the new scale) -/
theorem put_nest {s : Enc} (hs : Rng s) (b : Bool) {p : Nat} (hp : p ≤ 255) :
    ∃ t, (s.put b p).k = s.k + t ∧ s.low * 2 ^ t ≤ (s.put b p).low ∧
      (s.put b p).low + (s.put b p).range ≤ (s.low + s.range) * 2 ^ t := by
  refine ⟨normShift (preRange s b p), rfl, ?_, ?_⟩
  · rw [put_eq]; exact Nat.mul_le_mul_right _ (pre_nest s hs b hp).1
  · rw [put_eq]; show preLow s b p * _ + preRange s b p * _ ≤ _
    rw [← Nat.add_mul]; exact Nat.mul_le_mul_right _ (pre_nest s hs b hp).2

/-- any number of symbols: the final interval lies inside the current one -/
theorem putAll_nest {s : Enc} (hs : Rng s) {ps : List (Bool × Nat)} (hv : Valid ps) :
    ∃ t, (s.putAll ps).k = s.k + t ∧ s.low * 2 ^ t ≤ (s.putAll ps).low ∧
      (s.putAll ps).low + (s.putAll ps).range ≤ (s.low + s.range) * 2 ^ t := by
  induction ps generalizing s with
  | nil => exact ⟨0, by simp [putAll_nil]⟩
  | cons q ps ih =>
    rw [putAll_cons]
    have hq : q.2 ≤ 255 := hv q (by simp)
    obtain ⟨t1, k1, l1, u1⟩ := put_nest hs q.1 hq
    obtain ⟨t2, k2, l2, u2⟩ := ih (put_rng hs q.1 hq) (fun p hp => hv p (by simp [hp]))
    refine ⟨t1 + t2, by omega, ?_, ?_⟩
    · calc s.low * 2 ^ (t1 + t2) = (s.low * 2 ^ t1) * 2 ^ t2 := by rw [pow_add, Nat.mul_assoc]
        _ ≤ (s.put q.1 q.2).low * 2 ^ t2 := Nat.mul_le_mul_right _ l1
        _ ≤ _ := l2
    · calc _ ≤ ((s.put q.1 q.2).low + (s.put q.1 q.2).range) * 2 ^ t2 := u2
        _ ≤ ((s.low + s.range) * 2 ^ t1) * 2 ^ t2 := Nat.mul_le_mul_right _ u1
        _ = _ := by rw [pow_add, Nat.mul_assoc]

/-- the low end of the encoder stays below `2^(k+8)` together with the width -/
theorem put_top {s : Enc} (hs : Rng s) (b : Bool) {p : Nat} (hp : p ≤ 255)
    (h : s.low + s.range ≤ 2 ^ (s.k + 8)) :
    (s.put b p).low + (s.put b p).range ≤ 2 ^ ((s.put b p).k + 8) := by
  obtain ⟨t, k1, _, u1⟩ := put_nest hs b hp
  calc _ ≤ (s.low + s.range) * 2 ^ t := u1
    _ ≤ 2 ^ (s.k + 8) * 2 ^ t := Nat.mul_le_mul_right _ h
    _ = _ := by rw [k1, ← pow_add]; congr 1; omega

/-- decoder and encoder are in step on the code number `c` whose unit is `2^E` below scale 0:
    same width, exponents add up to `E`, and what the decoder holds is `c` minus the encoder's `low` -/
def Rel (s : Enc) (d : Dec) (c E : Nat) : Prop :=
  d.range = s.range ∧ d.e + s.k = E ∧ d.val + s.low * 2 ^ d.e = c

/-- one step: if the code number lies in the interval after `put b p`, the decoder reads `b` -/
theorem get_put {s : Enc} {d : Dec} {c E : Nat} (hs : Rng s) (b : Bool) {p : Nat} (hp : p ≤ 255)
    (hr : Rel s d c E) (hE : (s.put b p).k ≤ E)
    (hlo : (s.put b p).low * 2 ^ (E - (s.put b p).k) ≤ c)
    (hhi : c < ((s.put b p).low + (s.put b p).range) * 2 ^ (E - (s.put b p).k)) :
    (d.get p).1 = b ∧ Rel (s.put b p) (d.get p).2 c E := by
  obtain ⟨hrange, he, hval⟩ := hr
  -- names
  set sh := normShift (preRange s b p) with hsh
  have hk : (s.put b p).k = s.k + sh := rfl
  have hde : d.e = sh + (E - (s.put b p).k) := by omega
  set g := E - (s.put b p).k with hg
  have hM : 2 ^ d.e = 2 ^ sh * 2 ^ g := by rw [hde, pow_add]
  have hlow' : (s.put b p).low = preLow s b p * 2 ^ sh := rfl
  have hrng' : (s.put b p).range = preRange s b p * 2 ^ sh := rfl
  rw [hlow'] at hlo
  rw [hlow', hrng'] at hhi
  have hlo2 : preLow s b p * 2 ^ d.e ≤ c := by rw [hM, ← Nat.mul_assoc]; exact hlo
  have hhi2 : c < (preLow s b p + preRange s b p) * 2 ^ d.e := by
    have e1 : (preLow s b p + preRange s b p) * 2 ^ d.e
        = (preLow s b p * 2 ^ sh + preRange s b p * 2 ^ sh) * 2 ^ g := by rw [hM]; ring
    rw [e1]; exact hhi
  have hsplit_lt := split_lt (r := s.range) (p := p) (by have := hs.1; omega) hp
  -- unfold the decoder step
  have hget : d.get p = (decide (split d.range p * 2 ^ d.e ≤ d.val),
      { val := if decide (split d.range p * 2 ^ d.e ≤ d.val) then d.val - split d.range p * 2 ^ d.e else d.val,
        range := (if decide (split d.range p * 2 ^ d.e ≤ d.val) then d.range - split d.range p else split d.range p)
                  * 2 ^ normShift (if decide (split d.range p * 2 ^ d.e ≤ d.val) then d.range - split d.range p else split d.range p),
        e := d.e - normShift (if decide (split d.range p * 2 ^ d.e ≤ d.val) then d.range - split d.range p else split d.range p) }) := rfl
  rw [hget, hrange]
  cases b with
  | true =>
    have hpl : preLow s true p = s.low + split s.range p := rfl
    have hpr : preRange s true p = s.range - split s.range p := rfl
    have hbit : split s.range p * 2 ^ d.e ≤ d.val := by
      rw [hpl, Nat.add_mul] at hlo2; omega
    simp only [hbit, decide_true, if_true]
    refine ⟨trivial, ?_, ?_, ?_⟩
    · show (s.range - split s.range p) * 2 ^ normShift (s.range - split s.range p) = (s.put true p).range
      rfl
    · show d.e - normShift (s.range - split s.range p) + (s.put true p).k = E
      rw [hk]; rw [hpr] at hsh; rw [← hsh]; omega
    · show d.val - split s.range p * 2 ^ d.e
          + (s.put true p).low * 2 ^ (d.e - normShift (s.range - split s.range p)) = c
      rw [hpr] at hsh; rw [← hsh, hlow', hpl]
      have : d.e - sh = g := by omega
      rw [this, Nat.mul_assoc, ← hM, Nat.add_mul]
      omega
  | false =>
    have hpl : preLow s false p = s.low := rfl
    have hpr : preRange s false p = split s.range p := rfl
    have hbit : ¬ split s.range p * 2 ^ d.e ≤ d.val := by
      rw [hpl, hpr, Nat.add_mul] at hhi2; omega
    simp only [hbit, decide_false, Bool.false_eq_true, if_false]
    refine ⟨trivial, ?_, ?_, ?_⟩
    · rfl
    · show d.e - normShift (split s.range p) + (s.put false p).k = E
      rw [hk]; rw [hpr] at hsh; rw [← hsh]; omega
    · show d.val + (s.put false p).low * 2 ^ (d.e - normShift (split s.range p)) = c
      rw [hpr] at hsh; rw [← hsh, hlow', hpl]
      have : d.e - sh = g := by omega
      rw [this, Nat.mul_assoc, ← hM]
      exact hval

/-- decoder and encoder stay in step over a whole sequence, and the decoder returns the symbols,
    provided the code number lies in the final interval -/
theorem run_putAll {ps : List (Bool × Nat)} (hv : Valid ps) {s : Enc} {d : Dec} {c E : Nat}
    (hs : Rng s) (hr : Rel s d c E) (hE : (s.putAll ps).k ≤ E)
    (hlo : (s.putAll ps).low * 2 ^ (E - (s.putAll ps).k) ≤ c)
    (hhi : c < ((s.putAll ps).low + (s.putAll ps).range) * 2 ^ (E - (s.putAll ps).k)) :
    d.run (ps.map (·.2)) = ps.map (·.1) := by
  induction ps generalizing s d with
  | nil => rfl
  | cons q ps ih =>
    have hq : q.2 ≤ 255 := hv q (by simp)
    have hv' : Valid ps := fun p hp => hv p (by simp [hp])
    rw [putAll_cons] at hE hlo hhi
    obtain ⟨t, k2, l2, u2⟩ := putAll_nest (put_rng hs q.1 hq) hv'
    set s' := s.put q.1 q.2 with hs'
    set sn := s'.putAll ps with hsn
    have hE' : s'.k ≤ E := by omega
    have hexp : E - s'.k = t + (E - sn.k) := by omega
    have hlo' : s'.low * 2 ^ (E - s'.k) ≤ c := by
      calc s'.low * 2 ^ (E - s'.k) = (s'.low * 2 ^ t) * 2 ^ (E - sn.k) := by rw [hexp, pow_add, Nat.mul_assoc]
        _ ≤ sn.low * 2 ^ (E - sn.k) := Nat.mul_le_mul_right _ l2
        _ ≤ c := hlo
    have hhi' : c < (s'.low + s'.range) * 2 ^ (E - s'.k) := by
      calc c < (sn.low + sn.range) * 2 ^ (E - sn.k) := hhi
        _ ≤ ((s'.low + s'.range) * 2 ^ t) * 2 ^ (E - sn.k) := Nat.mul_le_mul_right _ u2
        _ = _ := by rw [hexp, pow_add, Nat.mul_assoc]
    obtain ⟨hb, hrel⟩ := get_put hs q.1 hq hr hE' hlo' hhi'
    show (d.get q.2).1 :: (d.get q.2).2.run (ps.map (·.2)) = q.1 :: ps.map (·.1)
    rw [hb, ih hv' (put_rng hs q.1 hq) hrel hE hlo hhi]

/-! ### the decoder never runs out of exponent, and its value stays inside its interval -/

/-- the renormalisation shift of the decoder step -/
def shiftOf (d : Dec) (p : Nat) : Nat :=
  normShift (if (d.get p).1 then d.range - split d.range p else split d.range p)

theorem get_e (d : Dec) (p : Nat) : (d.get p).2.e = d.e - shiftOf d p := rfl
theorem get_range (d : Dec) (p : Nat) :
    (d.get p).2.range = (if (d.get p).1 then d.range - split d.range p else split d.range p) * 2 ^ shiftOf d p := rfl
theorem get_val (d : Dec) (p : Nat) :
    (d.get p).2.val = if (d.get p).1 then d.val - split d.range p * 2 ^ d.e else d.val := rfl
theorem get_bit (d : Dec) (p : Nat) : (d.get p).1 = decide (split d.range p * 2 ^ d.e ≤ d.val) := rfl

/-- every step of the run has `shift ≤ e` (the code number has enough bits) -/
def DecOk (d : Dec) : List Nat → Prop
  | [] => True
  | p :: ps => shiftOf d p ≤ d.e ∧ DecOk (d.get p).2 ps

/-- the decoder's value lies inside its interval -/
def DInv (d : Dec) : Prop := 128 ≤ d.range ∧ d.range ≤ 255 ∧ d.val < d.range * 2 ^ d.e

theorem get_dinv {d : Dec} (h : DInv d) {p : Nat} (hp : p ≤ 255) (hsh : shiftOf d p ≤ d.e) :
    DInv (d.get p).2 := by
  obtain ⟨h1, h2, h3⟩ := h
  have hlt := split_lt (r := d.range) (p := p) (by omega) hp
  have hpos := split_pos d.range p
  have hle := split_le_254 h2 hp
  have hpre : 1 ≤ (if (d.get p).1 then d.range - split d.range p else split d.range p) ∧
      (if (d.get p).1 then d.range - split d.range p else split d.range p) ≤ 254 := by
    split_ifs <;> omega
  have hn := normShift_spec hpre.1 (by omega)
  refine ⟨?_, ?_, ?_⟩
  · rw [get_range]; exact hn.1
  · rw [get_range]; exact hn.2
  · rw [get_range, get_e, get_val, Nat.mul_assoc, ← pow_add]
    have e : shiftOf d p + (d.e - shiftOf d p) = d.e := by omega
    rw [e]
    by_cases hb : (d.get p).1 = true
    · simp only [hb, if_true]
      have hb' : split d.range p * 2 ^ d.e ≤ d.val := by rw [get_bit] at hb; simpa using hb
      rw [Nat.sub_mul]; omega
    · simp only [hb, if_false]
      have hb' : ¬ split d.range p * 2 ^ d.e ≤ d.val := by rw [get_bit] at hb; simpa using hb
      simp only [Bool.false_eq_true, if_false]; omega

theorem get_put_shift {s : Enc} {d : Dec} {c E : Nat} (hs : Rng s) (b : Bool) {p : Nat} (hp : p ≤ 255)
    (hr : Rel s d c E) (hE : (s.put b p).k ≤ E)
    (hlo : (s.put b p).low * 2 ^ (E - (s.put b p).k) ≤ c)
    (hhi : c < ((s.put b p).low + (s.put b p).range) * 2 ^ (E - (s.put b p).k)) :
    shiftOf d p ≤ d.e := by
  have hb := (get_put hs b hp hr hE hlo hhi).1
  have : shiftOf d p = normShift (preRange s b p) := by
    unfold shiftOf preRange; rw [hb, hr.1]
  rw [this]
  have hk : (s.put b p).k = s.k + normShift (preRange s b p) := rfl
  have := hr.2.1
  omega

theorem ok_putAll {ps : List (Bool × Nat)} (hv : Valid ps) {s : Enc} {d : Dec} {c E : Nat}
    (hs : Rng s) (hr : Rel s d c E) (hE : (s.putAll ps).k ≤ E)
    (hlo : (s.putAll ps).low * 2 ^ (E - (s.putAll ps).k) ≤ c)
    (hhi : c < ((s.putAll ps).low + (s.putAll ps).range) * 2 ^ (E - (s.putAll ps).k)) :
    DecOk d (ps.map (·.2)) := by
  induction ps generalizing s d with
  | nil => trivial
  | cons q ps ih =>
    have hq : q.2 ≤ 255 := hv q (by simp)
    have hv' : Valid ps := fun p hp => hv p (by simp [hp])
    rw [putAll_cons] at hE hlo hhi
    obtain ⟨t, k2, l2, u2⟩ := putAll_nest (put_rng hs q.1 hq) hv'
    set s' := s.put q.1 q.2 with hs'
    set sn := s'.putAll ps with hsn
    have hE' : s'.k ≤ E := by omega
    have hexp : E - s'.k = t + (E - sn.k) := by omega
    have hlo' : s'.low * 2 ^ (E - s'.k) ≤ c := by
      calc s'.low * 2 ^ (E - s'.k) = (s'.low * 2 ^ t) * 2 ^ (E - sn.k) := by rw [hexp, pow_add, Nat.mul_assoc]
        _ ≤ sn.low * 2 ^ (E - sn.k) := Nat.mul_le_mul_right _ l2
        _ ≤ c := hlo
    have hhi' : c < (s'.low + s'.range) * 2 ^ (E - s'.k) := by
      calc c < (sn.low + sn.range) * 2 ^ (E - sn.k) := hhi
        _ ≤ ((s'.low + s'.range) * 2 ^ t) * 2 ^ (E - sn.k) := Nat.mul_le_mul_right _ u2
        _ = _ := by rw [hexp, pow_add, Nat.mul_assoc]
    obtain ⟨hb, hrel⟩ := get_put hs q.1 hq hr hE' hlo' hhi'
    exact ⟨get_put_shift hs q.1 hq hr hE' hlo' hhi', ih hv' (put_rng hs q.1 hq) hrel hE hlo hhi⟩

/-- every step of the run leaves at least `m` units of exponent (`DecOk` is `m = 0`) -/
def DecOkM (m : Nat) (d : Dec) : List Nat → Prop
  | [] => True
  | p :: ps => shiftOf d p + m ≤ d.e ∧ DecOkM m (d.get p).2 ps

theorem okM_putAll (m : Nat) {ps : List (Bool × Nat)} (hv : Valid ps) {s : Enc} {d : Dec} {c E : Nat}
    (hs : Rng s) (hr : Rel s d c E) (hE : (s.putAll ps).k + m ≤ E)
    (hlo : (s.putAll ps).low * 2 ^ (E - (s.putAll ps).k) ≤ c)
    (hhi : c < ((s.putAll ps).low + (s.putAll ps).range) * 2 ^ (E - (s.putAll ps).k)) :
    DecOkM m d (ps.map (·.2)) := by
  induction ps generalizing s d with
  | nil => trivial
  | cons q ps ih =>
    have hq : q.2 ≤ 255 := hv q (by simp)
    have hv' : Valid ps := fun p hp => hv p (by simp [hp])
    rw [putAll_cons] at hE hlo hhi
    obtain ⟨t, k2, l2, u2⟩ := putAll_nest (put_rng hs q.1 hq) hv'
    set s' := s.put q.1 q.2 with hs'
    set sn := s'.putAll ps with hsn
    have hE' : s'.k ≤ E := by omega
    have hexp : E - s'.k = t + (E - sn.k) := by omega
    have hlo' : s'.low * 2 ^ (E - s'.k) ≤ c := by
      calc s'.low * 2 ^ (E - s'.k) = (s'.low * 2 ^ t) * 2 ^ (E - sn.k) := by rw [hexp, pow_add, Nat.mul_assoc]
        _ ≤ sn.low * 2 ^ (E - sn.k) := Nat.mul_le_mul_right _ l2
        _ ≤ c := hlo
    have hhi' : c < (s'.low + s'.range) * 2 ^ (E - s'.k) := by
      calc c < (sn.low + sn.range) * 2 ^ (E - sn.k) := hhi
        _ ≤ ((s'.low + s'.range) * 2 ^ t) * 2 ^ (E - sn.k) := Nat.mul_le_mul_right _ u2
        _ = _ := by rw [hexp, pow_add, Nat.mul_assoc]
    obtain ⟨hb, hrel⟩ := get_put hs q.1 hq hr hE' hlo' hhi'
    refine ⟨?_, ih hv' (put_rng hs q.1 hq) hrel hE hlo hhi⟩
    have hsh : shiftOf d q.2 = normShift (preRange s q.1 q.2) := by
      unfold shiftOf preRange; rw [hb, hr.1]
    have hk : s'.k = s.k + normShift (preRange s q.1 q.2) := rfl
    have h1 : d.e + s.k = E := hr.2.1
    rw [hsh]
    clear_value sn s'
    omega

theorem rng_init : Rng ({} : Enc) := by unfold Rng; decide

/-- **Any number of the final interval, at any finer scale, decodes to the symbols.** -/
theorem decode_of_mem_final {ps : List (Bool × Nat)} (hv : Valid ps) {c j : Nat}
    (hlo : (Enc.putAll {} ps).low * 2 ^ j ≤ c)
    (hhi : c < ((Enc.putAll {} ps).low + (Enc.putAll {} ps).range) * 2 ^ j) :
    Dec.run { val := c, range := 255, e := (Enc.putAll {} ps).k + j } (ps.map (·.2)) = ps.map (·.1) := by
  have hr : Rel ({} : Enc) { val := c, range := 255, e := (Enc.putAll {} ps).k + j } c ((Enc.putAll {} ps).k + j) := by
    refine ⟨rfl, rfl, ?_⟩
    show c + 0 * _ = c
    omega
  refine run_putAll hv rng_init hr (by omega) ?_ ?_
  · rw [Nat.add_sub_cancel_left]; exact hlo
  · rw [Nat.add_sub_cancel_left]; exact hhi

theorem ok_of_mem_final {ps : List (Bool × Nat)} (hv : Valid ps) {c j : Nat}
    (hlo : (Enc.putAll {} ps).low * 2 ^ j ≤ c)
    (hhi : c < ((Enc.putAll {} ps).low + (Enc.putAll {} ps).range) * 2 ^ j) :
    DecOk { val := c, range := 255, e := (Enc.putAll {} ps).k + j } (ps.map (·.2)) := by
  have hr : Rel ({} : Enc) { val := c, range := 255, e := (Enc.putAll {} ps).k + j } c ((Enc.putAll {} ps).k + j) := by
    refine ⟨rfl, rfl, ?_⟩
    show c + 0 * _ = c
    omega
  refine ok_putAll hv rng_init hr (by omega) ?_ ?_
  · rw [Nat.add_sub_cancel_left]; exact hlo
  · rw [Nat.add_sub_cancel_left]; exact hhi

theorem okM_of_mem_final {ps : List (Bool × Nat)} (hv : Valid ps) {c j : Nat}
    (hlo : (Enc.putAll {} ps).low * 2 ^ j ≤ c)
    (hhi : c < ((Enc.putAll {} ps).low + (Enc.putAll {} ps).range) * 2 ^ j) :
    DecOkM j { val := c, range := 255, e := (Enc.putAll {} ps).k + j } (ps.map (·.2)) := by
  have hr : Rel ({} : Enc) { val := c, range := 255, e := (Enc.putAll {} ps).k + j } c ((Enc.putAll {} ps).k + j) := by
    refine ⟨rfl, rfl, ?_⟩
    show c + 0 * _ = c
    omega
  refine okM_putAll j hv rng_init hr (by omega) ?_ ?_
  · rw [Nat.add_sub_cancel_left]; exact hlo
  · rw [Nat.add_sub_cancel_left]; exact hhi

theorem okM_mono {m m' : Nat} (h : m' ≤ m) {d : Dec} {probs : List Nat} (hok : DecOkM m d probs) :
    DecOkM m' d probs := by
  induction probs generalizing d with
  | nil => trivial
  | cons p ps ih => exact ⟨by have := hok.1; omega, ih hok.2⟩

theorem dinv_of_mem_final {ps : List (Bool × Nat)} (hv : Valid ps) {c j : Nat}
    (hhi : c < ((Enc.putAll {} ps).low + (Enc.putAll {} ps).range) * 2 ^ j) :
    DInv { val := c, range := 255, e := (Enc.putAll {} ps).k + j } := by
  refine ⟨by norm_num, by norm_num, ?_⟩
  obtain ⟨t, k1, _, u1⟩ := putAll_nest rng_init hv
  show c < 255 * 2 ^ ((Enc.putAll {} ps).k + j)
  have hk : (Enc.putAll {} ps).k = t := by rw [k1]; show 0 + t = t; omega
  rw [hk, pow_add, ← Nat.mul_assoc]
  have h0 : (({} : Enc).low + ({} : Enc).range) = 255 := rfl
  rw [h0] at u1
  exact lt_of_lt_of_le hhi (Nat.mul_le_mul_right _ u1)

/-- **Round trip of the ideal coder.** -/
theorem ideal_roundtrip (ps : List (Bool × Nat)) (h : ∀ p ∈ ps, 1 ≤ p.2 ∧ p.2 ≤ 255) :
    idealDecode (idealEncode ps) (ps.map (·.2)) = ps.map (·.1) := by
  have hv : Valid ps := fun p hp => (h p hp).2
  have := decode_of_mem_final hv (c := (Enc.putAll {} ps).low) (j := 0) (by simp)
    (by have := (putAll_rng rng_init hv).1; simp; omega)
  simpa [idealDecode, idealEncode] using this

/-- the same without the lower bound on the probabilities (a probability 0 codes a 0 in an
    interval of width 1) -/
theorem ideal_roundtrip' (ps : List (Bool × Nat)) (h : ∀ p ∈ ps, p.2 ≤ 255) :
    idealDecode (idealEncode ps) (ps.map (·.2)) = ps.map (·.1) := by
  have := decode_of_mem_final h (c := (Enc.putAll {} ps).low) (j := 0) (by simp)
    (by have := (putAll_rng rng_init h).1; simp; omega)
  simpa [idealDecode, idealEncode] using this

end Webp.Proofs.BoolIdeal
