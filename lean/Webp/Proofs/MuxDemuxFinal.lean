import Webp.Proofs.MuxDemuxExt
/-
  C14, extended format: `mux.NewDemuxer` on the assembled file returns `expD s`.
-/
namespace Webp.Proofs.MuxDemuxFinal
open Webp.Go Webp.Impl Webp.Impl.Mux Webp.Impl.Demux Webp.Proofs.MuxBytes Webp.Proofs.MuxChunk
  Webp.Proofs.MuxAccepted Webp.Proofs.MuxCore Webp.Proofs.MuxRiffWrap Webp.Proofs.MuxExpect
  Webp.Proofs.MuxDemux Webp.Proofs.MuxSimple Webp.Proofs.MuxDemuxExt Webp.Proofs.MuxValidate
open Webp.Spec.Riff (RawChunk)
open Webp.Impl.Parser (ccRIFF ccWEBP ccVP8 ccVP8L ccVP8X ccALPH ccANIM ccANMF ccICCP ccEXIF ccXMP
  chunkHeaderSize maxChunkPayload vp8xChunkSize)

/-- a non-animated state that passes `validate` has exactly one frame, with default options -/
theorem still_frames {s : MuxState} (hv : validate s = .ok ()) (hna : isAnimated s = false) :
    ∃ f, s.frames = [f] ∧ f.opts = {} := by
  have hne := validate_frames_ne hv
  have hlen := not_animated_length hna
  match hfs : s.frames, hne, hlen with
  | [f], _, _ =>
    refine ⟨f, rfl, ?_⟩
    unfold isAnimated at hna
    simp only [hfs, Bool.or_eq_false_iff, List.any_cons, List.any_nil, Bool.or_false,
      decide_eq_false_iff_not, ne_eq] at hna
    exact Decidable.of_not_not hna.2

/-- the VP8X chunk: features as announced -/
theorem parseExtended_mux (s : MuxState) (rest : Bytes) (hx : needsVP8X s = true) (vf : ValidFacts s)
    (hlen : rest.length < 4294967296) :
    parseExtended (ser ⟨ccVP8X, vp8xPayload s⟩ ++ rest) =
      extRun { features := expDFeatures s, chunks := [toD ⟨ccVP8X, vp8xPayload s⟩] } rest >>= fun st =>
        if st.frames.length = 0 then .err .noImage else pure st := by
  have hm : maxChunkPayload = 4294967286 := by decide
  have hpl : (vp8xPayload s).length = 10 := vp8xPayload_length s
  have hr := readChunk_ser ⟨ccVP8X, vp8xPayload s⟩ rest cc_lt.2.2.1 (by rw [hm]; simp only [hpl]; omega)
  have hv : vp8xPayload s = [UInt8.ofNat (vp8xFlags s), 0, 0, 0,
      UInt8.ofNat (((canvasSize s).1 - 1) % 256).toNat, UInt8.ofNat (((canvasSize s).1 - 1) / 256 % 256).toNat,
      UInt8.ofNat (((canvasSize s).1 - 1) / 65536 % 256).toNat,
      UInt8.ofNat (((canvasSize s).2 - 1) % 256).toNat, UInt8.ofNat (((canvasSize s).2 - 1) / 256 % 256).toNat,
      UInt8.ofNat (((canvasSize s).2 - 1) / 65536 % 256).toNat] := rfl
  simp only [hpl] at hr
  have hr' : readChunk (ser ⟨ccVP8X, vp8xPayload s⟩ ++ rest) = .ok (⟨ccVP8X, 10, [UInt8.ofNat (vp8xFlags s), 0, 0, 0,
      UInt8.ofNat (((canvasSize s).1 - 1) % 256).toNat, UInt8.ofNat (((canvasSize s).1 - 1) / 256 % 256).toNat,
      UInt8.ofNat (((canvasSize s).1 - 1) / 65536 % 256).toNat,
      UInt8.ofNat (((canvasSize s).2 - 1) % 256).toNat, UInt8.ofNat (((canvasSize s).2 - 1) / 256 % 256).toNat,
      UInt8.ofNat (((canvasSize s).2 - 1) / 65536 % 256).toNat]⟩, (ser ⟨ccVP8X, vp8xPayload s⟩).length) := hr
  rw [parseExtended_of hr']
  have hsl : (ser ⟨ccVP8X, vp8xPayload s⟩).length = 18 := by rw [ser_length, padLen]; simp only [hpl]
  have hloop := extLoop_eq_extRun ((ser ⟨ccVP8X, vp8xPayload s⟩ ++ rest).length + 1)
    { features := expDFeatures s, chunks := [toD ⟨ccVP8X, vp8xPayload s⟩] } (ser ⟨ccVP8X, vp8xPayload s⟩) rest
    (by simp only [List.length_append]; omega)
  rw [← hloop]
  have b1 := le24I_bytes ((canvasSize s).1 - 1) (by have := vf.cw1; omega) (by have := vf.cw2; omega)
  have b2 := le24I_bytes ((canvasSize s).2 - 1) (by have := vf.ch1; omega) (by have := vf.ch2; omega)
  have fd := flags_decode (isAnimated s) s.iccData.isSome s.exifData.isSome s.xmpData.isSome (hasAlpha s)
  simp only at fd
  obtain ⟨f0, f1, f2, f3, f4, f5, _, _⟩ := fd
  have hfeat : expDFeatures s =
      { width := (canvasSize s).1.toNat, height := (canvasSize s).2.toNat, hasAlpha := hasAlpha s,
        hasAnimation := isAnimated s, hasICC := s.iccData.isSome, hasEXIF := s.exifData.isSome,
        hasXMP := s.xmpData.isSome, format := .extended } := by
    unfold expDFeatures; rw [if_pos hx]
  rw [hfeat]
  have w1 : ((canvasSize s).1 - 1).toNat + 1 = (canvasSize s).1.toNat := by have := vf.cw1; omega
  have w2 : ((canvasSize s).2 - 1).toNat + 1 = (canvasSize s).2.toNat := by have := vf.ch1; omega
  have hfl : (UInt8.ofNat (vp8xFlags s)).toNat = vp8xFlags s := by unfold vp8xFlags; exact f0
  rw [hfl, b1, b2, w1, w2]
  unfold vp8xFlags
  rw [f1, f2, f3, f4, f5]
  rfl

theorem animFrameOK {s : MuxState} (inv : Inv s) (af : AcceptedFacts s) (hx : needsVP8X s = true)
    (ha : isAnimated s = true) : ∀ f ∈ s.frames, AnimFrameOK f := by
  intro f hf
  have vf := validate_facts af.valid
  have fb := vf.frames f hf
  have hsz := af.size
  unfold exactRiffSize at hsz
  simp only [hx, ha, if_true] at hsz
  have hle := mem_le_sum (fun f => frameLen true f.data) s.frames f hf
  have d := inv.dur f hf
  exact ⟨af.framesOK f hf, by omega, fb.ox0, fb.oy0, fb.ox1, fb.oy1, d.1, d.2⟩

theorem frames_flatten_anim (fs : List MuxFrame) :
    (fs.map (frameChunks true)).flatten = fs.map fun f => ⟨ccANMF, anmfPayload f⟩ := by
  induction fs with
  | nil => rfl
  | cons f fs ih => simp [frameChunks, ih]

/-- extended format, demuxer -/
theorem demux_ext (s : MuxState) (inv : Inv s) (af : AcceptedFacts s) (hx : needsVP8X s = true) :
    Demux.parseWith true (riffWrap (serAll (topChunks s))) = .ok (expD s) := by
  have vf := validate_facts af.valid
  have hlen := topChunks_ext_length s hx
  have hsz := af.size
  have htop : topChunks s = ⟨ccVP8X, vp8xPayload s⟩ ::
      (optC ccICCP s.iccData ++ ((if isAnimated s then [⟨ccANIM, animPayload s⟩] else []) ++
        ((s.frames.map (frameChunks (isAnimated s))).flatten ++
          (optC ccEXIF s.exifData ++ optC ccXMP s.xmpData)))) := by
    unfold topChunks; rw [if_pos hx]
  have hbody : serAll (topChunks s) = ser ⟨ccVP8X, vp8xPayload s⟩ ++
      (serAll (optC ccICCP s.iccData) ++ (serAll (if isAnimated s then [⟨ccANIM, animPayload s⟩] else []) ++
        (serAll (s.frames.map (frameChunks (isAnimated s))).flatten ++
          (serAll (optC ccEXIF s.exifData) ++ (serAll (optC ccXMP s.xmpData) ++ []))))) := by
    rw [htop]; simp only [serAll_cons, serAll_append, List.append_nil]
  have hvl : (ser ⟨ccVP8X, vp8xPayload s⟩).length = 18 := by
    rw [ser_length, padLen]; simp only [vp8xPayload_length]
  have hbl : 18 ≤ (serAll (topChunks s)).length := by
    rw [hbody, List.length_append, hvl]; omega
  have facts := riffWrap_facts (serAll (topChunks s)) (by omega)
  have h0 : le32 (serAll (topChunks s)) 0 = ccVP8X := by
    rw [hbody]
    exact (ser_facts ⟨ccVP8X, vp8xPayload s⟩ _ cc_lt.2.2.1 (by simp only [vp8xPayload_length]; omega)).2.1
  rw [demux_riff facts (by omega), h0, if_pos rfl, hbody]
  have hrl : (serAll (optC ccICCP s.iccData) ++ (serAll (if isAnimated s then [⟨ccANIM, animPayload s⟩] else []) ++
        (serAll (s.frames.map (frameChunks (isAnimated s))).flatten ++
          (serAll (optC ccEXIF s.exifData) ++ (serAll (optC ccXMP s.xmpData) ++ []))))).length < 4294967296 := by
    have := congrArg List.length hbody
    rw [List.length_append, hvl] at this
    omega
  rw [parseExtended_mux s _ hx vf hrl, extRun_optICC _ _ _ af.icc]
  have hfeatA : (expDFeatures s).hasAnimation = isAnimated s := by
    unfold expDFeatures; rw [if_pos hx]
  cases ha : isAnimated s with
  | false =>
    obtain ⟨f, hfs, hopts⟩ := still_frames af.valid ha
    have hfl : frameLen false f.data ≤ 4294967286 := by
      unfold exactRiffSize at hsz
      simp only [hx, ha, hfs, if_true, Bool.false_eq_true, if_false, List.map_cons, List.map_nil, List.sum_cons,
        List.sum_nil] at hsz
      omega
    have e1 : serAll (if false = true then [(⟨ccANIM, animPayload s⟩ : RawChunk)] else []) = [] := by simp
    have e2 : serAll (s.frames.map (frameChunks false)).flatten = serAll (imgChunks f.data) := by
      rw [hfs]; simp [frameChunks]
    rw [e1, e2, List.nil_append]
    rw [extRun_stillImg _ f _ (by cases s.iccData <;> simp [dAddICC, hfeatA, ha])
      (by cases s.iccData <;> simp [dAddICC]) (af.framesOK f (by rw [hfs]; exact List.mem_cons_self)) hopts hfl]
    rw [extRun_optEXIF _ _ _ af.exif, extRun_optXMP _ _ _ af.xmp, extRun_nil, Res.bind_ok]
    have hne : ¬ ((dAddXMP s.xmpData (dAddEXIF s.exifData
        { dAddICC s.iccData { features := expDFeatures s, chunks := [toD ⟨ccVP8X, vp8xPayload s⟩] } with
          chunks := (dAddICC s.iccData { features := expDFeatures s, chunks := [toD ⟨ccVP8X, vp8xPayload s⟩] }).chunks ++
            (imgChunks f.data).map toD,
          frames := [dFrameOf true f] })).frames.length = 0) := by
      cases s.xmpData <;> cases s.exifData <;> simp [dAddXMP, dAddEXIF]
    rw [if_neg hne]
    cases hi : s.iccData <;> cases he : s.exifData <;> cases hxm : s.xmpData <;>
      simp [expD, htop, ha, hfs, hi, he, hxm, dAddICC, dAddEXIF, dAddXMP, optC, dFramesFrom, frameChunks, toD]
  | true =>
    have hok := animFrameOK inv af hx ha
    have e1 : serAll (if true = true then [(⟨ccANIM, animPayload s⟩ : RawChunk)] else []) =
        ser ⟨ccANIM, animPayload s⟩ := by simp
    rw [e1, extRun_anim _ s _ inv (by cases s.iccData <;> simp [dAddICC, hfeatA, ha]), frames_flatten_anim]
    rw [extRun_anmfs s.frames _ _ hok (by
      have := inv.nframes
      cases s.iccData <;> simp [dAddICC] <;> omega) (by cases s.iccData <;> simp [dAddICC, hfeatA, ha])]
    rw [extRun_optEXIF _ _ _ af.exif, extRun_optXMP _ _ _ af.xmp, extRun_nil, Res.bind_ok]
    have hfne := validate_frames_ne af.valid
    cases hfs : s.frames with
    | nil => exact absurd hfs hfne
    | cons f0 fs0 =>
      cases hi : s.iccData <;> cases he : s.exifData <;> cases hxm : s.xmpData <;>
        simp [expD, htop, ha, hfs, hi, he, hxm, dAddICC, dAddEXIF, dAddXMP, optC, dFramesFrom, frames_flatten_anim, toD,
          frameChunks, Function.comp_def]

end Webp.Proofs.MuxDemuxFinal
