import Webp.Impl.Alpha
/-
  Helper lemmas for property C07: the inverse prediction filters undo the forward filters.
-/
namespace Webp.Proofs.AlphaFilter
open Webp.Impl.Alpha

theorem getD_setIfInBounds (d : Plane) (i j : Nat) (v : UInt8) :
    (d.setIfInBounds i v).getD j 0 = if i = j ∧ i < d.size then v else d.getD j 0 := by
  simp only [Array.getD_eq_getD_getElem?, Array.getElem?_setIfInBounds]
  by_cases h : i = j
  · subst h
    by_cases h2 : i < d.size
    · simp [h2]
    · simp [h2]
  · simp [h]

/-- the predictor of pixel `i` reads only pixels with a smaller index -/
theorem pred_congr (f : Filter) (w : Nat) (hw : 0 < w) (g1 g2 : Plane) (i : Nat)
    (h : ∀ j, j < i → g1.getD j 0 = g2.getD j 0) : pred f w g1 i = pred f w g2 i := by
  have hmod : i ≠ 0 → i % w = 0 → w ≤ i := by
    intro h0 hm
    apply Nat.le_of_not_lt
    intro hlt
    rw [Nat.mod_eq_of_lt hlt] at hm
    exact h0 hm
  cases f with
  | none => rfl
  | horizontal =>
    simp only [pred]
    by_cases h0 : i = 0
    · simp [h0]
    · by_cases hm : i % w = 0
      · have := hmod h0 hm
        simp only [h0, hm, if_false, if_true]
        exact h _ (by omega)
      · simp only [h0, hm, if_false]
        exact h _ (by omega)
  | vertical =>
    simp only [pred]
    by_cases hlt : i < w
    · by_cases h0 : i = 0
      · subst h0; simp [hw]
      · simp only [hlt, h0, if_true, if_false]
        exact h _ (by omega)
    · simp only [hlt, if_false]
      exact h _ (by omega)
  | gradient =>
    simp only [pred]
    by_cases hlt : i < w
    · by_cases h0 : i = 0
      · subst h0; simp [hw]
      · simp only [hlt, h0, if_true, if_false]
        exact h _ (by omega)
    · by_cases hm : i % w = 0
      · simp only [hlt, hm, if_false, if_true]
        exact h _ (by omega)
      · simp only [hlt, hm, if_false]
        rw [h (i - 1) (by omega), h (i - w) (by omega), h (i - w - 1) (by omega)]

theorem size_unfilterStep (f : Filter) (w : Nat) (d : Plane) (i : Nat) :
    (unfilterStep f w d i).size = d.size := by
  simp [unfilterStep]

/-- `k` steps of the in-place inverse filter applied to `filter f a` restore the first `k`
    pixels of `a` and leave the rest untouched -/
theorem unfilter_prefix (f : Filter) (w n : Nat) (hw : 0 < w) (a b : Plane)
    (_ha : a.size = n) (hb : b.size = n)
    (hbv : ∀ i, i < n → b.getD i 0 = a.getD i 0 - pred f w a i) (k : Nat) (hk : k ≤ n) :
    ((List.range k).foldl (unfilterStep f w) b).size = n ∧
    ∀ j, ((List.range k).foldl (unfilterStep f w) b).getD j 0
      = if j < k then a.getD j 0 else b.getD j 0 := by
  induction k with
  | zero => simp [hb]
  | succ k ih =>
    obtain ⟨hs, hv⟩ := ih (by omega)
    rw [List.range_succ, List.foldl_append]
    simp only [List.foldl_cons, List.foldl_nil]
    generalize hd : (List.range k).foldl (unfilterStep f w) b = d at hs hv
    refine ⟨by rw [size_unfilterStep]; exact hs, ?_⟩
    intro j
    have hp : pred f w d k = pred f w a k := by
      apply pred_congr f w hw
      intro j hj
      rw [hv j]; simp [hj]
    simp only [unfilterStep, getD_setIfInBounds]
    by_cases hjk : k = j
    · subst hjk
      have hk' : k < d.size := by omega
      simp only [hk', and_self, if_true, Nat.lt_succ_self]
      rw [hp, hv k]
      simp only [Nat.lt_irrefl, if_false]
      rw [hbv k (by omega)]
      exact UInt8.sub_add_cancel _ _
    · simp only [hjk, false_and, if_false]
      rw [hv j]
      by_cases hj : j < k
      · simp [hj, Nat.lt_succ_of_lt hj]
      · have : ¬ j < k + 1 := by omega
        simp [hj, this]

theorem filter_of_ne (f : Filter) (hf : f ≠ .none) (w h : Nat) (a : Plane) :
    filter f w h a = Array.ofFn (n := w * h) fun i => a.getD i.val 0 - pred f w a i.val := by
  cases f <;> first | exact absurd rfl hf | rfl

theorem unfilter_of_ne (f : Filter) (hf : f ≠ .none) (w h : Nat) (d : Plane) :
    unfilter f w h d = (List.range (w * h)).foldl (unfilterStep f w) d := by
  cases f <;> first | exact absurd rfl hf | rfl

/-- **unfilter ∘ filter = id** for every filter, every `w h ≥ 1` and every plane of `w*h` bytes
    (arithmetic mod 256; the gradient predictor is evaluated on already-restored neighbours) -/
theorem unfilter_filter (f : Filter) (w h : Nat) (hw : 0 < w) (a : Plane) (ha : a.size = w * h) :
    unfilter f w h (filter f w h a) = a := by
  by_cases hf : f = .none
  · subst hf; rfl
  · rw [unfilter_of_ne f hf]
    obtain ⟨hs, hv⟩ := unfilter_prefix f w (w * h) hw a (filter f w h a) ha
      (by rw [filter_of_ne f hf]; simp)
      (by
        intro i hi
        rw [filter_of_ne f hf]
        rw [Array.getD_eq_getD_getElem? (xs := Array.ofFn _),
          Array.getElem?_eq_getElem (by simpa using hi)]
        simp)
      (w * h) (Nat.le_refl _)
    apply Array.ext (by omega)
    intro i h1 h2
    have := hv i
    rw [if_pos (by omega)] at this
    simpa [Array.getD_eq_getD_getElem?, Array.getElem?_eq_getElem h1, Array.getElem?_eq_getElem h2] using this

end Webp.Proofs.AlphaFilter
