import Webp.Impl.VP8LEntropy
/-
  `copyBlock32` (decode_image.go) against the specification's one-pixel-at-a-time copy.

  `seqCopy data pos dist n` is the specification's LZ77 copy done in place on the full-size
  pixel buffer.  `copyBlock_eq_spec` : the three strategies of `copyBlock32` (one `memmove`,
  fill, doubling copy) all compute it.  `seqCopy_copyLoop` : it is the push-based `copyLoop`
  of the specification, and the deferred cache flush over the copied range is the eager
  insertion of `copyLoop`.
-/
namespace Webp.Proofs.VP8LEntropyCopy
open Webp.Impl.VP8LEntropy
open Webp.Spec.VP8L (copyLoop cacheInsert)

/-- the specification's copy: one pixel at a time, so source and destination may overlap -/
def seqCopy (data : Array UInt32) (pos dist : Nat) : Nat → Array UInt32
  | 0 => data
  | n + 1 =>
    (seqCopy data pos dist n).setIfInBounds (pos + n) ((seqCopy data pos dist n).getD (pos + n - dist) 0)

@[simp] theorem seqCopy_zero (data : Array UInt32) (pos dist : Nat) : seqCopy data pos dist 0 = data := rfl

theorem seqCopy_succ (data : Array UInt32) (pos dist n : Nat) :
    seqCopy data pos dist (n + 1) =
      (seqCopy data pos dist n).setIfInBounds (pos + n) ((seqCopy data pos dist n).getD (pos + n - dist) 0) := rfl

@[simp] theorem seqCopy_size (data : Array UInt32) (pos dist n : Nat) :
    (seqCopy data pos dist n).size = data.size := by
  induction n with
  | zero => rfl
  | succ n ih => rw [seqCopy_succ, Array.size_setIfInBounds, ih]

/-- cells outside `[pos, pos+n)` are untouched -/
theorem seqCopy_getElem?_outside (data : Array UInt32) (pos dist n j : Nat) (h : j < pos ∨ pos + n ≤ j) :
    (seqCopy data pos dist n)[j]? = data[j]? := by
  induction n with
  | zero => rfl
  | succ n ih =>
    rw [seqCopy_succ, Array.getElem?_setIfInBounds_ne (by omega)]
    exact ih (by omega)

/-- later steps do not change what earlier steps wrote -/
theorem seqCopy_getElem?_stable (data : Array UInt32) (pos dist k m j : Nat) (hkm : k ≤ m) (hj : j < pos + k) :
    (seqCopy data pos dist m)[j]? = (seqCopy data pos dist k)[j]? := by
  induction m with
  | zero => have : k = 0 := by omega
            subst this; rfl
  | succ m ih =>
    by_cases hk : k = m + 1
    · subst hk; rfl
    · rw [seqCopy_succ, Array.getElem?_setIfInBounds_ne (by omega)]
      exact ih (by omega)

/-- closed form: the `dist` pixels before `pos` repeated periodically -/
theorem seqCopy_getElem? (data : Array UInt32) (pos dist n : Nat) (hd : 1 ≤ dist) (hp : dist ≤ pos)
    (hlen : pos + n ≤ data.size) (j : Nat) :
    (seqCopy data pos dist n)[j]? =
      if pos ≤ j ∧ j < pos + n then data[pos - dist + (j - pos) % dist]? else data[j]? := by
  induction n generalizing j with
  | zero => rw [if_neg (by omega)]; rfl
  | succ n ih =>
    rw [seqCopy_succ, Array.getElem?_setIfInBounds]
    by_cases hj : pos + n = j
    · subst hj
      have hsz : pos + n < (seqCopy data pos dist n).size := by rw [seqCopy_size]; omega
      rw [if_pos rfl, if_pos hsz, if_pos (by omega), Array.getD_eq_getD_getElem?, ih (by omega)]
      have hmod : pos - dist + (pos + n - pos) % dist < data.size := by
        have := Nat.mod_lt (pos + n - pos) (show 0 < dist by omega); omega
      by_cases hn : n < dist
      · rw [if_neg (by omega)]
        have e1 : (pos + n - pos) % dist = n := by
          rw [show pos + n - pos = n by omega]; exact Nat.mod_eq_of_lt hn
        rw [e1, show pos - dist + n = pos + n - dist by omega]
        rw [Array.getElem?_eq_getElem (by omega)]; rfl
      · rw [if_pos (by omega)]
        have e1 : (pos + n - pos) % dist = (pos + n - dist - pos) % dist := by
          rw [show pos + n - pos = n by omega, show pos + n - dist - pos = n - dist by omega]
          exact Nat.mod_eq_sub_mod (by omega)
        rw [← e1, Array.getElem?_eq_getElem hmod]; rfl
    · rw [if_neg hj, ih (by omega)]
      by_cases hin : pos ≤ j ∧ j < pos + n
      · rw [if_pos hin, if_pos (by omega)]
      · rw [if_neg hin, if_neg (by omega)]

/-! ### `memmove`, fill -/

/-- a run of writes `a[d+i] := f i`, `i < k` -/
def writeRun (f : Nat → UInt32) (d k : Nat) (data : Array UInt32) : Array UInt32 :=
  (List.range k).foldl (fun (a : Array UInt32) i => a.setIfInBounds (d + i) (f i)) data

theorem writeRun_succ (f : Nat → UInt32) (d k : Nat) (data : Array UInt32) :
    writeRun f d (k + 1) data = (writeRun f d k data).setIfInBounds (d + k) (f k) := by
  unfold writeRun; rw [List.range_succ, List.foldl_append]; rfl

@[simp] theorem writeRun_size (f : Nat → UInt32) (d k : Nat) (data : Array UInt32) :
    (writeRun f d k data).size = data.size := by
  induction k with
  | zero => rfl
  | succ k ih => rw [writeRun_succ, Array.size_setIfInBounds, ih]

theorem writeRun_getElem? (f : Nat → UInt32) (d k : Nat) (data : Array UInt32) (hd : d + k ≤ data.size) (j : Nat) :
    (writeRun f d k data)[j]? = if d ≤ j ∧ j < d + k then some (f (j - d)) else data[j]? := by
  induction k with
  | zero => rw [if_neg (by omega)]; rfl
  | succ k ih =>
    rw [writeRun_succ, Array.getElem?_setIfInBounds]
    by_cases hj : d + k = j
    · subst hj
      rw [if_pos rfl, if_pos (by rw [writeRun_size]; omega), if_pos (by omega), show d + k - d = k by omega]
    · rw [if_neg hj, ih (by omega)]
      by_cases hin : d ≤ j ∧ j < d + k
      · rw [if_pos hin, if_pos (by omega)]
      · rw [if_neg hin, if_neg (by omega)]

theorem memmove_eq_writeRun (data : Array UInt32) (d s n : Nat) :
    memmove data d s n = writeRun (fun i => (data.extract s (s + n)).getD i 0) d n data := rfl

@[simp] theorem memmove_size (data : Array UInt32) (d s n : Nat) : (memmove data d s n).size = data.size := by
  rw [memmove_eq_writeRun, writeRun_size]

/-- `copy(dst, src)` reads the OLD contents: no periodic extension -/
theorem memmove_getElem? (data : Array UInt32) (d s n : Nat) (hd : d + n ≤ data.size) (hs : s + n ≤ data.size)
    (j : Nat) :
    (memmove data d s n)[j]? = if d ≤ j ∧ j < d + n then data[s + (j - d)]? else data[j]? := by
  rw [memmove_eq_writeRun, writeRun_getElem? _ _ _ _ hd]
  by_cases hin : d ≤ j ∧ j < d + n
  · rw [if_pos hin, if_pos hin, Array.getD_eq_getD_getElem?, Array.getElem?_extract,
      if_pos (by rw [Nat.min_eq_left hs]; omega), Array.getElem?_eq_getElem (by omega)]
    rfl
  · rw [if_neg hin, if_neg hin]

/-! ### the three strategies of `copyBlock32` -/

/-- non-overlapping (`dist ≥ len`): one `memmove` -/
theorem memmove_eq_seqCopy (data : Array UInt32) (pos dist len : Nat) (hd : 1 ≤ dist) (hp : dist ≤ pos)
    (hlen : pos + len ≤ data.size) (hdl : len ≤ dist) :
    memmove data pos (pos - dist) len = seqCopy data pos dist len := by
  apply Array.ext_getElem?
  intro j
  rw [memmove_getElem? _ _ _ _ hlen (by omega), seqCopy_getElem? _ _ _ _ hd hp hlen]
  by_cases hin : pos ≤ j ∧ j < pos + len
  · rw [if_pos hin, if_pos hin, Nat.mod_eq_of_lt (by omega)]
  · rw [if_neg hin, if_neg hin]

/-- `dist = 1`: fill with the previous pixel -/
theorem fill_eq_seqCopy (data : Array UInt32) (pos len : Nat) (hp : 1 ≤ pos) (hlen : pos + len ≤ data.size) :
    (List.range len).foldl (fun (a : Array UInt32) i => a.setIfInBounds (pos + i) (data.getD (pos - 1) 0)) data =
      seqCopy data pos 1 len := by
  apply Array.ext_getElem?
  intro j
  have h := writeRun_getElem? (fun _ => data.getD (pos - 1) 0) pos len data hlen j
  unfold writeRun at h
  rw [h, seqCopy_getElem? _ _ _ _ (Nat.le_refl 1) hp hlen]
  by_cases hin : pos ≤ j ∧ j < pos + len
  · rw [if_pos hin, if_pos hin, Nat.mod_one, Nat.add_zero, Array.getD_eq_getD_getElem?,
      Array.getElem?_eq_getElem (by omega)]
    rfl
  · rw [if_neg hin, if_neg hin]

/-- one round of the doubling copy: the already-copied prefix is a whole number of periods, so
    copying `m ≤ copied` pixels from `pos` continues the periodic extension -/
theorem memmove_seqCopy (data : Array UInt32) (pos dist c m : Nat) (hd : 1 ≤ dist) (hp : dist ≤ pos)
    (hdvd : dist ∣ c) (hm : m ≤ c) (hlen : pos + c + m ≤ data.size) :
    memmove (seqCopy data pos dist c) (pos + c) pos m = seqCopy data pos dist (c + m) := by
  apply Array.ext_getElem?
  intro j
  rw [memmove_getElem? _ _ _ _ (by rw [seqCopy_size]; omega) (by rw [seqCopy_size]; omega),
    seqCopy_getElem? _ _ _ _ hd hp (by omega), seqCopy_getElem? _ _ _ _ hd hp (by omega),
    seqCopy_getElem? _ _ _ _ hd hp (by omega)]
  by_cases hin : pos + c ≤ j ∧ j < pos + c + m
  · rw [if_pos hin, if_pos (by omega), if_pos (by omega)]
    obtain ⟨q, rfl⟩ := hdvd
    have e : (j - pos) % dist = (pos + (j - (pos + dist * q)) - pos) % dist := by
      rw [show j - pos = (pos + (j - (pos + dist * q)) - pos) + dist * q by omega, Nat.add_mul_mod_self_left]
    rw [e]
  · rw [if_neg hin]
    by_cases hin2 : pos ≤ j ∧ j < pos + c
    · rw [if_pos hin2, if_pos (by omega)]
    · rw [if_neg hin2, if_neg (by omega)]

theorem doublingLoop_done (pos len fuel copied : Nat) (data : Array UInt32) (h : len ≤ copied) :
    doublingLoop pos len fuel copied data = data := by
  cases fuel with
  | zero => rfl
  | succ f => unfold doublingLoop; rw [if_neg (by omega)]

theorem doublingLoop_eq_seqCopy (data : Array UInt32) (pos dist len : Nat) (hd : 1 ≤ dist) (hp : dist ≤ pos)
    (hlen : pos + len ≤ data.size) (fuel copied : Nat) (hdvd : dist ∣ copied) (hc0 : 0 < copied)
    (hcl : copied ≤ len) (hf : len - copied < fuel) :
    doublingLoop pos len fuel copied (seqCopy data pos dist copied) = seqCopy data pos dist len := by
  induction fuel generalizing copied with
  | zero => omega
  | succ f ih =>
    unfold doublingLoop
    by_cases hlt : copied < len
    · rw [if_pos hlt]
      by_cases hbig : copied > len - copied
      · simp only [if_pos hbig]
        rw [memmove_seqCopy _ _ _ _ _ hd hp hdvd (by omega) (by omega),
          show copied + (len - copied) = len by omega, doublingLoop_done _ _ _ _ _ (Nat.le_refl _)]
      · simp only [if_neg hbig]
        rw [memmove_seqCopy _ _ _ _ _ hd hp hdvd (Nat.le_refl _) (by omega)]
        exact ih (copied + copied) (Nat.dvd_add hdvd hdvd) (by omega) (by omega) (by omega)
    · rw [if_neg hlt, show copied = len by omega]

/-- `dist = 0` never happens in the decoder (`planeCodeToDistance ≥ 1`); the model then leaves
    the buffer alone (the doubling loop makes no progress and runs out of fuel), and so does `seqCopy` -/
theorem seqCopy_dist_zero (data : Array UInt32) (pos n : Nat) : seqCopy data pos 0 n = data := by
  induction n with
  | zero => rfl
  | succ n ih =>
    rw [seqCopy_succ, ih]
    apply Array.ext_getElem?
    intro j
    rw [Array.getElem?_setIfInBounds]
    by_cases hj : pos + n = j
    · subst hj
      rw [if_pos rfl, Nat.sub_zero]
      by_cases hs : pos + n < data.size
      · rw [if_pos hs, Array.getD_eq_getD_getElem?, Array.getElem?_eq_getElem hs]; rfl
      · rw [if_neg hs, Array.getElem?_eq_none (by omega)]
    · rw [if_neg hj]

theorem doublingLoop_zero (pos len fuel : Nat) (data : Array UInt32) :
    doublingLoop pos len fuel 0 data = data := by
  induction fuel with
  | zero => rfl
  | succ f ih =>
    unfold doublingLoop
    by_cases h : 0 < len
    · rw [if_pos h]
      simp only [show ¬ (0 > len - 0) by omega, if_false]
      have : memmove data (pos + 0) pos 0 = data := rfl
      rw [this]; exact ih
    · rw [if_neg h]

theorem copyBlock_dist_zero (data : Array UInt32) (pos len : Nat) : copyBlock32 data pos 0 len = data := by
  unfold copyBlock32
  by_cases h : 0 ≥ len
  · have : len = 0 := by omega
    subst this; simp only [ge_iff_le, Nat.le_refl, if_true]; rfl
  · simp only [if_neg h, show ¬ (0 = 1) by omega, if_false]
    have : memmove data pos (pos - 0) 0 = data := rfl
    rw [this, doublingLoop_zero]

/-- **`copyBlock32` is the specification's pixel-by-pixel copy** (all three strategies). -/
theorem copyBlock_eq_spec (data : Array UInt32) (pos dist len : Nat)
    (hd : 1 ≤ dist) (hp : dist ≤ pos) (hlen : pos + len ≤ data.size) :
    copyBlock32 data pos dist len = seqCopy data pos dist len := by
  unfold copyBlock32
  by_cases h1 : dist ≥ len
  · simp only [if_pos h1]
    exact memmove_eq_seqCopy data pos dist len hd hp hlen h1
  · simp only [if_neg h1]
    by_cases h2 : dist = 1
    · subst h2
      simp only [if_true]
      exact fill_eq_seqCopy data pos len hp hlen
    · simp only [if_neg h2]
      have h0 : memmove data pos (pos - dist) dist = seqCopy data pos dist dist :=
        memmove_eq_seqCopy data pos dist dist hd hp (by omega) (Nat.le_refl _)
      rw [h0]
      exact doublingLoop_eq_seqCopy data pos dist len hd hp hlen (len + 1) dist (Nat.dvd_refl _) (by omega)
        (by omega) (by omega)

/-- the same without `1 ≤ dist` (for `dist = 0` both sides are the identity) -/
theorem copyBlock_eq_spec' (data : Array UInt32) (pos dist len : Nat)
    (hp : dist ≤ pos) (hlen : pos + len ≤ data.size) :
    copyBlock32 data pos dist len = seqCopy data pos dist len := by
  by_cases hd : 1 ≤ dist
  · exact copyBlock_eq_spec data pos dist len hd hp hlen
  · have : dist = 0 := by omega
    subst this
    rw [copyBlock_dist_zero, seqCopy_dist_zero]

/-! ### the deferred cache flush -/

theorem flushCache_succ (bits : Nat) (data : Array UInt32) (n i : Nat) (cache : Array UInt32) :
    flushCache bits data (n + 1) i cache =
      flushCache bits data n (i + 1) (cacheInsert bits cache (data.getD i 0)) := rfl

theorem flushCache_bits_zero (data : Array UInt32) (n i : Nat) (cache : Array UInt32) :
    flushCache 0 data n i cache = cache := by
  induction n generalizing i cache with
  | zero => rfl
  | succ n ih => rw [flushCache_succ, ih]; rfl

/-- the flush reads `data[i .. i+n)` only -/
theorem flushCache_congr (bits : Nat) (d1 d2 : Array UInt32) (n i : Nat) (cache : Array UInt32)
    (h : ∀ j, i ≤ j → j < i + n → d1[j]? = d2[j]?) :
    flushCache bits d1 n i cache = flushCache bits d2 n i cache := by
  induction n generalizing i cache with
  | zero => rfl
  | succ n ih =>
    rw [flushCache_succ, flushCache_succ, Array.getD_eq_getD_getElem?, Array.getD_eq_getD_getElem?, h i (Nat.le_refl _) (by omega)]
    exact ih (i + 1) _ (fun j h1 h2 => h j (by omega) (by omega))

theorem flushCache_add (bits : Nat) (data : Array UInt32) (n m i : Nat) (cache : Array UInt32) :
    flushCache bits data (n + m) i cache = flushCache bits data m (i + n) (flushCache bits data n i cache) := by
  induction n generalizing i cache with
  | zero => rw [Nat.zero_add]; rfl
  | succ n ih =>
    rw [show n + 1 + m = (n + m) + 1 by omega, flushCache_succ, flushCache_succ, ih,
      show i + 1 + n = i + (n + 1) by omega]

theorem flushCache_succ_end (bits : Nat) (data : Array UInt32) (n i : Nat) (cache : Array UInt32) :
    flushCache bits data (n + 1) i cache =
      cacheInsert bits (flushCache bits data n i cache) (data.getD (i + n) 0) := by
  rw [flushCache_add]; rfl

/-! ### the specification's push-based copy -/

theorem copyLoop_eq_seqCopy_aux (cacheBits : Nat) (data : Array UInt32) (pos dist : Nat)
    (hd : (1 ≤ dist ∧ dist ≤ pos) ∨ ∀ i, pos ≤ i → data.getD i 0 = 0) (n k : Nat) (out cache : Array UInt32)
    (hout : out = (seqCopy data pos dist k).extract 0 (pos + k)) (hlen : pos + k + n ≤ data.size) :
    copyLoop cacheBits dist n out cache =
      ((seqCopy data pos dist (k + n)).extract 0 (pos + k + n),
       flushCache cacheBits (seqCopy data pos dist (k + n)) n (pos + k) cache) := by
  induction n generalizing k out cache with
  | zero => subst hout; rfl
  | succ n ih =>
    have hsz : out.size = pos + k := by
      rw [hout, Array.size_extract, seqCopy_size]; omega
    have hpx : out.getD (out.size - dist) 0 = (seqCopy data pos dist k).getD (pos + k - dist) 0 := by
      rw [hsz]
      rcases hd with ⟨hd, hdp⟩ | hz
      · rw [Array.getD_eq_getD_getElem?, Array.getD_eq_getD_getElem?, hout, Array.getElem?_extract,
          if_pos (by rw [seqCopy_size]; omega), Nat.zero_add]
      · by_cases hd : 1 ≤ dist ∧ 1 ≤ pos + k
        · rw [Array.getD_eq_getD_getElem?, Array.getD_eq_getD_getElem?, hout, Array.getElem?_extract,
            if_pos (by rw [seqCopy_size]; omega), Nat.zero_add]
        · by_cases hd0 : dist = 0
          · subst hd0
            rw [seqCopy_dist_zero, Nat.sub_zero, hz _ (by omega), Array.getD_eq_getD_getElem?,
              Array.getElem?_eq_none (by omega)]
            rfl
          · have hk : k = 0 := by omega
            have hp0 : pos = 0 := by omega
            subst hk; subst hp0
            rw [seqCopy_zero, show 0 + 0 - dist = 0 by omega, hz _ (by omega), Array.getD_eq_getD_getElem?,
              Array.getElem?_eq_none (by omega)]
            rfl
    have hpx' := hpx
    rw [hsz] at hpx'
    have hself : (seqCopy data pos dist (k + 1))[pos + k]? =
        some ((seqCopy data pos dist k).getD (pos + k - dist) 0) := by
      rw [seqCopy_succ, Array.getElem?_setIfInBounds_self, if_pos (by rw [seqCopy_size]; omega)]
    have hpush : out.push (out.getD (out.size - dist) 0) =
        (seqCopy data pos dist (k + 1)).extract 0 (pos + (k + 1)) := by
      apply Array.ext_getElem?
      intro j
      rw [Array.getElem?_push, Array.getElem?_extract, hsz, seqCopy_size, Nat.zero_add]
      by_cases hj : j = pos + k
      · subst hj
        rw [if_pos rfl, if_pos (by omega), hself, hpx']
      · rw [if_neg hj]
        by_cases hlt : j < pos + k
        · rw [if_pos (by omega), seqCopy_getElem?_stable _ _ _ k (k + 1) j (by omega) hlt, hout,
            Array.getElem?_extract, if_pos (by rw [seqCopy_size]; omega), Nat.zero_add]
        · rw [if_neg (by omega), Array.getElem?_eq_none (by omega)]
    unfold copyLoop
    simp only []
    rw [ih (k + 1) _ _ hpush (by omega)]
    have e1 : k + 1 + n = k + (n + 1) := by omega
    have e2 : pos + (k + 1) + n = pos + k + (n + 1) := by omega
    rw [e1, e2]
    congr 1
    rw [flushCache_succ]
    have hget : (seqCopy data pos dist (k + (n + 1))).getD (pos + k) 0 = out.getD (out.size - dist) 0 := by
      rw [Array.getD_eq_getD_getElem?, seqCopy_getElem?_stable _ _ _ (k + 1) (k + (n + 1)) (pos + k) (by omega)
        (by omega), hself, hpx]
      rfl
    rw [hget, show pos + (k + 1) = pos + k + 1 by omega]

/-- **the in-place copy is the specification's `copyLoop`**: the pixels are the same, and flushing
    the cache afterwards over the copied range inserts the same pixels in the same order.
    (For an illegal distance — `dist = 0` or `dist > pos` — the two still agree on a buffer that is
    zero from `pos` on, which the decoder's buffer is: second alternative of `hd`.) -/
theorem seqCopy_copyLoop (cacheBits : Nat) (data out cache : Array UInt32) (pos dist n : Nat)
    (hsz : out.size = pos) (hpre : ∀ i, i < pos → data[i]? = out[i]?)
    (hd : (1 ≤ dist ∧ dist ≤ pos) ∨ ∀ i, pos ≤ i → data.getD i 0 = 0) (hlen : pos + n ≤ data.size) :
    copyLoop cacheBits dist n out cache =
      ((seqCopy data pos dist n).extract 0 (pos + n),
       flushCache cacheBits (seqCopy data pos dist n) n pos cache) := by
  have hout : out = (seqCopy data pos dist 0).extract 0 (pos + 0) := by
    apply Array.ext_getElem?
    intro j
    rw [seqCopy_zero, Array.getElem?_extract, Nat.zero_add, Nat.add_zero]
    by_cases hj : j < pos
    · rw [if_pos (by omega), hpre j hj]
    · rw [if_neg (by omega), Array.getElem?_eq_none (by omega)]
  have h := copyLoop_eq_seqCopy_aux cacheBits data pos dist hd n 0 out cache hout (by omega)
  rw [Nat.zero_add, Nat.add_zero] at h
  exact h

/-! ### non-vacuity -/

-- the doubling branch (`1 < dist < len`), the fill branch and the single-`memmove` branch
example : copyBlock32 #[1, 2, 3, 0, 0, 0, 0, 0, 0] 3 2 5 = seqCopy #[1, 2, 3, 0, 0, 0, 0, 0, 0] 3 2 5 :=
  copyBlock_eq_spec _ _ _ _ (by decide) (by decide) (by decide)
example : copyBlock32 #[1, 2, 3, 0, 0, 0, 0, 0, 0] 3 1 5 = seqCopy #[1, 2, 3, 0, 0, 0, 0, 0, 0] 3 1 5 :=
  copyBlock_eq_spec _ _ _ _ (by decide) (by decide) (by decide)
example : copyBlock32 #[1, 2, 3, 0, 0, 0, 0, 0, 0] 3 3 2 = seqCopy #[1, 2, 3, 0, 0, 0, 0, 0, 0] 3 3 2 :=
  copyBlock_eq_spec _ _ _ _ (by decide) (by decide) (by decide)
/-- info: #[1, 2, 3, 2, 3, 2, 3, 2, 0] -/
#guard_msgs in #eval seqCopy #[1, 2, 3, 0, 0, 0, 0, 0, 0] 3 2 5
/-- info: #[1, 2, 3, 2, 3, 2, 3, 2, 0] -/
#guard_msgs in #eval copyBlock32 #[1, 2, 3, 0, 0, 0, 0, 0, 0] 3 2 5
-- a plain `memmove` would NOT be the specification's copy when the regions overlap:
/-- info: #[1, 2, 3, 2, 3, 0, 0, 0, 0] -/
#guard_msgs in #eval memmove #[1, 2, 3, 0, 0, 0, 0, 0, 0] 3 1 5

example : copyLoop 2 2 5 #[1, 2, 3] #[0, 0, 0, 0] =
    ((seqCopy #[1, 2, 3, 0, 0, 0, 0, 0, 0] 3 2 5).extract 0 (3 + 5),
     flushCache 2 (seqCopy #[1, 2, 3, 0, 0, 0, 0, 0, 0] 3 2 5) 5 3 #[0, 0, 0, 0]) :=
  seqCopy_copyLoop 2 #[1, 2, 3, 0, 0, 0, 0, 0, 0] #[1, 2, 3] #[0, 0, 0, 0] 3 2 5 rfl
    (by intro i hi; match i, hi with | 0, _ => rfl | 1, _ => rfl | 2, _ => rfl)
    (.inl ⟨by decide, by decide⟩) (by decide)

end Webp.Proofs.VP8LEntropyCopy
