import Webp.Proofs.WriterParser
import Webp.Proofs.ContainerDemux
/-
  `mux.NewDemuxer` (model `Impl.Demux.parseWith true`) on the files the writers produce:
  every chunk is found by its size field, metadata is read back byte for byte.
-/
namespace Webp.Impl.Writer
open Webp.Go
open Webp.Impl.Parser (ccRIFF ccWEBP ccVP8 ccVP8L ccVP8X ccALPH ccICCP ccEXIF ccXMP
  chunkHeaderSize vp8xChunkSize maxChunkPayload maxMetadataSize)
set_option maxHeartbeats 400000

/-- the RIFF header is read back and the demuxer is handed exactly `body` -/
theorem demux_riffFile (body : Bytes) (h8 : 8 ≤ body.length)
    (hsz : 4 + body.length < 4294967296) :
    Demux.parseWith true (riffFile body) = Demux.dispatchD body := by
  have hl := riffFile_length body
  have h0 : le32 (riffFile body) 0 = ccRIFF := by
    unfold riffFile
    rw [List.append_assoc, List.append_assoc]
    exact le32_putLE32 _ _ cc_lt.1
  have h4 : le32 (riffFile body) 4 = 4 + body.length := by
    unfold riffFile
    rw [List.append_assoc, List.append_assoc]
    have := le32_append_right (putLE32 ccRIFF) (putLE32 (4 + body.length) ++ (putLE32 ccWEBP ++ body)) 0
    rw [le32_putLE32 _ _ (by omega)] at this
    exact this
  have h8' : le32 (riffFile body) 8 = ccWEBP := by
    unfold riffFile
    rw [List.append_assoc]
    have := le32_append_right (putLE32 ccRIFF ++ putLE32 (4 + body.length)) (putLE32 ccWEBP ++ body) 0
    rw [le32_putLE32 _ _ cc_lt.2.1] at this
    exact this
  have hb : ((riffFile body).take (4 + body.length + 8)).drop 12 = body := by
    rw [List.take_of_length_le (by omega)]
    unfold riffFile
    exact List.drop_left' rfl
  generalize riffFile body = F at hl h0 h4 h8' hb
  unfold Demux.parseWith Parser.riffHeaderSize chunkHeaderSize
  rw [if_neg (by omega), if_neg (by rw [h0]; exact fun h => h rfl)]
  dsimp only
  have hgt : ¬ 4 + body.length + 8 > F.length := by omega
  rw [h4, if_neg (by rw [h8']; exact fun h => h rfl), if_neg hgt,
    if_neg (fun h => by have := h.2; omega),
    slice_ok _ _ _ (by omega) (by omega), hb, Res.bind_ok, if_neg (by omega)]
  rfl

/-- `ReadChunk` finds exactly the chunk that was written, and consumes its pad byte -/
theorem readChunk_chunk (fcc : Nat) (d rest : Bytes) (hf : fcc < 4294967296)
    (hd : d.length ≤ maxChunkPayload) :
    Demux.readChunk (chunkBytes fcc d ++ rest) =
      .ok (⟨fcc, d.length, d⟩, 8 + (d.length + d.length % 2)) := by
  have hM := maxChunkPayload_val
  have h0 := chunk_le32_0 fcc d rest hf
  have h4 := chunk_le32_4 fcc d rest (by omega)
  have hl := chunk_length fcc d rest
  have hp := chunk_payload fcc d rest
  generalize chunkBytes fcc d ++ rest = X at h0 h4 hl hp
  unfold Demux.readChunk Demux.readChunkHeader chunkHeaderSize
  generalize maxChunkPayload = M at hd hM
  rw [if_neg (by omega)]
  dsimp only
  rw [h4, h0, if_neg (by omega), Res.bind_ok]
  dsimp only
  rw [if_neg (by omega), slice_ok _ _ _ (by omega) (by omega), hp, Res.bind_ok]
  by_cases hodd : d.length % 2 ≠ 0
  · rw [if_pos ⟨hodd, by omega⟩]
    have : 8 + d.length + 1 = 8 + (d.length + d.length % 2) := by omega
    rw [this]; rfl
  · rw [if_neg (fun h => hodd h.1)]
    have : 8 + d.length = 8 + (d.length + d.length % 2) := by omega
    rw [this]; rfl

/-! ### simple layout -/

theorem demux_simple_vp8l (bs : Bytes) (hsz : 12 + (bs.length + bs.length % 2) ≤ maxChunkPayload)
    {w h : Nat} {a : Bool} (hh : Demux.parseVP8LDimensions bs = .ok (w, h, a)) :
    Demux.parseWith true (simpleFile ccVP8L bs) = .ok
      { features := { width := w, height := h, hasAlpha := a, format := .lossless },
        frames := [{ data := some bs, width := w, height := h, hasAlpha := a, isKeyframe := true }],
        chunks := [⟨ccVP8L, bs.length, bs⟩] } := by
  have hM := maxChunkPayload_val
  have hbl := simpleFile_body_length ccVP8L bs
  unfold simpleFile
  rw [demux_riffFile _ (by omega) (by omega)]
  unfold Demux.dispatchD
  have e : chunkBytes ccVP8L bs = chunkBytes ccVP8L bs ++ [] := (List.append_nil _).symm
  have h0 : le32 (chunkBytes ccVP8L bs) 0 = ccVP8L := by
    rw [e]; exact chunk_le32_0 _ _ _ cc_lt.2.2.2.1
  rw [h0, if_neg cc_ne.2.1, if_neg cc_ne.2.2.1, if_pos rfl]
  unfold Demux.parseSimpleVP8L
  rw [e, readChunk_chunk _ _ _ cc_lt.2.2.2.1 (by omega), Res.bind_ok]
  dsimp only
  rw [hh]
  rfl

theorem demux_simple_vp8 (bs : Bytes) (hsz : 12 + (bs.length + bs.length % 2) ≤ maxChunkPayload)
    {w h : Nat} (hh : Demux.parseVP8Dimensions bs = .ok (w, h)) :
    Demux.parseWith true (simpleFile ccVP8 bs) = .ok
      { features := { width := w, height := h, format := .lossy },
        frames := [{ data := some bs, width := w, height := h, isKeyframe := true }],
        chunks := [⟨ccVP8, bs.length, bs⟩] } := by
  have hM := maxChunkPayload_val
  have hbl := simpleFile_body_length ccVP8 bs
  unfold simpleFile
  rw [demux_riffFile _ (by omega) (by omega)]
  unfold Demux.dispatchD
  have e : chunkBytes ccVP8 bs = chunkBytes ccVP8 bs ++ [] := (List.append_nil _).symm
  have h0 : le32 (chunkBytes ccVP8 bs) 0 = ccVP8 := by
    rw [e]; exact chunk_le32_0 _ _ _ cc_lt.2.2.1
  rw [h0, if_neg cc_ne.1, if_pos rfl]
  unfold Demux.parseSimpleVP8
  rw [e, readChunk_chunk _ _ _ cc_lt.2.2.1 (by omega), Res.bind_ok]
  dsimp only
  rw [hh]
  rfl

/-! ### the chunk walk of the demuxer at a written chunk -/

theorem chunkOf_at (A : Bytes) (fcc : Nat) (d R : Bytes) (hf : fcc < 4294967296)
    (hd : d.length ≤ maxChunkPayload) :
    Demux.chunkOf (A ++ (chunkBytes fcc d ++ R)) A.length = ⟨fcc, d.length, d⟩ := by
  have hM := maxChunkPayload_val
  unfold Demux.chunkOf
  rw [List.drop_left' rfl, chunk_le32_0 _ _ _ hf, chunk_le32_4 _ _ _ (by omega), chunk_payload]

theorem chunkStop_at (A : Bytes) (fcc : Nat) (d R : Bytes)
    (hd : d.length ≤ maxChunkPayload) :
    ¬ Demux.chunkStop (A ++ (chunkBytes fcc d ++ R)) A.length := by
  have hM := maxChunkPayload_val
  unfold Demux.chunkStop Demux.TooLarge
  rw [List.drop_left' rfl, chunk_le32_4 _ _ _ (by omega), List.length_append, chunk_length]
  generalize maxChunkPayload = M at hd hM
  omega

theorem nextPos_at (A : Bytes) (fcc : Nat) (d R : Bytes) (hd : d.length ≤ maxChunkPayload) :
    Demux.nextPos (A ++ (chunkBytes fcc d ++ R)) A.length = (A ++ chunkBytes fcc d).length := by
  have hM := maxChunkPayload_val
  unfold Demux.nextPos Demux.consumedOf
  rw [List.drop_left' rfl, chunk_le32_4 _ _ _ (by omega), chunk_length, List.length_append,
    chunkBytes_length]
  split_ifs <;> omega

theorem chunkStop_end (P : Bytes) : Demux.chunkStop P P.length := by
  unfold Demux.chunkStop
  exact .inl (by omega)

/-! ### one iteration of `parseExtended`'s loop at a written chunk -/

theorem cc_vals : ccVP8 = 540561494 ∧ ccVP8L = 1278758998 ∧ ccVP8X = 1480085590 ∧
    ccALPH = 1213221953 ∧ Parser.ccANIM = 1296649793 ∧ Parser.ccANMF = 1179471425 ∧
    ccICCP = 1346585417 ∧ ccEXIF = 1179211845 ∧ ccXMP = 542133592 :=
  ⟨Parser.ccVP8_val, Parser.ccVP8L_val, Parser.ccVP8X_val, Parser.ccALPH_val, Parser.ccANIM_val,
    Parser.ccANMF_val, Parser.ccICCP_val, Parser.ccEXIF_val, Parser.ccXMP_val⟩

theorem extLoop_at (fuel : Nat) (st : Demux.State) (P A : Bytes) (fcc : Nat) (d R : Bytes)
    (hP : P = A ++ (chunkBytes fcc d ++ R)) (hf : fcc < 4294967296)
    (hd : d.length ≤ maxChunkPayload) :
    Demux.extLoop (fuel + 1) st P A.length =
      Res.bind
        (Demux.extDecide { st with chunks := st.chunks ++ [⟨fcc, d.length, d⟩] }
          (chunkBytes fcc d ++ R) ⟨fcc, d.length, d⟩)
        (fun st' => Demux.extLoop fuel st' P (A ++ chunkBytes fcc d).length) := by
  subst hP
  rw [Demux.extLoop_succ, if_neg (chunkStop_at A fcc d R hd), chunkOf_at A fcc d R hf hd,
    nextPos_at A fcc d R hd, List.drop_left' rfl]

theorem extLoop_end (fuel : Nat) (st : Demux.State) (P : Bytes) :
    Demux.extLoop (fuel + 1) st P P.length = .ok st := by
  rw [Demux.extLoop_succ, if_pos (chunkStop_end P)]

/-- record a chunk in the demuxer's chunk list -/
def dAdd (st : Demux.State) (fcc : Nat) (d : Bytes) : Demux.State :=
  { st with chunks := st.chunks ++ [⟨fcc, d.length, d⟩] }

/-- effect of an optional ICCP / EXIF / XMP chunk -/
def dI (st : Demux.State) (d : Bytes) : Demux.State :=
  if d.length > 0 then { dAdd st ccICCP d with iccData := some d } else st
def dE (st : Demux.State) (d : Bytes) : Demux.State :=
  if d.length > 0 then { dAdd st ccEXIF d with exifData := some d } else st
def dX (st : Demux.State) (d : Bytes) : Demux.State :=
  if d.length > 0 then { dAdd st ccXMP d with xmpData := some d } else st

theorem extLoop_iccp (fuel : Nat) (st : Demux.State) (P A d R : Bytes)
    (hP : P = A ++ (optChunkBytes ccICCP d ++ R)) (hd : d.length ≤ maxMetadataSize) :
    ∃ fuel', fuel ≤ fuel' ∧ Demux.extLoop (fuel + 1) st P A.length =
      Demux.extLoop fuel' (dI st d) P (A ++ optChunkBytes ccICCP d).length := by
  unfold optChunkBytes dI at *
  by_cases h : d.length > 0
  · rw [if_pos h] at hP
    rw [if_pos h, if_pos h]
    refine ⟨fuel, Nat.le_refl _, ?_⟩
    have hle := maxMetadataSize_le
    rw [extLoop_at fuel st P A ccICCP d R hP cc_lt.2.2.2.2.2.2.1 (by omega)]
    unfold Demux.extDecide
    generalize maxMetadataSize = MM at hd
    show Res.bind (if ccICCP = ccICCP then (if d.length > MM then _ else _) else _) _ = _
    rw [if_pos rfl, if_neg (by omega)]
    rfl
  · rw [if_neg h, List.nil_append] at hP
    rw [if_neg h, if_neg h, List.append_nil]
    exact ⟨fuel + 1, Nat.le_succ _, rfl⟩

theorem extLoop_exif (fuel : Nat) (st : Demux.State) (P A d R : Bytes)
    (hP : P = A ++ (optChunkBytes ccEXIF d ++ R)) (hd : d.length ≤ maxMetadataSize) :
    ∃ fuel', fuel ≤ fuel' ∧ Demux.extLoop (fuel + 1) st P A.length =
      Demux.extLoop fuel' (dE st d) P (A ++ optChunkBytes ccEXIF d).length := by
  obtain ⟨_, _, _, _, _, _, v1, v2, v3⟩ := cc_vals
  unfold optChunkBytes dE at *
  by_cases h : d.length > 0
  · rw [if_pos h] at hP
    rw [if_pos h, if_pos h]
    refine ⟨fuel, Nat.le_refl _, ?_⟩
    have hle := maxMetadataSize_le
    rw [extLoop_at fuel st P A ccEXIF d R hP cc_lt.2.2.2.2.2.2.2.1 (by omega)]
    unfold Demux.extDecide
    generalize maxMetadataSize = MM at hd
    show Res.bind (if ccEXIF = ccICCP then _ else if ccEXIF = ccEXIF then
      (if d.length > MM then _ else _) else _) _ = _
    rw [if_neg (by omega), if_pos rfl, if_neg (by omega)]
    rfl
  · rw [if_neg h, List.nil_append] at hP
    rw [if_neg h, if_neg h, List.append_nil]
    exact ⟨fuel + 1, Nat.le_succ _, rfl⟩

theorem extLoop_xmp (fuel : Nat) (st : Demux.State) (P A d R : Bytes)
    (hP : P = A ++ (optChunkBytes ccXMP d ++ R)) (hd : d.length ≤ maxMetadataSize) :
    ∃ fuel', fuel ≤ fuel' ∧ Demux.extLoop (fuel + 1) st P A.length =
      Demux.extLoop fuel' (dX st d) P (A ++ optChunkBytes ccXMP d).length := by
  obtain ⟨_, _, _, _, _, _, v1, v2, v3⟩ := cc_vals
  unfold optChunkBytes dX at *
  by_cases h : d.length > 0
  · rw [if_pos h] at hP
    rw [if_pos h, if_pos h]
    refine ⟨fuel, Nat.le_refl _, ?_⟩
    have hle := maxMetadataSize_le
    rw [extLoop_at fuel st P A ccXMP d R hP cc_lt.2.2.2.2.2.2.2.2 (by omega)]
    unfold Demux.extDecide
    generalize maxMetadataSize = MM at hd
    show Res.bind (if ccXMP = ccICCP then _ else if ccXMP = ccEXIF then _ else if ccXMP = ccXMP then
      (if d.length > MM then _ else _) else _) _ = _
    rw [if_neg (by omega), if_neg (by omega), if_pos rfl, if_neg (by omega)]
    rfl
  · rw [if_neg h, List.nil_append] at hP
    rw [if_neg h, if_neg h, List.append_nil]
    exact ⟨fuel + 1, Nat.le_succ _, rfl⟩

/-! ### the still frame: `parseSingleExtendedFrame` -/

theorem single_image (fuel : Nat) (A : Bytes) (fcc : Nat) (bs T : Bytes) (al : Option Bytes)
    (hfcc : fcc = ccVP8 ∨ fcc = ccVP8L) (hd : bs.length ≤ maxChunkPayload) :
    Demux.singleExtLoop (fuel + 1) (A ++ (chunkBytes fcc bs ++ T)) A.length al =
      .ok (some bs, al) := by
  obtain ⟨v1, v2, v3, v4, _, _, _, _, _⟩ := cc_vals
  have hlt : fcc < 4294967296 := by rcases hfcc with h | h <;> omega
  rw [Demux.singleExtLoop_succ, if_neg (chunkStop_at A fcc bs T hd), chunkOf_at A fcc bs T hlt hd]
  show (if fcc = ccALPH then _ else if fcc = ccVP8 ∨ fcc = ccVP8L then _ else _) = _
  rw [if_neg (by rcases hfcc with h | h <;> omega), if_pos hfcc]

theorem single_alph (fuel : Nat) (A alpha R : Bytes) (al : Option Bytes)
    (ha : alpha.length ≤ maxChunkPayload) :
    Demux.singleExtLoop (fuel + 1) (A ++ (chunkBytes ccALPH alpha ++ R)) A.length al =
      Demux.singleExtLoop fuel (A ++ (chunkBytes ccALPH alpha ++ R))
        (A ++ chunkBytes ccALPH alpha).length (some alpha) := by
  rw [Demux.singleExtLoop_succ, if_neg (chunkStop_at A ccALPH alpha R ha),
    chunkOf_at A ccALPH alpha R cc_lt.2.2.2.2.2.1 ha, nextPos_at A ccALPH alpha R ha]
  show (if ccALPH = ccALPH then _ else _) = _
  rw [if_pos rfl]

theorem single_alph_image (fuel : Nat) (alpha : Bytes) (fcc : Nat) (bs T : Bytes)
    (hfcc : fcc = ccVP8 ∨ fcc = ccVP8L) (ha : alpha.length ≤ maxChunkPayload)
    (hd : bs.length ≤ maxChunkPayload) :
    Demux.singleExtLoop (fuel + 1 + 1) (chunkBytes ccALPH alpha ++ (chunkBytes fcc bs ++ T)) 0 none =
      .ok (some bs, some alpha) := by
  have h1 := single_alph (fuel + 1) [] alpha (chunkBytes fcc bs ++ T) none ha
  rw [List.nil_append, List.length_nil, List.nil_append] at h1
  rw [h1]
  exact single_image fuel (chunkBytes ccALPH alpha) fcc bs T (some alpha) hfcc hd

/-- the frame record of a still: image payload, pending ALPH payload, size from the bitstream
    header (`frameDimensions`) or the canvas -/
def dFrame (st : Demux.State) (bs : Bytes) (al : Option Bytes) : Demux.State :=
  { st with frames := [Demux.singleFrameOf st bs al (Demux.frameDimensions bs).1
      (Demux.frameDimensions bs).2] }

theorem singleFrame_alph (st : Demux.State) (alpha : Bytes) (fcc : Nat) (bs T : Bytes)
    (hfcc : fcc = ccVP8 ∨ fcc = ccVP8L) (ha : alpha.length ≤ maxChunkPayload)
    (hd : bs.length ≤ maxChunkPayload) :
    Demux.parseSingleExtendedFrame st (chunkBytes ccALPH alpha ++ (chunkBytes fcc bs ++ T)) =
      .ok (dFrame st bs (some alpha)) := by
  have hfu : (chunkBytes ccALPH alpha ++ (chunkBytes fcc bs ++ T)).length + 1 =
      ((chunkBytes ccALPH alpha ++ (chunkBytes fcc bs ++ T)).length - 1) + 1 + 1 := by
    rw [chunk_length]; omega
  exact Demux.parseSingleExtendedFrame_some
    (by rw [hfu]; exact single_alph_image _ alpha fcc bs T hfcc ha hd) rfl

theorem singleFrame_image (st : Demux.State) (fcc : Nat) (bs T : Bytes)
    (hfcc : fcc = ccVP8 ∨ fcc = ccVP8L) (hd : bs.length ≤ maxChunkPayload) :
    Demux.parseSingleExtendedFrame st (chunkBytes fcc bs ++ T) = .ok (dFrame st bs none) := by
  exact Demux.parseSingleExtendedFrame_some
    (by
      have h := single_image (chunkBytes fcc bs ++ T).length [] fcc bs T none hfcc hd
      rw [List.nil_append, List.length_nil] at h
      exact h) rfl

/-- effect of the optional ALPH chunk (the frame is built as soon as ALPH is seen) -/
def dA (st : Demux.State) (alpha bs : Bytes) : Demux.State :=
  if alpha.length > 0 then dFrame (dAdd st ccALPH alpha) bs (some alpha) else st

/-- effect of the image chunk -/
def dImg (st : Demux.State) (fcc : Nat) (bs : Bytes) : Demux.State :=
  if st.frames.length = 0 then dFrame (dAdd st fcc bs) bs none else dAdd st fcc bs

theorem extLoop_alph (fuel : Nat) (st : Demux.State) (P A alpha : Bytes) (fcc : Nat) (bs T : Bytes)
    (hP : P = A ++ (optChunkBytes ccALPH alpha ++ (chunkBytes fcc bs ++ T)))
    (hfcc : fcc = ccVP8 ∨ fcc = ccVP8L) (hanim : st.features.hasAnimation = false)
    (hfr : st.frames.length = 0)
    (ha : alpha.length ≤ maxChunkPayload) (hd : bs.length ≤ maxChunkPayload) :
    ∃ fuel', fuel ≤ fuel' ∧ Demux.extLoop (fuel + 1) st P A.length =
      Demux.extLoop fuel' (dA st alpha bs) P (A ++ optChunkBytes ccALPH alpha).length := by
  obtain ⟨v1, v2, v3, v4, v5, v6, v7, v8, v9⟩ := cc_vals
  unfold optChunkBytes dA at *
  by_cases h : alpha.length > 0
  · rw [if_pos h] at hP
    rw [if_pos h, if_pos h]
    refine ⟨fuel, Nat.le_refl _, ?_⟩
    rw [extLoop_at fuel st P A ccALPH alpha _ hP cc_lt.2.2.2.2.2.1 ha]
    unfold Demux.extDecide
    generalize maxMetadataSize = MM
    show Res.bind (if ccALPH = ccICCP then _ else if ccALPH = ccEXIF then _ else
      if ccALPH = ccXMP then _ else if ccALPH = Parser.ccANIM then _ else
      if ccALPH = Parser.ccANMF then _ else
      if ccALPH = ccVP8 ∨ ccALPH = ccVP8L ∨ ccALPH = ccALPH then
        (if (!st.features.hasAnimation) = true ∧ st.frames.length = 0 then _ else _) else _) _ = _
    rw [if_neg (by omega), if_neg (by omega), if_neg (by omega), if_neg (by omega),
      if_neg (by omega), if_pos (.inr (.inr rfl)), if_pos ⟨by rw [hanim]; rfl, hfr⟩,
      singleFrame_alph _ alpha fcc bs T hfcc ha hd]
    rfl
  · rw [if_neg h, List.nil_append] at hP
    rw [if_neg h, if_neg h, List.append_nil]
    exact ⟨fuel + 1, Nat.le_succ _, rfl⟩

theorem extLoop_image (fuel : Nat) (st : Demux.State) (P A : Bytes) (fcc : Nat) (bs T : Bytes)
    (hP : P = A ++ (chunkBytes fcc bs ++ T))
    (hfcc : fcc = ccVP8 ∨ fcc = ccVP8L) (hanim : st.features.hasAnimation = false)
    (hd : bs.length ≤ maxChunkPayload) :
    Demux.extLoop (fuel + 1) st P A.length =
      Demux.extLoop fuel (dImg st fcc bs) P (A ++ chunkBytes fcc bs).length := by
  obtain ⟨v1, v2, v3, v4, v5, v6, v7, v8, v9⟩ := cc_vals
  have hlt : fcc < 4294967296 := by rcases hfcc with h | h <;> omega
  rw [extLoop_at fuel st P A fcc bs T hP hlt hd]
  unfold Demux.extDecide dImg
  generalize maxMetadataSize = MM
  show Res.bind (if fcc = ccICCP then _ else if fcc = ccEXIF then _ else
    if fcc = ccXMP then _ else if fcc = Parser.ccANIM then _ else
    if fcc = Parser.ccANMF then _ else
    if fcc = ccVP8 ∨ fcc = ccVP8L ∨ fcc = ccALPH then
      (if (!st.features.hasAnimation) = true ∧ st.frames.length = 0 then _ else _) else _) _ = _
  rw [if_neg (by rcases hfcc with h | h <;> omega), if_neg (by rcases hfcc with h | h <;> omega),
    if_neg (by rcases hfcc with h | h <;> omega), if_neg (by rcases hfcc with h | h <;> omega),
    if_neg (by rcases hfcc with h | h <;> omega),
    if_pos (by rcases hfcc with h | h; exact .inl h; exact .inr (.inl h))]
  by_cases hfr : st.frames.length = 0
  · rw [if_pos ⟨by rw [hanim]; rfl, hfr⟩, if_pos hfr, singleFrame_image _ fcc bs T hfcc hd]
    rfl
  · rw [if_neg (fun h => hfr h.2), if_neg hfr]
    rfl

end Webp.Impl.Writer
