import Webp.Proofs.VP8HeaderRoundtrip
import Webp.Proofs.VP8SyntaxBytes
/-
  C06 header, part 3: from the decision stream to bytes — the header calls and their decisions give
  the same bytes, the decoder's header tree on the reader of the written partition 0 returns the
  header state, and the whole frame.
-/
namespace Webp.Proofs.VP8HeaderBytesP
open Webp.Go (Bytes)
open Webp.Impl.VP8Recon Webp.Impl.VP8SyntaxBytes Webp.Impl.VP8HeaderBytes Webp.Impl.BoolCoder
open Webp.Proofs.VP8SyntaxTrees Webp.Proofs.VP8SyntaxTransfer Webp.Proofs.VP8SyntaxBytesP
open Webp.Proofs.VP8HeaderStream Webp.Proofs.VP8HeaderRoundtrip Webp.Proofs.BoolOps Webp.Proofs.BoolWriter
open Webp.Spec.VP8 (Tables.coeffUpdateProbs)

/-- fixed-probability slots resolve to their constant -/
def FixedOK (prob : Slot → UInt8) : Prop := ∀ p, prob (.fixed p) = UInt8.ofNat p

theorem fixedOK_fixedProb : FixedOK fixedProb := fun _ => rfl
theorem fixedOK_tables (coef : List UInt8) (um : Bool) (sp : Fin 3 → UInt8) (us : Bool) (p : UInt8) :
    FixedOK (probOfTables coef um sp us p) := fun _ => rfl

theorem ofNat_toNat_le {p : Nat} (h : p ≤ 255) : (UInt8.ofNat p).toNat = p := by
  rw [UInt8.toNat_ofNat']; omega

theorem symsOf_msbS (prob : Slot → UInt8) (hp : FixedOK prob) (v i : Nat) : symsOf prob (msbS v i) = msb v i := by
  induction i with
  | zero => rfl
  | succ i ih =>
    show ((v.testBit i, (prob (.fixed 128)).toNat) :: symsOf prob (msbS v i)) = (v.testBit i, 128) :: msb v i
    rw [ih, hp 128]; rfl

theorem symsOf_append (prob : Slot → UInt8) (a b : Stream) : symsOf prob (a ++ b) = symsOf prob a ++ symsOf prob b := by
  simp [symsOf]

/-- the decisions of a writer call carry the call's `(bit, probability)` symbols -/
theorem symsOf_opStream (prob : Slot → UInt8) (hp : FixedOK prob) {op : Op} (hv : op.Valid) :
    symsOf prob (opStream op) = symbols op := by
  cases op with
  | bit b p =>
    show [(b, (prob (.fixed p)).toNat)] = [(b, p)]
    rw [hp p, ofNat_toNat_le hv]
  | ubit b =>
    show [(b, (prob (.fixed 128)).toNat)] = [(b, 128)]
    rw [hp 128]; rfl
  | bits v n => exact symsOf_msbS prob hp v n
  | sbits v n =>
    show (v != 0, (prob (.fixed 128)).toNat) :: symsOf prob (if v = 0 then [] else msbS _ (n + 1)) = _
    rw [hp 128]
    unfold symbols
    by_cases h : v = 0
    · simp [h, symsOf]
    · simp only [h, if_false, symsOf_msbS prob hp]
      rfl

theorem symsOf_opsStream (prob : Slot → UInt8) (hp : FixedOK prob) {ops : List Op} (hv : ∀ op ∈ ops, op.Valid) :
    symsOf prob (opsStream ops) = ops.flatMap symbols := by
  induction ops with
  | nil => rfl
  | cons op ops ih =>
    rw [opsStream_cons, symsOf_append, List.flatMap_cons, symsOf_opStream prob hp (hv op (by simp)),
      ih (fun o ho => hv o (by simp [ho]))]

/-- every decision of a writer call is on a fixed-probability slot -/
theorem opsStream_fixed (ops : List Op) : ∀ d ∈ opsStream ops, ∃ p, d.slot = .fixed p := by
  have hm : ∀ v i, ∀ d ∈ msbS v i, ∃ p, d.slot = Slot.fixed p := by
    intro v i
    induction i with
    | zero => intro d hd; simp [msbS] at hd
    | succ i ih =>
      intro d hd
      simp only [msbS, List.mem_cons] at hd
      rcases hd with rfl | hd
      · exact ⟨128, rfl⟩
      · exact ih d hd
  intro d hd
  obtain ⟨op, _, hd⟩ := List.mem_flatMap.mp hd
  cases op with
  | bit b p => simp [opStream] at hd; exact ⟨p, by rw [hd]⟩
  | ubit b => simp [opStream] at hd; exact ⟨128, by rw [hd]⟩
  | bits v n => exact hm v n d hd
  | sbits v n =>
    simp only [opStream, List.mem_cons] at hd
    rcases hd with rfl | hd
    · exact ⟨128, rfl⟩
    · split at hd
      · simp at hd
      · exact hm _ _ d hd

/-- two probability functions agree on streams of fixed slots -/
theorem probs_fixed_congr (p1 p2 : Slot → UInt8) (h1 : FixedOK p1) (h2 : FixedOK p2) (s : Stream)
    (hs : ∀ d ∈ s, ∃ p, d.slot = .fixed p) : probs p1 s = probs p2 s := by
  unfold probs
  apply List.map_congr_left
  intro d hd
  obtain ⟨p, hp⟩ := hs d hd
  rw [hp, h1 p, h2 p]

/-! ### the header calls are valid writer calls -/

theorem upd_all : (List.range 1056).all (fun i => decide (Tables.coeffUpdateProbs.getD i 0 ≤ 255)) = true := by
  decide +kernel

theorem upd_le : ∀ i, i < 1056 → Tables.coeffUpdateProbs.getD i 0 ≤ 255 := by
  intro i hi
  have := List.all_eq_true.mp upd_all i (List.mem_range.mpr hi)
  simpa using this

theorem optMag_valid {v : Int} {n : Nat} (h1 : 1 ≤ n) (h32 : n ≤ 32) (hv : v.natAbs < 2 ^ n) :
    ∀ op ∈ optMagOps v n, op.Valid := by
  intro op hop
  unfold optMagOps at hop
  split at hop
  · simp only [List.mem_cons, List.mem_nil_iff, or_false] at hop
    rcases hop with rfl | rfl | rfl
    · trivial
    · exact ⟨h1, h32, hv⟩
    · trivial
  · simp only [List.mem_cons, List.mem_nil_iff, or_false] at hop
    subst hop; trivial

theorem byte_bits_valid (p : UInt8) : (Op.bits p.toNat 8).Valid :=
  ⟨by norm_num, by norm_num, by have := p.toNat_lt; simpa using this⟩

theorem probaOps_nil_right (ps : List UInt8) : probaOps ps [] = [] := by cases ps <;> rfl
theorem probaOps_nil_left (uds : List (Nat × UInt8)) : probaOps [] uds = [] := rfl

theorem probaOps_valid (ps : List UInt8) (uds : List (Nat × UInt8)) (hu : ∀ ud ∈ uds, ud.1 ≤ 255) :
    ∀ op ∈ probaOps ps uds, op.Valid := by
  induction uds generalizing ps with
  | nil => intro op hop; rw [probaOps_nil_right] at hop; simp at hop
  | cons ud uds ih =>
    obtain ⟨u, d⟩ := ud
    cases ps with
    | nil => intro op hop; rw [probaOps_nil_left] at hop; simp at hop
    | cons p ps =>
      intro op hop
      unfold probaOps at hop
      rcases List.mem_append.mp hop with h | h
      · have hu0 : u ≤ 255 := hu (u, d) (by simp)
        split at h
        · simp only [List.mem_cons, List.mem_nil_iff, or_false] at h
          rcases h with rfl | rfl
          · exact hu0
          · exact byte_bits_valid p
        · simp only [List.mem_cons, List.mem_nil_iff, or_false] at h
          subst h; exact hu0
      · exact ih ps (fun x hx => hu x (by simp [hx])) op h

theorem updDef_le : ∀ ud ∈ updDef, ud.1 ≤ 255 := by
  intro ud hud
  obtain ⟨i, hi, rfl⟩ := List.mem_map.mp hud
  have := upd_le i (List.mem_range.mp hi)
  simpa using this

theorem headerOps_valid (h : EncHeader) (wf : HdrWF h) : ∀ op ∈ headerOps h, op.Valid := by
  intro op hop
  unfold headerOps at hop
  simp only [List.mem_append] at hop
  rcases hop with ((((((hop | hop) | hop) | hop) | hop) | hop) | hop) | hop
  · simp only [List.mem_cons, List.mem_nil_iff, or_false] at hop
    rcases hop with rfl | rfl <;> trivial
  · -- segment header
    unfold segHdrOps at hop
    simp only [List.mem_cons] at hop
    rcases hop with rfl | hop
    · trivial
    · split at hop
      · simp only [List.mem_append, ops4] at hop
        rcases hop with ((hop | hop) | hop) | hop
        · simp only [List.mem_cons, List.mem_nil_iff, or_false] at hop
          rcases hop with rfl | rfl | rfl <;> trivial
        · rcases hop with ((hop | hop) | hop) | hop <;>
            exact optMag_valid (by norm_num) (by norm_num) (wf.seg.q _) op hop
        · rcases hop with ((hop | hop) | hop) | hop <;>
            exact optMag_valid (by norm_num) (by norm_num) (wf.seg.f _) op hop
        · split at hop
          · obtain ⟨i, _, hop⟩ := List.mem_flatMap.mp hop
            split at hop
            · simp only [List.mem_cons, List.mem_nil_iff, or_false] at hop
              rcases hop with rfl | rfl
              · trivial
              · exact byte_bits_valid _
            · simp only [List.mem_cons, List.mem_nil_iff, or_false] at hop
              subst hop; trivial
          · simp at hop
      · simp at hop
  · -- filter header
    unfold filterHdrOps at hop
    simp only [List.mem_append] at hop
    rcases hop with hop | hop
    · simp only [List.mem_cons, List.mem_nil_iff, or_false] at hop
      rcases hop with rfl | rfl | rfl | rfl
      · trivial
      · exact ⟨by norm_num, by norm_num, wf.filt.level⟩
      · exact ⟨by norm_num, by norm_num, wf.filt.sharp⟩
      · trivial
    · split at hop
      · simp only [List.mem_cons] at hop
        rcases hop with rfl | hop
        · trivial
        · split at hop
          · simp only [List.mem_append, ops4] at hop
            rcases hop with hop | hop
            · rcases hop with ((hop | hop) | hop) | hop <;>
                exact optMag_valid (by norm_num) (by norm_num) (wf.filt.r _) op hop
            · rcases hop with ((hop | hop) | hop) | hop <;>
                exact optMag_valid (by norm_num) (by norm_num) (wf.filt.m _) op hop
          · simp at hop
      · simp at hop
  · simp only [List.mem_cons, List.mem_nil_iff, or_false] at hop
    subst hop
    refine ⟨by norm_num, by norm_num, ?_⟩
    unfold log2Parts; split_ifs <;> norm_num
  · unfold quantOps at hop
    simp only [List.mem_cons, List.mem_nil_iff, or_false] at hop
    rcases hop with rfl | rfl | rfl | rfl | rfl | rfl
    · exact ⟨by norm_num, by norm_num, wf.base⟩
    · exact ⟨by norm_num, wf.d1⟩
    · exact ⟨by norm_num, wf.d2⟩
    · exact ⟨by norm_num, wf.d3⟩
    · exact ⟨by norm_num, wf.d4⟩
    · exact ⟨by norm_num, wf.d5⟩
  · simp only [List.mem_cons, List.mem_nil_iff, or_false] at hop
    subst hop; trivial
  · exact probaOps_valid _ _ updDef_le op hop
  · unfold skipOps at hop
    split at hop
    · simp only [List.mem_cons, List.mem_nil_iff, or_false] at hop
      rcases hop with rfl | rfl
      · trivial
      · exact byte_bits_valid _
    · simp only [List.mem_cons, List.mem_nil_iff, or_false] at hop
      subst hop; trivial

/-- **the bytes of partition 0**: the header *calls* followed by the mode decisions give the same
    bytes as the header's *decisions* followed by the mode decisions -/
theorem part0_bytes (prob : Slot → UInt8) (hp : FixedOK prob) (h : EncHeader) (wf : HdrWF h) (s : Stream) :
    emitPartitionBytes prob (headerOps h) s = emitPartitionBytes prob [] (headerStream h ++ s) := by
  have hv1 : ∀ op ∈ headerOps h ++ toOps prob s, op.Valid := by
    intro op hop
    rcases List.mem_append.mp hop with h1 | h1
    · exact headerOps_valid h wf op h1
    · exact toOps_valid prob s op h1
  have hv2 : ∀ op ∈ [] ++ toOps prob (headerStream h ++ s), op.Valid := by
    intro op hop
    exact toOps_valid prob _ op (by simpa using hop)
  unfold emitPartitionBytes
  rw [writeAll_eq hv1 winv_init (by norm_num : (0 : Nat) ≤ 8), writeAll_eq hv2 winv_init (by norm_num : (0 : Nat) ≤ 8)]
  congr 2
  rw [List.flatMap_append, List.nil_append, toOps_symbols, toOps_symbols, symsOf_append]
  unfold headerStream
  rw [symsOf_opsStream prob hp (headerOps_valid h wf)]

/-- **`parseHeaders` on the reader of the written partition 0** returns the header state, and leaves
    a reader that reproduces the mode decisions without ever raising `eof` -/
theorem header_on_reader (prob : Slot → UInt8) (hp : FixedOK prob) (h : EncHeader) (wf : HdrWF h) (prev : DecHeader)
    (s : Stream) :
    let r := newReader (emitPartitionBytes prob (headerOps h) s)
    runR fixedProb (T.parseHeader prev) r = some (decHdr h prev, after prob r (headerStream h)) ∧
    Repro prob (after prob r (headerStream h)) s ∧
    (after prob (after prob r (headerStream h)) s).eof = false := by
  intro r
  have hr : r = newReader (emitPartitionBytes prob [] (headerStream h ++ s)) := by
    show newReader _ = _; rw [part0_bytes prob hp h wf s]
  obtain ⟨_, hrep, heof⟩ := partition_repro prob [] (by simp) (headerStream h ++ s)
  have hro : (readOpsSt (newReader (emitPartitionBytes prob [] (headerStream h ++ s))) []).2 = r := by rw [hr]; rfl
  rw [hro] at hrep heof
  obtain ⟨h1, h2⟩ := (repro_append prob r _ _).mp hrep
  rw [after_append] at heof
  refine ⟨?_, h2, heof⟩
  obtain ⟨pre, hpre, hrun⟩ := transfer fixedProb _ _ _ _ (runS_header h prev wf s)
  have : pre = headerStream h := (List.append_cancel_right hpre).symm
  subst this
  have hfix := opsStream_fixed (headerOps h)
  have hprobs : probs fixedProb (headerStream h) = probs prob (headerStream h) :=
    probs_fixed_congr _ _ fixedOK_fixedProb hp _ hfix
  have hrepf : Repro fixedProb r (headerStream h) := by
    unfold Repro; rw [hprobs]; exact h1
  rw [hrun r hrepf]
  unfold after
  rw [hprobs]

/-- the decoder resolves every slot to the byte the encoder used -/
theorem decHdr_prob (h : EncHeader) (prev : DecHeader) : (decHdr h prev).prob = h.prob := by
  funext sl
  unfold DecHeader.prob EncHeader.prob decHdr decSeg
  cases sl with
  | coef t n ctx i => rfl
  | fixed p => rfl
  | bmode a b c => rfl
  | seg i =>
    unfold probOfTables
    cases h.seg.useSegment <;> cases h.seg.updateMap <;> simp
  | skip =>
    unfold probOfTables
    cases h.useSkip <;> simp

theorem decHdr_updateMap (h : EncHeader) (prev : DecHeader) :
    (decHdr h prev).seg.updateMap = (h.seg.useSegment && h.seg.updateMap) := by
  unfold decHdr decSeg
  cases h.seg.useSegment <;> simp

/-- **the whole frame**: if the stream-level decoder accepts the stream-level frame, the byte-level
    decoder — header included — returns the same picture from the written partitions, the header
    state `decHdr`, and no reader has raised `eof` -/
theorem full_of_decode (K : Kernels) (e : EncFull) (wf : HdrWF e.hdr) (prev : DecHeader) (col0 : ColData) (fr : Frame)
    (hskip : e.hdr.useSkip = (emitFrame e.f e.hdr.numParts e.updateMap).useSkip)
    (hq : decQuantMatrix (decHdr e.hdr prev).qidx = decQuantMatrix (encHeader e.f.quant))
    (h : decodeFrameUnfiltered K (emitFrame e.f e.hdr.numParts e.updateMap) col0 = some fr) :
    decodeFrameFull K (emitFrameFull e) prev col0 = some (fr, decHdr e.hdr prev, false) := by
  unfold decodeFrameUnfiltered at h
  simp only [Option.map_eq_some_iff] at h
  obtain ⟨parsed, hparse, hfr⟩ := h
  have hp : FixedOK e.hdr.prob := fixedOK_tables _ _ _ _ _
  obtain ⟨hhdr, hrep0, heof0⟩ := header_on_reader e.hdr.prob hp e.hdr wf prev
    (emitFrame e.f e.hdr.numParts e.updateMap).streams.part0
  have hparts : ∀ p, Repro e.hdr.prob (newReader (emitPartitionBytes e.hdr.prob []
        ((emitFrame e.f e.hdr.numParts e.updateMap).streams.parts p)))
        ((emitFrame e.f e.hdr.numParts e.updateMap).streams.parts p) ∧
      (after e.hdr.prob (newReader (emitPartitionBytes e.hdr.prob []
        ((emitFrame e.f e.hdr.numParts e.updateMap).streams.parts p)))
        ((emitFrame e.f e.hdr.numParts e.updateMap).streams.parts p)).eof = false := by
    intro p
    obtain ⟨_, a, b⟩ := partition_repro e.hdr.prob [] (by simp) ((emitFrame e.f e.hdr.numParts e.updateMap).streams.parts p)
    exact ⟨a, b⟩
  obtain ⟨r0', rp', hrun, ⟨pre0, ⟨t0, ht0⟩, hr0⟩, hps⟩ :=
    parseMBs_sim e.hdr.prob K _ _ _ _ _ col0 _ parsed hparse _ _ hrep0 (fun p => (hparts p).1)
  have he0 : r0'.eof = false := by
    rw [hr0]; apply after_eof_mono e.hdr.prob _ pre0 t0; rw [ht0]; exact heof0
  have hep : ∀ p, (rp' p).eof = false := by
    intro p
    obtain ⟨pre, ⟨t, ht⟩, hr⟩ := hps p
    rw [hr]; apply after_eof_mono e.hdr.prob _ pre t; rw [ht]; exact (hparts p).2
  have hnp : e.hdr.numParts - 1 + 1 = e.hdr.numParts := by
    rcases wf.parts with h1 | h1 | h1 | h1 <;> rw [h1]
  unfold decodeFrameFull emitFrameFull
  simp only
  rw [hhdr]
  simp only [Option.bind_some]
  rw [decHdr_prob, hq]
  have hfs : ({ mbW := mbCount (emitFrame e.f e.hdr.numParts e.updateMap).w
                numParts := (decHdr e.hdr prev).numPartsMinusOne + 1
                updateMap := (decHdr e.hdr prev).seg.updateMap
                useSkip := (decHdr e.hdr prev).useSkipProba } : FrameSyntax) =
      { mbW := mbCount (emitFrame e.f e.hdr.numParts e.updateMap).w
        numParts := (emitFrame e.f e.hdr.numParts e.updateMap).numParts
        updateMap := (emitFrame e.f e.hdr.numParts e.updateMap).updateMap
        useSkip := (emitFrame e.f e.hdr.numParts e.updateMap).useSkip } := by
    rw [decHdr_updateMap]
    show ({ mbW := _, numParts := e.hdr.numParts - 1 + 1, updateMap := e.updateMap, useSkip := e.hdr.useSkip } : FrameSyntax) = _
    rw [hnp, hskip]; rfl
  rw [hfs, show decQuantMatrix (encHeader e.f.quant) = decQuantMatrix (emitFrame e.f e.hdr.numParts e.updateMap).qidx from rfl]
  erw [hrun]
  simp only [Option.map_some, Option.some.injEq, Prod.mk.injEq]
  refine ⟨hfr, trivial, ?_⟩
  rw [he0, Bool.false_or, List.any_eq_false]
  intro p _
  simp [hep p]

end Webp.Proofs.VP8HeaderBytesP
