import Webp.Proofs.ImportAll
/-
  C19: the std-lib constructors (`image.NewNRGBA`, `(*NRGBA).SubImage`) produce images that
  satisfy `Valid`, and a sub-image shows the parent's pixels.
-/
namespace Webp.Proofs.Import
open Webp.Go Webp.Impl.Import

/-- what holds of every non-empty `*image.NRGBA` the std-lib builds (no size limit) -/
structure StdInv (p : Img) : Prop where
  wpos : 0 < p.rect.dx
  hpos : 0 < p.rect.dy
  stride_ge : p.stride ≥ p.rect.dx * 4
  size_ge : (p.pix.size : Int) ≥ (p.rect.dy - 1) * p.stride + p.rect.dx * 4
  size_lt : p.pix.size < 2 ^ 63

theorem _root_.Webp.Impl.Import.Valid.stdInv {img : Img} (v : Valid img) : StdInv img :=
  ⟨v.wpos, v.hpos, v.stride_ge, v.size_ge, v.size_lt⟩

theorem extract_get? {α : Type} (pix : Array α) (a k : Nat) : (pix.extract a pix.size)[k]? = pix[a + k]? := by
  rw [Array.getElem?_extract]
  split
  · rfl
  · rename_i h
    have : pix.size ≤ a + k := by omega
    rw [Array.getElem?_eq_none this]

theorem subImage_spec (p : Img) (hp : StdInv p) (r : Rect)
    (hin : p.rect.minX ≤ r.minX ∧ r.maxX ≤ p.rect.maxX ∧ p.rect.minY ≤ r.minY ∧ r.maxY ≤ p.rect.maxY)
    (hne : r.minX < r.maxX ∧ r.minY < r.maxY) (hmax : r.dx ≤ maxDimension ∧ r.dy ≤ maxDimension) :
    ∃ q, p.subImage r = .ok q ∧ Valid q ∧ q.rect = r ∧ q.stride = p.stride ∧
      ∀ x y, r.contains x y = true → q.view x y = p.view x y := by
  obtain ⟨hx0, hx1, hy0, hy1⟩ := hin
  obtain ⟨hnx, hny⟩ := hne
  have hs := hp.stride_ge
  have hz := hp.size_ge
  have hwp := hp.wpos
  unfold Rect.dx at hs hz hwp
  unfold Rect.dy at hz
  have hs0 : 0 ≤ p.stride := by omega
  -- the intersection is `r` itself
  have hint : r.intersect p.rect = r := by
    unfold Rect.intersect
    simp only [Int.not_lt.mpr hx0, Int.not_lt.mpr hy0, if_false, gt_iff_lt, Int.not_lt.mpr hx1,
      Int.not_lt.mpr hy1]
    have : r.empty = false := by
      simp only [Rect.empty, Bool.or_eq_false_iff, decide_eq_false_iff_not]
      omega
    rw [this]; simp
  have hemp : r.empty = false := by
    simp only [Rect.empty, Bool.or_eq_false_iff, decide_eq_false_iff_not]
    omega
  -- nonlinear facts
  have hA : 0 ≤ (r.minY - p.rect.minY) * p.stride := Int.mul_nonneg (by omega) hs0
  have hAB : (r.minY - p.rect.minY) * p.stride + (r.maxY - r.minY - 1) * p.stride
      = (r.maxY - 1 - p.rect.minY) * p.stride := by
    rw [← Int.add_mul]; congr 1; omega
  have hCD : (r.maxY - 1 - p.rect.minY) * p.stride ≤ (p.rect.maxY - p.rect.minY - 1) * p.stride :=
    Int.mul_le_mul_of_nonneg_right (by omega) hs0
  have hB : 0 ≤ (r.maxY - r.minY - 1) * p.stride := Int.mul_nonneg (by omega) hs0
  have hi0 : 0 ≤ p.pixOffset r.minX r.minY := by unfold Img.pixOffset; omega
  have hi1 : p.pixOffset r.minX r.minY ≤ p.pix.size := by unfold Img.pixOffset; omega
  refine ⟨{ pix := p.pix.extract (p.pixOffset r.minX r.minY).toNat p.pix.size, stride := p.stride, rect := r },
    ?_, ?_, rfl, rfl, ?_⟩
  · unfold Img.subImage
    simp only [hint, hemp, Bool.false_eq_true, if_false]
    rw [if_pos ⟨hi0, hi1⟩]
  · have hsz : ((p.pix.extract (p.pixOffset r.minX r.minY).toNat p.pix.size).size : Int)
        = p.pix.size - p.pixOffset r.minX r.minY := by
      simp only [Array.size_extract]; omega
    refine ⟨by simp only [Rect.dx]; omega, by simp only [Rect.dy]; omega, hmax.1, hmax.2,
      by simp only [Rect.dx]; omega, ?_, ?_⟩
    · simp only [Rect.dx, Rect.dy]
      rw [hsz]; unfold Img.pixOffset; omega
    · have := hp.size_lt
      simp only [Array.size_extract]; omega
  · intro x y hc
    simp only [Rect.contains, Bool.and_eq_true, decide_eq_true_eq] at hc
    obtain ⟨⟨⟨c1, c2⟩, c3⟩, c4⟩ := hc
    have hcp : p.rect.contains x y = true := by
      simp only [Rect.contains, Bool.and_eq_true, decide_eq_true_eq]; omega
    have hcr : r.contains x y = true := by
      simp only [Rect.contains, Bool.and_eq_true, decide_eq_true_eq]; omega
    unfold Img.view
    simp only [hcp, hcr, if_true]
    have hj0 : 0 ≤ (y - r.minY) * p.stride := Int.mul_nonneg (by omega) hs0
    have hsplit : p.pixOffset x y = p.pixOffset r.minX r.minY + ((y - r.minY) * p.stride + (x - r.minX) * 4) := by
      unfold Img.pixOffset
      have : (y - p.rect.minY) * p.stride = (r.minY - p.rect.minY) * p.stride + (y - r.minY) * p.stride := by
        rw [← Int.add_mul]; congr 1; omega
      omega
    have hbyte : ∀ c : Int, 0 ≤ c →
        Img.byte { pix := p.pix.extract (p.pixOffset r.minX r.minY).toNat p.pix.size, stride := p.stride, rect := r }
          ((y - r.minY) * p.stride + (x - r.minX) * 4 + c) = p.byte (p.pixOffset x y + c) := by
      intro c hc0
      unfold Img.byte
      simp only [Array.getD_eq_getD_getElem?, extract_get?]
      congr 2
      rw [hsplit]; omega
    simp only [Img.pixOffset] at hbyte ⊢
    have b0 := hbyte 0 (by omega)
    simp only [Int.add_zero] at b0
    rw [b0, hbyte 1 (by omega), hbyte 2 (by omega), hbyte 3 (by omega)]

end Webp.Proofs.Import
