import Webp.Proofs.AnimEncStep
/-
  The whole run of the animation encoder: every prefix of the inputs leaves the encoder in a
  state whose emitted frames play back — after removing consecutive duplicates on both sides —
  as the inputs, picture by picture, with the display time of every picture preserved when the
  input durations lie in `[0, 2^24 − 1]`.
-/
namespace Webp.Proofs.AnimEncRun
open Webp.Spec.Anim Webp.Impl Webp.Impl.AnimEnc Webp.Impl.AnimDec Webp.Proofs.AnimDecLoops
open Webp.Proofs.AnimDecPlay Webp.Proofs.AnimEncRect
open Webp.Proofs.AnimEncBlend Webp.Proofs.AnimEncPlay Webp.Proofs.AnimEncCodec Webp.Proofs.AnimEncStep

/-! ### lists -/

theorem snoc_cases {α : Type} (l : List α) : l = [] ∨ ∃ ys a, l = ys ++ [a] := by
  rcases hl : l.getLast? with _ | a
  · left; simpa using hl
  · right
    obtain ⟨ys, h⟩ := List.getLast?_eq_some_iff.mp hl
    exact ⟨ys, a, h⟩

theorem snoc_inj {α : Type} {a b : List α} {x y : α} (h : a ++ [x] = b ++ [y]) : a = b ∧ x = y := by
  have := List.append_inj' h rfl
  simpa using this

theorem dedup_snoc {α : Type} (e : α → α → Bool) (l : List α) (x : α) :
    dedup e (l ++ [x]) = dedupPush e (dedup e l) x := by
  unfold dedup; rw [List.foldl_append]; rfl

theorem dedupDur_snoc (e : Canvas → Canvas → Bool) (l : List (Canvas × Int)) (x : Canvas × Int) :
    dedupDur e (l ++ [x]) = dedupDurPush e (dedupDur e l) x := by
  unfold dedupDur; rw [List.foldl_append]; rfl

theorem dedupDurPush_nil (e : Canvas → Canvas → Bool) (x : Canvas × Int) : dedupDurPush e [] x = [x] := rfl

theorem dedupDurPush_snoc (e : Canvas → Canvas → Bool) (pre : List (Canvas × Int)) (a : Canvas) (s : Int)
    (x : Canvas × Int) :
    dedupDurPush e (pre ++ [(a, s)]) x =
      if e a x.1 then pre ++ [(a, s + x.2)] else pre ++ [(a, s)] ++ [x] := by
  unfold dedupDurPush
  rw [List.getLast?_concat]
  simp only [List.dropLast_concat]

theorem dedupPush_nil {α : Type} (e : α → α → Bool) (x : α) : dedupPush e [] x = [x] := rfl

theorem dedupPush_snoc {α : Type} (e : α → α → Bool) (pre : List α) (a x : α) :
    dedupPush e (pre ++ [a]) x = if e a x then pre ++ [a] else pre ++ [a] ++ [x] := by
  unfold dedupPush
  rw [List.getLast?_concat]

/-- removing duplicates with display times, then forgetting the times, is removing duplicates -/
theorem dedupDur_fst (e : Canvas → Canvas → Bool) (l : List (Canvas × Int)) :
    (dedupDur e l).map Prod.fst = dedup e (l.map Prod.fst) := by
  have gen : ∀ (l : List (Canvas × Int)) (acc : List (Canvas × Int)),
      (l.foldl (dedupDurPush e) acc).map Prod.fst =
        (l.map Prod.fst).foldl (dedupPush e) (acc.map Prod.fst) := by
    intro l
    induction l with
    | nil => intro acc; rfl
    | cons x xs ih =>
      intro acc
      simp only [List.foldl_cons, List.map_cons]
      rw [ih]
      congr 1
      rcases snoc_cases acc with h | ⟨ys, a, h⟩
      · subst h; rfl
      · subst h
        obtain ⟨a1, a2⟩ := a
        rw [dedupDurPush_snoc]
        simp only [List.map_append, List.map_cons, List.map_nil]
        rw [dedupPush_snoc]
        split <;> simp
  exact gen l []

/-- the last kept picture of `dedupDur (l ++ [(p, y)])` does not depend on `y`, its time is an
    offset plus `y`, and it is `e`-equal to `p` -/
theorem dedupDur_shape (e : Canvas → Canvas → Bool) (hrefl : ∀ a, e a a = true)
    (l : List (Canvas × Int)) (p : Canvas) :
    ∃ pre a s, (∀ y, dedupDur e (l ++ [(p, y)]) = pre ++ [(a, s + y)]) ∧ e a p = true := by
  rcases snoc_cases (dedupDur e l) with h | ⟨ys, ⟨a0, s0⟩, h⟩
  · refine ⟨[], p, 0, fun y => ?_, hrefl p⟩
    rw [dedupDur_snoc, h, dedupDurPush_nil]
    simp
  · by_cases he : e a0 p = true
    · refine ⟨ys, a0, s0, fun y => ?_, he⟩
      rw [dedupDur_snoc, h, dedupDurPush_snoc, if_pos he]
    · refine ⟨ys ++ [(a0, s0)], p, 0, fun y => ?_, hrefl p⟩
      rw [dedupDur_snoc, h, dedupDurPush_snoc, if_neg he]
      simp

theorem listRel_snoc {α : Type} (e : α → α → Bool) (as bs : List α) (a b : α)
    (h : listRel e as bs = true) (hab : e a b = true) : listRel e (as ++ [a]) (bs ++ [b]) = true := by
  induction as generalizing bs with
  | nil =>
    cases bs with
    | nil => simp [listRel, hab]
    | cons y ys => simp [listRel] at h
  | cons x xs ih =>
    cases bs with
    | nil => simp [listRel] at h
    | cons y ys =>
      simp only [listRel, Bool.and_eq_true] at h
      simp only [List.cons_append, listRel, Bool.and_eq_true]
      exact ⟨h.1, ih ys h.2⟩

theorem listRel_length {α : Type} (e : α → α → Bool) (as bs : List α)
    (h : listRel e as bs = true) : as.length = bs.length := by
  induction as generalizing bs with
  | nil =>
    cases bs with
    | nil => rfl
    | cons y ys => simp [listRel] at h
  | cons x xs ih =>
    cases bs with
    | nil => simp [listRel] at h
    | cons y ys =>
      simp only [listRel, Bool.and_eq_true] at h
      simp only [List.length_cons]
      rw [ih ys h.2]

/-! ### comparing canvases -/

section canvases
variable {r ok : Px → Px → Bool} (hR : PxRel r ok) (n : Nat)

theorem ce_iff (r : Px → Px → Bool) (n : Nat) (a b : Canvas) :
    canvasRel r n a b = true ↔ ∀ i, i < n → r (a.px i) (b.px i) = true := by
  unfold canvasRel
  simp only [List.all_eq_true, List.mem_range]

include hR in
theorem ce_refl (a : Canvas) : canvasRel r n a a = true :=
  (ce_iff r n a a).mpr fun _ _ => hR.refl _

include hR in
theorem ce_symm {a b : Canvas} (h : canvasRel r n a b = true) : canvasRel r n b a = true :=
  (ce_iff r n b a).mpr fun i hi => hR.symm ((ce_iff r n a b).mp h i hi)

include hR in
theorem ce_trans {a b c : Canvas} (h1 : canvasRel r n a b = true) (h2 : canvasRel r n b c = true) :
    canvasRel r n a c = true :=
  (ce_iff r n a c).mpr fun i hi => hR.trans ((ce_iff r n a b).mp h1 i hi) ((ce_iff r n b c).mp h2 i hi)

include hR in
/-- equivalent pictures are compared alike with equivalent pictures -/
theorem ce_congr {a b a' b' : Canvas} (h1 : canvasRel r n a b = true) (h2 : canvasRel r n a' b' = true) :
    canvasRel r n a a' = canvasRel r n b b' := by
  by_cases h : canvasRel r n a a' = true
  · rw [h, ce_trans hR n (ce_trans hR n (ce_symm hR n h1) h) h2]
  · have h' : canvasRel r n b b' ≠ true := by
      intro hb
      exact h (ce_trans hR n (ce_trans hR n h1 hb) (ce_symm hR n h2))
    have e1 : canvasRel r n a a' = false := by simpa using h
    have e2 : canvasRel r n b b' = false := by simpa using h'
    rw [e1, e2]

end canvases

/-! ### played pictures with their durations -/

/-- the played-back pictures of the emitted frames, each with the duration the muxer holds -/
def PLd (cfg : Config) (c : Codec) (fs : List EFrame) : List (Canvas × Int) :=
  (PL cfg c fs).zip (durs fs)

theorem PL_length (cfg : Config) (c : Codec) (fs : List EFrame) : (PL cfg c fs).length = fs.length := by
  unfold PL play playWith PF
  rw [playFrom_length, List.length_map]

theorem durs_length (fs : List EFrame) : (durs fs).length = fs.length := by
  unfold durs; rw [List.length_map]

theorem PLd_snoc (cfg : Config) (c : Codec) (init : List EFrame) (l : EFrame) :
    PLd cfg c (init ++ [l]) = PLd cfg c init ++ [((E cfg c (init ++ [l])).1, l.dur)] := by
  unfold PLd
  rw [PL_snoc]
  have : durs (init ++ [l]) = durs init ++ [l.dur] := by simp [durs]
  rw [this, List.zip_append (by rw [PL_length, durs_length])]
  rfl

theorem PLd_fst (cfg : Config) (c : Codec) (fs : List EFrame) :
    (PLd cfg c fs).map Prod.fst = PL cfg c fs := by
  unfold PLd
  exact List.map_fst_zip (by rw [PL_length, durs_length]; exact Nat.le_refl _)

theorem PLd_of (cfg : Config) (c : Codec) (fs : List EFrame) (pl : List Canvas) (ds : List Int)
    (h1 : PL cfg c fs = pl) (h2 : durs fs = ds) : PLd cfg c fs = pl.zip ds := by
  unfold PLd; rw [h1, h2]

/-! ### the run invariant -/

/-- input durations the container can represent frame by frame -/
def Dom (ins : List (Canvas × Int)) : Prop := ∀ x, x ∈ ins → 0 ≤ x.2 ∧ x.2 ≤ maxDuration

theorem dom_of_append {a b : List (Canvas × Int)} (h : Dom (a ++ b)) : Dom a ∧ Dom b :=
  ⟨fun x hx => h x (List.mem_append.mpr (Or.inl hx)), fun x hx => h x (List.mem_append.mpr (Or.inr hx))⟩

theorem clampDuration_range (d : Int) : 0 ≤ clampDuration d ∧ clampDuration d ≤ maxDuration := by
  unfold clampDuration maxDuration
  split
  · omega
  · split <;> omega

theorem clampDuration_id {d : Int} (h0 : 0 ≤ d) (h1 : d ≤ maxDuration) : clampDuration d = d := by
  unfold clampDuration
  rw [if_neg (by omega), if_neg (by omega)]

/-- **the run invariant**: `ins` are the (placed) inputs added so far -/
structure RunInv (r : Px → Px → Bool) (cfg : Config) (c : Codec) (st : EncState)
    (ins : List (Canvas × Int)) : Prop where
  inv : Inv r cfg c st
  /-- the previous canvas is the last input, byte for byte -/
  last : ∃ insI dl, ins = insI ++ [(st.prevCanvas, dl)]
  /-- every stored duration is in range -/
  dursOK : ∀ x, x ∈ durs st.frames → 0 ≤ x ∧ x ≤ maxDuration
  /-- after removing consecutive duplicates both sides show the same pictures; with all input
      durations in range, for the same times -/
  dec : ∃ preP preI a b sP sI,
    dedupDur (canvasRel r (cfg.w * cfg.h)) (PLd cfg c st.frames) = preP ++ [(a, sP)] ∧
    dedupDur (canvasRel r (cfg.w * cfg.h)) ins = preI ++ [(b, sI)] ∧
    listRel (canvasRel r (cfg.w * cfg.h)) (preP.map Prod.fst) (preI.map Prod.fst) = true ∧
    canvasRel r (cfg.w * cfg.h) a (E cfg c st.frames).1 = true ∧
    canvasRel r (cfg.w * cfg.h) b st.prevCanvas = true ∧
    (Dom ins → preP.map Prod.snd = preI.map Prod.snd ∧ sP = sI)

/-- appending a picture on both sides, equivalent to each other, with the same display time -/
theorem dec_push {r ok : Px → Px → Bool} (hR : PxRel r ok) (n : Nat)
    (preP preI : List (Canvas × Int)) (a b : Canvas) (sP sI : Int) (lastP lastI : Canvas)
    (hl : listRel (canvasRel r n) (preP.map Prod.fst) (preI.map Prod.fst) = true)
    (ha : canvasRel r n a lastP = true) (hb : canvasRel r n b lastI = true)
    (hlast : canvasRel r n lastP lastI = true)
    (c' curr : Canvas) (dP dI : Int) (hc : canvasRel r n c' curr = true) :
    ∃ preP' preI' a' b' sP' sI',
      dedupDurPush (canvasRel r n) (preP ++ [(a, sP)]) (c', dP) = preP' ++ [(a', sP')] ∧
      dedupDurPush (canvasRel r n) (preI ++ [(b, sI)]) (curr, dI) = preI' ++ [(b', sI')] ∧
      listRel (canvasRel r n) (preP'.map Prod.fst) (preI'.map Prod.fst) = true ∧
      canvasRel r n a' c' = true ∧ canvasRel r n b' curr = true ∧
      ((preP.map Prod.snd = preI.map Prod.snd ∧ sP = sI) → dP = dI →
        preP'.map Prod.snd = preI'.map Prod.snd ∧ sP' = sI') := by
  have hab : canvasRel r n a b = true :=
    ce_trans hR n (ce_trans hR n ha hlast) (ce_symm hR n hb)
  have hcond : canvasRel r n a c' = canvasRel r n b curr := ce_congr hR n hab hc
  rw [dedupDurPush_snoc, dedupDurPush_snoc]
  simp only []
  by_cases h : canvasRel r n a c' = true
  · rw [if_pos h, if_pos (by rw [← hcond]; exact h)]
    refine ⟨preP, preI, a, b, sP + dP, sI + dI, rfl, rfl, hl, h, by rw [← hcond]; exact h, ?_⟩
    rintro ⟨h1, h2⟩ h3
    exact ⟨h1, by rw [h2, h3]⟩
  · rw [if_neg h, if_neg (by rw [← hcond]; exact h)]
    refine ⟨preP ++ [(a, sP)], preI ++ [(b, sI)], c', curr, dP, dI, rfl, rfl, ?_,
      ce_refl hR n c', ce_refl hR n curr, ?_⟩
    · simp only [List.map_append, List.map_cons, List.map_nil]
      exact listRel_snoc _ _ _ _ _ hl hab
    · rintro ⟨h1, h2⟩ h3
      simp only [List.map_append, List.map_cons, List.map_nil]
      exact ⟨by rw [h1, h2], h3⟩

/-- **one step of the run** -/
theorem step_runinv {r ok : Px → Px → Bool} (hR : PxRel r ok) (cfg : Config) (c : Codec)
    (hv : Config.Valid cfg) (hbok : BlendOK cfg ok) (hdec : DecodesAll r cfg c) (st : EncState)
    (ins : List (Canvas × Int))
    (hst : (Fresh st ∧ ins = []) ∨ RunInv r cfg c st ins)
    (curr : Canvas) (hcs : curr.size = cfg.w * cfg.h) (d : Int) (o : StepOracle) :
    RunInv r cfg c (AnimEnc.step cfg st curr d o).1 (ins ++ [(curr, d)]) := by
  have hstep := step_inv hR cfg c hv hbok hdec st
    (by rcases hst with h | h
        · exact Or.inl h.1
        · exact Or.inr h.inv) curr hcs d o
  obtain ⟨hinv', hprev', hshape⟩ := hstep
  generalize AnimEnc.step cfg st curr d o = res at hinv' hprev' hshape
  obtain ⟨st', ops⟩ := res
  simp only at hinv' hprev' hshape ⊢
  have hlast' : ∃ insI dl, ins ++ [(curr, d)] = insI ++ [(st'.prevCanvas, dl)] :=
    ⟨ins, d, by rw [hprev']⟩
  have hcr := clampDuration_range d
  rcases hst with ⟨hfresh, hins⟩ | hrun
  · -- the very first frame
    subst hins
    have hfr0 : st.frames = [] := hfresh.2
    cases hshape with
    | added hnew hplay hdur =>
      rw [hfr0] at hplay hdur
      have hpl : PL cfg c st'.frames = [(E cfg c st'.frames).1] := by
        rw [hplay]; rfl
      have hdu : durs st'.frames = [clampDuration d] := by rw [hdur]; rfl
      have hPLd : PLd cfg c st'.frames = [((E cfg c st'.frames).1, clampDuration d)] := by
        rw [PLd_of cfg c _ _ _ hpl hdu]; rfl
      refine ⟨hinv', hlast', ?_, ?_⟩
      · intro x hx; rw [hdu] at hx; simp only [List.mem_singleton] at hx; subst hx; exact hcr
      · refine ⟨[], [], (E cfg c st'.frames).1, curr, clampDuration d, d, ?_, ?_, rfl,
          ce_refl hR _ _, by rw [hprev']; exact ce_refl hR _ _, ?_⟩
        · rw [hPLd]; rfl
        · rfl
        · intro hdom
          have := hdom (curr, d) (by simp)
          exact ⟨rfl, clampDuration_id this.1 this.2⟩
    | merged hsame hplay hdur =>
      obtain ⟨ds, last, h1, _, _⟩ := hdur
      rw [hfr0] at h1
      simp [durs] at h1
    | filler hsame hplay hcan hdur =>
      obtain ⟨ds, last, h1, _, _⟩ := hdur
      rw [hfr0] at h1
      simp [durs] at h1
  · -- a later frame
    obtain ⟨preP, preI, a, b, sP, sI, dP, dI, dl, da, db, dd⟩ := hrun.dec
    obtain ⟨insI, dlast, hinsl⟩ := hrun.last
    obtain ⟨init, l, hf, _, _⟩ := hrun.inv.snoc
    have hrel : canvasRel r (cfg.w * cfg.h) (E cfg c st.frames).1 st.prevCanvas = true :=
      (ce_iff r _ _ _).mpr hrun.inv.rel
    have hrel' : canvasRel r (cfg.w * cfg.h) (E cfg c st'.frames).1 curr = true := by
      have := (ce_iff r _ _ _).mpr hinv'.rel
      rw [hprev'] at this
      exact this
    -- the old played list ends with (last canvas, last duration)
    have hPLd0 : PLd cfg c st.frames = PLd cfg c init ++ [((E cfg c st.frames).1, l.dur)] := by
      rw [hf, PLd_snoc]
    have hdurs0 : durs st.frames = durs init ++ [l.dur] := by rw [hf]; simp [durs]
    have hldur : 0 ≤ l.dur ∧ l.dur ≤ maxDuration := hrun.dursOK l.dur (by rw [hdurs0]; simp)
    cases hshape with
    | added hnew hplay hdur =>
      have hPLd : PLd cfg c st'.frames =
          PLd cfg c st.frames ++ [((E cfg c st'.frames).1, clampDuration d)] := by
        rw [PLd_of cfg c _ _ _ hplay hdur]
        rw [List.zip_append (by rw [PL_length, durs_length])]
        rfl
      obtain ⟨preP', preI', a', b', sP', sI', e1, e2, e3, e4, e5, e6⟩ :=
        dec_push hR (cfg.w * cfg.h) preP preI a b sP sI _ _ dl da db hrel
          (E cfg c st'.frames).1 curr (clampDuration d) d hrel'
      refine ⟨hinv', hlast', ?_, ⟨preP', preI', a', b', sP', sI', ?_, ?_, e3, e4,
        by rw [hprev']; exact e5, ?_⟩⟩
      · intro x hx
        rw [hdur] at hx
        simp only [List.mem_append, List.mem_singleton] at hx
        rcases hx with hx | hx
        · exact hrun.dursOK x hx
        · subst hx; exact hcr
      · rw [hPLd, dedupDur_snoc, dP, e1]
      · rw [dedupDur_snoc, dI, e2]
      · intro hdom
        obtain ⟨hd1, hd2⟩ := dom_of_append hdom
        have := hd2 (curr, d) (by simp)
        exact e6 (dd hd1) (clampDuration_id this.1 this.2)
    | merged hsame hplay hdur =>
      obtain ⟨ds, last, h1, hlt, h2⟩ := hdur
      rw [hdurs0] at h1
      obtain ⟨hds, hlasteq⟩ := snoc_inj h1
      subst hds; subst hlasteq
      have hPLd : PLd cfg c st'.frames =
          PLd cfg c init ++ [((E cfg c st.frames).1, clampDuration (wrap (l.dur + d)))] := by
        rw [PLd_of cfg c _ _ _ hplay h2, hf, PL_snoc]
        rw [List.zip_append (by rw [PL_length, durs_length])]
        rfl
      obtain ⟨pre, a0, s0, hall, hea⟩ := dedupDur_shape (canvasRel r (cfg.w * cfg.h)) (ce_refl hR _)
        (PLd cfg c init) (E cfg c st.frames).1
      have hold := hall l.dur
      rw [← hPLd0, dP] at hold
      obtain ⟨hpre, hpair⟩ := snoc_inj hold
      have ha0 : a = a0 := (Prod.mk.injEq _ _ _ _ ▸ hpair).1
      have hs0 : sP = s0 + l.dur := (Prod.mk.injEq _ _ _ _ ▸ hpair).2
      have hbcurr : canvasRel r (cfg.w * cfg.h) b curr = true := by rw [← hsame]; exact db
      refine ⟨hinv', hlast', ?_, ⟨preP, preI, a, b, s0 + clampDuration (wrap (l.dur + d)), sI + d,
        ?_, ?_, dl, ?_, by rw [hprev']; exact hbcurr, ?_⟩⟩
      · intro x hx
        rw [h2] at hx
        simp only [List.mem_append, List.mem_singleton] at hx
        rcases hx with hx | hx
        · exact hrun.dursOK x (by rw [hdurs0]; simp [hx])
        · subst hx; exact clampDuration_range _
      · rw [hPLd, hall, hpre, ha0]
      · rw [dedupDur_snoc, dI, dedupDurPush_snoc, if_pos hbcurr]
      · -- the canvas did not change
        have : (E cfg c st'.frames).1 = (E cfg c st.frames).1 := by
          have hne' : PF cfg c st'.frames ≠ [] := by
            obtain ⟨i2, l2, hf2, _, _⟩ := hinv'.snoc
            rw [hf2]; simp [PF]
          have h1 := playFrom_getLast blend cfg.w cfg.h (transparent cfg.w cfg.h) none
            (PF cfg c st'.frames) hne'
          have h2' := playFrom_getLast blend cfg.w cfg.h (transparent cfg.w cfg.h) none
            (PF cfg c st.frames) (by rw [hf]; simp [PF])
          have hpl : playFrom blend cfg.w cfg.h (transparent cfg.w cfg.h) none (PF cfg c st'.frames) =
              playFrom blend cfg.w cfg.h (transparent cfg.w cfg.h) none (PF cfg c st.frames) := hplay
          rw [hpl, h2'] at h1
          exact (Option.some.inj h1).symm
        rw [this]; exact da
      · intro hdom
        obtain ⟨hd1, hd2⟩ := dom_of_append hdom
        have hdd := hd2 (curr, d) (by simp)
        obtain ⟨q1, q2⟩ := dd hd1
        refine ⟨q1, ?_⟩
        have hw : wrap (l.dur + d) = l.dur + d := by
          unfold wrap; unfold maxDuration at hldur hdd; simp only at hdd; omega
        have hc : clampDuration (l.dur + d) = l.dur + d := by
          rw [hw] at hlt
          exact clampDuration_id (by simp only at hdd; omega) (by omega)
        rw [hw, hc, ← q2, hs0]
        omega
    | filler hsame hplay hcan hdur =>
      obtain ⟨ds, last, h1, hge, h2⟩ := hdur
      rw [hdurs0] at h1
      obtain ⟨hds, hlasteq⟩ := snoc_inj h1
      subst hds; subst hlasteq
      have hPLd : PLd cfg c st'.frames =
          PLd cfg c init ++ [((E cfg c st.frames).1, clampDuration maxDuration)] ++
            [((E cfg c st.frames).1, clampDuration (wrap (wrap (l.dur + d) - maxDuration)))] := by
        have h2' : durs st'.frames = durs init ++ [clampDuration maxDuration] ++
            [clampDuration (wrap (wrap (l.dur + d) - maxDuration))] := by rw [h2]; simp
        rw [PLd_of cfg c _ _ _ hplay h2', hf, PL_snoc]
        rw [List.zip_append (by simp [PL_length, durs_length])]
        rw [List.zip_append (by rw [PL_length, durs_length])]
        rfl
      obtain ⟨pre, a0, s0, hall, hea⟩ := dedupDur_shape (canvasRel r (cfg.w * cfg.h)) (ce_refl hR _)
        (PLd cfg c init) (E cfg c st.frames).1
      have hold := hall l.dur
      rw [← hPLd0, dP] at hold
      obtain ⟨hpre, hpair⟩ := snoc_inj hold
      have ha0 : a = a0 := (Prod.mk.injEq _ _ _ _ ▸ hpair).1
      have hs0 : sP = s0 + l.dur := (Prod.mk.injEq _ _ _ _ ▸ hpair).2
      have hbcurr : canvasRel r (cfg.w * cfg.h) b curr = true := by rw [← hsame]; exact db
      refine ⟨hinv', hlast', ?_, ⟨preP, preI, a,
        b, s0 + clampDuration maxDuration + clampDuration (wrap (wrap (l.dur + d) - maxDuration)),
        sI + d, ?_, ?_, dl, by rw [hcan]; exact da, by rw [hprev']; exact hbcurr, ?_⟩⟩
      · intro x hx
        rw [h2] at hx
        simp only [List.mem_append, List.mem_cons, List.mem_nil_iff, or_false] at hx
        rcases hx with hx | hx | hx
        · exact hrun.dursOK x (by rw [hdurs0]; simp [hx])
        · subst hx; exact clampDuration_range _
        · subst hx; exact clampDuration_range _
      · rw [hPLd, dedupDur_snoc, hall, dedupDurPush_snoc, if_pos hea, hpre, ha0]
      · rw [dedupDur_snoc, dI, dedupDurPush_snoc, if_pos hbcurr]
      · intro hdom
        obtain ⟨hd1, hd2⟩ := dom_of_append hdom
        have hdd := hd2 (curr, d) (by simp)
        obtain ⟨q1, q2⟩ := dd hd1
        refine ⟨q1, ?_⟩
        have hw : wrap (l.dur + d) = l.dur + d := by
          unfold wrap; unfold maxDuration at hldur hdd; simp only at hdd; omega
        rw [hw] at hge ⊢
        have hw2 : wrap (l.dur + d - maxDuration) = l.dur + d - maxDuration := by
          unfold wrap; unfold maxDuration at hldur hdd hge ⊢; simp only at hdd; omega
        have hc1 : clampDuration maxDuration = maxDuration :=
          clampDuration_id (by unfold maxDuration; omega) (Int.le_refl _)
        have hc2 : clampDuration (l.dur + d - maxDuration) = l.dur + d - maxDuration := by
          apply clampDuration_id
          · omega
          · simp only at hdd; omega
        rw [hw2, hc1, hc2, ← q2, hs0]
        omega

/-! ### the whole run -/

/-- the inputs as `addOptimizedFrame` sees them: placed on the canvas, with their durations -/
def placed (cfg : Config) (inputs : List (SubImage × Int)) : List (Canvas × Int) :=
  inputs.map fun x => (placeOnCanvas cfg.w cfg.h x.1, x.2)

/-- typing of the input pictures: `w*h` pixels -/
def WF (inputs : List (SubImage × Int)) : Prop := ∀ x, x ∈ inputs → x.1.px.size = x.1.w * x.1.h

theorem placeOnCanvas_size (w h : Nat) (img : SubImage) (hwf : img.px.size = img.w * img.h) :
    (placeOnCanvas w h img).size = w * h := by
  unfold placeOnCanvas
  split
  · rename_i hc; rw [hwf, hc.1, hc.2]
  · simp

theorem runFrom_inv {r ok : Px → Px → Bool} (hR : PxRel r ok) (cfg : Config) (c : Codec)
    (hv : Config.Valid cfg) (hbok : BlendOK cfg ok) (hdec : DecodesAll r cfg c)
    (oracle : Nat → StepOracle) (inputs : List (SubImage × Int)) (hwf : WF inputs)
    (i : Nat) (st : EncState) (acc : List (Canvas × Int))
    (hst : (Fresh st ∧ acc = [] ∧ inputs ≠ []) ∨ RunInv r cfg c st acc) :
    RunInv r cfg c (runFrom cfg oracle i st inputs) (acc ++ placed cfg inputs) := by
  induction inputs generalizing i st acc with
  | nil =>
    rcases hst with ⟨_, _, h⟩ | h
    · exact absurd rfl h
    · simpa [placed, runFrom] using h
  | cons x rest ih =>
    obtain ⟨img, d⟩ := x
    have hs := step_runinv hR cfg c hv hbok hdec st acc
      (by rcases hst with ⟨h1, h2, _⟩ | h
          · exact Or.inl ⟨h1, h2⟩
          · exact Or.inr h)
      (placeOnCanvas cfg.w cfg.h img)
      (placeOnCanvas_size _ _ _ (hwf (img, d) (by simp))) d (oracle i)
    have := ih (fun y hy => hwf y (by simp [hy])) (i + 1)
      (addFrame cfg st img d (oracle i)).1 (acc ++ [(placeOnCanvas cfg.w cfg.h img, d)]) (Or.inr hs)
    simpa [placed, runFrom, List.append_assoc] using this

theorem run_inv {r ok : Px → Px → Bool} (hR : PxRel r ok) (cfg : Config) (c : Codec)
    (hv : Config.Valid cfg) (hbok : BlendOK cfg ok) (hdec : DecodesAll r cfg c)
    (oracle : Nat → StepOracle) (inputs : List (SubImage × Int)) (hwf : WF inputs)
    (hne : inputs ≠ []) :
    RunInv r cfg c (run cfg oracle inputs) (placed cfg inputs) := by
  have := runFrom_inv hR cfg c hv hbok hdec oracle inputs hwf 0 EncState.init []
    (Or.inl ⟨⟨rfl, rfl⟩, rfl, hne⟩)
  simpa [run] using this

/-! ### Close -/

theorem blend_over_zero (s : Px) : blend s Px.zero = if s.a = 0 then Px.zero else s := by
  unfold blend
  by_cases h0 : s.a = 0
  · simp [h0]
  · by_cases h255 : s.a = 255
    · simp [h255]
    · simp [h0, h255, Px.zero]

/-- the plain still image of the single-frame shortcut plays back as the previous canvas -/
theorem still_rel {r ok : Px → Px → Bool} (hR : PxRel r ok) (cfg : Config) (c : Codec)
    (hv : Config.Valid cfg) (hdec : DecodesAll r cfg c) (T : Canvas) :
    ∀ i, i < cfg.w * cfg.h → r ((E cfg c [stillFrame cfg T]).1.px i) (T.px i) = true := by
  intro i hi
  have hE : E cfg c [stillFrame cfg T] = E cfg c ([] ++ [stillFrame cfg T]) := rfl
  rw [hE, E_snoc]
  obtain ⟨p1, p2, p3, p4, p5, _, p7⟩ := played_facts cfg c hdec (stillFrame cfg T)
    (by have := hv.wpos; have := hv.wmax; have := hv.hpos; have := hv.hmax
        show Bounded ⟨cfg.w, cfg.h, T⟩
        unfold Bounded; simp only []; omega)
    (by intro h; cases h)
  have hx := mod_lt_of_lt hi
  have hy := div_lt_of_lt hi
  have hk0 : (0 : Int) ≤ ((i / cfg.w : Nat) : Int) := Int.natCast_nonneg _
  have hm0 : (0 : Int) ≤ ((i % cfg.w : Nat) : Int) := Int.natCast_nonneg _
  have hbase : (disposePrev cfg.w cfg.h (E cfg c []).2 (E cfg c []).1) = transparent cfg.w cfg.h := rfl
  rw [hbase, px_eq_getD, draw_get blend cfg.w cfg.h _ _ i hi]
  have hcov : ((stillFrame cfg T).played cfg c).covers (i % cfg.w) (i / cfg.w) = true := by
    have hw' : (stillFrame cfg T).img.w = cfg.w := rfl
    have hh' : (stillFrame cfg T).img.h = cfg.h := rfl
    have ho1 : (stillFrame cfg T).offX = 0 := rfl
    have ho2 : (stillFrame cfg T).offY = 0 := rfl
    unfold Frame.covers
    rw [p1, p2, p3, p4, hw', hh', ho1, ho2]
    simp only [Bool.and_eq_true, decide_eq_true_eq]
    omega
  rw [if_pos hcov]
  simp only []
  rw [p5]
  simp only [stillFrame, Bool.false_eq_true, if_false]
  rw [transparent_get, blend_over_zero]
  have hidx : (i / cfg.w) * cfg.w + i % cfg.w = i := idx_eq
  have hat : ((stillFrame cfg T).played cfg c).at
      (((i % cfg.w : Nat) : Int) - ((stillFrame cfg T).played cfg c).offX).toNat
      (((i / cfg.w : Nat) : Int) - ((stillFrame cfg T).played cfg c).offY).toNat =
        ((stillFrame cfg T).played cfg c).px.getD i Px.zero := by
    unfold Frame.at
    rw [p1, p2, p3]
    simp only [stillFrame, Int.sub_zero, Int.toNat_natCast]
    rw [hidx]
  have hat' := hat
  simp only [stillFrame] at hat'
  rw [hat']
  have hk := p7 i (by simp only [stillFrame]; exact hi)
  have himg : (stillFrame cfg T).img.at i = T.px i := rfl
  rw [himg] at hk
  simp only [stillFrame] at hk
  split
  · rename_i h0; exact hR.zero hk h0
  · exact hk

theorem play_sizes (w h : Nat) (fs : List Frame) : ∀ cv, cv ∈ play w h fs → cv.size = w * h := by
  unfold play playWith
  generalize transparent w h = c0
  generalize (none : Option Frame) = prev
  induction fs generalizing c0 prev with
  | nil => intro cv hcv; simp [playFrom] at hcv
  | cons f rest ih =>
    intro cv hcv
    simp only [playFrom, List.mem_cons] at hcv
    rcases hcv with h | h
    · rw [h]; exact draw_size _ _ _ _ _
    · exact ih _ _ cv h

/-- sum of the display times is not changed by merging duplicates -/
theorem dedupDur_sum (e : Canvas → Canvas → Bool) (l : List (Canvas × Int)) :
    ((dedupDur e l).map Prod.snd).sum = (l.map Prod.snd).sum := by
  have gen : ∀ (l acc : List (Canvas × Int)),
      ((l.foldl (dedupDurPush e) acc).map Prod.snd).sum = (acc.map Prod.snd).sum + (l.map Prod.snd).sum := by
    intro l
    induction l with
    | nil => intro acc; simp
    | cons x xs ih =>
      intro acc
      simp only [List.foldl_cons, List.map_cons, List.sum_cons]
      rw [ih]
      have : ((dedupDurPush e acc x).map Prod.snd).sum = (acc.map Prod.snd).sum + x.2 := by
        rcases snoc_cases acc with h | ⟨ys, ⟨a1, a2⟩, h⟩
        · subst h; simp [dedupDurPush_nil]
        · subst h
          rw [dedupDurPush_snoc]
          split <;> simp [List.sum_append] <;> omega
      rw [this]; omega
  have := gen l []
  simpa [dedupDur] using this

/-- **what `Close` writes**, for either kind of picture comparison -/
theorem close_spec {r ok : Px → Px → Bool} (hR : PxRel r ok) (cfg : Config) (c : Codec)
    (hv : Config.Valid cfg) (hbok : BlendOK cfg ok) (hdec : DecodesAll r cfg c)
    (oracle : Nat → StepOracle) (still : Bool) (inputs : List (SubImage × Int)) (hwf : WF inputs)
    (out : Output) (hout : encodeAll cfg oracle still inputs = some out) :
    -- canvas size
    out.w = cfg.w ∧ out.h = cfg.h ∧ (∀ cv, cv ∈ playback cfg c out → cv.size = cfg.w * cfg.h) ∧
    -- the same pictures in the same order, consecutive duplicates merged
    listRel (canvasRel r (cfg.w * cfg.h))
      (dedup (canvasRel r (cfg.w * cfg.h)) (playback cfg c out))
      (dedup (canvasRel r (cfg.w * cfg.h)) ((placed cfg inputs).map Prod.fst)) = true ∧
    -- a still image only for a single picture
    (out.still = true → (dedup (canvasRel r (cfg.w * cfg.h)) ((placed cfg inputs).map Prod.fst)).length = 1) ∧
    -- timing and loop count of an animation
    (out.still = false →
      out.loop = cfg.loop ∧
      (Dom (placed cfg inputs) →
        (dedupDur (canvasRel r (cfg.w * cfg.h)) ((playback cfg c out).zip (out.frames.map (·.dur)))).map Prod.snd =
          (dedupDur (canvasRel r (cfg.w * cfg.h)) (placed cfg inputs)).map Prod.snd)) := by
  unfold encodeAll at hout
  simp only [] at hout
  split at hout
  · cases hout
  rename_i hlen
  have hne : inputs ≠ [] := by
    intro h
    subst h
    apply hlen
    left
    rfl
  have hrun := run_inv hR cfg c hv hbok hdec oracle inputs hwf hne
  simp only [Option.some.injEq] at hout
  generalize run cfg oracle inputs = st at hrun hout hlen
  obtain ⟨preP, preI, a, b, sP, sI, dP, dI, dl, da, db, dd⟩ := hrun.dec
  have hrel : canvasRel r (cfg.w * cfg.h) (E cfg c st.frames).1 st.prevCanvas = true :=
    (ce_iff r _ _ _).mpr hrun.inv.rel
  have hab : canvasRel r (cfg.w * cfg.h) a b = true :=
    ce_trans hR _ (ce_trans hR _ da hrel) (ce_symm hR _ db)
  have hinsdd : dedup (canvasRel r (cfg.w * cfg.h)) ((placed cfg inputs).map Prod.fst) =
      preI.map Prod.fst ++ [b] := by
    rw [← dedupDur_fst, dI]; simp
  unfold close at hout
  by_cases hs : st.frameCount = 1 ∧ still = true
  · -- the single-frame still shortcut
    rw [if_pos hs] at hout
    subst hout
    obtain ⟨init, l, hf, _, _⟩ := hrun.inv.snoc
    have hlen1 : init = [] := by
      have := hrun.inv.fc
      rw [hs.1, hf] at this
      simp only [List.length_append, List.length_cons, List.length_nil] at this
      have : init.length = 0 := by omega
      exact List.eq_nil_of_length_eq_zero this
    subst hlen1
    have hPLd : PLd cfg c st.frames = [((E cfg c st.frames).1, l.dur)] := by
      rw [hf]; exact PLd_snoc cfg c [] l
    have hsingle : preP ++ [(a, sP)] = [] ++ [((E cfg c st.frames).1, l.dur)] := by
      rw [← dP, hPLd]; rfl
    obtain ⟨hp, _⟩ := snoc_inj hsingle
    subst hp
    have hpreI : preI = [] := by
      have := listRel_length _ _ _ dl
      simp only [List.map_nil, List.length_nil, List.length_map] at this
      exact List.eq_nil_of_length_eq_zero this.symm
    subst hpreI
    have hplay : playback cfg c
        { w := cfg.w, h := cfg.h, loop := 0, still := true, frames := [stillFrame cfg st.prevCanvas] } =
        [(E cfg c [stillFrame cfg st.prevCanvas]).1] := PL_snoc cfg c [] (stillFrame cfg st.prevCanvas)
    refine ⟨rfl, rfl, ?_, ?_, ?_, ?_⟩
    · intro cv hcv; exact play_sizes _ _ _ cv hcv
    · rw [hplay, hinsdd]
      have hsr := (ce_iff r _ _ _).mpr (still_rel hR cfg c hv hdec st.prevCanvas)
      have : canvasRel r (cfg.w * cfg.h) (E cfg c [stillFrame cfg st.prevCanvas]).1 b = true :=
        ce_trans hR _ hsr (ce_symm hR _ db)
      simp [dedup, dedupPush, listRel, this]
    · intro _; rw [hinsdd]; rfl
    · intro h; cases h
  · rw [if_neg hs] at hout
    subst hout
    have hpb : playback cfg c { w := cfg.w, h := cfg.h, loop := cfg.loop, still := false, frames := st.frames } =
        PL cfg c st.frames := rfl
    refine ⟨rfl, rfl, ?_, ?_, ?_, ?_⟩
    · intro cv hcv; exact play_sizes _ _ _ cv hcv
    · rw [hpb, hinsdd, ← PLd_fst, ← dedupDur_fst, dP]
      simp only [List.map_append, List.map_cons, List.map_nil]
      exact listRel_snoc _ _ _ _ _ dl hab
    · intro h; cases h
    · intro _
      refine ⟨rfl, fun hdom => ?_⟩
      obtain ⟨q1, q2⟩ := dd hdom
      show (dedupDur _ (PLd cfg c st.frames)).map Prod.snd = _
      rw [dP, dI]
      simp only [List.map_append, List.map_cons, List.map_nil]
      rw [q1, q2]


end Webp.Proofs.AnimEncRun
