import Webp.Proofs.ImportLossyUV
/-
  C19: the bundle of all imports; closed forms depend on the picture only; std-lib constructors
  produce valid images.
-/
namespace Webp.Proofs.Import
open Webp.Go Webp.Impl.Import

/-! ### all fast paths / all generic paths = closed form -/

section
variable {Y UV σ : Type} (cv : Conv Y UV σ)

theorem importAll_eq [Inhabited Y] (nwY nwUV : Nat) (hY : 0 < nwY) (hUV : 0 < nwUV) (haFlag : Bool) (rg : σ)
    (img : Img) (v : Valid img) (b : Bufs Y UV) (hb : b.Sized img.w img.h) :
    importAll cv nwY nwUV haFlag rg img b = .ok (importedOf cv haFlag rg img.rel img.w img.h) := by
  unfold importAll encodeLosslessNRGBA encodeLosslessToWriterNRGBA
  rw [losslessDirect_spec id img v _ hb.argbBuffered, losslessDirect_spec id img v _ hb.argbStreaming,
    hasAlphaFast_spec img v, lossyHasAlphaFast_spec img v, extractAlphaFast_spec img v _ hb.alpha,
    cleanupCopyNRGBA_spec img v _ hb.cleanup, sharpRGBFast_spec img v _ hb.sharp,
    yDirectPar_spec cv nwY hY img v _ hb.yPlain,
    uvDirectPar_spec cv nwUV hUV haFlag img v _ hb.rows0 hb.rows1 _ hb.uvPlain,
    yDirectSer_spec cv img v _ rg hb.yDither]
  simp only [Res.bind_ok]
  rw [uvSerial_spec_dither cv (extractRowDirect img) img.rel img.w img.h img.bounds (Valid.bdy_eq v)
    (fun srcY buf hbuf => extractRowDirect_spec img v srcY buf hbuf) haFlag _ hb.rows0 hb.rows1 _ _ hb.uvDither]
  rfl

theorem genericAll_eq (haFlag : Bool) (rg : σ) (atFn : Int → Int → R RGBA8) (bounds : Rect)
    (w h : Nat) (f : Nat → Nat → RGBA8) (hat : Shows atFn bounds w h f) (hw : 0 < w) (hh : 0 < h)
    (b : Bufs Y UV) (hb : b.Sized w h) :
    genericAll cv haFlag rg atFn bounds b = .ok (importedOf cv haFlag rg f w h) := by
  have hex : ExtractsRows (extractRowGeneric atFn bounds) f w h (pad16 (w : Int)) :=
    fun srcY buf hbuf => extractRowGeneric_spec atFn bounds w h f hat hw hh srcY buf hbuf
  unfold genericAll lossyHasAlphaGeneric
  rw [losslessGeneric_spec atFn bounds w h f hat _ hb.argbBuffered,
    losslessGeneric_spec atFn bounds w h f hat _ hb.argbStreaming,
    hasAlphaGeneric_spec atFn bounds w h f hat, extractAlphaGeneric_spec atFn bounds w h f hat _ hb.alpha,
    cleanupCopyGeneric_spec atFn bounds w h f hat _ hb.cleanup,
    sharpRGBGeneric_spec atFn bounds w h f hat _ hb.sharp,
    yGeneric_spec_plain cv atFn bounds w h f hat hw hh _ hb.yPlain,
    yGeneric_spec_dither cv atFn bounds w h f hat hw hh _ rg hb.yDither,
    uvSerial_spec_plain cv _ f w h bounds hat.2.1 hex haFlag _ hb.rows0 hb.rows1 _ hb.uvPlain]
  simp only [Res.bind_ok]
  rw [uvSerial_spec_dither cv _ f w h bounds hat.2.1 hex haFlag _ hb.rows0 hb.rows1 _ _ hb.uvDither]
  rfl

end

/-! ### the closed forms read the picture only -/

/-- two colour functions agree on the `w×h` picture -/
def AgreeOn (w h : Nat) (f g : Nat → Nat → RGBA8) : Prop := ∀ x y, x < w → y < h → f x y = g x y

theorem rowmajor_inv (w h i : Nat) (hi : i < w * h) : i % w < w ∧ i / w < h := by
  have hw : 0 < w := by
    rcases Nat.eq_zero_or_pos w with h0 | h0
    · subst h0; simp at hi
    · exact h0
  exact ⟨Nat.mod_lt _ hw, Nat.div_lt_of_lt_mul hi⟩

theorem ofFn_congr {α : Type} {n : Nat} (F G : Fin n → α) (h : ∀ i, F i = G i) : Array.ofFn F = Array.ofFn G := by
  have : F = G := funext h
  rw [this]

theorem argbOf_congr {w h : Nat} {f g : Nat → Nat → RGBA8} (hfg : AgreeOn w h f g) : argbOf f w h = argbOf g w h := by
  unfold argbOf
  apply ofFn_congr; intro i
  obtain ⟨h1, h2⟩ := rowmajor_inv w h i.val i.isLt
  rw [hfg _ _ h1 h2]

theorem alphaOf_congr {w h : Nat} {f g : Nat → Nat → RGBA8} (hfg : AgreeOn w h f g) : alphaOf f w h = alphaOf g w h := by
  unfold alphaOf
  apply ofFn_congr; intro i
  obtain ⟨h1, h2⟩ := rowmajor_inv w h i.val i.isLt
  rw [hfg _ _ h1 h2]

theorem bytesOf_congr {w h : Nat} {f g : Nat → Nat → RGBA8} (hfg : AgreeOn w h f g) : bytesOf f w h = bytesOf g w h := by
  unfold bytesOf
  apply ofFn_congr; intro i
  obtain ⟨h1, h2⟩ := rowmajor_inv w h (i.val / 4) (by have := i.isLt; omega)
  simp only [hfg _ _ h1 h2]

theorem rgbOf_congr {w h : Nat} {f g : Nat → Nat → RGBA8} (hfg : AgreeOn w h f g) : rgbOf f w h = rgbOf g w h := by
  unfold rgbOf
  apply ofFn_congr; intro i
  obtain ⟨h1, h2⟩ := rowmajor_inv w h (i.val / 3) (by have := i.isLt; omega)
  simp only [hfg _ _ h1 h2]

theorem anyAlpha_congr {w h : Nat} {f g : Nat → Nat → RGBA8} (hfg : AgreeOn w h f g) : anyAlpha f w h = anyAlpha g w h := by
  unfold anyAlpha
  rw [Bool.eq_iff_iff]
  simp only [List.any_eq_true, List.mem_range]
  constructor
  · rintro ⟨y, hy, x, hx, hne⟩; exact ⟨y, hy, x, hx, by rw [← hfg x y hx hy]; exact hne⟩
  · rintro ⟨y, hy, x, hx, hne⟩; exact ⟨y, hy, x, hx, by rw [hfg x y hx hy]; exact hne⟩

theorem clamped_agree {w h : Nat} {f g : Nat → Nat → RGBA8} (hfg : AgreeOn w h f g) (hw : 0 < w) (hh : 0 < h)
    (x y : Nat) : f (min x (w - 1)) (min y (h - 1)) = g (min x (w - 1)) (min y (h - 1)) :=
  hfg _ _ (min_lt x w hw) (min_lt y h hh)

theorem rowOf_congr {w h : Nat} {f g : Nat → Nat → RGBA8} (hfg : AgreeOn w h f g) (hw : 0 < w) (hh : 0 < h)
    (PW srcY : Nat) : rowOf f w h PW srcY = rowOf g w h PW srcY := by
  unfold rowOf
  apply ofFn_congr; intro x
  exact clamped_agree hfg hw hh _ _

theorem planarOf_congr {w h : Nat} {f g : Nat → Nat → RGBA8} (hfg : AgreeOn w h f g) (hw : 0 < w) (hh : 0 < h)
    (PW : Nat) (ha : Bool) (y : Nat) : planarOf f w h PW ha y = planarOf g w h PW ha y := by
  unfold planarOf
  rw [rowOf_congr hfg hw hh, rowOf_congr hfg hw hh]

section
variable {Y UV σ : Type} (cv : Conv Y UV σ)

theorem yOf_congr {w h : Nat} {f g : Nat → Nat → RGBA8} (hfg : AgreeOn w h f g) (hw : 0 < w) (hh : 0 < h)
    (PW PH : Nat) : yOf cv f w h PW PH = yOf cv g w h PW PH := by
  unfold yOf
  apply ofFn_congr; intro i
  simp only [clamped_agree hfg hw hh]

theorem yOfDither_congr {w h : Nat} {f g : Nat → Nat → RGBA8} (hfg : AgreeOn w h f g) (hw : 0 < w) (hh : 0 < h)
    (PW PH : Nat) (rg : σ) : yOfDither cv f w h PW PH rg = yOfDither cv g w h PW PH rg := by
  unfold yOfDither
  apply ofFn_congr; intro i
  simp only [clamped_agree hfg hw hh]

theorem uvOf_congr {w h : Nat} {f g : Nat → Nat → RGBA8} (hfg : AgreeOn w h f g) (hw : 0 < w) (hh : 0 < h)
    (PW H : Nat) (ha : Bool) : uvOf cv f w h PW H ha = uvOf cv g w h PW H ha := by
  unfold uvOf
  apply ofFn_congr; intro y
  rw [planarOf_congr hfg hw hh]

theorem uvStateAt_congr {w h : Nat} {f g : Nat → Nat → RGBA8} (hfg : AgreeOn w h f g) (hw : 0 < w) (hh : 0 < h)
    (PW : Nat) (ha : Bool) (rg : σ) (y : Nat) :
    uvStateAt cv f w h PW ha rg y = uvStateAt cv g w h PW ha rg y := by
  induction y with
  | zero => rfl
  | succ y ih => simp only [uvStateAt, ih, planarOf_congr hfg hw hh]

theorem uvOfDither_congr {w h : Nat} {f g : Nat → Nat → RGBA8} (hfg : AgreeOn w h f g) (hw : 0 < w) (hh : 0 < h)
    (PW H : Nat) (ha : Bool) (rg : σ) : uvOfDither cv f w h PW H ha rg = uvOfDither cv g w h PW H ha rg := by
  unfold uvOfDither
  apply ofFn_congr; intro y
  rw [planarOf_congr hfg hw hh, uvStateAt_congr cv hfg hw hh]

theorem importedOf_congr {w h : Nat} {f g : Nat → Nat → RGBA8} (hfg : AgreeOn w h f g) (hw : 0 < w) (hh : 0 < h)
    (ha : Bool) (rg : σ) : importedOf cv ha rg f w h = importedOf cv ha rg g w h := by
  unfold importedOf
  simp only [argbOf_congr hfg, anyAlpha_congr hfg, alphaOf_congr hfg, bytesOf_congr hfg, rgbOf_congr hfg,
    yOf_congr cv hfg hw hh, yOfDither_congr cv hfg hw hh, uvOf_congr cv hfg hw hh,
    uvOfDither_congr cv hfg hw hh, uvStateAt_congr cv hfg hw hh]

end

/-! ### bytes outside the picture -/

/-- `k` is one of the `4·w·h` bytes of `Pix` that belong to a pixel of the picture -/
def InPicture (img : Img) (k : Nat) : Prop :=
  ∃ x y c : Nat, x < img.w ∧ y < img.h ∧ c < 4 ∧ (k : Int) = (y : Int) * img.stride + (x : Int) * 4 + (c : Int)

theorem rel_of_pix_agree (img : Img) (v : Valid img) (pix' : Array UInt8)
    (hag : ∀ k, InPicture img k → pix'[k]? = img.pix[k]?) :
    AgreeOn img.w img.h ({ img with pix := pix' } : Img).rel img.rel := by
  intro x y hx hy
  obtain ⟨b0, b1⟩ := v.off_bounds hx hy
  have hb : ∀ c : Nat, c < 4 →
      ({ img with pix := pix' } : Img).byte ((y : Int) * img.stride + (x : Int) * 4 + (c : Int))
        = img.byte ((y : Int) * img.stride + (x : Int) * 4 + (c : Int)) := by
    intro c hc
    unfold Img.byte
    have hk : InPicture img ((y : Int) * img.stride + (x : Int) * 4 + (c : Int)).toNat :=
      ⟨x, y, c, hx, hy, hc, by omega⟩
    simp only [Array.getD_eq_getD_getElem?, hag _ hk]
  have h0 := hb 0 (by omega)
  have h1 := hb 1 (by omega)
  have h2 := hb 2 (by omega)
  have h3 := hb 3 (by omega)
  simp only [Int.natCast_zero, Int.add_zero] at h0
  have hc : img.rect.contains (img.rect.minX + (x : Int)) (img.rect.minY + (y : Int)) = true := by
    have hdx := v.dx_eq
    have hdy := v.dy_eq
    unfold Rect.dx at hdx
    unfold Rect.dy at hdy
    simp only [Rect.contains, Bool.and_eq_true, decide_eq_true_eq]
    omega
  have e1 : img.rect.minY + (y : Int) - img.rect.minY = y := by omega
  have e2 : img.rect.minX + (x : Int) - img.rect.minX = x := by omega
  unfold Img.rel Img.view
  simp only [hc, if_true, Img.pixOffset, e1, e2]
  rw [h0]
  rw [show ((1 : Nat) : Int) = 1 from rfl] at h1
  rw [show ((2 : Nat) : Int) = 2 from rfl] at h2
  rw [show ((3 : Nat) : Int) = 3 from rfl] at h3
  rw [h1, h2, h3]

/-! ### the std-lib constructors produce valid images -/

theorem ofPixels_valid (w h : Nat) (bytes : Array UInt8) (hw : 0 < w) (hh : 0 < h)
    (hwm : w ≤ 16383) (hhm : h ≤ 16383) (hs : bytes.size = 4 * w * h) : Valid (Img.ofPixels w h bytes) := by
  have hmul : (4 * w * h : Nat) = 4 * w * (h - 1) + 4 * w := by
    obtain ⟨k, rfl⟩ : ∃ k, h = k + 1 := ⟨h - 1, by omega⟩
    simp only [Nat.add_sub_cancel, Nat.mul_add, Nat.mul_one]
  have hlt : 4 * w * h < 2 ^ 63 := by
    have : 4 * w * h ≤ 4 * 16383 * 16383 :=
      Nat.mul_le_mul (Nat.mul_le_mul_left 4 hwm) hhm
    omega
  refine ⟨?_, ?_, ?_, ?_, ?_, ?_, ?_⟩ <;> simp only [Img.ofPixels, Rect.dx, Rect.dy, maxDimension]
  · omega
  · omega
  · omega
  · omega
  · omega
  · rw [hs, hmul]
    have : ((h : Int) - 0 - 1) = ((h - 1 : Nat) : Int) := by omega
    rw [this]
    push_cast
    have e : (4 : Int) * (w : Int) * ((h - 1 : Nat) : Int) = ((h - 1 : Nat) : Int) * (4 * (w : Int)) := by
      rw [Int.mul_comm]
    rw [e]
    omega
  · rw [hs]; exact hlt

end Webp.Proofs.Import
