import Webp.Proofs.VP8LWindowSteps
import Webp.Proofs.VP8LEntropyTokens
/-
  The WINDOW BUDGET of the VP8L pixel loop, part 3: one whole token read of `decodeImageData`
  (with the refills of an arbitrary `FillSites` that satisfies the budget) against the
  specification's `readToken`.
-/
namespace Webp.Proofs.VP8LWindow
open Webp.Go (Res)
open Webp.Spec.VP8L (BitReader Err Token Code Group)
open Webp.Impl.VP8LEntropy
open Webp.Impl.VP8LWindow
open Webp.Impl.VP8LFastPaths (HTreeGroup)
open Webp.Proofs.VP8LEntropyBits
open Webp.Proofs.VP8LEntropyReader

theorem goOps_eos (r : Reader) : goOps.eos r = (r.isEndOfStream, r) := rfl
theorem goOps_fill (r : Reader) : goOps.fill r = r.fillBitWindow := rfl
theorem goOps_prefetch (r : Reader) : goOps.prefetch r = (r.prefetchBits, r) := rfl
theorem goOps_advance (r : Reader) (n : Nat) : goOps.advance r n = r.advance n := rfl

/-! ## the pixel -/

theorem byte_mask {v : Nat} (hv : v < 256) : (v.toUInt32 &&& 0xff) = UInt32.ofNat v := by
  apply UInt32.toNat_inj.mp
  rw [UInt32.toNat_and, Nat.toUInt32_eq, UInt32.toNat_ofNat']
  have : (0xff : UInt32).toNat = 2 ^ 8 - 1 := by decide
  rw [this, Nat.and_two_pow_sub_one_eq_mod]
  omega

theorem argb_eq {a r g b : Nat} (ha : a < 256) (hr : r < 256) (hg : g < 256) (hb : b < 256) :
    Webp.Spec.VP8L.mkARGB a.toUInt32 r.toUInt32 g.toUInt32 b.toUInt32 =
      (UInt32.ofNat a <<< 24) ||| (UInt32.ofNat r <<< 16) ||| (UInt32.ofNat g <<< 8) ||| UInt32.ofNat b := by
  unfold Webp.Spec.VP8L.mkARGB
  rw [byte_mask ha, byte_mask hr, byte_mask hg, byte_mask hb]

/-! ## once the end of the input is passed, every path ends in `eos` -/

section doomed
variable {G : Group} {g : HTreeGroup} (hG : GroupOK G g) (fs : FillSites)
include hG

theorem readA_doomed (code rv bv : Nat) {r : Reader} (hd : Doomed r) :
    readA goOps fs g code rv bv r = .err .eos := by
  obtain ⟨v, used, h1, h2⟩ := readSym_doomed hG.alpha.ok (doomed_fillIf fs.alpha hd) "HuffAlpha"
  unfold Doomed at h2
  unfold readA
  simp only [h1, goOps_eos, h2, if_true]

theorem readBA_doomed (code rv : Nat) {r : Reader} (hd : Doomed r) :
    readBA goOps fs g code rv r = .err .eos := by
  obtain ⟨v, used, h1, h2⟩ := readSym_doomed hG.blue.ok (doomed_fillIf fs.blue hd) "HuffBlue"
  unfold readBA
  simp only [h1]
  exact readA_doomed hG fs code rv v h2

theorem readRBA_doomed (code : Nat) {r : Reader} (hd : Doomed r) :
    readRBA goOps fs g code r = .err .eos := by
  obtain ⟨v, used, h1, h2⟩ := readSym_doomed hG.red.ok (doomed_fillIf fs.red hd) "HuffRed"
  unfold readRBA
  simp only [h1]
  exact readBA_doomed hG fs code v h2

theorem readDist_doomed (xsize length : Nat) {r : Reader} (hd : Doomed r) :
    readDist goOps fs g xsize length r = .err .eos := by
  obtain ⟨v, used, h1, h2⟩ := readSym_doomed hG.dist.ok (doomed_fillIf fs.dist hd) "HuffDist"
  have h3 := readExtra_doomed h2 fs.distExtra v
  unfold Doomed at h3
  unfold readDist
  simp only [h1, goOps_eos, h3, if_true]

theorem readCopy_doomed (xsize code : Nat) {r : Reader} (hd : Doomed r) :
    readCopy goOps fs g xsize code r = .err .eos := by
  unfold readCopy
  dsimp only
  have h := readExtra_doomed hd fs.lenExtra (code - 256)
  generalize readExtra goOps fs.lenExtra (code - 256) r = x at h ⊢
  obtain ⟨len, r1⟩ := x
  exact readDist_doomed hG fs xsize len h

end doomed

theorem afterGreen_doomed (fs : FillSites) (g : HTreeGroup) (xsize code : Nat) {r : Reader} (hd : Doomed r) :
    afterGreen goOps fs g xsize code r = .err .eos := by
  unfold Doomed at hd
  unfold afterGreen
  simp only [goOps_eos, hd, if_true]


/-! ## inside the budget, every continuation agrees with the specification -/

section agree
variable {G : Group} {g : HTreeGroup} (hG : GroupOK G g) {fs : FillSites} {buf : Array UInt8}
include hG

theorem readA_agree {r : Reader} {P k : Nat} (hg : Good buf r P k) (hk : k ≤ 64) (hw : wA fs k)
    {code rv bv : Nat} (hc : code < 256) (hr : rv < 256) (hb : bv < 256) :
    Agree buf (readA goOps fs g code rv bv r) (specA G code rv bv (brAt buf P)) := by
  unfold wA at hw
  have hg1 := fillIf_good' fs.alpha hg hk
  obtain ⟨v, used, h1, hv, hcase⟩ := sym_step hG.alpha hg1 hw "HuffAlpha"
  unfold readA specA
  rcases hcase with ⟨hs, hg2⟩ | ⟨hs, hd⟩
  · have hne := hg2.not_eos hw
    simp only [h1, hs, goOps_eos, hne, Bool.false_eq_true, if_false]
    exact Or.inl ⟨_, _, _, rfl, by rw [argb_eq hv hr hc hb], hg2.mono hw⟩
  · unfold Doomed at hd
    simp only [h1, hs, goOps_eos, hd, if_true]
    exact Or.inr ⟨rfl, rfl⟩

theorem readBA_agree {r : Reader} {P k : Nat} (hg : Good buf r P k) (hk : k ≤ 64) (hw : wBA fs k)
    {code rv : Nat} (hc : code < 256) (hr : rv < 256) :
    Agree buf (readBA goOps fs g code rv r) (specBA G code rv (brAt buf P)) := by
  obtain ⟨hw1, hw2⟩ := hw
  have hg1 := fillIf_good' fs.blue hg hk
  obtain ⟨v, used, h1, hv, hcase⟩ := sym_step hG.blue hg1 hw1 "HuffBlue"
  unfold readBA specBA
  rcases hcase with ⟨hs, hg2⟩ | ⟨hs, hd⟩
  · simp only [h1, hs]
    exact readA_agree hG hg2 hw1 hw2 hc hr hv
  · simp only [h1, hs]
    exact Or.inr ⟨readA_doomed hG fs code rv v hd, rfl⟩

theorem readRBA_agree {r : Reader} {P k : Nat} (hg : Good buf r P k) (hk : k ≤ 64) (hw : wRBA fs k)
    {code : Nat} (hc : code < 256) :
    Agree buf (readRBA goOps fs g code r) (specRBA G code (brAt buf P)) := by
  obtain ⟨hw1, hw2⟩ := hw
  have hg1 := fillIf_good' fs.red hg hk
  obtain ⟨v, used, h1, hv, hcase⟩ := sym_step hG.red hg1 hw1 "HuffRed"
  unfold readRBA specRBA
  rcases hcase with ⟨hs, hg2⟩ | ⟨hs, hd⟩
  · simp only [h1, hs]
    exact readBA_agree hG hg2 hw1 hw2 hc hv
  · simp only [h1, hs]
    exact Or.inr ⟨readBA_doomed hG fs code v hd, rfl⟩

theorem readDist_agree {r : Reader} {P k : Nat} (hg : Good buf r P k) (hk : k ≤ 64) (hw : wDist fs k)
    {xsize : Nat} (hx : xsize ≤ 153391689) (length : Nat) :
    Agree buf (readDist goOps fs g xsize length r) (specDist G xsize length (brAt buf P)) := by
  obtain ⟨hw1, hw2⟩ := hw
  have hg1 := fillIf_good' fs.dist hg hk
  obtain ⟨v, used, h1, hv, hcase⟩ := sym_step hG.dist hg1 hw1 "HuffDist"
  unfold readDist specDist
  rcases hcase with ⟨hs, hg2⟩ | ⟨hs, hd⟩
  · simp only [h1, hs]
    have hex := readExtra_good hg2 hw1 fs.distExtra v 18 (by omega) (by omega) hw2
    have hpos := readExtra_pos fs.distExtra v ((fillIf goOps fs.dist r).advance used)
    generalize readExtra goOps fs.distExtra v ((fillIf goOps fs.dist r).advance used) = x at hex hpos ⊢
    obtain ⟨dc, r3⟩ := x
    rcases hex with ⟨P', he, hg3⟩ | ⟨he, hd3⟩
    · have hle : max (after fs.dist k + 15) (after fs.distExtra (after fs.dist k + 15) + 18) ≤ 64 := by
        omega
      have hne := hg3.not_eos hle
      simp only [he, goOps_eos, hne, Bool.false_eq_true, if_false]
      refine Or.inl ⟨_, _, _, rfl, ?_, hg3.mono hle⟩
      rw [Webp.Proofs.VP8LEntropyTokens.planeCodeToDistance_eq,
        ← Webp.Proofs.LTransformCodes.impl_plane_eq_spec xsize dc hpos hx]
    · unfold Doomed at hd3
      simp only [he, goOps_eos, hd3, if_true]
      exact Or.inr ⟨rfl, rfl⟩
  · simp only [h1, hs]
    have h3 := readExtra_doomed hd fs.distExtra v
    unfold Doomed at h3
    simp only [goOps_eos, h3, if_true]
    exact Or.inr ⟨rfl, rfl⟩

theorem readCopy_agree {r : Reader} {P k : Nat} (hg : Good buf r P k) (hk : k ≤ 64) (hw : wCopy fs k)
    {xsize : Nat} (hx : xsize ≤ 153391689) {code : Nat} (hc : code < 256 + 24) :
    Agree buf (readCopy goOps fs g xsize code r) (specCopy G xsize code (brAt buf P)) := by
  obtain ⟨hw1, hw2⟩ := hw
  unfold readCopy specCopy
  dsimp only
  have hex := readExtra_good hg hk fs.lenExtra (code - 256) 10 (by omega) (by omega) hw1
  generalize readExtra goOps fs.lenExtra (code - 256) r = x at hex ⊢
  obtain ⟨len, r1⟩ := x
  have e256 : Webp.Spec.VP8L.numLiteralCodes = 256 := rfl
  rw [e256]
  rcases hex with ⟨P', he, hg1⟩ | ⟨he, hd⟩
  · simp only [he]
    have hle : max k (after fs.lenExtra k + 10) ≤ 64 := by omega
    exact readDist_agree hG hg1 hle hw2 hx len
  · simp only [he]
    exact Or.inr ⟨readDist_doomed hG fs xsize len hd, rfl⟩

/-- the `IsTrivialLiteral` shortcut (`data[pos] = LiteralARB | code<<8`, no red / blue / alpha
    lookups) is what the specification reads with the codes `G` -/
def TrivLitOK (G : Group) (g : HTreeGroup) : Prop :=
  g.isTrivialLiteral = true → ∀ (buf : Array UInt8) (P code : Nat), P ≤ nbits buf → code < 256 →
    specRBA G code (brAt buf P) = .ok (.literal (g.literalARB ||| (UInt32.ofNat code <<< 8)), brAt buf P)

omit hG in
theorem trivLitOK_of_false {G : Group} {g : HTreeGroup} (h : g.isTrivialLiteral = false) : TrivLitOK G g := by
  intro h'; rw [h] at h'; cases h'

theorem afterGreen_agree {r : Reader} {P k : Nat} (hg : Good buf r P k) (hk : k ≤ 64)
    (hw1 : wRBA fs k) (hw2 : wCopy fs k) (hlit : TrivLitOK G g)
    {xsize : Nat} (hx : xsize ≤ 153391689) (code : Nat) :
    Agree buf (afterGreen goOps fs g xsize code r) (specAfterGreen G xsize code (brAt buf P)) := by
  have hne := hg.not_eos hk
  have e256 : Webp.Spec.VP8L.numLiteralCodes = 256 := rfl
  have e24 : Webp.Spec.VP8L.numLengthCodes = 24 := rfl
  unfold afterGreen specAfterGreen
  simp only [goOps_eos, hne, Bool.false_eq_true, if_false, e256, e24]
  by_cases h1 : code < 256
  · rw [if_pos h1, if_pos h1]
    by_cases ht : g.isTrivialLiteral = true
    · rw [if_pos ht, hlit ht buf P code (hg.P_le hk) h1]
      exact Or.inl ⟨_, _, _, rfl, rfl, hg.mono hk⟩
    · rw [if_neg ht]
      exact readRBA_agree hG hg hk hw1 h1
  · rw [if_neg h1, if_neg h1]
    by_cases h2 : code < 256 + 24
    · rw [if_pos h2, if_pos h2]
      exact readCopy_agree hG hg hk hw2 hx h2
    · rw [if_neg h2, if_neg h2]
      exact Or.inl ⟨_, _, _, rfl, rfl, hg.mono hk⟩

omit hG in
/-- a lookup whose raw result on the register's look-ahead is known -/
theorem raw_step {c : Code} {t : Table} {A : Nat} (hT : TabFor c t A) {r : Reader} {P k : Nat}
    (hg : Good buf r P k) (hk : k + 15 ≤ 64) {v used : Nat}
    (hraw : readSymbolRaw 8 t r.prefetchBits.toNat = .ok (some (v, used))) :
    v < A ∧ used ≤ 15 ∧
    ((Webp.Spec.VP8L.readSymbol c (brAt buf P) = .ok (v, brAt buf (P + used)) ∧
        Good buf (r.advance used) (P + used) (k + 15)) ∨
     (Webp.Spec.VP8L.readSymbol c (brAt buf P) = .err .eos ∧ Doomed (r.advance used))) := by
  obtain ⟨v', used', h1, h2, h3, h4⟩ := readSym_good hT.ok hg hk "x"
  have hP : (brAt buf P).pos ≤ 8 * (brAt buf P).data.size := hg.P_le (by omega)
  rw [hT.spec _ hP] at h4
  have e : readSym goOps "x" t r = .ok (v, r.advance used) := by
    unfold readSym
    simp only [goOps, Webp.Impl.VP8LFastPaths.huffmanTableBits, hraw]
  rw [e] at h1
  injection h1 with h1
  injection h1 with hv hr
  have hu : used = used' := by
    have := congrArg Reader.bitPos hr
    simp only [Reader.advance] at this
    omega
  subst hv
  subst hu
  exact ⟨h3, h2, h4⟩

/-- **one token read with sufficient refills = the specification's `readToken`**, with the
    `IsTrivialLiteral` shortcut (not `IsTrivialCode` / `UsePackedTable`: `VP8LWindowFast`) -/
theorem readTokenAt_agree' (hS : Sufficient fs) (f1 : g.isTrivialCode = false) (f2 : g.usePackedTable = false)
    (hlit : TrivLitOK G g) {r : Reader} {P : Nat} (hg : Good buf r P 64)
    {xsize : Nat} (hx : xsize ≤ 153391689) :
    Agree buf (readTokenAt goOps fs g xsize r) (Webp.Spec.VP8L.readToken G xsize (brAt buf P)) := by
  obtain ⟨hs0, hs1, hs2⟩ := hS
  obtain ⟨A, hgreen⟩ := hG.green
  have hg1 := fillIf_good' fs.top hg (Nat.le_refl _)
  obtain ⟨v, used, h1, hv, hcase⟩ := sym_step hgreen hg1 hs0 "HuffGreen"
  rw [readToken_eq]
  unfold readTokenAt
  simp only [f1, f2, Bool.false_eq_true, if_false]
  rcases hcase with ⟨hs, hg2⟩ | ⟨hs, hd⟩
  · simp only [h1, hs]
    exact afterGreen_agree hG hg2 hs0 hs1 hs2 hlit hx v
  · simp only [h1, hs]
    exact Or.inr ⟨afterGreen_doomed fs g xsize v hd, rfl⟩

/-- **one token read with sufficient refills = the specification's `readToken`** (general path:
    none of the three fast-path flags set) -/
theorem readTokenAt_agree (hS : Sufficient fs) (hgen : g.isTrivialCode = false ∧ g.usePackedTable = false ∧
      g.isTrivialLiteral = false) {r : Reader} {P : Nat} (hg : Good buf r P 64)
    {xsize : Nat} (hx : xsize ≤ 153391689) :
    Agree buf (readTokenAt goOps fs g xsize r) (Webp.Spec.VP8L.readToken G xsize (brAt buf P)) :=
  readTokenAt_agree' hG hS hgen.1 hgen.2.1 (trivLitOK_of_false hgen.2.2) hg hx

end agree

end Webp.Proofs.VP8LWindow
