import Webp.Proofs.BoolWriter
/-
  C2: the Go reader refines the ideal decoder on a byte string `F` whose number `beNum F` is the
  decoder's code number.

  `RInv F r d`: with `u = 8·(len F − pos)` the number of bits not yet loaded,
      r.value = d.val / 2^u          (the loaded part of the decoder's value)
      d.val % 2^u = beNum (F.drop pos)   (the rest is still the raw input)
      r.bits = d.e − u
  While the ideal decoder has exponent left (`shiftOf d p ≤ d.e`, true as long as symbols that were
  written are read), `bits < 0` implies `u > 0`: the reader never reaches the end of the data, so
  neither the zero byte with `eof` nor the `Bits = 0` path of `loadFinalBytes` is executed.
-/
namespace Webp.Proofs.BoolReader
open Webp.Go (Bytes)
open Webp.Impl.BoolCoder
open Webp.Spec.VP8.BoolIdeal
open Webp.Proofs.BoolIdeal
open Webp.Proofs.BoolWriter (beNum_append beNum_single beNum_lt pow256 beNum_nil)

/-! ### word-level helpers -/

theorem wrap32_of_lt {x : Nat} (h : x < 2 ^ 32) : wrap32 x = x := Nat.mod_eq_of_lt h
theorem wrap64_of_lt {x : Nat} (h : x < 2 ^ 64) : wrap64 x = x := Nat.mod_eq_of_lt h

theorem shrU64_of {v : Nat} {p : Int} {B : Nat} (hp : p = (B : Int)) (h64 : B < 64) :
    shrU64 v p = v / 2 ^ B := by
  unfold shrU64
  have : ¬ (p < 0 ∨ p ≥ 64) := by omega
  rw [if_neg this, hp, Int.toNat_natCast, Nat.shiftRight_eq_div_pow]

theorem shlU64_of {v : Nat} {p : Int} {B : Nat} (hp : p = (B : Int)) (h64 : B < 64)
    (hv : v * 2 ^ B < 2 ^ 64) : shlU64 v p = v * 2 ^ B := by
  unfold shlU64
  have : ¬ (p < 0 ∨ p ≥ 64) := by omega
  rw [if_neg this, hp, Int.toNat_natCast, Nat.shiftLeft_eq, wrap64_of_lt hv]

theorem subU64_of {a b : Nat} (hba : b ≤ a) (ha : a < 2 ^ 64) : subU64 a b = a - b := by
  unfold subU64 wrap64
  rw [Nat.mod_eq_of_lt (lt_of_le_of_lt hba ha)]
  have e : a + 2 ^ 64 - b = (a - b) + 2 ^ 64 := by omega
  rw [e, Nat.add_mod_right, Nat.mod_eq_of_lt (lt_of_le_of_lt (Nat.sub_le _ _) ha)]

set_option maxRecDepth 100000 in
theorem len32_shift : ∀ r, r < 256 → 1 ≤ r → 7 ^^^ (len32 r - 1) = normShift r := by decide

theorem or_eq_add {a v k : Nat} (ha : a < 2 ^ k) : a ||| v * 2 ^ k = v * 2 ^ k + a := by
  rw [Nat.or_comm, ← Nat.shiftLeft_eq, Nat.shiftLeft_add_eq_or_of_lt ha]

/-- splitting a quotient/remainder by `2^(m+u')` into one by `2^u'` -/
theorem split_load {x m u' A B : Nat} (hB : B < 2 ^ u') (h : x % 2 ^ (m + u') = A * 2 ^ u' + B) :
    x / 2 ^ u' = x / 2 ^ (m + u') * 2 ^ m + A ∧ x % 2 ^ u' = B := by
  have hx := Nat.div_add_mod x (2 ^ (m + u'))
  rw [h] at hx
  have key : B + 2 ^ u' * (x / 2 ^ (m + u') * 2 ^ m + A) = x := by
    generalize x / 2 ^ (m + u') = Q at hx ⊢
    rw [← hx, pow_add]; ring
  exact (Nat.div_mod_unique (Nat.two_pow_pos u')).mpr ⟨key, hB⟩

/-! ### the invariant -/

structure RInv (F : Bytes) (r : BoolReader) (d : Dec) : Prop where
  hdata : r.data = F
  heof : r.eof = false
  hpos : r.pos ≤ F.length
  hval : r.value = d.val / 2 ^ (8 * (F.length - r.pos))
  hmod : d.val % 2 ^ (8 * (F.length - r.pos)) = beNum (F.drop r.pos)
  hbits : r.bits + ((8 * (F.length - r.pos) : Nat) : Int) = (d.e : Int)
  hb1 : -8 ≤ r.bits
  hb2 : r.bits ≤ 55
  hr : r.range + 1 = d.range
  hd : DInv d

/-- loading `n` bytes (`n` = 7 or 1) when the window reaches below the loaded bits -/
theorem load_n (n : Nat) (hn1 : 1 ≤ n) (hn7 : n ≤ 7) {F : Bytes} {r : BoolReader} {d : Dec}
    (h : RInv F r d) (hneg : r.bits < 0) (hlen : r.pos + n ≤ F.length) :
    RInv F { r with value := beNum ((F.drop r.pos).take n) ||| wrap64 (r.value <<< (8 * n)),
                    pos := r.pos + n, bits := r.bits + ((8 * n : Nat) : Int) } d := by
  obtain ⟨hd1, hd2, hd3⟩ := h.hd
  set L := F.length with hL
  set u' := 8 * (L - (r.pos + n)) with hu'
  have hu : 8 * (L - r.pos) = 8 * n + u' := by omega
  have hbits := h.hbits
  rw [hu] at hbits
  -- the loaded part is small
  have hv128 : r.value < 128 := by
    rw [h.hval, hu]
    apply Nat.div_lt_of_lt_mul
    have he : d.e + 1 ≤ 8 * n + u' := by omega
    have h2 : 2 ^ (d.e + 1) ≤ 2 ^ (8 * n + u') := Nat.pow_le_pow_right (by norm_num) he
    have h3 : d.range * 2 ^ d.e ≤ 255 * 2 ^ d.e := Nat.mul_le_mul_right _ hd2
    rw [pow_succ] at h2
    calc d.val < 255 * 2 ^ d.e := lt_of_lt_of_le hd3 h3
      _ ≤ 2 ^ (8 * n + u') * 128 := by omega
  have hshl : wrap64 (r.value <<< (8 * n)) = r.value * 2 ^ (8 * n) := by
    rw [Nat.shiftLeft_eq]
    apply wrap64_of_lt
    have h56 : 2 ^ (8 * n) ≤ 2 ^ 56 := Nat.pow_le_pow_right (by norm_num) (by omega)
    calc r.value * 2 ^ (8 * n) ≤ 127 * 2 ^ 56 := Nat.mul_le_mul (by omega) h56
      _ < 2 ^ 64 := by norm_num
  set A := beNum ((F.drop r.pos).take n) with hA
  have hAlt : A < 2 ^ (8 * n) := by
    have := beNum_lt ((F.drop r.pos).take n)
    rw [pow256] at this
    have hl : ((F.drop r.pos).take n).length = n := by
      rw [List.length_take, List.length_drop]; omega
    rwa [hl] at this
  have hB : beNum (F.drop (r.pos + n)) < 2 ^ u' := by
    have := beNum_lt (F.drop (r.pos + n))
    rwa [pow256, List.length_drop] at this
  have hsplit : d.val % 2 ^ (8 * n + u') = A * 2 ^ u' + beNum (F.drop (r.pos + n)) := by
    rw [← hu, h.hmod]
    have e : F.drop r.pos = (F.drop r.pos).take n ++ F.drop (r.pos + n) := by
      rw [← List.drop_drop]; exact (List.take_append_drop n _).symm
    conv_lhs => rw [e]
    rw [beNum_append, pow256, List.length_drop]
  obtain ⟨hq, hm⟩ := split_load hB hsplit
  refine ⟨h.hdata, h.heof, by show r.pos + n ≤ L; omega, ?_, ?_, ?_, ?_, ?_, h.hr, h.hd⟩
  · show A ||| wrap64 (r.value <<< (8 * n)) = d.val / 2 ^ (8 * (L - (r.pos + n)))
    rw [hshl, or_eq_add hAlt, ← hu', hq, ← hu, ← h.hval]
  · show d.val % 2 ^ (8 * (L - (r.pos + n))) = beNum (F.drop (r.pos + n))
    rw [← hu']; exact hm
  · show r.bits + ((8 * n : Nat) : Int) + ((8 * (L - (r.pos + n)) : Nat) : Int) = d.e
    rw [← hu']; push_cast at hbits ⊢; omega
  · show -8 ≤ r.bits + ((8 * n : Nat) : Int)
    have := h.hb1; push_cast; omega
  · show r.bits + ((8 * n : Nat) : Int) ≤ 55
    push_cast; omega

/-- `loadNewBytes` under the invariant, when the window reaches below the loaded bits -/
theorem load_inv {F : Bytes} {r : BoolReader} {d : Dec} (h : RInv F r d) (hneg : r.bits < 0) :
    RInv F (loadNewBytes r) d ∧ 0 ≤ (loadNewBytes r).bits ∧ (loadNewBytes r).range = r.range := by
  have hbits := h.hbits
  have hlt : r.pos < F.length := by
    by_contra hc
    have : F.length - r.pos = 0 := by omega
    rw [this] at hbits; simp at hbits; omega
  have hb1 := h.hb1
  have hD := h.hdata
  by_cases h8 : r.pos + 8 ≤ F.length
  · have e : loadNewBytes r = { r with value := beNum ((F.drop r.pos).take 7) ||| wrap64 (r.value <<< (8 * 7)),
                                       pos := r.pos + 7, bits := r.bits + ((8 * 7 : Nat) : Int) } := by
      unfold loadNewBytes
      rw [hD]; simp only [h8, if_true]; rfl
    rw [e]
    refine ⟨load_n 7 (by norm_num) (by norm_num) h hneg (by omega), ?_, rfl⟩
    show 0 ≤ r.bits + ((8 * 7 : Nat) : Int); omega
  · have hbyte : (F.getD r.pos 0).toNat = beNum ((F.drop r.pos).take 1) := by
      have e2 : (F.drop r.pos).take 1 = [F[r.pos]] := by rw [List.drop_eq_getElem_cons hlt]; rfl
      rw [e2, beNum_single]
      simp [hlt]
    have e : loadNewBytes r = { r with value := beNum ((F.drop r.pos).take 1) ||| wrap64 (r.value <<< (8 * 1)),
                                       pos := r.pos + 1, bits := r.bits + ((8 * 1 : Nat) : Int) } := by
      unfold loadNewBytes loadFinalBytes
      rw [hD]; simp only [h8, if_false, hlt, if_true, hbyte]; rfl
    rw [e]
    refine ⟨load_n 1 (by norm_num) (by norm_num) h hneg (by omega), ?_, rfl⟩
    show 0 ≤ r.bits + ((8 * 1 : Nat) : Int); omega

/-! ### `GetBit` -/

/-- `GetBit` after the load -/
def getBitCore (r : BoolReader) (range prob : Nat) : Bool × BoolReader :=
  let pos := r.bits
  let split := wrap32 (wrap32 (range * prob) >>> 8)
  let value := wrap32 (shrU64 r.value pos)
  let bit : Bool := value > split
  let range' := if bit then wrap32 (range + 2^32 - split) else wrap32 (split + 1)
  let val' := if bit then subU64 r.value (shlU64 (split + 1) pos) else r.value
  let shift := 7 ^^^ (len32 range' - 1)
  let range'' := wrap32 (range' <<< shift)
  (bit, { r with value := val', bits := r.bits - shift, range := wrap32 (range'' + 2^32 - 1) })

theorem getBit_eq (r : BoolReader) (p : Nat) :
    getBit r p = getBitCore (if r.bits < 0 then loadNewBytes r else r) r.range p := rfl

theorem core_refines {F : Bytes} {r : BoolReader} {d : Dec} (h : RInv F r d) (h0 : 0 ≤ r.bits)
    {range p : Nat} (hrange : range + 1 = d.range) (hp : p ≤ 255) (hsh : shiftOf d p ≤ d.e) :
    (getBitCore r range p).1 = (d.get p).1 ∧ RInv F (getBitCore r range p).2 (d.get p).2 := by
  obtain ⟨hd1, hd2, hd3⟩ := h.hd
  have hdn := get_dinv h.hd hp hsh
  obtain ⟨B, hB⟩ : ∃ B : Nat, r.bits = (B : Int) := ⟨r.bits.toNat, by omega⟩
  have hB55 : B ≤ 55 := by have := h.hb2; omega
  set u := 8 * (F.length - r.pos) with hu
  have he : d.e = B + u := by have := h.hbits; omega
  -- the split
  have hsplit_lt := split_lt (r := d.range) (p := p) (by omega) hp
  have hsplit_pos := split_pos d.range p
  set sp := split d.range p with hsp
  have hspgo : (range * p) >>> 8 + 1 = sp := by
    rw [hsp]; unfold split; rw [← hrange]; simp; omega
  have hmul : range * p < 2 ^ 32 := by
    calc range * p ≤ 254 * 255 := Nat.mul_le_mul (by omega) hp
      _ < 2 ^ 32 := by norm_num
  have hsplit32 : wrap32 (wrap32 (range * p) >>> 8) = sp - 1 := by
    have hle : (range * p) >>> 8 ≤ range * p := by rw [Nat.shiftRight_eq_div_pow]; exact Nat.div_le_self _ _
    have hlt32 : (range * p) >>> 8 < 2 ^ 32 := lt_of_le_of_lt hle hmul
    rw [wrap32_of_lt hmul, wrap32_of_lt hlt32]
    omega
  -- the window
  have hvalB : r.value / 2 ^ B < d.range := by
    rw [h.hval, Nat.div_div_eq_div_mul, ← pow_add]
    apply Nat.div_lt_of_lt_mul
    rw [Nat.add_comm, ← he, Nat.mul_comm]; exact hd3
  have hwin : wrap32 (shrU64 r.value r.bits) = r.value / 2 ^ B := by
    have h255 : (255 : Nat) < 2 ^ 32 := by norm_num
    have hlt32 : r.value / 2 ^ B < 2 ^ 32 := by omega
    rw [shrU64_of hB (by omega), wrap32_of_lt hlt32]
  -- the decision
  have hdec : (sp - 1 < r.value / 2 ^ B) ↔ sp * 2 ^ d.e ≤ d.val := by
    have h1 : sp - 1 < r.value / 2 ^ B ↔ sp ≤ r.value / 2 ^ B := by omega
    rw [h1, Nat.le_div_iff_mul_le (Nat.two_pow_pos B), h.hval, Nat.le_div_iff_mul_le (Nat.two_pow_pos u),
      Nat.mul_assoc, ← pow_add, ← he]
  have hbitd : (d.get p).1 = decide (sp * 2 ^ d.e ≤ d.val) := rfl
  -- value bounds
  have hv64 : r.value < 2 ^ 63 := by
    have h1 : r.value < d.range * 2 ^ B := by
      have := (Nat.div_lt_iff_lt_mul (Nat.two_pow_pos B)).mp hvalB
      exact this
    have h2 : 2 ^ B ≤ 2 ^ 55 := Nat.pow_le_pow_right (by norm_num) hB55
    calc r.value < d.range * 2 ^ B := h1
      _ ≤ 255 * 2 ^ 55 := Nat.mul_le_mul hd2 h2
      _ < 2 ^ 63 := by norm_num
  have hspB : sp * 2 ^ B < 2 ^ 64 := by
    have h2 : 2 ^ B ≤ 2 ^ 55 := Nat.pow_le_pow_right (by norm_num) hB55
    calc sp * 2 ^ B ≤ 255 * 2 ^ 55 := Nat.mul_le_mul (by omega) h2
      _ < 2 ^ 64 := by norm_num
  have hshl : shlU64 (sp - 1 + 1) r.bits = sp * 2 ^ B := by
    have : sp - 1 + 1 = sp := by omega
    rw [this, shlU64_of hB (by omega) hspB]
  -- unfold the step
  unfold getBitCore
  simp only [hsplit32, hwin, hshl]
  by_cases hbit : sp * 2 ^ d.e ≤ d.val
  · -- bit 1
    have hgt : sp - 1 < r.value / 2 ^ B := hdec.mpr hbit
    have hb1 : (d.get p).1 = true := by rw [hbitd]; simpa using hbit
    have hshift : shiftOf d p = normShift (d.range - sp) := by unfold shiftOf; rw [hb1]; rfl
    simp only [gt_iff_lt, hgt, decide_true, if_true]
    have hr1 : wrap32 (range + 2 ^ 32 - (sp - 1)) = d.range - sp := by
      have e : range + 2 ^ 32 - (sp - 1) = (d.range - sp) + 2 ^ 32 := by omega
      unfold wrap32
      rw [e, Nat.add_mod_right, Nat.mod_eq_of_lt]
      have : (255 : Nat) < 2 ^ 32 := by norm_num
      omega
    rw [hr1]
    have hpre1 : 1 ≤ d.range - sp := by omega
    have hls := len32_shift (d.range - sp) (by omega) hpre1
    rw [hls, ← hshift]
    have hn := normShift_spec hpre1 (by omega : d.range - sp ≤ 255)
    rw [← hshift] at hn
    have hr2 : wrap32 (wrap32 ((d.range - sp) <<< shiftOf d p) + 2 ^ 32 - 1) = (d.range - sp) * 2 ^ shiftOf d p - 1 := by
      rw [Nat.shiftLeft_eq]
      have h255 : (255 : Nat) < 2 ^ 32 := by norm_num
      have hlt32 : (d.range - sp) * 2 ^ shiftOf d p < 2 ^ 32 := by omega
      rw [wrap32_of_lt hlt32]
      have e : (d.range - sp) * 2 ^ shiftOf d p + 2 ^ 32 - 1 = ((d.range - sp) * 2 ^ shiftOf d p - 1) + 2 ^ 32 := by omega
      unfold wrap32
      rw [e, Nat.add_mod_right, Nat.mod_eq_of_lt (by omega)]
    have hle : sp * 2 ^ B ≤ r.value := by
      have := (Nat.le_div_iff_mul_le (Nat.two_pow_pos B)).mp (by omega : sp ≤ r.value / 2 ^ B)
      exact this
    have hsub : subU64 r.value (sp * 2 ^ B) = r.value - sp * 2 ^ B :=
      subU64_of hle (lt_trans hv64 (by norm_num))
    rw [hr2, hsub]
    refine ⟨hb1.symm, h.hdata, h.heof, h.hpos, ?_, ?_, ?_, ?_, ?_, ?_, hdn⟩
    · show r.value - sp * 2 ^ B = (d.get p).2.val / 2 ^ u
      rw [get_val, hb1]; simp only [if_true]
      rw [← hsp, he, pow_add, ← Nat.mul_assoc, h.hval, ← hu]
      rw [Nat.mul_comm (sp * 2 ^ B) (2 ^ u), Nat.sub_mul_div_of_le]
      rw [Nat.mul_comm]; rw [he, pow_add, ← Nat.mul_assoc] at hbit; exact hbit
    · show (d.get p).2.val % 2 ^ u = beNum (F.drop r.pos)
      rw [get_val, hb1]; simp only [if_true]
      rw [← hsp, ← h.hmod, ← hu, he, pow_add, ← Nat.mul_assoc]
      rw [he, pow_add, ← Nat.mul_assoc, Nat.mul_comm (sp * 2 ^ B) (2 ^ u)] at hbit
      rw [Nat.mul_comm (sp * 2 ^ B) (2 ^ u)]
      exact Nat.sub_mul_mod hbit
    · show r.bits - ((shiftOf d p : Nat) : Int) + ((u : Nat) : Int) = ((d.get p).2.e : Int)
      rw [get_e]; have := h.hbits; omega
    · show -8 ≤ r.bits - ((shiftOf d p : Nat) : Int)
      have := normShift_le (d.range - sp); rw [← hshift] at this; omega
    · show r.bits - ((shiftOf d p : Nat) : Int) ≤ 55
      have := h.hb2; omega
    · show (d.range - sp) * 2 ^ shiftOf d p - 1 + 1 = (d.get p).2.range
      rw [get_range, hb1]; simp only [if_true]; rw [← hsp]; omega
  · -- bit 0
    have hngt : ¬ sp - 1 < r.value / 2 ^ B := fun hh => hbit (hdec.mp hh)
    have hb0 : (d.get p).1 = false := by rw [hbitd]; simpa using hbit
    have hshift : shiftOf d p = normShift sp := by unfold shiftOf; rw [hb0]; rfl
    simp only [gt_iff_lt, hngt, decide_false, Bool.false_eq_true, if_false]
    have h255 : (255 : Nat) < 2 ^ 32 := by norm_num
    have hr1 : wrap32 (sp - 1 + 1) = sp := by
      have : sp - 1 + 1 = sp := by omega
      have hlt32 : sp < 2 ^ 32 := by omega
      rw [this, wrap32_of_lt hlt32]
    rw [hr1]
    have hls := len32_shift sp (by omega) hsplit_pos
    rw [hls, ← hshift]
    have hn := normShift_spec hsplit_pos (by omega : sp ≤ 255)
    rw [← hshift] at hn
    have hr2 : wrap32 (wrap32 (sp <<< shiftOf d p) + 2 ^ 32 - 1) = sp * 2 ^ shiftOf d p - 1 := by
      rw [Nat.shiftLeft_eq]
      have hlt32 : sp * 2 ^ shiftOf d p < 2 ^ 32 := by omega
      rw [wrap32_of_lt hlt32]
      have e : sp * 2 ^ shiftOf d p + 2 ^ 32 - 1 = (sp * 2 ^ shiftOf d p - 1) + 2 ^ 32 := by omega
      unfold wrap32
      rw [e, Nat.add_mod_right, Nat.mod_eq_of_lt (by omega)]
    rw [hr2]
    refine ⟨hb0.symm, h.hdata, h.heof, h.hpos, ?_, ?_, ?_, ?_, ?_, ?_, hdn⟩
    · show r.value = (d.get p).2.val / 2 ^ u
      rw [get_val, hb0]; exact h.hval
    · show (d.get p).2.val % 2 ^ u = beNum (F.drop r.pos)
      rw [get_val, hb0]; exact h.hmod
    · show r.bits - ((shiftOf d p : Nat) : Int) + ((u : Nat) : Int) = ((d.get p).2.e : Int)
      rw [get_e]; have := h.hbits; omega
    · show -8 ≤ r.bits - ((shiftOf d p : Nat) : Int)
      have := normShift_le sp; rw [← hshift] at this; omega
    · show r.bits - ((shiftOf d p : Nat) : Int) ≤ 55
      have := h.hb2; omega
    · show sp * 2 ^ shiftOf d p - 1 + 1 = (d.get p).2.range
      rw [get_range, hb0]; simp only [Bool.false_eq_true, if_false]; rw [← hsp]; omega

/-- **One `GetBit` refines one ideal decoder step.** -/
theorem getBit_refines {F : Bytes} {r : BoolReader} {d : Dec} (h : RInv F r d) {p : Nat} (hp : p ≤ 255)
    (hsh : shiftOf d p ≤ d.e) :
    (getBit r p).1 = (d.get p).1 ∧ RInv F (getBit r p).2 (d.get p).2 := by
  rw [getBit_eq]
  by_cases hneg : r.bits < 0
  · simp only [hneg, if_true]
    obtain ⟨hl, hl0, hlr⟩ := load_inv h hneg
    exact core_refines hl hl0 h.hr hp hsh
  · simp only [hneg, if_false]
    exact core_refines h (by omega) h.hr hp hsh

/-- **C2: the Go reader refines the ideal decoder** for as long as the decoder has exponent left;
    the reader does not reach the end of the data (`eof` stays false). -/
theorem readBits_refines {F : Bytes} {probs : List Nat} (hp : ∀ p ∈ probs, p ≤ 255)
    {r : BoolReader} {d : Dec} (h : RInv F r d) (hok : DecOk d probs) :
    readBitsSt r probs = (d.run probs, (readBitsSt r probs).2) ∧ (readBitsSt r probs).2.eof = false := by
  induction probs generalizing r d with
  | nil => exact ⟨rfl, h.heof⟩
  | cons p ps ih =>
    obtain ⟨hsh, hok'⟩ := hok
    obtain ⟨hb, hinv⟩ := getBit_refines h (hp p (by simp)) hsh
    obtain ⟨ih1, ih2⟩ := ih (fun q hq => hp q (by simp [hq])) hinv hok'
    have e : readBitsSt r (p :: ps) =
        ((getBit r p).1 :: (readBitsSt (getBit r p).2 ps).1, (readBitsSt (getBit r p).2 ps).2) := rfl
    rw [e]
    refine ⟨?_, ih2⟩
    show _ = ((d.get p).1 :: (d.get p).2.run ps, _)
    rw [hb]
    have : (readBitsSt (getBit r p).2 ps).1 = (d.get p).2.run ps := by rw [ih1]
    rw [this]

theorem readBits_eq_fst (r : BoolReader) (probs : List Nat) : readBits r probs = (readBitsSt r probs).1 := by
  induction probs generalizing r with
  | nil => rfl
  | cons p ps ih =>
    show (getBit r p).1 :: readBits (getBit r p).2 ps = (getBit r p).1 :: (readBitsSt (getBit r p).2 ps).1
    rw [ih]

/-- the invariant holds initially (before the first load): the decoder owns the whole number -/
theorem rinv_init (F : Bytes) (hlen : 1 ≤ F.length) (hd : DInv { val := beNum F, range := 255, e := 8 * F.length - 8 }) :
    RInv F { data := F } { val := beNum F, range := 255, e := 8 * F.length - 8 } := by
  have hlt := beNum_lt F
  rw [pow256] at hlt
  refine ⟨rfl, rfl, Nat.zero_le _, ?_, ?_, ?_, by show (-8 : Int) ≤ -8; omega, by show (-8 : Int) ≤ 55; omega, rfl, hd⟩
  · show 0 = beNum F / 2 ^ (8 * (F.length - 0))
    rw [Nat.sub_zero, Nat.div_eq_of_lt hlt]
  · show beNum F % 2 ^ (8 * (F.length - 0)) = beNum (F.drop 0)
    rw [Nat.sub_zero, Nat.mod_eq_of_lt hlt]; rfl
  · show (-8 : Int) + ((8 * (F.length - 0) : Nat) : Int) = ((8 * F.length - 8 : Nat) : Int)
    omega

end Webp.Proofs.BoolReader
