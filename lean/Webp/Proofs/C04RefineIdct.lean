import Webp.Proofs.C04RefineXform
/-
  C04 refinement, reconstruction (stage C), inverse DCT: `Webp.Impl.VP8Kernels.idctResidual` /
  `transformOne` (transforms.go `transformOne`, tied to the translated Go code by
  `Webp.Props.C04FuncsTransform`) is RFC 6386 §14.4 (`Webp.Spec.VP8.inverseDCT`, exact integers) followed
  by §14.5's add-and-clamp, on every 4×4 block.
-/
namespace Webp.Proofs.C04RefineIdct
open Webp.Spec.VP8 (inverseDCT mulCos mulSin)
open Webp.Impl.VP8Kernels
open Webp.Proofs.C04RefineXform

def colIdxD (i : Nat) : Fin 4 → Nat
  | 0 => i | 1 => 12 + i | 2 => 4 + i | 3 => 8 + i
def rowIdxD (r : Nat) : Fin 4 → Nat
  | 0 => 4 * r | 1 => 4 * r + 3 | 2 => 4 * r + 1 | 3 => 4 * r + 2

theorem colIdxD_lt (i : Nat) (hi : i < 4) (k : Fin 4) : colIdxD i k < 16 := by
  have : k = 0 ∨ k = 1 ∨ k = 2 ∨ k = 3 := by omega
  rcases this with rfl | rfl | rfl | rfl <;> (unfold colIdxD; simp only []; omega)
theorem rowIdxD_lt (i : Nat) (hi : i < 4) (k : Fin 4) : rowIdxD i k < 16 := by
  have : k = 0 ∨ k = 1 ∨ k = 2 ∨ k = 3 := by omega
  rcases this with rfl | rfl | rfl | rfl <;> (unfold rowIdxD; simp only []; omega)

/-- vertical pass of §14.4 -/
def dctV (ip : Nat → Int) (i : Nat) : Fin 4 → Int
  | 0 => ip i + ip (8 + i) + (mulCos (ip (4 + i)) + mulSin (ip (12 + i)))
  | 1 => ip i + ip (8 + i) - (mulCos (ip (4 + i)) + mulSin (ip (12 + i)))
  | 2 => ip i - ip (8 + i) + (mulSin (ip (4 + i)) - mulCos (ip (12 + i)))
  | 3 => ip i - ip (8 + i) - (mulSin (ip (4 + i)) - mulCos (ip (12 + i)))

/-- horizontal pass of §14.4 -/
def dctH (t : Array Int) (r : Nat) : Fin 4 → Int
  | 0 => (t.getD (4 * r + 0) 0 + t.getD (4 * r + 2) 0 + (mulCos (t.getD (4 * r + 1) 0) + mulSin (t.getD (4 * r + 3) 0)) + 4) >>> 3
  | 1 => (t.getD (4 * r + 0) 0 + t.getD (4 * r + 2) 0 - (mulCos (t.getD (4 * r + 1) 0) + mulSin (t.getD (4 * r + 3) 0)) + 4) >>> 3
  | 2 => (t.getD (4 * r + 0) 0 - t.getD (4 * r + 2) 0 + (mulSin (t.getD (4 * r + 1) 0) - mulCos (t.getD (4 * r + 3) 0)) + 4) >>> 3
  | 3 => (t.getD (4 * r + 0) 0 - t.getD (4 * r + 2) 0 - (mulSin (t.getD (4 * r + 1) 0) - mulCos (t.getD (4 * r + 3) 0)) + 4) >>> 3

theorem inverseDCT_pass (c : Array Int) (base : Nat) :
    inverseDCT false c base =
      pass rowIdxD (dctH (pass colIdxD (dctV fun k => c.getD (base + k) 0))) := by
  unfold inverseDCT
  simp only [Id.run, Bool.false_eq_true, if_false]
  rw [forIn_pass _ colIdxD (dctV fun k => c.getD (base + k) 0) (by intro i s; rfl)]
  simp only [pure_bind]
  rw [forIn_pass _ rowIdxD (dctH (pass colIdxD (dctV fun k => c.getD (base + k) 0))) (by intro i s; rfl)]
  rfl

theorem mulCos_eq (x : Int) : mulCos x = mul1 x := by
  unfold mulCos mul1; rw [Int.shiftRight_eq_div_pow]; norm_num; ring
theorem mulSin_eq (x : Int) : mulSin x = mul2 x := by
  unfold mulSin mul2; rw [Int.shiftRight_eq_div_pow]; norm_num

theorem dctT (ip : Nat → Int) (m : Nat) (hm : m < 16) :
    (pass colIdxD (dctV ip)).getD m 0 = vtmp ip m := by
  rw [pass_getD _ _ colIdxD_lt]
  interval_cases m <;> simp [colIdxD, dctV, vtmp, mulCos_eq, mulSin_eq]

/-- **inverse DCT: `transformOne`'s residual = RFC 6386 §14.4** for every coefficient block -/
theorem idct_eq_spec (c : Array Int) (base j : Nat) (hj : j < 16) :
    (inverseDCT false c base).getD j 0 = idctResidual (fun k => c.getD (base + k) 0) j := by
  rw [inverseDCT_pass, pass_getD _ _ rowIdxD_lt]
  have ht : ∀ m, m < 16 → (pass colIdxD (dctV fun k => c.getD (base + k) 0))[m]?.getD 0 =
      vtmp (fun k => c.getD (base + k) 0) m := by
    intro m hm; rw [← Array.getD_eq_getD_getElem?]; exact dctT _ m hm
  generalize pass colIdxD (dctV fun k => c.getD (base + k) 0) = T at ht
  generalize (fun k => c.getD (base + k) 0) = ip at ht ⊢
  interval_cases j <;>
    simp [rowIdxD, dctH, idctResidual, hres, ht, Int.shiftRight_eq_div_pow, mulCos_eq, mulSin_eq] <;> ring_nf

/-- `dsp.Clip8b` is the RFC's clamp to 0..255 -/
theorem clip8b_eq (v : Int) : clip8b v = ((Webp.Spec.VP8.clamp255 v).toNat : Int) := by
  unfold clip8b Webp.Spec.VP8.clamp255 Webp.Spec.VP8.clampInt
  split_ifs with h1 h2 h3 h4 <;> first | (exfalso; omega) | skip
  all_goals
    simp only [Nat.toUInt8, UInt8.toNat_ofNat']
    omega

/-- **`transformOne` = §14.4 + §14.5**: prediction plus the RFC residue, clamped to 0..255 -/
theorem transformOne_eq_spec (c : Array Int) (base : Nat) (p : Nat → Int) (j : Nat) (hj : j < 16) :
    transformOne (fun k => c.getD (base + k) 0) p j =
      ((Webp.Spec.VP8.clamp255 (p j + (inverseDCT false c base).getD j 0)).toNat : Int) := by
  rw [idct_eq_spec c base j hj, ← clip8b_eq]
  rfl

end Webp.Proofs.C04RefineIdct
