import Webp.Proofs.VP8ReconFrame
import Webp.Proofs.VP8ReconXform
import Webp.Proofs.VP8ReconSyntax
import Webp.Proofs.VP8ReconQuant
/-
  C06 helper: assembling the frame-level statement — encoder planes and decoder cache both hold the
  history of macroblock reconstructions, and the two histories are the same function because every
  macroblock is reconstructed identically from identical neighbourhoods.
-/
namespace Webp.Proofs.VP8ReconAgree
open Webp.Impl.VP8Recon Webp.Proofs.VP8ReconFrame Webp.Proofs.VP8ReconXform Webp.Proofs.VP8ReconSyntax
open Webp.Proofs.VP8ReconGrid Webp.Proofs.VP8ReconModes Webp.Proofs.VP8ReconQuant

/-! ### row 0 of the work buffer survives a macroblock -/

theorem row0_writeBlk4 (G : Grid) (bx by' : Nat) (b : Blk4) (C : Nat) : writeBlk4 G bx by' b 0 C = G 0 C := by
  unfold writeBlk4
  have : ¬ (4 * by' + 1 ≤ 0 ∧ 0 < 4 * by' + 5 ∧ 4 * bx + 1 ≤ C ∧ C < 4 * bx + 5) := by omega
  simp only [this, dite_false]

theorem row0_xfAt (G : Grid) (bx by' : Nat) (f : Blk4 → Blk4) (C : Nat) : xfAt G bx by' f 0 C = G 0 C :=
  row0_writeBlk4 _ _ _ _ _

theorem row0_write16 (G : Grid) (b : Blk16) (C : Nat) : write16 G b 0 C = G 0 C := by
  unfold write16
  have : ¬ (1 ≤ 0 ∧ 0 ≤ 16 ∧ 1 ≤ C ∧ C ≤ 16) := by omega
  simp only [this, dite_false]

theorem row0_write8 (G : Grid) (b : Blk8) (C : Nat) : write8 G b 0 C = G 0 C := by
  unfold write8
  have : ¬ (1 ≤ 0 ∧ 0 ≤ 8 ∧ 1 ≤ C ∧ C ≤ 8) := by omega
  simp only [this, dite_false]

theorem row0_lumaLoop (K : Kernels) (m : MBModes) (r : ResData) (pred : Bool) (C : Nat) :
    ∀ (bs : List (Fin 16)) (G : Grid) (bits : Nat), decLumaLoop K m r pred bs G bits 0 C = G 0 C := by
  intro bs
  induction bs with
  | nil => intro G bits; rfl
  | cons b bs ih =>
    intro G bits
    simp only [decLumaLoop]
    rw [ih, row0_xfAt]
    split
    · exact row0_writeBlk4 _ _ _ _ _
    · rfl

theorem decLuma_row0 (K : Kernels) (x y : Nat) (c : Ctx) (m : MBModes) (r : ResData) (C : Nat) :
    decLuma K x y c m r 0 C = loadY c 0 C := by
  unfold decLuma
  split
  · exact row0_lumaLoop K m r true C _ _ _
  · split
    · rw [row0_lumaLoop, row0_write16]
    · exact row0_write16 _ _ _

theorem row0_foldl {α : Type} (f : Grid → α → Grid) (h : ∀ G a C, f G a 0 C = G 0 C) (C : Nat) :
    ∀ (l : List α) (G : Grid), l.foldl f G 0 C = G 0 C := by
  intro l
  induction l with
  | nil => intro G; rfl
  | cons a l ih => intro G; simp only [List.foldl_cons]; rw [ih, h]

theorem decChroma_row0 (K : Kernels) (x y : Nat) (e : Edge8) (m : MBModes) (r : ResData) (base shift C : Nat) :
    decChroma K x y e m r base shift 0 C = loadUV e 0 C := by
  unfold decChroma doUVTransform
  dsimp only
  split
  · split
    · rw [row0_write8, row0_write8]
    · rw [row0_foldl _ (fun G k C => by
        split
        · exact row0_xfAt _ _ _ _ _
        · rfl)]
      exact row0_write8 _ _ _
  · exact row0_write8 _ _ _

theorem get16_read16 (G : Grid) (c r : Nat) (hc : c < 16) (hr : r < 16) : get16 (read16 G) c r = G (r + 1) (c + 1) := by
  unfold get16 read16
  simp only [hc, hr, and_self, dite_true]
  congr 1 <;> omega

theorem get8_read8 (G : Grid) (c r : Nat) (hc : c < 8) (hr : r < 8) : get8 (read8 G) c r = G (r + 1) (c + 1) := by
  unfold get8 read8
  simp only [hc, hr, and_self, dite_true]
  congr 1 <;> omega

/-! ### the neighbourhood as a `Ctx` -/

structure Hist where
  ry : RecB
  ru : RecB
  rv : RecB

def refCtx (H : Hist) (mbW x y : Nat) : Ctx :=
  { y := { tl := refTl H.ry 16 x y, top := fun i => refTop H.ry 16 x y i.val, left := fun j => refLeft H.ry 16 x y j.val }
    topRight := fun i => refTopRight H.ry x y mbW i.val
    u := { tl := refTl H.ru 8 x y, top := fun i => refTop H.ru 8 x y i.val, left := fun j => refLeft H.ru 8 x y j.val }
    v := { tl := refTl H.rv 8 x y, top := fun i => refTop H.rv 8 x y i.val, left := fun j => refLeft H.rv 8 x y j.val } }

/-- one step of the history: macroblock `k` is reconstructed by `f` from the neighbourhood the
    history so far defines -/
def histStep (f : Nat → Ctx → Blocks) (mbW : Nat) (H : Hist) (k : Nat) : Hist :=
  let b := f k (refCtx H mbW (k % mbW) (k / mbW))
  { ry := upd H.ry (k % mbW) (k / mbW) (get16 b.y)
    ru := upd H.ru (k % mbW) (k / mbW) (get8 b.u)
    rv := upd H.rv (k % mbW) (k / mbW) (get8 b.v) }

def Hist.init : Hist := { ry := fun _ _ _ _ => 0, ru := fun _ _ _ _ => 0, rv := fun _ _ _ _ => 0 }

def hist (f : Nat → Ctx → Blocks) (mbW n : Nat) : Hist := (List.range n).foldl (histStep f mbW) Hist.init

theorem hist_succ (f : Nat → Ctx → Blocks) (mbW n : Nat) : hist f mbW (n + 1) = histStep f mbW (hist f mbW n) n := by
  unfold hist
  rw [List.range_succ, List.foldl_append]
  rfl

/-- histories depend on the per-macroblock function only at the indices they cover -/
theorem hist_congr (f g : Nat → Ctx → Blocks) (mbW : Nat) : ∀ n, (∀ k, k < n → ∀ c, f k c = g k c) →
    hist f mbW n = hist g mbW n := by
  intro n
  induction n with
  | zero => intro _; rfl
  | succ n ih =>
    intro h
    rw [hist_succ, hist_succ, ih (fun k hk c => h k (by omega) c)]
    unfold histStep
    rw [h n (by omega)]

/-! ### the encoder's planes hold the history -/

def fEnc (K : Kernels) (f : EncFrame) (k : Nat) (c : Ctx) : Blocks :=
  encRecon K (encQuantMatrix f.quant (segFin (f.descs k).segment)) (k % f.mbW) (k / f.mbW) c (f.descs k)

def encInit (srcY srcU srcV : Plane) : EncSt :=
  { y := EncPlane.init srcY, u := EncPlane.init srcU, v := EncPlane.init srcV }

def encAt (K : Kernels) (f : EncFrame) (srcY srcU srcV : Plane) (n : Nat) : EncSt :=
  (List.range n).foldl (encStep K f) (encInit srcY srcU srcV)

theorem encAt_succ (K : Kernels) (f : EncFrame) (srcY srcU srcV : Plane) (n : Nat) :
    encAt K f srcY srcU srcV (n + 1) = encStep K f (encAt K f srcY srcU srcV n) n := by
  unfold encAt
  rw [List.range_succ, List.foldl_append]
  rfl

theorem enc_hist (K : Kernels) (f : EncFrame) (srcY srcU srcV : Plane) : ∀ n, n ≤ f.mbW * f.mbH →
    EncInv 16 f.mbW (encAt K f srcY srcU srcV n).y (hist (fEnc K f) f.mbW n).ry n (n % f.mbW) (n / f.mbW) f.w f.h ∧
    EncInv 8 f.mbW (encAt K f srcY srcU srcV n).u (hist (fEnc K f) f.mbW n).ru n (n % f.mbW) (n / f.mbW)
      (8 * f.mbW) (8 * f.mbH) ∧
    EncInv 8 f.mbW (encAt K f srcY srcU srcV n).v (hist (fEnc K f) f.mbW n).rv n (n % f.mbW) (n / f.mbW)
      (8 * f.mbW) (8 * f.mbH) := by
  intro n
  induction n with
  | zero =>
    intro _
    simp only [Nat.zero_mod, Nat.zero_div]
    exact ⟨encInv_init _ _ _ _ _ _, encInv_init _ _ _ _ _ _, encInv_init _ _ _ _ _ _⟩
  | succ n ih =>
    intro hn
    have hk : n < f.mbW * f.mbH := by omega
    obtain ⟨iy, iu, iv⟩ := ih (by omega)
    obtain ⟨hx, _⟩ := pos_lt _ _ _ hk
    rw [encAt_succ, hist_succ]
    generalize encAt K f srcY srcU srcV n = st at iy iu iv ⊢
    generalize hist (fEnc K f) f.mbW n = H at iy iu iv ⊢
    obtain ⟨y1, y2, y3, y4⟩ := enc_ctx 16 f.mbW st.y H.ry n _ _ _ _ hx iy
    obtain ⟨u1, u2, u3, _⟩ := enc_ctx 8 f.mbW st.u H.ru n _ _ _ _ hx iu
    obtain ⟨v1, v2, v3, _⟩ := enc_ctx 8 f.mbW st.v H.rv n _ _ _ _ hx iv
    -- the context `FillPredContext` builds is the reference one
    have hctx : encFillCtx (if n % f.mbW = 0 then { y := st.y.resetLeft, u := st.u.resetLeft, v := st.v.resetLeft } else st)
        (n % f.mbW) (n / f.mbW) f.mbW = refCtx H f.mbW (n % f.mbW) (n / f.mbW) := by
      have ey : (if n % f.mbW = 0 then ({ y := st.y.resetLeft, u := st.u.resetLeft, v := st.v.resetLeft } : EncSt) else st).y =
          (if n % f.mbW = 0 then st.y.resetLeft else st.y) := by split <;> rfl
      have eu : (if n % f.mbW = 0 then ({ y := st.y.resetLeft, u := st.u.resetLeft, v := st.v.resetLeft } : EncSt) else st).u =
          (if n % f.mbW = 0 then st.u.resetLeft else st.u) := by split <;> rfl
      have ev : (if n % f.mbW = 0 then ({ y := st.y.resetLeft, u := st.u.resetLeft, v := st.v.resetLeft } : EncSt) else st).v =
          (if n % f.mbW = 0 then st.v.resetLeft else st.v) := by split <;> rfl
      unfold encFillCtx refCtx
      rw [ey, eu, ev]
      congr 1
      · congr 1
        · funext i; exact y2 i.val i.isLt
        · funext j; exact y3 j.val j.isLt
      · funext i; exact y4 rfl i.val i.isLt
      · congr 1
        · funext i; exact u2 i.val i.isLt
        · funext j; exact u3 j.val j.isLt
      · congr 1
        · funext i; exact v2 i.val i.isLt
        · funext j; exact v3 j.val j.isLt
    have ey : (if n % f.mbW = 0 then ({ y := st.y.resetLeft, u := st.u.resetLeft, v := st.v.resetLeft } : EncSt) else st).y =
        (if n % f.mbW = 0 then st.y.resetLeft else st.y) := by split <;> rfl
    have eu : (if n % f.mbW = 0 then ({ y := st.y.resetLeft, u := st.u.resetLeft, v := st.v.resetLeft } : EncSt) else st).u =
        (if n % f.mbW = 0 then st.u.resetLeft else st.u) := by split <;> rfl
    have ev : (if n % f.mbW = 0 then ({ y := st.y.resetLeft, u := st.u.resetLeft, v := st.v.resetLeft } : EncSt) else st).v =
        (if n % f.mbW = 0 then st.v.resetLeft else st.v) := by split <;> rfl
    unfold encStep histStep
    dsimp only
    rw [hctx, ey, eu, ev]
    exact ⟨enc_step 16 f.mbW f.mbH st.y H.ry n f.w f.h (by omega) hk iy _,
      enc_step 8 f.mbW f.mbH st.u H.ru n _ _ (by omega) hk iu _,
      enc_step 8 f.mbW f.mbH st.v H.rv n _ _ (by omega) hk iv _⟩

/-! ### the decoder's cache holds the history -/

def fDec (K : Kernels) (mbW : Nat) (parsed : Nat → MBModes × ResData) (k : Nat) (c : Ctx) : Blocks :=
  decRecon K (k % mbW) (k / mbW) c (parsed k).1 (parsed k).2

def decInit : DecSt := { y := DecPlane.init, u := DecPlane.init, v := DecPlane.init }

def decAt (K : Kernels) (mbW mbH : Nat) (parsed : Nat → MBModes × ResData) (n : Nat) : DecSt :=
  (List.range n).foldl (decStep K mbW mbH parsed) decInit

theorem decAt_succ (K : Kernels) (mbW mbH : Nat) (parsed : Nat → MBModes × ResData) (n : Nat) :
    decAt K mbW mbH parsed (n + 1) = decStep K mbW mbH parsed (decAt K mbW mbH parsed n) n := by
  unfold decAt
  rw [List.range_succ, List.foldl_append]
  rfl

theorem loadY_row0_top (c : Ctx) : loadY c 0 16 = c.y.top 15 := by
  unfold loadY; simp

theorem loadUV_row0_top (e : Edge8) : loadUV e 0 8 = e.top 7 := by
  unfold loadUV; simp

theorem dec_hist (K : Kernels) (mbW mbH : Nat) (parsed : Nat → MBModes × ResData) : ∀ n, n ≤ mbW * mbH →
    DecInv 16 4 mbW mbH (decAt K mbW mbH parsed n).y (hist (fDec K mbW parsed) mbW n).ry n (n % mbW) (n / mbW) ∧
    DecInv 8 0 mbW mbH (decAt K mbW mbH parsed n).u (hist (fDec K mbW parsed) mbW n).ru n (n % mbW) (n / mbW) ∧
    DecInv 8 0 mbW mbH (decAt K mbW mbH parsed n).v (hist (fDec K mbW parsed) mbW n).rv n (n % mbW) (n / mbW) := by
  intro n
  induction n with
  | zero =>
    intro _
    simp only [Nat.zero_mod, Nat.zero_div]
    exact ⟨decInv_init _ _ _ _ _, decInv_init _ _ _ _ _, decInv_init _ _ _ _ _⟩
  | succ n ih =>
    intro hn
    have hk : n < mbW * mbH := by omega
    obtain ⟨iy, iu, iv⟩ := ih (by omega)
    obtain ⟨hx, hy⟩ := pos_lt _ _ _ hk
    rw [decAt_succ, hist_succ]
    generalize decAt K mbW mbH parsed n = st at iy iu iv ⊢
    generalize hist (fDec K mbW parsed) mbW n = H at iy iu iv ⊢
    obtain ⟨y1, y2, y3, y4⟩ := dec_ctx 16 4 mbW mbH st.y H.ry n _ _ hx hy (by omega) iy
    obtain ⟨u1, u2, u3, _⟩ := dec_ctx 8 0 mbW mbH st.u H.ru n _ _ hx hy (by omega) iu
    obtain ⟨v1, v2, v3, _⟩ := dec_ctx 8 0 mbW mbH st.v H.rv n _ _ hx hy (by omega) iv
    have hctx : decCtx st (n % mbW) (n / mbW) mbW = refCtx H mbW (n % mbW) (n / mbW) := by
      unfold decCtx refCtx
      congr 1
      · congr 1
        · funext i; exact y2 i.val i.isLt
        · funext j; exact y3 j.val j.isLt
      · funext i; exact y4 rfl (by omega) i.val i.isLt
      · congr 1
        · funext i; exact u2 i.val i.isLt
        · funext j; exact u3 j.val j.isLt
      · congr 1
        · funext i; exact v2 i.val i.isLt
        · funext j; exact v3 j.val j.isLt
    unfold decStep histStep fDec decRecon
    dsimp only
    rw [hctx]
    refine ⟨?_, ?_, ?_⟩
    · apply dec_step 16 4 mbW mbH st.y H.ry n (by omega) hk iy
      · rw [decLuma_row0, loadY_row0_top]; rfl
      · intro hy0 C h1 h2
        rw [decLuma_row0]
        unfold loadY refCtx
        simp only [if_true]
        have hC : C ≠ 0 := by omega
        simp only [hC, if_false]
        by_cases h16 : C ≤ 16
        · simp only [h16, dite_true, refTop, hy0, if_true]
        · have h20 : C ≤ 20 := by omega
          simp only [h16, dite_false, h20, dite_true, refTopRight, hy0, if_true]
      · intro c r hc hr
        exact (get16_read16 _ c r hc hr).symm
    · apply dec_step 8 0 mbW mbH st.u H.ru n (by omega) hk iu
      · rw [decChroma_row0, loadUV_row0_top]; rfl
      · intro hy0 C h1 h2
        rw [decChroma_row0]
        unfold loadUV refCtx
        simp only [if_true]
        have hC : C ≠ 0 := by omega
        simp only [hC, if_false]
        by_cases h8 : C ≤ 8
        · simp only [h8, dite_true, refTop, hy0, if_true]
        · exfalso
          exact h8 (by omega)
      · intro c r hc hr
        exact (get8_read8 _ c r hc hr).symm
    · apply dec_step 8 0 mbW mbH st.v H.rv n (by omega) hk iv
      · rw [decChroma_row0, loadUV_row0_top]; rfl
      · intro hy0 C h1 h2
        rw [decChroma_row0]
        unfold loadUV refCtx
        simp only [if_true]
        have hC : C ≠ 0 := by omega
        simp only [hC, if_false]
        by_cases h8 : C ≤ 8
        · simp only [h8, dite_true, refTop, hy0, if_true]
        · exfalso
          exact h8 (by omega)
      · intro c r hc hr
        exact (get8_read8 _ c r hc hr).symm

/-! ### both sides reconstruct every macroblock alike -/

/-- the per-macroblock side conditions of the frame theorem -/
structure MBOk (K : Kernels) (f : EncFrame) (updateMap : Bool) (B Bw : Int) (k : Nat) : Prop where
  wf : (f.descs k).WF
  seg : (f.descs k).segment < f.quant.numSegs
  /-- without a segment map every macroblock is in segment 0 (`setSegmentProbas`) -/
  seg0 : updateMap = false → (f.descs k).segment = 0
  within : CoeffsWithin K (encQuantMatrix f.quant (segFin (f.descs k).segment)) (f.descs k) B Bw

theorem segFin_val (s : Nat) (h : s < 4) : (segFin s).val = s := by
  unfold segFin; simp only; omega

theorem fDec_eq_fEnc (K : Kernels) {B Bw : Int} (F : KernelFacts K B Bw) (hBw : 0 ≤ Bw) (f : EncFrame) (hq : f.quant.WF)
    (fs : FrameSyntax) (parsed : Nat → MBModes × ResData) (k : Nat) (ok : MBOk K f fs.updateMap B Bw k)
    (hp : ParsedOK K (decQuantMatrix (encHeader f.quant)) fs (f.descs k) (parsed k)) (c : Ctx) :
    fDec K f.mbW parsed k c = fEnc K f k c := by
  obtain ⟨h1, h2, h3, h4, h5, h6⟩ := hp
  have hseg4 : (f.descs k).segment < 4 := ok.wf.seg
  have hsegeq : (parsed k).1.segment = (f.descs k).segment := by
    rw [h5]
    cases hu : fs.updateMap
    · simp only [Bool.false_eq_true, if_false]; exact (ok.seg0 hu).symm
    · simp only [if_true]
  have hqm : decQuantMatrix (encHeader f.quant) (segFin (parsed k).1.segment) =
      encQuantMatrix f.quant (segFin (f.descs k).segment) := by
    rw [hsegeq]
    apply dequant_agree f.quant hq
    rw [segFin_val _ hseg4]
    exact ok.seg
  unfold fDec fEnc
  cases hs : (f.descs k).skip
  · simp only [hs, Bool.false_eq_true, if_false] at h6
    rw [h6, hqm]
    exact parsed_recon K F _ _ _ c (f.descs k) ok.wf ok.within (parsed k).1 h1 h2 h3 h4
  · simp only [hs, if_true] at h6
    have : (parsed k).2 = decSkipped (parsed k).2.coeffs := by
      cases hr : (parsed k).2
      rw [hr] at h6
      simp only at h6
      simp only [decSkipped, h6.1, h6.2]
    rw [this]
    exact skip_recon K F hBw _ _ _ c (f.descs k) ok.wf hs (parsed k).1 h1 h2 h3 h4 _

theorem idx_lt (mbW mbH a b : Nat) (ha : a < mbW) (hb : b < mbH) : b * mbW + a < mbW * mbH := by
  have : (b + 1) * mbW ≤ mbH * mbW := Nat.mul_le_mul_right _ hb
  rw [Nat.add_mul, Nat.one_mul] at this
  rw [Nat.mul_comm mbW mbH]
  omega

theorem div16_lt (w px : Nat) (h : px < w) : px / 16 < mbCount w := by
  unfold mbCount
  omega

theorem div8_lt (w px : Nat) (h : px < (w + 1) / 2) : px / 8 < mbCount w := by
  unfold mbCount
  omega

/-- **`frame_recon_agree`** — see `Webp.Props.C06`. -/
theorem frame_recon_agree (K : Kernels) {B Bw : Int} (F : KernelFacts K B Bw) (hBw : 0 ≤ Bw) (f : EncFrame)
    (numParts : Nat) (updateMap : Bool) (srcY srcU srcV : Plane) (col0 : ColData)
    (hw : f.w < 16384) (hh : f.h < 16384) (hq : f.quant.WF)
    (hd : ∀ k, k < f.mbW * f.mbH → MBOk K f updateMap B Bw k) :
    decodeFrameUnfiltered K (emitFrame f numParts updateMap) col0 =
      some (encoderReconFrame f (encodeFrameRecon K f srcY srcU srcV).y.plane
        (encodeFrameRecon K f srcY srcU srcV).u.plane (encodeFrameRecon K f srcY srcU srcV).v.plane) := by
  have ew : f.w % 16384 = f.w := Nat.mod_eq_of_lt hw
  have eh : f.h % 16384 = f.h := Nat.mod_eq_of_lt hh
  unfold decodeFrameUnfiltered emitFrame
  simp only [ew, eh]
  -- the syntax round trip
  generalize hus : ((List.range (f.mbW * f.mbH)).any fun k => (f.descs k).skip) = useSkip
  let fs : FrameSyntax := { mbW := f.mbW, numParts := numParts, updateMap := updateMap, useSkip := useSkip }
  have hskip : ∀ k, k ∈ List.range (f.mbW * f.mbH) → (f.descs k).skip = true → fs.useSkip = true := by
    intro k hk hs
    show useSkip = true
    rw [← hus, List.any_eq_true]
    exact ⟨k, hk, hs⟩
  obtain ⟨parsed, hparse, hin, _⟩ := parseMBs_roundtrip K (decQuantMatrix (encHeader f.quant)) fs f.descs
    (List.range (f.mbW * f.mbH)) List.nodup_range
    (fun k hk => (hd k (List.mem_range.mp hk)).wf) hskip TokCtx.init ctxWF_init [] (fun _ => []) col0
    (fun _ => (({ isI4 := false, imodes := fun _ => 0, uvmode := 0, segment := 0, skip := false } : MBModes),
               ({ coeffs := fun _ => Coeffs.zero, nonZeroY := 0, nonZeroUV := 0 } : ResData)))
  simp only [List.append_nil] at hparse
  show Option.map _ (parseMBs K (decQuantMatrix (encHeader f.quant)) fs (List.range (f.mbW * f.mbH)) TokCtx.init
    (emitMBs f.descs fs (List.range (f.mbW * f.mbH)) TokCtx.init) col0 _) = _
  rw [hparse]
  simp only [Option.map_some]
  -- both histories
  have hdec := dec_hist K f.mbW f.mbH parsed (f.mbW * f.mbH) (Nat.le_refl _)
  have henc := enc_hist K f srcY srcU srcV (f.mbW * f.mbH) (Nat.le_refl _)
  have hH : hist (fDec K f.mbW parsed) f.mbW (f.mbW * f.mbH) = hist (fEnc K f) f.mbW (f.mbW * f.mbH) :=
    hist_congr _ _ _ _ (fun k hk c =>
      fDec_eq_fEnc K F hBw f hq fs parsed k (hd k hk) (hin k (List.mem_range.mpr hk)) c)
  rw [hH] at hdec
  obtain ⟨dy, du, dv⟩ := hdec
  obtain ⟨ey, eu, ev⟩ := henc
  show some ({ w := f.w, h := f.h
               y := cropPlane f.w f.h (decAt K f.mbW f.mbH parsed (f.mbW * f.mbH)).y.cache
               u := cropPlane ((f.w + 1) / 2) ((f.h + 1) / 2) (decAt K f.mbW f.mbH parsed (f.mbW * f.mbH)).u.cache
               v := cropPlane ((f.w + 1) / 2) ((f.h + 1) / 2) (decAt K f.mbW f.mbH parsed (f.mbW * f.mbH)).v.cache } : Frame) =
    some (encoderReconFrame f (encAt K f srcY srcU srcV (f.mbW * f.mbH)).y.plane
      (encAt K f srcY srcU srcV (f.mbW * f.mbH)).u.plane (encAt K f srcY srcU srcV (f.mbW * f.mbH)).v.plane)
  unfold encoderReconFrame
  congr 2
  · funext px py
    unfold cropPlane
    by_cases hv : px < f.w ∧ py < f.h
    · simp only [hv, and_self, if_true]
      have hx := div16_lt f.w px hv.1
      have hy := div16_lt f.h py hv.2
      rw [dy.pl px py hx (idx_lt _ _ _ _ hx hy), ey.pl px py hv.1 hv.2 hx (idx_lt _ _ _ _ hx hy)]
    · simp only [hv, if_false]
  · funext px py
    unfold cropPlane
    by_cases hv : px < (f.w + 1) / 2 ∧ py < (f.h + 1) / 2
    · simp only [hv, and_self, if_true]
      have hx := div8_lt f.w px hv.1
      have hy := div8_lt f.h py hv.2
      have hx8 : px < 8 * f.mbW := by unfold EncFrame.mbW mbCount; omega
      have hy8 : py < 8 * f.mbH := by unfold EncFrame.mbH mbCount; omega
      rw [du.pl px py hx (idx_lt _ _ _ _ hx hy), eu.pl px py hx8 hy8 hx (idx_lt _ _ _ _ hx hy)]
    · simp only [hv, if_false]
  · funext px py
    unfold cropPlane
    by_cases hv : px < (f.w + 1) / 2 ∧ py < (f.h + 1) / 2
    · simp only [hv, and_self, if_true]
      have hx := div8_lt f.w px hv.1
      have hy := div8_lt f.h py hv.2
      have hx8 : px < 8 * f.mbW := by unfold EncFrame.mbW mbCount; omega
      have hy8 : py < 8 * f.mbH := by unfold EncFrame.mbH mbCount; omega
      rw [dv.pl px py hx (idx_lt _ _ _ _ hx hy), ev.pl px py hx8 hy8 hx (idx_lt _ _ _ _ hx hy)]
    · simp only [hv, if_false]

/-! ### the top-right samples do not matter for an I16 macroblock

  `reconstructRow` fills the four top-right cells (and their three copies) only for I4 macroblocks;
  `decCtx` always does.  For an I16 macroblock the difference is invisible. -/

/-- two buffers that agree on every cell of columns `-1 .. 15` -/
def AgreeLeft (G G' : Grid) : Prop := ∀ R C, C ≤ 16 → G R C = G' R C

theorem agree_readBlk4 (G G' : Grid) (h : AgreeLeft G G') (bx by' : Nat) (hb : bx < 4) :
    readBlk4 G bx by' = readBlk4 G' bx by' := by
  funext i
  unfold readBlk4
  exact h _ _ (by omega)

theorem agree_xfAt (G G' : Grid) (h : AgreeLeft G G') (bx by' : Nat) (hb : bx < 4) (f : Blk4 → Blk4) :
    AgreeLeft (xfAt G bx by' f) (xfAt G' bx by' f) := by
  intro R C hC
  unfold xfAt writeBlk4
  rw [agree_readBlk4 G G' h bx by' hb]
  split
  · rfl
  · exact h R C hC

theorem agree_lumaLoop (K : Kernels) (m : MBModes) (r : ResData) :
    ∀ (bs : List (Fin 16)) (G G' : Grid) (bits : Nat), AgreeLeft G G' →
      AgreeLeft (decLumaLoop K m r false bs G bits) (decLumaLoop K m r false bs G' bits) := by
  intro bs
  induction bs with
  | nil => intro G G' _ h; exact h
  | cons b bs ih =>
    intro G G' bits h
    simp only [decLumaLoop, Bool.false_eq_true, if_false]
    exact ih _ _ _ (agree_xfAt G G' h _ _ (by omega) _)

/-- **for an I16 macroblock the reconstructed luma does not depend on the top-right samples** -/
theorem decLuma_i16_topRight (K : Kernels) (x y : Nat) (c : Ctx) (t : Fin 4 → UInt8) (m : MBModes) (r : ResData)
    (hI : m.isI4 = false) :
    read16 (decLuma K x y { c with topRight := t } m r) = read16 (decLuma K x y c m r) := by
  have hload : AgreeLeft (loadY { c with topRight := t }) (loadY c) := by
    intro R C hC
    unfold loadY
    have h17 : ¬ (17 ≤ C) := by omega
    by_cases hR : R = 0
    · simp only [hR, if_true]
      by_cases hC0 : C = 0
      · simp [hC0]
      · simp [hC0, hC]
    · simp only [hR, if_false]
      by_cases hR16 : R ≤ 16
      · simp only [hR16, dite_true]
        by_cases hC0 : C = 0
        · simp [hC0]
        · have : ¬ ((R = 4 ∨ R = 8 ∨ R = 12) ∧ 17 ≤ C ∧ C ≤ 20) := fun h => h17 h.2.1
          simp [hC0, this]
      · simp [hR16]
  have hedge : edge16 (loadY { c with topRight := t }) = edge16 (loadY c) := by
    have e1 : loadY { c with topRight := t } 0 0 = loadY c 0 0 := hload 0 0 (by omega)
    have e2 : (fun i : Fin 16 => loadY { c with topRight := t } 0 (i.val + 1)) = fun i => loadY c 0 (i.val + 1) := by
      funext i; exact hload 0 (i.val + 1) (by omega)
    have e3 : (fun j : Fin 16 => loadY { c with topRight := t } (j.val + 1) 0) = fun j => loadY c (j.val + 1) 0 := by
      funext j; exact hload (j.val + 1) 0 (by omega)
    unfold edge16
    rw [e1, e2, e3]
  have hw : AgreeLeft (write16 (loadY { c with topRight := t }) (K.decPred16 (checkMode x y (m.imodes 0)) (edge16 (loadY c))))
      (write16 (loadY c) (K.decPred16 (checkMode x y (m.imodes 0)) (edge16 (loadY c)))) := by
    intro R C hC
    unfold write16
    split
    · rfl
    · exact hload R C hC
  have hfin : AgreeLeft (decLuma K x y { c with topRight := t } m r) (decLuma K x y c m r) := by
    unfold decLuma
    simp only [hI, Bool.false_eq_true, if_false, hedge]
    split
    · exact agree_lumaLoop K m r _ _ _ _ hw
    · exact hw
  funext i
  unfold read16
  exact hfin _ _ (by omega)

/-- with kernels whose WHT writes `int16`s (a fact of Go's typing), every coefficient is within the
    full 16-bit range `[-32768, 32767] ⊆ [-32768, 32768]`: no range hypothesis is left -/
theorem coeffsWithin_full (K : Kernels) (hr : ∀ c, Int16Range (K.iwht c)) (qm : QuantMatrix) (d : MBDesc) :
    CoeffsWithin K qm d 32768 32768 := by
  have hdq : ∀ a b lv, Bounded 32768 (dequant a b lv) := by
    intro a b lv i
    have := dequant_range a b lv i
    constructor <;> omega
  refine ⟨?_, fun _ => hdq _ _ _⟩
  intro b hb
  unfold decBlock
  by_cases h16 : b < 16
  · simp only [h16, dite_true]
    cases d.isI4
    · simp only [Bool.false_eq_true, if_false]
      intro i
      unfold Coeffs.set
      split
      · unfold decWht
        by_cases hn : nzCountFrom 0 (d.levels 24) > 1
        · simp only [hn, if_true]
          have := hr (dequant qm.y2dc qm.y2ac (d.levels 24)) ⟨b, h16⟩
          constructor <;> omega
        · simp only [hn, if_false]
          have := wrap16_range ((dequant qm.y2dc qm.y2ac (d.levels 24) 0 + 3) >>> 3)
          constructor <;> omega
      · exact hdq _ _ _ i
    · simp only [if_true]
      exact hdq _ _ _
  · simp only [h16, dite_false, hb, if_true]
    exact hdq _ _ _

end Webp.Proofs.VP8ReconAgree
