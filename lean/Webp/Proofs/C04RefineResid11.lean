import Webp.Proofs.C04RefineResid10
/-
  C04 refinement, residuals, part 11: the three planes of a parsed macroblock — `decYRows`, `decUVRows` (U), `decUVRows` (V)
  as `parseResiduals` chains them, against `uvAll ∘ yAll`; the words Go packs at the end hold the flags the specification
  stored (`Flags` of the final state).
-/
namespace Webp.Proofs.C04RefineResid
open Webp.Spec.VP8
open Webp.Impl.VP8SyntaxBytes (P runR rd)
open Webp.Impl.VP8SyntaxBytes.T (YSt YSt2 UVSt)
open Webp.Impl.VP8Recon (Slot Coeffs QuantMatrix)
open Webp.Proofs.C04RefineOps Webp.Proofs.C04RefineTokens

theorem uvAll_eq (probs : Array Nat) (q : DequantFactors) (mbX ytype first : Nat) (s : RSt) :
    uvAll probs q mbX (yAll probs q mbX ytype first s) =
      uvFold probs q mbX 1 (List.range' 0 2) (uvFold probs q mbX 0 (List.range' 0 2) (yFold probs q mbX ytype first (List.range' 0 4) s)) := by
  unfold uvAll
  rw [show List.range' 0 2 = [0, 1] from rfl, List.foldl_cons, List.foldl_cons, List.foldl_nil]
  rfl

/-- what the three planes leave alone -/
structure MBFrame (mbX : Nat) (s s' : RSt) : Prop where
  a : ∀ i, (i < 9 * mbX ∨ 9 * mbX + 8 ≤ i) → s'.2.1.getD i 0 = s.2.1.getD i 0
  l : ∀ i, 8 ≤ i → s'.2.2.1.getD i 0 = s.2.2.1.getD i 0
  asz : s'.2.1.size = s.2.1.size
  lsz : s'.2.2.1.size = s.2.2.1.size

theorem planes_sim (prob : Slot → UInt8) (probs : Array Nat) (t first : Nat) (q : DequantFactors) (qm : QuantMatrix)
    (hq1 : qm.y1dc = q.y1dc) (hq2 : qm.y1ac = q.y1ac) (hq3 : qm.uvdc = q.uvdc) (hq4 : qm.uvac = q.uvac)
    (hc : CoefOK prob probs t) (hc2 : CoefOK prob probs 2) (hfix : FixedOK prob) (hf : first ≤ 16)
    (mbX : Nat) (ov : Nat → Option Int) (hov : ∀ b, b < 16 → (ov b).isSome = true → 1 ≤ first) (hov2 : ∀ b, 16 ≤ b → ov b = none)
    (tnz lnz : Nat) (store : Nat → Coeffs) (s : RSt) (hF : Flags mbX tnz lnz s) (hst : StRel 24 ov store s.1) :
    ∃ (yr : YSt2) (ur vr : UVSt),
      runD prob (Webp.Impl.VP8SyntaxBytes.T.decYRows t first qm (List.range' 0 4)
        { tnz := tnz &&& 15, lnz := lnz &&& 15, nonZeroY := 0, store := store }) s.2.2.2.1 =
          some (yr, (yFold probs q mbX t first (List.range' 0 4) s).2.2.2.1) ∧
      runD prob (Webp.Impl.VP8SyntaxBytes.T.decUVRows qm 16 (List.range' 0 2)
        { tnz := tnz >>> 4, lnz := lnz >>> 4, nzCoeffs := 0, store := yr.store })
          (yFold probs q mbX t first (List.range' 0 4) s).2.2.2.1 =
          some (ur, (uvFold probs q mbX 0 (List.range' 0 2) (yFold probs q mbX t first (List.range' 0 4) s)).2.2.2.1) ∧
      runD prob (Webp.Impl.VP8SyntaxBytes.T.decUVRows qm 20 (List.range' 0 2)
        { tnz := tnz >>> 6, lnz := lnz >>> 6, nzCoeffs := 0, store := ur.store })
          (uvFold probs q mbX 0 (List.range' 0 2) (yFold probs q mbX t first (List.range' 0 4) s)).2.2.2.1 =
          some (vr, (uvAll probs q mbX (yAll probs q mbX t first s)).2.2.2.1) ∧
      Flags mbX ((yr.tnz ||| ((ur.tnz <<< 4) <<< 0)) ||| ((vr.tnz <<< 4) <<< 2))
        (((yr.lnz >>> 4) ||| ((ur.lnz &&& 0xf0) <<< 0)) ||| ((vr.lnz &&& 0xf0) <<< 2))
        (uvAll probs q mbX (yAll probs q mbX t first s)) ∧
      StRel 24 ov vr.store (uvAll probs q mbX (yAll probs q mbX t first s)).1 ∧
      MBFrame mbX s (uvAll probs q mbX (yAll probs q mbX t first s)) := by
  rw [uvAll_eq]
  -- luma
  obtain ⟨yr, hY, hR1, hP1⟩ := yrows_sim prob probs t first q qm hq1 hq2 hc hfix hf mbX ov hov 4 0
    { tnz := tnz &&& 15, lnz := lnz &&& 15, nonZeroY := 0, store := store } s rfl (entry_y hF store ov hst)
  generalize yFold probs q mbX t first (List.range' 0 4) s = S1 at hY hR1 hP1 ⊢
  have hasz1 : 9 * mbX + 9 ≤ S1.2.1.size := by rw [hP1.asz]; exact hF.asz
  have hlsz1 : 9 ≤ S1.2.2.1.size := by rw [hP1.lsz]; exact hF.lsz
  -- U
  have hRU0 := entry_uv (mbX := mbX) (tnz := tnz) (lnz := lnz) (plane := 0) (by omega) (s := S1) hF.tb hF.lb
    (fun k hk => by rw [hP1.a (9 * mbX + 4 + 2 * 0 + k) (by omega), show 9 * mbX + 4 + 2 * 0 + k = 9 * mbX + (4 + 2 * 0 + k) by omega]; exact hF.t (4 + 2 * 0 + k) (by omega))
    (fun k hk => by rw [hP1.l (4 + 2 * 0 + k) (by omega)]; exact hF.l (4 + 2 * 0 + k) (by omega)) hasz1 hlsz1 yr.store ov hR1.st
  obtain ⟨ur, hU, hR2, hP2⟩ := uvrows_sim prob probs q qm hq3 hq4 hc2 hfix mbX 0 (by omega) ov hov2 2 0
    { tnz := tnz >>> 4, lnz := lnz >>> 4, nzCoeffs := 0, store := yr.store } S1 rfl hRU0
  generalize uvFold probs q mbX 0 (List.range' 0 2) S1 = S2 at hU hR2 hP2 ⊢
  have hasz2 : 9 * mbX + 9 ≤ S2.2.1.size := by rw [hP2.asz]; exact hasz1
  have hlsz2 : 9 ≤ S2.2.2.1.size := by rw [hP2.lsz]; exact hlsz1
  -- V
  have hRV0 := entry_uv (mbX := mbX) (tnz := tnz) (lnz := lnz) (plane := 1) (by omega) (s := S2) hF.tb hF.lb
    (fun k hk => by rw [hP2.a (9 * mbX + 4 + 2 * 1 + k) (by omega), hP1.a (9 * mbX + 4 + 2 * 1 + k) (by omega), show 9 * mbX + 4 + 2 * 1 + k = 9 * mbX + (4 + 2 * 1 + k) by omega]; exact hF.t (4 + 2 * 1 + k) (by omega))
    (fun k hk => by rw [hP2.l (4 + 2 * 1 + k) (by omega), hP1.l (4 + 2 * 1 + k) (by omega)]; exact hF.l (4 + 2 * 1 + k) (by omega)) hasz2 hlsz2 ur.store ov hR2.st
  obtain ⟨vr, hV, hR3, hP3⟩ := uvrows_sim prob probs q qm hq3 hq4 hc2 hfix mbX 1 (by omega) ov hov2 2 0
    { tnz := tnz >>> 6, lnz := lnz >>> 6, nzCoeffs := 0, store := ur.store } S2 rfl hRV0
  generalize uvFold probs q mbX 1 (List.range' 0 2) S2 = S3 at hV hR3 hP3 ⊢
  refine ⟨yr, ur, vr, hY, hU, hV, ?_, hR3.st, ?_⟩
  · -- the packed words
    have byt : yr.tnz < 16 := by rcases hR1.tb with h | h; omega; exact h
    have but : ur.tnz < 4 := by rcases hR2.tb with h | h; omega; exact h
    have bvt : vr.tnz < 4 := by rcases hR3.tb with h | h; omega; exact h
    have byl : yr.lnz >>> 4 < 16 := by have := hR1.ql.lt; rw [Nat.shiftRight_eq_div_pow]; omega
    have bul := mask_f0 ⟨ur.lnz, hR2.ql.lt⟩
    have bvl := mask_f0 ⟨vr.lnz, hR3.ql.lt⟩
    simp only at bul bvl
    rw [bul.1, bvl.1]
    refine ⟨fun k hk => ?_, fun k hk => ?_, by rw [hP3.asz]; exact hasz2, by rw [hP3.lsz]; exact hlsz2,
      (pack_bits ⟨yr.tnz, byt⟩ ⟨ur.tnz, but⟩ ⟨vr.tnz, bvt⟩ 0).2,
      (pack_bits ⟨yr.lnz >>> 4, byl⟩ ⟨ur.lnz >>> 4, bul.2⟩ ⟨vr.lnz >>> 4, bvl.2⟩ 0).2⟩
    · rw [(pack_bits ⟨yr.tnz, byt⟩ ⟨ur.tnz, but⟩ ⟨vr.tnz, bvt⟩ ⟨k, hk⟩).1]
      simp only
      by_cases h4 : k < 4
      · rw [if_pos h4, hP3.a _ (by omega), hP2.a _ (by omega), hR1.qa.un k (by omega)]
        congr 1
      · rw [if_neg h4]
        by_cases h6 : k < 6
        · rw [if_pos h6, hP3.a _ (by omega), hR2.qa.un (k - 4) (by omega)]
          congr 1; omega
        · rw [if_neg h6, hR3.qa.un (k - 6) (by omega)]
          congr 1; omega
    · rw [(pack_bits ⟨yr.lnz >>> 4, byl⟩ ⟨ur.lnz >>> 4, bul.2⟩ ⟨vr.lnz >>> 4, bvl.2⟩ ⟨k, hk⟩).1]
      simp only
      by_cases h4 : k < 4
      · rw [if_pos h4, hP3.l _ (by omega), hP2.l _ (by omega), bit_shr]
        have := hR1.ql.up k (by omega)
        rw [Nat.zero_add] at this
        rw [← this] <;> (congr 1; omega)
      · rw [if_neg h4]
        by_cases h6 : k < 6
        · rw [if_pos h6, hP3.l _ (by omega), bit_shr]
          have := hR2.ql.up (k - 4) (by omega)
          rw [show 4 + 2 * 0 + (k - 4) = k by omega] at this
          rw [← this] <;> (congr 1; omega)
        · rw [if_neg h6, bit_shr]
          have := hR3.ql.up (k - 6) (by omega)
          rw [show 4 + 2 * 1 + (k - 6) = k by omega] at this
          rw [← this] <;> (congr 1; omega)
  · exact ⟨fun i hi => by rw [hP3.a _ (by omega), hP2.a _ (by omega), hP1.a _ (by omega)],
      fun i hi => by rw [hP3.l _ (by omega), hP2.l _ (by omega), hP1.l _ (by omega)],
      hP3.asz.trans (hP2.asz.trans hP1.asz), hP3.lsz.trans (hP2.lsz.trans hP1.lsz)⟩

end Webp.Proofs.C04RefineResid
