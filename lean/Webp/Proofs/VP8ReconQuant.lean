import Webp.Impl.VP8Recon
/-
  C06 helper: the decoder's dequantisation factors (`ParseQuant`) equal the encoder's
  (`setupSegment`) for what the encoder writes into the frame header.
-/
namespace Webp.Proofs.VP8ReconQuant
open Webp.Impl.VP8Recon Webp.Spec.VP8

theorem signedField_id (n : Nat) (v : Int) (h : v.natAbs < 2 ^ n) : signedField n v = v := by
  unfold signedField
  rw [Nat.mod_eq_of_lt h]
  split
  · omega
  · split <;> omega

theorem clip_eq_clampInt (v m : Int) (_hm : 0 ≤ m) : clip v m = clampInt v 0 m := by
  unfold clip clampInt; rfl

theorem clampInt_range (v lo hi : Int) (h : lo ≤ hi) : lo ≤ clampInt v lo hi ∧ clampInt v lo hi ≤ hi := by
  unfold clampInt; split
  · omega
  · split <;> omega

/-- table fact: `2·KDcTable[i] ≥ 8` -/
theorem dcTab_ge (i : Fin 128) : ¬ (dcTab (i.val : Int) * 2 < 8) := by
  revert i; decide +kernel

/-- table fact: the encoder's `KAcTable2` is the decoder's `max 8 ((KAcTable·101581) >> 16)` -/
theorem acTab2_eq (i : Fin 128) :
    (let v := (acTab (i.val : Int) * 101581) >>> 16; if v < 8 then 8 else v) = acTab2 (i.val : Int) := by
  revert i; decide +kernel

theorem dcTab_ge' (x : Int) (h0 : 0 ≤ x) (h1 : x ≤ 127) : ¬ (dcTab x * 2 < 8) := by
  have := dcTab_ge ⟨x.toNat, by omega⟩
  simpa [Int.toNat_of_nonneg h0] using this

theorem acTab2_eq' (x : Int) (h0 : 0 ≤ x) (h1 : x ≤ 127) :
    (let v := (acTab x * 101581) >>> 16; if v < 8 then 8 else v) = acTab2 x := by
  have := acTab2_eq ⟨x.toNat, by omega⟩
  simpa [Int.toNat_of_nonneg h0] using this

theorem clampInt_id (v lo hi : Int) (h : lo ≤ v ∧ v ≤ hi) : clampInt v lo hi = v := by
  unfold clampInt; split
  · omega
  · split <;> omega

theorem wrap8_id (x : Int) (h : -128 ≤ x ∧ x ≤ 127) : wrap8 x = x := by unfold wrap8; omega

/-- the quantiser index the decoder derives for a segment the encoder uses is the encoder's -/
theorem decSegQ_encHeader (st : EncQuant) (wf : st.WF) (s : Fin 4) (hs : s.val < st.numSegs) :
    decSegQ (encHeader st) s = st.quant s := by
  unfold decSegQ
  have hq := wf.quant s
  have hq0 := wf.quant 0
  by_cases h1 : st.numSegs > 1
  · simp only [encHeader, h1, decide_true, if_true, hs]
    rw [clampInt_id _ _ _ (by omega), wrap8_id _ (by omega)]
    exact signedField_id 7 _ (by omega)
  · have : s = 0 := by apply Fin.ext; simp; omega
    subst this
    simp only [encHeader, h1, decide_false, Bool.false_eq_true, if_false]
    omega

theorem dequant_agree (st : EncQuant) (wf : st.WF) (s : Fin 4) (hs : s.val < st.numSegs) :
    decQuantMatrix (encHeader st) s = encQuantMatrix st s := by
  have hq := wf.quant s
  have e1 := signedField_id 4 st.dqY1DC (by have := wf.d1; omega)
  have e2 := signedField_id 4 st.dqY2DC (by have := wf.d2; omega)
  have e3 := signedField_id 4 st.dqY2AC (by have := wf.d3; omega)
  have e4 := signedField_id 4 st.dqUVDC (by have := wf.d4; omega)
  have e5 := signedField_id 4 st.dqUVAC (by have := wf.d5; omega)
  unfold decQuantMatrix encQuantMatrix
  rw [decSegQ_encHeader st wf s hs]
  simp only [encHeader, e1, e2, e3, e4, e5]
  simp only [clip_eq_clampInt _ 127 (by omega), clip_eq_clampInt _ 117 (by omega)]
  have r2 := clampInt_range (st.quant s + st.dqY2DC) 0 127 (by omega)
  have r3 := clampInt_range (st.quant s + st.dqY2AC) 0 127 (by omega)
  rw [acTab2_eq' _ r3.1 r3.2, if_neg (dcTab_ge' _ r2.1 r2.2)]

end Webp.Proofs.VP8ReconQuant
