import Webp.Impl.Partition
import Webp.Proofs.RowPipe
/-
  Proofs about the fan-out partition formulas (`Webp.Impl.Partition`).
-/
namespace Webp.Impl.Partition
open Webp.Impl.RowPipe (upd upd_same upd_ne)

theorem mono_of_step (b : Nat → Nat) (n : Nat) (h : ∀ i, i < n → b i ≤ b (i + 1)) :
    ∀ d i, i + d ≤ n → b i ≤ b (i + d)
  | 0, _, _ => Nat.le_refl _
  | d + 1, i, hle => by
    have := mono_of_step b n h d i (by omega)
    have := h (i + d) (by omega)
    show b i ≤ b (i + d + 1)
    omega

theorem mono_of_step' (b : Nat → Nat) (n : Nat) (h : ∀ i, i < n → b i ≤ b (i + 1))
    {i j : Nat} (hij : i ≤ j) (hj : j ≤ n) : b i ≤ b j := by
  have := mono_of_step b n h (j - i) i (by omega)
  rwa [Nat.add_sub_cancel' hij] at this

/-- Consecutive monotone boundaries `b 0 = lo ≤ b 1 ≤ … ≤ b n = hi` give an exact partition. -/
theorem exact_of_boundaries (S : Scheme) (lo hi : Nat) (b : Nat → Nat)
    (hmono : ∀ i, i < S.n → b i ≤ b (i + 1)) (h0 : b 0 = lo) (hn : b S.n = hi)
    (hmem : ∀ i k, i < S.n → (S.mem i k ↔ b i ≤ k ∧ k < b (i + 1))) : Exact S lo hi := by
  constructor
  · intro k hlo hhi
    have aux : ∀ m, m ≤ S.n → k < b m → ∃ i, i < m ∧ b i ≤ k ∧ k < b (i + 1) := by
      intro m
      induction m with
      | zero => intro _ hk; omega
      | succ m ih =>
        intro hm hk
        by_cases hk' : k < b m
        · obtain ⟨i, hi, h1, h2⟩ := ih (by omega) hk'
          exact ⟨i, by omega, h1, h2⟩
        · exact ⟨m, by omega, by omega, hk⟩
    obtain ⟨i, hi, h1, h2⟩ := aux S.n (Nat.le_refl _) (by omega)
    exact ⟨i, hi, (hmem i k hi).mpr ⟨h1, h2⟩⟩
  · intro i k hi hm
    obtain ⟨h1, h2⟩ := (hmem i k hi).mp hm
    have a := mono_of_step' b S.n hmono (Nat.zero_le i) (by omega)
    have c := mono_of_step' b S.n hmono (show i + 1 ≤ S.n by omega) (Nat.le_refl _)
    omega
  · intro i j k k' hij hj hm hm'
    obtain ⟨_, h2⟩ := (hmem i k (by omega)).mp hm
    obtain ⟨h1', _⟩ := (hmem j k' hj).mp hm'
    have := mono_of_step' b S.n hmono (show i + 1 ≤ j by omega) (by omega)
    omega

theorem Exact.disjoint {S : Scheme} {lo hi : Nat} (h : Exact S lo hi) {i j k : Nat}
    (hi' : i < S.n) (hj : j < S.n) (hne : i ≠ j) (hm : S.mem i k) : ¬ S.mem j k := by
  intro hm'
  rcases Nat.lt_or_gt_of_ne hne with hlt | hgt
  · have := h.ordered i j k k hlt hj hm hm'; omega
  · have := h.ordered j i k k hgt hi' hm' hm; omega

/-! ### A -/

theorem exact_A (H n : Nat) (hn : 0 < n) : Exact (schemeA H n) 0 H := by
  apply exact_of_boundaries (schemeA H n) 0 H (fun i => i * H / n)
  · intro i _
    apply Nat.div_le_div_right
    exact Nat.mul_le_mul_right H (by omega)
  · simp
  · show n * H / n = H
    exact Nat.mul_div_cancel_left H hn
  · intro i k _; rfl

/-- with `n ≤ H` (the clamp `if nWorkers > padH { nWorkers = padH }`) no worker is idle -/
theorem nonempty_A (H n i : Nat) (hn : 0 < n) (hle : n ≤ H) :
    (schemeA H n).st i < (schemeA H n).en i := by
  show i * H / n < (i + 1) * H / n
  have h1 : (i + 1) * H = i * H + H := by rw [Nat.add_mul, Nat.one_mul]
  have h2 : i * H / n + 1 ≤ (i * H + n) / n := by
    rw [Nat.add_div_right _ hn]; exact Nat.le_refl _
  have h3 : (i * H + n) / n ≤ (i * H + H) / n := Nat.div_le_div_right (by omega)
  rw [h1]; omega

/-! ### C -/

theorem exact_C_aux (lo H n q : Nat) (hn : 0 < n) (hq : n * q ≤ H) (S : Scheme) (hSn : S.n = n)
    (hst : ∀ i, S.st i = lo + i * q)
    (hen : ∀ i, S.en i = if i = n - 1 then lo + H else lo + i * q + q) :
    Exact S lo (lo + H) := by
  have hq' : ∀ i, i < n → i * q + q ≤ H := by
    intro i hi
    have : (i + 1) * q ≤ n * q := Nat.mul_le_mul_right _ (by omega)
    rw [Nat.add_mul, Nat.one_mul] at this
    omega
  apply exact_of_boundaries S lo (lo + H) (fun i => if i = n then lo + H else lo + i * q)
  · intro i hi
    rw [hSn] at hi
    have := hq' i hi
    by_cases e : i + 1 = n
    · have e' : i ≠ n := by omega
      simp only [e, e', if_true, if_false]; omega
    · have e' : i ≠ n := by omega
      simp only [e, e', if_false, Nat.add_mul, Nat.one_mul]; omega
  · have : (0 : Nat) ≠ n := by omega
    simp [this]
  · simp [hSn]
  · intro i k hi
    rw [hSn] at hi
    have e' : i ≠ n := by omega
    simp only [Scheme.mem, hst, hen, e', if_false]
    by_cases e : i = n - 1
    · have e2 : i + 1 = n := by omega
      simp only [e2, if_true]
      rw [if_pos e]
    · have e2 : i + 1 ≠ n := by omega
      simp only [e2, if_false, Nat.add_mul, Nat.one_mul]
      rw [if_neg e]; omega

theorem exact_C (lo H n : Nat) (hn : 0 < n) : Exact (schemeC lo H n) lo (lo + H) :=
  exact_C_aux lo H n (H / n) hn (Nat.mul_div_le H n) (schemeC lo H n) rfl (fun _ => rfl)
    (fun _ => rfl)

/-! ### D -/

theorem ceil_mul_ge (H n : Nat) (hn : 0 < n) : H ≤ n * ((H + n - 1) / n) := by
  have h1 := Nat.div_add_mod (H + n - 1) n
  have h2 := Nat.mod_lt (H + n - 1) hn
  omega

theorem exact_D_aux (lo H n c : Nat) (hc : H ≤ n * c) (S : Scheme) (hSn : S.n = n)
    (hst : ∀ i, S.st i = lo + i * c) (hen : ∀ i, S.en i = min (lo + i * c + c) (lo + H)) :
    Exact S lo (lo + H) := by
  apply exact_of_boundaries S lo (lo + H) (fun i => min (lo + i * c) (lo + H))
  · intro i _
    simp only [Nat.add_mul, Nat.one_mul]; omega
  · simp
  · simp only [hSn]; omega
  · intro i k _
    simp only [Scheme.mem, hst, hen, Nat.add_mul, Nat.one_mul]; omega

theorem exact_D (lo H n : Nat) (hn : 0 < n) : Exact (schemeD lo H n) lo (lo + H) :=
  exact_D_aux lo H n ((H + n - 1) / n) (ceil_mul_ge H n hn) (schemeD lo H n) rfl (fun _ => rfl)
    (fun _ => rfl)

/-- `computeAlphas` stops launching workers at the first empty range (`if startY >= endY { break }`):
    nothing is lost, because every later range is empty too. -/
theorem schemeD_break (lo H n i j : Nat) (hij : i ≤ j)
    (he : (schemeD lo H n).en i ≤ (schemeD lo H n).st i) (k : Nat) : ¬ (schemeD lo H n).mem j k := by
  have hm : i * ((H + n - 1) / n) ≤ j * ((H + n - 1) / n) := Nat.mul_le_mul_right _ hij
  simp only [Scheme.mem, schemeD] at he ⊢
  generalize (H + n - 1) / n = c at *
  omega

/-! ### per-element maps -/

theorem runWrites_eq {β : Type} (g : Nat → β) : ∀ (ws : List Nat) (out : Nat → β) (k : Nat),
    runWrites g out ws k = if k ∈ ws then g k else out k
  | [], out, k => by simp [runWrites]
  | w :: ws, out, k => by
    simp only [runWrites]
    rw [runWrites_eq g ws]
    by_cases h1 : k ∈ ws
    · simp [h1]
    · by_cases h2 : k = w
      · subst h2; simp [h1]
      · simp [h1, h2, upd_ne]

theorem serialMap_eq {β : Type} (g : Nat → β) (out : Nat → β) (lo hi k : Nat) :
    serialMap g out lo hi k = if lo ≤ k ∧ k < hi then g k else out k := by
  unfold serialMap
  rw [runWrites_eq]
  have : k ∈ List.range' lo (hi - lo) ↔ lo ≤ k ∧ k < hi := by
    rw [List.mem_range'_1]; omega
  simp only [this]

theorem mem_workerLog (S : Scheme) (i k : Nat) : k ∈ workerLog S i ↔ S.mem i k := by
  unfold workerLog Scheme.mem
  rw [List.mem_range'_1]; omega

/-- Any log of element writes whose written indices are exactly the union of the workers'
    ranges — in any order, interleaved in any way — leaves the array the serial loop leaves. -/
theorem parMap_eq_serialMap_of_exact {β : Type} {S : Scheme} {lo hi : Nat} (hex : Exact S lo hi)
    (g : Nat → β) (out : Nat → β) (ws : List Nat)
    (hws : ∀ k, k ∈ ws ↔ ∃ i, i < S.n ∧ S.mem i k) :
    runWrites g out ws = serialMap g out lo hi := by
  funext k
  rw [runWrites_eq, serialMap_eq]
  have : k ∈ ws ↔ lo ≤ k ∧ k < hi := by
    rw [hws]
    constructor
    · rintro ⟨i, hi', hm⟩; exact hex.inRange i k hi' hm
    · rintro ⟨h1, h2⟩; exact hex.cover k h1 h2
  simp only [this]

/-! ### the channel queue -/

variable {Img Err : Type}

theorem collectStep_ok (acc : (Nat → Option Img) × Option Err) (i : Nat) (img : Img) :
    collectStep acc (i, .ok img) = (upd acc.1 i (some img), acc.2) := rfl

theorem collectStep_err_none (f : Nat → Option Img) (i : Nat) (e : Err) :
    collectStep (f, none) (i, .err e) = (f, some e) := rfl

theorem collectStep_err_some (f : Nat → Option Img) (i : Nat) (e e0 : Err) :
    collectStep (f, some e0) (i, .err e) = (f, some e0) := rfl

/-- images after the collector loop, for results with pairwise distinct frame indices -/
theorem collect_img (rs : List (Nat × DecRes Img Err)) :
    ∀ (frames : Nat → Option Img) (e : Option Err), (rs.map Prod.fst).Nodup → ∀ k,
    (rs.foldl collectStep (frames, e)).1 k
    = (match rs.find? (fun r => r.1 == k) with
       | some (_, .ok img) => some img
       | _ => frames k) := by
  induction rs with
  | nil => intro frames e _ k; rfl
  | cons r rs ih =>
    intro frames e hnd k
    rw [List.foldl_cons]
    have hnd' : (rs.map Prod.fst).Nodup := (List.nodup_cons.mp hnd).2
    have hnot : r.1 ∉ rs.map Prod.fst := (List.nodup_cons.mp hnd).1
    obtain ⟨idx, res⟩ := r
    by_cases hk : idx = k
    · subst hk
      have hnone : rs.find? (fun r => r.1 == idx) = none := by
        rw [List.find?_eq_none]
        intro x hx hxe
        apply hnot
        simp only [beq_iff_eq] at hxe
        exact List.mem_map.mpr ⟨x, hx, hxe⟩
      simp only [List.find?_cons, beq_self_eq_true]
      cases res with
      | ok img => rw [collectStep_ok, ih _ _ hnd', hnone]; simp
      | err e' =>
        cases e with
        | none => rw [collectStep_err_none, ih _ _ hnd', hnone]
        | some e0 => rw [collectStep_err_some, ih _ _ hnd', hnone]
    · have hb : (idx == k) = false := by simp [hk]
      simp only [List.find?_cons, hb]
      cases res with
      | ok img =>
        rw [collectStep_ok, ih _ _ hnd']
        have : upd frames idx (some img) k = frames k := upd_ne _ _ (Ne.symm hk)
        simp only [this]
      | err e' =>
        cases e with
        | none => rw [collectStep_err_none, ih _ _ hnd']
        | some e0 => rw [collectStep_err_some, ih _ _ hnd']

/-- whether *an* error is reported does not depend on the arrival order -/
theorem collect_err_isSome (rs : List (Nat × DecRes Img Err)) :
    ∀ (frames : Nat → Option Img) (e : Option Err),
    (rs.foldl collectStep (frames, e)).2.isSome
    = (e.isSome || rs.any (fun r => match r.2 with | .err _ => true | .ok _ => false)) := by
  induction rs with
  | nil => intro frames e; simp
  | cons r rs ih =>
    intro frames e
    rw [List.foldl_cons]
    obtain ⟨idx, res⟩ := r
    cases res with
    | ok img => rw [collectStep_ok, ih]; simp
    | err e' =>
      cases e with
      | none => rw [collectStep_err_none, ih]; simp
      | some e0 => rw [collectStep_err_some, ih]; simp

end Webp.Impl.Partition
