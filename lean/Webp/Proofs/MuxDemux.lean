import Webp.Proofs.MuxChunk
/-
  The demuxer's three chunk loops (`extLoop`, `singleExtLoop`, `anmfSubChunks`) on serialised
  chunk lists: position-shift invariance, fuel irrelevance, and one-chunk step lemmas.
-/
namespace Webp.Proofs.MuxDemux
open Webp.Go Webp.Impl Webp.Impl.Demux Webp.Proofs.MuxBytes Webp.Proofs.MuxChunk
open Webp.Spec.Riff (RawChunk)
open Webp.Impl.Parser (ccRIFF ccWEBP ccVP8 ccVP8L ccVP8X ccALPH ccANIM ccANMF ccICCP ccEXIF ccXMP
  chunkHeaderSize maxChunkPayload)

theorem sliceFrom_shift {ε} (pre body : Bytes) (p : Nat) :
    (sliceFrom (pre ++ body) (pre.length + p) : Res ε Bytes) = sliceFrom body p := by
  unfold sliceFrom
  have h : List.drop (pre.length + p) pre = [] := List.drop_eq_nil_of_le (by omega)
  simp only [List.length_append, Nat.add_le_add_iff_left, List.drop_append, h]
  simp

theorem ite_cases {p : Prop} [Decidable p] (a b n : Nat) :
    (if p then a else b) = n ↔ (p ∧ n = a) ∨ (¬ p ∧ n = b) := by
  by_cases h : p <;> simp [h, eq_comm]

theorem readChunk_consumed {t : Bytes} {c : Demux.Chunk} {n : Nat}
    (h : readChunk t = .ok (c, n)) : 8 ≤ n ∧ n ≤ t.length := by
  unfold readChunk at h
  cases hh : readChunkHeader t with
  | ok p =>
    obtain ⟨id, size⟩ := p
    rw [hh] at h
    simp only [Res.bind_ok, chunkHeaderSize] at h
    by_cases h3 : 8 + size > t.length
    · simp [h3] at h
    · simp only [h3, if_false, slice] at h
      rw [if_pos (by omega)] at h
      simp only [Res.bind_ok, Res.pure_eq, Res.ok.injEq, Prod.mk.injEq] at h
      obtain ⟨_, hn⟩ := h
      by_cases hq : size % 2 ≠ 0 ∧ 8 + size < t.length
      · have := (ite_cases (p := size % 2 ≠ 0 ∧ 8 + size < t.length) (8 + size + 1) (8 + size) n).mp ?_
        · omega
        · exact hn
      · have := (ite_cases (p := size % 2 ≠ 0 ∧ 8 + size < t.length) (8 + size + 1) (8 + size) n).mp ?_
        · omega
        · exact hn
  | err e => rw [hh] at h; simp at h
  | panic => rw [hh] at h; simp at h
  | hang => rw [hh] at h; simp at h

/-- the body of `extLoop` for one chunk (verbatim) -/
def extBody (st : State) (c : Demux.Chunk) (tail : Bytes) : R State :=
  let st := { st with chunks := st.chunks ++ [c] }
  if c.id = ccICCP then
    (if c.data.length > Parser.maxMetadataSize then (.err .metadataTooLarge : R State)
     else pure { st with iccData := some c.data })
  else if c.id = ccEXIF then
    (if c.data.length > Parser.maxMetadataSize then (.err .metadataTooLarge : R State)
     else pure { st with exifData := some c.data })
  else if c.id = ccXMP then
    (if c.data.length > Parser.maxMetadataSize then (.err .metadataTooLarge : R State)
     else pure { st with xmpData := some c.data })
  else if c.id = ccANIM then
    (if st.features.hasAnimation then parseANIM st c.data else pure st)
  else if c.id = ccANMF then
    (if st.features.hasAnimation then parseANMF st c.data else (.err .invalidANMF : R State))
  else if c.id = ccVP8 ∨ c.id = ccVP8L ∨ c.id = ccALPH then
    (if !st.features.hasAnimation ∧ st.frames.length = 0 then
       parseSingleExtendedFrame st tail
     else pure st)
  else pure st

/-- what `extLoop` does with the bytes from `pos` on; `k` is the rest of the loop -/
def extCont (st : State) (tail : Bytes) (k : State → Nat → R State) : R State :=
  match readChunk tail with
  | .err _ => .ok st
  | .panic => .panic
  | .hang => .hang
  | .ok (c, n) => extBody st c tail >>= fun st' => k st' n

theorem extCont_ok {st : State} {tail : Bytes} {k : State → Nat → R State} {c : Demux.Chunk} {n : Nat}
    (h : readChunk tail = .ok (c, n)) : extCont st tail k = extBody st c tail >>= fun st' => k st' n := by
  unfold extCont; rw [h]

theorem extCont_congr {st : State} {tail : Bytes} {k1 k2 : State → Nat → R State}
    (h : ∀ c n st', readChunk tail = .ok (c, n) → k1 st' n = k2 st' n) :
    extCont st tail k1 = extCont st tail k2 := by
  unfold extCont
  cases hr : readChunk tail with
  | ok cn =>
    obtain ⟨c, n⟩ := cn
    simp only []
    congr 1
    funext st'
    exact h c n st' hr
  | err e => rfl
  | panic => rfl
  | hang => rfl

theorem extLoop_succ (fuel : Nat) (st : State) (payload : Bytes) (pos : Nat) :
    extLoop (fuel + 1) st payload pos =
      (if pos + chunkHeaderSize > payload.length then .ok st
       else sliceFrom payload pos >>= fun tail =>
         extCont st tail (fun st' n => extLoop fuel st' payload (pos + n))) := by
  rw [extLoop]
  split
  · rfl
  · cases (sliceFrom payload pos : R Bytes) with
    | ok tail =>
      simp only [Res.bind_ok, extCont]
      cases readChunk tail with
      | ok cn =>
        obtain ⟨c, n⟩ := cn
        simp only [extBody]
        repeat (first | rfl | split)
      | err e => rfl
      | panic => rfl
      | hang => rfl
    | err e => rfl
    | panic => rfl
    | hang => rfl

/-- the loop only looks at the bytes from `pos` on -/
theorem extLoop_shift (pre body : Bytes) : ∀ (fuel : Nat) (st : State) (p : Nat),
    extLoop fuel st (pre ++ body) (pre.length + p) = extLoop fuel st body p := by
  intro fuel
  induction fuel with
  | zero => intros; rfl
  | succ n ih =>
    intro st p
    rw [extLoop_succ, extLoop_succ, sliceFrom_shift]
    by_cases hb : p + chunkHeaderSize > body.length
    · rw [if_pos hb, if_pos (by simp only [List.length_append]; omega)]
    · rw [if_neg hb, if_neg (by simp only [List.length_append]; omega)]
      congr 1
      funext tail
      apply extCont_congr
      intro c k st' _
      rw [Nat.add_assoc, ih]

/-- any fuel above the number of remaining bytes gives the same result -/
theorem extLoop_fuel (payload : Bytes) : ∀ (f1 f2 : Nat) (st : State) (pos : Nat),
    payload.length - pos < f1 → payload.length - pos < f2 →
    extLoop f1 st payload pos = extLoop f2 st payload pos := by
  intro f1
  induction f1 with
  | zero => intros; omega
  | succ n ih =>
    intro f2 st pos h1 h2
    cases f2 with
    | zero => omega
    | succ m =>
      rw [extLoop_succ, extLoop_succ]
      split
      · rfl
      · rename_i hlen
        simp only [chunkHeaderSize] at hlen
        congr 1
        funext tail
        apply extCont_congr
        intro c k st' hr
        have := (readChunk_consumed hr).1
        exact ih m st' (pos + k) (by omega) (by omega)

/-- `extLoop` from position 0 with enough fuel -/
def extRun (st : State) (b : Bytes) : R State := extLoop (b.length + 1) st b 0

theorem extLoop_eq_extRun (fuel : Nat) (st : State) (pre body : Bytes) (h : body.length < fuel) :
    extLoop fuel st (pre ++ body) pre.length = extRun st body := by
  have := extLoop_shift pre body fuel st 0
  rw [Nat.add_zero] at this
  rw [this]
  exact extLoop_fuel body _ _ st 0 (by omega) (by omega)

theorem extRun_nil (st : State) : extRun st [] = .ok st := by
  unfold extRun
  rw [extLoop_succ]
  rfl

theorem extRun_ser (st : State) (c : RawChunk) (r : Bytes) (hid : c.id < 4294967296)
    (hlen : c.data.length ≤ maxChunkPayload) :
    extRun st (ser c ++ r) =
      extBody st ⟨c.id, c.data.length, c.data⟩ (ser c ++ r) >>= fun st' => extRun st' r := by
  unfold extRun
  rw [extLoop_succ]
  have hl : (ser c ++ r).length = padLen c.data.length + r.length := by simp [ser_length]
  have hne : ¬ (0 + chunkHeaderSize > (ser c ++ r).length) := by
    rw [hl, padLen, chunkHeaderSize]; omega
  rw [if_neg hne]
  have hs : (sliceFrom (ser c ++ r) 0 : R Bytes) = .ok (ser c ++ r) := by simp [sliceFrom]
  rw [hs, Res.bind_ok, extCont_ok (readChunk_ser c r hid hlen)]
  congr 1
  funext st'
  have := extLoop_eq_extRun ((ser c ++ r).length) st' (ser c) r (by rw [hl, padLen]; omega)
  rw [Nat.zero_add]
  exact this

/-! ### `singleExtLoop` (parseSingleExtendedFrame) -/

def singleCont (tail : Bytes) (alph : Option Bytes)
    (k : Nat → Option Bytes → R (Option Bytes × Option Bytes)) : R (Option Bytes × Option Bytes) :=
  match readChunk tail with
  | .err _ => .ok (none, alph)
  | .panic => .panic
  | .hang => .hang
  | .ok (c, n) =>
    if c.id = ccALPH then k n (some c.data)
    else if c.id = ccVP8 ∨ c.id = ccVP8L then .ok (some c.data, alph)
    else k n alph

theorem singleCont_ok {tail : Bytes} {alph : Option Bytes} {k} {c : Demux.Chunk} {n : Nat}
    (h : readChunk tail = .ok (c, n)) :
    singleCont tail alph k =
      if c.id = ccALPH then k n (some c.data)
      else if c.id = ccVP8 ∨ c.id = ccVP8L then .ok (some c.data, alph)
      else k n alph := by
  unfold singleCont; rw [h]

theorem singleCont_congr {tail : Bytes} {alph : Option Bytes} {k1 k2}
    (h : ∀ c n a, readChunk tail = .ok (c, n) → k1 n a = k2 n a) :
    singleCont tail alph k1 = singleCont tail alph k2 := by
  unfold singleCont
  cases hr : readChunk tail with
  | ok cn =>
    obtain ⟨c, n⟩ := cn
    simp only []
    rw [h c n _ hr, h c n _ hr]
  | err e => rfl
  | panic => rfl
  | hang => rfl

theorem singleExtLoop_succ (fuel : Nat) (payload : Bytes) (pos : Nat) (alph : Option Bytes) :
    singleExtLoop (fuel + 1) payload pos alph =
      (if pos + chunkHeaderSize > payload.length then .ok (none, alph)
       else sliceFrom payload pos >>= fun tail =>
         singleCont tail alph (fun n a => singleExtLoop fuel payload (pos + n) a)) := by
  rw [singleExtLoop]
  split
  · rfl
  · cases (sliceFrom payload pos : R Bytes) with
    | ok tail =>
      simp only [Res.bind_ok, singleCont]
      cases readChunk tail with
      | ok cn => rfl
      | err e => rfl
      | panic => rfl
      | hang => rfl
    | err e => rfl
    | panic => rfl
    | hang => rfl

theorem singleExtLoop_shift (pre body : Bytes) : ∀ (fuel : Nat) (p : Nat) (alph : Option Bytes),
    singleExtLoop fuel (pre ++ body) (pre.length + p) alph = singleExtLoop fuel body p alph := by
  intro fuel
  induction fuel with
  | zero => intros; rfl
  | succ n ih =>
    intro p alph
    rw [singleExtLoop_succ, singleExtLoop_succ, sliceFrom_shift]
    by_cases hb : p + chunkHeaderSize > body.length
    · rw [if_pos hb, if_pos (by simp only [List.length_append]; omega)]
    · rw [if_neg hb, if_neg (by simp only [List.length_append]; omega)]
      congr 1
      funext tail
      apply singleCont_congr
      intro c k a _
      rw [Nat.add_assoc, ih]

theorem singleExtLoop_fuel (payload : Bytes) : ∀ (f1 f2 : Nat) (pos : Nat) (alph : Option Bytes),
    payload.length - pos < f1 → payload.length - pos < f2 →
    singleExtLoop f1 payload pos alph = singleExtLoop f2 payload pos alph := by
  intro f1
  induction f1 with
  | zero => intros; omega
  | succ n ih =>
    intro f2 pos alph h1 h2
    cases f2 with
    | zero => omega
    | succ m =>
      rw [singleExtLoop_succ, singleExtLoop_succ]
      split
      · rfl
      · rename_i hlen
        simp only [chunkHeaderSize] at hlen
        congr 1
        funext tail
        apply singleCont_congr
        intro c k a hr
        have := (readChunk_consumed hr).1
        exact ih m (pos + k) a (by omega) (by omega)

def singleRun (b : Bytes) (alph : Option Bytes) : R (Option Bytes × Option Bytes) :=
  singleExtLoop (b.length + 1) b 0 alph

theorem singleRun_nil (alph : Option Bytes) : singleRun [] alph = .ok (none, alph) := by
  unfold singleRun
  rw [singleExtLoop_succ]
  rfl

theorem singleRun_ser (c : RawChunk) (r : Bytes) (alph : Option Bytes) (hid : c.id < 4294967296)
    (hlen : c.data.length ≤ maxChunkPayload) :
    singleRun (ser c ++ r) alph =
      if c.id = ccALPH then singleRun r (some c.data)
      else if c.id = ccVP8 ∨ c.id = ccVP8L then .ok (some c.data, alph)
      else singleRun r alph := by
  unfold singleRun
  rw [singleExtLoop_succ]
  have hl : (ser c ++ r).length = padLen c.data.length + r.length := by simp [ser_length]
  have hne : ¬ (0 + chunkHeaderSize > (ser c ++ r).length) := by
    rw [hl, padLen, chunkHeaderSize]; omega
  rw [if_neg hne]
  have hs : (sliceFrom (ser c ++ r) 0 : R Bytes) = .ok (ser c ++ r) := by simp [sliceFrom]
  rw [hs, Res.bind_ok, singleCont_ok (readChunk_ser c r hid hlen)]
  have key : ∀ a, singleExtLoop (ser c ++ r).length (ser c ++ r) (0 + (ser c).length) a =
      singleExtLoop (r.length + 1) r 0 a := by
    intro a
    have h1 := singleExtLoop_shift (ser c) r (ser c ++ r).length 0 a
    rw [Nat.add_zero] at h1
    rw [Nat.zero_add, h1]
    exact singleExtLoop_fuel r _ _ 0 a (by rw [hl, padLen]; omega) (by omega)
  simp only [key]

/-! ### `anmfSubChunks` (parseANMF) -/

theorem slice_shift {ε} (pre body : Bytes) (a b : Nat) :
    (slice (pre ++ body) (pre.length + a) (pre.length + b) : Res ε Bytes) = slice body a b := by
  unfold slice
  have h1 : (pre.length + a ≤ pre.length + b ∧ pre.length + b ≤ (pre ++ body).length) = (a ≤ b ∧ b ≤ body.length) := by
    simp only [List.length_append]; apply propext; omega
  have h2 : ((pre ++ body).take (pre.length + b)).drop (pre.length + a) = (body.take b).drop a := by
    rw [List.take_append, List.drop_append]
    have e1 : List.take (pre.length + b) pre = pre := List.take_of_length_le (by omega)
    have e2 : pre.length + b - pre.length = b := by omega
    rw [e1, e2]
    have e3 : List.drop (pre.length + a) pre = [] := List.drop_eq_nil_of_le (by omega)
    have e4 : pre.length + a - pre.length = a := by omega
    rw [e3, e4]; rfl
  simp only [h1, h2]

abbrev OO := Option Bytes × Option Bytes

def anmfCont (fp : Bytes) (pos : Nat) (tail : Bytes) (img alph : Option Bytes)
    (k : Nat → Option Bytes → Option Bytes → R OO) : R OO :=
  match readChunkHeader tail with
  | .err _ => .ok (img, alph)
  | .panic => .panic
  | .hang => .hang
  | .ok (subID, subSize) =>
    if chunkHeaderSize + subSize > tail.length then .ok (img, alph)
    else slice fp (pos + chunkHeaderSize) (pos + (chunkHeaderSize + subSize)) >>= fun subData =>
      k (if subSize % 2 ≠ 0 ∧ pos + (chunkHeaderSize + subSize) < fp.length then chunkHeaderSize + subSize + 1
         else chunkHeaderSize + subSize)
        (if subID = ccVP8 ∨ subID = ccVP8L then some subData else img)
        (if subID = ccVP8 ∨ subID = ccVP8L then alph else if subID = ccALPH then some subData else alph)

theorem anmfSubChunks_succ (fuel : Nat) (fp : Bytes) (pos : Nat) (img alph : Option Bytes) :
    anmfSubChunks (fuel + 1) fp pos img alph =
      (if pos + chunkHeaderSize > fp.length then .ok (img, alph)
       else sliceFrom fp pos >>= fun tail =>
         anmfCont fp pos tail img alph (fun n i a => anmfSubChunks fuel fp (pos + n) i a)) := by
  rw [anmfSubChunks]
  split
  · rfl
  · cases (sliceFrom fp pos : R Bytes) with
    | ok tail =>
      simp only [Res.bind_ok, anmfCont]
      cases readChunkHeader tail with
      | ok cn =>
        obtain ⟨id, sz⟩ := cn
        simp only []
        split
        · rfl
        · cases (slice fp (pos + chunkHeaderSize) (pos + (chunkHeaderSize + sz)) : R Bytes) with
          | ok sd =>
            simp only [Res.bind_ok]
            by_cases h1 : id = ccVP8 ∨ id = ccVP8L
            · simp only [if_pos h1]
            · by_cases h2 : id = ccALPH
              · simp only [if_neg h1, if_pos h2]
              · simp only [if_neg h1, if_neg h2]
          | err e => rfl
          | panic => rfl
          | hang => rfl
      | err e => rfl
      | panic => rfl
      | hang => rfl
    | err e => rfl
    | panic => rfl
    | hang => rfl

theorem le_ite {p : Prop} [Decidable p] {a b n : Nat} (ha : n ≤ a) (hb : n ≤ b) :
    n ≤ if p then a else b := by
  split <;> assumption

theorem anmfCont_congr {fp : Bytes} {pos : Nat} {tail : Bytes} {img alph : Option Bytes} {k1 k2}
    (h : ∀ n i a, 8 ≤ n → k1 n i a = k2 n i a) :
    anmfCont fp pos tail img alph k1 = anmfCont fp pos tail img alph k2 := by
  unfold anmfCont
  cases readChunkHeader tail with
  | ok cn =>
    obtain ⟨id, sz⟩ := cn
    simp only []
    split
    · rfl
    · congr 1
      funext sd
      apply h
      exact le_ite (by simp [chunkHeaderSize]; omega) (by simp [chunkHeaderSize])
  | err e => rfl
  | panic => rfl
  | hang => rfl

theorem anmfCont_shift (pre body : Bytes) (p : Nat) (tail : Bytes) (img alph : Option Bytes) (k) :
    anmfCont (pre ++ body) (pre.length + p) tail img alph k = anmfCont body p tail img alph k := by
  unfold anmfCont
  cases readChunkHeader tail with
  | ok cn =>
    obtain ⟨id, sz⟩ := cn
    simp only []
    split
    · rfl
    · have e1 : pre.length + p + chunkHeaderSize = pre.length + (p + chunkHeaderSize) := by omega
      have e2 : pre.length + p + (chunkHeaderSize + sz) = pre.length + (p + (chunkHeaderSize + sz)) := by omega
      rw [e1, e2, slice_shift]
      have e3 : (pre.length + (p + (chunkHeaderSize + sz)) < (pre ++ body).length) =
          (p + (chunkHeaderSize + sz) < body.length) := by
        simp only [List.length_append]; apply propext; omega
      simp only [e3]
  | err e => rfl
  | panic => rfl
  | hang => rfl

theorem anmfSubChunks_shift (pre body : Bytes) : ∀ (fuel : Nat) (p : Nat) (img alph : Option Bytes),
    anmfSubChunks fuel (pre ++ body) (pre.length + p) img alph = anmfSubChunks fuel body p img alph := by
  intro fuel
  induction fuel with
  | zero => intros; rfl
  | succ n ih =>
    intro p img alph
    rw [anmfSubChunks_succ, anmfSubChunks_succ, sliceFrom_shift]
    by_cases hb : p + chunkHeaderSize > body.length
    · rw [if_pos hb, if_pos (by simp only [List.length_append]; omega)]
    · rw [if_neg hb, if_neg (by simp only [List.length_append]; omega)]
      congr 1
      funext tail
      rw [anmfCont_shift]
      apply anmfCont_congr
      intro k i a _
      rw [Nat.add_assoc, ih]

theorem anmfSubChunks_fuel (fp : Bytes) : ∀ (f1 f2 : Nat) (pos : Nat) (img alph : Option Bytes),
    fp.length - pos < f1 → fp.length - pos < f2 →
    anmfSubChunks f1 fp pos img alph = anmfSubChunks f2 fp pos img alph := by
  intro f1
  induction f1 with
  | zero => intros; omega
  | succ n ih =>
    intro f2 pos img alph h1 h2
    cases f2 with
    | zero => omega
    | succ m =>
      rw [anmfSubChunks_succ, anmfSubChunks_succ]
      split
      · rfl
      · rename_i hlen
        simp only [chunkHeaderSize] at hlen
        congr 1
        funext tail
        apply anmfCont_congr
        intro k i a hk
        exact ih m (pos + k) i a (by omega) (by omega)

def anmfRun (b : Bytes) (img alph : Option Bytes) : R OO := anmfSubChunks (b.length + 1) b 0 img alph

theorem anmfRun_nil (img alph : Option Bytes) : anmfRun [] img alph = .ok (img, alph) := by
  unfold anmfRun
  rw [anmfSubChunks_succ]
  rfl

theorem readChunkHeader_ser (c : RawChunk) (r : Bytes) (hid : c.id < 4294967296)
    (hlen : c.data.length ≤ maxChunkPayload) :
    readChunkHeader (ser c ++ r) = .ok (c.id, c.data.length) := by
  have hmax : maxChunkPayload = 4294967286 := by decide
  rw [hmax] at hlen
  obtain ⟨hl, h0, h4, _, _, _⟩ := ser_facts c r hid hlen
  unfold readChunkHeader
  rw [h0, h4, hl, hmax, chunkHeaderSize, if_neg (by omega), if_neg (by omega)]


theorem anmfCont_ok {fp : Bytes} {pos : Nat} {tail : Bytes} {img alph : Option Bytes} {k} {id sz : Nat}
    (h : readChunkHeader tail = .ok (id, sz)) :
    anmfCont fp pos tail img alph k =
      if chunkHeaderSize + sz > tail.length then .ok (img, alph)
      else slice fp (pos + chunkHeaderSize) (pos + (chunkHeaderSize + sz)) >>= fun subData =>
        k (if sz % 2 ≠ 0 ∧ pos + (chunkHeaderSize + sz) < fp.length then chunkHeaderSize + sz + 1
           else chunkHeaderSize + sz)
          (if id = ccVP8 ∨ id = ccVP8L then some subData else img)
          (if id = ccVP8 ∨ id = ccVP8L then alph else if id = ccALPH then some subData else alph) := by
  unfold anmfCont; rw [h]

theorem slice_payload {ε} (t : Bytes) (n : Nat) (h : 8 + n ≤ t.length) :
    (slice t (0 + chunkHeaderSize) (0 + (chunkHeaderSize + n)) : Res ε Bytes) = .ok ((t.take (8 + n)).drop 8) := by
  unfold slice
  rw [if_pos (by simp only [chunkHeaderSize]; omega)]
  simp only [chunkHeaderSize, Nat.zero_add]

theorem adv_eq (fpLen n : Nat) (h : 8 + n + n % 2 ≤ fpLen) :
    (if n % 2 ≠ 0 ∧ 0 + (chunkHeaderSize + n) < fpLen then chunkHeaderSize + n + 1 else chunkHeaderSize + n)
      = 8 + n + n % 2 := by
  by_cases hp : n % 2 = 0
  · rw [if_neg (by omega)]; simp only [chunkHeaderSize]; omega
  · rw [if_pos (by simp only [chunkHeaderSize]; omega)]; simp only [chunkHeaderSize]; omega

theorem anmf_step (F : Nat) (c : RawChunk) (r : Bytes) (img alph : Option Bytes) (hF : r.length < F)
    (hid : c.id < 4294967296) (hlen : c.data.length ≤ maxChunkPayload) :
    anmfSubChunks (F + 1) (ser c ++ r) 0 img alph =
      anmfRun r (if c.id = ccVP8 ∨ c.id = ccVP8L then some c.data else img)
        (if c.id = ccVP8 ∨ c.id = ccVP8L then alph else if c.id = ccALPH then some c.data else alph) := by
  have hmax : maxChunkPayload = 4294967286 := by decide
  have hlen' := hlen
  rw [hmax] at hlen'
  obtain ⟨hl, _, _, hs, _, _⟩ := ser_facts c r hid hlen'
  rw [anmfSubChunks_succ]
  have hne : ¬ (0 + chunkHeaderSize > (ser c ++ r).length) := by
    rw [hl, chunkHeaderSize]; omega
  rw [if_neg hne]
  have hsf : (sliceFrom (ser c ++ r) 0 : R Bytes) = .ok (ser c ++ r) := by simp [sliceFrom]
  rw [hsf, Res.bind_ok, anmfCont_ok (readChunkHeader_ser c r hid hlen)]
  rw [if_neg (by rw [hl, chunkHeaderSize]; omega)]
  rw [slice_payload _ _ (by rw [hl]; omega), hs, Res.bind_ok, adv_eq _ _ (by rw [hl]; omega)]
  have h1 := anmfSubChunks_shift (ser c) r F 0
  have e : (ser c).length = 8 + c.data.length + c.data.length % 2 := by rw [ser_length, padLen]
  rw [e] at h1
  simp only [Nat.add_zero] at h1
  rw [Nat.zero_add, h1]
  exact anmfSubChunks_fuel r _ _ 0 _ _ (by omega) (by omega)

theorem anmfRun_ser (c : RawChunk) (r : Bytes) (img alph : Option Bytes) (hid : c.id < 4294967296)
    (hlen : c.data.length ≤ maxChunkPayload) :
    anmfRun (ser c ++ r) img alph =
      anmfRun r (if c.id = ccVP8 ∨ c.id = ccVP8L then some c.data else img)
        (if c.id = ccVP8 ∨ c.id = ccVP8L then alph else if c.id = ccALPH then some c.data else alph) := by
  have hl : (ser c ++ r).length = padLen c.data.length + r.length := by simp [ser_length]
  exact anmf_step _ c r img alph (by rw [hl, padLen]; omega) hid hlen
