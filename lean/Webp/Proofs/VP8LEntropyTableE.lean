import Webp.Proofs.VP8LEntropyTableD
/-
  Two-level lookup tables, part E: the second pass, second-level tables, in lock step with the
  first pass (which fixed the total size).
-/
namespace Webp.Proofs.VP8LEntropyTableE
open Webp.Go (Res)
open Webp.Spec.VP8L
open Webp.Impl.VP8LEntropy
open Webp.Proofs.VP8LEntropyRev Webp.Proofs.VP8LEntropyCanon Webp.Proofs.VP8LEntropyTableA
open Webp.Proofs.VP8LEntropyTableB Webp.Proofs.VP8LEntropyTableC Webp.Proofs.VP8LEntropyTableD

/-! ## the first pass only grows `totalSize` -/

/-- one iteration of `sizeSubInner` -/
def zStep (R l n : Nat) (s : SizeSt) : SizeSt :=
  let mask := (1 <<< R) - 1
  let s :=
    if s.w.key &&& mask ≠ s.low then
      { s with totalSize := s.totalSize + (1 <<< nextTableBitSize s.w.count l R), low := s.w.key &&& mask }
    else s
  { s with w := { s.w with key := getNextKey s.w.key l, count := s.w.count.setIfInBounds l n } }

theorem sizeSubInner_succ (R l n : Nat) (s : SizeSt) :
    sizeSubInner R l (n + 1) s = sizeSubInner R l n (zStep R l n s) := by
  rw [sizeSubInner]; rfl

theorem zStep_mono (R l n : Nat) (s : SizeSt) : s.totalSize ≤ (zStep R l n s).totalSize := by
  unfold zStep
  simp only
  split <;> simp

theorem sizeSubInner_mono (R l n : Nat) : ∀ s : SizeSt, s.totalSize ≤ (sizeSubInner R l n s).totalSize := by
  induction n with
  | zero => intro s; exact Nat.le_refl _
  | succ n ih =>
    intro s
    rw [sizeSubInner_succ]
    exact Nat.le_trans (zStep_mono R l n s) (ih _)

theorem sizeSubOuter_mono (R fuel : Nat) : ∀ (l : Nat) (s s' : SizeSt),
    sizeSubOuter R fuel l s = some s' → s.totalSize ≤ s'.totalSize := by
  induction fuel with
  | zero => intro l s s' h; simp only [sizeSubOuter] at h; cases h; exact Nat.le_refl _
  | succ f ih =>
    intro l s s' h
    rw [sizeSubOuter] at h
    by_cases hl : l ≤ maxLen
    · rw [if_pos hl] at h
      simp only at h
      split at h
      · cases h
      · have := ih _ _ _ h
        have h2 := sizeSubInner_mono R l (s.w.count.getD l 0)
          ⟨⟨s.w.count, s.w.key, s.w.numNodes + s.w.numOpen * 2, s.w.numOpen * 2 - ((s.w.count.getD l 0 : Nat) : Int)⟩,
            s.low, s.totalSize⟩
        exact Nat.le_trans h2 this
    · rw [if_neg hl] at h; cases h; exact Nat.le_refl _

theorem ntbsLoop_congr (c1 c2 : Array Nat) (fuel : Nat) : ∀ (t : Nat) (left : Int),
    (∀ j, t ≤ j → j < 15 → c1.getD j 0 = c2.getD j 0) →
    nextTableBitSizeLoop c1 fuel t left = nextTableBitSizeLoop c2 fuel t left := by
  induction fuel with
  | zero => intro t left _; rfl
  | succ f ih =>
    intro t left h
    by_cases h15 : t < 15
    · have e := h t (Nat.le_refl _) h15
      by_cases hle : left - (c1.getD t 0 : Nat) ≤ 0
      · rw [ntbs_stop c1 f t left h15 hle, ntbs_stop c2 f t left h15 (by rw [← e]; exact hle)]
      · rw [ntbs_next c1 f t left h15 hle, ntbs_next c2 f t left h15 (by rw [← e]; exact hle), e]
        exact ih _ _ (fun j h1 h2 => h j (by omega) h2)
    · rw [ntbs_end c1 f t left h15, ntbs_end c2 f t left h15]

theorem ntbs_congr (c1 c2 : Array Nat) (l R : Nat) (h : ∀ j, l ≤ j → j < 15 → c1.getD j 0 = c2.getD j 0) :
    nextTableBitSize c1 l R = nextTableBitSize c2 l R := by
  unfold nextTableBitSize
  rw [ntbsLoop_congr c1 c2 maxLen l _ h]

theorem wk_count_eq {lens : Array Nat} {l m : Nat} {w1 w2 : Walk} (h1 : WK lens l m w1) (h2 : WK lens l m w2)
    (hl : 1 ≤ l) : ∀ j, l ≤ j → j < 15 → w1.count.getD j 0 = w2.count.getD j 0 := by
  intro j hj1 hj2
  by_cases hjl : j = l
  · subst hjl; rw [h1.cur hl, h2.cur hl]
  · rw [h1.rest j (by omega) (by omega), h2.rest j (by omega) (by omega)]

/-! ## one iteration of `buildSubInner`, split into "open a sub-table if the root prefix is new"
and "write the symbol" -/

def openStep (R T l : Nat) (s : BuildSt) : Res TErr BuildSt :=
  let mask := (1 <<< R) - 1
  if s.w.key &&& mask ≠ s.low then
    let tableOff := s.tableOff + s.tableSize
    let tableBits := nextTableBitSize s.w.count l R
    let tableSize := 1 <<< tableBits
    if tableOff + tableSize > T then .err .invalidTree
    else
      let low := s.w.key &&& mask
      if low < s.table.size then
        .ok { s with tableOff, tableBits, tableSize, low,
                     table := s.table.setIfInBounds low { bits := tableBits + R, value := tableOff } }
      else .panic
  else .ok s

def writeStep (sorted : Array Nat) (R T l step n : Nat) (s : BuildSt) : Res TErr BuildSt :=
  let code : HCode := { bits := l - R, value := sorted.getD s.symbol 0 }
  let off := s.tableOff + (s.w.key >>> R)
  if off ≥ T then .err .invalidTree
  else
    match replicateValue s.table off step s.tableSize code with
    | .ok t =>
      .ok { s with table := t, symbol := s.symbol + 1,
                   w := { s.w with key := getNextKey s.w.key l, count := s.w.count.setIfInBounds l n } }
    | .err e => .err e
    | .panic => .panic
    | .hang => .hang

theorem buildSubInner_succ (sorted : Array Nat) (R T l step n : Nat) (s s1 s2 : BuildSt)
    (h1 : openStep R T l s = .ok s1) (h2 : writeStep sorted R T l step n s1 = .ok s2) :
    buildSubInner sorted R T l step (n + 1) s = buildSubInner sorted R T l step n s2 := by
  rw [buildSubInner]
  unfold openStep at h1
  simp only at h1 ⊢
  rw [h1]
  simp only
  unfold writeStep at h2
  simp only at h2
  split at h2
  · cases h2
  · rename_i hoff
    rw [if_neg hoff]
    split at h2
    · rename_i t ht
      rw [ht]
      simp only
      cases h2
      rfl
    · cases h2
    · cases h2
    · cases h2

/-! ## the invariant of the second-level loops -/

section sub
variable (lens sorted : Array Nat) (R T : Nat)

/-- the sub-table in use: none yet, or the one of the last processed long symbol `(l0, m0)` -/
def CurSub (l m : Nat) (s : BuildSt) : Prop :=
  (s.low = noLow ∧ ∀ l' m', Sym lens l' m' → R < l' → ¬ Before l' m' l m) ∨
  (∃ l0 m0, Sym lens l0 m0 ∧ R < l0 ∧ Before l0 m0 l m ∧ s.low = rev R (pfx lens R l0 m0) ∧
     (∀ l' m', Sym lens l' m' → R < l' → Before l' m' l m → pfx lens R l' m' ≤ pfx lens R l0 m0) ∧
     2 ^ R ≤ s.tableOff ∧ s.table[s.low]? = some ⟨s.tableBits + R, s.tableOff⟩ ∧
     (∀ l2 m2, Sym lens l2 m2 → ¬ Before l2 m2 l m → pfx lens R l2 m2 = pfx lens R l0 m0 →
        l2 - R ≤ s.tableBits))

/-- what is known about an already processed long symbol -/
def LongOK (s : BuildSt) (l' m' : Nat) : Prop :=
  ∃ off tb, s.table[keyOf lens l' m' % 2 ^ R]? = some ⟨tb + R, off⟩ ∧ l' - R ≤ tb ∧ 2 ^ R ≤ off ∧
    off + 2 ^ tb ≤ s.tableOff + s.tableSize ∧
    (keyOf lens l' m' % 2 ^ R ≠ s.low → off + 2 ^ tb ≤ s.tableOff) ∧
    ∀ t, t < 2 ^ tb → t % 2 ^ (l' - R) = keyOf lens l' m' / 2 ^ R →
      s.table[off + t]? = some ⟨l' - R, symOf lens sorted l' m'⟩

structure SubInv (l m : Nat) (s : BuildSt) (z : SizeSt) : Prop where
  wk : WK lens l m s.w
  zwk : WK lens l m z.w
  zlow : z.low = s.low
  ztot : z.totalSize = s.tableOff + s.tableSize
  sym : s.symbol = offs lens l + m
  tsz : s.table.size = T
  tsize : s.tableSize = 2 ^ s.tableBits
  tend : s.tableOff + s.tableSize ≤ T
  tbeg : 2 ^ R ≤ s.tableOff + s.tableSize
  short : ∀ l' m', Sym lens l' m' → l' ≤ R → ∀ j, j < 2 ^ R → j % 2 ^ l' = keyOf lens l' m' →
    s.table[j]? = some ⟨l', symOf lens sorted l' m'⟩
  cur : CurSub lens R l m s
  long : ∀ l' m', Sym lens l' m' → R < l' → Before l' m' l m → LongOK lens sorted R s l' m'

/-- the state after `openStep`: the sub-table of the current symbol's root prefix is open -/
structure Opened (l m : Nat) (s1 : BuildSt) : Prop where
  tsz : s1.table.size = T
  low : s1.low = keyOf lens l m % 2 ^ R
  ptr : s1.table[s1.low]? = some ⟨s1.tableBits + R, s1.tableOff⟩
  toff : 2 ^ R ≤ s1.tableOff
  tsize : s1.tableSize = 2 ^ s1.tableBits
  tend : s1.tableOff + s1.tableSize ≤ T
  cover : ∀ l2 m2, Sym lens l2 m2 → ¬ Before l2 m2 l m → pfx lens R l2 m2 = pfx lens R l m →
    l2 - R ≤ s1.tableBits
  short : ∀ l' m', Sym lens l' m' → l' ≤ R → ∀ j, j < 2 ^ R → j % 2 ^ l' = keyOf lens l' m' →
    s1.table[j]? = some ⟨l', symOf lens sorted l' m'⟩
  long : ∀ l' m', Sym lens l' m' → R < l' → Before l' m' l m → LongOK lens sorted R s1 l' m'
  maxp : ∀ l' m', Sym lens l' m' → R < l' → Before l' m' l m → pfx lens R l' m' ≤ pfx lens R l m

theorem noLow_big (R : Nat) (hR : R ≤ 15) (x : Nat) (hx : x < 2 ^ R) : x ≠ noLow := by
  have : 2 ^ R ≤ 2 ^ 15 := Nat.pow_le_pow_right (by decide) hR
  unfold noLow; omega

theorem open_spec (hc : Complete lens) (hR : R ≤ 15) {l m : Nat} (hs : Sym lens l m) (hRl : R < l)
    {s : BuildSt} {z : SizeSt} (hi : SubInv lens sorted R T l m s z) (n : Nat)
    (hbound : (zStep R l n z).totalSize ≤ T) :
    ∃ s1, openStep R T l s = .ok s1 ∧ Opened lens sorted R T l m s1 ∧ s1.w = s.w ∧ s1.symbol = s.symbol ∧
      (zStep R l n z).totalSize = s1.tableOff + s1.tableSize ∧ (zStep R l n z).low = s1.low := by
  have hl1 : 1 ≤ l := hs.1
  have hcw := cw_lt hc hs
  have hkey : s.w.key = keyOf lens l m := hi.wk.key hcw
  have hzkey : z.w.key = keyOf lens l m := hi.zwk.key hcw
  have hp := key_mod_root lens R l m (by omega)
  have hpfx := pfx_lt hc hs (Nat.le_of_lt hRl)
  have hplt : keyOf lens l m % 2 ^ R < 2 ^ R := Nat.mod_lt _ (Nat.pow_pos (by decide))
  have hmask : s.w.key &&& ((1 <<< R) - 1) = keyOf lens l m % 2 ^ R := by rw [mask_eq, hkey]
  have hzmask : z.w.key &&& ((1 <<< R) - 1) = keyOf lens l m % 2 ^ R := by rw [mask_eq, hzkey]
  have hmaxp : ∀ l' m', Sym lens l' m' → R < l' → Before l' m' l m → pfx lens R l' m' ≤ pfx lens R l m :=
    fun l' m' hs' hR' hb => pfx_mono hs' hs.2.1 hb (Nat.le_of_lt hR')
  unfold openStep
  simp only
  rw [hmask]
  by_cases hnew : keyOf lens l m % 2 ^ R ≠ s.low
  · -- a new root prefix: open a sub-table
    rw [if_pos hnew]
    have hz : (zStep R l n z).totalSize = s.tableOff + s.tableSize + 2 ^ nextTableBitSize s.w.count l R ∧
        (zStep R l n z).low = keyOf lens l m % 2 ^ R := by
      unfold zStep
      simp only
      rw [hzmask, hi.zlow, if_pos hnew]
      simp only
      rw [hi.ztot, Nat.one_shiftLeft, ntbs_congr z.w.count s.w.count l R (wk_count_eq hi.zwk hi.wk hl1)]
      refine ⟨?_, ?_⟩ <;> first | rfl | trivial
    rw [hz.1] at hbound
    rw [Nat.one_shiftLeft, if_neg (by omega), if_pos (by rw [hi.tsz]; have := hi.tbeg; have := hi.tend; omega)]
    -- no processed long symbol has this root prefix
    have hfresh : ∀ l' m', Sym lens l' m' → R < l' → Before l' m' l m →
        keyOf lens l' m' % 2 ^ R ≠ keyOf lens l m % 2 ^ R := by
      intro l' m' hs' hR' hb heq
      rcases hi.cur with ⟨_, hnone⟩ | ⟨l0, m0, hs0, hR0, hb0, hlow0, hmax0, _⟩
      · exact hnone l' m' hs' hR' hb
      · rw [key_mod_root lens R l' m' (by omega), hp] at heq
        have hpe := rev_inj R _ _ (pfx_lt hc hs' (by omega)) hpfx heq
        have h1 := hmax0 l' m' hs' hR' hb
        have h2 := hmaxp l0 m0 hs0 hR0 hb0
        have : pfx lens R l0 m0 = pfx lens R l m := by omega
        apply hnew
        rw [hlow0, this, hp]
    refine ⟨_, rfl, ⟨?_, rfl, ?_, ?_, rfl, ?_, ?_, ?_, ?_, hmaxp⟩, rfl, rfl, ?_, hz.2⟩
    · simp [hi.tsz]
    · show (s.table.setIfInBounds _ _)[keyOf lens l m % 2 ^ R]? = _
      rw [Array.getElem?_setIfInBounds, if_pos rfl, if_pos (by rw [hi.tsz]; have := hi.tbeg; have := hi.tend; omega)]
    · exact hi.tbeg
    · show s.tableOff + s.tableSize + 2 ^ _ ≤ T
      exact hbound
    · intro l2 m2 hs2 hnb hp2
      exact (subtable_covers R l m hs hRl s.w.count (hi.wk.cur hl1) hi.wk.rest hs2 hnb hp2).2
    · intro l' m' hs' hl' j hj hmod
      show (s.table.setIfInBounds _ _)[j]? = _
      rw [Array.getElem?_setIfInBounds]
      by_cases hjp : keyOf lens l m % 2 ^ R = j
      · exfalso
        have := key_prefix_free hc hs' hs (by omega) (by omega)
        apply this
        rw [← hmod, ← hjp]
        have hpw : 2 ^ R = 2 ^ l' * 2 ^ (R - l') := by rw [← Nat.pow_add]; congr 1; omega
        rw [hpw, Nat.mod_mul_right_mod]
      · rw [if_neg hjp]; exact hi.short l' m' hs' hl' j hj hmod
    · intro l' m' hs' hR' hb
      obtain ⟨off, tb, h1, h2, h3, h4, h5, h6⟩ := hi.long l' m' hs' hR' hb
      refine ⟨off, tb, ?_, h2, h3, ?_, ?_, ?_⟩
      · show (s.table.setIfInBounds _ _)[_]? = _
        rw [Array.getElem?_setIfInBounds, if_neg (fun h => hfresh l' m' hs' hR' hb h.symm)]; exact h1
      · show off + 2 ^ tb ≤ s.tableOff + s.tableSize + 2 ^ _
        exact Nat.le_trans h4 (Nat.le_add_right _ _)
      · intro _
        show off + 2 ^ tb ≤ s.tableOff + s.tableSize
        exact h4
      · intro t ht hmod
        show (s.table.setIfInBounds _ _)[off + t]? = _
        have hne : ¬ keyOf lens l m % 2 ^ R = off + t := by
          intro h
          have hx := hplt
          rw [h] at hx
          omega
        rw [Array.getElem?_setIfInBounds, if_neg hne]; exact h6 t ht hmod
    · exact hz.1
  · -- the sub-table of this prefix is already open
    have hold : keyOf lens l m % 2 ^ R = s.low := by
      by_cases h : keyOf lens l m % 2 ^ R = s.low
      · exact h
      · exact absurd h hnew
    rw [if_neg hnew]
    have hz : (zStep R l n z).totalSize = s.tableOff + s.tableSize ∧ (zStep R l n z).low = s.low := by
      unfold zStep
      simp only
      rw [hzmask, hi.zlow, if_neg hnew]
      exact ⟨hi.ztot, hi.zlow⟩
    rcases hi.cur with ⟨hno, _⟩ | ⟨l0, m0, hs0, hR0, hb0, hlow0, hmax0, htoff0, hptr0, hcov0⟩
    · exact absurd (hold ▸ hno) (noLow_big R hR _ hplt)
    · have hpe : pfx lens R l0 m0 = pfx lens R l m := by
        rw [hlow0, hp] at hold
        exact (rev_inj R _ _ hpfx (pfx_lt hc hs0 (by omega)) hold).symm
      refine ⟨s, rfl, ⟨hi.tsz, hold.symm, hptr0, htoff0, hi.tsize, hi.tend, ?_, hi.short, hi.long, hmaxp⟩,
        rfl, rfl, hz.1, hz.2⟩
      intro l2 m2 hs2 hnb hp2
      exact hcov0 l2 m2 hs2 hnb (by rw [hp2, hpe])

theorem before_succ {l' m' l m : Nat} (h : Before l' m' l (m + 1)) : Before l' m' l m ∨ (l' = l ∧ m' = m) := by
  rcases h with h | ⟨h1, h2⟩
  · exact Or.inl (Or.inl h)
  · by_cases hm : m' = m
    · exact Or.inr ⟨h1, hm⟩
    · exact Or.inl (Or.inr ⟨h1, by omega⟩)

theorem write_spec (hc : Complete lens) (hR : R ≤ 15) {l m n : Nat} (hs : Sym lens l m) (hRl : R < l)
    (hn : n = cnt lens l - m - 1) {s1 : BuildSt} {z2 : SizeSt} (ho : Opened lens sorted R T l m s1)
    (hwk : WK lens l m s1.w) (hzwk : WK lens l (m + 1) z2.w) (hsym : s1.symbol = offs lens l + m)
    (hztot : z2.totalSize = s1.tableOff + s1.tableSize) (hzlow : z2.low = s1.low) :
    ∃ s2, writeStep sorted R T l (2 ^ (l - R)) n s1 = .ok s2 ∧ SubInv lens sorted R T l (m + 1) s2 z2 ∧
      s2.w.numOpen = s1.w.numOpen ∧ s2.w.numNodes = s1.w.numNodes := by
  have hl1 : 1 ≤ l := hs.1
  have hl15 : l ≤ 15 := hs.2.1
  have hcw := cw_lt hc hs
  have hkey : s1.w.key = keyOf lens l m := hwk.key hcw
  have hklt : keyOf lens l m < 2 ^ l := key_lt lens l m
  have hpR : 0 < 2 ^ R := Nat.pow_pos (by decide)
  have h2l : 2 ^ l = 2 ^ R * 2 ^ (l - R) := by rw [← Nat.pow_add]; congr 1; omega
  have hkq : keyOf lens l m / 2 ^ R < 2 ^ (l - R) := by
    rw [Nat.div_lt_iff_lt_mul hpR, Nat.mul_comm, ← h2l]; exact hklt
  have hcov : l - R ≤ s1.tableBits := ho.cover l m hs (by unfold Before; omega) rfl
  have hple : 2 ^ (l - R) ≤ 2 ^ s1.tableBits := Nat.pow_le_pow_right (by decide) hcov
  have htend := ho.tend
  rw [ho.tsize] at htend
  clear h2l
  have aux : ∀ a P Q kq T : Nat, kq < P → P ≤ Q → a + Q ≤ T → a + kq < T ∧ a + kq + Q - P < T := by
    intros; omega
  obtain ⟨hoffT, hrepl⟩ := aux s1.tableOff (2 ^ (l - R)) (2 ^ s1.tableBits) (keyOf lens l m / 2 ^ R) T hkq hple htend
  obtain ⟨t', ht', hsz', hget'⟩ := replicateValue_spec s1.table (s1.tableOff + keyOf lens l m / 2 ^ R) (l - R)
    s1.tableBits ⟨l - R, sorted.getD s1.symbol 0⟩ hcov (by rw [ho.tsz]; exact hrepl)
  have hshift : s1.w.key >>> R = keyOf lens l m / 2 ^ R := by rw [hkey, Nat.shiftRight_eq_div_pow]
  have ht'' : replicateValue s1.table (s1.tableOff + (s1.w.key >>> R)) (2 ^ (l - R)) s1.tableSize
      ⟨l - R, sorted.getD s1.symbol 0⟩ = .ok t' := by rw [hshift, ho.tsize]; exact ht'
  let w2 : Walk := { s1.w with key := getNextKey s1.w.key l, count := s1.w.count.setIfInBounds l n }
  let s2 : BuildSt := { s1 with table := t', symbol := s1.symbol + 1, w := w2 }
  have hw : writeStep sorted R T l (2 ^ (l - R)) n s1 = .ok s2 := by
    unfold writeStep
    simp only
    rw [if_neg (by rw [hshift]; omega), ht'']
  -- cells below the current sub-table are not touched
  have hnohit : ∀ j, j < s1.tableOff →
      ¬ Hit (s1.tableOff + keyOf lens l m / 2 ^ R) (2 ^ (l - R)) (2 ^ s1.tableBits) j := by
    intro j hj hh
    exact Nat.not_le.mpr (Nat.lt_of_lt_of_le hj (Nat.le_add_right _ _)) hh.1
  have hlowlt : s1.low < 2 ^ R := by rw [ho.low]; exact Nat.mod_lt _ hpR
  refine ⟨s2, hw, ⟨wk_step hwk hl1 hl15 n hn, hzwk, hzlow, hztot, ?_, ?_, ho.tsize, ho.tend, ?_, ?_, ?_, ?_⟩, rfl, rfl⟩
  · show s1.symbol + 1 = _
    rw [hsym]; omega
  · show t'.size = T
    rw [hsz', ho.tsz]
  · have := ho.toff; show 2 ^ R ≤ s1.tableOff + s1.tableSize; omega
  · intro l' m' hs' hl' j hj hmod
    show t'[j]? = _
    rw [hget' j, if_neg (hnohit j (by have := ho.toff; omega))]
    exact ho.short l' m' hs' hl' j hj hmod
  · -- the current sub-table is now the one of (l, m)
    right
    refine ⟨l, m, hs, hRl, Or.inr ⟨rfl, by omega⟩, ?_, ?_, ho.toff, ?_, ?_⟩
    · show s1.low = _
      rw [ho.low, key_mod_root lens R l m (by omega)]
    · intro l' m' hs' hR' hb
      rcases before_succ hb with h | ⟨rfl, rfl⟩
      · exact ho.maxp l' m' hs' hR' h
      · exact Nat.le_refl _
    · show t'[s1.low]? = _
      rw [hget' _, if_neg (hnohit _ (by have := ho.toff; omega))]
      exact ho.ptr
    · intro l2 m2 hs2 hnb hp2
      apply ho.cover l2 m2 hs2 ?_ hp2
      intro hb
      apply hnb
      rcases hb with h | ⟨h1, h2⟩
      · exact Or.inl h
      · exact Or.inr ⟨h1, by omega⟩
  · intro l' m' hs' hR' hb
    rcases before_succ hb with hb' | ⟨rfl, rfl⟩
    · -- an older long symbol
      obtain ⟨off, tb, h1, h2, h3, h4, h5, h6⟩ := ho.long l' m' hs' hR' hb'
      refine ⟨off, tb, ?_, h2, h3, h4, h5, ?_⟩
      · show t'[_]? = _
        rw [hget' _, if_neg (hnohit _ (by
          have : keyOf lens l' m' % 2 ^ R < 2 ^ R := Nat.mod_lt _ hpR
          have := ho.toff; omega))]
        exact h1
      · intro t ht hmod
        show t'[off + t]? = _
        rw [hget' _]
        by_cases hsame : keyOf lens l' m' % 2 ^ R = s1.low
        · -- same sub-table: a clash would contradict prefix-freeness
          rw [hsame, ho.ptr] at h1
          have hinj := Option.some.inj h1
          have htb : tb = s1.tableBits := by have := congrArg HCode.bits hinj; simp at this; omega
          have hoff : off = s1.tableOff := by have := congrArg HCode.value hinj; simpa using this.symm
          subst htb; subst hoff
          rw [if_neg]
          · exact h6 t ht hmod
          · intro hh
            obtain ⟨x1, x2, x3⟩ := hh
            have hll : l' ≤ l := by rcases hb' with h | ⟨h, _⟩ <;> omega
            have hne := key_prefix_free hc hs' hs hll (by
              intro ⟨h1', h2'⟩; subst h1'; subst h2'
              rcases hb' with h | ⟨_, h⟩ <;> omega)
            apply hne
            -- t ≡ key(l,m)/2^R modulo 2^(l-R), hence modulo 2^(l'-R)
            have e1 : s1.tableOff + t - (s1.tableOff + keyOf lens l m / 2 ^ R) = t - keyOf lens l m / 2 ^ R := by omega
            rw [e1] at x3
            have hge : keyOf lens l m / 2 ^ R ≤ t := by omega
            have hdvd : 2 ^ (l' - R) ∣ 2 ^ (l - R) := Nat.pow_dvd_pow 2 (by omega)
            have hmod2 : (t - keyOf lens l m / 2 ^ R) % 2 ^ (l' - R) = 0 :=
              Nat.mod_eq_zero_of_dvd (Nat.dvd_trans hdvd (Nat.dvd_of_mod_eq_zero x3))
            have ht2 : t % 2 ^ (l' - R) = keyOf lens l m / 2 ^ R % 2 ^ (l' - R) := by
              have : t = keyOf lens l m / 2 ^ R + (t - keyOf lens l m / 2 ^ R) := by omega
              rw [this, Nat.add_mod, hmod2, Nat.add_zero, Nat.mod_mod]
            have h2l' : 2 ^ l' = 2 ^ R * 2 ^ (l' - R) := by rw [← Nat.pow_add]; congr 1; omega
            rw [h2l', Nat.mod_mul, ← ht2, hmod, ← ho.low, ← hsame]
            exact Nat.mod_add_div _ _
        · have := h5 hsame
          rw [if_neg (hnohit _ (by omega))]
          exact h6 t ht hmod
    · -- the symbol just written
      refine ⟨s1.tableOff, s1.tableBits, ?_, hcov, ho.toff, ?_, ?_, ?_⟩
      · show t'[_]? = _
        rw [← ho.low, hget' _, if_neg (hnohit _ (by have := ho.toff; omega))]
        exact ho.ptr
      · show s1.tableOff + 2 ^ s1.tableBits ≤ s1.tableOff + s1.tableSize
        exact Nat.le_of_eq (by rw [ho.tsize])
      · intro hne
        exact absurd ho.low.symm hne
      · intro t ht hmod
        show t'[s1.tableOff + t]? = _
        rw [hget' _, if_pos, hsym]
        · rfl
        · have hge : keyOf lens l' m' / 2 ^ R ≤ t := by rw [← hmod]; exact Nat.mod_le _ _
          refine ⟨by omega, by omega, ?_⟩
          have e1 : s1.tableOff + t - (s1.tableOff + keyOf lens l' m' / 2 ^ R) = t - keyOf lens l' m' / 2 ^ R := by omega
          rw [e1]
          have := Nat.div_add_mod t (2 ^ (l' - R))
          rw [hmod] at this
          have e2 : t - keyOf lens l' m' / 2 ^ R = 2 ^ (l' - R) * (t / 2 ^ (l' - R)) := by omega
          rw [e2, Nat.mul_mod_right]

theorem zStep_w (R l n : Nat) (z : SizeSt) :
    (zStep R l n z).w = { z.w with key := getNextKey z.w.key l, count := z.w.count.setIfInBounds l n } := by
  unfold zStep
  simp only
  split <;> rfl

theorem buildSubInner_spec (hc : Complete lens) (hR : R ≤ 15) (l : Nat) (hRl : R < l) (hl15 : l ≤ 15)
    (sEnd : SizeSt) (hT : sEnd.totalSize = T) (n : Nat) :
    ∀ (m : Nat) (s : BuildSt) (z : SizeSt), m + n = cnt lens l → SubInv lens sorted R T l m s z →
      sizeSubOuter R (15 - l) (l + 1) (sizeSubInner R l n z) = some sEnd →
      ∃ s' z', buildSubInner sorted R T l (2 ^ (l - R)) n s = .ok s' ∧
        SubInv lens sorted R T l (cnt lens l) s' z' ∧
        sizeSubOuter R (15 - l) (l + 1) z' = some sEnd ∧
        s'.w.numOpen = s.w.numOpen ∧ s'.w.numNodes = s.w.numNodes ∧
        z'.w.numOpen = z.w.numOpen ∧ z'.w.numNodes = z.w.numNodes := by
  induction n with
  | zero =>
    intro m s z hm hi hrest
    have : m = cnt lens l := by omega
    subst this
    exact ⟨s, z, rfl, hi, hrest, rfl, rfl, rfl, rfl⟩
  | succ n ih =>
    intro m s z hm hi hrest
    have hs : Sym lens l m := ⟨by omega, hl15, by omega⟩
    rw [sizeSubInner_succ] at hrest
    have hbound : (zStep R l n z).totalSize ≤ T := by
      rw [← hT]
      exact Nat.le_trans (sizeSubInner_mono R l n _) (sizeSubOuter_mono R _ _ _ _ hrest)
    obtain ⟨s1, hopen, ho, hw1, hsym1, hz1, hz2⟩ := open_spec lens sorted R T hc hR hs hRl hi n hbound
    have hzwk : WK lens l (m + 1) (zStep R l n z).w := by
      rw [zStep_w]
      exact wk_step hi.zwk hs.1 hl15 n (by omega)
    obtain ⟨s2, hwrite, hi2, ho2, hn2⟩ := write_spec lens sorted R T (n := n) hc hR hs hRl (by omega) ho
      (by rw [hw1]; exact hi.wk) hzwk (by rw [hsym1]; exact hi.sym) hz1 hz2
    rw [buildSubInner_succ sorted R T l _ n s s1 s2 hopen hwrite]
    obtain ⟨s', z', h1, h2, h3, h4, h5, h6, h7⟩ := ih (m + 1) s2 (zStep R l n z) (by omega) hi2 hrest
    refine ⟨s', z', h1, h2, h3, ?_, ?_, ?_, ?_⟩
    · rw [h4, ho2, hw1]
    · rw [h5, hn2, hw1]
    · rw [h6, zStep_w]
    · rw [h7, zStep_w]

theorem before_level {l' m' l : Nat} (hs' : Sym lens l' m') (hl : 1 ≤ l) :
    Before l' m' l 0 ↔ Before l' m' (l - 1) (cnt' lens (l - 1)) := by
  unfold Before
  have h1 := hs'.1
  have h3 := hs'.2.2
  constructor
  · intro h
    rcases h with h | ⟨_, h⟩
    · by_cases hll : l' = l - 1
      · right
        refine ⟨hll, ?_⟩
        rw [cnt', if_neg (by omega), ← hll]; exact h3
      · left; omega
    · omega
  · intro h
    rcases h with h | ⟨h, _⟩
    · left; omega
    · left; omega

theorem subInv_level {l : Nat} {s : BuildSt} {z : SizeSt} (hl : 1 ≤ l) (hl15 : l ≤ 15)
    (hi : SubInv lens sorted R T (l - 1) (cnt' lens (l - 1)) s z) : SubInv lens sorted R T l 0 s z := by
  have e : l - 1 + 1 = l := by omega
  have hwk : WK lens l 0 s.w := by
    have := wk_level (l := l - 1) hi.wk (by omega); rw [e] at this; exact this
  have hzwk : WK lens l 0 z.w := by
    have := wk_level (l := l - 1) hi.zwk (by omega); rw [e] at this; exact this
  refine ⟨hwk, hzwk, hi.zlow, hi.ztot, ?_, hi.tsz, hi.tsize, hi.tend, hi.tbeg, hi.short, ?_, ?_⟩
  · rw [hi.sym, ← offs_succ, e]; rfl
  · rcases hi.cur with ⟨h1, h2⟩ | ⟨l0, m0, hs0, hR0, hb0, hlow0, hmax0, htoff0, hptr0, hcov0⟩
    · left
      exact ⟨h1, fun l' m' hs' hR' hb => h2 l' m' hs' hR' ((before_level lens hs' hl).mp hb)⟩
    · right
      refine ⟨l0, m0, hs0, hR0, (before_level lens hs0 hl).mpr hb0, hlow0, ?_, htoff0, hptr0, ?_⟩
      · intro l' m' hs' hR' hb
        exact hmax0 l' m' hs' hR' ((before_level lens hs' hl).mp hb)
      · intro l2 m2 hs2 hnb hp2
        exact hcov0 l2 m2 hs2 (fun hb => hnb ((before_level lens hs2 hl).mpr hb)) hp2
  · intro l' m' hs' hR' hb
    exact hi.long l' m' hs' hR' ((before_level lens hs' hl).mp hb)

theorem buildSubOuter_spec (hc : Complete lens) (hR : R ≤ 15) (sEnd : SizeSt) (hT : sEnd.totalSize = T)
    (fuel : Nat) : ∀ (l : Nat) (s : BuildSt) (z : SizeSt), R + 1 ≤ l → l + fuel = 16 →
      SubInv lens sorted R T (l - 1) (cnt' lens (l - 1)) s z → WN lens (l - 1) s.w → WN lens (l - 1) z.w →
      sizeSubOuter R fuel l z = some sEnd →
      ∃ s' z', buildSubOuter sorted R T fuel l (2 ^ (l - R)) s = .ok s' ∧
        SubInv lens sorted R T 15 (cnt' lens 15) s' z' ∧ WN lens 15 s'.w := by
  induction fuel with
  | zero =>
    intro l s z hl hlf hi hn _ _
    have : l - 1 = 15 := by omega
    rw [this] at hi hn
    exact ⟨s, z, rfl, hi, hn⟩
  | succ f ih =>
    intro l s z hl hlf hi hn hzn hrest
    have hl15 : l ≤ 15 := by omega
    have hl1 : 1 ≤ l := by omega
    have hi0 := subInv_level lens sorted R T hl1 hl15 hi
    have hcnt : s.w.count.getD l 0 = cnt lens l := by rw [hi0.wk.cur hl1]; rfl
    have hzcnt : z.w.count.getD l 0 = cnt lens l := by rw [hi0.zwk.cur hl1]; rfl
    have e : l - 1 + 1 = l := by omega
    have hlev := wn_level (l := l - 1) hn (by rw [e]; exact hcnt)
    have hzlev := wn_level (l := l - 1) hzn (by rw [e]; exact hzcnt)
    rw [e] at hlev hzlev
    obtain ⟨hno, hnn⟩ := hlev
    obtain ⟨hzno, hznn⟩ := hzlev
    have hnonneg := NO_nonneg hc l hl15
    rw [buildSubOuter, if_pos (show l ≤ maxLen from hl15)]
    simp only
    rw [if_neg (by rw [hno]; omega)]
    rw [sizeSubOuter, if_pos (show l ≤ maxLen from hl15)] at hrest
    simp only at hrest
    rw [if_neg (by rw [hzno]; omega)] at hrest
    let s1 : BuildSt := { s with w := { s.w with numOpen := s.w.numOpen * 2 - ((s.w.count.getD l 0 : Nat) : Int),
                                                  numNodes := s.w.numNodes + s.w.numOpen * 2 } }
    let z1 : SizeSt := { z with w := { z.w with numOpen := z.w.numOpen * 2 - ((z.w.count.getD l 0 : Nat) : Int),
                                                 numNodes := z.w.numNodes + z.w.numOpen * 2 } }
    have hi1 : SubInv lens sorted R T l 0 s1 z1 :=
      ⟨⟨hi0.wk.size, hi0.wk.cur, hi0.wk.rest, hi0.wk.key⟩, ⟨hi0.zwk.size, hi0.zwk.cur, hi0.zwk.rest, hi0.zwk.key⟩,
        hi0.zlow, hi0.ztot, hi0.sym, hi0.tsz, hi0.tsize, hi0.tend, hi0.tbeg, hi0.short, hi0.cur, hi0.long⟩
    have hf : f = 15 - l := by omega
    have hrest1 : sizeSubOuter R (15 - l) (l + 1) (sizeSubInner R l (s.w.count.getD l 0) z1) = some sEnd := by
      rw [← hf, hcnt, ← hzcnt]; exact hrest
    obtain ⟨s2, z2, hs2, hi2, hrest2, ho2, hn2, hzo2, hzn2⟩ :=
      buildSubInner_spec lens sorted R T hc hR l (by omega) hl15 sEnd hT (s.w.count.getD l 0) 0 s1 z1
        (by rw [hcnt]; omega) hi1 hrest1
    rw [hs2]
    simp only
    have hi2' : SubInv lens sorted R T (l + 1 - 1) (cnt' lens (l + 1 - 1)) s2 z2 := by
      simp only [Nat.add_sub_cancel]
      rw [cnt', if_neg (by omega)]; exact hi2
    have hn2' : WN lens (l + 1 - 1) s2.w := by
      simp only [Nat.add_sub_cancel]
      exact ⟨by rw [ho2]; exact hno, by rw [hn2]; exact hnn⟩
    have hzn2' : WN lens (l + 1 - 1) z2.w := by
      simp only [Nat.add_sub_cancel]
      exact ⟨by rw [hzo2]; exact hzno, by rw [hzn2]; exact hznn⟩
    have := ih (l + 1) s2 z2 (by omega) (by omega) hi2' hn2' hzn2' (by rw [hf]; exact hrest2)
    have e2 : l + 1 - R = (l - R) + 1 := by omega
    rw [e2, Nat.pow_succ] at this
    exact this

end sub

end Webp.Proofs.VP8LEntropyTableE
