import Generated.Funcs
import Webp.Impl.VP8Kernels
import Webp.Proofs.FuncsBridge
/-
  The run-time filled clip tables of internal/dsp (cliptables.go `initClipTables`), translated as a
  Lean definition that runs the four init loops (`Generated.Funcs.initClipTables`), are the tables
  of the kernel model `Webp.Impl.VP8Kernels`.  The loops are evaluated symbolically by the
  generic lemma `forRangeM_fill` (kernel evaluation of 1786 list updates is too slow).
-/
namespace Webp.Proofs.FuncsTables
open Webp.Go Webp.Go.IntSem Webp.Proofs.FuncsBridge

theorem set_mid (pre : List Int) (x : Int) (rest : List Int) (v : Int) (m : Nat) (hm : pre.length = m) :
    (pre ++ x :: rest).set m v = pre ++ v :: rest := by
  subst hm
  simp [List.set_append_right]

theorem fill_prefix (n : Nat) (lo : Int) (f : Int → Int) (t : List Int) (hlen : t.length = n) :
    ∀ m, m ≤ n →
    (List.range m).foldl
      (fun (acc : R (List Int)) (k : Nat) => acc.bind fun s =>
        (setI s (lo + 1 * (k : Int) - lo) (f (lo + 1 * (k : Int)))).bind fun s => .ok s) (.ok t)
      = .ok ((List.range m).map (fun (k : Nat) => f (lo + k)) ++ t.drop m) := by
  intro m
  induction m with
  | zero => intro _; simp
  | succ m ih =>
    intro hm
    rw [List.range_succ, List.foldl_append, ih (by omega)]
    simp only [List.foldl_cons, List.foldl_nil, ok_bind']
    have hidx : lo + 1 * (m : Int) - lo = (m : Int) := by omega
    rw [hidx]
    have hdrop : t.drop m = t[m]'(by omega) :: t.drop (m + 1) := List.drop_eq_getElem_cons (by omega)
    have hlen' : ((List.range m).map (fun (k : Nat) => f (lo + k)) ++ t.drop m).length = n := by
      simp; omega
    unfold setI
    have h1 : ¬ ((m : Int) < 0) := by omega
    simp only [h1, if_false, Int.toNat_natCast, hlen', show m < n from by omega, if_true]
    rw [hdrop, set_mid _ _ _ _ m (by simp)]
    simp [List.map_append, Int.one_mul]
    rfl

theorem forRangeM_fill (n : Nat) (lo hi : Int) (f : Int → Int) (t : List Int) (hlen : t.length = n)
    (hhi : hi = lo + n) :
    forRangeM lo hi 1 t (fun i s => (setI s (i - lo) (f i)).bind fun s => .ok s)
      = .ok ((List.range n).map (fun (k : Nat) => f (lo + k))) := by
  have htc : tripCount lo hi 1 = n := by unfold tripCount; subst hhi; simp; omega
  unfold forRangeM
  rw [htc, fill_prefix n lo f t hlen n (Nat.le_refl n)]
  simp [← hlen]

open Webp.Impl.VP8Kernels in
theorem wrapS8_toI8 (x : Int) : wrapS 8 x = toI8 x := by
  rw [wrapS8_cases]; unfold toI8; split <;> omega

theorem len_zeros (n : Nat) : (zerosI n).length = n := by simp [zerosI]

theorem t1 : forRangeM (-893) (892 + 1) 1 (zerosI 1786) (fun i s => (setI s (i - (-893))
      (wrapS 8 (if decide (i < -128) = true then -128 else if decide (i > 127) = true then 127 else i))).bind fun s => .ok s)
    = .ok ((List.range 1786).map (fun (k : Nat) => wrapS 8 (if decide ((-893 : Int) + k < -128) = true then -128 else if decide ((-893 : Int) + k > 127) = true then 127 else (-893 : Int) + k))) :=
  forRangeM_fill 1786 (-893) (892 + 1) (fun i => wrapS 8 (if decide (i < -128) = true then -128 else if decide (i > 127) = true then 127 else i)) _ (len_zeros _) (by omega)

theorem t2 : forRangeM (-112) (112 + 1) 1 (zerosI 225) (fun i s => (setI s (i - (-112))
      (wrapS 8 (if decide (i < -16) = true then -16 else if decide (i > 15) = true then 15 else i))).bind fun s => .ok s)
    = .ok ((List.range 225).map (fun (k : Nat) => wrapS 8 (if decide ((-112 : Int) + k < -16) = true then -16 else if decide ((-112 : Int) + k > 15) = true then 15 else (-112 : Int) + k))) :=
  forRangeM_fill 225 (-112) (112 + 1) (fun i => wrapS 8 (if decide (i < -16) = true then -16 else if decide (i > 15) = true then 15 else i)) _ (len_zeros _) (by omega)

theorem t3 : forRangeM (-255) (511 + 1) 1 (zerosI 767) (fun i s => (setI s (i - (-255))
      (wrapU 8 (if decide (i < 0) = true then 0 else if decide (i > 255) = true then 255 else i))).bind fun s => .ok s)
    = .ok ((List.range 767).map (fun (k : Nat) => wrapU 8 (if decide ((-255 : Int) + k < 0) = true then 0 else if decide ((-255 : Int) + k > 255) = true then 255 else (-255 : Int) + k))) :=
  forRangeM_fill 767 (-255) (511 + 1) (fun i => wrapU 8 (if decide (i < 0) = true then 0 else if decide (i > 255) = true then 255 else i)) _ (len_zeros _) (by omega)

theorem t4 : forRangeM (-255) (255 + 1) 1 (zerosI 511) (fun i s => (setI s (i - (-255))
      (wrapU 8 (if decide (i < 0) = true then -i else i))).bind fun s => .ok s)
    = .ok ((List.range 511).map (fun (k : Nat) => wrapU 8 (if decide ((-255 : Int) + k < 0) = true then -((-255 : Int) + k) else (-255 : Int) + k))) :=
  forRangeM_fill 511 (-255) (255 + 1) (fun i => wrapU 8 (if decide (i < 0) = true then -i else i)) _ (len_zeros _) (by omega)

open Webp.Impl.VP8Kernels in
theorem wrapU8_toU8 (x : Int) : wrapU 8 x = toU8 x := by
  rw [wrapU8_eq]; rfl

open Webp.Impl.VP8Kernels in
theorem tie_initClipTables :
    Generated.Funcs.initClipTables
      = .ok (sclip1Table.toList, sclip2Table.toList, clip1Table.toList, abs0Table.toList) := by
  unfold Generated.Funcs.initClipTables
  simp only []
  have e1 : ∀ i : Int, (893 : Int) + i = i - (-893) := by intro i; omega
  have e2 : ∀ i : Int, (112 : Int) + i = i - (-112) := by intro i; omega
  have e3 : ∀ i : Int, (255 : Int) + i = i - (-255) := by intro i; omega
  rw [show (fun (i : Int) (sclip1 : List Int) => (setI sclip1 (893 + i) (wrapS 8 (if decide (i < -128) = true then -128 else if decide (i > 127) = true then 127 else i))).bind fun sclip1 => Res.ok sclip1)
      = (fun i s => (setI s (i - (-893)) (wrapS 8 (if decide (i < -128) = true then -128 else if decide (i > 127) = true then 127 else i))).bind fun s => .ok s) from by funext i s; rw [e1]]
  rw [t1, ok_bind]
  rw [show (fun (i : Int) (sclip2 : List Int) => (setI sclip2 (112 + i) (wrapS 8 (if decide (i < -16) = true then -16 else if decide (i > 15) = true then 15 else i))).bind fun sclip1 => Res.ok sclip1)
      = (fun i s => (setI s (i - (-112)) (wrapS 8 (if decide (i < -16) = true then -16 else if decide (i > 15) = true then 15 else i))).bind fun s => .ok s) from by funext i s; rw [e2]]
  rw [t2, ok_bind']
  rw [show (fun (i : Int) (clip1 : List Int) => (setI clip1 (255 + i) (wrapU 8 (if decide (i < 0) = true then 0 else if decide (i > 255) = true then 255 else i))).bind fun sclip1 => Res.ok sclip1)
      = (fun i s => (setI s (i - (-255)) (wrapU 8 (if decide (i < 0) = true then 0 else if decide (i > 255) = true then 255 else i))).bind fun s => .ok s) from by funext i s; rw [e3]]
  rw [t3, ok_bind']
  rw [show (fun (i : Int) (abs0 : List Int) => (setI abs0 (255 + i) (wrapU 8 (if decide (i < 0) = true then -i else i))).bind fun sclip1 => Res.ok sclip1)
      = (fun i s => (setI s (i - (-255)) (wrapU 8 (if decide (i < 0) = true then -i else i))).bind fun s => .ok s) from by funext i s; rw [e3]]
  rw [t4, ok_bind']
  unfold sclip1Table sclip2Table clip1Table abs0Table
  simp only [wrapS8_toI8, wrapU8_toU8, decide_eq_true_eq]
  have k1 : ∀ k : Nat, (-893 : Int) + k = (k : Int) - 893 := by intro k; omega
  have k2 : ∀ k : Nat, (-112 : Int) + k = (k : Int) - 112 := by intro k; omega
  have k3 : ∀ k : Nat, (-255 : Int) + k = (k : Int) - 255 := by intro k; omega
  simp only [k1, k2, k3]

end Webp.Proofs.FuncsTables
