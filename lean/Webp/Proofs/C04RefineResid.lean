import Webp.Proofs.C04RefineHeader
import Webp.Spec.VP8.Macroblock
/-
  C04 refinement, macroblock-level syntax (stage B), residuals, part 1: `Webp.Spec.VP8.readResiduals` (§13
  `residual_data()`) in staged form — one `rStep` per block, its `for` loops as folds.
-/
namespace Webp.Proofs.C04RefineResid
open Webp.Spec.VP8
open Webp.Proofs.C04RefineHeader (forIn_range_id)

/-- state of the block loops: coefficients, `above`, `left`, decoder, `coded`, `eobs`, overflow flag -/
abbrev RSt := Array Int × Array Nat × Array Nat × BoolDec × Nat × Array Nat × Bool

/-- one block: context = above flag + left flag, read the tokens, store "has a token" in both contexts -/
def rStep (probs : Array Nat) (t first : Nat) (dq0 dq1 : Int) (ai li blk : Nat) (s : RSt) : RSt :=
  let R := readBlock probs t first (s.2.1.getD ai 0 + s.2.2.1.getD li 0) dq0 dq1 (blk * 16) s.1 s.2.2.2.1
  (R.2.1, s.2.1.setIfInBounds ai (if R.1 > first then 1 else 0), s.2.2.1.setIfInBounds li (if R.1 > first then 1 else 0),
   R.2.2.2, s.2.2.2.2.1 ||| (if R.1 > first then 1 else 0) <<< blk, s.2.2.2.2.2.1.setIfInBounds blk R.1,
   s.2.2.2.2.2.2 || R.2.2.1)

def yRow (probs : Array Nat) (q : DequantFactors) (mbX ytype first by' : Nat) (s : RSt) : RSt :=
  (List.range' 0 4).foldl (fun s bx => rStep probs ytype first q.y1dc q.y1ac (9 * mbX + bx) by' (4 * by' + bx) s) s

def yAll (probs : Array Nat) (q : DequantFactors) (mbX ytype first : Nat) (s : RSt) : RSt :=
  (List.range' 0 4).foldl (fun s by' => yRow probs q mbX ytype first by' s) s

def uvRow (probs : Array Nat) (q : DequantFactors) (mbX plane by' : Nat) (s : RSt) : RSt :=
  (List.range' 0 2).foldl (fun s bx => rStep probs 2 0 q.uvdc q.uvac (9 * mbX + 4 + 2 * plane + bx) (4 + 2 * plane + by')
    (16 + 4 * plane + 2 * by' + bx) s) s

def uvPlane (probs : Array Nat) (q : DequantFactors) (mbX plane : Nat) (s : RSt) : RSt :=
  (List.range' 0 2).foldl (fun s by' => uvRow probs q mbX plane by' s) s

def uvAll (probs : Array Nat) (q : DequantFactors) (mbX : Nat) (s : RSt) : RSt :=
  (List.range' 0 2).foldl (fun s plane => uvPlane probs q mbX plane s) s

/-- the contexts a skipped macroblock leaves: eight flags cleared -/
def clear8 (mbX : Nat) (above left : Array Nat) : Array Nat × Array Nat :=
  (List.range' 0 8).foldl (fun s k => (s.1.setIfInBounds (9 * mbX + k) 0, s.2.setIfInBounds k 0)) (above, left)

/-- `readResiduals`, staged -/
def specRes (probs : Array Nat) (q : DequantFactors) (mbX : Nat) (m : MBInfo) (ctx : CoeffCtx) (d : BoolDec) :
    Array Int × MBInfo × CoeffCtx × BoolDec :=
  if m.skip then
    let c := clear8 mbX ctx.above ctx.left
    if m.hasY2 then
      (Array.replicate 400 0, m, { above := c.1.setIfInBounds (9 * mbX + 8) 0, left := c.2.setIfInBounds 8 0 }, d)
    else (Array.replicate 400 0, m, { above := c.1, left := c.2 }, d)
  else
    let s0 : RSt := (Array.replicate 400 0, ctx.above, ctx.left, d, 0, Array.replicate 25 0, false)
    let s := if m.hasY2 then
        uvAll probs q mbX (yAll probs q mbX 0 1 (rStep probs 1 0 q.y2dc q.y2ac (9 * mbX + 8) 8 24 s0))
      else uvAll probs q mbX (yAll probs q mbX 3 0 s0)
    (s.1, { m with coded := s.2.2.2.2.1, eobs := s.2.2.2.2.2.1, overflow := s.2.2.2.2.2.2 },
     { above := s.2.1, left := s.2.2.1 }, s.2.2.2.1)

end Webp.Proofs.C04RefineResid
