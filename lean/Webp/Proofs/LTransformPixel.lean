import Webp.Impl.LTransform
import Std.Tactic.BVDecide
/-
  Pixel-level lemmas for the VP8L transform layer.

  `bv_decide` is used in this file ONLY for word-level bit-twiddling facts about one to three
  32-bit words (channel pack/unpack, the mask tricks `addPixels` / `subPixels` / `average2` /
  `addGreenPx` / `subtractGreenPx`, the mask composition of the cross-colour pixel).  Each such
  lemma is marked `-- bv_decide: word-level`.  Everything else is ordinary `simp`/`omega`.
-/
namespace Webp.Proofs.LTransformPixel
open Webp.Spec.LTransform
open Webp.Impl.LTransform (addPixels subPixels)

/-! ## channels -/

-- bv_decide: word-level
theorem chA_mk (a r g b : UInt8) : chA (mk a r g b) = a := by
  simp only [mk, chA]; bv_decide
-- bv_decide: word-level
theorem chR_mk (a r g b : UInt8) : chR (mk a r g b) = r := by
  simp only [mk, chR]; bv_decide
-- bv_decide: word-level
theorem chG_mk (a r g b : UInt8) : chG (mk a r g b) = g := by
  simp only [mk, chG]; bv_decide
-- bv_decide: word-level
theorem chB_mk (a r g b : UInt8) : chB (mk a r g b) = b := by
  simp only [mk, chB]; bv_decide
-- bv_decide: word-level
theorem mk_ch (p : Px) : mk (chA p) (chR p) (chG p) (chB p) = p := by
  simp only [mk, chA, chR, chG, chB]; bv_decide

theorem px_ext {p q : Px} (ha : chA p = chA q) (hr : chR p = chR q) (hg : chG p = chG q)
    (hb : chB p = chB q) : p = q := by
  rw [← mk_ch p, ← mk_ch q, ha, hr, hg, hb]

/-! ## mask tricks = channel-wise definitions -/

-- bv_decide: word-level
theorem addPixels_eq (a b : Px) : addPixels a b = addPx a b := by
  simp only [addPixels, addPx, map2, mk, chA, chR, chG, chB]; bv_decide

-- bv_decide: word-level
theorem subPixels_eq (a b : Px) : subPixels a b = subPx a b := by
  simp only [subPixels, subPx, map2, mk, chA, chR, chG, chB]; bv_decide

-- bv_decide: word-level
theorem average2_eq (a b : Px) : Webp.Impl.LTransform.average2 a b = average2 a b := by
  simp only [Webp.Impl.LTransform.average2, average2, avgCh, map2, mk, chA, chR, chG, chB]; bv_decide

-- bv_decide: word-level
theorem addGreenPx_eq (p : Px) : Webp.Impl.LTransform.addGreenPx p = addGreenPx p := by
  simp only [Webp.Impl.LTransform.addGreenPx, addGreenPx, mk, chA, chR, chG, chB]; bv_decide

-- bv_decide: word-level
theorem subtractGreenPx_eq (p : Px) :
    Webp.Impl.LTransform.subtractGreenPx p = mk (chA p) (chR p - chG p) (chG p) (chB p - chG p) := by
  simp only [Webp.Impl.LTransform.subtractGreenPx, mk, chA, chR, chG, chB]; bv_decide


/-! ## the Go-style channel loops = channel-wise definitions -/

-- bv_decide: word-level
theorem shr0_and (p : Px) : ((p >>> (0 : UInt32)) &&& 0xff) = (chB p).toUInt32 := by
  simp only [chB]; bv_decide
-- bv_decide: word-level
theorem shr8_and (p : Px) : ((p >>> (8 : UInt32)) &&& 0xff) = (chG p).toUInt32 := by
  simp only [chG]; bv_decide
-- bv_decide: word-level
theorem shr16_and (p : Px) : ((p >>> (16 : UInt32)) &&& 0xff) = (chR p).toUInt32 := by
  simp only [chR]; bv_decide
-- bv_decide: word-level
theorem shr24_and (p : Px) : ((p >>> (24 : UInt32)) &&& 0xff) = (chA p).toUInt32 := by
  simp only [chA]; bv_decide
-- bv_decide: word-level
theorem and_ff (p : Px) : (p &&& 0xff) = (chB p).toUInt32 := by
  simp only [chB]; bv_decide

open Webp.Impl.LTransform (chanAt clampByte) in
theorem chanAt_0 (p : Px) : chanAt p 0 = ((chB p).toNat : Int) := by
  unfold chanAt; rw [shr0_and]; simp
open Webp.Impl.LTransform (chanAt clampByte) in
theorem chanAt_8 (p : Px) : chanAt p 8 = ((chG p).toNat : Int) := by
  unfold chanAt; rw [shr8_and]; simp
open Webp.Impl.LTransform (chanAt clampByte) in
theorem chanAt_16 (p : Px) : chanAt p 16 = ((chR p).toNat : Int) := by
  unfold chanAt; rw [shr16_and]; simp
open Webp.Impl.LTransform (chanAt clampByte) in
theorem chanAt_24 (p : Px) : chanAt p 24 = ((chA p).toNat : Int) := by
  unfold chanAt; rw [shr24_and]; simp

-- bv_decide: word-level
theorem or_loop_eq_mk (a r g b : UInt8) :
    ((((0 : UInt32) ||| (b.toUInt32 <<< (0 : UInt32))) ||| (g.toUInt32 <<< (8 : UInt32))) |||
      (r.toUInt32 <<< (16 : UInt32))) ||| (a.toUInt32 <<< (24 : UInt32)) = mk a r g b := by
  simp only [mk]; bv_decide

theorem clampByte_eq (v : Int) : Webp.Impl.LTransform.clampByte v = clampCh v := rfl

theorem clampAddSubFull_eq (a b c : Px) :
    Webp.Impl.LTransform.clampAddSubFull a b c = clampAddSubFull a b c := by
  simp only [Webp.Impl.LTransform.clampAddSubFull, List.foldl, chanAt_0, chanAt_8, chanAt_16,
    chanAt_24, or_loop_eq_mk, clampAddSubFull, map3, clampByte_eq]

theorem clampAddSubHalf_eq (a c : Px) :
    Webp.Impl.LTransform.clampAddSubHalf a c = clampAddSubHalf a c := by
  simp only [Webp.Impl.LTransform.clampAddSubHalf, List.foldl, chanAt_0, chanAt_8, chanAt_16,
    chanAt_24, or_loop_eq_mk, clampAddSubHalf, map2, clampByte_eq]

theorem selectPred_eq (l t tl : Px) : Webp.Impl.LTransform.selectPred l t tl = select l t tl := by
  have hab : ∀ v : Int, (if v < 0 then -v else v) = (v.natAbs : Int) := by intro v; split <;> omega
  simp only [Webp.Impl.LTransform.selectPred, select, absDiff, chanAt_0, chanAt_8, chanAt_16,
    chanAt_24, hab]
  rfl

/-- encoder `predictPixel` = the specification's `predict`, every mode (also ≥ 14) -/
theorem predictPixel_eq (mode : Nat) (l t tr tl : Px) :
    Webp.Impl.LTransform.predictPixel mode l t tr tl = predict mode l t tr tl := by
  unfold Webp.Impl.LTransform.predictPixel predict
  split <;> simp only [average2_eq, selectPred_eq, clampAddSubFull_eq, clampAddSubHalf_eq]


-- bv_decide: word-level
theorem mask_compose (p : Px) (r b : UInt8) :
    ((p &&& 0xff00ff00) ||| (r.toUInt32 <<< (16 : UInt32))) ||| b.toUInt32 = mk (chA p) r (chG p) b := by
  simp only [mk, chA, chG]; bv_decide

/-- the meaning of `avgCh`: the floor of the mean -/
theorem avgCh_toNat (a b : UInt8) : (avgCh a b).toNat = (a.toNat + b.toNat) / 2 := by
  simp only [avgCh, UInt16.toNat_toUInt8, UInt16.toNat_shiftRight, UInt16.toNat_add,
    UInt8.toNat_toUInt16]
  have := a.toNat_lt; have := b.toNat_lt
  simp [Nat.shiftRight_eq_div_pow]; omega

/-! ## add ∘ sub -/

theorem addPx_subPx (a p : Px) : addPx (subPx a p) p = a := by
  apply px_ext <;> simp [addPx, subPx, map2, chA_mk, chR_mk, chG_mk, chB_mk]

/-- the cancellation used by the predictor round trip, in the form the code has it -/
theorem addPx_subPixels (a p : Px) : addPx (subPixels a p) p = a := by
  rw [subPixels_eq, addPx_subPx]

theorem addPixels_subPixels (a p : Px) : addPixels (subPixels a p) p = a := by
  rw [addPixels_eq, addPx_subPixels]

theorem addGreenPx_subtractGreenPx (p : Px) :
    addGreenPx (Webp.Impl.LTransform.subtractGreenPx p) = p := by
  rw [subtractGreenPx_eq]
  apply px_ext <;> simp [addGreenPx, chA_mk, chR_mk, chG_mk, chB_mk]

end Webp.Proofs.LTransformPixel
