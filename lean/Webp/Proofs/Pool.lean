import Webp.Impl.Pool
/-
  Webp.Proofs.Pool — lemmas behind `Webp.Props.C11`: the results of pooled calls, the
  identity invariant of the concurrent pool, the frame property of returned memory.
-/
namespace Webp.Impl.Pool

variable {Obj Args Obs Res : Type}

/-! ### sequential histories -/

/-- whatever the pool hands out, the object the body runs on looks fresh -/
theorem acquire_obs (K : Kit Obj Args Obs Res) (hr : ResetComplete K) (idle : List Obj)
    (c : Choice) (a : Args) : K.obs (acquire K idle c a).1 = K.obs (K.fresh a) := by
  unfold acquire
  cases c.pick with
  | none => rfl
  | some i =>
    simp only
    cases (c.gc.foldl List.eraseIdx idle)[i]? with
    | none => rfl
    | some o =>
      simp only
      cases c.keep with
      | true => exact hr o a
      | false => rfl

theorem call_result (K : Kit Obj Args Obs Res) (hr : ResetComplete K) (hs : ObsSufficient K)
    (idle : List Obj) (c : Choice) (a : Args) : (call K idle c a).1 = freshResult K a := by
  unfold call freshResult
  exact hs _ _ a (acquire_obs K hr idle c a)

theorem run_results (K : Kit Obj Args Obs Res) (hr : ResetComplete K) (hs : ObsSufficient K) :
    ∀ (h : List (Args × Choice)) (idle : List Obj),
      (run K idle h).1 = h.map (fun p => freshResult K p.1)
  | [], _ => rfl
  | (a, c) :: h, idle => by
    simp only [run, List.map_cons]
    rw [call_result K hr hs, run_results K hr hs h]

theorem run_append (K : Kit Obj Args Obs Res) :
    ∀ (h₁ h₂ : List (Args × Choice)) (idle : List Obj),
      run K idle (h₁ ++ h₂) =
        ((run K idle h₁).1 ++ (run K (run K idle h₁).2 h₂).1, (run K (run K idle h₁).2 h₂).2)
  | [], _, _ => by simp [run]
  | (a, c) :: h₁, h₂, idle => by
    simp only [List.cons_append, run]
    rw [run_append K h₁ h₂]

/-! ### identities in the concurrent pool -/

theorem getElem?_mem_of_some {α : Type} {l : List α} {i : Nat} {x : α} (h : l[i]? = some x) :
    x ∈ l := List.mem_of_getElem? h

/-- in a duplicate-free list the element at position `i` does not survive erasing position `i` -/
theorem not_mem_eraseIdx_of_nodup {α : Type} :
    ∀ {l : List α} {i : Nat} {x : α}, l.Nodup → l[i]? = some x → x ∉ l.eraseIdx i
  | [], _, _, _, h => by simp at h
  | y :: l, 0, x, hn, h => by
    simp at h; subst h
    simpa using (List.nodup_cons.1 hn).1
  | y :: l, i + 1, x, hn, h => by
    simp at h
    have hn' := List.nodup_cons.1 hn
    simp only [List.eraseIdx_cons_succ, List.mem_cons, not_or]
    refine ⟨?_, not_mem_eraseIdx_of_nodup hn'.2 h⟩
    intro e; subst e
    exact hn'.1 (getElem?_mem_of_some h)

theorem map_eraseIdx {α β : Type} (f : α → β) :
    ∀ (l : List α) (i : Nat), (l.eraseIdx i).map f = (l.map f).eraseIdx i
  | [], _ => rfl
  | _ :: _, 0 => rfl
  | x :: l, i + 1 => by simp [List.eraseIdx_cons_succ, map_eraseIdx f l i]

theorem nodup_eraseIdx {α : Type} {l : List α} (i : Nat) (h : l.Nodup) : (l.eraseIdx i).Nodup :=
  List.Nodup.sublist (List.eraseIdx_sublist l i) h

theorem mem_of_mem_eraseIdx {α : Type} {l : List α} {i : Nat} {x : α} (h : x ∈ l.eraseIdx i) :
    x ∈ l := (List.eraseIdx_sublist l i).subset h

/-- identity invariant: live identities are pairwise different and below the frontier -/
structure IdInv (s : State Obj Args Res) : Prop where
  nodup : s.ids.Nodup
  low   : ∀ x ∈ s.ids, x < s.next

theorem ids_init : IdInv ({} : State Obj Args Res) := ⟨by simp [State.ids], by simp [State.ids]⟩

theorem IdInv.step {K : Kit Obj Args Obs Res} {s t : State Obj Args Res} (hi : IdInv s)
    (hst : Step K s t) : IdInv t := by
  obtain ⟨hn, hl⟩ := hi
  cases hst with
  | miss b a =>
    constructor
    · simp only [State.ids, List.map_cons] at hn ⊢
      rw [List.nodup_append] at hn ⊢
      refine ⟨hn.1, ?_, ?_⟩
      · refine List.nodup_cons.2 ⟨?_, hn.2.1⟩
        intro hm
        exact Nat.lt_irrefl _ (hl _ (by simp [State.ids]; exact .inr (by simpa using hm)))
      · intro x hx y hy
        rcases List.mem_cons.1 hy with rfl | hy
        · intro e; subst e
          exact Nat.lt_irrefl _ (hl _ (by simp only [State.ids, List.mem_append]; exact .inl hx))
        · exact hn.2.2 x hx y hy
    · intro x hx
      simp only [State.ids, List.map_cons, List.mem_append, List.mem_cons] at hx
      rcases hx with hx | rfl | hx
      · exact Nat.lt_succ_of_lt (hl x (by simp only [State.ids, List.mem_append]; exact .inl hx))
      · exact Nat.lt_succ_self _
      · exact Nat.lt_succ_of_lt (hl x (by simp only [State.ids, List.mem_append]; exact .inr hx))
  | hit b a i id o h =>
    have hmap : (s.idle.map (·.1))[i]? = some id := by simp [List.getElem?_map, h]
    constructor
    · simp only [State.ids, List.map_cons, map_eraseIdx] at hn ⊢
      rw [List.nodup_append] at hn ⊢
      refine ⟨nodup_eraseIdx i hn.1, ?_, ?_⟩
      · refine List.nodup_cons.2 ⟨?_, hn.2.1⟩
        intro hm
        exact hn.2.2 id (getElem?_mem_of_some hmap) id hm rfl
      · intro x hx y hy
        rcases List.mem_cons.1 hy with rfl | hy
        · intro e; subst e
          exact not_mem_eraseIdx_of_nodup hn.1 hmap hx
        · exact hn.2.2 x (mem_of_mem_eraseIdx hx) y hy
    · intro x hx
      simp only [State.ids, List.map_cons, map_eraseIdx, List.mem_append, List.mem_cons] at hx
      refine hl x ?_
      simp only [State.ids, List.mem_append]
      rcases hx with hx | rfl | hx
      · exact .inl (mem_of_mem_eraseIdx hx)
      · exact .inl (getElem?_mem_of_some hmap)
      · exact .inr hx
  | drop i =>
    constructor
    · simp only [State.ids, map_eraseIdx] at hn ⊢
      rw [List.nodup_append] at hn ⊢
      exact ⟨nodup_eraseIdx i hn.1, hn.2.1, fun x hx y hy => hn.2.2 x (mem_of_mem_eraseIdx hx) y hy⟩
    · intro x hx
      simp only [State.ids, map_eraseIdx, List.mem_append] at hx
      refine hl x ?_
      simp only [State.ids, List.mem_append]
      exact hx.imp mem_of_mem_eraseIdx id
  | finish j h put hj =>
    have hmap : (s.held.map (·.id))[j]? = some h.id := by simp [List.getElem?_map, hj]
    constructor
    · simp only [State.ids, map_eraseIdx] at hn ⊢
      rw [List.nodup_append] at hn ⊢
      cases put with
      | false =>
        exact ⟨hn.1, nodup_eraseIdx j hn.2.1, fun x hx y hy => hn.2.2 x hx y (mem_of_mem_eraseIdx hy)⟩
      | true =>
        simp only [if_true, List.map_cons]
        refine ⟨List.nodup_cons.2 ⟨?_, hn.1⟩, nodup_eraseIdx j hn.2.1, ?_⟩
        · intro hm
          exact hn.2.2 h.id hm h.id (getElem?_mem_of_some hmap) rfl
        · intro x hx y hy
          rcases List.mem_cons.1 hx with rfl | hx
          · intro e; subst e
            exact not_mem_eraseIdx_of_nodup hn.2.1 hmap hy
          · exact hn.2.2 x hx y (mem_of_mem_eraseIdx hy)
    · intro x hx
      refine hl x ?_
      simp only [State.ids, List.mem_append] at hx ⊢
      rcases hx with hx | hx
      · cases put with
        | false => exact .inl (by simpa using hx)
        | true =>
          simp only [if_true, List.map_cons, List.mem_cons] at hx
          rcases hx with rfl | hx
          · exact .inr (getElem?_mem_of_some hmap)
          · exact .inl hx
      · exact .inr (mem_of_mem_eraseIdx (by simpa [map_eraseIdx] using hx))

theorem IdInv.of_reachable {K : Kit Obj Args Obs Res} {s : State Obj Args Res}
    (h : Reachable K s) : IdInv s := by
  induction h with
  | init => exact ids_init
  | step _ hst ih => exact ih.step hst

/-- two positions of a duplicate-free list holding the same value are the same position -/
theorem idx_unique_of_nodup {α : Type} :
    ∀ {l : List α} {i j : Nat} {x : α}, l.Nodup → l[i]? = some x → l[j]? = some x → i = j
  | [], _, _, _, _, h, _ => by simp at h
  | y :: l, 0, 0, _, _, _, _ => rfl
  | y :: l, 0, j + 1, x, hn, hi, hj => by
    simp at hi hj; subst hi
    exact absurd (getElem?_mem_of_some hj) (List.nodup_cons.1 hn).1
  | y :: l, i + 1, 0, x, hn, hi, hj => by
    simp at hi hj; subst hj
    exact absurd (getElem?_mem_of_some hi) (List.nodup_cons.1 hn).1
  | y :: l, i + 1, j + 1, x, hn, hi, hj => by
    simp at hi hj
    rw [idx_unique_of_nodup (List.nodup_cons.1 hn).2 hi hj]

/-! ### results in the concurrent pool -/

/-- every object out of the pool looks fresh for the call it serves; every completed call
    returned the fresh result -/
structure ObsInv (K : Kit Obj Args Obs Res) (s : State Obj Args Res) : Prop where
  held : ∀ h ∈ s.held, K.obs h.obj = K.obs (K.fresh h.args)
  out  : ∀ p ∈ s.out, p.2.2 = freshResult K p.2.1

theorem ObsInv.step {K : Kit Obj Args Obs Res} (hr : ResetComplete K) (hs : ObsSufficient K)
    {s t : State Obj Args Res} (hi : ObsInv K s) (hst : Step K s t) : ObsInv K t := by
  obtain ⟨hh, ho⟩ := hi
  cases hst with
  | miss b a =>
    refine ⟨fun h hm => ?_, ho⟩
    rcases List.mem_cons.1 hm with rfl | hm
    · rfl
    · exact hh h hm
  | hit b a i id o h =>
    refine ⟨fun h' hm => ?_, ho⟩
    rcases List.mem_cons.1 hm with rfl | hm
    · exact hr o a
    · exact hh h' hm
  | drop i => exact ⟨hh, ho⟩
  | finish j h put hj =>
    refine ⟨fun h' hm => hh h' (mem_of_mem_eraseIdx hm), fun p hp => ?_⟩
    rcases List.mem_cons.1 hp with rfl | hp
    · exact hs _ _ _ (hh h (getElem?_mem_of_some hj))
    · exact ho p hp

theorem ObsInv.of_reachable {K : Kit Obj Args Obs Res} (hr : ResetComplete K)
    (hs : ObsSufficient K) {s : State Obj Args Res} (h : Reachable K s) : ObsInv K s := by
  induction h with
  | init => exact ⟨by simp, by simp⟩
  | step _ hst ih => exact ih.step hr hs hst

/-! ### returned memory -/

theorem applyWrites_frame (ws : List (Nat × Nat)) :
    ∀ (m : Nat → Nat) (x : Nat), (∀ p ∈ ws, p.1 ≠ x) → applyWrites m ws x = m x := by
  induction ws with
  | nil => intro m x _; rfl
  | cons p ws ih =>
    intro m x h
    obtain ⟨a, v⟩ := p
    simp only [applyWrites]
    rw [ih _ x (fun q hq => h q (List.mem_cons_of_mem _ hq))]
    have : a ≠ x := h (a, v) (List.mem_cons_self ..)
    simp [Ne.symm this]

theorem MState.Wf.after {s : MState} {c : MCall} (hw : s.Wf) (hc : c.Ok s) : (s.after c).Wf := by
  refine ⟨fun x hx => ?_, fun x hx => ?_, fun x hx => ?_⟩
  · simp only [MState.after, List.mem_append] at hx ⊢
    rcases hx with hx | hx
    · exact (hc.ret x hx).2
    · intro ho
      rcases hc.own x ho with h | h
      · exact hw.givenFree x hx h
      · exact Nat.lt_irrefl _ (Nat.lt_of_lt_of_le (hw.givenLow x hx) h.1)
  · simp only [MState.after, List.mem_append] at hx ⊢
    rcases hx with hx | hx
    · exact (hc.ret x hx).1
    · exact Nat.lt_of_lt_of_le (hw.givenLow x hx) hc.mono
  · simp only [MState.after] at hx ⊢
    rcases hc.own x hx with h | h
    · exact Nat.lt_of_lt_of_le (hw.ownedLow x h) hc.mono
    · exact h.2

theorem MState.after_given_unchanged {s : MState} {c : MCall} (hw : s.Wf) (hc : c.Ok s)
    (x : Nat) (hx : x ∈ s.given) : (s.after c).mem x = s.mem x := by
  simp only [MState.after]
  apply applyWrites_frame
  intro p hp e
  rcases hc.wr p hp with h | h
  · exact hw.givenFree x hx (e ▸ h)
  · exact Nat.lt_irrefl _ (Nat.lt_of_lt_of_le (hw.givenLow x hx) (e ▸ h))

theorem MRun.given_unchanged {s t : MState} {cs : List MCall} (hrun : MRun s cs t) :
    s.Wf → (∀ x ∈ s.given, t.mem x = s.mem x) ∧ t.Wf ∧ (∀ x ∈ s.given, x ∈ t.given) := by
  induction hrun with
  | nil s => intro hw; exact ⟨fun _ _ => rfl, hw, fun _ h => h⟩
  | cons hc _ ih =>
    intro hw
    obtain ⟨h1, h2, h3⟩ := ih (hw.after hc)
    refine ⟨fun x hx => ?_, h2, fun x hx => h3 x (by simp [MState.after, hx])⟩
    rw [h1 x (by simp [MState.after, hx]), MState.after_given_unchanged hw hc x hx]

/-! ### ordered sub-lists (for the field-classification checks) -/

/-- `l` is an ordered sub-sequence of `m` (linear test) -/
def isSub : List String → List String → Bool
  | [], _ => true
  | _ :: _, [] => false
  | a :: as, b :: bs => if a = b then isSub as bs else isSub (a :: as) bs

theorem mem_of_isSub : ∀ {l m : List String}, isSub l m = true → ∀ x ∈ l, x ∈ m
  | [], _, _, x, hx => by simp at hx
  | _ :: _, [], h, _, _ => by simp [isSub] at h
  | a :: as, b :: bs, h, x, hx => by
    unfold isSub at h
    split at h
    · rename_i e
      rcases List.mem_cons.1 hx with rfl | hx
      · exact e ▸ List.mem_cons_self ..
      · exact List.mem_cons_of_mem _ (mem_of_isSub h x hx)
    · exact List.mem_cons_of_mem _ (mem_of_isSub h x hx)

end Webp.Impl.Pool
