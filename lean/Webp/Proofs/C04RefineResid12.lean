import Webp.Proofs.C04RefineResid11
import Webp.Proofs.C04RefineRecon
/-
  C04 refinement, residuals, part 12: `parseResiduals` of a `B_PRED` macroblock (no Y2 block) = `readResiduals`, on the
  reference decoder: same decoder afterwards, contexts related again (`NzRel`), coefficient stores related (`StRel`).
-/
namespace Webp.Proofs.C04RefineResid
open Webp.Spec.VP8
open Webp.Impl.VP8SyntaxBytes (P runR rd)
open Webp.Impl.VP8SyntaxBytes.T (YSt YSt2 UVSt)
open Webp.Impl.VP8Recon (Slot Coeffs QuantMatrix NzCtx)
open Webp.Proofs.C04RefineOps Webp.Proofs.C04RefineTokens
open Webp.Proofs.C04RefineHeader (pure_bind' runD_pure)

theorem rep_getD (n i : Nat) : (Array.replicate n (0 : Int)).getD i 0 = 0 := by
  rw [Array.getD_eq_getD_getElem?]
  by_cases h : i < n
  · rw [Array.getElem?_eq_getElem (by simp; exact h)]; simp
  · rw [Array.getElem?_eq_none (by simp; omega)]; rfl

theorem stRel_zero (N : Nat) : StRel N (fun _ => none) (fun _ => Coeffs.zero) (Array.replicate 400 0) := by
  refine ⟨Array.size_replicate, fun b _ j => ?_⟩
  show (0 : Int) = if j.val = 0 then (none : Option Int).getD ((Array.replicate 400 (0 : Int)).getD (b * 16) 0) else _
  rw [rep_getD, rep_getD]
  split <;> rfl

theorem flags_of_nzrel {mbX : Nat} {A0 : Array Nat} {n : NzCtx} {cc : CoeffCtx} (h : NzRel mbX A0 n cc) (c : Array Int)
    (d : BoolDec) (x : Nat) (e : Array Nat) (o : Bool) : Flags mbX n.tnz n.lnz (c, cc.above, cc.left, d, x, e, o) :=
  ⟨h.t, h.l, by have := h.asz; have := h.asz9; show 9 * mbX + 9 ≤ cc.above.size; omega, h.lsz, h.tb, h.lb⟩

theorem residuals_i4 (prob : Slot → UInt8) (probs : Array Nat) (hc3 : CoefOK prob probs 3) (hc2 : CoefOK prob probs 2)
    (hfix : FixedOK prob) (K : Webp.Impl.VP8Recon.Kernels) (q : DequantFactors) (n : NzCtx) (mbX : Nat) (A0 : Array Nat)
    (m : MBInfo) (cc : CoeffCtx) (hskip : m.skip = false) (hI : m.hasY2 = false) (h : NzRel mbX A0 n cc) (d : BoolDec) :
    ∃ res n', runD prob (Webp.Impl.VP8SyntaxBytes.T.parseResiduals K (Webp.Proofs.C04RefineRecon.ofSpec q) true n) d =
        some ((res, n'), (readResiduals probs q mbX m cc d).2.2.2) ∧
      NzRel mbX A0 n' (readResiduals probs q mbX m cc d).2.2.1 ∧
      StRel 24 (fun _ => none) res.coeffs (readResiduals probs q mbX m cc d).1 := by
  rw [readResiduals_eq]
  unfold specRes
  simp only [hskip, hI, Bool.false_eq_true, if_false]
  obtain ⟨yr, ur, vr, hY, hU, hV, hF, hst, hfr⟩ := planes_sim prob probs 3 0 q (Webp.Proofs.C04RefineRecon.ofSpec q) rfl rfl rfl rfl
    hc3 hc2 hfix (by omega) mbX (fun _ => none) (fun _ _ hh => by cases hh) (fun _ _ => rfl) n.tnz n.lnz (fun _ => Coeffs.zero)
    (Array.replicate 400 0, cc.above, cc.left, d, 0, Array.replicate 25 0, false)
    (flags_of_nzrel h _ _ _ _ _) (stRel_zero 24)
  generalize uvAll probs q mbX (yAll probs q mbX 3 0 (Array.replicate 400 0, cc.above, cc.left, d, 0, Array.replicate 25 0, false)) = S
    at hV hF hst hfr ⊢
  generalize yFold probs q mbX 3 0 (List.range' 0 4)
    (Array.replicate 400 0, cc.above, cc.left, d, 0, Array.replicate 25 0, false) = S1 at hY hU hV
  generalize uvFold probs q mbX 0 (List.range' 0 2) S1 = S2 at hU hV
  have hY' : runD prob (Webp.Impl.VP8SyntaxBytes.T.decYRows 3 0 (Webp.Proofs.C04RefineRecon.ofSpec q) (List.range' 0 4)
      { tnz := n.tnz &&& 15, lnz := n.lnz &&& 15, nonZeroY := 0, store := fun _ => Coeffs.zero }) d = some (yr, S1.2.2.2.1) := hY
  refine ⟨{ coeffs := vr.store, nonZeroY := yr.nonZeroY
            nonZeroUV := (ur.nzCoeffs <<< 0) % 4294967296 ||| (vr.nzCoeffs <<< 8) % 4294967296 },
    { tnz := (yr.tnz ||| ((ur.tnz <<< 4) <<< 0)) ||| ((vr.tnz <<< 4) <<< 2)
      lnz := ((yr.lnz >>> 4) ||| ((ur.lnz &&& 0xf0) <<< 0)) ||| ((vr.lnz &&& 0xf0) <<< 2)
      tnzDC := n.tnzDC, lnzDC := n.lnzDC }, ?_, ?_, hst⟩
  · unfold Webp.Impl.VP8SyntaxBytes.T.parseResiduals Webp.Impl.VP8SyntaxBytes.T.parseY2
    simp only [↓reduceIte, pure_bind']
    rw [runD_bind, show ([0, 1, 2, 3] : List Nat) = List.range' 0 4 from rfl, hY']
    simp only [Option.bind_some]
    rw [runD_bind, show ([0, 1] : List Nat) = List.range' 0 2 from rfl, hU]
    simp only [Option.bind_some]
    rw [runD_bind, hV]
    rfl
  · refine ⟨hF.t, hF.l, ?_, ?_, fun i hi => ?_, hfr.asz.trans h.asz, h.asz9, hF.lsz, hF.tb, hF.lb, h.tdb, h.ldb⟩
    · exact (hfr.a (9 * mbX + 8) (Or.inr (Nat.le_refl _))).trans h.tdc
    · exact (hfr.l 8 (Nat.le_refl _)).trans h.ldc
    · exact (hfr.a i (by omega)).trans (h.o i hi)

end Webp.Proofs.C04RefineResid
