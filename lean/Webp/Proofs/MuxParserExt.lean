import Webp.Proofs.MuxParser
import Webp.Proofs.MuxDemuxFinal
import Webp.Proofs.MuxAlpha
/-
  C14, extended format, container.Parser side.
-/
namespace Webp.Proofs.MuxParserExt
open Webp.Go Webp.Impl Webp.Impl.Parser Webp.Proofs.MuxBytes Webp.Proofs.MuxChunk
  Webp.Proofs.MuxAccepted Webp.Proofs.MuxCore Webp.Proofs.MuxRiffWrap Webp.Proofs.MuxExpect Webp.Proofs.MuxParser
open Webp.Spec.Riff (RawChunk)
open Webp.Impl.Demux (splitAlphaAndBitstream frameDimensions)

/-- `parseVP8X` with the chunk loop abstracted as `k` -/
def parseVP8X' (k : Features → Bytes → R State) (buf : Bytes) : R State := do
  let (_, payloadSize) ← readChunkHeader buf
  if payloadSize ≠ vp8xChunkSize then .err .invalidVP8X
  else
    let padded := payloadSize + payloadSize % 2
    if chunkHeaderSize + padded > buf.length then .err .truncated
    else
      let payload ← slice buf chunkHeaderSize (chunkHeaderSize + payloadSize)
      let flags ← idx payload 0
      let flags := flags.toNat
      if flags / 64 ≠ 0 ∨ flags % 2 ≠ 0 then .err .invalidFlags
      else
        let p47 ← slice payload 4 7
        let p710 ← slice payload 7 10
        let cw := 1 + le24 p47 0
        let ch := 1 + le24 p710 0
        let feat : Features := {
          format := .vp8x
          hasAnim := flags / 2 % 2 ≠ 0, hasXMP := flags / 4 % 2 ≠ 0, hasEXIF := flags / 8 % 2 ≠ 0,
          hasAlpha := flags / 16 % 2 ≠ 0, hasICCP := flags / 32 % 2 ≠ 0,
          canvasWidth := cw, canvasHeight := ch, width := cw, height := ch }
        if cw * ch ≥ maxImageArea then .err .invalidImage
        else
          let pos := chunkHeaderSize + padded
          let feat := { feat with loopCount := 0, bgColor := 0xFFFFFFFF }
          let rest ← sliceFrom buf pos
          k feat rest

theorem parseVP8X_eq (buf : Bytes) :
    parseVP8X buf = parseVP8X' (fun feat rest => parseVP8XChunks (rest.length + 1) { features := feat } 0 rest) buf :=
  rfl

theorem parseVP8X'_of (k : Features → Bytes → R State) {buf rest : Bytes} {id : Nat}
    {b0 b1 b2 b3 b4 b5 b6 b7 b8 b9 : UInt8}
    (hl : 18 ≤ buf.length) (h0 : le32 buf 0 = id) (h4 : le32 buf 4 = 10)
    (hs : (buf.take 18).drop 8 = [b0, b1, b2, b3, b4, b5, b6, b7, b8, b9]) (hd : buf.drop 18 = rest)
    (hf1 : b0.toNat / 64 = 0) (hf2 : b0.toNat % 2 = 0)
    (harea : (1 + (b4.toNat + b5.toNat * 256 + b6.toNat * 65536)) * (1 + (b7.toNat + b8.toNat * 256 + b9.toNat * 65536))
      < maxImageArea) :
    parseVP8X' k buf = k
      { format := .vp8x
        hasAnim := b0.toNat / 2 % 2 ≠ 0, hasXMP := b0.toNat / 4 % 2 ≠ 0, hasEXIF := b0.toNat / 8 % 2 ≠ 0,
        hasAlpha := b0.toNat / 16 % 2 ≠ 0, hasICCP := b0.toNat / 32 % 2 ≠ 0,
        canvasWidth := 1 + (b4.toNat + b5.toNat * 256 + b6.toNat * 65536),
        canvasHeight := 1 + (b7.toNat + b8.toNat * 256 + b9.toNat * 65536),
        width := 1 + (b4.toNat + b5.toNat * 256 + b6.toNat * 65536),
        height := 1 + (b7.toNat + b8.toNat * 256 + b9.toNat * 65536),
        loopCount := 0, bgColor := 0xFFFFFFFF } rest := by
  have hm : maxChunkPayload = 4294967286 := by decide
  have h1 : ¬ buf.length < 8 := by omega
  have h2 : ¬ (10 > 4294967286) := by decide
  have h3 : ¬ (8 + (10 + 10 % 2) > buf.length) := by omega
  have h5 : (8 ≤ 8 + 10 ∧ 8 + 10 ≤ buf.length) := by omega
  have h6 : ¬ ((1 + (b4.toNat + b5.toNat * 256 + b6.toNat * 65536)) *
      (1 + (b7.toNat + b8.toNat * 256 + b9.toNat * 65536)) ≥ maxImageArea) := by omega
  have h7 : (8 + (10 + 10 % 2)) ≤ buf.length := by omega
  have e18 : 8 + 10 = 18 := rfl
  have e18' : 8 + (10 + 10 % 2) = 18 := rfl
  simp only [parseVP8X', readChunkHeader, h0, h4, hm, chunkHeaderSize, vp8xChunkSize, h1, h2, h3, h5, if_false,
    if_true, ne_eq, not_true_eq_false, and_self, Res.bind_ok, slice, e18, hs, idx, List.getElem?_cons_zero,
    hf1, hf2, or_self, List.length_cons, List.length_nil, Nat.reduceAdd, Nat.reduceLeDiff, Nat.le_refl,
    List.take_succ_cons, List.take_zero, List.drop_succ_cons, List.drop_zero, List.take, List.drop, le24, byteAt,
    List.getD_cons_zero, List.getD_cons_succ, Nat.zero_add, h6, sliceFrom, e18', h7, hd]

open Webp.Proofs.MuxDemuxExt

theorem cc_meta_ne : ccICCP ≠ ccVP8X ∧ ccICCP ≠ ccANIM ∧ ccICCP ≠ ccANMF ∧ ccICCP ≠ ccVP8 ∧ ccICCP ≠ ccVP8L ∧
    ccICCP ≠ ccALPH ∧ ccEXIF ≠ ccVP8X ∧ ccEXIF ≠ ccANIM ∧ ccEXIF ≠ ccANMF ∧ ccEXIF ≠ ccVP8 ∧ ccEXIF ≠ ccVP8L ∧
    ccEXIF ≠ ccALPH ∧ ccEXIF ≠ ccICCP ∧ ccXMP ≠ ccVP8X ∧ ccXMP ≠ ccANIM ∧ ccXMP ≠ ccANMF ∧ ccXMP ≠ ccVP8 ∧
    ccXMP ≠ ccVP8L ∧ ccXMP ≠ ccALPH ∧ ccXMP ≠ ccICCP ∧ ccXMP ≠ ccEXIF ∧ ccANIM ≠ ccVP8X ∧ ccANMF ≠ ccVP8X ∧
    ccANMF ≠ ccANIM ∧ ccVP8 ≠ ccVP8X ∧ ccVP8L ≠ ccVP8X ∧ ccALPH ≠ ccVP8X := by
  rw [ccVP8_val, ccVP8L_val, ccVP8X_val, ccALPH_val, ccANIM_val, ccANMF_val, ccICCP_val, ccEXIF_val, ccXMP_val]
  decide

def pAdd (id : Nat) (o : Option Bytes) (st : State) : State :=
  match o with
  | none => st
  | some d => { st with chunks := st.chunks ++ [⟨id, d⟩] }

theorem pxRun_optICC (st : State) (ac : Nat) (o : Option Bytes) (r : Bytes)
    (hflag : st.features.hasICCP = o.isSome) (h : (o.getD []).length ≤ maxMetadataSize) :
    pxRun st ac (serAll (optC ccICCP o) ++ r) = pxRun (pAdd ccICCP o st) ac r := by
  obtain ⟨i1, i2, i3, i4, i5, i6, _⟩ := cc_meta_ne
  cases o with
  | none => simp [optC, pAdd]
  | some d =>
    simp only [Option.getD_some] at h
    simp only [Option.isSome_some] at hflag
    simp only [optC, serAll_cons, serAll_nil, List.append_nil, pAdd]
    rw [pxRun_ser st ac ⟨ccICCP, d⟩ r cc_lt.2.2.2.2.2.2.1 (meta_le_max h)]
    have hn : ¬ d.length > maxMetadataSize := by omega
    have h456 : ¬ (ccICCP = ccVP8 ∨ ccICCP = ccVP8L ∨ ccICCP = ccALPH) := by
      intro hh; rcases hh with hh | hh | hh
      · exact i4 hh
      · exact i5 hh
      · exact i6 hh
    simp only [pxBody, i1, i2, i3, h456, if_false, true_or, if_true, hflag, hn]

theorem pxRun_optEXIF (st : State) (ac : Nat) (o : Option Bytes) (r : Bytes)
    (hflag : st.features.hasEXIF = o.isSome) (h : (o.getD []).length ≤ maxMetadataSize) :
    pxRun st ac (serAll (optC ccEXIF o) ++ r) = pxRun (pAdd ccEXIF o st) ac r := by
  obtain ⟨_, _, _, _, _, _, e1, e2, e3, e4, e5, e6, e7, _⟩ := cc_meta_ne
  cases o with
  | none => simp [optC, pAdd]
  | some d =>
    simp only [Option.getD_some] at h
    simp only [Option.isSome_some] at hflag
    simp only [optC, serAll_cons, serAll_nil, List.append_nil, pAdd]
    rw [pxRun_ser st ac ⟨ccEXIF, d⟩ r cc_lt.2.2.2.2.2.2.2.1 (meta_le_max h)]
    have hn : ¬ d.length > maxMetadataSize := by omega
    have h456 : ¬ (ccEXIF = ccVP8 ∨ ccEXIF = ccVP8L ∨ ccEXIF = ccALPH) := by
      intro hh; rcases hh with hh | hh | hh
      · exact e4 hh
      · exact e5 hh
      · exact e6 hh
    simp only [pxBody, e1, e2, e3, e7, h456, if_false, true_or, or_true, if_true, hflag, hn]

theorem pxRun_optXMP (st : State) (ac : Nat) (o : Option Bytes) (r : Bytes)
    (hflag : st.features.hasXMP = o.isSome) (h : (o.getD []).length ≤ maxMetadataSize) :
    pxRun st ac (serAll (optC ccXMP o) ++ r) = pxRun (pAdd ccXMP o st) ac r := by
  obtain ⟨_, _, _, _, _, _, _, _, _, _, _, _, _, x1, x2, x3, x4, x5, x6, x7, x8, _⟩ := cc_meta_ne
  cases o with
  | none => simp [optC, pAdd]
  | some d =>
    simp only [Option.getD_some] at h
    simp only [Option.isSome_some] at hflag
    simp only [optC, serAll_cons, serAll_nil, List.append_nil, pAdd]
    rw [pxRun_ser st ac ⟨ccXMP, d⟩ r cc_lt.2.2.2.2.2.2.2.2 (meta_le_max h)]
    have hn : ¬ d.length > maxMetadataSize := by omega
    have h456 : ¬ (ccXMP = ccVP8 ∨ ccXMP = ccVP8L ∨ ccXMP = ccALPH) := by
      intro hh; rcases hh with hh | hh | hh
      · exact x4 hh
      · exact x5 hh
      · exact x6 hh
    simp only [pxBody, x1, x2, x3, x7, x8, h456, if_false, or_true, if_true, hflag, hn]

/-- the ANIM chunk -/
theorem pxRun_anim (st : State) (ac : Nat) (s : Mux.MuxState) (r : Bytes) (inv : Inv s)
    (hA : st.features.hasAnim = true) :
    pxRun st ac (ser ⟨ccANIM, animPayload s⟩ ++ r) =
      pxRun { st with features := { st.features with bgColor := s.bgColor, loopCount := s.loopCount.toNat } }
        (ac + 1) r := by
  obtain ⟨_, _, _, _, _, _, _, _, _, _, _, _, _, _, _, _, _, _, _, _, _, a1, _⟩ := cc_meta_ne
  have hl : (animPayload s).length = 6 := animPayload_length s
  rw [pxRun_ser st ac ⟨ccANIM, animPayload s⟩ r cc_lt.2.2.2.2.1
    (by have : maxChunkPayload = 4294967286 := by decide
        simp only [hl, this]; omega)]
  have hbg : le32 (animPayload s) 0 = s.bgColor := by
    unfold animPayload
    rw [le32_hdr0]; have := inv.bg; omega
  have hlc : le16 (animPayload s) 4 = s.loopCount.toNat := by
    unfold animPayload
    have := le16_append_right (putLE32 s.bgColor) (putLE16 (s.loopCount % 65536).toNat) 0
    simp only [putLE32_length, Nat.add_zero] at this
    rw [this, le16_putLE16]
    have := inv.loop
    omega
  simp only [pxBody, a1, if_false, if_true, hA, Bool.not_true, Bool.false_eq_true, hl, animChunkSize, Nat.lt_irrefl,
    hbg, hlc]

/-- parser.go parseANMF, once the sub-chunk scan result is known -/
theorem parseANMF_of {payload : Bytes} {fr : FrameInfo} (hl : 16 ≤ payload.length)
    (harea : (1 + le24 payload 6) * (1 + le24 payload 9) < maxImageArea)
    (hsub : parseFrameSubChunks ((payload.drop 16).length + 1)
      { xOffset := 2 * le24 payload 0, yOffset := 2 * le24 payload 3, width := 1 + le24 payload 6,
        height := 1 + le24 payload 9, duration := le24 payload 12,
        disposeBG := byteAt payload 15 % 2 ≠ 0, blendNone := byteAt payload 15 / 2 % 2 ≠ 0 } none
      (payload.drop 16) = .ok fr) :
    parseANMF payload = .ok fr := by
  have h1 : ¬ payload.length < anmfChunkSize := by simp only [anmfChunkSize]; omega
  have h2 : ¬ (1 + le24 payload 6) * (1 + le24 payload 9) ≥ maxImageArea := by omega
  have hs : (sliceFrom payload anmfChunkSize : R Bytes) = .ok (payload.drop 16) := by
    unfold sliceFrom; rw [if_pos (by simp only [anmfChunkSize]; omega)]; rfl
  unfold parseANMF
  rw [if_neg h1]
  simp only
  rw [if_neg h2, hs, Res.bind_ok]
  exact hsub

theorem parseANMF_mux (f : Mux.MuxFrame) (h : AnimFrameOK f) : parseANMF (anmfPayload f) = .ok (pFrameOf f) := by
  have bf := bsFacts h.ok
  have hfl := frameLen_true f.data
  have hpl : (anmfPayload f).length = 16 + frameLen false f.data := by
    unfold anmfPayload; rw [List.length_append, anmfHdr_length, imgChunks_length]
  have rd := anmfPayload_reads f h
  have hdrop : (anmfPayload f).drop 16 = serAll (imgChunks f.data) := by
    unfold anmfPayload; exact List.drop_left' (anmfHdr_length f)
  have hsz := h.size
  have hw : 1 + le24 (anmfPayload f) 6 = (frameDimensions f.data).1 := by rw [← rd.w]; omega
  have hh : 1 + le24 (anmfPayload f) 9 = (frameDimensions f.data).2 := by rw [← rd.h]; omega
  apply parseANMF_of (by rw [hpl]; omega)
  · rw [hw, hh]
    have : (frameDimensions f.data).1 * (frameDimensions f.data).2 ≤ 16384 * 16384 := Nat.mul_le_mul bf.wle bf.hle
    simp only [maxImageArea]; omega
  · rw [hdrop, pf_imgChunks f.data _ rfl h.ok (by omega)]
    have k1 : decide (((if f.opts.disposeMode = 1 then 1 else 0) + if f.opts.blendMode = 1 then 2 else 0) / 2 % 2 ≠ 0) =
        decide (f.opts.blendMode = 1) := by
      by_cases hd : f.opts.disposeMode = 1 <;> by_cases hb : f.opts.blendMode = 1 <;> simp [hd, hb]
    have k2 : decide (((if f.opts.disposeMode = 1 then 1 else 0) + if f.opts.blendMode = 1 then 2 else 0) % 2 ≠ 0) =
        decide (f.opts.disposeMode = 1) := by
      by_cases hd : f.opts.disposeMode = 1 <;> by_cases hb : f.opts.blendMode = 1 <;> simp [hd, hb]
    have hal : (if isLossless f.data = true then (none : Option Bytes) else (splitAlphaAndBitstream f.data).1) =
        (splitAlphaAndBitstream f.data).1 := by
      by_cases hll : isLossless f.data = true
      · rw [if_pos hll]
        cases hα : (splitAlphaAndBitstream f.data).1 with
        | none => rfl
        | some a =>
          have := bf.alphVP8 (by rw [hα]; rfl)
          unfold isLossless at hll
          rw [this] at hll
          have := cc_img_ne.2.2.2.2.2.2.2.2.2.2.2.2.2.2.2.2.2.2.2
          simp [this] at hll
      · rw [if_neg hll]
    simp only [rd.ox, rd.oy, hw, hh, rd.dur, rd.flag, k1, k2, pFrameOf, hal]

/-- one ANMF chunk -/
theorem pxRun_anmf (st : State) (ac : Nat) (f : Mux.MuxFrame) (r : Bytes) (h : AnimFrameOK f) (hac : ac ≠ 0)
    (hn : st.frames.length < maxFrames) :
    pxRun st ac (ser ⟨ccANMF, anmfPayload f⟩ ++ r) = pxRun { st with frames := st.frames ++ [pFrameOf f] } ac r := by
  obtain ⟨_, _, _, _, _, _, _, _, _, _, _, _, _, _, _, _, _, _, _, _, _, _, m1, m2, _⟩ := cc_meta_ne
  have hfl := frameLen_true f.data
  have hm : maxChunkPayload = 4294967286 := by decide
  have hpl : (anmfPayload f).length = 16 + frameLen false f.data := by
    unfold anmfPayload; rw [List.length_append, anmfHdr_length, imgChunks_length]
  have hsz := h.size
  rw [pxRun_ser st ac ⟨ccANMF, anmfPayload f⟩ r cc_lt.2.2.2.2.2.1 (by rw [hm, hpl]; omega)]
  have h3 : ¬ st.frames.length ≥ maxFrames := by omega
  simp only [pxBody, m1, m2, if_false, if_true, hac, h3, parseANMF_mux f h, Res.bind_ok]

theorem pxRun_anmfs (fs : List Mux.MuxFrame) : ∀ (st : State) (ac : Nat) (r : Bytes), (∀ f ∈ fs, AnimFrameOK f) →
    ac ≠ 0 → st.frames.length + fs.length ≤ 10000 →
    pxRun st ac (serAll (fs.map fun f => ⟨ccANMF, anmfPayload f⟩) ++ r) =
      pxRun { st with frames := st.frames ++ fs.map pFrameOf } ac r := by
  induction fs with
  | nil => intro st ac r _ _ _; simp
  | cons f fs ih =>
    intro st ac r hok hac hn
    simp only [List.map_cons, serAll_cons, List.append_assoc, List.length_cons] at hn ⊢
    rw [pxRun_anmf st ac f _ (hok f (List.mem_cons_self)) hac (by simp only [maxFrames]; omega)]
    rw [ih _ ac _ (fun g hg => hok g (List.mem_cons_of_mem _ hg)) hac
      (by simp only [List.length_append, List.length_singleton]; omega)]
    congr 1
    simp

/-- the image chunk(s) of an extended still end the parse -/
theorem pxRun_stillImg (st : State) (f : Mux.MuxFrame) (r : Bytes) (hA : st.features.hasAnim = false)
    (hok : frameOK f.data = true) (hopts : f.opts = {}) (hsz : frameLen false f.data ≤ 4294967286) :
    pxRun st 0 (serAll (imgChunks f.data) ++ r) =
      .ok { st with
        features := { st.features with
          hasAlpha := st.features.hasAlpha || (pFrameOf f).hasAlpha
          width := (frameDimensions f.data).1, height := (frameDimensions f.data).2 }
        frames := st.frames ++ [pFrameOf f] } := by
  have bf := bsFacts hok
  have hm : maxChunkPayload = 4294967286 := by decide
  obtain ⟨n1, n2, n3, n4, n5, n6, l1, l2, l3, l4, l5, l6, a1, a2, a3, a4, a5, a6, a7, n7⟩ := cc_img_ne
  obtain ⟨_, _, _, _, _, _, _, _, _, _, _, _, _, _, _, _, _, _, _, _, _, _, _, _, v1, v2, v3⟩ := cc_meta_ne
  have hpe := pe_imgChunks st f r hok hopts hsz
  unfold frameLen at hsz
  simp only [Bool.false_eq_true, if_false, padLen, Nat.zero_add] at hsz
  cases hα : (splitAlphaAndBitstream f.data).1 with
  | none =>
    rw [hα] at hsz
    simp only [optLen, Nat.zero_add] at hsz
    have hlen : (splitAlphaAndBitstream f.data).2.length ≤ maxChunkPayload := by rw [hm]; omega
    have e : serAll (imgChunks f.data) ++ r =
        ser ⟨Mux.detectBitstreamType (splitAlphaAndBitstream f.data).2, (splitAlphaAndBitstream f.data).2⟩ ++ r := by
      simp [imgChunks, hα, optC]
    rw [e] at hpe ⊢
    have hidlt : Mux.detectBitstreamType (splitAlphaAndBitstream f.data).2 < 4294967296 := by
      rcases bf.idVP with h | h <;> rw [h]
      · exact cc_lt.1
      · exact cc_lt.2.1
    rw [pxRun_ser st 0 _ r hidlt hlen]
    rcases bf.idVP with hid | hid
    · rw [hid] at hpe ⊢
      simp only [pxBody, v1, n4, n5, if_false, true_or, if_true, Nat.lt_irrefl, hA, Bool.false_eq_true, or_self]
      rw [hpe]; simp [hA]
    · rw [hid] at hpe ⊢
      simp only [pxBody, v2, l4, l5, if_false, true_or, or_true, if_true, Nat.lt_irrefl, hA, Bool.false_eq_true,
        or_self]
      rw [hpe]; simp [hA]
  | some a =>
    rw [hα] at hsz
    simp only [optLen, padLen] at hsz
    have hid := bf.alphVP8 (by rw [hα]; rfl)
    have hlena : a.length ≤ maxChunkPayload := by rw [hm]; omega
    have e : serAll (imgChunks f.data) ++ r =
        ser ⟨ccALPH, a⟩ ++ (ser ⟨ccVP8, (splitAlphaAndBitstream f.data).2⟩ ++ r) := by
      simp [imgChunks, hα, optC, hid]
    rw [e] at hpe ⊢
    rw [pxRun_ser st 0 ⟨ccALPH, a⟩ _ cc_lt.2.2.2.1 hlena]
    simp only [pxBody, v3, a4, a5, if_false, or_true, if_true, Nat.lt_irrefl, hA, Bool.false_eq_true, or_self]
    rw [hpe]; simp [hA]

open Webp.Proofs.MuxDemuxFinal Webp.Proofs.MuxValidate Webp.Proofs.MuxSimple Webp.Proofs.MuxAlpha in
/-- extended format, container parser -/
theorem parser_ext (s : Mux.MuxState) (inv : Inv s) (af : AcceptedFacts s) (hx : Mux.needsVP8X s = true) :
    Parser.parse (riffWrap (serAll (topChunks s))) = .ok (expP s) := by
  have vf := validate_facts af.valid
  have hlen := topChunks_ext_length s hx
  have hsz := af.size
  have htop : topChunks s = ⟨ccVP8X, vp8xPayload s⟩ ::
      (optC ccICCP s.iccData ++ ((if Mux.isAnimated s then [⟨ccANIM, animPayload s⟩] else []) ++
        ((s.frames.map (frameChunks (Mux.isAnimated s))).flatten ++
          (optC ccEXIF s.exifData ++ optC ccXMP s.xmpData)))) := by
    unfold topChunks; rw [if_pos hx]
  have hbody : serAll (topChunks s) = ser ⟨ccVP8X, vp8xPayload s⟩ ++
      (serAll (optC ccICCP s.iccData) ++ (serAll (if Mux.isAnimated s then [⟨ccANIM, animPayload s⟩] else []) ++
        (serAll (s.frames.map (frameChunks (Mux.isAnimated s))).flatten ++
          (serAll (optC ccEXIF s.exifData) ++ (serAll (optC ccXMP s.xmpData) ++ []))))) := by
    rw [htop]; simp only [serAll_cons, serAll_append, List.append_nil]
  have hvl : (ser ⟨ccVP8X, vp8xPayload s⟩).length = 18 := by
    rw [ser_length, padLen]; simp only [vp8xPayload_length]
  have hbl : 18 ≤ (serAll (topChunks s)).length := by
    rw [hbody, List.length_append, hvl]; omega
  have facts := riffWrap_facts (serAll (topChunks s)) (by omega)
  obtain ⟨hl, h0, h4, hs, _, hd⟩ := ser_facts ⟨ccVP8X, vp8xPayload s⟩
    (serAll (optC ccICCP s.iccData) ++ (serAll (if Mux.isAnimated s then [⟨ccANIM, animPayload s⟩] else []) ++
        (serAll (s.frames.map (frameChunks (Mux.isAnimated s))).flatten ++
          (serAll (optC ccEXIF s.exifData) ++ (serAll (optC ccXMP s.xmpData) ++ [])))))
    cc_lt.2.2.1 (by simp only [vp8xPayload_length]; omega)
  simp only [vp8xPayload_length] at hl h4 hs hd
  rw [parser_riff facts (by omega) (by omega), hbody, h0, if_pos rfl, parseVP8X_eq]
  have b1 := le24I_bytes ((Mux.canvasSize s).1 - 1) (by have := vf.cw1; omega) (by have := vf.cw2; omega)
  have b2 := le24I_bytes ((Mux.canvasSize s).2 - 1) (by have := vf.ch1; omega) (by have := vf.ch2; omega)
  have fd := flags_decode (Mux.isAnimated s) s.iccData.isSome s.exifData.isSome s.xmpData.isSome (Mux.hasAlpha s)
  simp only at fd
  obtain ⟨f0, f1, f2, f3, f4, f5, f6, f7⟩ := fd
  have hfl : (UInt8.ofNat (Mux.vp8xFlags s)).toNat = Mux.vp8xFlags s := by unfold Mux.vp8xFlags; exact f0
  have w1 : 1 + ((Mux.canvasSize s).1 - 1).toNat = (Mux.canvasSize s).1.toNat := by have := vf.cw1; omega
  have w2 : 1 + ((Mux.canvasSize s).2 - 1).toNat = (Mux.canvasSize s).2.toNat := by have := vf.ch1; omega
  have harea : (Mux.canvasSize s).1.toNat * (Mux.canvasSize s).2.toNat < maxImageArea := by
    have hc := af.canvas
    rw [if_pos hx] at hc
    have e1 : (((Mux.canvasSize s).1.toNat : Nat) : Int) = (Mux.canvasSize s).1 :=
      Int.toNat_of_nonneg (by have := vf.cw1; omega)
    have e2 : (((Mux.canvasSize s).2.toNat : Nat) : Int) = (Mux.canvasSize s).2 :=
      Int.toNat_of_nonneg (by have := vf.ch1; omega)
    have : ((((Mux.canvasSize s).1.toNat * (Mux.canvasSize s).2.toNat : Nat)) : Int) < 1073741824 := by
      rw [Int.natCast_mul, e1, e2]; exact hc
    simp only [maxImageArea]; omega
  have hs' : ((ser ⟨ccVP8X, vp8xPayload s⟩ ++
      (serAll (optC ccICCP s.iccData) ++ (serAll (if Mux.isAnimated s then [⟨ccANIM, animPayload s⟩] else []) ++
        (serAll (s.frames.map (frameChunks (Mux.isAnimated s))).flatten ++
          (serAll (optC ccEXIF s.exifData) ++ (serAll (optC ccXMP s.xmpData) ++ [])))))).take 18).drop 8 =
      [UInt8.ofNat (Mux.vp8xFlags s), 0, 0, 0,
      UInt8.ofNat (((Mux.canvasSize s).1 - 1) % 256).toNat, UInt8.ofNat (((Mux.canvasSize s).1 - 1) / 256 % 256).toNat,
      UInt8.ofNat (((Mux.canvasSize s).1 - 1) / 65536 % 256).toNat,
      UInt8.ofNat (((Mux.canvasSize s).2 - 1) % 256).toNat, UInt8.ofNat (((Mux.canvasSize s).2 - 1) / 256 % 256).toNat,
      UInt8.ofNat (((Mux.canvasSize s).2 - 1) / 65536 % 256).toNat] := hs
  rw [parseVP8X'_of _ (by rw [hl]; omega) h0 h4 hs' hd
    (by rw [hfl]; unfold Mux.vp8xFlags; exact f6) (by rw [hfl]; unfold Mux.vp8xFlags; exact f7)
    (by rw [b1, b2, w1, w2]; exact harea)]
  rw [hfl, b1, b2, w1, w2]
  unfold Mux.vp8xFlags
  rw [f1, f2, f3, f4, f5]
  show pxRun _ 0 _ = _
  rw [pxRun_optICC _ _ _ _ rfl af.icc]
  cases ha : Mux.isAnimated s with
  | false =>
    obtain ⟨f, hfs, hopts⟩ := still_frames af.valid ha
    have hfl : frameLen false f.data ≤ 4294967286 := by
      unfold exactRiffSize at hsz
      simp only [hx, ha, hfs, if_true, Bool.false_eq_true, if_false, List.map_cons, List.map_nil, List.sum_cons,
        List.sum_nil] at hsz
      omega
    have e1 : serAll (if false = true then [(⟨ccANIM, animPayload s⟩ : RawChunk)] else []) = [] := by simp
    have e2 : serAll (s.frames.map (frameChunks false)).flatten = serAll (imgChunks f.data) := by
      rw [hfs]; simp [frameChunks]
    rw [e1, e2, List.nil_append]
    have hfok := af.framesOK f (by rw [hfs]; exact List.mem_cons_self)
    rw [pxRun_stillImg _ f _ (by cases s.iccData <;> simp [pAdd]) hfok hopts hfl]
    have hal := hasAlpha_eq s af.framesOK
    rw [hfs] at hal
    simp only [List.any_cons, List.any_nil, Bool.or_false, frameAlpha] at hal
    cases hi : s.iccData <;>
      simp [expP, expPFeatures, expPChunks, hx, ha, hfs, hi, pAdd, optC, pFrameOf, hal]
  | true =>
    have hok := animFrameOK inv af hx ha
    have e1 : serAll (if true = true then [(⟨ccANIM, animPayload s⟩ : RawChunk)] else []) =
        ser ⟨ccANIM, animPayload s⟩ := by simp
    rw [e1, pxRun_anim _ _ s _ inv (by cases s.iccData <;> simp [pAdd]), frames_flatten_anim]
    rw [pxRun_anmfs s.frames _ _ _ hok (by omega) (by
      have := inv.nframes
      cases s.iccData <;> simp [pAdd] <;> omega)]
    rw [pxRun_optEXIF _ _ _ _ (by cases s.iccData <;> simp [pAdd]) af.exif,
      pxRun_optXMP _ _ _ _ (by cases s.iccData <;> cases s.exifData <;> simp [pAdd]) af.xmp, pxRun_nil]
    cases hi : s.iccData <;> cases he : s.exifData <;> cases hxm : s.xmpData <;>
      simp [expP, expPFeatures, expPChunks, hx, ha, hi, he, hxm, pAdd, optC]

end Webp.Proofs.MuxParserExt
