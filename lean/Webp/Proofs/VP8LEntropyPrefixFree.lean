import Webp.Proofs.VP8LEntropyTableF
/-
  The encoder's code words (as written, LSB-first) form a prefix-free set.
-/
namespace Webp.Proofs.VP8LEntropyPrefixFree
open Webp.Spec.VP8L
open Webp.Impl.VP8LEntropy
open Webp.Proofs.VP8LEntropyBits Webp.Proofs.VP8LEntropyRev Webp.Proofs.VP8LEntropyCanon
open Webp.Proofs.VP8LEntropyPrefix Webp.Proofs.VP8LEntropyTableA Webp.Proofs.VP8LEntropyTableF

theorem sym_of_symbol {lens : Array Nat} (h15 : ∀ x ∈ lens, x ≤ 15) (s : Nat) (hs : s < lens.size)
    (hne : lens.getD s 0 ≠ 0) : Sym lens (lens.getD s 0) (idx lens s) := by
  refine ⟨by omega, ?_, idx_lt_cnt lens s hs⟩
  rw [getD_eq_getElem lens s hs]; exact h15 _ (Array.getElem_mem hs)

/-- **canonical_codes_prefix_free**: in a code with at least two symbols no written code word is a
    prefix of another one -/
theorem canonical_codes_prefix_free {lens : Array Nat} {code : Code} (h : buildCode lens = .ok code)
    (hm : offs lens 16 ≠ 1) (s s' : Nat) (hs : s < lens.size) (hs' : s' < lens.size)
    (hne : lens.getD s 0 ≠ 0) (hne' : lens.getD s' 0 ≠ 0) (hss : s ≠ s') :
    ¬ (symBits lens s <+: symBits lens s') := by
  obtain ⟨h15, h0, _, _, _⟩ := buildCode_ok h
  have hc := complete_of_buildCode h hm
  have hS := sym_of_symbol h15 s hs hne
  have hS' := sym_of_symbol h15 s' hs' hne'
  rw [symBits_multi lens h15 hm h0 s hs hne, symBits_multi lens h15 hm h0 s' hs' hne']
  intro hpre
  have hlen := hpre.length_le
  simp only [bitsLE_length] at hlen
  -- the first `l` bits of the longer word are the shorter word
  have htake := List.prefix_iff_eq_take.mp hpre
  rw [bitsLE_length, bitsLE_take _ _ _ hlen] at htake
  have hval := congrArg ofBitsLE htake
  rw [ofBitsLE_bitsLE, ofBitsLE_bitsLE, Nat.mod_eq_of_lt (rev_lt _ _)] at hval
  have hpf := key_prefix_free hc hS hS' hlen (by
    intro ⟨h1, h2⟩
    -- same coordinates ⇒ same symbol
    have e1 := sortSymbols_getD lens h15 s hs hne
    have e2 := sortSymbols_getD lens h15 s' hs' hne'
    rw [h1, h2] at e1
    rw [e1] at e2
    exact hss e2)
  apply hpf
  unfold keyOf cwOf
  exact hval.symm

end Webp.Proofs.VP8LEntropyPrefixFree
