import Webp.Proofs.CodecFrontVP8Out
/-
  VP8 front end, part 4: which errors can(not) come out.
    * `Err.tooLarge`, `Err.slabTooLarge` — the two caps coded in `initFrame` (`1<<28` luma bytes,
      `1<<30` slab bytes) — are dead code: 14-bit dimensions give `mbW, mbH ≤ 1024`, so the luma
      cache is at most `2^28` bytes and the slab at most `402 657 856` bytes.
    * `Err.exhaust` (a single `make` above `memCap`) never happens once `memCap` is at least the
      largest request the declared dimensions allow.
-/
namespace Webp.Impl.CodecFront
open Webp.Go

variable {σ : Type}

/-- errors other than the three "resource" ones -/
@[reducible] def Benign (e : Err) : Prop := e ≠ .exhaust ∧ e ≠ .tooLarge ∧ e ≠ .slabTooLarge

theorem Res.ErrIn.bind_post {ε α β : Type} {E : ε → Prop} {P : α → Prop} {x : Res ε α}
    {f : α → Res ε β} (hp : x.Post P) (hx : x.ErrIn E) (hf : ∀ a, P a → (f a).ErrIn E) :
    (x >>= f).ErrIn E := by
  cases x with
  | ok a => exact hf a hp
  | err e => exact hx
  | panic => trivial
  | hang => trivial

/-- structural discharge of `ErrIn Benign` goals over checked slices / indices / `if`s -/
macro "errin" : tactic => `(tactic| repeat (first
  | exact trivial
  | exact idx_errIn _ _ | exact slice_errIn _ _ _ | exact sliceFrom_errIn _ _
  | exact sliceLen_errIn _ _ _ | exact rowSlice_errIn _ _ _ | exact tblAt_errIn _ _
  | exact reslice_errIn _ _
  | (show Benign _; decide)
  | (refine Res.ErrIn.bind ?_ (fun _ => ?_))
  | dsimp only
  | split))

theorem frameTag_errIn (data : Bytes) : (frameTag data).ErrIn Benign := by
  unfold frameTag
  errin

theorem parseSegmentHeader_errIn (S : BitSrc σ) (s : σ) : (parseSegmentHeader S s).ErrIn Benign := by
  have key : ∀ r : SegHdr × σ,
      (if S.eof r.2 then (.err .segEOF : R (SegHdr × σ)) else .ok r).ErrIn Benign := by
    intro r; split
    · show Benign _; decide
    · trivial
  unfold parseSegmentHeader
  exact key _

theorem partLoop_errIn : ∀ (n p : Nat) (sz ps : Bytes) (sizeLeft off : Nat) (acc : List Part),
    (partLoop n p sz ps sizeLeft off acc).ErrIn Benign
  | 0, _, _, _, _, _, _ => by unfold partLoop; trivial
  | n + 1, p, sz, ps, sizeLeft, off, acc => by
    unfold partLoop
    refine Res.ErrIn.bind (idx_errIn _ _) (fun _ => ?_)
    refine Res.ErrIn.bind (idx_errIn _ _) (fun _ => ?_)
    refine Res.ErrIn.bind (idx_errIn _ _) (fun _ => ?_)
    dsimp only
    split
    · show Benign _; decide
    split
    · trivial
    refine Res.ErrIn.bind (slice_errIn _ _ _) (fun _ => ?_)
    refine Res.ErrIn.bind (sliceFrom_errIn _ _) (fun _ => ?_)
    refine Res.ErrIn.bind (sliceFrom_errIn _ _) (fun _ => ?_)
    exact partLoop_errIn n _ _ _ _ _ _

theorem parsePartitions_errIn (S : BitSrc σ) (s : σ) (buf : Bytes) (base : Nat) :
    (parsePartitions S s buf base).ErrIn Benign := by
  unfold parsePartitions
  dsimp only
  split
  · show Benign _; decide
  refine Res.ErrIn.bind (sliceFrom_errIn _ _) (fun _ => ?_)
  refine Res.ErrIn.bind (partLoop_errIn ..) (fun r => ?_)
  split
  · trivial
  refine Res.ErrIn.bind (slice_errIn _ _ _) (fun _ => ?_)
  trivial

theorem quantMatrix_errIn (q d1 d2dc d2ac duvdc duvac : Int) :
    (quantMatrix q d1 d2dc d2ac duvdc duvac).ErrIn Benign := by
  unfold quantMatrix
  errin

theorem parseQuant_errIn (S : BitSrc σ) (seg : SegHdr) (s : σ) : (parseQuant S seg s).ErrIn Benign := by
  unfold parseQuant
  dsimp only
  split
  · refine Res.ErrIn.bind (quantMatrix_errIn ..) (fun _ => ?_)
    refine Res.ErrIn.bind (quantMatrix_errIn ..) (fun _ => ?_)
    refine Res.ErrIn.bind (quantMatrix_errIn ..) (fun _ => ?_)
    refine Res.ErrIn.bind (quantMatrix_errIn ..) (fun _ => ?_)
    trivial
  · refine Res.ErrIn.bind (quantMatrix_errIn ..) (fun _ => ?_)
    trivial

theorem parseHeaders_errIn (S : BitSrc σ) (data : Bytes) : (parseHeaders S data).ErrIn Benign := by
  unfold parseHeaders
  refine Res.ErrIn.bind (frameTag_errIn data) (fun tag => ?_)
  dsimp only
  split
  · show Benign _; decide
  refine Res.ErrIn.bind (slice_errIn _ _ _) (fun _ => ?_)
  refine Res.ErrIn.bind (sliceFrom_errIn _ _) (fun _ => ?_)
  refine Res.ErrIn.bind (parseSegmentHeader_errIn S _) (fun _ => ?_)
  refine Res.ErrIn.bind (parsePartitions_errIn S _ _ _) (fun _ => ?_)
  refine Res.ErrIn.bind (parseQuant_errIn S _ _) (fun _ => ?_)
  trivial

/-! ### initFrame: the coded caps are dead, `exhaust` needs `memCap` below the request -/

theorem reuseOrGrow_errIn (memCap : Nat) (m : Mem) (cap n sz : Nat) (h : n * sz ≤ memCap) :
    (reuseOrGrow memCap m cap n sz).ErrIn Benign := by
  unfold reuseOrGrow
  split
  · refine Res.ErrIn.bind (reslice_errIn _ _) (fun _ => ?_)
    trivial
  · refine Res.ErrIn.bind (alloc_errIn memCap m _ (Or.inl h)) (fun _ => ?_)
    trivial

theorem initFrame_errIn (memCap : Nat) (caps : Caps) (mbW mbH : Nat) (m : Mem)
    (hw : mbW ≤ 1024) (hh : mbH ≤ 1024) (hcap : initFrameBytes mbW mbH ≤ memCap) :
    (initFrame memCap caps mbW mbH m).ErrIn Benign := by
  have hA : mbW * mbH ≤ 1024 * 1024 := Nat.mul_le_mul hw hh
  unfold initFrameBytes at hcap
  unfold initFrame
  refine Res.ErrIn.bind (reuseOrGrow_errIn _ _ _ _ _ (by unfold szTopSamples; omega)) (fun r1 => ?_)
  refine Res.ErrIn.bind (reuseOrGrow_errIn _ _ _ _ _ (by unfold szMB; omega)) (fun r2 => ?_)
  refine Res.ErrIn.bind (reuseOrGrow_errIn _ _ _ _ _ (by unfold szFInfo; omega)) (fun r3 => ?_)
  refine Res.ErrIn.bind (reuseOrGrow_errIn _ _ _ _ _ (by unfold szMBData; omega)) (fun r4 => ?_)
  dsimp only
  have hY : mbH * 16 * (16 * mbW) = 256 * (mbW * mbH) := by ring
  have hU : mbH * 8 * (8 * mbW) = 64 * (mbW * mbH) := by ring
  rw [hY, hU]
  unfold yuvSize
  have p28 : (2 : Nat) ^ 28 = 268435456 := by norm_num
  have p30 : (2 : Nat) ^ 30 = 1073741824 := by norm_num
  rw [if_neg (by omega), if_neg (by omega)]
  refine Res.ErrIn.bind (reuseOrGrow_errIn _ _ _ _ _ (by omega)) (fun r5 => ?_)
  errin

theorem decodeFrame_errIn (S : BitSrc σ) (memCap : Nat) (caps : Caps) (data : Bytes) (mbOK : Bool)
    (hcap : initFrameBytes 1024 1024 ≤ memCap) :
    (decodeFrame S memCap caps data mbOK).ErrIn Benign := by
  unfold decodeFrame
  refine Res.ErrIn.bind_post (parseHeaders_post S data) (parseHeaders_errIn S data) (fun r hr => ?_)
  obtain ⟨h, s⟩ := r
  dsimp only at hr ⊢
  have hw := mb_bounds hr.tag.w1 hr.tag.w2
  have hh := mb_bounds hr.tag.h1 hr.tag.h2
  rw [← hr.mbW] at hw
  rw [← hr.mbH] at hh
  have hA : h.mbW * h.mbH ≤ 1024 * 1024 := Nat.mul_le_mul hw.2.1 hh.2.1
  refine Res.ErrIn.bind (initFrame_errIn memCap caps h.mbW h.mbH [] hw.2.1 hh.2.1
    (by unfold initFrameBytes at hcap ⊢; omega)) (fun r2 => ?_)
  split
  · show Benign _; decide
  errin

/-- a cap that suffices for every picture the 14-bit header fields can declare: the NRGBA output
    of a 16383 × 16383 picture (the slab is smaller) -/
def lossyMaxRequest : Nat := 4 * 16383 * 16383

theorem decodeLossy_errIn (S : BitSrc σ) (memCap : Nat) (caps : Caps) (codec : Webp.Impl.Alpha.Codec)
    (data alphaData : Bytes) (mbOK : Bool) (hcap : lossyMaxRequest ≤ memCap) :
    (decodeLossy S memCap caps codec data alphaData mbOK).ErrIn Benign := by
  unfold lossyMaxRequest at hcap
  unfold decodeLossy
  refine Res.ErrIn.bind_post (decodeFrame_post S memCap caps data mbOK)
    (decodeFrame_errIn S memCap caps data mbOK (by unfold initFrameBytes; omega)) (fun r hr => ?_)
  obtain ⟨⟨h, b, p⟩, m⟩ := r
  obtain ⟨hh, hb, hp, hm, hc⟩ := hr
  dsimp only at hh hb hp hm hc ⊢
  have g := geo_of hh hp
  have hwh : p.width * p.height ≤ 16383 * 16383 := Nat.mul_le_mul g.w2 g.h2
  split
  · have ha := decodeAlpha_post codec alphaData p.width p.height
    cases hd : Webp.Impl.Alpha.decodeAlpha codec alphaData (p.width : Int) (p.height : Int) with
    | err e => show Benign _; decide
    | panic => trivial
    | hang => trivial
    | ok plane =>
      rw [hd] at ha
      obtain ⟨hsz, _⟩ := ha
      dsimp only
      refine Res.ErrIn.bind (alloc_errIn memCap m _ (Or.inl (by omega))) (fun m' => ?_)
      unfold buildNRGBA newNRGBA
      have e4 : 4 * p.width * p.height = 4 * (p.width * p.height) := by ring
      refine Res.ErrIn.bind ?_ (fun r => ?_)
      · split
        · trivial
        · refine Res.ErrIn.bind (alloc_errIn memCap m' _ (Or.inl (by omega))) (fun _ => ?_)
          trivial
      · obtain ⟨pixLen, m2⟩ := r
        dsimp only
        have lp : ∀ top bot ct cb, (linePair p plane.size pixLen (4 * p.width) top bot ct cb).ErrIn Benign := by
          intro top bot ct cb
          unfold linePair
          errin
        have pl : ∀ fuel y, (pairLoop p plane.size pixLen (4 * p.width) fuel y).ErrIn Benign := by
          intro fuel
          induction fuel with
          | zero => intro y; unfold pairLoop; trivial
          | succ n ih =>
            intro y
            unfold pairLoop
            split
            · exact Res.ErrIn.bind (lp ..) (fun _ => ih _)
            · trivial
        split
        · exact Res.ErrIn.bind (lp ..) (fun _ => trivial)
        · refine Res.ErrIn.bind (lp ..) (fun _ => ?_)
          refine Res.ErrIn.bind (pl ..) (fun _ => ?_)
          split
          · exact Res.ErrIn.bind (lp ..) (fun _ => trivial)
          · trivial
  · unfold buildYCbCr
    dsimp only
    have hb2 := ycbcr_bytes_le g
    have hmb : (p.height + 1) * h.mbW ≤ 16384 * 1024 :=
      Nat.mul_le_mul (by have := g.h2; omega) g.mb
    have a5 : 24 * (p.height + 1) * h.mbW = 24 * ((p.height + 1) * h.mbW) := by ring
    split
    · trivial
    refine Res.ErrIn.bind (alloc_errIn memCap m _ (Or.inl (by omega))) (fun _ => ?_)
    errin

end Webp.Impl.CodecFront
