import Webp.Proofs.VP8LEntropyBits
/-
  The VP8L bit writer (`internal/bitio/writer_lossless.go`, model `Webp.Impl.VP8LEntropy.Writer`):
  the bytes `Finish()` returns are the concatenated LSB-first bit fields of the `WriteBits` calls,
  zero-padded to a byte boundary (`writer_bits`), and the specification's bit reader reads every
  field back (`writer_reader_roundtrip`, `writer_reader_roundtrip_all`).

  No `bv_decide` is used in this file.
-/
namespace Webp.Proofs.VP8LEntropyWriter
open Webp.Go (Res)
open Webp.Spec.VP8L (BitReader Err)
open Webp.Impl.VP8LEntropy
open Webp.Proofs.VP8LEntropyBits

/-! ## more about `bitsLE` / `bytesToBits` -/

theorem bitsLE_add (v a b : Nat) : bitsLE v (a + b) = bitsLE v a ++ bitsLE (v / 2 ^ a) b := by
  induction a generalizing v with
  | zero => simp [bitsLE]
  | succ a ih =>
    have e : a + 1 + b = (a + b) + 1 := by omega
    rw [e, bitsLE, bitsLE, ih (v / 2)]
    simp only [List.cons_append, Nat.pow_succ]
    rw [Nat.div_div_eq_div_mul, Nat.mul_comm]

theorem bitsLE_mod (v k n : Nat) (h : n ≤ k) : bitsLE (v % 2 ^ k) n = bitsLE v n := by
  induction n generalizing v k with
  | zero => rfl
  | succ n ih =>
    obtain ⟨k, rfl⟩ : ∃ k', k = k' + 1 := ⟨k - 1, by omega⟩
    simp only [bitsLE]
    have h1 : v % 2 ^ (k + 1) % 2 = v % 2 := by
      rw [Nat.pow_succ, Nat.mul_comm]; exact Nat.mod_mul_right_mod v 2 (2 ^ k)
    have h2 : v % 2 ^ (k + 1) / 2 = v / 2 % 2 ^ k := by
      rw [Nat.pow_succ, Nat.mul_comm, Nat.mod_mul_right_div_self]
    rw [h1, h2, ih (v / 2) k (by omega)]

theorem bitsLE_zero (n : Nat) : bitsLE 0 n = List.replicate n false := by
  induction n with
  | zero => rfl
  | succ n ih => simp [bitsLE, ih, List.replicate_succ]

/-- a value that fits in `n` bits, written in `n + p` bits, is followed by `p` zero bits -/
theorem bitsLE_pad {v n : Nat} (h : v < 2 ^ n) (p : Nat) :
    bitsLE v (n + p) = bitsLE v n ++ List.replicate p false := by
  rw [bitsLE_add, Nat.div_eq_of_lt h, bitsLE_zero]

/-- low field + high field -/
theorem bitsLE_concat {a v u : Nat} (h : a < 2 ^ u) (n : Nat) :
    bitsLE (a + v * 2 ^ u) (u + n) = bitsLE a u ++ bitsLE v n := by
  rw [bitsLE_add]
  have hp : 0 < 2 ^ u := Nat.two_pow_pos u
  have h1 : (a + v * 2 ^ u) / 2 ^ u = v := by
    rw [Nat.add_mul_div_right _ _ hp, Nat.div_eq_of_lt h, Nat.zero_add]
  have h2 : bitsLE (a + v * 2 ^ u) u = bitsLE a u := by
    rw [← bitsLE_mod (a + v * 2 ^ u) u u (Nat.le_refl _), Nat.add_mul_mod_self_right, Nat.mod_eq_of_lt h]
  rw [h1, h2]

theorem bytesToBits_append (a b : List UInt8) : bytesToBits (a ++ b) = bytesToBits a ++ bytesToBits b := by
  induction a with
  | nil => rfl
  | cons x r ih => simp [bytesToBits, ih]

theorem bytesToBits_singleton (b : UInt8) : bytesToBits [b] = bitsLE b.toNat 8 := by
  simp [bytesToBits]

theorem callsBits_append (a b : List Call) : callsBits (a ++ b) = callsBits a ++ callsBits b := by
  simp [callsBits]

theorem callsBits_cons (c : Call) (r : List Call) : callsBits (c :: r) = bitsLE c.1 c.2 ++ callsBits r := by
  simp [callsBits]

/-! ## the writer invariant -/

/-- everything the writer has accepted so far, in stream order -/
def bitsOf (w : Writer) : List Bool := bytesToBits w.out.toList ++ bitsLE w.bits.toNat w.used

/-- `used < 64` and the accumulator holds nothing above `used` -/
structure WInv (w : Writer) : Prop where
  used_lt : w.used < 64
  bits_lt : w.bits.toNat < 2 ^ w.used

theorem winv_init : WInv ({} : Writer) := ⟨by decide, by decide⟩

theorem bitsOf_init : bitsOf ({} : Writer) = [] := by
  simp [bitsOf, bitsLE, bytesToBits]

/-- the four bytes `flushBits` appends carry the 32 low bits of the accumulator -/
theorem flush_bytes (x : UInt64) :
    bytesToBits [x.toUInt8, (x >>> 8).toUInt8, (x >>> 16).toUInt8, (x >>> 24).toUInt8] =
      bitsLE x.toNat 32 := by
  have e : (32 : Nat) = 8 + (8 + (8 + 8)) := rfl
  rw [e, bitsLE_add, bitsLE_add, bitsLE_add]
  simp only [bytesToBits, List.append_nil, UInt64.toNat_toUInt8, UInt64.toNat_shiftRight,
    Nat.shiftRight_eq_div_pow]
  rw [bitsLE_mod _ 8 8 (Nat.le_refl _), bitsLE_mod _ 8 8 (Nat.le_refl _), bitsLE_mod _ 8 8 (Nat.le_refl _),
    bitsLE_mod _ 8 8 (Nat.le_refl _)]
  simp only [Nat.div_div_eq_div_mul]
  rfl

theorem flushBits_bitsOf (w : Writer) (h : 32 ≤ w.used) : bitsOf w.flushBits = bitsOf w := by
  unfold bitsOf Writer.flushBits
  simp only [Array.toList_push, List.append_assoc, List.cons_append, List.nil_append]
  rw [bytesToBits_append, flush_bytes, List.append_assoc]
  have e : w.used = 32 + (w.used - 32) := by omega
  conv => rhs; rw [e, bitsLE_add]
  simp [UInt64.toNat_shiftRight, Nat.shiftRight_eq_div_pow]

theorem flushBits_inv (w : Writer) (hi : WInv w) (h : 32 ≤ w.used) :
    WInv w.flushBits ∧ w.flushBits.used = w.used - 32 := by
  obtain ⟨h1, h2⟩ := hi
  refine ⟨⟨?_, ?_⟩, rfl⟩
  · show w.used - 32 < 64
    omega
  · show (w.bits >>> 32).toNat < 2 ^ (w.used - 32)
    simp only [UInt64.toNat_shiftRight, Nat.shiftRight_eq_div_pow]
    have e : w.used = 32 + (w.used - 32) := by omega
    rw [e, Nat.pow_add] at h2
    exact Nat.div_lt_of_lt_mul h2

/-- `bits |= uint64(v) << used` adds the field above the `used` bits already there -/
theorem or_shl (bits : UInt64) (v : UInt32) (used n : Nat) (hu : used < 32) (hn : n ≤ 32)
    (hb : bits.toNat < 2 ^ used) (hv : v.toNat < 2 ^ n) :
    (bits ||| shl64 v.toUInt64 used).toNat = bits.toNat + v.toNat * 2 ^ used ∧
    (bits ||| shl64 v.toUInt64 used).toNat < 2 ^ (used + n) := by
  have hlt : v.toNat * 2 ^ used < 2 ^ 64 := by
    have h1 : v.toNat * 2 ^ used < 2 ^ n * 2 ^ used := Nat.mul_lt_mul_of_pos_right hv (Nat.two_pow_pos _)
    have h2 : 2 ^ n * 2 ^ used ≤ 2 ^ 64 := by
      rw [← Nat.pow_add]; exact Nat.pow_le_pow_right (by decide) (by omega)
    omega
  have hsh : (shl64 v.toUInt64 used).toNat = v.toNat * 2 ^ used := by
    unfold shl64
    rw [if_neg (by omega)]
    simp only [UInt64.toNat_shiftLeft, UInt32.toNat_toUInt64, Nat.toUInt64_eq, UInt64.toNat_ofNat']
    have e : used % 2 ^ 64 % 64 = used := by omega
    rw [e, Nat.shiftLeft_eq, Nat.mod_eq_of_lt hlt]
  have hval : (bits ||| shl64 v.toUInt64 used).toNat = bits.toNat + v.toNat * 2 ^ used := by
    rw [UInt64.toNat_or, hsh, Nat.or_comm, ← Nat.shiftLeft_eq, ← Nat.shiftLeft_add_eq_or_of_lt hb, Nat.add_comm]
  refine ⟨hval, ?_⟩
  rw [hval, Nat.pow_add]
  have h1 : (v.toNat + 1) * 2 ^ used ≤ 2 ^ n * 2 ^ used := Nat.mul_le_mul_right _ hv
  rw [Nat.mul_comm (2 ^ used)]
  rw [Nat.add_mul] at h1
  omega

/-- one `WriteBits(v, n)` with `n ≤ 32`, `v < 2^n` appends the field `bitsLE v n` -/
theorem writeBits_step (w : Writer) (hi : WInv w) (v : UInt32) (n : Nat) (hn : n ≤ 32)
    (hv : v.toNat < 2 ^ n) :
    WInv (w.writeBits v n) ∧ bitsOf (w.writeBits v n) = bitsOf w ++ bitsLE v.toNat n := by
  unfold Writer.writeBits
  by_cases h0 : n = 0
  · subst h0; simp [hi, bitsLE]
  · rw [if_neg h0]
    -- the writer after the optional flush
    have key : ∀ w' : Writer, WInv w' → w'.used < 32 →
        WInv { w' with bits := w'.bits ||| shl64 v.toUInt64 w'.used, used := w'.used + n } ∧
        bitsOf { w' with bits := w'.bits ||| shl64 v.toUInt64 w'.used, used := w'.used + n } =
          bitsOf w' ++ bitsLE v.toNat n := by
      intro w' hi' hu
      obtain ⟨hval, hlt⟩ := or_shl w'.bits v w'.used n hu hn hi'.bits_lt hv
      refine ⟨⟨?_, hlt⟩, ?_⟩
      · show w'.used + n < 64
        omega
      · unfold bitsOf
        simp only [List.append_assoc]
        rw [hval, bitsLE_concat hi'.bits_lt]
    by_cases hf : w.used ≥ 32
    · rw [if_pos hf]
      obtain ⟨hi', hu'⟩ := flushBits_inv w hi hf
      have := key w.flushBits hi' (by have := hi.used_lt; omega)
      rw [flushBits_bitsOf w hf] at this
      exact this
    · rw [if_neg hf]
      exact key w hi (by omega)

/-- `WriteBits(v, 0)` does nothing, whatever `v` is -/
theorem writeBits_zero (w : Writer) (v : UInt32) : w.writeBits v 0 = w := by
  simp [Writer.writeBits]

theorem toUInt32_toNat_of_lt {v n : Nat} (hn : n ≤ 32) (hv : v < 2 ^ n) : v.toUInt32.toNat = v := by
  simp only [Nat.toUInt32_eq, UInt32.toNat_ofNat']
  apply Nat.mod_eq_of_lt
  have : 2 ^ n ≤ 2 ^ 32 := Nat.pow_le_pow_right (by decide) hn
  omega

theorem foldl_calls (cs : List Call) (h : ∀ c ∈ cs, c.2 ≤ 32 ∧ c.1 < 2 ^ c.2) (w : Writer) (hi : WInv w) :
    WInv (cs.foldl (fun w c => w.writeBits c.1.toUInt32 c.2) w) ∧
    bitsOf (cs.foldl (fun w c => w.writeBits c.1.toUInt32 c.2) w) = bitsOf w ++ callsBits cs := by
  induction cs generalizing w with
  | nil => simp [hi, callsBits]
  | cons c r ih =>
    obtain ⟨hc1, hc2⟩ := h c (by simp)
    have e := toUInt32_toNat_of_lt hc1 hc2
    obtain ⟨hi', hb'⟩ := writeBits_step w hi c.1.toUInt32 c.2 hc1 (by rw [e]; exact hc2)
    obtain ⟨hi'', hb''⟩ := ih (fun c' hc' => h c' (by simp [hc'])) _ hi'
    refine ⟨hi'', ?_⟩
    simp only [List.foldl_cons]
    rw [hb'', hb', e, callsBits_cons, List.append_assoc]

/-- the invariant and the accepted bits after a call sequence -/
theorem runCalls_bitsOf (cs : List Call) (h : ∀ c ∈ cs, c.2 ≤ 32 ∧ c.1 < 2 ^ c.2) :
    WInv (runCalls cs) ∧ bitsOf (runCalls cs) = callsBits cs := by
  have := foldl_calls cs h {} winv_init
  rw [bitsOf_init, List.nil_append] at this
  exact this

/-! ## `Finish()` -/

theorem flushAll_spec (f : Nat) (w : Writer) (hi : WInv w) (hf : w.used / 32 < f) :
    WInv (Writer.flushAll f w) ∧ bitsOf (Writer.flushAll f w) = bitsOf w ∧ (Writer.flushAll f w).used < 32 := by
  induction f generalizing w with
  | zero => omega
  | succ f ih =>
    unfold Writer.flushAll
    by_cases h : w.used ≥ 32
    · rw [if_pos h]
      obtain ⟨hi', hu'⟩ := flushBits_inv w hi h
      obtain ⟨a, b, c⟩ := ih w.flushBits hi' (by rw [hu']; omega)
      exact ⟨a, by rw [b, flushBits_bitsOf w h], c⟩
    · rw [if_neg h]
      exact ⟨hi, rfl, by omega⟩

/-- the byte loop of `Finish()` emits `⌈used/8⌉` bytes -/
theorem finishBytes_spec (f : Nat) (bits : UInt64) (used : Int) (out : Array UInt8)
    (hu : used ≤ 8 * f) :
    bytesToBits (Writer.finishBytes f bits used out).toList =
      bytesToBits out.toList ++ bitsLE bits.toNat (8 * ((used.toNat + 7) / 8)) := by
  induction f generalizing bits used out with
  | zero =>
    have : used.toNat = 0 := by omega
    simp [Writer.finishBytes, this, bitsLE]
  | succ f ih =>
    unfold Writer.finishBytes
    by_cases h : used > 0
    · rw [if_pos h, ih _ _ _ (by omega)]
      have e : 8 * ((used.toNat + 7) / 8) = 8 + 8 * (((used - 8).toNat + 7) / 8) := by omega
      rw [e, bitsLE_add, Array.toList_push, bytesToBits_append, bytesToBits_singleton, List.append_assoc,
        UInt64.toNat_toUInt8, bitsLE_mod _ 8 8 (Nat.le_refl _), UInt64.toNat_shiftRight,
        Nat.shiftRight_eq_div_pow]
      rfl
    · rw [if_neg h]
      have : used.toNat = 0 := by omega
      simp [this, bitsLE]

/-- **W1.**  The bytes `Finish()` returns are exactly the concatenated LSB-first bit fields of the
    `WriteBits` calls, zero-padded to a byte boundary. -/
theorem writer_bits (cs : List Call) (h : ∀ c ∈ cs, c.2 ≤ 32 ∧ c.1 < 2 ^ c.2) :
    ∃ pad, pad < 8 ∧
      bytesToBits (runCalls cs).finish.toList = callsBits cs ++ List.replicate pad false := by
  obtain ⟨hi, hb⟩ := runCalls_bitsOf cs h
  obtain ⟨hi', hb', hu'⟩ := flushAll_spec ((runCalls cs).used / 32 + 1) (runCalls cs) hi (by omega)
  unfold Writer.finish
  generalize Writer.flushAll ((runCalls cs).used / 32 + 1) (runCalls cs) = w at hi' hb' hu'
  simp only
  rw [finishBytes_spec 8 w.bits w.used w.out (by omega)]
  refine ⟨8 * ((w.used + 7) / 8) - w.used, by omega, ?_⟩
  have e : 8 * (((w.used : Int).toNat + 7) / 8) = w.used + (8 * ((w.used + 7) / 8) - w.used) := by
    simp only [Int.toNat_natCast]; omega
  rw [e, bitsLE_pad hi'.bits_lt, ← List.append_assoc, ← hb, ← hb']
  rfl

/-- the number of bytes `Finish()` returns -/
theorem finish_size (cs : List Call) (h : ∀ c ∈ cs, c.2 ≤ 32 ∧ c.1 < 2 ^ c.2) :
    (runCalls cs).finish.size = ((callsBits cs).length + 7) / 8 := by
  obtain ⟨pad, hp, e⟩ := writer_bits cs h
  have := congrArg List.length e
  simp only [bytesToBits_length, List.length_append, List.length_replicate, Array.length_toList] at this
  omega

/-! ### `WriteBits` does not mask `v` -/

/-- `WriteBits(3, 1); WriteBits(0, 1)` puts the bits `1,1` on the wire, not `1,0`: the second bit of
    the unmasked value 3 is ORed into the position of the next field. -/
theorem writer_unmasked_counterexample :
    bytesToBits (runCalls [(3, 1), (0, 1)]).finish.toList ≠
      callsBits [(3, 1), (0, 1)] ++ List.replicate 6 false ∧
    (runCalls [(3, 1), (0, 1)]).finish = #[3] ∧
    (runCalls [(1, 1), (0, 1)]).finish = #[1] := by
  decide

/-- The hypothesis `nBits ≤ 32` is needed too (the Go doc comment says "nBits (0..64)"): after
    `WriteBits(1, 31); WriteBits(0, 40)` the accumulator holds 71 "used" bits, a single flush leaves
    39, and the top 7 bits of the following 32-bit field are shifted out of the 64-bit accumulator.
    (Same bytes from the Go code.) -/
theorem writer_wide_counterexample :
    (runCalls [(1, 31), (0, 40), (0xFFFFFFFF, 32)]).finish =
      #[1, 0, 0, 0, 0, 0, 0, 0, 128, 255, 255, 255, 0] ∧
    bytesToBits [1, 0, 0, 0, 0, 0, 0, 0, 128, 255, 255, 255, 127] =
      callsBits [(1, 31), (0, 40), (0xFFFFFFFF, 32)] ++ List.replicate 1 false := by
  decide

/-- for `nBits = 0` the value is irrelevant (no masking needed) -/
theorem writer_zero_width_any_value (pre post : List Call) (v : Nat) :
    runCalls (pre ++ (v, 0) :: post) = runCalls (pre ++ post) := by
  simp [runCalls, List.foldl_append, writeBits_zero]

/-! ## reading back with the specification's reader -/

theorem restBits_mk (data : ByteArray) (p : Nat) :
    restBits { data := data, pos := p } = (bytesToBits data.data.toList).drop p := rfl

/-- **W2.**  Whatever is written before and after, the specification's `ReadBits(n)` at the bit
    position of the field returns the written value. -/
theorem writer_reader_roundtrip (pre post : List Call) (v n : Nat)
    (h : ∀ c ∈ pre ++ (v, n) :: post, c.2 ≤ 32 ∧ c.1 < 2 ^ c.2) :
    let data := ByteArray.mk (runCalls (pre ++ (v, n) :: post)).finish
    BitReader.readBits { data := data, pos := (callsBits pre).length } n =
      .ok (v, { data := data, pos := (callsBits pre).length + n }) := by
  intro data
  obtain ⟨pad, _, e⟩ := writer_bits _ h
  have hv : v < 2 ^ n := (h (v, n) (by simp)).2
  have hr : restBits { data := data, pos := (callsBits pre).length } =
      bitsLE v n ++ (callsBits post ++ List.replicate pad false) := by
    rw [restBits_mk]
    show List.drop _ (bytesToBits (runCalls (pre ++ (v, n) :: post)).finish.toList) = _
    rw [e, callsBits_append, callsBits_cons, List.append_assoc, List.drop_left, List.append_assoc]
  exact (readBits_bitsLE hv hr).1

/-- read the fields of widths `ns` one after the other -/
def readAll (br : BitReader) : List Nat → Res Err (List Nat × BitReader)
  | [] => .ok ([], br)
  | n :: ns =>
    match br.readBits n with
    | .ok (v, br) =>
      match readAll br ns with
      | .ok (vs, br) => .ok (v :: vs, br)
      | .err e => .err e
      | .panic => .panic
      | .hang => .hang
    | .err e => .err e
    | .panic => .panic
    | .hang => .hang

theorem readAll_calls (cs : List Call) (h : ∀ c ∈ cs, c.1 < 2 ^ c.2) (br : BitReader) (r : List Bool)
    (hr : restBits br = callsBits cs ++ r) :
    readAll br (cs.map (·.2)) = .ok (cs.map (·.1), adv br (callsBits cs).length) := by
  induction cs generalizing br with
  | nil => simp [readAll, callsBits]
  | cons c cs ih =>
    rw [callsBits_cons, List.append_assoc] at hr
    obtain ⟨h1, h2⟩ := readBits_bitsLE (h c (by simp)) hr
    have := ih (fun c' hc' => h c' (by simp [hc'])) (adv br c.2) h2
    simp only [List.map_cons, readAll, h1, this, adv_adv, callsBits_cons, List.length_append, bitsLE_length]

/-- **W2, sequence form.**  Reading the fields one after the other with the specification's reader
    returns exactly the written values and stops right after the last field. -/
theorem writer_reader_roundtrip_all (cs : List Call) (h : ∀ c ∈ cs, c.2 ≤ 32 ∧ c.1 < 2 ^ c.2) :
    let data := ByteArray.mk (runCalls cs).finish
    readAll { data := data } (cs.map (·.2)) =
      .ok (cs.map (·.1), { data := data, pos := (callsBits cs).length }) := by
  intro data
  obtain ⟨pad, _, e⟩ := writer_bits _ h
  have hr : restBits { data := data } = callsBits cs ++ List.replicate pad false := by
    rw [restBits_mk]
    show List.drop 0 (bytesToBits (runCalls cs).finish.toList) = _
    rw [e]; rfl
  have := readAll_calls cs (fun c hc => (h c hc).2) { data := data } _ hr
  simpa [adv] using this

/-! ## non-vacuity -/

example : (runCalls [(5, 3), (0, 0), (0xABCDE, 20), (0xFFFFFFFF, 32), (1, 1), (0x1234567, 32)]).finish =
    #[0xf5, 0xe6, 0xd5, 0xff, 0xff, 0xff, 0xff, 0x67, 0x45, 0x23, 0x01] := by decide

example : callsBits [(5, 3), (2, 2)] = [true, false, true, false, true] := by decide

example : readAll { data := ByteArray.mk (runCalls [(5, 3), (0xABCDE, 20), (1, 1)]).finish } [3, 20, 1] =
    .ok ([5, 0xABCDE, 1], { data := ByteArray.mk (runCalls [(5, 3), (0xABCDE, 20), (1, 1)]).finish, pos := 24 }) :=
  writer_reader_roundtrip_all [(5, 3), (0xABCDE, 20), (1, 1)] (by decide)

end Webp.Proofs.VP8LEntropyWriter
