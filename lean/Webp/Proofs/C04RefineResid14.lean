import Webp.Proofs.C04RefineResid13
import Webp.Props.C04Refine8
/-
  C04 refinement, residuals, part 14: `decodeMB`'s token side (`T.parseTokens`: skipped / `B_PRED` / with Y2) in one
  statement on the reference decoder, and the transfer of any `runD` result to a Go reader in step.
-/
namespace Webp.Proofs.C04RefineResid
open Webp.Go (Bytes)
open Webp.Impl.BoolCoder
open Webp.Spec.VP8
open Webp.Impl.VP8SyntaxBytes (P runR rd)
open Webp.Impl.VP8Recon (Slot Coeffs NzCtx ResData decSkipped skipNz)
open Webp.Proofs.C04RefineBool Webp.Proofs.C04RefineOps Webp.Proofs.C04RefineTokens

/-- a tree that succeeds on the reference decoder succeeds with the same value on a Go reader in step (no decision
    started past the end), and leaves the two in step -/
theorem runR_of_runD {α : Type} (prob : Slot → UInt8) (t : P α) {F : Bytes} {r : BoolReader} {d : BoolDec} (hs : Sim F r d)
    (hfree : TreeFree prob t r) (a : α) (d' : BoolDec) (h : runD prob t d = some (a, d')) :
    ∃ r', runR prob t r = some (a, r') ∧ Sim F r' d' := by
  have ht := tree_transfer prob t hs hfree
  rw [h] at ht
  cases hrr : runR prob t r with
  | none => rw [hrr] at ht; exact absurd ht (by simp [TRel])
  | some x =>
    obtain ⟨a', r'⟩ := x
    rw [hrr] at ht
    obtain ⟨ha, hs'⟩ := ht
    exact ⟨r', by rw [ha], hs'⟩

/-- Go's coefficient data of a macroblock vs the specification's array: skipped — Go keeps the stale arrays and marks
    them unused (`NonZeroY = NonZeroUV = 0`), the specification has zeros; `B_PRED` — all 384 equal; with Y2 — all equal
    except that Go's luma DC slots hold the inverse-WHT outputs of the Y2 block (`ovI16`) -/
def ResRel (K : Webp.Impl.VP8Recon.Kernels) (isI4 skip : Bool) (stale : Nat → Coeffs) (eob : Nat) (y2 : Coeffs)
    (res : ResData) (coeffs : Array Int) : Prop :=
  if skip then res = decSkipped stale ∧ coeffs = Array.replicate 400 0
  else if isI4 then StRel 24 (fun _ => none) res.coeffs coeffs
  else StRel 24 (ovI16 K eob y2) res.coeffs coeffs

/-- **`decodeMB`'s residual side, all three cases**, on the reference decoder -/
theorem tokens_runD (prob : Slot → UInt8) (probs : Array Nat) (hc : ∀ t, t ≤ 3 → CoefOK prob probs t) (hfix : FixedOK prob)
    (K : Webp.Impl.VP8Recon.Kernels) (q : DequantFactors) (isI4 skipFlag useSkip : Bool) (stale : Nat → Coeffs) (n : NzCtx)
    (mbX : Nat) (A0 : Array Nat) (m : MBInfo) (cc : CoeffCtx) (hsk : m.skip = (useSkip && skipFlag)) (hI : m.hasY2 = !isI4)
    (h : NzRel mbX A0 n cc) (d : BoolDec) :
    ∃ res n' y2,
      runD prob (Webp.Impl.VP8SyntaxBytes.T.parseTokens K (Webp.Proofs.C04RefineRecon.ofSpec q) isI4 skipFlag useSkip stale n) d =
        some ((res, n'), (readResiduals probs q mbX m cc d).2.2.2) ∧
      NzRel mbX A0 n' (readResiduals probs q mbX m cc d).2.2.1 ∧
      (m.skip = false → isI4 = false → ∀ j : Fin 16, y2 j =
        (readBlock probs 1 0 (n.tnzDC + n.lnzDC) q.y2dc q.y2ac (24 * 16) (Array.replicate 400 0) d).2.1.getD (24 * 16 + j.val) 0) ∧
      ResRel K isI4 m.skip stale
        (readBlock probs 1 0 (n.tnzDC + n.lnzDC) q.y2dc q.y2ac (24 * 16) (Array.replicate 400 0) d).1 y2 res
        (readResiduals probs q mbX m cc d).1 := by
  cases hs : m.skip with
  | true =>
    rw [hs] at hsk
    have hb : useSkip = true ∧ skipFlag = true := by
      cases useSkip <;> cases skipFlag <;> first | exact ⟨rfl, rfl⟩ | cases hsk
    obtain ⟨hu, hf⟩ := hb
    subst hu; subst hf
    obtain ⟨h1, h2, _, _, h5⟩ := Webp.Props.C04Refine8.mb_residuals_skip_eq_spec prob K (Webp.Proofs.C04RefineRecon.ofSpec q)
      isI4 stale n probs q mbX A0 m cc hs hI h d
    refine ⟨decSkipped stale, skipNz isI4 n, Coeffs.zero, h1, h5, (fun hh => by cases hh), ?_⟩
    unfold ResRel
    rw [if_pos rfl]
    exact ⟨rfl, h2⟩
  | false =>
    rw [hs] at hsk
    have hpt : Webp.Impl.VP8SyntaxBytes.T.parseTokens K (Webp.Proofs.C04RefineRecon.ofSpec q) isI4 skipFlag useSkip stale n =
        Webp.Impl.VP8SyntaxBytes.T.parseResiduals K (Webp.Proofs.C04RefineRecon.ofSpec q) isI4 n := by
      unfold Webp.Impl.VP8SyntaxBytes.T.parseTokens
      rw [← hsk]
      simp
    rw [hpt]
    cases isI4 with
    | true =>
      obtain ⟨res, n', h1, h2, h3⟩ := residuals_i4 prob probs (hc 3 (by omega)) (hc 2 (by omega)) hfix K q n mbX A0 m cc hs
        (by rw [hI]; rfl) h d
      refine ⟨res, n', Coeffs.zero, h1, h2, (fun _ hh => by cases hh), ?_⟩
      unfold ResRel
      rw [if_neg (by simp), if_pos rfl]
      exact h3
    | false =>
      obtain ⟨res, n', y2, h1, h2, h3, h4⟩ := residuals_i16 prob probs (hc 0 (by omega)) (hc 1 (by omega)) (hc 2 (by omega))
        hfix K q n mbX A0 m cc hs (by rw [hI]; rfl) h d
      refine ⟨res, n', y2, h1, h2, fun _ _ => h3, ?_⟩
      unfold ResRel
      rw [if_neg (by simp), if_neg (by simp)]
      exact h4

end Webp.Proofs.C04RefineResid
