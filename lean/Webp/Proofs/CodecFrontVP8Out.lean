import Webp.Proofs.CodecFrontVP8Frame
/-
  VP8 front end, part 3: `DecodeFrame` plane slices, `buildYCbCr` / `buildNRGBA` row slices,
  `DecodeAlpha` plane size, `decodeLossy`.
-/
namespace Webp.Impl.CodecFront
open Webp.Go

variable {σ : Type}

/-! ### arithmetic helpers -/

theorem row_le {r n s k : Nat} (hr : r < n) (hk : k ≤ s) : r * s + k ≤ n * s := by
  have h1 : (r + 1) * s ≤ n * s := Nat.mul_le_mul_right s hr
  have h2 : (r + 1) * s = r * s + s := by ring
  omega

theorem row_lt {r n s k : Nat} (hr : r < n) (hk : k < s) : r * s + k < n * s := by
  have h1 : (r + 1) * s ≤ n * s := Nat.mul_le_mul_right s hr
  have h2 : (r + 1) * s = r * s + s := by ring
  omega

theorem mb_bounds {w : Nat} (h1 : 1 ≤ w) (h2 : w ≤ 16383) :
    1 ≤ (w + 15) / 16 ∧ (w + 15) / 16 ≤ 1024 ∧ w ≤ 16 * ((w + 15) / 16) := by omega

/-! ### DecodeFrame -/

/-- the planes `DecodeFrame` returns for a header `h` -/
structure PlanesOK (h : Hdr) (p : Planes) : Prop where
  width : p.width = h.tag.width
  height : p.height = h.tag.height
  yStride : p.yStride = 16 * h.mbW
  uvStride : p.uvStride = 8 * h.mbW
  yLen : p.yLen = p.height * p.yStride
  uLen : p.uLen = (p.height + 1) / 2 * p.uvStride
  vLen : p.vLen = (p.height + 1) / 2 * p.uvStride

theorem decodeFrame_post (S : BitSrc σ) (memCap : Nat) (caps : Caps) (data : Bytes) (mbOK : Bool) :
    (decodeFrame S memCap caps data mbOK).Post (fun r => HdrOK data r.1.1 ∧
      BufsOK r.1.1.mbW r.1.1.mbH r.1.2.1 ∧ PlanesOK r.1.1 r.1.2.2 ∧
      memTotal r.2 ≤ initFrameBytes r.1.1.mbW r.1.1.mbH ∧ (∀ x ∈ r.2, x ≤ memCap)) := by
  unfold decodeFrame
  refine Res.Post.bind (parseHeaders_post S data) (fun r hr => ?_)
  obtain ⟨h, s⟩ := r
  dsimp only at hr ⊢
  refine Res.Post.bind (initFrame_post memCap caps h.mbW h.mbH []) (fun r2 hr2 => ?_)
  obtain ⟨b, m⟩ := r2
  obtain ⟨hb, hm, hc⟩ := hr2
  dsimp only at hb hm hc ⊢
  cases mbOK with
  | false => trivial
  | true =>
    have hw := mb_bounds hr.tag.w1 hr.tag.w2
    have hh := mb_bounds hr.tag.h1 hr.tag.h2
    rw [← hr.mbW] at hw
    rw [← hr.mbH] at hh
    have e1 : h.tag.height * b.cacheYStride ≤ b.cacheY := by
      rw [hb.yStride, hb.cacheY]
      have : h.tag.height * (16 * h.mbW) ≤ 16 * h.mbH * (16 * h.mbW) := Nat.mul_le_mul_right _ hh.2.2
      have e : 16 * h.mbH * (16 * h.mbW) = 256 * (h.mbW * h.mbH) := by ring
      omega
    have e2 : (h.tag.height + 1) / 2 * b.cacheUVStride ≤ b.cacheU := by
      rw [hb.uvStride, hb.cacheU]
      have h8 : (h.tag.height + 1) / 2 ≤ 8 * h.mbH := by omega
      have : (h.tag.height + 1) / 2 * (8 * h.mbW) ≤ 8 * h.mbH * (8 * h.mbW) := Nat.mul_le_mul_right _ h8
      have e : 8 * h.mbH * (8 * h.mbW) = 64 * (h.mbW * h.mbH) := by ring
      omega
    have e3 : (h.tag.height + 1) / 2 * b.cacheUVStride ≤ b.cacheV := by
      rw [hb.cacheV, ← hb.cacheU]; exact e2
    show Res.Post _ (if (!true) = true then _ else _)
    rw [if_neg (by decide)]
    refine Res.Post.bind (sliceLen_post b.cacheY 0 _ (Nat.zero_le _) e1) (fun yLen hy => ?_)
    refine Res.Post.bind (sliceLen_post b.cacheU 0 _ (Nat.zero_le _) e2) (fun uLen hu => ?_)
    refine Res.Post.bind (sliceLen_post b.cacheV 0 _ (Nat.zero_le _) e3) (fun vLen hv => ?_)
    refine ⟨hr, hb, ⟨rfl, rfl, hb.yStride, hb.uvStride, ?_, ?_, ?_⟩, ?_, ?_⟩
    · show yLen = h.tag.height * b.cacheYStride
      omega
    · show uLen = (h.tag.height + 1) / 2 * b.cacheUVStride
      omega
    · show vLen = (h.tag.height + 1) / 2 * b.cacheUVStride
      omega
    · show memTotal m ≤ initFrameBytes h.mbW h.mbH
      have : memTotal ([] : Mem) = 0 := rfl
      omega
    · intro x hx
      rcases hc x hx with h | h
      · cases h
      · exact h

/-! ### images -/

/-- C05's "a returned image always has positive bounds and backing buffers large enough for
    them": every pixel of `Rect = (0,0)-(w,h)` addresses bytes inside the backing slices
    (`YOffset`/`COffset` for 4:2:0 YCbCr, `PixOffset + 3` for NRGBA). -/
def Img.WellFormed : Img → Prop
  | .ycbcr w h yLen cbLen crLen ys cs =>
    0 < w ∧ 0 < h ∧ ∀ x y, x < w → y < h →
      y * ys + x < yLen ∧ (y / 2) * cs + x / 2 < cbLen ∧ (y / 2) * cs + x / 2 < crLen
  | .nrgba w h pixLen stride =>
    0 < w ∧ 0 < h ∧ stride = 4 * w ∧ pixLen = stride * h ∧
      ∀ x y, x < w → y < h → y * stride + x * 4 + 3 < pixLen
  | .nilYCbCr => False

def Img.dx : Img → Nat
  | .ycbcr w .. => w | .nrgba w .. => w | .nilYCbCr => 0
def Img.dy : Img → Nat
  | .ycbcr _ h .. => h | .nrgba _ h .. => h | .nilYCbCr => 0

/-- geometry facts shared by both builders -/
structure Geo (p : Planes) (mbW : Nat) : Prop where
  w1 : 1 ≤ p.width
  h1 : 1 ≤ p.height
  w2 : p.width ≤ 16383
  h2 : p.height ≤ 16383
  mb : mbW ≤ 1024
  ws : p.width ≤ 16 * mbW
  yStride : p.yStride = 16 * mbW
  uvStride : p.uvStride = 8 * mbW
  yLen : p.yLen = p.height * p.yStride
  uLen : p.uLen = (p.height + 1) / 2 * p.uvStride
  vLen : p.vLen = (p.height + 1) / 2 * p.uvStride

theorem geo_of {data : Bytes} {h : Hdr} {p : Planes} (hh : HdrOK data h) (hp : PlanesOK h p) :
    Geo p h.mbW := by
  have hw := mb_bounds hh.tag.w1 hh.tag.w2
  rw [← hh.mbW] at hw
  exact ⟨by rw [hp.width]; exact hh.tag.w1, by rw [hp.height]; exact hh.tag.h1,
    by rw [hp.width]; exact hh.tag.w2, by rw [hp.height]; exact hh.tag.h2, hw.2.1,
    by rw [hp.width]; exact hw.2.2, hp.yStride, hp.uvStride, hp.yLen, hp.uLen, hp.vLen⟩

/-- bytes of the copy `buildYCbCr` makes -/
theorem ycbcr_bytes_le {p : Planes} {mbW : Nat} (g : Geo p mbW) :
    p.height * p.yStride + 2 * ((p.height + 1) / 2 * p.uvStride) ≤ 24 * (p.height + 1) * mbW ∧
    p.height * p.yStride + 2 * ((p.height + 1) / 2 * p.uvStride) ≤ 2 ^ 30 := by
  rw [g.yStride, g.uvStride]
  have a1 : p.height * (16 * mbW) = 16 * (p.height * mbW) := by ring
  have a2 : (p.height + 1) / 2 * (8 * mbW) = 8 * ((p.height + 1) / 2 * mbW) := by ring
  have a3 : 2 * ((p.height + 1) / 2 * mbW) ≤ (p.height + 1) * mbW := by
    have : 2 * ((p.height + 1) / 2) * mbW ≤ (p.height + 1) * mbW :=
      Nat.mul_le_mul_right _ (by omega)
    have e : 2 * ((p.height + 1) / 2) * mbW = 2 * ((p.height + 1) / 2 * mbW) := by ring
    omega
  have a4 : p.height * mbW ≤ (p.height + 1) * mbW := Nat.mul_le_mul_right _ (Nat.le_succ _)
  have a5 : 24 * (p.height + 1) * mbW = 24 * ((p.height + 1) * mbW) := by ring
  have a6 : (p.height + 1) * mbW ≤ 16384 * 1024 := Nat.mul_le_mul (by have := g.h2; omega) g.mb
  constructor
  · omega
  · have : (2 : Nat) ^ 30 = 1073741824 := by norm_num
    omega

theorem buildYCbCr_post (memCap : Nat) (p : Planes) (mbW : Nat) (g : Geo p mbW) (m : Mem) :
    (buildYCbCr memCap p m).Post (fun r => r.1.WellFormed ∧ r.1.dx = p.width ∧ r.1.dy = p.height ∧
      memTotal r.2 ≤ memTotal m + 24 * (p.height + 1) * mbW ∧ (∀ x ∈ r.2, x ∈ m ∨ x ≤ memCap)) := by
  unfold buildYCbCr
  dsimp only
  have hb := ycbcr_bytes_le g
  rw [if_neg (by omega)]
  refine Res.Post.bind (alloc_post memCap m _) (fun m' hm' => ?_)
  obtain ⟨em, hle⟩ := hm'
  have hu := g.uLen
  have hv := g.vLen
  have hy := g.yLen
  refine Res.Post.bind (sliceLen_post _ _ _ (by omega) (by omega)) (fun _ _ => ?_)
  refine Res.Post.bind (sliceLen_post _ _ _ (by omega) (by omega)) (fun _ _ => ?_)
  refine Res.Post.bind (sliceLen_post _ _ _ (by omega) (by omega)) (fun _ _ => ?_)
  refine Res.Post.bind (sliceLen_post _ _ _ (by omega) (by omega)) (fun _ _ => ?_)
  refine Res.Post.bind (sliceLen_post _ _ _ (by omega) (by omega)) (fun _ _ => ?_)
  refine Res.Post.bind (sliceLen_post _ _ _ (by omega) (by omega)) (fun _ _ => ?_)
  refine Res.Post.bind (sliceLen_post _ _ _ (by omega) (by omega)) (fun y ey => ?_)
  refine Res.Post.bind (sliceLen_post _ _ _ (by omega) (by omega)) (fun cb ecb => ?_)
  refine Res.Post.bind (sliceLen_post _ _ _ (by omega) (by omega)) (fun cr ecr => ?_)
  refine ⟨?_, rfl, rfl, ?_, ?_⟩
  · show Img.WellFormed (.ycbcr p.width p.height y cb cr p.yStride p.uvStride)
    refine ⟨g.w1, g.h1, fun x yy hx hyy => ?_⟩
    have hxs : x < p.yStride := by rw [g.yStride]; have := g.ws; omega
    have hxc : x / 2 < p.uvStride := by rw [g.uvStride]; have := g.ws; omega
    have hyc : yy / 2 < (p.height + 1) / 2 := by omega
    have r1 := row_lt hyy hxs
    have r2 := row_lt hyc hxc
    exact ⟨by omega, by omega, by omega⟩
  · show memTotal m' ≤ _
    rw [em]; unfold memTotal; simp only [List.sum_cons]; omega
  · intro x hx
    have hx' : x ∈ m' := hx
    rw [em] at hx'
    rcases List.mem_cons.mp hx' with rfl | hx'
    · exact Or.inr hle
    · exact Or.inl hx'

/-! ### buildNRGBA -/

theorem optRow_post {len s n : Nat} {hgt : Nat} (bot : Option Nat) (hlen : len = hgt * s) (hn : n ≤ s)
    (hb : ∀ b, bot = some b → b < hgt) :
    (match bot with | some b => rowSlice len (b * s) n | none => (.ok () : R Unit)).Post
      (fun _ => True) := by
  cases bot with
  | none => trivial
  | some b =>
    have := row_le (hb b rfl) hn
    exact rowSlice_post _ _ _ (by omega)

theorem linePair_post (p : Planes) (mbW : Nat) (g : Geo p mbW) (alphaLen pixLen stride : Nat)
    (ha : alphaLen = p.height * p.width) (hs : stride = 4 * p.width)
    (hp : pixLen = p.height * stride)
    (top : Nat) (bot : Option Nat) (ct cb : Nat) (ht : top < p.height)
    (hb : ∀ b, bot = some b → b < p.height) (hct : ct < (p.height + 1) / 2)
    (hcb : cb < (p.height + 1) / 2) :
    (linePair p alphaLen pixLen stride top bot ct cb).Post (fun _ => True) := by
  unfold linePair
  have hws : p.width ≤ p.yStride := by rw [g.yStride]; exact g.ws
  have hwc : (p.width + 1) / 2 ≤ p.uvStride := by rw [g.uvStride]; have := g.ws; omega
  have hw4 : p.width * 4 ≤ stride := by omega
  have y1 := row_le ht hws
  have u1 := row_le hct hwc
  have u2 := row_le hcb hwc
  have d1 := row_le ht hw4
  have a1 := row_le ht (Nat.le_refl p.width)
  have hy := g.yLen
  have hu := g.uLen
  have hv := g.vLen
  refine Res.Post.bind (rowSlice_post _ _ _ (by omega)) (fun _ _ => ?_)
  refine Res.Post.bind (optRow_post bot hy hws hb) (fun _ _ => ?_)
  refine Res.Post.bind (rowSlice_post _ _ _ (by omega)) (fun _ _ => ?_)
  refine Res.Post.bind (rowSlice_post _ _ _ (by omega)) (fun _ _ => ?_)
  refine Res.Post.bind (rowSlice_post _ _ _ (by omega)) (fun _ _ => ?_)
  refine Res.Post.bind (rowSlice_post _ _ _ (by omega)) (fun _ _ => ?_)
  refine Res.Post.bind (rowSlice_post _ _ _ (by omega)) (fun _ _ => ?_)
  refine Res.Post.bind (optRow_post bot hp hw4 hb) (fun _ _ => ?_)
  refine Res.Post.bind (rowSlice_post _ _ _ (by omega)) (fun _ _ => ?_)
  exact optRow_post bot ha (Nat.le_refl _) hb

theorem pairLoop_post (p : Planes) (mbW : Nat) (g : Geo p mbW) (alphaLen pixLen stride : Nat)
    (ha : alphaLen = p.height * p.width) (hs : stride = 4 * p.width)
    (hp : pixLen = p.height * stride) :
    ∀ (fuel y : Nat), y < p.height → p.height + 1 ≤ y + 2 * fuel →
      (pairLoop p alphaLen pixLen stride fuel y).Post (fun _ => True)
  | 0, y, hy, hf => by omega
  | fuel + 1, y, hy, hf => by
    unfold pairLoop
    by_cases hc : y + 2 < p.height
    · rw [if_pos hc]
      refine Res.Post.bind (linePair_post p mbW g alphaLen pixLen stride ha hs hp (y + 1) (some (y + 2))
        (y / 2) (y / 2 + 1) (by omega) (fun b hb => by cases hb; exact hc) (by omega) (by omega))
        (fun _ _ => ?_)
      exact pairLoop_post p mbW g alphaLen pixLen stride ha hs hp fuel (y + 2) hc (by omega)
    · rw [if_neg hc]; trivial

theorem newNRGBA_post (memCap w h : Nat) (m : Mem) (hwh : w * h ≤ 16383 * 16383) :
    (newNRGBA memCap w h m).Post (fun r => r.1 = 4 * w * h ∧ r.2 = (4 * w * h) :: m ∧
      4 * w * h ≤ memCap) := by
  unfold newNRGBA
  have e4 : 4 * w * h = 4 * (w * h) := by ring
  rw [if_neg (by omega)]
  refine Res.Post.bind (alloc_post memCap m _) (fun m' hm' => ?_)
  exact ⟨rfl, hm'.1, hm'.2⟩

theorem buildNRGBA_post (memCap : Nat) (p : Planes) (mbW : Nat) (g : Geo p mbW) (alphaLen : Nat)
    (ha : alphaLen = p.width * p.height) (m : Mem) :
    (buildNRGBA memCap p alphaLen m).Post (fun r => r.1.WellFormed ∧ r.1.dx = p.width ∧
      r.1.dy = p.height ∧ memTotal r.2 ≤ memTotal m + 4 * p.width * p.height ∧
      (∀ x ∈ r.2, x ∈ m ∨ x ≤ memCap)) := by
  unfold buildNRGBA
  have hwh : p.width * p.height ≤ 16383 * 16383 := Nat.mul_le_mul g.w2 g.h2
  refine Res.Post.bind (newNRGBA_post memCap p.width p.height m hwh) (fun r hr => ?_)
  obtain ⟨pixLen, m'⟩ := r
  obtain ⟨e1, em, hle⟩ := hr
  dsimp only at e1 em hle ⊢
  have ha' : alphaLen = p.height * p.width := by rw [ha, Nat.mul_comm]
  have hp' : pixLen = p.height * (4 * p.width) := by rw [e1]; ring
  have wf : Img.WellFormed (.nrgba p.width p.height pixLen (4 * p.width)) := by
    refine ⟨g.w1, g.h1, rfl, by rw [hp']; ring, fun x y hx hy => ?_⟩
    have := row_lt hy (show x * 4 + 3 < 4 * p.width by omega)
    rw [hp']; omega
  have mt : memTotal m' ≤ memTotal m + 4 * p.width * p.height := by
    rw [em]; unfold memTotal; simp only [List.sum_cons]; omega
  have mc : ∀ x ∈ m', x ∈ m ∨ x ≤ memCap := by
    intro x hx
    rw [em] at hx
    rcases List.mem_cons.mp hx with rfl | hx
    · exact Or.inr hle
    · exact Or.inl hx
  have lp0 := linePair_post p mbW g alphaLen pixLen (4 * p.width) ha' rfl hp' 0 none 0 0
    (by have := g.h1; omega) (fun b hb => by cases hb) (by have := g.h1; omega) (by have := g.h1; omega)
  by_cases h1 : p.height = 1
  · rw [if_pos h1]
    refine Res.Post.bind lp0 (fun _ _ => ?_)
    exact ⟨wf, rfl, rfl, mt, mc⟩
  · rw [if_neg h1]
    refine Res.Post.bind lp0 (fun _ _ => ?_)
    refine Res.Post.bind (pairLoop_post p mbW g alphaLen pixLen (4 * p.width) ha' rfl hp' p.height 0
      (by have := g.h1; omega) (by have := g.h1; omega)) (fun _ _ => ?_)
    split
    · refine Res.Post.bind (linePair_post p mbW g alphaLen pixLen (4 * p.width) ha' rfl hp'
        (p.height - 1) none _ _ (by have := g.h1; omega) (fun b hb => by cases hb)
        (by have := g.h1; omega) (by have := g.h1; omega)) (fun _ _ => ?_)
      exact ⟨wf, rfl, rfl, mt, mc⟩
    · exact ⟨wf, rfl, rfl, mt, mc⟩

/-! ### DecodeAlpha: the plane handed to buildNRGBA has exactly `width*height` bytes -/

open Webp.Impl.Alpha in
theorem unfilter_size (f : Filter) (w h : Nat) (d : Plane) : (unfilter f w h d).size = d.size := by
  have key : ∀ (f : Filter) (l : List Nat) (d : Plane), (l.foldl (unfilterStep f w) d).size = d.size := by
    intro f l
    induction l with
    | nil => intro d; rfl
    | cons a l ih => intro d; rw [List.foldl_cons, ih, Webp.Proofs.AlphaFilter.size_unfilterStep]
  cases f with
  | none => rfl
  | horizontal => exact key _ _ d
  | vertical => exact key _ _ d
  | gradient => exact key _ _ d

open Webp.Impl.Alpha in
theorem decodeAlpha_post (c : Codec) (data : Bytes) (w h : Nat) :
    (decodeAlpha c data (w : Int) (h : Int)).Post (fun pl => pl.size = w * h ∧ w * h ≤ 2 ^ 30) := by
  unfold decodeAlpha
  cases data with
  | nil => trivial
  | cons header payload =>
    dsimp only
    split
    · trivial
    simp only [Int.toNat_natCast]
    split
    · trivial
    rename_i harea
    split
    · rename_i raw hraw
      refine ⟨?_, by omega⟩
      rw [unfilter_size]
      split at hraw
      · split at hraw
        · cases hraw
        · injection hraw with hraw
          subst hraw
          rw [List.size_toArray, List.length_take]; omega
      · split at hraw
        · split at hraw
          · cases hraw
          · split at hraw
            · cases hraw
            · unfold extractGreen at hraw
              split at hraw
              · cases hraw
              · injection hraw with hraw
                subst hraw
                exact Array.size_ofFn
        · cases hraw
    · trivial
    · rename_i hraw
      split at hraw
      · split at hraw <;> cases hraw
      · split at hraw
        · split at hraw
          · cases hraw
          · split at hraw
            · cases hraw
            · unfold extractGreen at hraw
              split at hraw <;> cases hraw
        · cases hraw
    · rename_i hraw
      split at hraw
      · split at hraw <;> cases hraw
      · split at hraw
        · split at hraw
          · cases hraw
          · split at hraw
            · cases hraw
            · unfold extractGreen at hraw
              split at hraw <;> cases hraw
        · cases hraw

/-! ### decodeLossy -/

/-- bytes the whole lossy path may allocate for a `w × h` picture on an `mbW × mbH` grid:
    `initFrame` + the larger of (YCbCr copy) and (alpha plane + NRGBA) -/
def lossyBytes (w h mbW mbH : Nat) : Nat :=
  initFrameBytes mbW mbH + 24 * (h + 1) * mbW + 5 * (w * h)

theorem decodeLossy_post (S : BitSrc σ) (memCap : Nat) (caps : Caps) (codec : Webp.Impl.Alpha.Codec)
    (data alphaData : Bytes) (mbOK : Bool) :
    (decodeLossy S memCap caps codec data alphaData mbOK).Post (fun r => r.1.WellFormed ∧
      1 ≤ r.1.dx ∧ r.1.dx ≤ 16383 ∧ 1 ≤ r.1.dy ∧ r.1.dy ≤ 16383 ∧
      memTotal r.2 ≤ lossyBytes r.1.dx r.1.dy ((r.1.dx + 15) / 16) ((r.1.dy + 15) / 16) ∧
      (∀ x ∈ r.2, x ≤ memCap)) := by
  unfold decodeLossy
  refine Res.Post.bind (decodeFrame_post S memCap caps data mbOK) (fun r hr => ?_)
  obtain ⟨⟨h, b, p⟩, m⟩ := r
  obtain ⟨hh, hb, hp, hm, hc⟩ := hr
  dsimp only at hh hb hp hm hc ⊢
  have g := geo_of hh hp
  have emw : h.mbW = (p.width + 15) / 16 := by rw [hp.width]; exact hh.mbW
  have emh : h.mbH = (p.height + 15) / 16 := by rw [hp.height]; exact hh.mbH
  by_cases hal : alphaData.length > 0
  · rw [if_pos hal]
    have ha := decodeAlpha_post codec alphaData p.width p.height
    cases hd : Webp.Impl.Alpha.decodeAlpha codec alphaData (p.width : Int) (p.height : Int) with
    | err e => trivial
    | panic => rw [hd] at ha; exact ha
    | hang => rw [hd] at ha; exact ha
    | ok plane =>
      rw [hd] at ha
      obtain ⟨hsz, _⟩ := ha
      dsimp only
      refine Res.Post.bind (alloc_post memCap m plane.size) (fun m' hm' => ?_)
      obtain ⟨em, hle⟩ := hm'
      refine (buildNRGBA_post memCap p h.mbW g plane.size hsz m').mono (fun r hr => ?_)
      obtain ⟨wf, dx, dy, mt, mc⟩ := hr
      rw [dx, dy]
      refine ⟨wf, g.w1, g.w2, g.h1, g.h2, ?_, ?_⟩
      · have : memTotal m' = plane.size + memTotal m := by
          rw [em]; unfold memTotal; simp only [List.sum_cons]
        unfold lossyBytes
        rw [← emw, ← emh]
        have e4 : 4 * p.width * p.height = 4 * (p.width * p.height) := by ring
        omega
      · intro x hx
        rcases mc x hx with h1 | h1
        · rw [em] at h1
          rcases List.mem_cons.mp h1 with rfl | h1
          · exact hle
          · exact hc x h1
        · exact h1
  · rw [if_neg hal]
    refine (buildYCbCr_post memCap p h.mbW g m).mono (fun r hr => ?_)
    obtain ⟨wf, dx, dy, mt, mc⟩ := hr
    rw [dx, dy]
    refine ⟨wf, g.w1, g.w2, g.h1, g.h2, ?_, ?_⟩
    · unfold lossyBytes
      rw [← emw, ← emh]
      omega
    · intro x hx
      rcases mc x hx with h1 | h1
      · exact hc x h1
      · exact h1

end Webp.Impl.CodecFront
