import Webp.Proofs.BoolReader
/-
  `GetBitAlt` (table-driven normalisation, what `fastBit` of the coefficient decoder inlines) is
  `GetBit` on every reader whose `Range` is in `127 ..= 254` (always, from `NewBoolReader`, unless
  `GetSigned` was the very first call).
-/
namespace Webp.Proofs.BoolReader
open Webp.Go (Bytes)
open Webp.Impl.BoolCoder
open Webp.Spec.VP8.BoolIdeal
open Webp.Proofs.BoolIdeal
open Webp.Proofs.BoolWriter (tables normShift_zero_of_ge)

theorem getBitAlt_eq_getBit (r : BoolReader) {p : Nat} (h1 : 127 ≤ r.range) (h2 : r.range ≤ 254)
    (hp : p ≤ 255) : getBitAlt r p = getBit r p := by
  unfold getBitAlt getBit
  generalize (if r.bits < 0 then loadNewBytes r else r) = r1
  generalize hrg : r.range = range at h1 h2
  have h255 : (255 : Nat) < 2 ^ 32 := by norm_num
  have hmul : range * p < 2 ^ 32 := by
    calc range * p ≤ 254 * 255 := Nat.mul_le_mul h2 hp
      _ < 2 ^ 32 := by norm_num
  have hsl : (range * p) >>> 8 < range := by
    rw [Nat.shiftRight_eq_div_pow]
    have : range * p ≤ range * 255 := Nat.mul_le_mul_left _ hp
    omega
  have hlt32 : (range * p) >>> 8 < 2 ^ 32 := by omega
  have hs : wrap32 (wrap32 (range * p) >>> 8) = (range * p) >>> 8 := by
    rw [wrap32_of_lt hmul, wrap32_of_lt hlt32]
  simp only [hs]
  generalize (range * p) >>> 8 = s at hsl
  generalize decide (wrap32 (shrU64 r1.value r1.bits) > s) = bit
  -- the two conventions for the new width
  have hA : (if bit = true then wrap32 (range + 2 ^ 32 - (s + 1)) else s) + 1
      = (if bit = true then wrap32 (range + 2 ^ 32 - s) else wrap32 (s + 1)) := by
    cases bit
    · have : s + 1 < 2 ^ 32 := by omega
      simp [wrap32_of_lt this]
    · have e1 : range + 2 ^ 32 - (s + 1) = (range - s - 1) + 2 ^ 32 := by omega
      have e2 : range + 2 ^ 32 - s = (range - s) + 2 ^ 32 := by omega
      simp only [if_true]
      unfold wrap32
      rw [e1, e2, Nat.add_mod_right, Nat.add_mod_right, Nat.mod_eq_of_lt (by omega), Nat.mod_eq_of_lt (by omega)]
      omega
  have hAle : (if bit = true then wrap32 (range + 2 ^ 32 - (s + 1)) else s) ≤ 253 := by
    cases bit
    · simp; omega
    · have e1 : range + 2 ^ 32 - (s + 1) = (range - s - 1) + 2 ^ 32 := by omega
      simp only [if_true]
      unfold wrap32
      rw [e1, Nat.add_mod_right, Nat.mod_eq_of_lt (by omega)]
      omega
  rw [← hA]
  generalize (if bit = true then wrap32 (range + 2 ^ 32 - (s + 1)) else s) = ra at hAle
  have hls := len32_shift (ra + 1) (by omega) (by omega)
  rw [hls]
  by_cases h7e : ra ≤ 0x7e
  · obtain ⟨t1, t2⟩ := tables ra (by omega)
    have hn := normShift_spec (r := ra + 1) (by omega) (by omega)
    have hlt : (ra + 1) * 2 ^ normShift (ra + 1) < 2 ^ 32 := by omega
    simp only [h7e, if_true, t1, Nat.shiftLeft_eq, wrap32_of_lt hlt]
    have e : (ra + 1) * 2 ^ normShift (ra + 1) + 2 ^ 32 - 1 = kNewRange.getD ra 0 + 2 ^ 32 := by omega
    have hk : kNewRange.getD ra 0 < 2 ^ 32 := by omega
    unfold wrap32
    rw [e, Nat.add_mod_right, Nat.mod_eq_of_lt hk]
  · have hz : normShift (ra + 1) = 0 := normShift_zero_of_ge (by omega)
    have hlt : ra + 1 < 2 ^ 32 := by omega
    simp only [h7e, if_false, hz, Nat.shiftLeft_eq, pow_zero, Nat.mul_one, wrap32_of_lt hlt]
    have e : ra + 1 + 2 ^ 32 - 1 = ra + 2 ^ 32 := by omega
    have hk : ra < 2 ^ 32 := by omega
    unfold wrap32
    rw [e, Nat.add_mod_right, Nat.mod_eq_of_lt hk]
    simp

end Webp.Proofs.BoolReader
