import Webp.Impl.PoolFields
import Generated.Fields
/-
  Webp.Proofs.PoolFields — pairing of the extracted pooled types (`Generated.Fields`) with their
  hand-written annotations (`Webp.Impl.PoolFields`) and the lemma that turns "the annotation lists
  exactly the struct's fields" into "every field has a class".  Used by `Webp.Props.C11` §2.
-/
namespace Webp.Impl.PoolFields

/-- generated type and its annotation, position by position -/
def pairs : List (Generated.Fields.PooledType × Annot) := Generated.Fields.types.zip all

theorem mem_ofClass {a : Annot} {e : String × Cls × String} (he : e ∈ a.fields) :
    e.1 ∈ a.ofClass e.2.1 := by
  unfold Annot.ofClass
  exact List.mem_map.2 ⟨e, List.mem_filter.2 ⟨he, by simp⟩, rfl⟩

/-- if the annotation's names are exactly `fs`, every element of `fs` is in one of the classes -/
theorem covered_of_names {a : Annot} {fs : List String} (h : a.names = fs) :
    ∀ f ∈ fs, f ∈ a.reset ∨ f ∈ a.rewritten ∨ f ∈ a.immutable ∨ f ∈ a.stale := by
  intro f hf
  rw [← h] at hf
  obtain ⟨e, he, rfl⟩ := List.mem_map.1 hf
  have := mem_ofClass he
  unfold Annot.reset Annot.rewritten Annot.immutable Annot.stale
  cases hc : e.2.1 <;> rw [hc] at this <;> simp [this]

end Webp.Impl.PoolFields
