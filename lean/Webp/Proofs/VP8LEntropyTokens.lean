import Webp.Proofs.VP8LEntropyPrefix
import Webp.Proofs.VP8LEntropyCodeLengths
import Webp.Proofs.VP8LEntropyLoop
import Webp.Props.C01
/-
  T1: the token layer of the VP8L entropy coder.

  What `storeImageData` writes for a list of backward references (after
  `BackwardReferences2DLocality`) with the five trees of one histogram is read back, token by
  token, by the specification's `readToken` with the codes THE DECODER RECONSTRUCTS
  (`buildCode (normLens lens)`: simple codes are re-sent with all lengths 1, the empty code as the
  one-symbol code of symbol 0), and therefore `Spec.decodePixels` on these bits is the reference
  loop over the token list.
-/
namespace Webp.Proofs.VP8LEntropyTokens
open Webp.Go (Res)
open Webp.Spec.VP8L
open Webp.Impl.VP8LEntropy
open Webp.Impl.LTransform (prefixEncode distanceToPlaneCode getCopyDistance)
open Webp.Proofs.VP8LEntropyBits Webp.Proofs.VP8LEntropyRev Webp.Proofs.VP8LEntropyCanon
open Webp.Proofs.VP8LEntropyPrefix Webp.Proofs.VP8LEntropyCodeLengths

/-! ## A. the code the decoder reconstructs -/

/-- converse of `buildCode_ok`: what `buildCode` accepts -/
theorem buildCode_of (lens : Array Nat) (h15 : ∀ x ∈ lens, x ≤ 15) (h0 : 0 < offs lens 16)
    (hk : offs lens 16 = 1 ∨ ks lens 16 = 2 ^ 15) : ∃ c, buildCode lens = .ok c := by
  unfold buildCode
  have hany : ¬ lens.any (· > maxCodeLength) = true := by
    rw [Array.any_eq_true]
    rintro ⟨i, hi, h⟩
    have := h15 lens[i] (Array.getElem_mem hi)
    simp [maxCodeLength] at h; omega
  rw [if_neg hany]
  simp only
  rw [used_eq lens h15, kraftSum_eq lens h15]
  rw [if_neg (by omega), if_neg (by simp only [maxCodeLength]; omega),
    if_neg (by simp only [maxCodeLength]; omega)]
  exact ⟨_, rfl⟩

theorem map_getD_range (xs : List Nat) : (List.range xs.length).map (fun i => xs.getD i 0) = xs := by
  apply List.ext_getElem
  · simp
  · intro i h1 h2
    simp only [List.getElem_map, List.getElem_range]
    simp [List.getD_eq_getElem?_getD, h2]

/-- `usedList` counts the used symbols -/
theorem usedList_length (lens : Array Nat) (h15 : ∀ x ∈ lens, x ≤ 15) :
    (usedList lens).length = offs lens 16 := by
  rw [← used_count lens h15]
  have h := map_getD_range lens.toList
  have e : lens.toList.filter (· ≠ 0) =
      ((List.range lens.toList.length).filter ((fun x => decide (x ≠ 0)) ∘ fun i => lens.toList.getD i 0)).map
        (fun i => lens.toList.getD i 0) := by
    rw [← List.filter_map, h]
  rw [e, List.length_map]
  unfold usedList
  simp only [Array.length_toList]
  congr 1
  apply List.filter_congr
  intro i _
  simp only [Function.comp, getD_toList]
  generalize lens.getD i 0 = v
  by_cases h0 : v = 0
  · simp [h0]
  · have : v > 0 := by omega
    simp [h0, this]

theorem pow_le_14 : ∀ x, x ≤ 15 → 1 ≤ x → 2 ^ (15 - x) ≤ 2 ^ 14 ∧ (2 ^ (15 - x) = 2 ^ 14 → x = 1) := by
  decide

/-- a Kraft sum cannot exceed half a unit per used symbol; equality needs all lengths 1 -/
theorem ksL_le (xs : List Nat) (h : ∀ x ∈ xs, x ≤ 15) :
    ksL xs 16 ≤ offsL xs 16 * 2 ^ 14 ∧ (ksL xs 16 = offsL xs 16 * 2 ^ 14 → ∀ x ∈ xs, x = 0 ∨ x = 1) := by
  induction xs with
  | nil => simp [ksL, offsL]
  | cons x r ih =>
    obtain ⟨i1, i2⟩ := ih (fun y hy => h y (List.mem_cons_of_mem _ hy))
    have hx := h x List.mem_cons_self
    rw [ksL_cons, offsL_cons]
    by_cases h0 : x = 0
    · subst h0
      simp only [show ¬ (1 ≤ 0 ∧ 0 < 16) by omega, if_false, Nat.add_zero]
      refine ⟨i1, fun he y hy => ?_⟩
      rcases List.mem_cons.mp hy with rfl | hy
      · exact Or.inl rfl
      · exact i2 he y hy
    · have hp := pow_le_14 x hx (by omega)
      rw [if_pos (by omega), if_pos (by omega), Nat.add_mul, Nat.one_mul]
      refine ⟨by omega, fun he y hy => ?_⟩
      rcases List.mem_cons.mp hy with rfl | hy
      · exact Or.inr (hp.2 (by omega))
      · exact i2 (by omega) y hy

/-- a complete code with two symbols has lengths 1, 1 -/
theorem two_symbols_len_one (lens : Array Nat) (h15 : ∀ x ∈ lens, x ≤ 15) (h2 : offs lens 16 ≤ 2)
    (hk : ks lens 16 = 2 ^ 15) : ∀ x ∈ lens, x = 0 ∨ x = 1 := by
  have := ksL_le lens.toList (by simpa using h15)
  rw [ksL_eq, offsL_eq] at this
  obtain ⟨i1, i2⟩ := this
  have : ks lens 16 = offs lens 16 * 2 ^ 14 := by omega
  intro x hx
  exact i2 this x (by simpa using hx)

def one01 (l : Nat) : Nat := if l = 0 then 0 else 1

theorem map_one01_offs (lens : Array Nat) (h15 : ∀ x ∈ lens, x ≤ 15) :
    offs (lens.map one01) 16 = offs lens 16 := by
  have h15' : ∀ x ∈ lens.map one01, x ≤ 15 := by
    intro x hx
    simp only [Array.mem_map] at hx
    obtain ⟨y, _, rfl⟩ := hx
    unfold one01; split <;> omega
  rw [← used_count lens h15, ← used_count _ h15']
  rw [Array.toList_map, List.filter_map, List.length_map]
  congr 1
  apply List.filter_congr
  intro x _
  simp only [Function.comp, one01]
  by_cases h0 : x = 0 <;> simp [h0]

theorem map_one01_getD (lens : Array Nat) (s : Nat) : (lens.map one01).getD s 0 = one01 (lens.getD s 0) := by
  simp only [Array.getD_eq_getD_getElem?, Array.getElem?_map]
  cases lens[s]? <;> rfl

theorem normLens_eq (lens : Array Nat) :
    normLens lens =
      if usedList lens = [] then (Array.replicate lens.size 0).setIfInBounds 0 1
      else if (usedList lens).length ≤ 2 ∧ ∀ i ∈ usedList lens, i < 256 then lens.map one01
      else lens := rfl

/-- for a vector `buildCode` accepts, the decoder's vector is the same one, or the vector has a single
    used symbol and the decoder's has that symbol with length 1 -/
theorem normLens_cases {lens : Array Nat} {c0 : Code} (h : buildCode lens = .ok c0) :
    normLens lens = lens ∨ (offs lens 16 = 1 ∧ normLens lens = lens.map one01) := by
  obtain ⟨h15, h0, hk, _, _⟩ := buildCode_ok h
  have hu := usedList_length lens h15
  rw [normLens_eq]
  by_cases he : usedList lens = []
  · rw [he] at hu; simp at hu; omega
  · rw [if_neg he]
    by_cases hs : (usedList lens).length ≤ 2 ∧ ∀ i ∈ usedList lens, i < 256
    · rw [if_pos hs]
      rcases hk with h1 | hk
      · exact Or.inr ⟨h1, rfl⟩
      · left
        have h01 := two_symbols_len_one lens h15 (by omega) hk
        apply Array.ext
        · simp
        · intro i hi1 hi2
          rw [Array.getElem_map]
          rcases h01 lens[i] (Array.getElem_mem hi2) with e | e <;> rw [e] <;> rfl
    · rw [if_neg hs]; exact Or.inl rfl

theorem all_zero_usedList (lens : Array Nat) (hz : ∀ l ∈ lens, l = 0) : usedList lens = [] := by
  unfold usedList
  rw [List.filter_eq_nil_iff]
  intro i hi
  have hi' : i < lens.size := by simpa using hi
  have : lens.getD i 0 = 0 := by
    rw [getD_eq_getElem lens i hi']; exact hz _ (Array.getElem_mem hi')
  simp [this]

/-- what the encoder may hand to `StoreHuffmanCode`: nothing used, or a code `buildCode` accepts -/
def LensOK (lens : Array Nat) : Prop := (∀ l ∈ lens, l = 0) ∨ ∃ c, buildCode lens = .ok c

/-- the decoder can always build its code -/
theorem normLens_buildCode (lens : Array Nat) (hok : LensOK lens) (hn : 0 < lens.size) :
    ∃ c, buildCode (normLens lens) = .ok c := by
  rcases hok with hz | ⟨c0, h⟩
  · rw [normLens_eq, if_pos (all_zero_usedList lens hz)]
    obtain ⟨m, hm⟩ : ∃ m, lens.size = m + 1 := ⟨lens.size - 1, by omega⟩
    rw [hm]
    have hl : ((Array.replicate (m + 1) 0).setIfInBounds 0 1).toList = 1 :: List.replicate m 0 := by
      simp [List.replicate_succ]
    have h15 : ∀ x ∈ (Array.replicate (m + 1) 0).setIfInBounds 0 1, x ≤ 15 := by
      intro x hx
      rw [← Array.mem_toList_iff, hl] at hx
      rcases List.mem_cons.mp hx with rfl | hx
      · omega
      · rw [List.mem_replicate] at hx; omega
    have h1 : offs ((Array.replicate (m + 1) 0).setIfInBounds 0 1) 16 = 1 := by
      rw [← used_count _ h15, hl]
      simp
    exact buildCode_of _ h15 (by omega) (Or.inl h1)
  · rcases normLens_cases h with e | ⟨h1, e⟩
    · rw [e]; exact ⟨c0, h⟩
    · obtain ⟨h15, _, _, _, _⟩ := buildCode_ok h
      rw [e]
      have h15' : ∀ x ∈ lens.map one01, x ≤ 15 := by
        intro x hx
        simp only [Array.mem_map] at hx
        obtain ⟨y, _, rfl⟩ := hx
        unfold one01; split <;> omega
      have := map_one01_offs lens h15
      exact buildCode_of _ h15' (by omega) (Or.inl (by omega))

/-- **symbols survive the simple-code normalisation**: the bits the encoder writes for `s` with the
    (possibly cleared) tree of `lens` are decoded to `s` by the code of `normLens lens` -/
theorem norm_roundtrip {lens : Array Nat} {c0 code : Code} (h0 : buildCode lens = .ok c0)
    (h : buildCode (normLens lens) = .ok code) (s : Nat) (hs : s < lens.size) (hl : lens.getD s 0 ≠ 0)
    (br : BitReader) (rest : List Bool) (hb : restBits br = symBits lens s ++ rest) :
    Webp.Spec.VP8L.readSymbol code br = .ok (s, adv br (symBits lens s).length) := by
  rcases normLens_cases h0 with e | ⟨h1, e⟩
  · rw [e] at h
    exact prefix_roundtrip h s hs hl br rest hb
  · obtain ⟨h15, _, _, _, _⟩ := buildCode_ok h0
    rw [e] at h
    rw [symBits_single lens h15 h1 s hs]
    have hm := map_one01_offs lens h15
    have := readSymbol_single h (by omega) s (by simpa using hs)
      (by rw [map_one01_getD]; unfold one01; rw [if_neg hl]; omega) br
    simpa using this

/-! ## B. one symbol, with the reader described by what is left -/

theorem effTree_bits (lens : Array Nat) (s : Nat) :
    callsBits (writeHuffmanCode (effTree lens) s) = symBits lens s := rfl

theorem getD_ne_zero_lt {a : Array Nat} {s : Nat} (h : a.getD s 0 ≠ 0) : s < a.size := by
  apply Classical.byContradiction
  intro hn
  apply h
  simp only [Array.getD_eq_getD_getElem?]
  rw [Array.getElem?_eq_none (by omega)]
  rfl

/-- the decoder's code for an encoder length vector -/
def VecCode (lens : Array Nat) (code : Code) : Prop := LensOK lens ∧ buildCode (normLens lens) = .ok code

theorem sym_read {lens : Array Nat} {code : Code} (hc : VecCode lens code) (s : Nat)
    (hl : lens.getD s 0 ≠ 0) (br : BitReader) (rest : List Bool)
    (hb : restBits br = callsBits (writeHuffmanCode (effTree lens) s) ++ rest) :
    ∃ br', Webp.Spec.VP8L.readSymbol code br = .ok (s, br') ∧ restBits br' = rest ∧ br'.data = br.data := by
  have hs := getD_ne_zero_lt hl
  obtain ⟨hok, hc⟩ := hc
  rcases hok with hz | ⟨c0, h0⟩
  · exfalso; apply hl
    rw [getD_eq_getElem lens s hs]; exact hz _ (Array.getElem_mem hs)
  · rw [effTree_bits] at hb
    exact ⟨_, norm_roundtrip h0 hc s hs hl br rest hb, adv_rest hb⟩

/-! ## C. value codes: `readPrefixValue` and the plane codes -/

theorem prefixValue_read (v : Nat) (hv : 1 ≤ v) (br : BitReader) (rest : List Bool)
    (hb : restBits br =
      callsBits (if (prefixEncode v).2.1 > 0 then [((prefixEncode v).2.2, (prefixEncode v).2.1)] else []) ++ rest) :
    ∃ br', readPrefixValue (prefixEncode v).1 br = .ok (v, br') ∧ restBits br' = rest ∧ br'.data = br.data := by
  obtain ⟨h1, h2, h3⟩ := Webp.Props.C01.prefixValue_roundtrip v hv
  generalize (prefixEncode v).1 = sym at *
  generalize (prefixEncode v).2.1 = eb at *
  generalize (prefixEncode v).2.2 = ev at *
  unfold getCopyDistance at h1
  unfold Webp.Spec.LTransform.prefixExtraBits at h2
  unfold readPrefixValue
  by_cases h4 : sym < 4
  · rw [if_pos h4] at h1 h2 ⊢
    subst h2
    simp only [Nat.lt_irrefl, if_false, gt_iff_lt, callsBits_nil, List.nil_append] at hb
    exact ⟨br, by rw [h1], hb, rfl⟩
  · rw [if_neg h4] at h1 h2 ⊢
    simp only at h1 ⊢
    by_cases he : eb > 0
    · rw [if_pos he, VP8LEntropyCodeLengths.callsBits_cons, callsBits_nil, List.append_nil] at hb
      obtain ⟨r1, b1⟩ := readBits_bitsLE h3 hb
      rw [h2] at h1 ⊢
      rw [r1]
      simp only
      rw [h1]
      exact ⟨_, rfl, b1, rfl⟩
    · have e0 : eb = 0 := by omega
      subst e0
      rw [if_neg he, callsBits_nil, List.nil_append] at hb
      have ev0 : ev = 0 := by simpa using h3
      subst ev0
      rw [h2] at h1 ⊢
      simp only [BitReader.readBits]
      rw [h1]
      exact ⟨br, rfl, hb, rfl⟩

theorem distanceMap_getD : ∀ i, i < 120 → distanceMap.getD i (0, 0) =
    ((8 : Int) - ((Webp.Spec.LTransform.codeToPlane.getD i 0 &&& 0xf : Nat) : Int),
      Webp.Spec.LTransform.codeToPlane.getD i 0 >>> 4) := by
  decide +kernel

/-- the decoder's distance map (RFC table of `(dx, dy)` pairs) is the packed `kCodeToPlane` table of
    `Webp.Spec.LTransform` -/
theorem planeCodeToDistance_eq (xsize c : Nat) :
    Webp.Spec.VP8L.planeCodeToDistance xsize c = Webp.Spec.LTransform.planeCodeToDistance xsize c := by
  unfold Webp.Spec.VP8L.planeCodeToDistance Webp.Spec.LTransform.planeCodeToDistance
  by_cases h : c > 120
  · rw [if_pos h, if_pos h]
  · rw [if_neg h, if_neg h, distanceMap_getD (c - 1) (by omega)]
    simp only
    rw [Int.add_comm]

theorem planeCode_read (w dist : Nat) (hw : 1 ≤ w) (hd : 1 ≤ dist) :
    1 ≤ distanceToPlaneCode w dist ∧
    Webp.Spec.VP8L.planeCodeToDistance w (distanceToPlaneCode w dist) = dist := by
  rw [planeCodeToDistance_eq]
  exact Webp.Props.C01.planeCode_roundtrip_spec w dist hw hd

/-! ## D. one token -/

theorem ff_getLsbD (i : Nat) : (UInt32.toBitVec 255).getLsbD i = decide (i < 8) := by
  show (255 : Nat).testBit i = decide (i < 8)
  by_cases h : i < 8
  · have : i = 0 ∨ i = 1 ∨ i = 2 ∨ i = 3 ∨ i = 4 ∨ i = 5 ∨ i = 6 ∨ i = 7 := by omega
    rcases this with rfl | rfl | rfl | rfl | rfl | rfl | rfl | rfl <;> decide
  · rw [Nat.testBit_lt_two_pow (Nat.lt_of_lt_of_le (by decide : 255 < 2 ^ 8)
      (Nat.pow_le_pow_right (by decide) (by omega)))]
    simp [h]

theorem mkARGB_channels (x : UInt32) :
    mkARGB ((x >>> 24) &&& 0xff) ((x >>> 16) &&& 0xff) ((x >>> 8) &&& 0xff) (x &&& 0xff) = x := by
  unfold mkARGB
  apply UInt32.eq_of_toBitVec_eq
  apply BitVec.eq_of_getLsbD_eq
  intro i hi
  have e24 : (UInt32.toBitVec 24 % 32).toNat = 24 := by decide
  have e16 : (UInt32.toBitVec 16 % 32).toNat = 16 := by decide
  have e8 : (UInt32.toBitVec 8 % 32).toNat = 8 := by decide
  simp only [UInt32.toBitVec_or, UInt32.toBitVec_and, UInt32.toBitVec_shiftLeft, UInt32.toBitVec_shiftRight,
    BitVec.getLsbD_or, BitVec.getLsbD_and, BitVec.shiftLeft_eq', BitVec.ushiftRight_eq', e24, e16, e8,
    BitVec.getLsbD_shiftLeft, BitVec.getLsbD_ushiftRight, ff_getLsbD]
  by_cases h1 : i < 8
  · have a1 : i < 16 := by omega
    have a2 : i < 24 := by omega
    simp [h1, a1, a2]
  · by_cases h2 : i < 16
    · have a2 : i < 24 := by omega
      have a3 : i - 8 < 8 := by omega
      have a4 : 8 + (i - 8) = i := by omega
      simp [h1, h2, a2, a3, a4, hi]
    · by_cases h3 : i < 24
      · have a3 : i - 16 < 8 := by omega
        have a4 : 16 + (i - 16) = i := by omega
        have a5 : ¬ i - 8 < 8 := by omega
        simp [h1, h2, h3, a3, a4, a5, hi]
      · have a3 : i - 24 < 8 := by omega
        have a4 : 24 + (i - 24) = i := by omega
        have a5 : ¬ i - 8 < 8 := by omega
        have a6 : ¬ i - 16 < 8 := by omega
        simp [h1, h2, h3, a3, a4, a5, a6, hi]

/-- the four channel symbols of a literal reassemble the pixel -/
theorem mkARGB_roundtrip (x : UInt32) :
    mkARGB ((x >>> 24) &&& 0xff).toNat.toUInt32 ((x >>> 16) &&& 0xff).toNat.toUInt32
      ((x >>> 8) &&& 0xff).toNat.toUInt32 (x &&& 0xff).toNat.toUInt32 = x := by
  simp only [Nat.toUInt32_eq, UInt32.ofNat_toNat]
  exact mkARGB_channels x

theorem and_ff_lt (x : UInt32) : (x &&& 0xff).toNat < 256 := by
  rw [UInt32.toNat_and]
  exact Nat.lt_of_le_of_lt Nat.and_le_right (by decide)

/-- a specification token as the encoder's `PixOrCopy` (pixel distances) … -/
def tokenRef : Token → PixOrCopy
  | .literal argb => .literal argb
  | .cache idx => .cacheIdx idx
  | .copy len dist => .copy len dist

/-- … and back -/
def refToken : PixOrCopy → Token
  | .literal argb => .literal argb
  | .cacheIdx idx => .cache idx
  | .copy len dist => .copy len dist

@[simp] theorem refToken_tokenRef (t : Token) : refToken (tokenRef t) = t := by cases t <;> rfl
@[simp] theorem tokenRef_refToken (v : PixOrCopy) : tokenRef (refToken v) = v := by cases v <;> rfl

/-- what `BackwardReferences2DLocality` does to one reference -/
def loc1 (w : Nat) : PixOrCopy → PixOrCopy
  | .copy len dist => .copy len (distanceToPlaneCode w dist)
  | v => v

theorem locality2D_eq (w : Nat) (refs : List PixOrCopy) : locality2D w refs = refs.map (loc1 w) := by
  unfold locality2D
  apply List.map_congr_left
  intro v _
  cases v <;> rfl

/-- the token as `storeImageData` sees it: the copy carries the plane code -/
def tokenRef' (w : Nat) (t : Token) : PixOrCopy := loc1 w (tokenRef t)

/-- a token the five trees `g r b a d` (code lengths) can express, for an image `w` pixels wide -/
def TokenValid (w : Nat) (g r b a d : Array Nat) : Token → Prop
  | .literal argb =>
    g.getD ((argb >>> 8) &&& 0xff).toNat 0 ≠ 0 ∧ r.getD ((argb >>> 16) &&& 0xff).toNat 0 ≠ 0 ∧
    b.getD (argb &&& 0xff).toNat 0 ≠ 0 ∧ a.getD ((argb >>> 24) &&& 0xff).toNat 0 ≠ 0
  | .cache idx => g.getD (256 + 24 + idx) 0 ≠ 0
  | .copy len dist =>
    1 ≤ len ∧ len ≤ 4096 ∧ 1 ≤ dist ∧ distanceToPlaneCode w dist ≤ 2 ^ 20 ∧
    g.getD (256 + (prefixEncode len).1) 0 ≠ 0 ∧
    d.getD (prefixEncode (distanceToPlaneCode w dist)).1 0 ≠ 0

instance (w : Nat) (g r b a d : Array Nat) (t : Token) : Decidable (TokenValid w g r b a d t) := by
  cases t <;> unfold TokenValid <;> infer_instance

/-- the decoder's group for the five encoder vectors -/
structure GroupFor (g r b a d : Array Nat) (grp : Group) : Prop where
  green : VecCode g grp.green
  red : VecCode r grp.red
  blue : VecCode b grp.blue
  alpha : VecCode a grp.alpha
  dist : VecCode d grp.dist

/-- the five trees `storeImageData` uses -/
def treesOf (g r b a d : Array Nat) : TreeGroup := ([g, r, b, a, d].map effTree).toArray

theorem emitRef_copy (codes : TreeGroup) (len dist : Nat) :
    emitRef codes (.copy len dist) =
      writeHuffmanCode (codes.getD 0 default) (256 + (prefixEncode len).1) ++
      (if (prefixEncode len).2.1 > 0 then [((prefixEncode len).2.2, (prefixEncode len).2.1)] else []) ++
      writeHuffmanCode (codes.getD 4 default) (prefixEncode dist).1 ++
      (if (prefixEncode dist).2.1 > 0 then [((prefixEncode dist).2.2, (prefixEncode dist).2.1)] else []) := rfl

/-- **T1, one token**: `readToken` with the decoder's group reads back the token whose calls
    `storeImageData` made -/
theorem token_roundtrip {w : Nat} (hw : 1 ≤ w) {g r b a d : Array Nat} {grp : Group}
    (hg : GroupFor g r b a d grp) (t : Token) (hv : TokenValid w g r b a d t)
    (br : BitReader) (rest : List Bool)
    (hb : restBits br = callsBits (emitRef (treesOf g r b a d) (tokenRef' w t)) ++ rest) :
    ∃ br', readToken grp w br = .ok (t, br') ∧ restBits br' = rest ∧ br'.data = br.data := by
  have t0 : (treesOf g r b a d).getD 0 default = effTree g := rfl
  have t1 : (treesOf g r b a d).getD 1 default = effTree r := rfl
  have t2 : (treesOf g r b a d).getD 2 default = effTree b := rfl
  have t3 : (treesOf g r b a d).getD 3 default = effTree a := rfl
  have t4 : (treesOf g r b a d).getD 4 default = effTree d := rfl
  cases t with
  | literal argb =>
    obtain ⟨vg, vr, vb, va⟩ := hv
    simp only [tokenRef', tokenRef, loc1, emitRef, t0, t1, t2, t3, VP8LEntropyCodeLengths.callsBits_append,
      List.append_assoc] at hb
    obtain ⟨br1, r1, b1, d1⟩ := sym_read hg.green _ vg br _ hb
    obtain ⟨br2, r2, b2, d2⟩ := sym_read hg.red _ vr br1 _ b1
    obtain ⟨br3, r3, b3, d3⟩ := sym_read hg.blue _ vb br2 _ b2
    obtain ⟨br4, r4, b4, d4⟩ := sym_read hg.alpha _ va br3 _ b3
    refine ⟨br4, ?_, b4, by rw [d4, d3, d2, d1]⟩
    unfold readToken
    rw [r1]
    simp only [Webp.Go.Res.bind_ok]
    rw [if_pos (by simpa [numLiteralCodes] using and_ff_lt (argb >>> 8)), r2]
    simp only [Webp.Go.Res.bind_ok]
    rw [r3]
    simp only [Webp.Go.Res.bind_ok]
    rw [r4]
    simp only [Webp.Go.Res.bind_ok, Webp.Go.Res.pure_eq]
    rw [mkARGB_roundtrip]
  | cache idx =>
    simp only [tokenRef', tokenRef, loc1, emitRef, t0] at hb
    obtain ⟨br1, r1, b1, d1⟩ := sym_read hg.green _ hv br _ hb
    refine ⟨br1, ?_, b1, d1⟩
    unfold readToken
    rw [r1]
    simp only [Webp.Go.Res.bind_ok]
    rw [if_neg (by simp only [numLiteralCodes]; omega),
      if_neg (by simp only [numLiteralCodes, numLengthCodes]; omega)]
    simp only [Webp.Go.Res.pure_eq, numLiteralCodes, numLengthCodes]
    rw [Nat.add_sub_cancel_left]
  | copy len dist =>
    obtain ⟨hl1, hl2, hd1, hd2, vg, vd⟩ := hv
    obtain ⟨hp1, hp2⟩ := planeCode_read w dist hw hd1
    have hlen := (Webp.Props.C01.prefixValue_symbol_bounds len hl1).2 hl2
    simp only [tokenRef', tokenRef, loc1, emitRef_copy, t0, t4, VP8LEntropyCodeLengths.callsBits_append,
      List.append_assoc] at hb
    obtain ⟨br1, r1, b1, d1⟩ := sym_read hg.green _ vg br _ hb
    obtain ⟨br2, r2, b2, d2⟩ := prefixValue_read len hl1 br1 _ b1
    obtain ⟨br3, r3, b3, d3⟩ := sym_read hg.dist _ vd br2 _ b2
    obtain ⟨br4, r4, b4, d4⟩ := prefixValue_read _ hp1 br3 _ b3
    refine ⟨br4, ?_, b4, by rw [d4, d3, d2, d1]⟩
    unfold readToken
    rw [r1]
    simp only [Webp.Go.Res.bind_ok]
    rw [if_neg (by simp only [numLiteralCodes]; omega),
      if_pos (by simp only [numLiteralCodes, numLengthCodes]; omega)]
    simp only [numLiteralCodes]
    rw [Nat.add_sub_cancel_left, r2]
    simp only [Webp.Go.Res.bind_ok]
    rw [r3]
    simp only [Webp.Go.Res.bind_ok]
    rw [r4]
    simp only [Webp.Go.Res.bind_ok, Webp.Go.Res.pure_eq]
    rw [hp2]

/-! ## E. token lists -/

/-- with a single histogram `storeImageData` is the concatenation of the tokens' calls (the position
    bookkeeping `x, y` only selects the histogram) -/
theorem storeImageDataLoop_single (trees : TreeGroup) (w : Nat) (vs : List PixOrCopy) (x y : Nat) :
    storeImageDataLoop #[0] #[trees] w 0 vs x y = vs.flatMap (emitRef trees) := by
  induction vs generalizing x y with
  | nil => rfl
  | cons v rest ih =>
    rw [storeImageDataLoop]
    simp only [List.flatMap_cons]
    rw [ih]
    rfl

theorem storeImageData_single (trees : TreeGroup) (w : Nat) (vs : List PixOrCopy) :
    storeImageData vs #[0] #[trees] w 0 = vs.flatMap (emitRef trees) :=
  storeImageDataLoop_single trees w vs 0 0

/-- the calls of a token list -/
def tokensCalls (w : Nat) (g r b a d : Array Nat) (toks : List Token) : List Call :=
  toks.flatMap fun t => emitRef (treesOf g r b a d) (tokenRef' w t)

theorem storeImageData_tokens (w : Nat) (g r b a d : Array Nat) (toks : List Token) :
    storeImageData (locality2D w (toks.map tokenRef)) #[0] #[treesOf g r b a d] w 0 =
      tokensCalls w g r b a d toks := by
  rw [storeImageData_single, locality2D_eq, List.map_map, List.flatMap_map]
  rfl

theorem storeImageData_refs (w : Nat) (g r b a d : Array Nat) (refs : List PixOrCopy) :
    storeImageData (locality2D w refs) #[0] #[treesOf g r b a d] w 0 =
      tokensCalls w g r b a d (refs.map refToken) := by
  rw [← storeImageData_tokens, List.map_map]
  congr 2
  conv => lhs; rw [← List.map_id refs]
  apply List.map_congr_left
  intro v _
  simp

/-- single group, no meta prefix image: the specification's token source reads with `grp` everywhere -/
theorem specSource_next (ep : EntropyParams) (grp : Group) (hgr : ep.groups = #[grp]) (hpb : ep.prefixBits = 0)
    (n : Nat) (br : BitReader) :
    (specSource ep).next (groupIndexAt ep n) br = readToken grp ep.width br := by
  obtain ⟨width, height, cacheBits, prefixBits, entropy, groups⟩ := ep
  simp only at hgr hpb
  subst hgr hpb
  rfl

/-- **the specification's token source on the encoder's bits behaves like `listSource` on the token
    list** (one step) -/
theorem specSource_step {w : Nat} (hw : 1 ≤ w) {g r b a d : Array Nat} {grp : Group}
    (hg : GroupFor g r b a d grp) (ep : EntropyParams) (hgr : ep.groups = #[grp]) (hpb : ep.prefixBits = 0)
    (hwid : ep.width = w) (t : Token) (ts : List Token) (hv : TokenValid w g r b a d t)
    (n : Nat) (br : BitReader) (rest : List Bool)
    (hb : restBits br = callsBits (tokensCalls w g r b a d (t :: ts)) ++ rest) :
    listSource.next 0 (t :: ts) = .ok (t, ts) ∧
    ∃ br', (specSource ep).next (groupIndexAt ep n) br = .ok (t, br') ∧
      restBits br' = callsBits (tokensCalls w g r b a d ts) ++ rest ∧ br'.data = br.data := by
  refine ⟨rfl, ?_⟩
  rw [specSource_next ep grp hgr hpb, hwid]
  simp only [tokensCalls, List.flatMap_cons, VP8LEntropyCodeLengths.callsBits_append, List.append_assoc] at hb
  exact token_roundtrip hw hg t hv br _ hb

/-- the reference loop over the specification's source follows the reference loop over the list -/
theorem refLoop_tokens {w : Nat} (hw : 1 ≤ w) {g r b a d : Array Nat} {grp : Group}
    (hg : GroupFor g r b a d grp) (ep : EntropyParams) (hgr : ep.groups = #[grp]) (hpb : ep.prefixBits = 0)
    (hwid : ep.width = w) (npix cb : Nat) (rest : List Bool) (px : Array UInt32) :
    ∀ (fuel : Nat) (toks : List Token) (out cache : Array UInt32) (br : BitReader),
      (∀ t ∈ toks, TokenValid w g r b a d t) →
      restBits br = callsBits (tokensCalls w g r b a d toks) ++ rest →
      refLoop listSource (fun _ => 0) npix cb fuel out cache toks = .ok (px, []) →
      ∃ br', refLoop (specSource ep) (groupIndexAt ep) npix cb fuel out cache br = .ok (px, br') ∧
        restBits br' = rest ∧ br'.data = br.data := by
  intro fuel
  induction fuel with
  | zero => intro toks out cache br _ _ h; cases h
  | succ fuel ih =>
    intro toks out cache br hv hb hl
    rw [VP8LEntropyLoop.refLoop_succ] at hl ⊢
    by_cases hdone : out.size ≥ npix
    · rw [if_pos hdone] at hl ⊢
      injection hl with hl
      injection hl with h1 h2
      subst h1 h2
      exact ⟨br, rfl, by simpa [tokensCalls, callsBits_nil] using hb, rfl⟩
    · rw [if_neg hdone] at hl ⊢
      cases toks with
      | nil => cases hl
      | cons t ts =>
        obtain ⟨_, br1, r1, b1, d1⟩ := specSource_step hw hg ep hgr hpb hwid t ts
          (hv t List.mem_cons_self) out.size br rest hb
        rw [r1]
        have hl' : (match execToken npix cb t out cache with
            | .ok (out, cache) => refLoop listSource (fun _ => 0) npix cb fuel out cache ts
            | .err e => .err e
            | .panic => .panic
            | .hang => .hang) = .ok (px, []) := hl
        simp only
        cases he : execToken npix cb t out cache with
        | ok oc =>
          obtain ⟨out', cache'⟩ := oc
          rw [he] at hl'
          obtain ⟨br', r', b', d'⟩ := ih ts out' cache' br1
            (fun t' ht' => hv t' (List.mem_cons_of_mem _ ht')) b1 hl'
          exact ⟨br', r', b', by rw [d', d1]⟩
        | err e => rw [he] at hl'; cases hl'
        | panic => rw [he] at hl'; cases hl'
        | hang => rw [he] at hl'; cases hl'

/-- **T1** `tokens_roundtrip`: the pixel data `storeImageData` writes for a token list (single
    histogram, after `BackwardReferences2DLocality`) is decoded by the specification's `decodePixels`
    — with the group the decoder reconstructs — to exactly what the reference loop over the token
    LIST yields, and the reader stops right after the pixel data. -/
theorem tokens_roundtrip {w h cb : Nat} (hw : 1 ≤ w) {g r b a d : Array Nat} {grp : Group}
    (hg : GroupFor g r b a d grp) (toks : List Token) (hv : ∀ t ∈ toks, TokenValid w g r b a d t)
    (br : BitReader) (rest : List Bool) (px : Array UInt32)
    (hb : restBits br =
      callsBits (storeImageData (locality2D w (toks.map tokenRef)) #[0] #[treesOf g r b a d] w 0) ++ rest)
    (hpx : refDecode listSource (fun _ => 0) w h cb toks = .ok (px, [])) :
    ∃ br', decodePixels { width := w, height := h, cacheBits := cb, groups := #[grp] } br = .ok (px, br') ∧
      restBits br' = rest ∧ br'.data = br.data := by
  rw [VP8LEntropyLoop.refDecode_spec]
  rw [storeImageData_tokens] at hb
  exact refLoop_tokens hw hg _ rfl rfl rfl _ _ rest px _ toks _ _ br hv hb hpx

end Webp.Proofs.VP8LEntropyTokens
