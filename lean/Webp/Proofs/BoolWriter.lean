import Webp.Proofs.BoolWriterBasic
/-
  C1, part 2: the Go writer refines the ideal encoder.

  `WInv w s q` : the writer `w` represents the ideal encoder state `s`; `q = nbBits + 8`.
  The emitted bytes, followed by the pending run of 0xff bytes and by `value`, denote `low`:
      low = ((beNum buf + 1)·256^run − 1) · 2^(q+8) + value            (`hlow`, written without `−`)
  `value` may exceed `2^(q+8)` (a pending carry), but `value + range ≤ 3·2^(q+7)` (`hval`), so the
  nine bits `flush` takes are at most `0x17f`: a carry never comes with a low byte `0xff`.
-/
namespace Webp.Proofs.BoolWriter
open Webp.Go (Bytes)
open Webp.Impl.BoolCoder
open Webp.Spec.VP8.BoolIdeal
open Webp.Proofs.BoolIdeal

structure WInv (w : BoolWriter) (s : Enc) (q : Nat) : Prop where
  np : w.panicked = false
  rng : Rng s
  hr : w.range + 1 = s.range
  hq : w.nbBits = (q : Int) - 8
  hk : 8 * (w.buf.length + w.run) + q = s.k
  hlow : s.low + 2 ^ (q + 8) = (beNum w.buf + 1) * 256 ^ w.run * 2 ^ (q + 8) + w.value
  hval : w.value + s.range ≤ 3 * 2 ^ (q + 7)
  htop : s.low + s.range ≤ 2 ^ (s.k + 8)
  hlast : ∀ b, w.buf.getLast? = some b → b ≠ 255
  hq0 : q = 0 → s.k = 0
  h255 : s.range = 255 → q = 0

theorem winv_init : WInv newWriter {} 0 := by
  refine ⟨rfl, rng_init, rfl, rfl, rfl, ?_, ?_, ?_, ?_, fun _ => rfl, fun _ => rfl⟩
  · show 0 + 2 ^ 8 = (beNum [] + 1) * 256 ^ 0 * 2 ^ 8 + 0
    rw [beNum_nil]; norm_num
  · show 0 + 255 ≤ 3 * 2 ^ 7
    norm_num
  · show 0 + 255 ≤ 2 ^ 8
    norm_num
  · intro b h; simp [newWriter] at h

/-- `PutBit` up to (not including) the call of `flush` -/
def stepNoFlush (w : BoolWriter) (b : Bool) (p : Nat) : BoolWriter :=
  let split := (w.range * p) >>> 8
  let value := if b then w.value + (split + 1) else w.value
  let range := if b then w.range - (split + 1) else split
  if range < 127 then
    { w with range := kNewRange.getD range 0, value := value <<< kNorm.getD range 0,
             nbBits := w.nbBits + kNorm.getD range 0 }
  else { w with range, value }

theorem putBit_eq (w : BoolWriter) (b : Bool) (p : Nat) (hnp : w.panicked = false)
    (hsplit : (w.range * p) >>> 8 < w.range) (hnb : w.nbBits ≤ 0) :
    putBit w b p = if (stepNoFlush w b p).nbBits > 0 then flush (stepNoFlush w b p) else stepNoFlush w b p := by
  unfold putBit stepNoFlush
  have h1 : ¬ (w.range < (w.range * p) >>> 8 + 1) := by omega
  simp only [hnp, Bool.false_eq_true, if_false, h1, decide_false, Bool.and_false]
  split_ifs <;> first | rfl | (exfalso; simp at *; omega)

/-- the value register before normalisation -/
def preVal (w : BoolWriter) (s : Enc) (b : Bool) (p : Nat) : Nat :=
  if b then w.value + split s.range p else w.value

theorem stepNoFlush_eq {w : BoolWriter} {s : Enc} (hs : Rng s) (hr : w.range + 1 = s.range)
    (b : Bool) {p : Nat} (hp : p ≤ 255) :
    stepNoFlush w b p =
      { w with range := preRange s b p * 2 ^ normShift (preRange s b p) - 1,
               value := preVal w s b p * 2 ^ normShift (preRange s b p),
               nbBits := w.nbBits + normShift (preRange s b p) } := by
  have ⟨hp1, hp2⟩ := preRange_bounds hs b hp
  have hsplit : split s.range p = (w.range * p) >>> 8 + 1 := by
    unfold split; rw [← hr]; simp; omega
  have hlt := split_lt (r := s.range) (p := p) (by have := hs.1; omega) hp
  have hrange1 : (if b then w.range - ((w.range * p) >>> 8 + 1) else (w.range * p) >>> 8) + 1 = preRange s b p := by
    unfold preRange; rw [hsplit]; cases b <;> simp <;> omega
  have hval1 : (if b then w.value + ((w.range * p) >>> 8 + 1) else w.value) = preVal w s b p := by
    unfold preVal; rw [hsplit]
  unfold stepNoFlush
  simp only [hval1]
  generalize hr1 : (if b then w.range - ((w.range * p) >>> 8 + 1) else (w.range * p) >>> 8) = r1 at hrange1
  rw [← hrange1]
  by_cases hlt127 : r1 < 127
  · obtain ⟨t1, t2⟩ := tables r1 hlt127
    simp only [hlt127, if_true, t1, Nat.shiftLeft_eq]
    congr 1
    omega
  · have hz : normShift (r1 + 1) = 0 := normShift_zero_of_ge (by omega)
    simp only [hlt127, if_false, hz, pow_zero, Nat.mul_one]
    congr 1
    omega

/-- Lemma A: encoding without the flush keeps the invariant (with a larger `q`) -/
theorem stepNoFlush_inv {w : BoolWriter} {s : Enc} {q : Nat} (h : WInv w s q) (b : Bool) {p : Nat}
    (hp : p ≤ 255) :
    WInv (stepNoFlush w b p) (s.put b p) (q + normShift (preRange s b p)) := by
  rw [stepNoFlush_eq h.rng h.hr b hp]
  have ⟨hp1, hp2⟩ := preRange_bounds h.rng b hp
  have ⟨hn1, hn2⟩ := normShift_spec hp1 (by omega : preRange s b p ≤ 255)
  have hnest := pre_nest s h.rng b hp
  set sh := normShift (preRange s b p) with hsh
  have hput : s.put b p = { low := preLow s b p * 2 ^ sh, range := preRange s b p * 2 ^ sh, k := s.k + sh } := rfl
  have hlt := split_lt (r := s.range) (p := p) (by have := h.rng.1; omega) hp
  have hpv : preLow s b p + 2 ^ (q + 8) = (beNum w.buf + 1) * 256 ^ w.run * 2 ^ (q + 8) + preVal w s b p := by
    have := h.hlow
    unfold preLow preVal; cases b <;> simp <;> omega
  have hpv2 : preVal w s b p + preRange s b p ≤ 3 * 2 ^ (q + 7) := by
    have := h.hval
    unfold preVal preRange; cases b <;> simp <;> omega
  refine ⟨h.np, put_rng h.rng b hp, ?_, ?_, ?_, ?_, ?_, put_top h.rng b hp h.htop, h.hlast, ?_, ?_⟩
  · show preRange s b p * 2 ^ sh - 1 + 1 = (s.put b p).range
    rw [hput]; show _ = preRange s b p * 2 ^ sh; omega
  · show w.nbBits + (sh : Int) = ((q + sh : Nat) : Int) - 8
    have := h.hq; push_cast; omega
  · show 8 * (w.buf.length + w.run) + (q + sh) = s.k + sh
    have := h.hk; omega
  · show preLow s b p * 2 ^ sh + 2 ^ (q + sh + 8)
        = (beNum w.buf + 1) * 256 ^ w.run * 2 ^ (q + sh + 8) + preVal w s b p * 2 ^ sh
    have e : 2 ^ (q + sh + 8) = 2 ^ (q + 8) * 2 ^ sh := by rw [← pow_add]; congr 1; omega
    rw [e]
    calc preLow s b p * 2 ^ sh + 2 ^ (q + 8) * 2 ^ sh = (preLow s b p + 2 ^ (q + 8)) * 2 ^ sh := by ring
      _ = ((beNum w.buf + 1) * 256 ^ w.run * 2 ^ (q + 8) + preVal w s b p) * 2 ^ sh := by rw [hpv]
      _ = _ := by ring
  · show preVal w s b p * 2 ^ sh + preRange s b p * 2 ^ sh ≤ 3 * 2 ^ (q + sh + 7)
    have e : 2 ^ (q + sh + 7) = 2 ^ (q + 7) * 2 ^ sh := by rw [← pow_add]; congr 1; omega
    rw [e, ← Nat.add_mul, ← Nat.mul_assoc]
    exact Nat.mul_le_mul_right _ hpv2
  · intro h0
    have hq00 : q = 0 := by omega
    have hs0 : sh = 0 := by omega
    show s.k + sh = 0
    rw [hs0, h.hq0 hq00]
  · intro h255
    have := put_range_le_254 h.rng b hp
    omega

/-! ### `flush` -/

theorem run_append (buf : Bytes) (run : Nat) (c : UInt8) :
    (if run > 0 then buf ++ List.replicate run c else buf) = buf ++ List.replicate run c := by
  by_cases h : run > 0
  · simp [h]
  · have : run = 0 := by omega
    simp [this]

/-- the number denoted after emitting the pending run and a byte, no carry -/
theorem beNum_emit (buf : Bytes) (run : Nat) (c : UInt8) :
    beNum (buf ++ List.replicate run 0xff ++ [c]) + 256 = (beNum buf + 1) * 256 ^ run * 256 + c.toNat := by
  rw [beNum_append, beNum_append, beNum_single, List.length_replicate]
  have := beNum_replicate_ff run
  simp only [List.length_singleton, pow_one]
  have e : (beNum buf + 1) * 256 ^ run * 256 = (beNum buf * 256 ^ run + 256 ^ run) * 256 := by ring
  rw [e]
  clear e
  generalize beNum buf * 256 ^ run = a at *
  generalize 256 ^ run = P at *
  generalize beNum (List.replicate run (0xff : UInt8)) = R at *
  generalize c.toNat = cc at *
  omega

/-- ... with a carry into the emitted bytes -/
theorem beNum_emit_carry (buf : Bytes) (run : Nat) (c : UInt8) (hne : buf ≠ [])
    (hlast : ∀ b, buf.getLast? = some b → b ≠ 255) :
    beNum (incrLast buf ++ List.replicate run 0x00 ++ [c]) = (beNum buf + 1) * 256 ^ run * 256 + c.toNat := by
  rw [beNum_append, beNum_append, beNum_single, List.length_replicate, beNum_incrLast buf hne hlast,
    beNum_replicate_zero]
  simp

theorem pow256 (n : Nat) : 256 ^ n = 2 ^ (8 * n) := by
  rw [pow_mul]; norm_num

/-- Lemma B: `flush` keeps the invariant (`q` drops by 8) and leaves no pending carry -/
theorem flush_inv {w : BoolWriter} {s : Enc} {q : Nat} (h : WInv w s q) (h9 : 9 ≤ q) :
    WInv (flush w) s (q - 8) ∧ (flush w).value < 2 ^ q := by
  have hs : (8 : Int) + w.nbBits = (q : Int) := by have := h.hq; omega
  have hnneg : ¬ ((q : Int) < 0) := by omega
  -- arithmetic facts
  set T := 2 ^ q with hT
  have hTpos : 0 < T := Nat.two_pow_pos q
  have hT8 : 2 ^ (q + 8) = 256 * T := by rw [pow_add]; norm_num; ring
  have hT7 : 2 ^ (q + 7) = 128 * T := by rw [pow_add]; norm_num; ring
  have hTm : 2 ^ (q - 8 + 7) = 2 ^ (q - 1) := by congr 1; omega
  have hT1 : T = 2 * 2 ^ (q - 1) := by rw [hT, ← pow_succ']; congr 1; omega
  have h256 : 256 ≤ 2 ^ (q - 1) := by
    have : 2 ^ 8 ≤ 2 ^ (q - 1) := Nat.pow_le_pow_right (by norm_num) (by omega)
    simpa using this
  set bits := w.value / T with hbits
  set v0 := w.value % T with hv0
  have hdm : w.value = bits * T + v0 := by rw [hbits, hv0, Nat.mul_comm]; exact (Nat.div_add_mod _ _).symm
  have hv0lt : v0 < T := Nat.mod_lt _ hTpos
  have hbitslt : bits < 384 := by
    rw [hbits, Nat.div_lt_iff_lt_mul hTpos]
    have := h.hval; rw [hT7] at this; have := h.rng.1; omega
  have hlow := h.hlow
  rw [hT8] at hlow
  set X := (beNum w.buf + 1) * 256 ^ w.run with hX
  have hXpos : 1 ≤ X := Nat.mul_pos (by omega) (Nat.pos_of_ne_zero (by positivity))
  have hlow2 : s.low + 256 * T = 256 * (X * T) + bits * T + v0 := by
    rw [hlow, hdm]; ring
  have hXT : T ≤ X * T := Nat.le_mul_of_pos_left _ hXpos
  have hbits' : w.value / T = bits := hbits.symm
  have hT' : 2 ^ q = T := hT.symm
  -- the definition
  have hfl : flush w =
      if bits &&& 0xff ≠ 0xff then
        { w with value := v0, nbBits := w.nbBits - 8, run := 0,
                 buf := (if (decide (bits &&& 0x100 ≠ 0)) = true then incrLast w.buf else w.buf)
                          ++ List.replicate w.run (if (decide (bits &&& 0x100 ≠ 0)) = true then (0x00 : UInt8) else 0xff)
                          ++ [UInt8.ofNat (bits &&& 0xff)] }
      else { w with value := v0, nbBits := w.nbBits - 8, run := w.run + 1 } := by
    have hval' : w.value - (w.value >>> q) <<< q = v0 := by
      rw [Nat.shiftRight_eq_div_pow, Nat.shiftLeft_eq, ← hT, ← hbits]; omega
    unfold flush
    simp only [hs, hnneg, if_false, Int.toNat_natCast, hval', run_append]
    rw [Nat.shiftRight_eq_div_pow, ← hT, ← hbits]
  clear_value bits v0 X T
  rw [hfl, and_ff bits (by omega)]
  have hc := and_100 bits (by omega)
  have hq' : w.nbBits - 8 = ((q - 8 : Nat) : Int) - 8 := by have := h.hq; omega
  have hval' : v0 + s.range ≤ 3 * 2 ^ (q - 8 + 7) := by
    rw [hTm]; have := h.rng.2; omega
  by_cases hff : bits % 256 = 255
  · -- delay the 0xff byte
    have hb : bits = 255 := by omega
    simp only [hff, ne_eq, not_true_eq_false, if_false]
    refine ⟨⟨h.np, h.rng, h.hr, hq', ?_, ?_, hval', h.htop, h.hlast, by omega, fun h5 => by have := h.h255 h5; omega⟩, hv0lt⟩
    · show 8 * (w.buf.length + (w.run + 1)) + (q - 8) = s.k
      have := h.hk; omega
    · show s.low + 2 ^ (q - 8 + 8) = (beNum w.buf + 1) * 256 ^ (w.run + 1) * 2 ^ (q - 8 + 8) + v0
      have e1 : q - 8 + 8 = q := by omega
      rw [e1, ← hT, pow_succ]
      have e2 : (beNum w.buf + 1) * (256 ^ w.run * 256) * T = 256 * (X * T) := by rw [hX]; ring
      rw [e2]; rw [hb] at hlow2; omega
  · simp only [hff, ne_eq, not_false_eq_true, if_true]
    have hbyte : (UInt8.ofNat (bits % 256)).toNat = bits % 256 := by
      rw [UInt8.toNat_ofNat']; omega
    have hlast' : ∀ (l : Bytes) b, (l ++ [UInt8.ofNat (bits % 256)]).getLast? = some b → b ≠ 255 := by
      intro l b hb
      simp at hb
      intro h255; rw [← hb] at h255
      have : (UInt8.ofNat (bits % 256)).toNat = 255 := by rw [h255]; rfl
      omega
    have e1 : q - 8 + 8 = q := by omega
    by_cases hcarry : 256 ≤ bits
    · -- carry into the emitted bytes
      have hcd : decide (bits &&& 0x100 ≠ 0) = true := by simpa using hc.mpr hcarry
      simp only [hcd, if_true]
      have hne : w.buf ≠ [] := by
        intro hnil
        have htop := h.htop
        have hk := h.hk
        rw [hnil] at hk hX
        simp only [List.length_nil, Nat.zero_add, beNum_nil, Nat.one_mul] at hk hX
        have e3 : 2 ^ (s.k + 8) = 256 * (X * T) := by
          rw [← hk, hX, pow256, hT, ← pow_add]
          have : (256 : Nat) = 2 ^ 8 := by norm_num
          rw [this, ← pow_add]; congr 1; omega
        have hbT : 256 * T ≤ bits * T := Nat.mul_le_mul_right _ hcarry
        have := h.rng.1
        omega
      refine ⟨⟨h.np, h.rng, h.hr, hq', ?_, ?_, hval', h.htop, hlast' _, by omega, fun h5 => by have := h.h255 h5; omega⟩, hv0lt⟩
      · show 8 * ((incrLast w.buf ++ List.replicate w.run 0x00 ++ [UInt8.ofNat (bits % 256)]).length + 0) + (q - 8) = s.k
        have := h.hk
        simp only [List.length_append, List.length_replicate, List.length_singleton, incrLast_length]
        omega
      · show s.low + 2 ^ (q - 8 + 8) = (beNum (incrLast w.buf ++ List.replicate w.run 0x00 ++ [UInt8.ofNat (bits % 256)]) + 1) * 256 ^ 0 * 2 ^ (q - 8 + 8) + v0
        rw [e1, ← hT, beNum_emit_carry _ _ _ hne h.hlast, hbyte, ← hX, pow_zero, Nat.mul_one]
        have e2 : (X * 256 + bits % 256 + 1) * T = 256 * (X * T) + (bits % 256) * T + T := by ring
        rw [e2]
        have e4 : bits * T = 256 * T + (bits % 256) * T := by
          have : bits = 256 + bits % 256 := by omega
          conv_lhs => rw [this]
          ring
        omega
    · have hcd : decide (bits &&& 0x100 ≠ 0) = false := by
        simp only [decide_eq_false_iff_not]; intro hh; exact hcarry (hc.mp hh)
      simp only [hcd, Bool.false_eq_true, if_false]
      refine ⟨⟨h.np, h.rng, h.hr, hq', ?_, ?_, hval', h.htop, hlast' _, by omega, fun h5 => by have := h.h255 h5; omega⟩, hv0lt⟩
      · show 8 * ((w.buf ++ List.replicate w.run 0xff ++ [UInt8.ofNat (bits % 256)]).length + 0) + (q - 8) = s.k
        have := h.hk
        simp only [List.length_append, List.length_replicate, List.length_singleton]
        omega
      · show s.low + 2 ^ (q - 8 + 8) = (beNum (w.buf ++ List.replicate w.run 0xff ++ [UInt8.ofNat (bits % 256)]) + 1) * 256 ^ 0 * 2 ^ (q - 8 + 8) + v0
        rw [e1, ← hT, pow_zero, Nat.mul_one]
        have hem := beNum_emit w.buf w.run (UInt8.ofNat (bits % 256))
        rw [hbyte, ← hX] at hem
        have hb : bits % 256 = bits := by omega
        -- beNum … + 256 = X*256 + bits
        generalize beNum (w.buf ++ List.replicate w.run 0xff ++ [UInt8.ofNat (bits % 256)]) = N at hem ⊢
        rw [hb] at hem
        have e2 : (N + 1) * T + 256 * T = (N + 256) * T + T := by ring
        have e3 : (N + 256) * T = 256 * (X * T) + bits * T := by rw [hem]; ring
        omega

/-! ### one `PutBit` -/

/-- `q` after a symbol that shifts by `sh` -/
def nextQ (q sh : Nat) : Nat := if q + sh ≤ 8 then q + sh else q + sh - 8

theorem nextQ_le {q sh : Nat} (hq : q ≤ 8) (hsh : sh ≤ 7) : nextQ q sh ≤ 8 := by
  unfold nextQ; split_ifs <;> omega

theorem putBit_eq' {w : BoolWriter} {s : Enc} {q : Nat} (h : WInv w s q) (hq8 : q ≤ 8) (b : Bool) {p : Nat}
    (hp : p ≤ 255) :
    putBit w b p = if 9 ≤ q + normShift (preRange s b p) then flush (stepNoFlush w b p) else stepNoFlush w b p := by
  have hlt := split_lt (r := s.range) (p := p) (by have := h.rng.1; omega) hp
  have hsplit : (w.range * p) >>> 8 < w.range := by
    unfold split at hlt; rw [← h.hr] at hlt; simp at hlt; have := h.hr; omega
  rw [putBit_eq w b p h.np hsplit (by have := h.hq; omega)]
  have hnb := (stepNoFlush_inv h b hp).hq
  by_cases h9 : 9 ≤ q + normShift (preRange s b p)
  · have : (stepNoFlush w b p).nbBits > 0 := by rw [hnb]; push_cast; omega
    simp [this, h9]
  · have : ¬ (stepNoFlush w b p).nbBits > 0 := by rw [hnb]; push_cast; omega
    simp [this, h9]

/-- **One `PutBit` refines one ideal encoder step.** -/
theorem putBit_inv {w : BoolWriter} {s : Enc} {q : Nat} (h : WInv w s q) (hq8 : q ≤ 8) (b : Bool) {p : Nat}
    (hp : p ≤ 255) :
    WInv (putBit w b p) (s.put b p) (nextQ q (normShift (preRange s b p))) := by
  rw [putBit_eq' h hq8 b hp]
  have hA := stepNoFlush_inv h b hp
  unfold nextQ
  by_cases h9 : 9 ≤ q + normShift (preRange s b p)
  · have : ¬ (q + normShift (preRange s b p) ≤ 8) := by omega
    simp only [h9, this, if_true, if_false]
    exact (flush_inv hA h9).1
  · have : q + normShift (preRange s b p) ≤ 8 := by omega
    simp only [h9, this, if_true, if_false]
    exact hA

/-- coding a 0 never creates a pending carry, and a flush clears it -/
theorem putBit_false_nc {w : BoolWriter} {s : Enc} {q : Nat} (h : WInv w s q) (hq8 : q ≤ 8) {p : Nat}
    (hp : p ≤ 255) (hnc : w.value < 2 ^ (q + 8) ∨ 9 ≤ q + normShift (preRange s false p)) :
    (putBit w false p).value < 2 ^ (nextQ q (normShift (preRange s false p)) + 8) := by
  rw [putBit_eq' h hq8 false hp]
  have hA := stepNoFlush_inv h false hp
  unfold nextQ
  by_cases h9 : 9 ≤ q + normShift (preRange s false p)
  · have : ¬ (q + normShift (preRange s false p) ≤ 8) := by omega
    simp only [h9, this, if_true, if_false]
    have := (flush_inv hA h9).2
    have e : q + normShift (preRange s false p) - 8 + 8 = q + normShift (preRange s false p) := by omega
    rw [e]; exact this
  · have h8 : q + normShift (preRange s false p) ≤ 8 := by omega
    simp only [h9, h8, if_true, if_false]
    rw [stepNoFlush_eq h.rng h.hr false hp]
    show preVal w s false p * 2 ^ normShift (preRange s false p) < _
    have hv : w.value < 2 ^ (q + 8) := by rcases hnc with h1 | h1; exact h1; omega
    have e : 2 ^ (q + normShift (preRange s false p) + 8) = 2 ^ (q + 8) * 2 ^ normShift (preRange s false p) := by
      rw [← pow_add]; congr 1; omega
    rw [e]
    exact Nat.mul_lt_mul_of_pos_right hv (Nat.two_pow_pos _)

/-- **C1: the Go writer refines the ideal encoder** (any number of `PutBit`s with `prob ≤ 255`). -/
theorem putAll_inv {ps : List (Bool × Nat)} (hv : Valid ps) {w : BoolWriter} {s : Enc} {q : Nat}
    (h : WInv w s q) (hq8 : q ≤ 8) :
    ∃ q', q' ≤ 8 ∧ WInv (ps.foldl (fun w p => putBit w p.1 p.2) w) (s.putAll ps) q' := by
  induction ps generalizing w s q with
  | nil => exact ⟨q, hq8, h⟩
  | cons a ps ih =>
    have ha : a.2 ≤ 255 := hv a (by simp)
    rw [List.foldl_cons, putAll_cons]
    exact ih (fun p hp => hv p (by simp [hp])) (putBit_inv h hq8 a.1 ha)
      (nextQ_le hq8 (normShift_le _))

/-- no `int32` operation of `PutBit`/`flush` overflows: the value register stays below `2^24`
    between calls (and below `2^31` inside a call, where it is at most `2^7` times larger) -/
theorem value_lt {w : BoolWriter} {s : Enc} {q : Nat} (h : WInv w s q) (hq8 : q ≤ 8) : w.value < 2 ^ 24 := by
  have h1 := h.hval
  have h2 : 2 ^ (q + 7) ≤ 2 ^ 15 := Nat.pow_le_pow_right (by norm_num) (by omega)
  have : (2:Nat) ^ 15 = 32768 := by norm_num
  have : (2:Nat) ^ 24 = 16777216 := by norm_num
  omega

end Webp.Proofs.BoolWriter
