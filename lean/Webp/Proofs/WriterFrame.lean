import Webp.Proofs.WriterRead
import Webp.Spec.VP8Layout
/-
  `lossy.assembleFrame` against the VP8 frame layout (RFC 6386 §9.1, §9.5).
-/
namespace Webp.Impl.Writer
open Webp.Go
open Webp.Spec.VP8Layout (cutParts splitFrame)
set_option maxHeartbeats 400000

theorem low24_length (v : Nat) : (low24 v).length = 3 := rfl

theorem le24_low24 (v : Nat) (rest : Bytes) : le24 (low24 v ++ rest) 0 = v % 16777216 := by
  unfold le24 low24
  show byteAt (_ :: _ :: _ :: rest) 0 + byteAt (_ :: _ :: _ :: rest) 1 * 256 +
    byteAt (_ :: _ :: _ :: rest) 2 * 65536 = _
  rw [byteAt_cons_zero, byteAt_cons_succ, byteAt_cons_zero, byteAt_cons_succ, byteAt_cons_succ,
    byteAt_cons_zero, toNat_ofNat_mod, toNat_ofNat_mod, toNat_ofNat_mod]
  omega

/-- the frame tag in arithmetic form: bit 4 (show) plus the 27 low bits of the length, shifted -/
theorem frameTag_eq (n : Nat) : frameTag n = 16 + n % 134217728 * 32 := by
  unfold frameTag u32
  have e1 : (0 ||| (0 <<< 1) ||| (1 <<< 4)) = 16 := by decide
  have e2 : (n % 4294967296) <<< 5 % 4294967296 = (n % 134217728) <<< 5 := by
    rw [Nat.shiftLeft_eq, Nat.shiftLeft_eq]; omega
  rw [e1, e2, Nat.or_comm, ← Nat.shiftLeft_add_eq_or_of_lt (by omega), Nat.shiftLeft_eq]
  omega

/-- the size table is read back partition by partition -/
theorem cutParts_written : ∀ (parts : List Bytes), parts ≠ [] →
    (∀ p ∈ parts.dropLast, p.length < 16777216) →
    cutParts (parts.length - 1) (partSizeTable parts) parts.flatten = some parts := by
  intro parts
  induction parts with
  | nil => intro h; exact absurd rfl h
  | cons p r ih =>
    intro _ hsz
    cases r with
    | nil =>
      show cutParts 0 [] ([p].flatten) = some [p]
      rw [cutParts]
      simp
    | cons q r =>
      have hp : p.length < 16777216 := hsz p (by simp [List.dropLast])
      have ih' := ih (by simp) (fun x hx => hsz x (by
        simp only [List.dropLast_cons_cons, List.mem_cons] at hx ⊢
        exact .inr hx))
      show cutParts ((q :: r).length - 1 + 1) (low24 p.length ++ partSizeTable (q :: r))
        (p ++ (q :: r).flatten) = some (p :: q :: r)
      rw [cutParts]
      have hl : ¬ (low24 p.length ++ partSizeTable (q :: r)).length < 3 := by
        rw [List.length_append, low24_length]; omega
      have hv : le24 (low24 p.length ++ partSizeTable (q :: r)) 0 = p.length := by
        rw [le24_low24]; omega
      rw [if_neg hl]
      dsimp only
      rw [hv, if_neg (by rw [List.length_append]; omega),
        List.drop_left' (low24_length _), List.drop_left' rfl, List.take_left' rfl, ih']
      rfl

theorem partSizeTable_length : ∀ (parts : List Bytes),
    (partSizeTable parts).length = 3 * (parts.length - 1)
  | [] => rfl
  | [_] => rfl
  | p :: q :: r => by
    show (low24 p.length ++ partSizeTable (q :: r)).length = _
    rw [List.length_append, low24_length, partSizeTable_length (q :: r)]
    simp only [List.length_cons]; omega

/-- the ten header bytes -/
def frameHeader (w h part0Len : Nat) : Bytes :=
  low24 (frameTag part0Len) ++ [0x9d, 0x01, 0x2a] ++ putLE16 (w % 16384) ++ putLE16 (h % 16384)

theorem frameHeader_length (w h n : Nat) : (frameHeader w h n).length = 10 := rfl

theorem assembleFrame_eq (w h : Nat) (part0 : Bytes) (parts : List Bytes) :
    assembleFrame w h part0 parts =
      .ok (frameHeader w h part0.length ++ (part0 ++ (partSizeTable parts ++ parts.flatten))) := by
  unfold assembleFrame frameHeader
  simp only [List.append_assoc]

theorem frameHeader_fields (w h n : Nat) (rest : Bytes) :
    le24 (frameHeader w h n ++ rest) 0 = frameTag n % 16777216 ∧
    byteAt (frameHeader w h n ++ rest) 3 = 0x9d ∧ byteAt (frameHeader w h n ++ rest) 4 = 0x01 ∧
    byteAt (frameHeader w h n ++ rest) 5 = 0x2a ∧
    le16 (frameHeader w h n ++ rest) 6 = w % 16384 ∧
    le16 (frameHeader w h n ++ rest) 8 = h % 16384 := by
  refine ⟨?_, rfl, rfl, rfl, ?_, ?_⟩
  · unfold frameHeader
    simp only [List.append_assoc]
    exact le24_low24 _ _
  · unfold frameHeader
    have := le16_append_right (low24 (frameTag n) ++ [0x9d, 0x01, 0x2a])
      (putLE16 (w % 16384) ++ (putLE16 (h % 16384) ++ rest)) 0
    rw [le16_putLE16 _ _ (by omega)] at this
    simp only [List.append_assoc] at this ⊢
    exact this
  · unfold frameHeader
    have := le16_append_right (low24 (frameTag n) ++ [0x9d, 0x01, 0x2a] ++ putLE16 (w % 16384))
      (putLE16 (h % 16384) ++ rest) 0
    rw [le16_putLE16 _ _ (by omega)] at this
    simp only [List.append_assoc] at this ⊢
    exact this

/-- **layout round trip**: the frame-layout reader recovers the dimensions, the first
    partition and every token partition from what `assembleFrame` wrote -/
theorem splitFrame_assembled (w h : Nat) (part0 : Bytes) (parts : List Bytes)
    (hp0 : part0.length < 524288) (hne : parts ≠ [])
    (hsz : ∀ p ∈ parts.dropLast, p.length < 16777216)
    (hw1 : 1 ≤ w) (hw2 : w ≤ 16383) (hh1 : 1 ≤ h) (hh2 : h ≤ 16383) :
    splitFrame parts.length
        (frameHeader w h part0.length ++ (part0 ++ (partSizeTable parts ++ parts.flatten))) =
      some { width := w, height := h, xScale := 0, yScale := 0, part0 := part0, parts := parts } := by
  obtain ⟨f0, f3, f4, f5, f6, f8⟩ := frameHeader_fields w h part0.length
    (part0 ++ (partSizeTable parts ++ parts.flatten))
  have hl : (frameHeader w h part0.length ++ (part0 ++ (partSizeTable parts ++ parts.flatten))).length =
      10 + (part0.length + (3 * (parts.length - 1) + parts.flatten.length)) := by
    rw [List.length_append, List.length_append, List.length_append, frameHeader_length,
      partSizeTable_length]
  have hd10 : (frameHeader w h part0.length ++ (part0 ++ (partSizeTable parts ++ parts.flatten))).drop 10 =
      part0 ++ (partSizeTable parts ++ parts.flatten) := List.drop_left' rfl
  have hdp : (frameHeader w h part0.length ++ (part0 ++ (partSizeTable parts ++ parts.flatten))).drop
      (10 + part0.length) = partSizeTable parts ++ parts.flatten := by
    rw [← List.append_assoc]
    exact List.drop_left' (by rw [List.length_append, frameHeader_length])
  have hpl : 1 ≤ parts.length := by
    cases parts with
    | nil => exact absurd rfl hne
    | cons _ _ => simp
  generalize frameHeader w h part0.length ++ (part0 ++ (partSizeTable parts ++ parts.flatten)) = X at *
  rw [frameTag_eq] at f0
  have htag : (16 + part0.length % 134217728 * 32) % 16777216 = 16 + part0.length * 32 := by omega
  rw [htag] at f0
  unfold splitFrame
  rw [if_neg (by omega)]
  dsimp only
  rw [f0, f3, f4, f5, f6, f8, if_neg (by omega), if_neg (by omega), if_neg (by omega),
    if_neg (by omega), if_neg (by omega), if_neg (by omega)]
  have e32 : (16 + part0.length * 32) / 32 = part0.length := by omega
  rw [e32, if_neg (by omega), hdp, hd10, List.take_left' (partSizeTable_length parts),
    List.drop_left' (partSizeTable_length parts), cutParts_written parts hne hsz,
    List.take_left' rfl]
  have ew : w % 16384 = w := by omega
  have eh : h % 16384 = h := by omega
  have ew0 : w % 16384 / 16384 = 0 := by omega
  have eh0 : h % 16384 / 16384 = 0 := by omega
  show some _ = some _
  rw [Nat.mod_mod, Nat.mod_mod, ew, eh]
  have : w / 16384 = 0 := by omega
  have : h / 16384 = 0 := by omega
  simp only [*]

/-! ### the two size fields are truncated, never checked (DESIGN.md D10) -/

/-- the three tag bytes depend on `len(part0)` only modulo 2^19 -/
theorem frameTag_wraps (n : Nat) : low24 (frameTag (n + 524288)) = low24 (frameTag n) := by
  rw [frameTag_eq, frameTag_eq]
  unfold low24
  have e0 : (16 + (n + 524288) % 134217728 * 32) % 256 = (16 + n % 134217728 * 32) % 256 := by omega
  have e1 : (16 + (n + 524288) % 134217728 * 32) / 256 % 256 =
      (16 + n % 134217728 * 32) / 256 % 256 := by omega
  have e2 : (16 + (n + 524288) % 134217728 * 32) / 65536 % 256 =
      (16 + n % 134217728 * 32) / 65536 % 256 := by omega
  rw [e0, e1, e2]

/-- a partition-table entry depends on the partition length only modulo 2^24 -/
theorem low24_wraps (n : Nat) : low24 (n + 16777216) = low24 n := by
  unfold low24
  have e0 : (n + 16777216) % 256 = n % 256 := by omega
  have e1 : (n + 16777216) / 256 % 256 = n / 256 % 256 := by omega
  have e2 : (n + 16777216) / 65536 % 256 = n / 65536 % 256 := by omega
  rw [e0, e1, e2]

/-- whatever a layout reader returns for the first partition has fewer than 2^19 bytes -/
theorem splitFrame_part0_lt {n : Nat} {b : Bytes} {L : Webp.Spec.VP8Layout.Layout}
    (h : splitFrame n b = some L) : L.part0.length < 524288 := by
  have h24 := le24_lt b 0
  unfold splitFrame at h
  by_cases c1 : b.length < 10
  · rw [if_pos c1] at h; cases h
  rw [if_neg c1] at h
  dsimp only at h
  by_cases c2 : le24 b 0 % 2 ≠ 0
  · rw [if_pos c2] at h; cases h
  rw [if_neg c2] at h
  by_cases c3 : le24 b 0 / 2 % 8 > 3
  · rw [if_pos c3] at h; cases h
  rw [if_neg c3] at h
  by_cases c4 : le24 b 0 / 16 % 2 ≠ 1
  · rw [if_pos c4] at h; cases h
  rw [if_neg c4] at h
  by_cases c5 : byteAt b 3 ≠ 0x9d ∨ byteAt b 4 ≠ 0x01 ∨ byteAt b 5 ≠ 0x2a
  · rw [if_pos c5] at h; cases h
  rw [if_neg c5] at h
  by_cases c6 : le16 b 6 % 16384 = 0 ∨ le16 b 8 % 16384 = 0
  · rw [if_pos c6] at h; cases h
  rw [if_neg c6] at h
  by_cases c7 : n = 0
  · rw [if_pos c7] at h; cases h
  rw [if_neg c7] at h
  by_cases c8 : 10 + le24 b 0 / 32 + 3 * (n - 1) > b.length
  · rw [if_pos c8] at h; cases h
  rw [if_neg c8] at h
  cases hc : cutParts (n - 1) (List.take (3 * (n - 1)) (List.drop (10 + le24 b 0 / 32) b))
      (List.drop (3 * (n - 1)) (List.drop (10 + le24 b 0 / 32) b)) with
  | none => rw [hc] at h; cases h
  | some ps =>
    rw [hc] at h
    injection h with h
    subst h
    show ((b.drop 10).take (le24 b 0 / 32)).length < 524288
    rw [List.length_take]
    omega

end Webp.Impl.Writer
