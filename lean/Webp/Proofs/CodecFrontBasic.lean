import Mathlib.Tactic.SplitIfs
import Webp.Proofs.ContainerBasic
import Webp.Impl.CodecFront
/-
  Proof kit for the codec front ends (C05, codec part).

  `Res.Post P r`: `r` is a normal Go return (no panic, no hang) and, if it is a value, the value
  satisfies `P`.  One `Post` proof per model function yields both `Safe` and every fact the
  callers need about a successful result.
-/
namespace Webp.Go
namespace Res
variable {ε α β : Type}

def Post (P : α → Prop) : Res ε α → Prop
  | ok a => P a
  | err _ => True
  | panic => False
  | hang => False

@[simp] theorem post_ok {P : α → Prop} {a : α} : (ok a : Res ε α).Post P ↔ P a := Iff.rfl
@[simp] theorem post_err {P : α → Prop} {e : ε} : (err e : Res ε α).Post P := trivial
@[simp] theorem post_panic {P : α → Prop} : ¬ (panic : Res ε α).Post P := id
@[simp] theorem post_hang {P : α → Prop} : ¬ (hang : Res ε α).Post P := id

theorem Post.safe {P : α → Prop} {r : Res ε α} (h : r.Post P) : r.Safe := by
  cases r <;> first | trivial | exact h

theorem Post.of_ok {P : α → Prop} {r : Res ε α} {a : α} (h : r.Post P) (e : r = ok a) : P a := by
  subst e; exact h

theorem Post.mono {P Q : α → Prop} {r : Res ε α} (h : r.Post P) (i : ∀ a, P a → Q a) : r.Post Q := by
  cases r with
  | ok a => exact i a h
  | err e => trivial
  | panic => exact h
  | hang => exact h

theorem Post.bind {P : α → Prop} {Q : β → Prop} {x : Res ε α} {f : α → Res ε β}
    (hx : x.Post P) (hf : ∀ a, P a → (f a).Post Q) : (x >>= f).Post Q := by
  cases x with
  | ok a => exact hf a hx
  | err e => trivial
  | panic => exact hx
  | hang => exact hx

/-- the same, remembering which value was returned -/
theorem Post.bind' {P : α → Prop} {Q : β → Prop} {x : Res ε α} {f : α → Res ε β}
    (hx : x.Post P) (hf : ∀ a, x = ok a → P a → (f a).Post Q) : (x >>= f).Post Q := by
  cases x with
  | ok a => exact hf a rfl hx
  | err e => trivial
  | panic => exact hx
  | hang => exact hx

theorem Post.and {P Q : α → Prop} {r : Res ε α} (h1 : r.Post P) (h2 : r.Post Q) :
    r.Post (fun a => P a ∧ Q a) := by
  cases r with
  | ok a => exact ⟨h1, h2⟩
  | err e => trivial
  | panic => exact h1
  | hang => exact h1

theorem post_of_safe {r : Res ε α} (h : r.Safe) : r.Post (fun a => r = ok a) := by
  cases r with
  | ok a => rfl
  | err e => trivial
  | panic => exact h
  | hang => exact h

/-- every *error* `r` can return satisfies `E` (values, panics and hangs are not constrained) -/
def ErrIn (E : ε → Prop) : Res ε α → Prop
  | err e => E e
  | _ => True

@[simp] theorem errIn_ok {E : ε → Prop} {a : α} : (ok a : Res ε α).ErrIn E := trivial
@[simp] theorem errIn_panic {E : ε → Prop} : (panic : Res ε α).ErrIn E := trivial
@[simp] theorem errIn_hang {E : ε → Prop} : (hang : Res ε α).ErrIn E := trivial
@[simp] theorem errIn_err {E : ε → Prop} {e : ε} : (err e : Res ε α).ErrIn E ↔ E e := Iff.rfl

theorem ErrIn.bind {E : ε → Prop} {x : Res ε α} {f : α → Res ε β}
    (hx : x.ErrIn E) (hf : ∀ a, (f a).ErrIn E) : (x >>= f).ErrIn E := by
  cases x with
  | ok a => exact hf a
  | err e => exact hx
  | panic => trivial
  | hang => trivial

theorem ErrIn.of_err {E : ε → Prop} {r : Res ε α} {e : ε} (h : r.ErrIn E) (he : r = err e) : E e := by
  subst he; exact h

end Res

theorem idx_errIn {ε} {E : ε → Prop} (l : Bytes) (i : Nat) : (idx l i : Res ε UInt8).ErrIn E := by
  unfold idx; split <;> trivial

theorem slice_errIn {ε} {E : ε → Prop} (l : Bytes) (a b : Nat) : (slice l a b : Res ε Bytes).ErrIn E := by
  unfold slice; split <;> trivial

theorem sliceFrom_errIn {ε} {E : ε → Prop} (l : Bytes) (a : Nat) :
    (sliceFrom l a : Res ε Bytes).ErrIn E := by
  unfold sliceFrom; split <;> trivial

theorem idx_post {ε} (l : Bytes) (i : Nat) (h : i < l.length) :
    (idx l i : Res ε UInt8).Post (fun b => b = l.getD i 0) := by
  rw [idx_ok l i h]; rfl

theorem slice_post {ε} (l : Bytes) (a b : Nat) (h1 : a ≤ b) (h2 : b ≤ l.length) :
    (slice l a b : Res ε Bytes).Post (fun r => r = (l.take b).drop a) := by
  rw [slice_ok l a b h1 h2]; rfl

theorem sliceFrom_post {ε} (l : Bytes) (a : Nat) (h : a ≤ l.length) :
    (sliceFrom l a : Res ε Bytes).Post (fun r => r = l.drop a) := by
  rw [sliceFrom_ok l a h]; rfl

end Webp.Go

namespace Webp.Impl.CodecFront
open Webp.Go

theorem sliceLen_post (len a b : Nat) (h1 : a ≤ b) (h2 : b ≤ len) :
    (sliceLen len a b).Post (fun r => r = b - a) := by
  unfold sliceLen; rw [if_pos ⟨h1, h2⟩]; rfl

theorem rowSlice_post (len off n : Nat) (h : off + n ≤ len) :
    (rowSlice len off n).Post (fun _ => True) := by
  unfold rowSlice; rw [if_pos h]; trivial

/-- `alloc` never panics; on success the log grows by exactly the request, which is `≤ memCap` -/
theorem alloc_post (memCap : Nat) (m : Mem) (bytes : Nat) :
    (alloc memCap m bytes).Post (fun m' => m' = bytes :: m ∧ bytes ≤ memCap) := by
  unfold alloc
  by_cases h : bytes ≤ memCap
  · rw [if_pos h]; exact ⟨rfl, h⟩
  · rw [if_neg h]; trivial

theorem sliceLen_errIn {E : Err → Prop} (len a b : Nat) : (sliceLen len a b).ErrIn E := by
  unfold sliceLen; split <;> trivial

theorem rowSlice_errIn {E : Err → Prop} (len off n : Nat) : (rowSlice len off n).ErrIn E := by
  unfold rowSlice; split <;> trivial

theorem reslice_errIn {E : Err → Prop} (cap n : Nat) : (reslice cap n).ErrIn E := by
  unfold reslice; split <;> trivial

theorem tblAt_errIn {E : Err → Prop} (t : Array Nat) (i : Int) : (tblAt t i).ErrIn E := by
  unfold tblAt; split <;> trivial

/-- the only error of `alloc` is `exhaust`, and only above the cap -/
theorem alloc_errIn {E : Err → Prop} (memCap : Nat) (m : Mem) (bytes : Nat)
    (h : bytes ≤ memCap ∨ E .exhaust) : (alloc memCap m bytes).ErrIn E := by
  unfold alloc
  by_cases hb : bytes ≤ memCap
  · rw [if_pos hb]; trivial
  · rw [if_neg hb]
    rcases h with h | h
    · exact absurd h hb
    · exact h

theorem alloc_ne_exhaust {memCap : Nat} {m : Mem} {bytes : Nat} (h : bytes ≤ memCap) :
    alloc memCap m bytes = .ok (bytes :: m) := by
  unfold alloc; rw [if_pos h]

end Webp.Impl.CodecFront
