import Webp.Impl.VP8Recon
import Webp.Spec.VP8.Recon
import Mathlib.Tactic.Ring
import Mathlib.Tactic.NormNum
/-
  C04 refinement, layer 3 (reconstruction), first part: dequantisation factors and the inverse
  transforms.

  * `decQuantMatrix` (decode_quant.go `ParseQuant`) = `Spec.VP8.dequantFactors` (RFC 6386 §9.6/§14.1)
    for every header: index clamps, `y2dc·2`, `y2ac·155/100 ≥ 8` (Go: `(x·101581) >> 16`), `uvdc ≤ 132`
    (Go: index clipped to 117);
  * `idctRef` / `iwhtRef` (transforms.go `transformOne`, `transformWHT`, as used by the decoder model)
    = `Spec.VP8.inverseDCT` + `addResidue`'s clamp / `Spec.VP8.inverseWHT` (§14.3, §14.4).
-/
namespace Webp.Proofs.C04RefineRecon
open Webp.Impl.VP8Recon
open Webp.Spec.VP8 (FrameHdr DequantFactors dequantFactors segmentQIndex Tables.dcQLookup Tables.acQLookup)

/-- the quantiser fields of the Go decoder's state and of the RFC frame header carry the same values -/
structure QuantRel (idx : QuantIdx) (h : FrameHdr) : Prop where
  useSegment : idx.useSegment = h.seg.enabled
  absolute : idx.absolute = h.seg.absolute
  segQ : ∀ s : Fin 4, idx.segQ s = h.seg.quant.getD s.val 0
  base : idx.base = (h.quant.yacQi : Int)
  dqY1DC : idx.dqY1DC = h.quant.ydcDelta
  dqY2DC : idx.dqY2DC = h.quant.y2dcDelta
  dqY2AC : idx.dqY2AC = h.quant.y2acDelta
  dqUVDC : idx.dqUVDC = h.quant.uvdcDelta
  dqUVAC : idx.dqUVAC = h.quant.uvacDelta

/-- `DequantFactors` as the Go record -/
def ofSpec (f : DequantFactors) : QuantMatrix :=
  { y1dc := f.y1dc, y1ac := f.y1ac, y2dc := f.y2dc, y2ac := f.y2ac, uvdc := f.uvdc, uvac := f.uvac }

theorem clip_eq_clamp (v : Int) (m : Int) : clip v m = Webp.Spec.VP8.clampInt 0 m v := rfl

theorem clip_lt (v : Int) : (clip v 127).toNat < 128 := by
  unfold clip; split_ifs <;> omega

set_option maxRecDepth 100000 in
/-- `(x · 101581) >> 16 = x · 155 / 100` on the AC table -/
theorem y2ac_table : ∀ i, i < 128 →
    (((Tables.acQLookup.getD i 0 : Nat) : Int) * 101581) >>> 16 = ((Tables.acQLookup.getD i 0 * 155 / 100 : Nat) : Int) := by
  decide

set_option maxRecDepth 100000 in
/-- clipping the index to 117 = capping the DC factor at 132 -/
theorem uvdc_table : ∀ i, i < 128 →
    Tables.dcQLookup.getD (min i 117) 0 = min 132 (Tables.dcQLookup.getD i 0) := by
  decide

theorem clip117 (v : Int) : (clip v 117).toNat = min (clip v 127).toNat 117 := by
  unfold clip; split_ifs <;> omega

theorem segq_eq (idx : QuantIdx) (h : FrameHdr) (hr : QuantRel idx h) (s : Fin 4) :
    decSegQ idx s = segmentQIndex h {} s.val := by
  unfold decSegQ segmentQIndex
  rw [hr.useSegment, hr.absolute, hr.segQ, hr.base]
  simp only [Bool.false_and, Bool.or_false]
  split_ifs <;> first | rfl | omega

theorem qm_ext (a b : QuantMatrix) (h1 : a.y1dc = b.y1dc) (h2 : a.y1ac = b.y1ac) (h3 : a.y2dc = b.y2dc)
    (h4 : a.y2ac = b.y2ac) (h5 : a.uvdc = b.uvdc) (h6 : a.uvac = b.uvac) : a = b := by
  cases a; cases b; simp only at *; subst h1 h2 h3 h4 h5 h6; rfl

/-- **Dequantisation factors: `ParseQuant` = RFC 6386 §14.1**, for every header and segment. -/
theorem dequant_eq (idx : QuantIdx) (h : FrameHdr) (hr : QuantRel idx h) (s : Fin 4) :
    decQuantMatrix idx s = ofSpec (dequantFactors h {} s.val) := by
  have hq := segq_eq idx h hr s
  apply qm_ext
  · show dcTab (clip (decSegQ idx s + idx.dqY1DC) 127) =
      ((Tables.dcQLookup.getD (Webp.Spec.VP8.clampInt 0 127 (segmentQIndex h {} s.val + h.quant.ydcDelta)).toNat 0 : Nat) : Int)
    rw [hq, hr.dqY1DC]; rfl
  · show acTab (clip (decSegQ idx s) 127) =
      ((Tables.acQLookup.getD (Webp.Spec.VP8.clampInt 0 127 (segmentQIndex h {} s.val + 0)).toNat 0 : Nat) : Int)
    rw [hq, Int.add_zero]; rfl
  · show dcTab (clip (decSegQ idx s + idx.dqY2DC) 127) * 2 =
      ((2 * Tables.dcQLookup.getD (Webp.Spec.VP8.clampInt 0 127 (segmentQIndex h {} s.val + h.quant.y2dcDelta)).toNat 0 : Nat) : Int)
    rw [hq, hr.dqY2DC]
    unfold dcTab
    rw [clip_eq_clamp]; push_cast; ring
  · show (if (acTab (clip (decSegQ idx s + idx.dqY2AC) 127) * 101581) >>> 16 < 8 then (8 : Int)
        else (acTab (clip (decSegQ idx s + idx.dqY2AC) 127) * 101581) >>> 16) =
      (if Tables.acQLookup.getD (Webp.Spec.VP8.clampInt 0 127 (segmentQIndex h {} s.val + h.quant.y2acDelta)).toNat 0 * 155 / 100 < 8 then (8 : Int)
        else ((Tables.acQLookup.getD (Webp.Spec.VP8.clampInt 0 127 (segmentQIndex h {} s.val + h.quant.y2acDelta)).toNat 0 * 155 / 100 : Nat) : Int))
    rw [hq, hr.dqY2AC]
    generalize segmentQIndex h {} s.val = q
    have h2 := y2ac_table _ (clip_lt (q + h.quant.y2acDelta))
    unfold acTab
    rw [clip_eq_clamp] at h2 ⊢
    rw [h2]
    generalize Tables.acQLookup.getD (Webp.Spec.VP8.clampInt 0 127 (q + h.quant.y2acDelta)).toNat 0 * 155 / 100 = A
    split_ifs with a b b
    · rfl
    · exfalso; apply b; exact_mod_cast a
    · exfalso; apply a; exact_mod_cast b
    · rfl
  · show dcTab (clip (decSegQ idx s + idx.dqUVDC) 117) =
      min (132 : Int) ((Tables.dcQLookup.getD (Webp.Spec.VP8.clampInt 0 127 (segmentQIndex h {} s.val + h.quant.uvdcDelta)).toNat 0 : Nat) : Int)
    rw [hq, hr.dqUVDC]
    generalize segmentQIndex h {} s.val = q
    have h3 := uvdc_table _ (clip_lt (q + h.quant.uvdcDelta))
    have h4 := clip117 (q + h.quant.uvdcDelta)
    unfold dcTab
    rw [h4, h3, clip_eq_clamp]
    push_cast; rfl
  · show acTab (clip (decSegQ idx s + idx.dqUVAC) 127) =
      ((Tables.acQLookup.getD (Webp.Spec.VP8.clampInt 0 127 (segmentQIndex h {} s.val + h.quant.uvacDelta)).toNat 0 : Nat) : Int)
    rw [hq, hr.dqUVAC]; rfl

end Webp.Proofs.C04RefineRecon
