import Webp.Proofs.C04RefineDoFilter3
/-
  C04 refinement, loop filter (stage D), one macroblock in one plane, part 3: `filterPlane` = `filterMBPlane`.
-/
namespace Webp.Proofs.C04RefineDoFilter
open Webp.Spec.VP8 (filterEdge filterMBPlane FilterParams Plane)
open Webp.Impl.VP8DecEdges (simpleStep mbStep subStep edgeLoop innerLoop filterPlane FParams)

theorem filterPlane_def (simple : Bool) (f : FParams) (mbX mbY n bps off : Nat) (p : ByteArray) :
    filterPlane simple f mbX mbY n bps off p =
      (let p1 := if mbX > 0 then edgeLoop (mbf simple f) p off bps 1 n else p
       let p2 := if f.inner then innerLoop (fun p b => edgeLoop (inf simple f) p b bps 1 n) p1 off 4 (n / 4 - 1) else p1
       let p3 := if mbY > 0 then edgeLoop (mbf simple f) p2 off 1 bps n else p2
       if f.inner then innerLoop (fun p b => edgeLoop (inf simple f) p b 1 bps n) p3 off (4 * bps) (n / 4 - 1) else p3) := rfl

/-- the thresholds `doFilter` uses and the RFC's per-macroblock filter parameters -/
structure ParamRel (f : FParams) (fp : FilterParams) : Prop where
  mb : fp.mbLimit = f.limit + 4
  sub : fp.subLimit = f.limit
  int : fp.interior = f.ilevel
  hev : fp.hevThreshold = f.hevT

/-- **one macroblock in one plane: Go `doFilter` = RFC 6386 §15** (edges in the RFC's order) -/
theorem filterPlane_eq_spec (simple : Bool) (f : FParams) (fp : FilterParams) (hr : ParamRel f fp)
    (mbX mbY n : Nat) (hn : 8 ≤ n) (data : ByteArray) (s rows : Nat) (hs : 0 < s) :
    filterMBPlane simple fp f.inner mbX mbY n ⟨data, s, rows⟩ =
      ⟨filterPlane simple f mbX mbY n s (n * mbY * s + n * mbX) data, s, rows⟩ := by
  have hL : 0 < mbX → 3 ≤ n * mbY * s + n * mbX := by
    intro hx
    have : 8 ≤ n * mbX := by
      calc 8 ≤ n := hn
        _ = n * 1 := (Nat.mul_one n).symm
        _ ≤ n * mbX := Nat.mul_le_mul_left n hx
    omega
  have hT : 0 < mbY → 3 * s ≤ n * mbY * s + n * mbX := by
    intro hy
    have h1 : 8 ≤ n * mbY := by
      calc 8 ≤ n := hn
        _ = n * 1 := (Nat.mul_one n).symm
        _ ≤ n * mbY := Nat.mul_le_mul_left n hy
    have h2 : 8 * s ≤ n * mbY * s := Nat.mul_le_mul_right s h1
    omega
  unfold filterMBPlane
  simp only [Id.run, forIn_from1, hr.mb, hr.sub, hr.int, hr.hev]
  rw [filterPlane_def]
  simp only []
  by_cases hX : mbX > 0 <;> by_cases hY : mbY > 0 <;> cases hin : f.inner <;>
    simp only [hX, hY, if_true, if_false, Bool.false_eq_true, pure_bind] <;>
    first
      | rfl
      | (simp only [left_eq simple f _ _ s n (hL hX), top_eq simple f _ _ s n hs (hT hY), innerV_eq, innerH_eq simple f _ _ s n _ hs]; rfl)
      | (simp only [left_eq simple f _ _ s n (hL hX), innerV_eq, innerH_eq simple f _ _ s n _ hs]; rfl)
      | (simp only [top_eq simple f _ _ s n hs (hT hY), innerV_eq, innerH_eq simple f _ _ s n _ hs]; rfl)
      | (simp only [innerV_eq, innerH_eq simple f _ _ s n _ hs]; rfl)

end Webp.Proofs.C04RefineDoFilter
