import Webp.Impl.AnimEnc
/-
  Pixel level: the two ways of comparing pictures (`pxEqv` = "equal, or both fully transparent";
  `pxAlphaEq` = "same alpha"), the per-pixel conditions behind the two blend predicates, and the
  soundness of blending a (cleared) sub-frame pixel over the carried canvas.
-/
namespace Webp.Proofs.AnimEncBlend
open Webp.Spec.Anim Webp.Impl.AnimEnc

/-! ### the per-pixel conditions of the blend predicates -/

/-- body of `isLosslessBlendingPossible`: `!(dst.A != 0xFF && src != dst)` -/
def okLossless (src dst : Px) : Bool := !(dst.a != 255 && src != dst)

/-- body of `isLossyBlendingPossible`: `!(dst.A != 0xFF && !pixelsAreSimilar(src, dst, maxDiff))` -/
def okLossy (maxDiff : Int) (src dst : Px) : Bool := !(dst.a != 255 && !pixelsAreSimilar src dst maxDiff)

theorem okLossless_iff (P T : Px) : okLossless P T = true ↔ (T.a ≠ 255 → P = T) := by
  unfold okLossless
  by_cases h1 : T.a = 255 <;> by_cases h2 : P = T <;> simp [h1, h2]

theorem okLossless_alpha (P T : Px) (h : okLossless P T = true) (ht : T.a ≠ 255) : P.a = T.a := by
  rw [(okLossless_iff P T).mp h ht]

theorem pixelsAreSimilar_alpha (s d : Px) (m : Int) (h : pixelsAreSimilar s d m = true) : s.a = d.a := by
  unfold pixelsAreSimilar at h
  by_cases ha : s.a = d.a
  · exact ha
  · simp [ha] at h

theorem okLossy_alpha (m : Int) (P T : Px) (h : okLossy m P T = true) (ht : T.a ≠ 255) : P.a = T.a := by
  unfold okLossy at h
  by_cases hs : pixelsAreSimilar P T m = true
  · exact pixelsAreSimilar_alpha P T m hs
  · simp [ht, hs] at h

/-! ### the two comparisons are equivalence relations -/

theorem pxEqv_iff (a b : Px) : pxEqv a b = true ↔ (a = b ∨ (a.a = 0 ∧ b.a = 0)) := by
  unfold pxEqv; simp

theorem pxEqv_refl (a : Px) : pxEqv a a = true := (pxEqv_iff a a).mpr (Or.inl rfl)

theorem pxEqv_symm {a b : Px} (h : pxEqv a b = true) : pxEqv b a = true := by
  rw [pxEqv_iff] at h ⊢
  rcases h with h | ⟨h1, h2⟩
  · exact Or.inl h.symm
  · exact Or.inr ⟨h2, h1⟩

theorem pxEqv_trans {a b c : Px} (h1 : pxEqv a b = true) (h2 : pxEqv b c = true) : pxEqv a c = true := by
  rw [pxEqv_iff] at h1 h2 ⊢
  rcases h1 with h1 | ⟨h1, h1'⟩
  · subst h1; exact h2
  · rcases h2 with h2 | ⟨_, h2'⟩
    · subst h2; exact Or.inr ⟨h1, h1'⟩
    · exact Or.inr ⟨h1, h2'⟩

theorem pxEqv_alpha {a b : Px} (h : pxEqv a b = true) : a.a = b.a := by
  rw [pxEqv_iff] at h
  rcases h with h | ⟨h1, h2⟩
  · rw [h]
  · rw [h1, h2]

theorem pxAlphaEq_iff (a b : Px) : pxAlphaEq a b = true ↔ a.a = b.a := by
  unfold pxAlphaEq; simp

theorem pxAlphaEq_refl (a : Px) : pxAlphaEq a a = true := (pxAlphaEq_iff a a).mpr rfl

theorem pxAlphaEq_symm {a b : Px} (h : pxAlphaEq a b = true) : pxAlphaEq b a = true := by
  rw [pxAlphaEq_iff] at h ⊢; exact h.symm

theorem pxAlphaEq_trans {a b c : Px} (h1 : pxAlphaEq a b = true) (h2 : pxAlphaEq b c = true) :
    pxAlphaEq a c = true := by
  rw [pxAlphaEq_iff] at h1 h2 ⊢; exact h1.trans h2

/-! ### clearBlendedTranslucent, per pixel -/

theorem clearPx_opaque (T : Px) (h : T.a = 255) : clearPx T = T := by
  unfold clearPx; simp [h]

theorem clearPx_transparent (T : Px) (h : T.a = 0) : clearPx T = T := by
  unfold clearPx; simp [h]

theorem clearPx_translucent (T : Px) (h0 : T.a ≠ 0) (h255 : T.a ≠ 255) : clearPx T = Px.zero := by
  unfold clearPx; simp [h0, h255]

/-- after clearing, a pixel's alpha is 255 exactly when it was, and 0 otherwise -/
theorem clearPx_alpha (T : Px) : (clearPx T).a = if T.a = 255 then 255 else 0 := by
  by_cases h255 : T.a = 255
  · rw [clearPx_opaque T h255, if_pos h255, h255]
  · rw [if_neg h255]
    by_cases h0 : T.a = 0
    · rw [clearPx_transparent T h0, h0]
    · rw [clearPx_translucent T h0 h255]; rfl

/-! ### blending -/

theorem blend_src0 (s d : Px) (h : s.a = 0) : blend s d = d := by unfold blend; simp [h]

theorem blend_src255 (s d : Px) (h : s.a = 255) : blend s d = s := by
  unfold blend
  have : s.a ≠ 0 := by rw [h]; decide
  simp [h]

/-- **blending is sound for the lossless predicate on the repaired code**: when the sub-frame
    pixel `s` plays back as the cleared target pixel, the canvas underneath as the carried pixel
    `P`, and the predicate accepted `(P, T)`, the blended pixel plays back as the target `T` -/
theorem blend_eqv_sound (s d P T : Px) (hs : pxEqv s (clearPx T) = true) (hd : pxEqv d P = true)
    (hok : okLossless P T = true) : pxEqv (blend s d) T = true := by
  by_cases h255 : T.a = 255
  · rw [clearPx_opaque T h255, pxEqv_iff] at hs
    rcases hs with hs | ⟨_, h2⟩
    · rw [hs, blend_src255 T d h255]; exact pxEqv_refl T
    · rw [h255] at h2; cases h2
  · have hPT : P = T := (okLossless_iff P T).mp hok h255
    have hsa : s.a = 0 := by
      have := pxEqv_alpha hs
      rw [clearPx_alpha, if_neg h255] at this
      exact this
    rw [blend_src0 s d hsa, ← hPT]
    exact hd

/-- **blending keeps alpha exactly** for both predicates on the repaired code -/
theorem blend_alpha_sound (s d P T : Px) (hs : pxAlphaEq s (clearPx T) = true)
    (hd : pxAlphaEq d P = true) (hok : T.a ≠ 255 → P.a = T.a) : pxAlphaEq (blend s d) T = true := by
  rw [pxAlphaEq_iff] at hs hd ⊢
  rw [clearPx_alpha] at hs
  by_cases h255 : T.a = 255
  · rw [if_pos h255] at hs
    rw [blend_src255 s d hs, hs, h255]
  · rw [if_neg h255] at hs
    rw [blend_src0 s d hs, hd, hok h255]

/-! ### the abstract interface used by the playback proofs -/

/-- a way `r` of comparing played-back pixels with source pixels that is compatible with the
    blend condition `ok` of the encoder's mode -/
structure PxRel (r : Px → Px → Bool) (ok : Px → Px → Bool) : Prop where
  refl : ∀ p, r p p = true
  symm : ∀ {a b}, r a b = true → r b a = true
  trans : ∀ {a b c}, r a b = true → r b c = true → r a c = true
  /-- related pixels have the same alpha -/
  alpha : ∀ {a b}, r a b = true → a.a = b.a
  /-- a fully transparent played-back pixel may be replaced by transparent black -/
  zero : ∀ {a b}, r a b = true → a.a = 0 → r Px.zero b = true
  /-- blending the played-back (cleared) sub-frame pixel over the played-back canvas gives the
      target -/
  blend : ∀ s d P T, r s (clearPx T) = true → r d P = true → ok P T = true → r (blend s d) T = true

theorem pxEqv_zero {a b : Px} (h : pxEqv a b = true) (ha : a.a = 0) : pxEqv Px.zero b = true := by
  have hb : b.a = 0 := by rw [← pxEqv_alpha h]; exact ha
  exact (pxEqv_iff _ _).mpr (Or.inr ⟨rfl, hb⟩)

theorem pxAlphaEq_zero {a b : Px} (h : pxAlphaEq a b = true) (ha : a.a = 0) : pxAlphaEq Px.zero b = true := by
  rw [pxAlphaEq_iff] at h ⊢
  rw [← h, ha]; rfl

theorem pxRel_eqv_lossless : PxRel pxEqv okLossless :=
  ⟨pxEqv_refl, pxEqv_symm, pxEqv_trans, pxEqv_alpha, pxEqv_zero, blend_eqv_sound⟩

theorem pxRel_alpha_lossless : PxRel pxAlphaEq okLossless :=
  ⟨pxAlphaEq_refl, pxAlphaEq_symm, pxAlphaEq_trans, fun h => (pxAlphaEq_iff _ _).mp h, pxAlphaEq_zero,
   fun s d P T hs hd hok => blend_alpha_sound s d P T hs hd (okLossless_alpha P T hok)⟩

theorem pxRel_alpha_lossy (m : Int) : PxRel pxAlphaEq (okLossy m) :=
  ⟨pxAlphaEq_refl, pxAlphaEq_symm, pxAlphaEq_trans, fun h => (pxAlphaEq_iff _ _).mp h, pxAlphaEq_zero,
   fun s d P T hs hd hok => blend_alpha_sound s d P T hs hd (okLossy_alpha m P T hok)⟩

/-! ### the pinned code (no clearing): 128 over 128 gives 192 -/

/-- a half-transparent pixel blended over itself: alpha 128 ↦ 192.  Both blend predicates accept
    the pair `(P, T) = (p, p)`; before the repair the sub-frame carried `p` itself. -/
theorem selfblend_192 :
    okLossless ⟨200, 16, 32, 128⟩ ⟨200, 16, 32, 128⟩ = true ∧
    okLossy 1 ⟨200, 16, 32, 128⟩ ⟨200, 16, 32, 128⟩ = true ∧
    blend ⟨200, 16, 32, 128⟩ ⟨200, 16, 32, 128⟩ = ⟨199, 15, 31, 192⟩ ∧
    pxEqv (blend ⟨200, 16, 32, 128⟩ ⟨200, 16, 32, 128⟩) ⟨200, 16, 32, 128⟩ = false ∧
    pxAlphaEq (blend ⟨200, 16, 32, 128⟩ ⟨200, 16, 32, 128⟩) ⟨200, 16, 32, 128⟩ = false := by
  decide

end Webp.Proofs.AnimEncBlend
