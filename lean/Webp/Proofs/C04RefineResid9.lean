import Webp.Proofs.C04RefineResid8
/-
  C04 refinement, residuals, part 9: the rows of a plane — the word `lnz` as a queue over `left`, `tnz` restarted after
  each row (`>> 4` / `>> 2`); `decYRows` vs `yAll`, `decUVRows` vs `uvPlane`.
-/
namespace Webp.Proofs.C04RefineResid
open Webp.Spec.VP8
open Webp.Impl.VP8SyntaxBytes (P runR rd)
open Webp.Impl.VP8SyntaxBytes.T (YSt YSt2 UVSt)
open Webp.Impl.VP8Recon (Slot Coeffs nzCodeBits QuantMatrix)
open Webp.Proofs.C04RefineOps Webp.Proofs.C04RefineTokens
open Webp.Proofs.C04RefineModes (getD_setN)

theorem qinv_restart {arr : Array Nat} {a0 n p w : Nat} (h : QInv arr a0 n p n w) (_hn : n ≤ p + 1) :
    QInv arr a0 n p 0 (w >>> (p + 1 - n)) := by
  refine ⟨fun k hk => ?_, fun j hj => by omega, Nat.lt_of_le_of_lt (Nat.shiftRight_le _ _) h.lt⟩
  rw [bit_shr, h.up k (by omega)]
  congr 1

/-- between two rows of a plane -/
structure RowsInv (ai0 n p a0L nL pL y tnz lnz : Nat) (store : Nat → Coeffs) (ov : Nat → Option Int) (s : RSt) : Prop where
  qa : QInv s.2.1 ai0 n p 0 tnz
  ql : QInv s.2.2.1 a0L nL pL y lnz
  st : StRel 24 ov store s.1
  asz : ai0 + n ≤ s.2.1.size
  lsz : a0L + nL ≤ s.2.2.1.size
  /-- after at least one row the word holds only the row's `n` flags -/
  tb : y = 0 ∨ tnz < 2 ^ n

/-- what a plane leaves alone -/
structure PlaneFrame (ai0 n a0L nL : Nat) (s s' : RSt) : Prop where
  a : ∀ i, (i < ai0 ∨ ai0 + n ≤ i) → s'.2.1.getD i 0 = s.2.1.getD i 0
  l : ∀ i, (i < a0L ∨ a0L + nL ≤ i) → s'.2.2.1.getD i 0 = s.2.2.1.getD i 0
  asz : s'.2.1.size = s.2.1.size
  lsz : s'.2.2.1.size = s.2.2.1.size

theorem planeFrame_refl (ai0 n a0L nL : Nat) (s : RSt) : PlaneFrame ai0 n a0L nL s s :=
  ⟨fun _ _ => rfl, fun _ _ => rfl, rfl, rfl⟩

theorem planeFrame_row {ai0 n a0L nL y : Nat} {s s1 s2 : RSt} (hy : y < nL) (h1 : RowFrame ai0 n (a0L + y) s s1)
    (h2 : PlaneFrame ai0 n a0L nL s1 s2) : PlaneFrame ai0 n a0L nL s s2 :=
  ⟨fun i hi => (h2.a i hi).trans (h1.a i hi), fun i hi => (h2.l i hi).trans (h1.l i (by omega)),
   h2.asz.trans h1.asz, h2.lsz.trans h1.lsz⟩

/-- one row at the level of the invariants -/
theorem rows_step {ai0 n p a0L nL pL y tnz lnz : Nat} {store : Nat → Coeffs} {ov : Nat → Option Int} {s s' : RSt}
    (h : RowsInv ai0 n p a0L nL pL y tnz lnz store ov s) (hy : y < nL) (hn : n ≤ p + 1) (hnL : nL ≤ pL + 1) (st' : YSt)
    (hq : QInv s'.2.1 ai0 n p n st'.tnz) (hl : st'.l = s'.2.2.1.getD (a0L + y) 0) (hl1 : st'.l ≤ 1)
    (hst : StRel 24 ov st'.store s'.1) (hfr : RowFrame ai0 n (a0L + y) s s') :
    RowsInv ai0 n p a0L nL pL (y + 1) (st'.tnz >>> (p + 1 - n)) (lnz >>> 1 ||| st'.l <<< pL) st'.store ov s' := by
  refine ⟨qinv_restart hq hn, ?_, hst, by rw [hfr.asz]; exact h.asz, by rw [hfr.lsz]; exact h.lsz, Or.inr ?_⟩
  swap
  · rw [Nat.shiftRight_eq_div_pow, Nat.div_lt_iff_lt_mul (Nat.pow_pos (by omega)), ← Nat.pow_add,
      show n + (p + 1 - n) = p + 1 by omega]
    exact hq.lt
  refine qinv_frame (qinv_step h.ql hy hnL st'.l hl1 h.lsz) (fun i _ _ => ?_) (by omega)
  rw [getD_setN]
  by_cases hi : a0L + y = i
  · rw [if_pos ⟨hi, by have := h.lsz; omega⟩, ← hi, hl]
  · rw [if_neg (fun hh => hi hh.1)]; exact hfr.l i (fun hh => hi hh.symm)

theorem yRow_eq (probs : Array Nat) (q : DequantFactors) (mbX ytype first by' : Nat) (s : RSt) :
    yRow probs q mbX ytype first by' s =
      sRow probs ytype first q.y1dc q.y1ac (9 * mbX) by' (fun x => 4 * by' + x) (List.range' 0 4) s := rfl

theorem uvRow_eq (probs : Array Nat) (q : DequantFactors) (mbX plane by' : Nat) (s : RSt) :
    uvRow probs q mbX plane by' s =
      sRow probs 2 0 q.uvdc q.uvac (9 * mbX + 4 + 2 * plane) (4 + 2 * plane + by') (fun x => 16 + 4 * plane + 2 * by' + x)
        (List.range' 0 2) s := rfl

def yFold (probs : Array Nat) (q : DequantFactors) (mbX ytype first : Nat) (ys : List Nat) (s : RSt) : RSt :=
  ys.foldl (fun s by' => yRow probs q mbX ytype first by' s) s

theorem yFold_cons (probs : Array Nat) (q : DequantFactors) (mbX ytype first y : Nat) (ys : List Nat) (s : RSt) :
    yFold probs q mbX ytype first (y :: ys) s = yFold probs q mbX ytype first ys (yRow probs q mbX ytype first y s) := by
  unfold yFold; rw [List.foldl_cons]

/-- **the sixteen luma blocks** -/
theorem yrows_sim (prob : Slot → UInt8) (probs : Array Nat) (t first : Nat) (q : DequantFactors) (qm : QuantMatrix)
    (hq1 : qm.y1dc = q.y1dc) (hq2 : qm.y1ac = q.y1ac) (hc : CoefOK prob probs t) (hfix : FixedOK prob) (hf : first ≤ 16)
    (mbX : Nat) (ov : Nat → Option Int) (hov : ∀ b, b < 16 → (ov b).isSome = true → 1 ≤ first) :
    ∀ (m y : Nat) (st : YSt2) (s : RSt), y + m = 4 → RowsInv (9 * mbX) 4 7 0 4 7 y st.tnz st.lnz st.store ov s →
      ∃ st', runD prob (Webp.Impl.VP8SyntaxBytes.T.decYRows t first qm (List.range' y m) st) s.2.2.2.1 =
          some (st', (yFold probs q mbX t first (List.range' y m) s).2.2.2.1) ∧
        RowsInv (9 * mbX) 4 7 0 4 7 4 st'.tnz st'.lnz st'.store ov (yFold probs q mbX t first (List.range' y m) s) ∧
        PlaneFrame (9 * mbX) 4 0 4 s (yFold probs q mbX t first (List.range' y m) s) := by
  intro m
  induction m with
  | zero =>
    intro y st s hy h
    have : y = 4 := by omega
    subst this
    exact ⟨st, rfl, h, planeFrame_refl _ _ _ _ _⟩
  | succ m ih =>
    intro y st s hy h
    have hy4 : y < 4 := by omega
    obtain ⟨r, hr1, hr2, hr3, hr4, hr5, hr6⟩ := row_sim prob probs t first q.y1dc q.y1ac hc hfix hf 24 (by omega) 7 4 (9 * mbX) y (by omega)
      (fun x => 4 * y + x) ov (fun x hx => ⟨by omega, hov _ (by omega)⟩) 4 0
      { tnz := st.tnz, l := st.lnz &&& 1, nzCoeffs := 0, store := st.store } s rfl h.qa
      (by have := qinv_head h.ql hy4; rw [Nat.zero_add] at this; exact this)
      (by show st.lnz &&& 1 ≤ 1; rw [bit_and1]; exact bit_le _ _) h.st h.asz (by have := h.lsz; omega)
    rw [← yRow_eq] at hr1 hr2 hr3 hr5 hr6
    have hstep := rows_step h hy4 (by omega) (by omega) r hr2 (by rw [Nat.zero_add]; exact hr3) hr4 hr5
      (by rw [Nat.zero_add]; exact hr6)
    obtain ⟨st', h1, h2, h3⟩ := ih (y + 1)
      { tnz := r.tnz >>> 4, lnz := (st.lnz >>> 1) ||| (r.l <<< 7)
        nonZeroY := ((st.nonZeroY <<< 8) ||| r.nzCoeffs) % 4294967296, store := r.store }
      (yRow probs q mbX t first y s) (by omega) hstep
    rw [List.range'_succ, yFold_cons]
    refine ⟨st', ?_, h2, planeFrame_row hy4 (by rw [Nat.zero_add]; exact hr6) h3⟩
    rw [Webp.Impl.VP8SyntaxBytes.T.decYRows, runD_bind, decYRow_eq, hq1, hq2,
      show ([0, 1, 2, 3] : List Nat) = List.range' 0 4 from rfl, hr1]
    exact h1

def uvFold (probs : Array Nat) (q : DequantFactors) (mbX plane : Nat) (ys : List Nat) (s : RSt) : RSt :=
  ys.foldl (fun s by' => uvRow probs q mbX plane by' s) s

theorem uvFold_cons (probs : Array Nat) (q : DequantFactors) (mbX plane y : Nat) (ys : List Nat) (s : RSt) :
    uvFold probs q mbX plane (y :: ys) s = uvFold probs q mbX plane ys (uvRow probs q mbX plane y s) := by
  unfold uvFold; rw [List.foldl_cons]

/-- **the four blocks of a chroma plane** (`plane` 0 = U, 1 = V; Go block base `16 + 4·plane`) -/
theorem uvrows_sim (prob : Slot → UInt8) (probs : Array Nat) (q : DequantFactors) (qm : QuantMatrix)
    (hq1 : qm.uvdc = q.uvdc) (hq2 : qm.uvac = q.uvac) (hc : CoefOK prob probs 2) (hfix : FixedOK prob)
    (mbX plane : Nat) (hpl : plane < 2) (ov : Nat → Option Int) (hov : ∀ b, 16 ≤ b → ov b = none) :
    ∀ (m y : Nat) (st : UVSt) (s : RSt), y + m = 2 →
      RowsInv (9 * mbX + 4 + 2 * plane) 2 3 (4 + 2 * plane) 2 5 y st.tnz st.lnz st.store ov s →
      ∃ st', runD prob (Webp.Impl.VP8SyntaxBytes.T.decUVRows qm (16 + 4 * plane) (List.range' y m) st) s.2.2.2.1 =
          some (st', (uvFold probs q mbX plane (List.range' y m) s).2.2.2.1) ∧
        RowsInv (9 * mbX + 4 + 2 * plane) 2 3 (4 + 2 * plane) 2 5 2 st'.tnz st'.lnz st'.store ov
          (uvFold probs q mbX plane (List.range' y m) s) ∧
        PlaneFrame (9 * mbX + 4 + 2 * plane) 2 (4 + 2 * plane) 2 s (uvFold probs q mbX plane (List.range' y m) s) := by
  intro m
  induction m with
  | zero =>
    intro y st s hy h
    have : y = 2 := by omega
    subst this
    exact ⟨st, rfl, h, planeFrame_refl _ _ _ _ _⟩
  | succ m ih =>
    intro y st s hy h
    have hy2 : y < 2 := by omega
    have hblk : ∀ x, x < 2 → (fun x => 16 + 4 * plane + 2 * y + x) x < 24 ∧
        ((ov ((fun x => 16 + 4 * plane + 2 * y + x) x)).isSome = true → 1 ≤ 0) := by
      intro x hx
      refine ⟨by show 16 + 4 * plane + 2 * y + x < 24; omega, fun hh => ?_⟩
      rw [show (fun x => 16 + 4 * plane + 2 * y + x) x = 16 + 4 * plane + 2 * y + x from rfl,
        hov (16 + 4 * plane + 2 * y + x) (by omega)] at hh
      cases hh
    have hrow := row_sim prob probs 2 0 q.uvdc q.uvac hc hfix (Nat.zero_le 16) 24 (by omega) 3 2
      (9 * mbX + 4 + 2 * plane) (4 + 2 * plane + y) (by omega)
      (fun x => 16 + 4 * plane + 2 * y + x) ov hblk 2 0
    have hrow2 := hrow { tnz := st.tnz, l := st.lnz &&& 1, nzCoeffs := st.nzCoeffs, store := st.store } s (Nat.zero_add 2) h.qa
      (qinv_head h.ql hy2)
      (by show st.lnz &&& 1 ≤ 1; rw [bit_and1]; exact bit_le _ _) h.st h.asz (by have := h.lsz; omega)
    obtain ⟨r, hr1, hr2, hr3, hr4, hr5, hr6⟩ := hrow2
    rw [← uvRow_eq] at hr1 hr2 hr3 hr5 hr6
    have hstep := rows_step h hy2 (by omega) (by omega) r hr2 hr3 hr4 hr5 hr6
    obtain ⟨st', h1, h2, h3⟩ := ih (y + 1)
      { tnz := r.tnz >>> 2, lnz := (st.lnz >>> 1) ||| (r.l <<< 5), nzCoeffs := r.nzCoeffs, store := r.store }
      (uvRow probs q mbX plane y s) (by omega) hstep
    rw [List.range'_succ, uvFold_cons]
    refine ⟨st', ?_, h2, planeFrame_row hy2 hr6 h3⟩
    rw [Webp.Impl.VP8SyntaxBytes.T.decUVRows, runD_bind, decUVRow_eq, hq1, hq2,
      show ([0, 1] : List Nat) = List.range' 0 2 from rfl, hr1]
    exact h1

end Webp.Proofs.C04RefineResid
