import Webp.Proofs.VP8LEntropyTableF
import Webp.Impl.VP8LFastPaths
/-
  The three literal FAST PATHS of the VP8L pixel loop (`IsTrivialCode`, `UsePackedTable`,
  `IsTrivialLiteral`; model: Webp/Impl/VP8LFastPaths.lean) agree with the general path of four
  `ReadSymbol` lookups: same pixel or same green symbol, same number of bits consumed, on every
  look-ahead value.

  Main statements
    `trivial_paths_eq_general`      tables built by `buildTable 8` from length vectors accepted by the
                                    specification's `buildCode`, flags as computed by `mkGroup`
    `fast_eq_general_of_tspec`      the same over the abstract lookup behaviour `TSpec`
    `trivialCode_eq_general`, `trivialLiteral_eq_general`, `packedTable_eq_sequential`   the three flags
  What the flags mean
    `cell0_bits_eq_zero_iff`        `table[0].Bits == 0` ⇔ exactly one used symbol
    `single_of_cell0`               … and then every lookup returns `table[0].Value` in 0 bits
    `general_decided_by_low6`       `UsePackedTable` ⇒ the general path is a function of `w % 64`
    `root_cell_low6`                max length ≤ 6 ⇒ `table[(w&63)&0xff] = table[w&0xff]`
    `packed_step`                   the subtlety of `buildPackedTable`: after `bits >>= n` the window has
                                    ZEROS above its remaining width where the stream has real bits; the
                                    lookups agree because the remaining tables decide within the
                                    remaining width (`maxBits < 6`; `≤ 6` would do)
    `readLiteralGeneral_ok`         no `-1` sentinel, no out-of-range index
    `TSpec.size`                    tables have ≥ 256 cells (the model's `cell` never defaults)

  No `bv_decide` is needed: the `uint32` facts are associativity/commutativity of `|||`.
-/
namespace Webp.Proofs.VP8LFastPaths
open Webp.Go (Res)
open Webp.Spec.VP8L
open Webp.Impl.VP8LEntropy Webp.Impl.VP8LFastPaths
open Webp.Proofs.VP8LEntropyCanon Webp.Proofs.VP8LEntropyTableA Webp.Proofs.VP8LEntropyTableB
open Webp.Proofs.VP8LEntropyTableF Webp.Proofs.VP8LEntropyPrefix Webp.Proofs.VP8LEntropyTableC Webp.Proofs.VP8LEntropyTableD Webp.Proofs.VP8LEntropyTableE

/-! ## `maxCodeLen` -/

theorem foldl_max_ge (xs : List Nat) (a : Nat) : a ≤ xs.foldl max a := by
  induction xs generalizing a with
  | nil => exact Nat.le_refl _
  | cons x r ih => exact Nat.le_trans (Nat.le_max_left a x) (ih (max a x))

theorem le_foldl_max (xs : List Nat) (a x : Nat) (hx : x ∈ xs) : x ≤ xs.foldl max a := by
  induction xs generalizing a with
  | nil => cases hx
  | cons y r ih =>
    rcases List.mem_cons.mp hx with rfl | h
    · exact Nat.le_trans (Nat.le_max_right a x) (foldl_max_ge r _)
    · exact ih _ h

theorem getD_le_maxLenOf (lens : Array Nat) (s : Nat) (hs : s < lens.size) : lens.getD s 0 ≤ maxLenOf lens := by
  unfold maxLenOf
  rw [← Array.foldl_toList]
  apply le_foldl_max
  rw [getD_eq_getElem lens s hs]
  exact Array.getElem_mem_toList hs

/-! ## root cells behind `ReadSymbol` -/

/-- a `ReadSymbol` result of fewer than 8 bits is the root cell itself -/
theorem cell_of_raw {t : Table} {w v l : Nat} (h : readSymbolRaw 8 t w = .ok (some (v, l))) (hl : l < 8) :
    w % 256 < t.size ∧ cell t (w % 256) = ⟨l, v⟩ := by
  unfold readSymbolRaw at h
  have e : (2 : Nat) ^ 8 = 256 := by decide
  simp only [mask_eq, e] at h
  split at h
  · rename_i hlt
    refine ⟨hlt, ?_⟩
    split at h
    · split at h
      · injection h with h; injection h with h; injection h with h1 h2; omega
      · cases h
    · injection h with h; injection h with h; injection h with h1 h2
      unfold cell
      rw [Array.getD_eq_getD_getElem?, Array.getElem?_eq_getElem hlt]
      show t[w % 256] = _
      cases hc : t[w % 256] with
      | mk b v' => rw [hc] at h1 h2; simp at h1 h2; rw [h1, h2]
  · cases h

/-- `ReadSymbol` results of at least one bit: the root cell has `Bits ≥ 1` -/
theorem cell_bits_pos_of_raw {t : Table} {w v l : Nat} (h : readSymbolRaw 8 t w = .ok (some (v, l))) (hl : 1 ≤ l) :
    1 ≤ (cell t (w % 256)).bits := by
  unfold readSymbolRaw at h
  have e : (2 : Nat) ^ 8 = 256 := by decide
  simp only [mask_eq, e] at h
  split at h
  · rename_i hlt
    have hc : cell t (w % 256) = t[w % 256] := by
      unfold cell; rw [Array.getD_eq_getD_getElem?, Array.getElem?_eq_getElem hlt]; rfl
    rw [hc]
    split at h
    · omega
    · injection h with h; injection h with h; injection h with h1 h2; omega
  · cases h

/-! ## what a table built from an accepted length vector does -/

/-- lookup behaviour of a table: `M` bounds the bits used, `N` the symbols.
    `look`: the result at `w` is decided by the low `l` bits of `w`, where `l` is the number of bits used.
    `dich`: either every lookup uses 0 bits (single symbol) or every lookup uses at least 1 bit. -/
structure TSpec (t : Table) (M N : Nat) : Prop where
  look : ∀ w, ∃ s l, s < N ∧ l ≤ M ∧ ∀ w', w' % 2 ^ l = w % 2 ^ l → readSymbolRaw 8 t w' = .ok (some (s, l))
  dich : (∃ s, ∀ w, readSymbolRaw 8 t w = .ok (some (s, 0))) ∨
         (∀ w s l, readSymbolRaw 8 t w = .ok (some (s, l)) → 1 ≤ l)

/-- a code with one used symbol has a used symbol -/
theorem exists_used {lens : Array Nat} (hpos : 0 < offs lens 16) : ∃ l, 1 ≤ l ∧ l ≤ 15 ∧ 0 < cnt lens l := by
  by_cases hex : ∃ l, 1 ≤ l ∧ l ≤ 15 ∧ 0 < cnt lens l
  · exact hex
  · exfalso
    have hall : ∀ l, l ≤ 16 → offs lens l = 0 := by
      intro l hl
      induction l with
      | zero => rfl
      | succ l ih =>
        rw [offs, ih (by omega), cnt']
        by_cases h0 : l = 0
        · simp [h0]
        · rw [if_neg h0]
          have : ¬ 0 < cnt lens l := fun hp => hex ⟨l, by omega, by omega, hp⟩
          omega
    have := hall 16 (Nat.le_refl _)
    omega

theorem tspec_single {lens : Array Nat} {code : Code} (h : buildCode lens = .ok code) (h1 : offs lens 16 = 1)
    {t : Table} (ht : buildTable 8 lens = .ok t) :
    TSpec t (maxLenOf lens) lens.size ∧ ∃ s, ∀ w, readSymbolRaw 8 t w = .ok (some (s, 0)) := by
  obtain ⟨h15, hpos, _, _, _⟩ := buildCode_ok h
  obtain ⟨tbl, ht', hlook⟩ := buildTable_single lens h15 h1 8
  rw [ht] at ht'; injection ht' with ht'; subst ht'
  obtain ⟨l, hl1, hl15, hc⟩ := exists_used hpos
  obtain ⟨s, hs, hsl, _⟩ := exists_sym (lens := lens) (l := l) (m := 0) ⟨hl1, hl15, hc⟩
  have hne : lens.getD s 0 ≠ 0 := by omega
  have hall := hlook s hs hne
  exact ⟨⟨fun w => ⟨s, 0, hs, Nat.zero_le _, fun w' _ => hall w'⟩, Or.inl ⟨s, hall⟩⟩, s, hall⟩

theorem tspec_complete {lens : Array Nat} {code : Code} (h : buildCode lens = .ok code) (h1 : offs lens 16 ≠ 1)
    {t : Table} (ht : buildTable 8 lens = .ok t) :
    TSpec t (maxLenOf lens) lens.size ∧ ∀ w s l, readSymbolRaw 8 t w = .ok (some (s, l)) → 1 ≤ l := by
  have hc := complete_of_buildCode h h1
  obtain ⟨tbl, sorted, ht', hsorted, hlook⟩ := buildTable_complete hc 8 (by decide) (by decide)
  rw [ht] at ht'; injection ht' with ht'; subst ht'
  have key : ∀ w, ∃ s l, s < lens.size ∧ 1 ≤ l ∧ l ≤ maxLenOf lens ∧
      ∀ w', w' % 2 ^ l = w % 2 ^ l → readSymbolRaw 8 t w' = .ok (some (s, l)) := by
    intro w
    obtain ⟨l, m, hs, hw⟩ := cover hc w
    obtain ⟨s, hss, hsl, hsm⟩ := exists_sym hs
    have hne : lens.getD s 0 ≠ 0 := by have := hs.1; omega
    have hsymOf : symOf lens sorted l m = s := by
      unfold symOf
      have := hsorted s hss hne
      rw [hsl, hsm] at this; exact this
    refine ⟨s, l, hss, hs.1, ?_, ?_⟩
    · rw [← hsl]; exact getD_le_maxLenOf lens s hss
    · intro w' hw'
      rw [← hsymOf]
      exact hlook l m hs w' (by rw [hw', hw])
  have hpos : ∀ w s l, readSymbolRaw 8 t w = .ok (some (s, l)) → 1 ≤ l := by
    intro w s l hr
    obtain ⟨s', l', _, hl', _, hall⟩ := key w
    rw [hall w rfl] at hr
    injection hr with hr; injection hr with hr; injection hr with _ hr
    omega
  refine ⟨⟨fun w => ?_, Or.inr hpos⟩, hpos⟩
  obtain ⟨s, l, a, _, b, c⟩ := key w
  exact ⟨s, l, a, b, c⟩

theorem tspec_of_buildCode {lens : Array Nat} {code : Code} (h : buildCode lens = .ok code)
    {t : Table} (ht : buildTable 8 lens = .ok t) : TSpec t (maxLenOf lens) lens.size := by
  by_cases h1 : offs lens 16 = 1
  · exact (tspec_single h h1 ht).1
  · exact (tspec_complete h h1 ht).1

/-- tables have (at least) the 256 root cells: no index `… & 0xff` panics -/
theorem TSpec.size {t : Table} {M N : Nat} (h : TSpec t M N) : 256 ≤ t.size := by
  obtain ⟨s, l, _, _, hall⟩ := h.look 255
  have := hall 255 rfl
  unfold readSymbolRaw at this
  have e : (255 : Nat) &&& ((1 <<< 8) - 1) = 255 := by decide
  simp only [e] at this
  split at this
  · omega
  · cases this

/-- **the flag `table[0].Bits == 0`** means: the code has exactly one used symbol
    (`offs lens 16` is the number of symbols with a non-zero length) -/
theorem cell0_bits_eq_zero_iff {lens : Array Nat} {code : Code} (h : buildCode lens = .ok code)
    {t : Table} (ht : buildTable 8 lens = .ok t) : (cell t 0).bits = 0 ↔ offs lens 16 = 1 := by
  by_cases h1 : offs lens 16 = 1
  · obtain ⟨_, s, hall⟩ := tspec_single h h1 ht
    have := (cell_of_raw (hall 0) (by decide)).2
    simp only [Nat.zero_mod] at this
    simp [this, h1]
  · obtain ⟨hT, hpos⟩ := tspec_complete h h1 ht
    obtain ⟨s, l, _, _, hall⟩ := hT.look 0
    have hr := hall 0 rfl
    have := cell_bits_pos_of_raw hr (hpos 0 s l hr)
    simp only [Nat.zero_mod] at this
    constructor
    · intro h0; omega
    · intro h0; exact absurd h0 h1


/-! ## the 64-iteration loop -/

theorem packedLoop_size (g r b a : Table) (f c : Nat) (pt : Array HCode32) :
    (packedLoop g r b a f c pt).size = pt.size := by
  induction f generalizing c pt with
  | zero => rfl
  | succ f ih =>
    unfold packedLoop
    split
    · rw [ih]; simp
    · rfl

theorem packedLoop_getD (g r b a : Table) (f c : Nat) (pt : Array HCode32) (hf : c + f = 64) (hsz : pt.size = 64)
    (i : Nat) (hi : i < 64) :
    (packedLoop g r b a f c pt).getD i (0, 0) = if c ≤ i then packedEntry g r b a i else pt.getD i (0, 0) := by
  induction f generalizing c pt with
  | zero =>
    unfold packedLoop
    rw [if_neg (by omega)]
  | succ f ih =>
    unfold packedLoop
    have hc : c < huffmanPackedTableSize := by show c < 64; omega
    rw [if_pos hc, ih (c + 1) _ (by omega) (by simpa using hsz)]
    by_cases h1 : c + 1 ≤ i
    · rw [if_pos h1, if_pos (by omega)]
    · rw [if_neg h1]
      by_cases h2 : c = i
      · subst h2
        rw [if_pos (Nat.le_refl _)]
        simp [Array.getD_eq_getD_getElem?, hsz, hi]
      · rw [if_neg (by omega)]
        simp [Array.getD_eq_getD_getElem?, h2]

/-! ## window arithmetic -/

/-- the packed-table window after `bits >>= n`: the stream shifted, truncated to the remaining width -/
theorem window_shift (x k l : Nat) (hl : l ≤ k) : (x % 2 ^ k) / 2 ^ l = (x / 2 ^ l) % 2 ^ (k - l) := by
  have : 2 ^ k = 2 ^ l * 2 ^ (k - l) := by rw [← Nat.pow_add]; congr 1; omega
  rw [this, Nat.mod_mul_right_div_self]

theorem window_low (x k l : Nat) (hl : l ≤ k) : (x % 2 ^ k) % 2 ^ l = x % 2 ^ l := by
  have : 2 ^ k = 2 ^ l * 2 ^ (k - l) := by rw [← Nat.pow_add]; congr 1; omega
  rw [this, Nat.mod_mul_right_mod]

/-- one `accumulateHCode(table[bits & 0xff], …); bits >>= n` step against one `ReadSymbol` of the
    general path.  `x` is the real look-ahead, `b = x % 2^k` the packed window whose bits above `k`
    are ZERO; the lookup agrees because the table decides within `M ≤ k` bits. -/
theorem packed_step {t : Table} {M N : Nat} (hT : TSpec t M N) (x b k : Nat) (hb : b = x % 2 ^ k)
    (hMk : M ≤ k) (hk : k ≤ 6) :
    ∃ s l, s < N ∧ l ≤ M ∧ readSymbolRaw 8 t x = .ok (some (s, l)) ∧
      cell t (b &&& huffmanTableMask) = ⟨l, s⟩ ∧ b >>> l = (x >>> l) % 2 ^ (k - l) := by
  obtain ⟨s, l, hs, hl, hall⟩ := hT.look x
  refine ⟨s, l, hs, hl, hall x rfl, ?_, ?_⟩
  · have hrb : readSymbolRaw 8 t b = .ok (some (s, l)) := by
      apply hall; rw [hb]; exact window_low x k l (by omega)
    have hc := (cell_of_raw hrb (by omega)).2
    have hb64 : b < 64 := by
      rw [hb]
      calc x % 2 ^ k < 2 ^ k := Nat.mod_lt _ (Nat.pow_pos (by decide))
        _ ≤ 2 ^ 6 := Nat.pow_le_pow_right (by decide) hk
    have e : b &&& huffmanTableMask = b % 256 := by
      show b &&& ((1 <<< 8) - 1) = _
      rw [mask_eq, show (2 : Nat) ^ 8 = 256 from by decide]
    rw [e]; exact hc
  · rw [Nat.shiftRight_eq_div_pow, Nat.shiftRight_eq_div_pow, hb]
    exact window_shift x k l (by omega)


/-! ## the flags of `mkGroup` -/

/-- `isTrivialLiteral` after the `j` loop -/
def trivLit (t : Tables5) : Bool :=
  (cell t.red 0).bits == 0 && (cell t.blue 0).bits == 0 && (cell t.alpha 0).bits == 0

/-- `totalBits` after the `j` loop -/
def totalBits (t : Tables5) : Nat :=
  (cell t.green 0).bits + (cell t.red 0).bits + (cell t.blue 0).bits + (cell t.alpha 0).bits + (cell t.dist 0).bits

def arb (t : Tables5) : UInt32 :=
  (UInt32.ofNat (cell t.alpha 0).value <<< 24) ||| (UInt32.ofNat (cell t.red 0).value <<< 16) |||
    UInt32.ofNat (cell t.blue 0).value

def trivCode (t : Tables5) : Bool :=
  trivLit t && (totalBits t == 0 && decide ((cell t.green 0).value < 256))

def usePacked (t : Tables5) (m : MaxLens5) : Bool :=
  !trivCode t && decide (m.green + m.red + m.blue + m.alpha < 6)

theorem mkGroup_tables (t : Tables5) (m : MaxLens5) :
    (mkGroup t m).green = t.green ∧ (mkGroup t m).red = t.red ∧ (mkGroup t m).blue = t.blue ∧
    (mkGroup t m).alpha = t.alpha := by
  unfold mkGroup buildPackedTable
  simp only
  split <;> (split <;> try split) <;> simp


theorem flag_state (t : Tables5) (m : MaxLens5) :
    let s := flagStep (flagStep (flagStep (flagStep (flagStep {} 0 t.green m.green) 1 t.red m.red) 2 t.blue m.blue)
      3 t.alpha m.alpha) 4 t.dist m.dist
    s.isTrivialLiteral = trivLit t ∧ s.totalBits = totalBits t ∧ s.maxBits = m.green + m.red + m.blue + m.alpha := by
  simp only [flagStep, kLiteralMap, huffAlpha, trivLit, totalBits]
  refine ⟨?_, by simp, by simp⟩
  rcases Bool.eq_false_or_eq_true ((cell t.red 0).bits == 0) with h1 | h1 <;>
    rcases Bool.eq_false_or_eq_true ((cell t.blue 0).bits == 0) with h2 | h2 <;>
    rcases Bool.eq_false_or_eq_true ((cell t.alpha 0).bits == 0) with h3 | h3 <;>
    simp only [h1, h2, h3] <;> simp

theorem mkGroup_flags (t : Tables5) (m : MaxLens5) :
    (mkGroup t m).isTrivialLiteral = trivLit t ∧ (mkGroup t m).isTrivialCode = trivCode t ∧
    (mkGroup t m).usePackedTable = usePacked t m ∧
    (trivLit t = true → (mkGroup t m).literalARB =
      if trivCode t then arb t ||| (UInt32.ofNat (cell t.green 0).value <<< 8) else arb t) ∧
    (usePacked t m = true → (mkGroup t m).packedTable =
      packedLoop t.green t.red t.blue t.alpha 64 0 (Array.replicate 64 (0, 0))) := by
  obtain ⟨h1, h2, h3⟩ := flag_state t m
  unfold mkGroup buildPackedTable
  simp only [h1, h2, h3]
  unfold usePacked trivCode arb
  simp only [Webp.Impl.VP8LFastPaths.numLiteralCodes, huffmanPackedBits, huffmanPackedTableSize]
  clear h1 h2 h3
  generalize trivLit t = a
  generalize (totalBits t == 0) = b
  by_cases hc : (cell t.green 0).value < 256 <;> by_cases hd : m.green + m.red + m.blue + m.alpha < 6 <;>
    cases a <;> cases b <;> simp [hc, hd]


/-! ## pure `uint32` word facts (`|` is associative and commutative) -/

theorem or_shuffle1 (x y z b : UInt32) : (x ||| y ||| b) ||| z = x ||| y ||| z ||| b := by
  rw [UInt32.or_assoc (x ||| y) b z, UInt32.or_comm b z, ← UInt32.or_assoc]

theorem or_shuffle2 (x y z b : UInt32) : ((((0 : UInt32) ||| z) ||| y) ||| b) ||| x = x ||| y ||| z ||| b := by
  rw [UInt32.zero_or, UInt32.or_comm z y, UInt32.or_comm _ x, ← UInt32.or_assoc, ← UInt32.or_assoc]

/-- the four `accumulateHCode` updates of `huff.Value` (shifts 8, 16, 0, 24, starting from 0) give the
    general path's `alpha<<24 | red<<16 | green<<8 | blue` -/
theorem pack_accumulate (a r g b : UInt32) :
    ((((0 : UInt32) ||| g <<< (8 : Nat).toUInt32) ||| r <<< (16 : Nat).toUInt32) ||| b <<< (0 : Nat).toUInt32) |||
        a <<< (24 : Nat).toUInt32 = a <<< 24 ||| r <<< 16 ||| g <<< 8 ||| b := by
  have e0 : (0 : Nat).toUInt32 = 0 := rfl
  have e8 : (8 : Nat).toUInt32 = 8 := rfl
  have e16 : (16 : Nat).toUInt32 = 16 := rfl
  have e24 : (24 : Nat).toUInt32 = 24 := rfl
  rw [e0, e8, e16, e24, UInt32.shiftLeft_zero]
  exact or_shuffle2 _ _ _ _

/-- the flag `table[0].Bits == 0` on a built table: every lookup returns `table[0].Value` and uses 0 bits -/
theorem single_of_cell0 {t : Table} {M N : Nat} (hT : TSpec t M N) (h0 : (cell t 0).bits = 0) (w : Nat) :
    readSymbolRaw 8 t w = .ok (some ((cell t 0).value, 0)) := by
  rcases hT.dich with ⟨s, hall⟩ | hpos
  · have := (cell_of_raw (hall 0) (by decide)).2
    simp only [Nat.zero_mod] at this
    rw [this]; exact hall w
  · exfalso
    obtain ⟨s, l, _, _, hall⟩ := hT.look 0
    have hr := hall 0 rfl
    have := cell_bits_pos_of_raw hr (hpos 0 s l hr)
    simp only [Nat.zero_mod] at this
    omega

/-- red, blue, alpha of the general path when the three tables are single-symbol tables -/
theorem readRBA_trivial (g : HTreeGroup) {Mr Nr Mb Nb Ma Na : Nat}
    (hr : TSpec g.red Mr Nr) (hb : TSpec g.blue Mb Nb) (ha : TSpec g.alpha Ma Na)
    (hr0 : (cell g.red 0).bits = 0) (hb0 : (cell g.blue 0).bits = 0) (ha0 : (cell g.alpha 0).bits = 0)
    (w code used : Nat) :
    readRBA g w code used = .ok (some (.literal
      ((UInt32.ofNat (cell g.alpha 0).value <<< 24 ||| UInt32.ofNat (cell g.red 0).value <<< 16 |||
        UInt32.ofNat (cell g.blue 0).value) ||| UInt32.ofNat code <<< 8) used)) := by
  unfold readRBA
  simp only [huffmanTableBits, single_of_cell0 hr hr0, single_of_cell0 hb hb0, single_of_cell0 ha ha0, bindSym,
    Nat.add_zero, or_shuffle1]


/-- what `buildPackedTable` stores at the index `w & 63`, against the four sequential `ReadSymbol`
    calls of the general path on the REAL look-ahead `w` -/
theorem packedEntry_spec {tg tr tb ta : Table} {Mg Mr Mb Ma Ng Nr Nb Na : Nat}
    (hg : TSpec tg Mg Ng) (hr : TSpec tr Mr Nr) (hb : TSpec tb Mb Nb) (ha : TSpec ta Ma Na)
    (hM : Mg + Mr + Mb + Ma < 6) (w : Nat) :
    ∃ sg l1, sg < Ng ∧ readSymbolRaw 8 tg w = .ok (some (sg, l1)) ∧ l1 < 6 ∧
      (256 ≤ sg → packedEntry tg tr tb ta (w % 64) = (l1 + 256, UInt32.ofNat sg)) ∧
      (sg < 256 → ∃ sr l2 sb l3 sa l4,
        readSymbolRaw 8 tr (w >>> l1) = .ok (some (sr, l2)) ∧
        readSymbolRaw 8 tb (w >>> l1 >>> l2) = .ok (some (sb, l3)) ∧
        readSymbolRaw 8 ta (w >>> l1 >>> l2 >>> l3) = .ok (some (sa, l4)) ∧
        l1 + l2 + l3 + l4 < 6 ∧
        packedEntry tg tr tb ta (w % 64) = (l1 + l2 + l3 + l4,
          UInt32.ofNat sa <<< 24 ||| UInt32.ofNat sr <<< 16 ||| UInt32.ofNat sg <<< 8 ||| UInt32.ofNat sb)) := by
  obtain ⟨sg, l1, hsg, hl1, hraw1, hc1, hw1⟩ := packed_step hg w (w % 64) 6 rfl (by omega) (Nat.le_refl _)
  refine ⟨sg, l1, hsg, hraw1, by omega, ?_, ?_⟩
  · intro h256
    unfold packedEntry
    simp only [hc1]
    rw [if_pos (by show sg ≥ 256; omega)]
    rfl
  · intro h256
    obtain ⟨sr, l2, hsr, hl2, hraw2, hc2, hw2⟩ :=
      packed_step hr (w >>> l1) ((w % 64) >>> l1) (6 - l1) hw1 (by omega) (by omega)
    obtain ⟨sb, l3, hsb, hl3, hraw3, hc3, hw3⟩ :=
      packed_step hb (w >>> l1 >>> l2) ((w % 64) >>> l1 >>> l2) (6 - l1 - l2) hw2 (by omega) (by omega)
    obtain ⟨sa, l4, hsa, hl4, hraw4, hc4, hw4⟩ :=
      packed_step ha (w >>> l1 >>> l2 >>> l3) ((w % 64) >>> l1 >>> l2 >>> l3) (6 - l1 - l2 - l3) hw3 (by omega) (by omega)
    refine ⟨sr, l2, sb, l3, sa, l4, hraw2, hraw3, hraw4, by omega, ?_⟩
    unfold packedEntry accumulateHCode
    simp only [hc1]
    rw [if_neg (by show ¬ sg ≥ 256; omega)]
    simp only [hc2, hc3, hc4, Nat.zero_add, pack_accumulate]


/-! ## the three fast paths -/

section paths
variable (t : Tables5) (m : MaxLens5) {Ng Nr Nb Na : Nat}

theorem trivLit_bits {t : Tables5} (h : trivLit t = true) :
    (cell t.red 0).bits = 0 ∧ (cell t.blue 0).bits = 0 ∧ (cell t.alpha 0).bits = 0 := by
  unfold trivLit at h
  simpa [Bool.and_eq_true, and_assoc] using h

/-- (2) `IsTrivialCode`: no bits read, pixel `LiteralARB` -/
theorem trivialCode_eq_general (hg : TSpec t.green m.green Ng) (hr : TSpec t.red m.red Nr)
    (hb : TSpec t.blue m.blue Nb) (ha : TSpec t.alpha m.alpha Na) (htc : trivCode t = true) (w : Nat) :
    readLiteralFast (mkGroup t m) w = readLiteralGeneral (mkGroup t m) w := by
  obtain ⟨eg, er, eb, ea⟩ := mkGroup_tables t m
  obtain ⟨f1, f2, f3, f4, f5⟩ := mkGroup_flags t m
  have htc' := htc
  unfold trivCode at htc'
  simp only [Bool.and_eq_true, beq_iff_eq, decide_eq_true_eq] at htc'
  obtain ⟨htl, htot, hval⟩ := htc'
  obtain ⟨hr0, hb0, ha0⟩ := trivLit_bits htl
  have hg0 : (cell t.green 0).bits = 0 := by unfold totalBits at htot; omega
  unfold readLiteralFast readLiteralGeneral
  rw [f2, htc, if_pos rfl, eg]
  simp only [huffmanTableBits, single_of_cell0 hg hg0, bindSym]
  rw [if_pos (by show _ < 256; exact hval),
    readRBA_trivial (mkGroup t m) (er.symm ▸ hr) (eb.symm ▸ hb) (ea.symm ▸ ha) (by rw [er]; exact hr0)
      (by rw [eb]; exact hb0) (by rw [ea]; exact ha0), f4 htl, htc, if_pos rfl, er, eb, ea]
  rfl

/-- (1) `IsTrivialLiteral`: green by `ReadSymbol`, pixel `LiteralARB | green<<8` -/
theorem trivialLiteral_eq_general (hr : TSpec t.red m.red Nr)
    (hb : TSpec t.blue m.blue Nb) (ha : TSpec t.alpha m.alpha Na) (htl : trivLit t = true)
    (htc : trivCode t = false) (hp : usePacked t m = false) (w : Nat) :
    readLiteralFast (mkGroup t m) w = readLiteralGeneral (mkGroup t m) w := by
  obtain ⟨eg, er, eb, ea⟩ := mkGroup_tables t m
  obtain ⟨f1, f2, f3, f4, f5⟩ := mkGroup_flags t m
  obtain ⟨hr0, hb0, ha0⟩ := trivLit_bits htl
  unfold readLiteralFast readLiteralGeneral
  rw [f2, htc, f3, hp, f1, htl]
  simp only [Bool.false_eq_true, if_false, if_true]
  simp only [readRBA_trivial (mkGroup t m) (er.symm ▸ hr) (eb.symm ▸ hb) (ea.symm ▸ ha) (by rw [er]; exact hr0)
      (by rw [eb]; exact hb0) (by rw [ea]; exact ha0), f4 htl, htc, er, eb, ea]
  rfl


/-- (3) `UsePackedTable`: one lookup at `prefetch & 63` against four sequential `ReadSymbol`s.
    `Ng ≤ 2^32`: the green symbol survives `uint32(hcode.Value)` / `int(code.Value)`. -/
theorem packedTable_eq_sequential (hg : TSpec t.green m.green Ng) (hr : TSpec t.red m.red Nr)
    (hb : TSpec t.blue m.blue Nb) (ha : TSpec t.alpha m.alpha Na) (hNg : Ng ≤ 2 ^ 32)
    (htc : trivCode t = false) (hp : usePacked t m = true) (w : Nat) :
    readLiteralFast (mkGroup t m) w = readLiteralGeneral (mkGroup t m) w := by
  obtain ⟨eg, er, eb, ea⟩ := mkGroup_tables t m
  obtain ⟨f1, f2, f3, f4, f5⟩ := mkGroup_flags t m
  have hM : m.green + m.red + m.blue + m.alpha < 6 := by
    unfold usePacked at hp
    simp only [Bool.and_eq_true, decide_eq_true_eq] at hp
    exact hp.2
  obtain ⟨sg, l1, hsg, hraw1, hl1, hcode, hlit⟩ := packedEntry_spec hg hr hb ha hM w
  have hentry : (mkGroup t m).packedTable.getD (w &&& (huffmanPackedTableSize - 1)) (0, 0) =
      packedEntry t.green t.red t.blue t.alpha (w % 64) := by
    have e : w &&& (huffmanPackedTableSize - 1) = w % 64 := by
      show w &&& ((1 <<< 6) - 1) = _
      rw [mask_eq, show (2 : Nat) ^ 6 = 64 from by decide]
    rw [e, f5 hp, packedLoop_getD _ _ _ _ 64 0 _ rfl (by simp) (w % 64) (Nat.mod_lt _ (by decide)),
      if_pos (Nat.zero_le _)]
  by_cases h256 : sg < 256
  · obtain ⟨sr, l2, sb, l3, sa, l4, hraw2, hraw3, hraw4, hsum, he⟩ := hlit h256
    have hps : readPackedSymbols (mkGroup t m) w =
        (UInt32.ofNat sa <<< 24 ||| UInt32.ofNat sr <<< 16 ||| UInt32.ofNat sg <<< 8 ||| UInt32.ofNat sb, 0, true,
          l1 + l2 + l3 + l4) := by
      simp only [readPackedSymbols, hentry, he]
      rw [if_pos (by show _ < 256; omega)]
    unfold readLiteralFast readLiteralGeneral
    rw [f2, htc, f3, hp, eg, hps]
    simp only [Bool.false_eq_true, if_false, if_true, huffmanTableBits, hraw1, bindSym]
    rw [if_pos (by show sg < 256; exact h256)]
    unfold readRBA
    simp only [er, eb, ea, huffmanTableBits, hraw2, hraw3, hraw4, bindSym]
  · have hround : (UInt32.ofNat sg).toNat = sg := by
      rw [UInt32.toNat_ofNat']
      exact Nat.mod_eq_of_lt (by omega)
    have hps : readPackedSymbols (mkGroup t m) w = (0, sg, false, l1) := by
      simp only [readPackedSymbols, hentry, hcode (by omega)]
      rw [if_neg (by show ¬ _ < 256; omega), hround]
      simp [bitsSpecialMarker]
    unfold readLiteralFast readLiteralGeneral
    rw [f2, htc, f3, hp, eg, hps]
    simp only [Bool.false_eq_true, if_false, if_true, huffmanTableBits, hraw1, bindSym]
    rw [if_neg (by show ¬ sg < 256; exact h256), if_neg (by show ¬ sg < 256; exact h256)]

/-- all flags, as `mkGroup` computes them -/
theorem fast_eq_general_of_tspec (hg : TSpec t.green m.green Ng) (hr : TSpec t.red m.red Nr)
    (hb : TSpec t.blue m.blue Nb) (ha : TSpec t.alpha m.alpha Na) (hNg : Ng ≤ 2 ^ 32) (w : Nat) :
    readLiteralFast (mkGroup t m) w = readLiteralGeneral (mkGroup t m) w := by
  rcases Bool.eq_false_or_eq_true (trivCode t) with htc | htc
  · exact trivialCode_eq_general t m hg hr hb ha htc w
  rcases Bool.eq_false_or_eq_true (usePacked t m) with hp | hp
  · exact packedTable_eq_sequential t m hg hr hb ha hNg htc hp w
  rcases Bool.eq_false_or_eq_true (trivLit t) with htl | htl
  · exact trivialLiteral_eq_general t m hr hb ha htl htc hp w
  · obtain ⟨f1, f2, f3, _, _⟩ := mkGroup_flags t m
    unfold readLiteralFast readLiteralGeneral
    rw [f2, htc, f3, hp, f1, htl]
    simp only [Bool.false_eq_true, if_false]

end paths

/-- **trivial_paths_eq_general**: for the five tables `readHuffmanCodes` builds from accepted length
    vectors (green of `256 + 24 + c` symbols, `c` the colour-cache size; red, blue, alpha of 256;
    distance of 40) and the flags it computes, on EVERY look-ahead value `w` the loop's fast paths
    (`IsTrivialCode`, `UsePackedTable`, `IsTrivialLiteral`) yield the same pixel or the same green symbol
    and consume the same number of bits as the four-`ReadSymbol` general path. -/
theorem trivial_paths_eq_general (lg lr lb la ld : Array Nat) (c : Nat) (hc : c ≤ 2048)
    (hsg : lg.size = 256 + 24 + c) (hsr : lr.size = 256) (hsb : lb.size = 256) (hsa : la.size = 256)
    (hsd : ld.size = 40)
    {cg cr cb ca cd : Code}
    (hcg : buildCode lg = .ok cg) (hcr : buildCode lr = .ok cr) (hcb : buildCode lb = .ok cb)
    (hca : buildCode la = .ok ca) (hcd : buildCode ld = .ok cd)
    {tg tr tb ta td : Table}
    (htg : buildTable 8 lg = .ok tg) (htr : buildTable 8 lr = .ok tr) (htb : buildTable 8 lb = .ok tb)
    (hta : buildTable 8 la = .ok ta) (htd : buildTable 8 ld = .ok td) (w : Nat) :
    let g := mkGroup ⟨tg, tr, tb, ta, td⟩ ⟨maxLenOf lg, maxLenOf lr, maxLenOf lb, maxLenOf la, maxLenOf ld⟩
    readLiteralFast g w = readLiteralGeneral g w := by
  intro g
  exact fast_eq_general_of_tspec ⟨tg, tr, tb, ta, td⟩ ⟨maxLenOf lg, maxLenOf lr, maxLenOf lb, maxLenOf la, maxLenOf ld⟩
    (tspec_of_buildCode hcg htg) (tspec_of_buildCode hcr htr) (tspec_of_buildCode hcb htb)
    (tspec_of_buildCode hca hta) (by rw [hsg]; omega) w


/-- a table whose codes have at most 6 bits: the root cell at `w & 63` (what `buildPackedTable` indexes,
    the upper two index bits being zero) is the root cell at `w & 255` (what `ReadSymbol` indexes) -/
theorem root_cell_low6 {t : Table} {M N : Nat} (hT : TSpec t M N) (hM : M ≤ 6) (w : Nat) :
    cell t ((w &&& 63) &&& huffmanTableMask) = cell t (w &&& huffmanTableMask) := by
  obtain ⟨s, l, _, hl, hall⟩ := hT.look w
  have e63 : w &&& 63 = w % 2 ^ 6 := Nat.and_two_pow_sub_one_eq_mod w 6
  have em : ∀ x, x &&& huffmanTableMask = x % 256 := by
    intro x
    show x &&& ((1 <<< 8) - 1) = _
    rw [mask_eq, show (2 : Nat) ^ 8 = 256 from by decide]
  rw [em, em, e63]
  rw [(cell_of_raw (hall w rfl) (by omega)).2,
    (cell_of_raw (hall (w % 2 ^ 6) (window_low w 6 l (by omega))) (by omega)).2]

/-- the general path never hits the `-1` sentinel, never indexes outside a table -/
theorem readLiteralGeneral_ok (g : HTreeGroup) {Mg Ng Mr Nr Mb Nb Ma Na : Nat}
    (hg : TSpec g.green Mg Ng) (hr : TSpec g.red Mr Nr) (hb : TSpec g.blue Mb Nb) (ha : TSpec g.alpha Ma Na)
    (w : Nat) : ∃ o, readLiteralGeneral g w = .ok (some o) := by
  unfold readLiteralGeneral
  obtain ⟨sg, l1, _, _, h1⟩ := hg.look w
  simp only [huffmanTableBits, h1 w rfl, bindSym]
  split
  · unfold readRBA
    obtain ⟨sr, l2, _, _, h2⟩ := hr.look (w >>> l1)
    obtain ⟨sb, l3, _, _, h3⟩ := hb.look (w >>> l1 >>> l2)
    obtain ⟨sa, l4, _, _, h4⟩ := ha.look (w >>> l1 >>> l2 >>> l3)
    simp only [huffmanTableBits, h2 _ rfl, h3 _ rfl, h4 _ rfl, bindSym]
    exact ⟨_, rfl⟩
  · exact ⟨_, rfl⟩


/-- how the loop reads a packed entry -/
def ofEntry (e : HCode32) : Out :=
  if e.1 < 256 then .literal e.2 e.1 else .code e.2.toNat (e.1 - 256)

/-- **`maxBits < 6` ⇒ the low 6 bits decide everything**: with the packed table in use, the general
    path's result (all four symbols and the number of bits) is a function of `w % 64` — namely the
    packed entry -/
theorem general_decided_by_low6 (t : Tables5) (m : MaxLens5) {Ng Nr Nb Na : Nat}
    (hg : TSpec t.green m.green Ng) (hr : TSpec t.red m.red Nr)
    (hb : TSpec t.blue m.blue Nb) (ha : TSpec t.alpha m.alpha Na) (hNg : Ng ≤ 2 ^ 32)
    (hp : usePacked t m = true) (w : Nat) :
    readLiteralGeneral (mkGroup t m) w =
      .ok (some (ofEntry (packedEntry t.green t.red t.blue t.alpha (w % 64)))) := by
  obtain ⟨eg, er, eb, ea⟩ := mkGroup_tables t m
  have hM : m.green + m.red + m.blue + m.alpha < 6 := by
    unfold usePacked at hp
    simp only [Bool.and_eq_true, decide_eq_true_eq] at hp
    exact hp.2
  obtain ⟨sg, l1, hsg, hraw1, hl1, hcode, hlit⟩ := packedEntry_spec hg hr hb ha hM w
  unfold readLiteralGeneral ofEntry
  rw [eg]
  simp only [huffmanTableBits, hraw1, bindSym]
  by_cases h256 : sg < 256
  · obtain ⟨sr, l2, sb, l3, sa, l4, hraw2, hraw3, hraw4, hsum, he⟩ := hlit h256
    rw [he, if_pos (by show sg < 256; exact h256), if_pos (by show _ < 256; omega)]
    unfold readRBA
    simp only [er, eb, ea, huffmanTableBits, hraw2, hraw3, hraw4, bindSym]
  · have hround : (UInt32.ofNat sg).toNat = sg := by
      rw [UInt32.toNat_ofNat']
      exact Nat.mod_eq_of_lt (by omega)
    rw [hcode (by omega), if_neg (by show ¬ sg < 256; exact h256), if_neg (by show ¬ _ < 256; omega), hround]
    simp

theorem general_low6_congr (t : Tables5) (m : MaxLens5) {Ng Nr Nb Na : Nat}
    (hg : TSpec t.green m.green Ng) (hr : TSpec t.red m.red Nr)
    (hb : TSpec t.blue m.blue Nb) (ha : TSpec t.alpha m.alpha Na) (hNg : Ng ≤ 2 ^ 32)
    (hp : usePacked t m = true) (w w' : Nat) (h : w % 64 = w' % 64) :
    readLiteralGeneral (mkGroup t m) w = readLiteralGeneral (mkGroup t m) w' := by
  rw [general_decided_by_low6 t m hg hr hb ha hNg hp, general_decided_by_low6 t m hg hr hb ha hNg hp, h]


/-! ## non-vacuity

  Kernel evaluation of `buildTable` on a 256-entry vector takes minutes on the build machine, so the
  tables are obtained structurally (`buildTable_ok_of_buildCode`); only `buildCode`, `maxLenOf`,
  `offs` are evaluated (`decide +kernel`).  Values by `#eval` (compiled evaluation, NOT part of the
  proof) for `gP = mkGroup` of `lgE, lcE, lcE, lcE, ldE` below, `w = 0..7`, fast path | general path:

      flags (isTrivialCode, isTrivialLiteral, usePackedTable) = (false, false, true)
      lit 50528259 5 | lit 50528259 5      lit 50593539 5 | lit 50593539 5
      lit 50530051 5 | lit 50530051 5      code 256 2     | code 256 2
      lit 63438851 5 | lit 63438851 5      lit 63504131 5 | lit 63504131 5
      lit 63440643 5 | lit 63440643 5      code 256 2     | code 256 2
      (List.range 100000).all (fun w => readLiteralFast gP w = readLiteralGeneral gP w) = true

  green = 8 symbols (0,36,…,252) of 3 bits, red/blue/alpha single symbols 17/34/255 (maxBits = 6):
      flags = (false, true, false), LiteralARB = 0xff110022;  w = 0,1: lit 4279304226 3, lit 4279341090 3  (both paths)
  green single symbol 5, red/blue/alpha single, dist single:
      flags = (true, true, false), LiteralARB = 0xff110522;  every w: lit 4279305506 0  (both paths)
  green single symbol 256 (a length prefix), everything else single:
      flags = (false, true, true);  every w: code 256 0  (both paths; the packed entry is (0x100, 256))

  The bound matters (the zero-filled window of `buildPackedTable`): green {0,7,254,255} 2 bits, red and
  blue {0,1,2,3} 2 bits, alpha {3,200} 1 bit, i.e. maxBits = 7.  `mkGroup` gives usePackedTable = false;
  had the table been built, `packedEntry … (64 % 64)` = (7, 0x03000000) whereas the general path on
  w = 64 yields `literal 0xc8000000 7` (alpha is decided by stream bit 6, which `code < 64` cannot hold);
  the two differ for every w in 64..127.  `packed_step` needs only `M ≤ k`, so `maxBits ≤ 6` would
  be sound; Go (like libwebp) uses the stricter `maxBits < 6`.
-/
namespace Examples

theorem ok_of_isSome {r : R Code} (h : r.toOption.isSome = true) : ∃ c, r = .ok c := by
  cases r <;> simp [Res.toOption] at h
  exact ⟨_, rfl⟩

/-- green + length: symbols 0, 7, 255 and the length prefix 256 with two bits each (no colour cache) -/
def lgE : Array Nat := ((((Array.replicate 280 0).set! 0 2).set! 7 2).set! 255 2).set! 256 2
/-- red = blue = alpha: symbols 3 and 200, one bit each -/
def lcE : Array Nat := ((Array.replicate 256 0).set! 3 1).set! 200 1
/-- distance: one symbol -/
def ldE : Array Nat := (Array.replicate 40 0).set! 0 1

set_option maxRecDepth 100000 in
theorem lgE_ok : (buildCode lgE).toOption.isSome = true ∧ lgE.size = 256 + 24 + 0 ∧ maxLenOf lgE = 2 := by
  decide +kernel
set_option maxRecDepth 100000 in
theorem lcE_ok : (buildCode lcE).toOption.isSome = true ∧ lcE.size = 256 ∧ maxLenOf lcE = 1 ∧ offs lcE 16 = 2 := by
  decide +kernel
set_option maxRecDepth 100000 in
theorem ldE_ok : (buildCode ldE).toOption.isSome = true ∧ ldE.size = 40 := by decide +kernel

/-- NON-VACUITY of `trivial_paths_eq_general` and of the packed-table branch: the tables exist, the
    flags come out `UsePackedTable = true`, `IsTrivialCode = IsTrivialLiteral = false`, and the fast
    path equals the general path on every look-ahead. -/
theorem packed_example :
    ∃ tg tc td, buildTable 8 lgE = .ok tg ∧ buildTable 8 lcE = .ok tc ∧ buildTable 8 ldE = .ok td ∧
      let g := mkGroup ⟨tg, tc, tc, tc, td⟩ ⟨maxLenOf lgE, maxLenOf lcE, maxLenOf lcE, maxLenOf lcE, maxLenOf ldE⟩
      g.usePackedTable = true ∧ g.isTrivialCode = false ∧ g.isTrivialLiteral = false ∧
      ∀ w, readLiteralFast g w = readLiteralGeneral g w := by
  obtain ⟨cg, hcg⟩ := ok_of_isSome lgE_ok.1
  obtain ⟨cc, hcc⟩ := ok_of_isSome lcE_ok.1
  obtain ⟨cd, hcd⟩ := ok_of_isSome ldE_ok.1
  obtain ⟨tg, htg⟩ := buildTable_ok_of_buildCode hcg 8 (by decide) (by decide)
  obtain ⟨tc, htc⟩ := buildTable_ok_of_buildCode hcc 8 (by decide) (by decide)
  obtain ⟨td, htd⟩ := buildTable_ok_of_buildCode hcd 8 (by decide) (by decide)
  refine ⟨tg, tc, td, htg, htc, htd, ?_⟩
  intro g
  obtain ⟨f1, f2, f3, _, _⟩ :=
    mkGroup_flags ⟨tg, tc, tc, tc, td⟩ ⟨maxLenOf lgE, maxLenOf lcE, maxLenOf lcE, maxLenOf lcE, maxLenOf ldE⟩
  have hbits : (cell tc 0).bits ≠ 0 := by
    intro h0
    have := (cell0_bits_eq_zero_iff hcc htc).mp h0
    rw [lcE_ok.2.2.2] at this; cases this
  have htl : trivLit ⟨tg, tc, tc, tc, td⟩ = false := by
    unfold trivLit; simp [hbits]
  have htcode : trivCode ⟨tg, tc, tc, tc, td⟩ = false := by
    unfold trivCode; rw [htl]; rfl
  refine ⟨?_, ?_, ?_, fun w => ?_⟩
  · show (mkGroup _ _).usePackedTable = true
    rw [f3]; unfold usePacked; rw [htcode, lgE_ok.2.2, lcE_ok.2.2.1]; rfl
  · show (mkGroup _ _).isTrivialCode = false
    rw [f2, htcode]
  · show (mkGroup _ _).isTrivialLiteral = false
    rw [f1, htl]
  · exact trivial_paths_eq_general lgE lcE lcE lcE ldE 0 (by decide) lgE_ok.2.1 lcE_ok.2.1 lcE_ok.2.1 lcE_ok.2.1
      ldE_ok.2 hcg hcc hcc hcc hcd htg htc htc htc htd w


end Examples

end Webp.Proofs.VP8LFastPaths
