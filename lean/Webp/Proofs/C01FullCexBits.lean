import Webp.Props.C01Full
import Webp.Proofs.C07Plans
/-
  Bit-level facts for `Webp.Props.C01FullCex.unused_trailing_group_counterexample`: two 8×1 plans,
  `bad` (three groups written, highest symbol 1) and `good` (two groups, a DIFFERENT picture), and the
  proof that the bits `bad` writes after its second group begin with the pixel data of `good`.
  Everything is derived with the lemmas of the entropy layer; kernel evaluation of the emitter on
  280-symbol alphabets takes minutes and is avoided.
-/
namespace Webp.Props.C01FullCex
open Webp.Go
open Webp.Spec.VP8L
open Webp.Impl.VP8LEntropy
open Webp.Proofs.VP8LEntropyStream.Examples (one one_valid zero_valid)
open Webp.Props.C01Full.Example (two01 two01_valid entropyPlan entropy_valid)

def a0 : UInt32 := 0xff100030
def a1 : UInt32 := 0xff100130
def b0 : UInt32 := 0x80400060
def b1 : UInt32 := 0x80400160

def groupA : GroupPlan :=
  { lens5 := [two01, one 256 0x10, one 256 0x30, one 256 0xff, Array.replicate 40 0], cl5 := [#[], #[], #[], #[], #[]] }
def groupB : GroupPlan :=
  { lens5 := [two01, one 256 0x40, one 256 0x60, one 256 0x80, Array.replicate 40 0], cl5 := [#[], #[], #[], #[], #[]] }
def groupC : GroupPlan :=
  { lens5 := [Array.replicate 280 0, Array.replicate 256 0, Array.replicate 256 0, Array.replicate 256 0,
              Array.replicate 40 0], cl5 := [#[], #[], #[], #[], #[]] }

def srcL : List UInt32 := [a0, a0, a0, a0, b0, b0, b0, b0]
def wrongL : List UInt32 := [a1, a0, a0, a0, b1, b0, b0, b0]
def source : Array UInt32 := srcL.toArray
def wrong : Array UInt32 := wrongL.toArray

def mainOf (refs : List PixOrCopy) (groups : List GroupPlan) : MainPlan :=
  { width := 8, height := 1, refs := refs, groups := groups, histoBits := 2, symbols := #[0, 1], entropy := entropyPlan }

def bad : StreamPlanMeta :=
  { width := 8, height := 1, hasAlpha := true, transforms := [], cacheBits := 0,
    main := mainOf (srcL.map PixOrCopy.literal) [groupA, groupB, groupC] }

def good : StreamPlanMeta :=
  { width := 8, height := 1, hasAlpha := true, transforms := [], cacheBits := 0,
    main := mainOf (wrongL.map PixOrCopy.literal) [groupA, groupB] }

def sid (p : StreamPlanMeta) : List Call :=
  storeImageData (locality2D p.main.width p.main.refs) p.main.symbols (p.main.groups.map groupTrees).toArray
    p.main.width p.main.histoBits

/-- the bits the decoder does not read as pixels: the rest of group C's five empty codes and the real
    pixel data (eight 0 bits) -/
def surplus : List Bool :=
  [true, false, false, false, true, false, false, false, true, false, false, false,
   false, false, false, false, false, false, false, false]

/-- everything both plans write in front of the third group -/
def pre : List Call :=
  [(0x2f, 8), (8 - 1, 14), (1 - 1, 14), (1, 1), (0, 3)] ++ ([(0, 1)] ++ (storeColorCacheInfo 0 ++
    ((1, 1) :: (2 - 2, 3) :: encodeSubImage entropyPlan ++ (storeGroup groupA ++ storeGroup groupB))))

theorem bad_calls : encodeStreamMeta bad = pre ++ (storeGroup groupC ++ sid bad) := by
  simp only [encodeStreamMeta, encodeMainBody, bad, mainOf, pre, sid, List.flatMap_nil, List.flatMap_cons,
    List.nil_append, List.append_nil, List.append_assoc, List.length_cons, List.length_nil, if_true,
    List.cons_append, Nat.reduceAdd, Nat.reduceGT]

theorem good_calls : encodeStreamMeta good = pre ++ sid good := by
  simp only [encodeStreamMeta, encodeMainBody, good, mainOf, pre, sid, List.flatMap_nil, List.flatMap_cons,
    List.nil_append, List.append_nil, List.append_assoc, List.length_cons, List.length_nil, if_true,
    List.cons_append, Nat.reduceAdd, Nat.reduceGT]

/-! ### the bits, by the lemmas of the entropy layer (kernel evaluation of the emitter on 280-symbol
    alphabets takes minutes) -/

open Webp.Proofs.VP8LEntropyPrefix (symBits symBits_single symBits_multi codeWord)
open Webp.Proofs.VP8LEntropyCanon (offs)
open Webp.Proofs.VP8LEntropyRev (rev)
open Webp.Proofs.C01FullMeta (lensAt tokLen storeImageDataLoop_step)
open Webp.Proofs.VP8LEntropyTokens (tokenRef' treesOf effTree_bits)

theorem empty_code (n : Nat) (cl : Array Nat) :
    storeHuffmanCode (Array.replicate n 0) cl = [(1, 1), (0, 1), (0, 1), (0, 1)] := by
  rw [Webp.Proofs.VP8LEntropyCodeLengths.storeHuffmanCode_eq,
    Webp.Proofs.VP8LEntropyTokens.all_zero_usedList _ (fun l hl => by rw [Array.mem_replicate] at hl; exact hl.2)]
  rfl

theorem bitsC : callsBits (storeGroup groupC) =
    [true, false, false, false, true, false, false, false, true, false, false, false, true, false, false, false,
     true, false, false, false] := by
  simp only [storeGroup, groupC, List.zip_cons_cons, List.zip_nil_right, List.flatMap_cons, List.flatMap_nil,
    empty_code, List.append_nil]
  decide

/-- bits of one literal with the trees of the histogram at `pos` -/
def litBits (p : MainPlan) (pos : Nat) (v : UInt32) : List Bool :=
  symBits (lensAt p pos 0) ((v >>> 8) &&& 0xff).toNat ++ symBits (lensAt p pos 1) ((v >>> 16) &&& 0xff).toNat ++
  symBits (lensAt p pos 2) (v &&& 0xff).toNat ++ symBits (lensAt p pos 3) ((v >>> 24) &&& 0xff).toNat

def litsBits (p : MainPlan) : Nat → List UInt32 → List Bool
  | _, [] => []
  | pos, v :: vs => litBits p pos v ++ litsBits p (pos + 1) vs

theorem emitRef_literal (g r b a d : Array Nat) (v : UInt32) :
    callsBits (emitRef (treesOf g r b a d) (.literal v)) =
      symBits g ((v >>> 8) &&& 0xff).toNat ++ symBits r ((v >>> 16) &&& 0xff).toNat ++
      symBits b (v &&& 0xff).toNat ++ symBits a ((v >>> 24) &&& 0xff).toNat := by
  have t0 : (treesOf g r b a d).getD 0 default = effTree g := rfl
  have t1 : (treesOf g r b a d).getD 1 default = effTree r := rfl
  have t2 : (treesOf g r b a d).getD 2 default = effTree b := rfl
  have t3 : (treesOf g r b a d).getD 3 default = effTree a := rfl
  simp only [emitRef, t0, t1, t2, t3, Webp.Proofs.VP8LEntropyCodeLengths.callsBits_append, effTree_bits]

theorem sid_literals (p : MainPlan) (hw : 1 ≤ p.width) (hlens : ∀ g ∈ p.groups, g.lens5.length = 5)
    (hidx : ∀ pos, p.histoIdxAt pos < p.groups.length) :
    ∀ (vs : List UInt32) (pos x y : Nat), pos = y * p.width + x → x < p.width →
      callsBits (storeImageDataLoop p.symbols (p.groups.map groupTrees).toArray p.width p.histoBits
        (vs.map PixOrCopy.literal) x y) = litsBits p pos vs := by
  intro vs
  induction vs with
  | nil => intro _ _ _ _ _; rfl
  | cons v vs ih =>
    intro pos x y hxy hx
    obtain ⟨hstep, hxy', hx'⟩ := storeImageDataLoop_step p hlens (.literal v) (vs.map PixOrCopy.literal) pos x y
      hxy hx (hidx pos)
    have e : tokenRef' p.width (.literal v) = .literal v := rfl
    rw [e] at hstep
    simp only [List.map_cons]
    rw [hstep, Webp.Proofs.VP8LEntropyCodeLengths.callsBits_append, emitRef_literal]
    have e1 : tokLen (.literal v) = 1 := rfl
    rw [e1] at hxy' hx' ⊢
    rw [ih (pos + 1) _ _ hxy' hx']
    rfl

/-! the two green symbols cost one bit, every other symbol of groups A and B no bit -/

theorem two01_le15 : ∀ l ∈ two01, l ≤ 15 := two01_valid.2.1

theorem g0 : symBits two01 0 = [false] := by
  rw [symBits_multi two01 two01_le15 (by decide +kernel) (by decide +kernel) 0 (by decide +kernel) (by decide +kernel)]
  have e1 : two01.getD 0 0 = 1 := by decide +kernel
  have e2 : codeWord two01 0 = 0 := by decide +kernel
  rw [e1, e2]
  decide

theorem g1 : symBits two01 1 = [true] := by
  rw [symBits_multi two01 two01_le15 (by decide +kernel) (by decide +kernel) 1 (by decide +kernel) (by decide +kernel)]
  have e1 : two01.getD 1 0 = 1 := by decide +kernel
  have e2 : codeWord two01 1 = 1 := by decide +kernel
  rw [e1, e2]
  decide

theorem single (n s : Nat) (hs : s < n) (hs' : s < 256) (k : Nat) (hk : k < n) : symBits (one n s) k = [] := by
  have hv := one_valid n s hs hs' #[]
  have h15 : ∀ l ∈ one n s, l ≤ 15 := hv.2.1
  have hsz : (one n s).size = n := hv.1
  have h1 : offs (one n s) 16 = 1 := by
    rw [← Webp.Proofs.VP8LEntropyPrefix.used_count _ h15]
    have hl : (one n s).toList = List.replicate s 0 ++ 1 :: List.replicate (n - (s + 1)) 0 := by
      unfold one
      rw [Array.toList_setIfInBounds, Array.toList_replicate, List.set_eq_take_append_cons_drop]
      simp only [List.length_replicate, hs, if_true, List.take_replicate, List.drop_replicate]
      rw [Nat.min_eq_left (by omega)]
    rw [hl, List.filter_append, List.filter_cons, Webp.Proofs.VP8LEntropyStream.Examples.filter_replicate_zero,
      Webp.Proofs.VP8LEntropyStream.Examples.filter_replicate_zero]
    simp
  exact symBits_single _ h15 h1 k (by omega)

theorem litA (p : MainPlan) (pos : Nat) (h0 : lensAt p pos 0 = two01) (h1 : lensAt p pos 1 = one 256 0x10)
    (h2 : lensAt p pos 2 = one 256 0x30) (h3 : lensAt p pos 3 = one 256 0xff) :
    litBits p pos a0 = [false] ∧ litBits p pos a1 = [true] := by
  unfold litBits
  rw [h0, h1, h2, h3]
  have c1 : ((a0 >>> 8) &&& 0xff).toNat = 0 := by decide
  have c2 : ((a0 >>> 16) &&& 0xff).toNat = 0x10 := by decide
  have c3 : (a0 &&& 0xff).toNat = 0x30 := by decide
  have c4 : ((a0 >>> 24) &&& 0xff).toNat = 0xff := by decide
  have d1 : ((a1 >>> 8) &&& 0xff).toNat = 1 := by decide
  have d2 : ((a1 >>> 16) &&& 0xff).toNat = 0x10 := by decide
  have d3 : (a1 &&& 0xff).toNat = 0x30 := by decide
  have d4 : ((a1 >>> 24) &&& 0xff).toNat = 0xff := by decide
  rw [c1, c2, c3, c4, d1, d2, d3, d4, g0, g1, single 256 0x10 (by omega) (by omega) _ (by omega),
    single 256 0x30 (by omega) (by omega) _ (by omega), single 256 0xff (by omega) (by omega) _ (by omega)]
  exact ⟨rfl, rfl⟩

theorem litB (p : MainPlan) (pos : Nat) (h0 : lensAt p pos 0 = two01) (h1 : lensAt p pos 1 = one 256 0x40)
    (h2 : lensAt p pos 2 = one 256 0x60) (h3 : lensAt p pos 3 = one 256 0x80) :
    litBits p pos b0 = [false] ∧ litBits p pos b1 = [true] := by
  unfold litBits
  rw [h0, h1, h2, h3]
  have c1 : ((b0 >>> 8) &&& 0xff).toNat = 0 := by decide
  have c2 : ((b0 >>> 16) &&& 0xff).toNat = 0x40 := by decide
  have c3 : (b0 &&& 0xff).toNat = 0x60 := by decide
  have c4 : ((b0 >>> 24) &&& 0xff).toNat = 0x80 := by decide
  have d1 : ((b1 >>> 8) &&& 0xff).toNat = 1 := by decide
  have d2 : ((b1 >>> 16) &&& 0xff).toNat = 0x40 := by decide
  have d3 : (b1 &&& 0xff).toNat = 0x60 := by decide
  have d4 : ((b1 >>> 24) &&& 0xff).toNat = 0x80 := by decide
  rw [c1, c2, c3, c4, d1, d2, d3, d4, g0, g1, single 256 0x40 (by omega) (by omega) _ (by omega),
    single 256 0x60 (by omega) (by omega) _ (by omega), single 256 0x80 (by omega) (by omega) _ (by omega)]
  exact ⟨rfl, rfl⟩

theorem sym01 (i : Nat) : (#[0, 1] : Array Nat).getD i 0 ≤ 1 := by
  match i with
  | 0 => decide
  | 1 => decide
  | n + 2 => simp

theorem histoIdx_le (refs : List PixOrCopy) (gs : List GroupPlan) (pos : Nat) :
    (mainOf refs gs).histoIdxAt pos ≤ 1 := by
  unfold MainPlan.histoIdxAt mainOf
  simp only
  split
  · exact sym01 _
  · omega

theorem sid_eq (p : StreamPlanMeta) (vs : List UInt32) (gs : List GroupPlan)
    (hm : p.main = mainOf (vs.map PixOrCopy.literal) gs) (hg : 2 ≤ gs.length)
    (hlens : ∀ g ∈ gs, g.lens5.length = 5) :
    callsBits (sid p) = litsBits p.main 0 vs := by
  unfold sid storeImageData
  have hloc : locality2D p.main.width p.main.refs = vs.map PixOrCopy.literal := by
    rw [hm, Webp.Proofs.VP8LEntropyTokens.locality2D_eq]
    show List.map _ (vs.map PixOrCopy.literal) = _
    rw [List.map_map]
    apply List.map_congr_left
    intro v _
    rfl
  rw [hloc]
  exact sid_literals p.main (by rw [hm]; show 1 ≤ 8; omega) (by rw [hm]; exact hlens)
    (fun pos => by
      rw [hm]
      have := histoIdx_le (vs.map PixOrCopy.literal) gs pos
      show _ < gs.length
      omega) vs 0 0 0 (by simp) (by rw [hm]; show 0 < 8; omega)

theorem lensAt_of (p : MainPlan) (pos i k : Nat) (hk : p.histoIdxAt pos = k) :
    lensAt p pos i = (p.groups.getD k default).lens5.getD i #[] := by
  unfold lensAt Webp.Proofs.C01FullMeta.GroupPlan.l
  rw [hk]


theorem lensBadA : ∀ pos, pos < 4 → lensAt bad.main pos 0 = two01 ∧ lensAt bad.main pos 1 = one 256 0x10 ∧
    lensAt bad.main pos 2 = one 256 0x30 ∧ lensAt bad.main pos 3 = one 256 0xff := by decide +kernel
theorem lensBadB : ∀ pos, pos < 8 → 4 ≤ pos → lensAt bad.main pos 0 = two01 ∧ lensAt bad.main pos 1 = one 256 0x40 ∧
    lensAt bad.main pos 2 = one 256 0x60 ∧ lensAt bad.main pos 3 = one 256 0x80 := by decide +kernel
theorem lensGoodA : ∀ pos, pos < 4 → lensAt good.main pos 0 = two01 ∧ lensAt good.main pos 1 = one 256 0x10 ∧
    lensAt good.main pos 2 = one 256 0x30 ∧ lensAt good.main pos 3 = one 256 0xff := by decide +kernel
theorem lensGoodB : ∀ pos, pos < 8 → 4 ≤ pos → lensAt good.main pos 0 = two01 ∧ lensAt good.main pos 1 = one 256 0x40 ∧
    lensAt good.main pos 2 = one 256 0x60 ∧ lensAt good.main pos 3 = one 256 0x80 := by decide +kernel

theorem litA' (p : MainPlan) (pos : Nat) (h : lensAt p pos 0 = two01 ∧ lensAt p pos 1 = one 256 0x10 ∧
    lensAt p pos 2 = one 256 0x30 ∧ lensAt p pos 3 = one 256 0xff) :
    litBits p pos a0 = [false] ∧ litBits p pos a1 = [true] := litA p pos h.1 h.2.1 h.2.2.1 h.2.2.2

theorem litB' (p : MainPlan) (pos : Nat) (h : lensAt p pos 0 = two01 ∧ lensAt p pos 1 = one 256 0x40 ∧
    lensAt p pos 2 = one 256 0x60 ∧ lensAt p pos 3 = one 256 0x80) :
    litBits p pos b0 = [false] ∧ litBits p pos b1 = [true] := litB p pos h.1 h.2.1 h.2.2.1 h.2.2.2

theorem lens3 : ∀ g ∈ [groupA, groupB, groupC], g.lens5.length = 5 := by
  intro g hg
  simp only [List.mem_cons, List.not_mem_nil, or_false] at hg
  rcases hg with rfl | rfl | rfl <;> rfl

theorem lens2 : ∀ g ∈ [groupA, groupB], g.lens5.length = 5 :=
  fun g hg => lens3 g (by simp only [List.mem_cons, List.not_mem_nil, or_false] at hg ⊢; rcases hg with h | h <;> simp [h])

theorem bitsBad : callsBits (sid bad) = [false, false, false, false, false, false, false, false] := by
  have h := sid_eq bad srcL [groupA, groupB, groupC] rfl (by decide) lens3
  rw [h]
  simp only [srcL, litsBits]
  rw [(litA' bad.main 0 (lensBadA 0 (by omega))).1, (litA' bad.main 1 (lensBadA 1 (by omega))).1, (litA' bad.main 2 (lensBadA 2 (by omega))).1,
    (litA' bad.main 3 (lensBadA 3 (by omega))).1, (litB' bad.main 4 (lensBadB 4 (by omega) (by omega))).1, (litB' bad.main 5 (lensBadB 5 (by omega) (by omega))).1,
    (litB' bad.main 6 (lensBadB 6 (by omega) (by omega))).1, (litB' bad.main 7 (lensBadB 7 (by omega) (by omega))).1]
  rfl

theorem bitsGood : callsBits (sid good) = [true, false, false, false, true, false, false, false] := by
  have h := sid_eq good wrongL [groupA, groupB] rfl (by decide) lens2
  rw [h]
  simp only [wrongL, litsBits]
  rw [(litA' good.main 0 (lensGoodA 0 (by omega))).2, (litA' good.main 1 (lensGoodA 1 (by omega))).1, (litA' good.main 2 (lensGoodA 2 (by omega))).1,
    (litA' good.main 3 (lensGoodA 3 (by omega))).1, (litB' good.main 4 (lensGoodB 4 (by omega) (by omega))).2, (litB' good.main 5 (lensGoodB 5 (by omega) (by omega))).1,
    (litB' good.main 6 (lensGoodB 6 (by omega) (by omega))).1, (litB' good.main 7 (lensGoodB 7 (by omega) (by omega))).1]
  rfl

/-- **the desynchronisation in bits**: group C's codes followed by the real pixel data begin with the
    pixel data of the OTHER picture `wrong` -/
theorem tail_bits : callsBits (storeGroup groupC ++ sid bad) = callsBits (sid good) ++ surplus := by
  rw [Webp.Proofs.VP8LEntropyCodeLengths.callsBits_append, bitsC, bitsBad, bitsGood]
  rfl

end Webp.Props.C01FullCex
