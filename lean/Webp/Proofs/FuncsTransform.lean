import Generated.Funcs
import Webp.Impl.VP8Kernels
import Webp.Proofs.VP8Kernels
import Webp.Props.C04Funcs
import Webp.Proofs.FuncsListOps
/-
  Helper lemmas for `Webp/Props/C04FuncsTransform.lean`: the decoder-side inverse transforms of
  internal/dsp/transforms.go as translated in `Generated/Funcs.lean` (`store`, `transformOne`,
  `transformDC`, `transformAC3`, `transformTwo`, `transformUV`, `transformDCUV`, `transformWHT`)
  against the pointwise kernel model `Webp.Impl.VP8Kernels`.

  Technique: the translated straight-line code is normalised by `simp only` with *unconditional*
  literal-index lemmas (`idxI_lit`, `setI_lit`, `store_lit`: an `if n < length` instead of a side
  goal) and a *propositional* `Res.bind (.ok a) f = f a` (`ok_bind_p`; the `rfl` version makes the
  kernel re-check the whole normalisation by unfolding: 60 s instead of 0.6 s).
-/
namespace Webp.Proofs.FuncsTransform
open Webp.Go Webp.Go.IntSem Webp.Proofs.FuncsBridge Webp.Proofs.FuncsListOps
open Webp.Impl.VP8Kernels (clip8b mul1 mul2 vtmp hres)
open Webp.Proofs.VP8Kernels (lt16_cases)

/-! ## literal-index reads and writes without side goals -/

/-- NOT a `rfl`-lemma on purpose (see the header) -/
theorem ok_bind_p {α β : Type} (a : α) (f : α → R β) : Res.bind (Res.ok a : R α) f = f a := by
  unfold Res.bind; rfl

theorem panic_bind_p {α β : Type} (f : α → R β) : Res.bind (Res.panic : R α) f = .panic := by
  unfold Res.bind; rfl

theorem idxI_lit (xs : List Int) (n : Nat) :
    idxI xs (no_index (OfNat.ofNat n)) = if n < xs.length then .ok (xs.getD n 0) else .panic := by
  by_cases h : n < xs.length
  · simp only [h, if_true]; exact idxI_nat' xs n h
  · simp only [h, if_false]; exact idxI_ge xs _ (by show (xs.length : Int) ≤ (n : Int); omega)

theorem setI_lit (xs : List Int) (n : Nat) (v : Int) :
    setI xs (no_index (OfNat.ofNat n)) v = if n < xs.length then .ok (xs.set n v) else .panic := by
  by_cases h : n < xs.length
  · simp only [h, if_true]; exact setI_nat xs n v h
  · simp only [h, if_false]; exact setI_ge xs _ v (by show (xs.length : Int) ≤ (n : Int); omega)

/-- `store` at a natural-number offset (every offset, in range or not) -/
theorem store_nat (dst : List Int) (n : Nat) (x : Int) :
    Generated.Funcs.store dst (n : Int) x
      = if n < dst.length then .ok (dst.set n (Generated.Funcs.Clip8b (dst.getD n 0 + x / 8))) else .panic := by
  unfold Generated.Funcs.store
  have e : shr x 3 = x / 8 := by
    rw [show (3 : Int) = (OfNat.ofNat (nat_lit 3)) from rfl, shr_lit_eq_div]; rfl
  by_cases h : n < dst.length
  · simp only [h, if_true, idxI_nat' dst n h, setI_nat dst n _ h, ok_bind_p, e]
  · simp only [h, if_false, idxI_ge dst n (by omega), panic_bind_p]

theorem store_lit (dst : List Int) (n : Nat) (x : Int) :
    Generated.Funcs.store dst (no_index (OfNat.ofNat n)) x
      = if n < dst.length then .ok (dst.set n (Generated.Funcs.Clip8b (dst.getD n 0 + x / 8))) else .panic :=
  store_nat dst n x

theorem store_neg (dst : List Int) (off x : Int) (h : off < 0) : Generated.Funcs.store dst off x = .panic := by
  unfold Generated.Funcs.store
  simp only [idxI_neg dst off h, panic_bind_p]

/-! ## ranges -/

/-- a `[]byte` -/
def Bytes (l : List Int) : Prop := ∀ j, 0 ≤ l.getD j 0 ∧ l.getD j 0 ≤ 255
/-- an `[]int16` -/
def I16s (l : List Int) : Prop := ∀ i, -32768 ≤ l.getD i 0 ∧ l.getD i 0 ≤ 32767

theorem Bytes_drop {l : List Int} (h : Bytes l) (a : Nat) : Bytes (l.drop a) := fun j => by
  rw [getD_drop]; exact h _
theorem I16s_drop {l : List Int} (h : I16s l) (a : Nat) : I16s (l.drop a) := fun j => by
  rw [getD_drop]; exact h _

theorem mul1_bound (a B : Int) (h0 : -B ≤ a) (h1 : a ≤ B) : -(2 * B) ≤ mul1 a ∧ mul1 a ≤ 2 * B := by
  unfold mul1; omega
theorem mul2_bound (a B : Int) (h0 : -B ≤ a) (h1 : a ≤ B) : -B ≤ mul2 a ∧ mul2 a ≤ B := by
  unfold mul2; omega

/-- `Clip8b(int(dst[off]) + (x >> 3))` is the model's `store` whenever the sum is a 64-bit `int` -/
theorem Clip8b_store (p x : Int) (hp : 0 ≤ p ∧ p ≤ 255) (hx : -4611686018427387904 ≤ x ∧ x ≤ 4611686018427387904) :
    Generated.Funcs.Clip8b (p + x / 8) = Webp.Impl.VP8Kernels.store p x := by
  unfold Webp.Impl.VP8Kernels.store
  exact Webp.Props.C04Funcs.tie_Clip8b _ (by omega) (by omega)

theorem clip8b_range (v : Int) : 0 ≤ clip8b v ∧ clip8b v ≤ 255 := by
  unfold clip8b; split
  · omega
  · split <;> omega

/-! ## a 4x4 block in a `BPS`-strided buffer -/

/-- position of sample `k = 4*row + col` of a 4x4 block in a `BPS = 32` strided buffer -/
def pos (k : Nat) : Nat := k % 4 + 32 * (k / 4)

/-- `out` is `dst` with the 16 positions `q k` replaced by `f k` -/
def UpdAt (q : Nat → Nat) (f : Nat → Int) (dst out : List Int) : Prop :=
  out.length = dst.length ∧ (∀ k, k < 16 → out.getD (q k) 0 = f k) ∧
  (∀ j, (∀ k, k < 16 → j ≠ q k) → out.getD j 0 = dst.getD j 0)

/-- `out` is `dst` with the 4x4 block at offset `a` replaced by `f` -/
def Upd (a : Nat) (f : Nat → Int) (dst out : List Int) : Prop := UpdAt (fun k => a + pos k) f dst out

set_option maxHeartbeats 1000000 in
theorem sets16_upd (dst : List Int) (f : Nat → Int) (v0 v1 v2 v3 v4 v5 v6 v7 v8 v9 v10 v11 v12 v13 v14 v15 : Int)
    (hl : 100 ≤ dst.length)
    (e0 : f 0 = v0) (e1 : f 1 = v1) (e2 : f 2 = v2) (e3 : f 3 = v3) (e4 : f 4 = v4) (e5 : f 5 = v5)
    (e6 : f 6 = v6) (e7 : f 7 = v7) (e8 : f 8 = v8) (e9 : f 9 = v9) (e10 : f 10 = v10) (e11 : f 11 = v11)
    (e12 : f 12 = v12) (e13 : f 13 = v13) (e14 : f 14 = v14) (e15 : f 15 = v15) :
    Upd 0 f dst ((((((((((((((((dst.set 0 v0).set 1 v1).set 2 v2).set 3 v3).set 32 v4).set 33 v5).set 34 v6).set 35 v7).set
      64 v8).set 65 v9).set 66 v10).set 67 v11).set 96 v12).set 97 v13).set 98 v14).set 99 v15) := by
  have d0 : 0 < dst.length := by omega
  have d1 : 1 < dst.length := by omega
  have d2 : 2 < dst.length := by omega
  have d3 : 3 < dst.length := by omega
  have d32 : 32 < dst.length := by omega
  have d33 : 33 < dst.length := by omega
  have d34 : 34 < dst.length := by omega
  have d35 : 35 < dst.length := by omega
  have d64 : 64 < dst.length := by omega
  have d65 : 65 < dst.length := by omega
  have d66 : 66 < dst.length := by omega
  have d67 : 67 < dst.length := by omega
  have d96 : 96 < dst.length := by omega
  have d97 : 97 < dst.length := by omega
  have d98 : 98 < dst.length := by omega
  have d99 : 99 < dst.length := by omega
  refine ⟨by simp only [List.length_set], ?_, ?_⟩
  · intro k hk
    rcases lt16_cases hk with rfl | rfl | rfl | rfl | rfl | rfl | rfl | rfl | rfl | rfl | rfl | rfl | rfl | rfl | rfl | rfl
    all_goals
      simp only [pos, Nat.reduceMod, Nat.reduceDiv, Nat.reduceMul, Nat.reduceAdd, getD_set, List.length_set,
        Nat.reduceEqDiff, false_and, true_and, if_true, if_false, d0, d1, d2, d3, d32, d33, d34, d35, d64, d65, d66, d67,
        d96, d97, d98, d99, e0, e1, e2, e3, e4, e5, e6, e7, e8, e9, e10, e11, e12, e13, e14, e15]
  · intro j hj
    have n0 : ¬ (0 = j) := fun h => hj 0 (by decide) (by rw [← h]; rfl)
    have n1 : ¬ (1 = j) := fun h => hj 1 (by decide) (by rw [← h]; rfl)
    have n2 : ¬ (2 = j) := fun h => hj 2 (by decide) (by rw [← h]; rfl)
    have n3 : ¬ (3 = j) := fun h => hj 3 (by decide) (by rw [← h]; rfl)
    have n4 : ¬ (32 = j) := fun h => hj 4 (by decide) (by rw [← h]; rfl)
    have n5 : ¬ (33 = j) := fun h => hj 5 (by decide) (by rw [← h]; rfl)
    have n6 : ¬ (34 = j) := fun h => hj 6 (by decide) (by rw [← h]; rfl)
    have n7 : ¬ (35 = j) := fun h => hj 7 (by decide) (by rw [← h]; rfl)
    have n8 : ¬ (64 = j) := fun h => hj 8 (by decide) (by rw [← h]; rfl)
    have n9 : ¬ (65 = j) := fun h => hj 9 (by decide) (by rw [← h]; rfl)
    have n10 : ¬ (66 = j) := fun h => hj 10 (by decide) (by rw [← h]; rfl)
    have n11 : ¬ (67 = j) := fun h => hj 11 (by decide) (by rw [← h]; rfl)
    have n12 : ¬ (96 = j) := fun h => hj 12 (by decide) (by rw [← h]; rfl)
    have n13 : ¬ (97 = j) := fun h => hj 13 (by decide) (by rw [← h]; rfl)
    have n14 : ¬ (98 = j) := fun h => hj 14 (by decide) (by rw [← h]; rfl)
    have n15 : ¬ (99 = j) := fun h => hj 15 (by decide) (by rw [← h]; rfl)
    simp only [getD_set, n0, n1, n2, n3, n4, n5, n6, n7, n8, n9, n10, n11, n12, n13, n14, n15, false_and, if_false]

/-! ## the three inverse DCT variants on the block at offset 0 -/

def coef (inp : List Int) : Nat → Int := fun i => inp.getD i 0
def blk (dst : List Int) (a : Nat) : Nat → Int := fun k => dst.getD (a + pos k) 0

theorem lt_len {l : List Int} {m : Nat} (hl : m ≤ l.length) (n : Nat) (h : n < m) : (n < l.length) = True :=
  eq_true (by omega)

theorem vtmp_bound (c : Nat → Int) (B : Int) (h : ∀ i, i < 16 → -B ≤ c i ∧ c i ≤ B) (k : Nat) :
    -(5 * B) ≤ vtmp c k ∧ vtmp c k ≤ 5 * B := by
  have hc : k % 4 < 4 := Nat.mod_lt _ (by decide)
  have h0 := h (k % 4) (by omega)
  have h4 := h (4 + k % 4) (by omega)
  have h8 := h (8 + k % 4) (by omega)
  have h12 := h (12 + k % 4) (by omega)
  have a1 := mul1_bound _ B h4.1 h4.2
  have a2 := mul2_bound _ B h4.1 h4.2
  have b1 := mul1_bound _ B h12.1 h12.2
  have b2 := mul2_bound _ B h12.1 h12.2
  unfold vtmp
  dsimp only
  split <;> omega

theorem hres_bound (t : Nat → Int) (T : Int) (h : ∀ i, -T ≤ t i ∧ t i ≤ T) (k : Nat) :
    -(5 * T + 4) ≤ hres t k ∧ hres t k ≤ 5 * T + 4 := by
  have h0 := h (4 * (k / 4))
  have h1 := h (4 * (k / 4) + 1)
  have h2 := h (4 * (k / 4) + 2)
  have h3 := h (4 * (k / 4) + 3)
  have a1 := mul1_bound _ T h1.1 h1.2
  have a2 := mul2_bound _ T h1.1 h1.2
  have b1 := mul1_bound _ T h3.1 h3.2
  have b2 := mul2_bound _ T h3.1 h3.2
  unfold hres
  dsimp only
  split <;> omega

theorem idct_bound (c : Nat → Int) (h : ∀ i, i < 16 → -32768 ≤ c i ∧ c i ≤ 32767) (k : Nat) :
    -4611686018427387904 ≤ hres (vtmp c) k ∧ hres (vtmp c) k ≤ 4611686018427387904 := by
  have := hres_bound (vtmp c) (5 * 32768) (fun i => vtmp_bound c 32768 (fun i hi => by have := h i hi; omega) i) k
  omega

theorem one_val (c : Nat → Int) (hc : ∀ i, i < 16 → -32768 ≤ c i ∧ c i ≤ 32767) (p : Nat → Int) (k : Nat) (P : Int)
    (hP : 0 ≤ P ∧ P ≤ 255) (hpk : p k = P) :
    Webp.Impl.VP8Kernels.transformOne c p k = Generated.Funcs.Clip8b (P + hres (vtmp c) k / 8) := by
  rw [Clip8b_store _ _ hP (idct_bound c hc k), ← hpk]; rfl

set_option maxHeartbeats 2000000 in
theorem transformOne_upd (inp dst : List Int) (hi : 16 ≤ inp.length) (hd : 100 ≤ dst.length)
    (ri : I16s inp) (rd : Bytes dst) :
    ∃ out, Generated.Funcs.transformOne inp dst = .ok out ∧
      Upd 0 (Webp.Impl.VP8Kernels.transformOne (coef inp) (blk dst 0)) dst out := by
  unfold Generated.Funcs.transformOne
  simp only [store_lit, idxI_lit, setI_lit, List.length_set, if_true, ok_bind_p, getD_set, zerosI, List.length_replicate,
    Nat.reduceEqDiff, false_and, true_and, if_false, lt_len hi, lt_len hd, Nat.reduceLT,
    Webp.Props.C04Funcs.tie_mul1, Webp.Props.C04Funcs.tie_mul2]
  refine ⟨_, rfl, sets16_upd dst _ _ _ _ _ _ _ _ _ _ _ _ _ _ _ _ _ hd ?_ ?_ ?_ ?_ ?_ ?_ ?_ ?_ ?_ ?_ ?_ ?_ ?_ ?_ ?_ ?_⟩
  all_goals exact one_val (coef inp) (fun i _ => ri i) _ _ _ (rd _) rfl

theorem transformDC_upd (inp dst : List Int) (hi : 1 ≤ inp.length) (hd : 100 ≤ dst.length)
    (ri : I16s inp) (rd : Bytes dst) :
    ∃ out, Generated.Funcs.transformDC inp dst = .ok out ∧
      Upd 0 (Webp.Impl.VP8Kernels.transformDC (coef inp) (blk dst 0)) dst out := by
  have h0 : 0 < inp.length := by omega
  have d0 : 0 < dst.length := by omega
  have d1 : 1 < dst.length := by omega
  have d2 : 2 < dst.length := by omega
  have d3 : 3 < dst.length := by omega
  have d32 : 32 < dst.length := by omega
  have d33 : 33 < dst.length := by omega
  have d34 : 34 < dst.length := by omega
  have d35 : 35 < dst.length := by omega
  have d64 : 64 < dst.length := by omega
  have d65 : 65 < dst.length := by omega
  have d66 : 66 < dst.length := by omega
  have d67 : 67 < dst.length := by omega
  have d96 : 96 < dst.length := by omega
  have d97 : 97 < dst.length := by omega
  have d98 : 98 < dst.length := by omega
  have d99 : 99 < dst.length := by omega
  unfold Generated.Funcs.transformDC
  simp only [store_lit, idxI_lit, List.length_set, if_true, ok_bind_p, getD_set,
    Nat.reduceEqDiff, false_and, if_false, h0, d0, d1, d2, d3, d32, d33, d34, d35, d64, d65, d66, d67, d96, d97, d98, d99]
  refine ⟨_, rfl, sets16_upd dst _ _ _ _ _ _ _ _ _ _ _ _ _ _ _ _ _ hd ?_ ?_ ?_ ?_ ?_ ?_ ?_ ?_ ?_ ?_ ?_ ?_ ?_ ?_ ?_ ?_⟩
  all_goals
    refine Eq.trans ?_ (Clip8b_store _ _ (rd _) ?_).symm
  all_goals first
    | rfl
    | (have := ri 0; omega)

theorem transformAC3_upd (inp dst : List Int) (hi : 5 ≤ inp.length) (hd : 100 ≤ dst.length)
    (ri : I16s inp) (rd : Bytes dst) :
    ∃ out, Generated.Funcs.transformAC3 inp dst = .ok out ∧
      Upd 0 (Webp.Impl.VP8Kernels.transformAC3 (coef inp) (blk dst 0)) dst out := by
  unfold Generated.Funcs.transformAC3
  simp only [store_lit, idxI_lit, List.length_set, if_true, ok_bind_p, getD_set,
    Nat.reduceEqDiff, false_and, if_false, lt_len hi, lt_len hd, Nat.reduceLT,
    Webp.Props.C04Funcs.tie_mul1, Webp.Props.C04Funcs.tie_mul2]
  refine ⟨_, rfl, sets16_upd dst _ _ _ _ _ _ _ _ _ _ _ _ _ _ _ _ _ hd ?_ ?_ ?_ ?_ ?_ ?_ ?_ ?_ ?_ ?_ ?_ ?_ ?_ ?_ ?_ ?_⟩
  all_goals
    refine Eq.trans ?_ (Clip8b_store _ _ (rd _) ?_).symm
  all_goals first
    | rfl
    | (have h0 := ri 0; have h1 := ri 1; have h4 := ri 4
       have a1 := mul1_bound _ 32768 h1.1 (by omega); have a2 := mul2_bound _ 32768 h1.1 (by omega)
       have b1 := mul1_bound _ 32768 h4.1 (by omega); have b2 := mul2_bound _ 32768 h4.1 (by omega)
       omega)

/-! ## inverse WHT -/

theorem forRangeM_0_4_1 {σ : Type} (s : σ) (f : Int → σ → R σ) :
    forRangeM 0 4 1 s f = (((f 0 s).bind (f 1)).bind (f 2)).bind (f 3) := by
  have h : tripCount 0 4 1 = 4 := by decide
  simp [forRangeM, h, List.range, List.range.loop, ok_bind_p]

theorem wrapS16_eq_toI16 (y : Int) : wrapS 16 y = Webp.Impl.VP8Kernels.toI16 y := by
  unfold wrapS Webp.Impl.VP8Kernels.toI16
  simp only [Int.reducePow, Nat.reduceSub]
  split <;> omega

set_option maxHeartbeats 1000000 in
theorem sets16w_upd (dst : List Int) (f : Nat → Int) (v0 v1 v2 v3 v4 v5 v6 v7 v8 v9 v10 v11 v12 v13 v14 v15 : Int)
    (hl : 241 ≤ dst.length)
    (e0 : f 0 = v0) (e1 : f 1 = v1) (e2 : f 2 = v2) (e3 : f 3 = v3) (e4 : f 4 = v4) (e5 : f 5 = v5)
    (e6 : f 6 = v6) (e7 : f 7 = v7) (e8 : f 8 = v8) (e9 : f 9 = v9) (e10 : f 10 = v10) (e11 : f 11 = v11)
    (e12 : f 12 = v12) (e13 : f 13 = v13) (e14 : f 14 = v14) (e15 : f 15 = v15) :
    UpdAt (fun k => 16 * k) f dst ((((((((((((((((dst.set 0 v0).set 16 v1).set 32 v2).set 48 v3).set 64 v4).set 80 v5).set
      96 v6).set 112 v7).set 128 v8).set 144 v9).set 160 v10).set 176 v11).set 192 v12).set 208 v13).set 224 v14).set
      240 v15) := by
  refine ⟨by simp only [List.length_set], ?_, ?_⟩
  · intro k hk
    rcases lt16_cases hk with rfl | rfl | rfl | rfl | rfl | rfl | rfl | rfl | rfl | rfl | rfl | rfl | rfl | rfl | rfl | rfl
    all_goals
      simp only [Nat.reduceMul, getD_set, List.length_set,
        Nat.reduceEqDiff, false_and, true_and, if_true, if_false, lt_len hl, Nat.reduceLT,
        e0, e1, e2, e3, e4, e5, e6, e7, e8, e9, e10, e11, e12, e13, e14, e15]
  · intro j hj
    have n0 : ¬ (0 = j) := fun h => hj 0 (by decide) (by rw [← h])
    have n1 : ¬ (16 = j) := fun h => hj 1 (by decide) (by rw [← h])
    have n2 : ¬ (32 = j) := fun h => hj 2 (by decide) (by rw [← h])
    have n3 : ¬ (48 = j) := fun h => hj 3 (by decide) (by rw [← h])
    have n4 : ¬ (64 = j) := fun h => hj 4 (by decide) (by rw [← h])
    have n5 : ¬ (80 = j) := fun h => hj 5 (by decide) (by rw [← h])
    have n6 : ¬ (96 = j) := fun h => hj 6 (by decide) (by rw [← h])
    have n7 : ¬ (112 = j) := fun h => hj 7 (by decide) (by rw [← h])
    have n8 : ¬ (128 = j) := fun h => hj 8 (by decide) (by rw [← h])
    have n9 : ¬ (144 = j) := fun h => hj 9 (by decide) (by rw [← h])
    have n10 : ¬ (160 = j) := fun h => hj 10 (by decide) (by rw [← h])
    have n11 : ¬ (176 = j) := fun h => hj 11 (by decide) (by rw [← h])
    have n12 : ¬ (192 = j) := fun h => hj 12 (by decide) (by rw [← h])
    have n13 : ¬ (208 = j) := fun h => hj 13 (by decide) (by rw [← h])
    have n14 : ¬ (224 = j) := fun h => hj 14 (by decide) (by rw [← h])
    have n15 : ¬ (240 = j) := fun h => hj 15 (by decide) (by rw [← h])
    simp only [getD_set, n0, n1, n2, n3, n4, n5, n6, n7, n8, n9, n10, n11, n12, n13, n14, n15, false_and, if_false]

set_option maxHeartbeats 2000000 in
theorem transformWHT_upd (inp out : List Int) (hi : 16 ≤ inp.length) (ho : 241 ≤ out.length) :
    ∃ res, Generated.Funcs.transformWHT inp out = .ok res ∧
      UpdAt (fun k => 16 * k) (Webp.Impl.VP8Kernels.transformWHT (coef inp)) out res := by
  unfold Generated.Funcs.transformWHT
  simp only [forRangeM_0_4_1, Int.reduceAdd, Int.reduceMul,
    idxI_lit, setI_lit, List.length_set, if_true, ok_bind_p, getD_set, zerosI, List.length_replicate,
    Nat.reduceEqDiff, false_and, true_and, if_false, lt_len hi, lt_len ho, Nat.reduceLT,
    shr_lit_eq_div, Int.reducePow, wrapS16_eq_toI16]
  refine ⟨_, rfl, sets16w_upd out _ _ _ _ _ _ _ _ _ _ _ _ _ _ _ _ _ ho ?_ ?_ ?_ ?_ ?_ ?_ ?_ ?_ ?_ ?_ ?_ ?_ ?_ ?_ ?_ ?_⟩
  all_goals rfl

/-! ## several blocks, sub-slices -/

/-- `out` is `dst` with the `n` 4x4 blocks at offsets `off b` replaced by `f b` -/
def UpdN (n : Nat) (off : Nat → Nat) (f : Nat → Nat → Int) (dst out : List Int) : Prop :=
  out.length = dst.length ∧ (∀ b k, b < n → k < 16 → out.getD (off b + pos k) 0 = f b k) ∧
  (∀ j, (∀ b k, b < n → k < 16 → j ≠ off b + pos k) → out.getD j 0 = dst.getD j 0)

theorem UpdN_zero (off : Nat → Nat) (f : Nat → Nat → Int) (dst : List Int) : UpdN 0 off f dst dst :=
  ⟨rfl, fun _ _ hb _ => absurd hb (Nat.not_lt_zero _), fun _ _ => rfl⟩

theorem Upd.toN {a : Nat} {f : Nat → Int} {dst out : List Int} (h : Upd a f dst out) :
    UpdN 1 (fun _ => a) (fun _ => f) dst out :=
  ⟨h.1, fun _ k _ hk => h.2.1 k hk, fun j hj => h.2.2 j (fun k hk => hj 0 k (by decide) hk)⟩

theorem UpdN.congr {n : Nat} {off off' : Nat → Nat} {f f' : Nat → Nat → Int} {dst out : List Int}
    (h : UpdN n off f dst out) (ho : ∀ b, b < n → off b = off' b) (hf : ∀ b k, b < n → k < 16 → f b k = f' b k) :
    UpdN n off' f' dst out :=
  ⟨h.1, fun b k hb hk => by rw [← ho b hb, ← hf b k hb hk]; exact h.2.1 b k hb hk,
   fun j hj => h.2.2 j (fun b k hb hk => by rw [ho b hb]; exact hj b k hb hk)⟩

theorem UpdN.append {n m : Nat} {off : Nat → Nat} {f : Nat → Nat → Int} {dst o1 o2 : List Int}
    (h1 : UpdN n off f dst o1) (h2 : UpdN m (fun b => off (n + b)) (fun b => f (n + b)) o1 o2)
    (disj : ∀ b b' k k', b < n → b' < m → k < 16 → k' < 16 → off b + pos k ≠ off (n + b') + pos k') :
    UpdN (n + m) off f dst o2 := by
  refine ⟨h2.1.trans h1.1, ?_, ?_⟩
  · intro b k hb hk
    by_cases hbn : b < n
    · rw [h2.2.2 _ (fun b' k' hb' hk' => disj b b' k k' hbn hb' hk hk')]
      exact h1.2.1 b k hbn hk
    · have := h2.2.1 (b - n) k (by omega) hk
      have e : n + (b - n) = b := by omega
      simp only [e] at this
      exact this
  · intro j hj
    rw [h2.2.2 j (fun b' k' hb' hk' => hj (n + b') k' (by omega) hk')]
    exact h1.2.2 j (fun b k hb hk => hj b k (by omega) hk)

theorem UpdN.splice {n : Nat} {off : Nat → Nat} {f : Nat → Nat → Int} {dst w : List Int} {a : Nat}
    (ha : a ≤ dst.length) (h : UpdN n off f (dst.drop a) w) :
    UpdN n (fun b => a + off b) f dst (spliceI dst (a : Int) w) := by
  have hw : w.length = dst.length - a := by rw [h.1, List.length_drop]
  refine ⟨length_spliceI_tail dst w a ha hw, ?_, ?_⟩
  · intro b k hb hk
    rw [getD_spliceI_tail dst w a ha hw]
    have : ¬ (a + off b + pos k < a) := by omega
    simp only [this, if_false]
    have e : a + off b + pos k - a = off b + pos k := by omega
    rw [e]; exact h.2.1 b k hb hk
  · intro j hj
    rw [getD_spliceI_tail dst w a ha hw]
    by_cases hja : j < a
    · simp only [hja, if_true]
    · simp only [hja, if_false]
      rw [h.2.2 (j - a) (fun b k hb hk => by have := hj b k hb hk; dsimp only at this; omega), getD_drop]
      congr 1; omega

theorem UpdN.bytes {n : Nat} {off : Nat → Nat} {f : Nat → Nat → Int} {dst out : List Int}
    (h : UpdN n off f dst out) (hd : Bytes dst) (hf : ∀ b k, b < n → k < 16 → 0 ≤ f b k ∧ f b k ≤ 255) : Bytes out := by
  intro j
  by_cases hj : ∃ b k, b < n ∧ k < 16 ∧ j = off b + pos k
  · obtain ⟨b, k, hb, hk, rfl⟩ := hj
    rw [h.2.1 b k hb hk]; exact hf b k hb hk
  · rw [h.2.2 j (fun b k hb hk e => hj ⟨b, k, hb, hk, e⟩)]; exact hd j

/-- literal sub-slice to the end -/
theorem sliceI_lit_end (xs : List Int) (n : Nat) (h : n ≤ xs.length) :
    sliceI xs (no_index (OfNat.ofNat n)) (lenI xs) = .ok (xs.drop n) :=
  sliceI_to_end xs (n : Int) (by omega) (by omega)

theorem spliceI_lit (xs ys : List Int) (n : Nat) : spliceI xs (no_index (OfNat.ofNat n)) ys = spliceI xs (n : Int) ys := rfl

theorem coef_drop (inp : List Int) (a : Nat) : coef (inp.drop a) = fun i => inp.getD (a + i) 0 := by
  funext i; exact getD_drop inp a i
theorem blk_drop (dst : List Int) (a b : Nat) : blk (dst.drop a) b = blk dst (a + b) := by
  funext k; unfold blk; rw [getD_drop, Nat.add_assoc]

theorem transformOne_congr (c p p' : Nat → Int) (k : Nat) (h : p k = p' k) :
    Webp.Impl.VP8Kernels.transformOne c p k = Webp.Impl.VP8Kernels.transformOne c p' k := by
  unfold Webp.Impl.VP8Kernels.transformOne; rw [h]

theorem transformOne_range (c p : Nat → Int) (k : Nat) :
    0 ≤ Webp.Impl.VP8Kernels.transformOne c p k ∧ Webp.Impl.VP8Kernels.transformOne c p k ≤ 255 :=
  clip8b_range _

/-- the model of `transformTwo(in, dst, true)` / `transformUV`: block `b` of the strided buffer `dst` at offset
    `off b`, coefficients `in[16*b .. 16*b+15]` -/
def idctBlocks (inp dst : List Int) (off : Nat → Nat) (b k : Nat) : Int :=
  Webp.Impl.VP8Kernels.transformOne (fun i => inp.getD (16 * b + i) 0) (blk dst (off b)) k

theorem transformTwo_false (inp dst : List Int) :
    Generated.Funcs.transformTwo inp dst false = Generated.Funcs.transformOne inp dst := by
  unfold Generated.Funcs.transformTwo
  simp only [Bool.false_eq_true, if_false, bind_ok_id]

theorem transformTwo_upd (inp dst : List Int) (hi : 32 ≤ inp.length) (hd : 104 ≤ dst.length)
    (ri : I16s inp) (rd : Bytes dst) :
    ∃ out, Generated.Funcs.transformTwo inp dst true = .ok out ∧
      UpdN 2 (fun b => 4 * b) (idctBlocks inp dst (fun b => 4 * b)) dst out := by
  obtain ⟨o1, e1, u1⟩ := transformOne_upd inp dst (by omega) (by omega) ri rd
  have l1 : o1.length = dst.length := u1.1
  have b1 : Bytes o1 := u1.toN.bytes rd (fun _ k _ _ => transformOne_range _ _ k)
  obtain ⟨w, e2, u2⟩ := transformOne_upd (inp.drop 16) (o1.drop 4) (by rw [List.length_drop]; omega)
    (by rw [List.length_drop]; omega) (I16s_drop ri 16) (Bytes_drop b1 4)
  refine ⟨spliceI o1 (4 : Nat) w, ?_, ?_⟩
  · unfold Generated.Funcs.transformTwo
    simp only [e1, ok_bind_p, if_true, sliceI_lit_end inp 16 (by omega), sliceI_lit_end o1 4 (by omega), e2, spliceI_lit]
  · have u2' := u2.toN.splice (a := 4) (by omega)
    refine UpdN.append (n := 1) (m := 1) (u1.toN.congr (fun b hb => by omega) ?_) (u2'.congr (fun b hb => by omega) ?_) ?_
    · intro b k hb hk
      have : b = 0 := by omega
      subst this
      unfold idctBlocks coef
      simp only [Nat.mul_zero, Nat.zero_add]
    · intro b k hb hk
      have : b = 0 := by omega
      subst this
      show Webp.Impl.VP8Kernels.transformOne (coef (inp.drop 16)) (blk (o1.drop 4) 0) k = _
      rw [coef_drop, blk_drop]
      unfold idctBlocks
      refine transformOne_congr _ _ _ k ?_
      show o1.getD (4 + 0 + pos k) 0 = dst.getD (4 * (1 + 0) + pos k) 0
      rw [u1.2.2 _ (fun k' hk' => by simp only [pos]; omega)]
    · intro b b' k k' hb hb' hk hk'
      simp only [pos]; omega

/-! ## `transformUV`, `transformDCUV` -/

/-- offset of chroma block `b` (2x2 blocks of 4x4 in a `BPS`-strided 8x8 plane): 0, 4, 128, 132 -/
def uvOff (b : Nat) : Nat := 4 * (b % 2) + 128 * (b / 2)

theorem transformOne_congr2 (c c' p p' : Nat → Int) (k : Nat) (hc : ∀ i, c i = c' i) (h : p k = p' k) :
    Webp.Impl.VP8Kernels.transformOne c p k = Webp.Impl.VP8Kernels.transformOne c' p' k := by
  have : c = c' := funext hc
  subst this; exact transformOne_congr c p p' k h

theorem idctBlocks_drop (inp dst : List Int) (i0 a : Nat) (off : Nat → Nat) (b k : Nat) :
    idctBlocks (inp.drop i0) (dst.drop a) off b k
      = Webp.Impl.VP8Kernels.transformOne (fun i => inp.getD (i0 + (16 * b + i)) 0) (blk dst (a + off b)) k := by
  unfold idctBlocks; rw [blk_drop]; simp only [getD_drop]

theorem idctBlocks_range (inp dst : List Int) (off : Nat → Nat) (b k : Nat) :
    0 ≤ idctBlocks inp dst off b k ∧ idctBlocks inp dst off b k ≤ 255 := transformOne_range _ _ _

theorem transformUV_upd (inp dst : List Int) (hi : 64 ≤ inp.length) (hd : 232 ≤ dst.length)
    (ri : I16s inp) (rd : Bytes dst) :
    ∃ out, Generated.Funcs.transformUV inp dst = .ok out ∧ UpdN 4 uvOff (idctBlocks inp dst uvOff) dst out := by
  obtain ⟨w1, e1, u1⟩ := transformTwo_upd (inp.drop 0) (dst.drop 0) (by rw [List.length_drop]; omega)
    (by rw [List.length_drop]; omega) (I16s_drop ri 0) (Bytes_drop rd 0)
  have u1' := u1.splice (a := 0) (by omega)
  have b1 : Bytes (spliceI dst (0 : Nat) w1) := u1'.bytes rd (fun b k _ _ => idctBlocks_range _ _ _ b k)
  have l1 : (spliceI dst (0 : Nat) w1).length = dst.length := u1'.1
  obtain ⟨o1, ho1⟩ : ∃ o1, o1 = spliceI dst (0 : Nat) w1 := ⟨_, rfl⟩
  rw [← ho1] at u1' b1 l1
  obtain ⟨w2, e2, u2⟩ := transformTwo_upd (inp.drop 32) (o1.drop 128) (by rw [List.length_drop]; omega)
    (by rw [List.length_drop]; omega) (I16s_drop ri 32) (Bytes_drop b1 128)
  have u2' := u2.splice (a := 128) (by omega)
  refine ⟨spliceI o1 (128 : Nat) w2, ?_, ?_⟩
  · unfold Generated.Funcs.transformUV
    simp only [sliceI_lit_end inp 0 (by omega), sliceI_lit_end dst 0 (by omega), ok_bind_p, e1, spliceI_lit, ← ho1,
      sliceI_lit_end inp 32 (by omega), sliceI_lit_end o1 128 (by omega), e2]
  · refine UpdN.append (n := 2) (m := 2) (u1'.congr (fun b hb => by unfold uvOff; omega) ?_)
      (u2'.congr (fun b hb => by unfold uvOff; omega) ?_) ?_
    · intro b k hb hk
      rw [idctBlocks_drop]; unfold idctBlocks
      refine transformOne_congr2 _ _ _ _ k (fun i => by rw [Nat.zero_add]) ?_
      have : 0 + 4 * b = uvOff b := by unfold uvOff; omega
      rw [this]
    · intro b k hb hk
      rw [idctBlocks_drop]; unfold idctBlocks
      refine transformOne_congr2 _ _ _ _ k (fun i => by congr 1; omega) ?_
      have e : 128 + 4 * b = uvOff (2 + b) := by unfold uvOff; omega
      rw [e]
      show o1.getD (uvOff (2 + b) + pos k) 0 = dst.getD (uvOff (2 + b) + pos k) 0
      exact u1'.2.2 _ (fun b' k' hb' hk' => by unfold uvOff; simp only [pos]; omega)
    · intro b b' k k' hb hb' hk hk'
      unfold uvOff; simp only [pos]; omega

theorem Upd.refl (a : Nat) (dst : List Int) : Upd a (blk dst a) dst dst :=
  ⟨rfl, fun _ _ => rfl, fun _ _ => rfl⟩

theorem UpdN.toUpd {off : Nat → Nat} {f : Nat → Nat → Int} {dst out : List Int} (h : UpdN 1 off f dst out) :
    Upd (off 0) (f 0) dst out :=
  ⟨h.1, fun k hk => h.2.1 0 k (by decide) hk, fun j hj => h.2.2 j (fun b k hb hk => by
    have : b = 0 := by omega
    subst this; exact hj k hk)⟩

theorem Upd.congr {a a' : Nat} {f f' : Nat → Int} {dst out : List Int} (h : Upd a f dst out) (ha : a = a')
    (hf : ∀ k, k < 16 → f k = f' k) : Upd a' f' dst out := by
  subst ha
  exact ⟨h.1, fun k hk => by rw [← hf k hk]; exact h.2.1 k hk, h.2.2⟩

/-- append one block whose new content `G p` depends on the old content `p` of the block pointwise -/
theorem UpdN.snoc {n : Nat} {off : Nat → Nat} {f : Nat → Nat → Int} {dst o1 o2 : List Int}
    (h1 : UpdN n off f dst o1) (G : (Nat → Int) → Nat → Int)
    (hG : ∀ p p' k, p k = p' k → G p k = G p' k)
    (h2 : Upd (off n) (G (blk o1 (off n))) o1 o2) (hf : ∀ k, k < 16 → G (blk dst (off n)) k = f n k)
    (disj : ∀ b k k', b < n → k < 16 → k' < 16 → off b + pos k ≠ off n + pos k') :
    UpdN (n + 1) off f dst o2 := by
  refine UpdN.append h1 (h2.toN.congr (fun b hb => by
    have : b = 0 := by omega
    subst this; rfl) ?_) ?_
  · intro b k hb hk
    have : b = 0 := by omega
    subst this
    show G (blk o1 (off n)) k = f n k
    rw [← hf k hk]
    exact hG _ _ k (h1.2.2 _ (fun b' k' hb' hk' => (disj b' k' k hb' hk' hk).symm))
  · intro b b' k k' hb hb' hk hk'
    have : b' = 0 := by omega
    subst this; exact disj b k k' hb hk hk'

/-- one `if in[i0] != 0 { transformDC(in[i0:], dst[a:]) }` statement of `transformDCUV` -/
def dcG (inp : List Int) (i0 : Nat) (p : Nat → Int) (k : Nat) : Int :=
  if inp.getD i0 0 ≠ 0 then Webp.Impl.VP8Kernels.transformDC (fun i => inp.getD (i0 + i) 0) p k else p k

theorem dcG_local (inp : List Int) (i0 : Nat) (p p' : Nat → Int) (k : Nat) (h : p k = p' k) :
    dcG inp i0 p k = dcG inp i0 p' k := by
  unfold dcG Webp.Impl.VP8Kernels.transformDC; rw [h]

theorem dc_step (inp o : List Int) (i0 a : Nat) (hi : i0 < inp.length) (ha : a + 100 ≤ o.length)
    (ri : I16s inp) (ro : Bytes o) :
    ∃ o', (if (decide (inp.getD i0 0 ≠ 0)) then
            (Generated.Funcs.transformDC (inp.drop i0) (o.drop a)).bind fun w => Res.ok (spliceI o (a : Int) w)
          else (Res.ok o : R (List Int))) = Res.ok o' ∧
      Upd a (dcG inp i0 (blk o a)) o o' ∧ Bytes o' := by
  by_cases h : inp.getD i0 0 ≠ 0
  · obtain ⟨w, e, u⟩ := transformDC_upd (inp.drop i0) (o.drop a) (by rw [List.length_drop]; omega)
      (by rw [List.length_drop]; omega) (I16s_drop ri i0) (Bytes_drop ro a)
    have u' := (u.toN.splice (a := a) (by omega))
    have hdec : decide (inp.getD i0 0 ≠ 0) = true := decide_eq_true h
    refine ⟨spliceI o (a : Int) w, by simp only [hdec, if_true, e, ok_bind_p], ?_, ?_⟩
    · refine u'.toUpd.congr (by omega) (fun k hk => ?_)
      unfold dcG; rw [if_pos h]; simp only [coef_drop, blk_drop, Nat.add_zero]
    · exact u'.bytes ro (fun _ k _ _ => clip8b_range _)
  · have hdec : decide (inp.getD i0 0 ≠ 0) = false := decide_eq_false h
    refine ⟨o, by simp only [hdec, Bool.false_eq_true, if_false], ?_, ro⟩
    refine (Upd.refl a o).congr rfl (fun k _ => ?_)
    unfold dcG; rw [if_neg h]

/-- the model of `transformDCUV` on the buffers -/
def dcuvBlocks (inp dst : List Int) (b k : Nat) : Int :=
  Webp.Impl.VP8Kernels.transformDCUV (fun b i => inp.getD (16 * b + i) 0) (fun b => blk dst (uvOff b)) b k

theorem transformDCUV_upd (inp dst : List Int) (hi : 49 ≤ inp.length) (hd : 232 ≤ dst.length)
    (ri : I16s inp) (rd : Bytes dst) :
    ∃ out, Generated.Funcs.transformDCUV inp dst = .ok out ∧ UpdN 4 uvOff (dcuvBlocks inp dst) dst out := by
  obtain ⟨o1, e1, u1, b1⟩ := dc_step inp dst 0 0 (by omega) (by omega) ri rd
  have l1 : o1.length = dst.length := u1.1
  obtain ⟨o2, e2, u2, b2⟩ := dc_step inp o1 16 4 (by omega) (by omega) ri b1
  have l2 : o2.length = o1.length := u2.1
  obtain ⟨o3, e3, u3, b3⟩ := dc_step inp o2 32 128 (by omega) (by omega) ri b2
  have l3 : o3.length = o2.length := u3.1
  obtain ⟨o4, e4, u4, b4⟩ := dc_step inp o3 48 132 (by omega) (by omega) ri b3
  refine ⟨o4, ?_, ?_⟩
  · unfold Generated.Funcs.transformDCUV
    simp only [idxI_lit, lt_len hi, Nat.reduceLT, if_true, ok_bind_p,
      sliceI_lit_end inp 0 (by omega), sliceI_lit_end dst 0 (by omega), spliceI_lit, e1,
      sliceI_lit_end inp 16 (by omega), sliceI_lit_end o1 4 (by omega), e2,
      sliceI_lit_end inp 32 (by omega), sliceI_lit_end o2 128 (by omega), e3,
      sliceI_lit_end inp 48 (by omega), sliceI_lit_end o3 132 (by omega), e4]
  · have hf : ∀ b, b < 4 → ∀ k, k < 16 → dcG inp (16 * b) (blk dst (uvOff b)) k = dcuvBlocks inp dst b k := by
      intro b _ k _; rfl
    have disj : ∀ n b k k', n < 4 → b < n → k < 16 → k' < 16 → uvOff b + pos k ≠ uvOff n + pos k' := by
      intro n b k k' hn hb hk hk'; unfold uvOff; simp only [pos]; omega
    have s1 := UpdN.snoc (UpdN_zero uvOff (dcuvBlocks inp dst) dst) (dcG inp 0) (dcG_local inp 0) u1 (hf 0 (by decide))
      (fun b k k' hb hk hk' => disj 0 b k k' (by decide) hb hk hk')
    have s2 := UpdN.snoc s1 (dcG inp 16) (dcG_local inp 16) u2 (hf 1 (by decide))
      (fun b k k' hb hk hk' => disj 1 b k k' (by decide) hb hk hk')
    have s3 := UpdN.snoc s2 (dcG inp 32) (dcG_local inp 32) u3 (hf 2 (by decide))
      (fun b k k' hb hk hk' => disj 2 b k k' (by decide) hb hk hk')
    exact UpdN.snoc s3 (dcG inp 48) (dcG_local inp 48) u4 (hf 3 (by decide))
      (fun b k k' hb hk hk' => disj 3 b k k' (by decide) hb hk hk')

/-! ## panics, uniqueness -/

theorem transformOne_panic (inp dst : List Int) (h : inp.length < 16 ∨ dst.length < 100) :
    Generated.Funcs.transformOne inp dst = .panic := by
  unfold Generated.Funcs.transformOne
  by_cases hi : inp.length < 16
  · rw [idxI_ge inp 15 (by omega), panic_bind_p]
  · have hd : dst.length < 100 := by omega
    rw [show idxI inp 15 = .ok (inp.getD 15 0) from idxI_nat' inp 15 (by omega), ok_bind_p]
    dsimp only
    rw [idxI_ge dst 99 (by omega), panic_bind_p]

/-- a step that either panics or returns a list of the same length -/
def PanicOrLen (r : R (List Int)) (L : Nat) : Prop := r = .panic ∨ ∃ d, r = .ok d ∧ d.length = L

theorem store_panicOrLen (dst : List Int) (n : Nat) (x : Int) :
    PanicOrLen (Generated.Funcs.store dst (no_index (OfNat.ofNat n)) x) dst.length := by
  rw [store_lit]
  by_cases h : n < dst.length
  · simp only [h, if_true]; exact Or.inr ⟨_, rfl, List.length_set⟩
  · simp only [h, if_false]; exact Or.inl rfl

theorem bind_panic_of_len {r : R (List Int)} {L : Nat} {β : Type} {f : List Int → R β} (h : PanicOrLen r L)
    (hf : ∀ d, d.length = L → f d = .panic) : r.bind f = .panic := by
  rcases h with h | ⟨d, h, hl⟩
  · rw [h, panic_bind_p]
  · rw [h, ok_bind_p]; exact hf d hl

theorem store_short (dst : List Int) (n : Nat) (x : Int) (h : dst.length ≤ n) :
    Generated.Funcs.store dst (no_index (OfNat.ofNat n)) x = .panic := by
  rw [store_lit]
  have : ¬ n < dst.length := by omega
  simp only [this, if_false]

theorem transformDC_panic (inp dst : List Int) (h : inp.length < 1 ∨ dst.length < 100) :
    Generated.Funcs.transformDC inp dst = .panic := by
  unfold Generated.Funcs.transformDC
  by_cases hi : inp.length < 1
  · rw [idxI_ge inp 0 (by omega), panic_bind_p]
  · have hd : dst.length < 100 := by omega
    rw [show idxI inp 0 = .ok (inp.getD 0 0) from idxI_nat' inp 0 (by omega), ok_bind_p]
    dsimp only
    iterate 15 (refine bind_panic_of_len (store_panicOrLen _ _ _) (fun d hl => ?_))
    rw [store_short _ 99 _ (by omega), panic_bind_p]

theorem transformAC3_panic (inp dst : List Int) (h : inp.length < 5 ∨ dst.length < 100) :
    Generated.Funcs.transformAC3 inp dst = .panic := by
  unfold Generated.Funcs.transformAC3
  by_cases h0 : inp.length < 1
  · rw [idxI_ge inp 0 (by omega), panic_bind_p]
  · rw [show idxI inp 0 = .ok (inp.getD 0 0) from idxI_nat' inp 0 (by omega), ok_bind_p]
    dsimp only
    by_cases hi : inp.length < 5
    · rw [idxI_ge inp 4 (by omega), panic_bind_p]
    · have hd : dst.length < 100 := by omega
      rw [show idxI inp 4 = .ok (inp.getD 4 0) from idxI_nat' inp 4 (by omega),
        show idxI inp 1 = .ok (inp.getD 1 0) from idxI_nat' inp 1 (by omega)]
      simp only [ok_bind_p]
      iterate 15 (refine bind_panic_of_len (store_panicOrLen _ _ _) (fun d hl => ?_))
      rw [store_short _ 99 _ (by omega), panic_bind_p]

theorem ext_getD {l l' : List Int} (hl : l.length = l'.length) (h : ∀ j, l.getD j 0 = l'.getD j 0) : l = l' := by
  apply List.ext_getElem hl
  intro j h1 h2
  have := h j
  simpa [List.getD, List.getElem?_eq_getElem h1, List.getElem?_eq_getElem h2] using this

theorem UpdAt.unique {q : Nat → Nat} {f f' : Nat → Int} {dst o o' : List Int} (h : UpdAt q f dst o)
    (h' : UpdAt q f' dst o') (hf : ∀ k, k < 16 → f k = f' k) : o = o' := by
  apply ext_getD (h.1.trans h'.1.symm)
  intro j
  by_cases hj : ∃ k, k < 16 ∧ j = q k
  · obtain ⟨k, hk, rfl⟩ := hj
    rw [h.2.1 k hk, h'.2.1 k hk, hf k hk]
  · rw [h.2.2 j (fun k hk e => hj ⟨k, hk, e⟩), h'.2.2 j (fun k hk e => hj ⟨k, hk, e⟩)]

/-! ## row/column form of the block specifications -/

theorem pos_rc (r c : Nat) (hc : c < 4) : pos (4 * r + c) = c + 32 * r := by
  unfold pos; omega

theorem blk_eq (dst : List Int) (a : Nat) : blk dst a = fun k => dst.getD (a + k % 4 + 32 * (k / 4)) 0 := by
  funext k; unfold blk pos; rw [Nat.add_assoc]

theorem blk_zero (dst : List Int) : blk dst 0 = fun k => dst.getD (k % 4 + 32 * (k / 4)) 0 := by
  funext k; unfold blk pos; rw [Nat.zero_add]

theorem Upd.rc {a : Nat} {f : Nat → Int} {dst out : List Int} (h : Upd a f dst out) :
    out.length = dst.length ∧
    (∀ r c, r < 4 → c < 4 → out.getD (a + c + 32 * r) 0 = f (4 * r + c)) ∧
    (∀ j, (∀ r c, r < 4 → c < 4 → j ≠ a + c + 32 * r) → out.getD j 0 = dst.getD j 0) := by
  refine ⟨h.1, fun r c hr hc => ?_, fun j hj => h.2.2 j (fun k hk => ?_)⟩
  · have := h.2.1 (4 * r + c) (by omega)
    dsimp only at this
    rw [pos_rc r c hc, ← Nat.add_assoc] at this
    exact this
  · have := hj (k / 4) (k % 4) (by omega) (by omega)
    dsimp only [pos]; omega

theorem UpdN.rc {n : Nat} {off : Nat → Nat} {f : Nat → Nat → Int} {dst out : List Int} (h : UpdN n off f dst out) :
    out.length = dst.length ∧
    (∀ b r c, b < n → r < 4 → c < 4 → out.getD (off b + c + 32 * r) 0 = f b (4 * r + c)) ∧
    (∀ j, (∀ b r c, b < n → r < 4 → c < 4 → j ≠ off b + c + 32 * r) → out.getD j 0 = dst.getD j 0) := by
  refine ⟨h.1, fun b r c hb hr hc => ?_, fun j hj => h.2.2 j (fun b k hb hk => ?_)⟩
  · have := h.2.1 b (4 * r + c) hb (by omega)
    rw [pos_rc r c hc, ← Nat.add_assoc] at this
    exact this
  · have := hj b (k / 4) (k % 4) hb (by omega) (by omega)
    dsimp only [pos]; omega

theorem Bytes_replicate (n : Nat) (v : Int) (h : 0 ≤ v ∧ v ≤ 255) : Bytes (List.replicate n v) := by
  intro j
  by_cases hj : j < n
  · simp [List.getD, hj, h]
  · simp [List.getD, hj]

theorem I16s_replicate (n : Nat) (v : Int) (h : -32768 ≤ v ∧ v ≤ 32767) : I16s (List.replicate n v) := by
  intro j
  by_cases hj : j < n
  · simp [List.getD, hj, h]
  · simp [List.getD, hj]

/-! ## `transformWHT` on short buffers -/

theorem setIte_panicOrLen (d : List Int) (n : Nat) (v : Int) (L : Nat) (hd : d.length = L) :
    PanicOrLen (if n < d.length then Res.ok (d.set n v) else (Res.panic : R (List Int))) L := by
  by_cases h : n < d.length
  · simp only [h, if_true]; exact Or.inr ⟨_, rfl, by rw [List.length_set, hd]⟩
  · simp only [h, if_false]; exact Or.inl rfl

theorem ok_panicOrLen (d : List Int) (L : Nat) (hd : d.length = L) : PanicOrLen (Res.ok d) L := Or.inr ⟨d, rfl, hd⟩

theorem bind_panicOrLen {r : R (List Int)} {L : Nat} {f : List Int → R (List Int)} (h : PanicOrLen r L)
    (hf : ∀ d, d.length = L → PanicOrLen (f d) L) : PanicOrLen (r.bind f) L := by
  rcases h with h | ⟨d, h, hl⟩
  · rw [h, panic_bind_p]; exact Or.inl rfl
  · rw [h, ok_bind_p]; exact hf d hl

set_option maxHeartbeats 4000000 in
theorem transformWHT_panic_in (inp out : List Int) (h : inp.length < 16) :
    Generated.Funcs.transformWHT inp out = .panic := by
  unfold Generated.Funcs.transformWHT
  have hc : inp.length ≤ 12 ∨ inp.length = 13 ∨ inp.length = 14 ∨ inp.length = 15 := by omega
  rcases hc with hL | hL | hL | hL
  · have h12 : ¬ (12 < inp.length) := by omega
    by_cases h0 : 0 < inp.length
    · simp only [forRangeM_0_4_1, Int.reduceAdd, Int.reduceMul, idxI_lit, h0, h12, if_true, if_false, ok_bind_p, panic_bind_p]
    · simp only [forRangeM_0_4_1, Int.reduceAdd, Int.reduceMul, idxI_lit, h0, if_false, panic_bind_p]
  all_goals
    simp only [forRangeM_0_4_1, Int.reduceAdd, Int.reduceMul, idxI_lit, setI_lit, hL, Nat.reduceLT, if_true, if_false,
      ok_bind_p, panic_bind_p, List.length_set, zerosI, List.length_replicate]

set_option maxHeartbeats 4000000 in
theorem transformWHT_panic_out (inp out : List Int) (hi : 16 ≤ inp.length) (h : out.length < 241) :
    Generated.Funcs.transformWHT inp out = .panic := by
  unfold Generated.Funcs.transformWHT
  simp only [forRangeM_0_4_1, Int.reduceAdd, Int.reduceMul,
    idxI_lit, setI_lit, List.length_set, if_true, ok_bind_p, getD_set, zerosI, List.length_replicate,
    Nat.reduceEqDiff, false_and, true_and, if_false, lt_len hi, Nat.reduceLT]
  rw [bind_ok_id]
  refine bind_panic_of_len (L := out.length) ?_ (fun d hd => ?_)
  · repeat' first
      | exact setIte_panicOrLen _ _ _ _ (by assumption)
      | exact ok_panicOrLen _ _ (by assumption)
      | exact setIte_panicOrLen _ _ _ _ rfl
      | refine bind_panicOrLen ?_ (fun d hd => ?_)
  · refine bind_panic_of_len (setIte_panicOrLen _ _ _ _ hd) (fun d1 h1 => ?_)
    refine bind_panic_of_len (setIte_panicOrLen _ _ _ _ h1) (fun d2 h2 => ?_)
    refine bind_panic_of_len (setIte_panicOrLen _ _ _ _ h2) (fun d3 h3 => ?_)
    have : ¬ (240 < d3.length) := by omega
    rw [if_neg this, panic_bind_p]

end Webp.Proofs.FuncsTransform
