import Webp.Proofs.LTransformPixel
/-
  Predictor transform: forward (encoder) / inverse (specification) round trip and the
  decoder-as-coded = specification refinement.   No `bv_decide` in this file.
-/
namespace Webp.Proofs.LTransformPredictor
open Webp.Spec.LTransform
open Webp.Proofs.LTransformPixel
open Webp.Impl.LTransform (modeFwd modeDec fwdPredictAt predictFwd decPredict decPredictAt
  predictorInverseLoop predictorInverse subPixels addPixels)

/-- modes ≥ 14 all behave as "black"; `normMode` is the effective predictor -/
def normMode (m : Nat) : Nat := min m 14

theorem predict_normMode (m : Nat) (l t tr tl : Px) :
    predict m l t tr tl = predict (normMode m) l t tr tl := by
  match m with
  | 0 | 1 | 2 | 3 | 4 | 5 | 6 | 7 | 8 | 9 | 10 | 11 | 12 | 13 => rfl
  | n + 14 =>
    have : normMode (n + 14) = 14 := by simp [normMode]
    rw [this]; rfl

/-- The encoder reads the mode with `& 0xff`, the decoder with `& 0xf`.  They select the same
    predictor exactly when the effective modes agree for every tile word. -/
def ModesAgree (tiles : Array Px) : Prop :=
  ∀ t ∈ tiles, normMode (modeFwd t) = normMode (modeInv t)

/-- what `ResidualImage` writes (`uint32(bestMode)<<8 | ARGBBlack`, `bestMode < 14`) agrees -/
theorem modesAgree_of_lt16 (tiles : Array Px) (h : ∀ t ∈ tiles, modeFwd t < 16) :
    ModesAgree tiles := by
  intro t ht
  have h16 := h t ht
  have : modeFwd t = modeInv t := by
    unfold Webp.Impl.LTransform.modeFwd modeInv at *
    have e1 : ∀ x : Nat, x &&& 255 = x % 256 := fun x => Nat.and_two_pow_sub_one_eq_mod x 8
    have e2 : ∀ x : Nat, x &&& 15 = x % 16 := fun x => Nat.and_two_pow_sub_one_eq_mod x 4
    simp only [UInt32.toNat_and, UInt32.toNat_shiftRight, UInt32.toNat_ofNat, Nat.reducePow,
      Nat.reduceMod, e1, e2] at *
    omega
  rw [this]

theorem modeFwd_zero : modeFwd 0 = 0 := by decide
theorem modeInv_zero : modeInv 0 = 0 := by decide

theorem tileAt_mem_or_zero (w bits : Nat) (tiles : Array Px) (i : Nat) :
    tileAt w bits tiles i ∈ tiles ∨ tileAt w bits tiles i = 0 := by
  unfold tileAt
  generalize ((i / w) >>> bits) * subSampleSize w bits + ((i % w) >>> bits) = k
  by_cases hk : k < tiles.size
  · left; simp [Array.getD, hk]
  · right; simp [Array.getD, hk]

/-- `predictAt` reads only pixels before `i` (any width, also `w = 0`) -/
theorem predictAt_congr (modeOf : Px → Nat) (w bits : Nat) (tiles : Array Px) (g g' : Nat → Px)
    (i : Nat) (h : ∀ j, j < i → g j = g' j) :
    predictAt modeOf w bits tiles g i = predictAt modeOf w bits tiles g' i := by
  unfold predictAt
  by_cases hy : i / w = 0
  · simp only [hy, if_true]
    by_cases hx : i % w = 0
    · simp [hx]
    · simp only [hx, if_false]
      have : i ≠ 0 := by intro h0; subst h0; simp at hx
      exact h _ (by omega)
  · simp only [hy, if_false]
    have hw : 0 < w := by
      rcases Nat.eq_zero_or_pos w with h0 | h0
      · subst h0; simp at hy
      · exact h0
    have hiw : w ≤ i := by
      rcases Nat.lt_or_ge i w with hlt | hge
      · exact absurd (Nat.div_eq_of_lt hlt) hy
      · exact hge
    by_cases hx : i % w = 0
    · simp only [hx, if_true]
      exact h _ (by omega)
    · simp only [hx, if_false]
      have hw2 : 2 ≤ w := by
        rcases Nat.lt_or_ge w 2 with hlt | hge
        · have : w = 1 := by omega
          exact absurd (by rw [this]; exact Nat.mod_one i) hx
        · exact hge
      rw [h (i - 1) (by omega), h (i - w) (by omega), h (i - w + 1) (by omega),
        h (i - w - 1) (by omega)]

theorem fwdPredictAt_eq (w bits : Nat) (tiles : Array Px) (g : Nat → Px) (i : Nat) :
    fwdPredictAt w bits tiles g i = predictAt modeFwd w bits tiles g i := by
  unfold fwdPredictAt predictAt
  simp only [predictPixel_eq]

theorem predictAt_mode_agree (w bits : Nat) (tiles : Array Px) (hm : ModesAgree tiles)
    (g : Nat → Px) (i : Nat) :
    predictAt modeFwd w bits tiles g i = predictAt modeInv w bits tiles g i := by
  unfold predictAt
  have hmode : normMode (modeFwd (tileAt w bits tiles i)) = normMode (modeInv (tileAt w bits tiles i)) := by
    rcases tileAt_mem_or_zero w bits tiles i with hmem | hz
    · exact hm _ hmem
    · rw [hz, modeFwd_zero, modeInv_zero]
  rw [predict_normMode (modeFwd _), predict_normMode (modeInv _), hmode]

theorem size_predictFwd (w bits : Nat) (tiles px : Array Px) :
    (predictFwd w bits tiles px).size = px.size := by
  simp [predictFwd]

theorem getD_predictFwd (w bits : Nat) (tiles px : Array Px) (i : Nat) (hi : i < px.size) :
    (predictFwd w bits tiles px).getD i 0
      = subPixels (px.getD i 0) (fwdPredictAt w bits tiles (fun j => px.getD j 0) i) := by
  simp [predictFwd, Array.getD, hi]

/-- loop invariant: everything already output equals the original -/
theorem predictInvLoop_fwd (w bits : Nat) (tiles px : Array Px) (hm : ModesAgree tiles) :
    ∀ (k : Nat) (out : Array Px), out.size + k = px.size →
      (∀ j, j < out.size → out.getD j 0 = px.getD j 0) →
      predictInvLoop w bits tiles (predictFwd w bits tiles px) k out = px := by
  intro k
  induction k with
  | zero =>
    intro out hsz hpre
    simp only [predictInvLoop]
    apply Array.ext
    · omega
    · intro j h1 h2
      have := hpre j h1
      simpa [Array.getD, h1, h2] using this
  | succ k ih =>
    intro out hsz hpre
    simp only [predictInvLoop]
    apply ih
    · simp; omega
    · intro j hj
      have hi : out.size < px.size := by omega
      simp only [Array.size_push] at hj
      by_cases hjl : j < out.size
      · have := hpre j hjl
        simpa [Array.getD, Array.getElem_push, hjl, hj] using this
      · have hje : j = out.size := by omega
        subst hje
        have hnew : (out.push (addPx ((predictFwd w bits tiles px).getD out.size 0)
            (predictAt modeInv w bits tiles (fun j => out.getD j 0) out.size))).getD out.size 0
            = addPx ((predictFwd w bits tiles px).getD out.size 0)
                (predictAt modeInv w bits tiles (fun j => out.getD j 0) out.size) := by
          simp [Array.getD]
        rw [hnew, getD_predictFwd _ _ _ _ _ hi, fwdPredictAt_eq, predictAt_mode_agree _ _ _ hm,
          predictAt_congr modeInv w bits tiles (fun j => out.getD j 0) (fun j => px.getD j 0) _ hpre,
          addPx_subPixels]

theorem predictInv_predictFwd (w bits : Nat) (tiles px : Array Px) (hm : ModesAgree tiles) :
    predictInv w bits tiles (predictFwd w bits tiles px) = px := by
  unfold predictInv
  rw [size_predictFwd]
  exact predictInvLoop_fwd w bits tiles px hm px.size #[] (by simp) (by simp)

/-! ## the decoder as coded = the specification -/

theorem decPredict_eq (mode w : Nat) (out : Nat → Px) (i : Nat) (hy : i / w ≠ 0) (hx : i % w ≠ 0) :
    decPredict mode w out (i / w) (i % w)
      = predict mode (out (i - 1)) (out (i - w)) (out (i - w + 1)) (out (i - w - 1)) := by
  have hw : 0 < w := by
    rcases Nat.eq_zero_or_pos w with h0 | h0
    · subst h0; simp at hy
    · exact h0
  have hiw : w ≤ i := by
    rcases Nat.lt_or_ge i w with hlt | hge
    · exact absurd (Nat.div_eq_of_lt hlt) hy
    · exact hge
  have hdm : i / w * w + i % w = i := by rw [Nat.mul_comm]; exact Nat.div_add_mod i w
  have hxlt : i % w < w := Nat.mod_lt _ hw
  have hyw : w ≤ i / w * w := by
    have : 1 ≤ i / w := Nat.pos_of_ne_zero hy
    calc w = 1 * w := by simp
      _ ≤ i / w * w := Nat.mul_le_mul_right w this
  have h1 : i / w * w + (i % w - 1) = i - 1 := by omega
  have h2 : i / w * w - w + i % w = i - w := by omega
  have h4 : i / w * w - w + (i % w - 1) = i - w - 1 := by omega
  have h3 : (if i % w < w - 1 then out (i / w * w - w + (i % w + 1)) else out (i / w * w + 0))
      = out (i - w + 1) := by
    split
    · congr 1; omega
    · congr 1; omega
  unfold decPredict predict
  simp only [h1, h2, h3, h4]
  split <;> simp only [average2_eq, selectPred_eq, clampAddSubFull_eq, clampAddSubHalf_eq]

theorem decPredictAt_eq (w bits : Nat) (tiles : Array Px) (out : Nat → Px) (i : Nat) :
    decPredictAt w bits tiles out i = predictAt modeInv w bits tiles out i := by
  unfold decPredictAt predictAt
  by_cases hy : i / w = 0
  · simp [hy]
  · by_cases hx : i % w = 0
    · simp only [hy, hx, if_false, if_true]
      congr 1
      have : i / w * w + i % w = i := by rw [Nat.mul_comm]; exact Nat.div_add_mod i w
      omega
    · simp only [hy, hx, if_false]
      exact decPredict_eq _ w out i hy hx

theorem predictorInverseLoop_eq (w bits : Nat) (tiles inp : Array Px) :
    ∀ (k : Nat) (out : Array Px),
      predictorInverseLoop w bits tiles inp k out = predictInvLoop w bits tiles inp k out := by
  intro k
  induction k with
  | zero => intro out; rfl
  | succ k ih =>
    intro out
    simp only [predictorInverseLoop, predictInvLoop, addPixels_eq, decPredictAt_eq, ih]

/-- `predictorInverseTransform` (specialised per-mode loops, `safeEnd` split, mask-trick
    `addPixels`/`average2`) computes the specification's inverse, for every input -/
theorem predictorInverse_eq_spec (w bits : Nat) (tiles inp : Array Px) :
    predictorInverse w bits tiles inp = predictInv w bits tiles inp := by
  unfold predictorInverse predictInv
  exact predictorInverseLoop_eq w bits tiles inp _ _

end Webp.Proofs.LTransformPredictor
