import Webp.Proofs.VP8LWindowLoop
import Webp.Impl.VP8LWindow2
/-
  The WINDOW BUDGET, part 5: PREFIX-CODE READING (`readHuffmanCode`, `readHuffmanCodeLengths`) on the
  window reader against the specification's `readCodeLengthVector`; `ReadBits` in window states.
-/
namespace Webp.Proofs.VP8LWindow
open Webp.Go (Res)
open Webp.Spec.VP8L
open Webp.Impl.VP8LEntropy
open Webp.Impl.VP8LWindow
open Webp.Proofs.VP8LEntropyBits Webp.Proofs.VP8LEntropyRev Webp.Proofs.VP8LEntropyCanon
open Webp.Proofs.VP8LEntropyPrefix Webp.Proofs.VP8LEntropyTableA
open Webp.Proofs.VP8LEntropyTableB Webp.Proofs.VP8LEntropyTableC Webp.Proofs.VP8LEntropyTableD
open Webp.Proofs.VP8LEntropyTableE Webp.Proofs.VP8LEntropyTableF
open Webp.Proofs.VP8LEntropyReader

/-! ## the code-length table: one-level lookups -/

/-- `buildTable_complete` (VP8LEntropyTableF) once more, exporting in addition the ROOT CELLS: a
    symbol of length `l ≤ R` sits directly in every root cell whose index ends in its key -/
theorem buildTable_complete_cells {lens : Array Nat} (hc : Complete lens) (R : Nat) (hR1 : 1 ≤ R) (hR : R ≤ 15) :
    ∃ tbl sorted, buildTable R lens = .ok tbl ∧
      (∀ s, s < lens.size → lens.getD s 0 ≠ 0 → sorted.getD (offs lens (lens.getD s 0) + idx lens s) 0 = s) ∧
      (∀ l m, Sym lens l m → ∀ w, w % 2 ^ l = keyOf lens l m →
        readSymbolRaw R tbl w = .ok (some (symOf lens sorted l m, l))) ∧
      (∀ l m, Sym lens l m → l ≤ R → ∀ j, j < 2 ^ R → j % 2 ^ l = keyOf lens l m →
        tbl[j]? = some ⟨l, symOf lens sorted l m⟩) := by
  obtain ⟨sorted, wR, sEnd, sp⟩ := sizePass_of_complete hc R hR1 hR
  have h15 := hc.h15
  have hu := offs16_ge_two hc
  have hsize := size_eq lens h15
  have hTge : 2 ^ R ≤ sEnd.totalSize := by
    have := sizeSubOuter_mono R _ _ _ _ sp.sub
    simpa [Nat.one_shiftLeft] using this
  have hpR : 0 < 2 ^ R := Nat.pow_pos (by decide)
  obtain ⟨o, o', ho, hsort, ho'⟩ := sp.offsets
  -- the walk of the first pass at the end of the root levels
  have hzroot := (sizeRootOuter_spec lens R hR R 1 { count := countLengths lens } (Nat.le_refl _) (by omega)
    (by simpa [cnt'] using wk_init lens) ⟨NO_zero lens ▸ rfl, NN_zero lens ▸ rfl⟩).1 wR sp.root
  obtain ⟨hzk, hzn⟩ := hzroot
  -- root levels of the second pass
  let s0 : BuildSt := { w := { count := countLengths lens }, table := Array.replicate sEnd.totalSize {},
                        tableBits := R, tableSize := 1 <<< R }
  have hi0 : RootInv lens sorted R sEnd.totalSize (1 - 1) (cnt' lens (1 - 1)) s0 := by
    refine ⟨by simpa [cnt'] using wk_init lens, rfl, by simp [s0], Nat.one_shiftLeft R, rfl, rfl, rfl, ?_⟩
    intro l' m' hs' hb
    unfold Before at hb
    have := hs'.1
    simp [cnt'] at hb
  obtain ⟨s1, hs1, hi1, hn1⟩ := buildRootOuter_spec lens sorted R sEnd.totalSize hc hR hTge R 1 s0
    (Nat.le_refl _) (by omega) hi0 ⟨NO_zero lens ▸ rfl, NN_zero lens ▸ rfl⟩
  have hs1' : buildRootOuter sorted R R 1 2 s0 = .ok s1 := hs1
  -- hand over to the second-level loops
  let z0 : SizeSt := { w := wR, low := noLow, totalSize := 1 <<< R }
  have hsub0 : SubInv lens sorted R sEnd.totalSize (R + 1 - 1) (cnt' lens (R + 1 - 1)) s1 z0 := by
    simp only [Nat.add_sub_cancel]
    refine ⟨hi1.wk, hzk, hi1.low.symm, ?_, hi1.sym, hi1.tsz, ?_, ?_, ?_, ?_, ?_, ?_⟩
    · show 1 <<< R = s1.tableOff + s1.tableSize
      rw [hi1.toff, hi1.tsize, Nat.one_shiftLeft]; omega
    · rw [hi1.tsize, hi1.tbits]
    · rw [hi1.toff, hi1.tsize]; omega
    · rw [hi1.toff, hi1.tsize]; omega
    · intro l' m' hs' hl' j hj hmod
      apply hi1.cells l' m' hs' ?_ j hj hmod
      unfold Before
      by_cases hlR : l' = R
      · right; refine ⟨hlR, ?_⟩; rw [cnt', if_neg (by omega), ← hlR]; exact hs'.2.2
      · left; omega
    · left
      refine ⟨hi1.low, ?_⟩
      intro l' m' _ hR' hb
      unfold Before at hb; omega
    · intro l' m' _ hR' hb
      unfold Before at hb; omega
  obtain ⟨s2, z2, hs2, hi2, hn2⟩ := buildSubOuter_spec lens sorted R sEnd.totalSize hc hR sEnd rfl (15 - R) (R + 1)
    s1 z0 (Nat.le_refl _) (by omega) hsub0 (by simpa using hn1) (by simpa using hzn) sp.sub
  have hs2' : buildSubOuter sorted R sEnd.totalSize (maxLen - R) (R + 1) 2 s1 = .ok s2 := by
    have e : R + 1 - R = 1 := by omega
    rw [e] at hs2; exact hs2
  refine ⟨s2.table, sorted, ?_, sp.sorted, fun l m hs w hw => lookup_of_subInv hc hR1 hi2 hs w hw, hi2.short⟩
  unfold buildTable
  rw [if_neg (by omega), sp.total, if_neg (by omega)]
  simp only
  rw [any_gt_false lens h15]
  simp only [Bool.false_eq_true, if_false]
  have hc0 : (countLengths lens).getD 0 0 ≠ lens.size := by
    show (lengthCounts lens).getD 0 0 ≠ _
    rw [lengthCounts_getD lens 0 (by decide)]; omega
  rw [if_neg hc0, ho]
  simp only [hsort, ho']
  rw [if_neg (by omega), hs1']
  simp only
  rw [hs2']
  simp only
  have hnn : s2.w.numNodes = 2 * ((offs lens 16 : Nat) : Int) - 1 := by
    rw [hn2.numNodes, NN, NO_15, hc.hk, show offs lens (15 + 1) = offs lens 16 from rfl]; push_cast; omega
  rw [if_neg (by rw [hnn]; simp)]


/-- a lookup result of fewer than 7 bits in a 7-bit root table is the root cell itself -/
theorem cell_of_raw7 {t : Table} {w v l : Nat} (h : readSymbolRaw 7 t w = .ok (some (v, l))) (hl : l < 7) :
    t[w % 128]? = some ⟨l, v⟩ := by
  unfold readSymbolRaw at h
  have e : (2 : Nat) ^ 7 = 128 := by decide
  simp only [mask_eq, e] at h
  split at h
  · rename_i hlt
    split at h
    · split at h
      · injection h with h; injection h with h; injection h with h1 h2; omega
      · cases h
    · injection h with h; injection h with h; injection h with h1 h2
      rw [Array.getElem?_eq_getElem hlt]
      cases hc : t[w % 128] with
      | mk b v' => rw [hc] at h1 h2; simp at h1 h2; rw [h1, h2]
  · cases h

/-- **the code-length table**: what `clTable[prefetch & LengthsTableMask]` yields for the table
    `BuildHuffmanTable(7, ·)` of 19 code-length-code lengths (each ≤ 7) whose code is `c` -/
structure CLTab (c : Code) (t : Table) : Prop where
  cell : ∀ w : Nat, ∃ v used, t[w % 128]? = some ⟨used, v⟩ ∧ used ≤ 7 ∧ v < 19
  spec : ∀ br : BitReader, br.pos ≤ 8 * br.data.size → ∀ v used, t[peekBits br 32 % 128]? = some ⟨used, v⟩ →
    Webp.Spec.VP8L.readSymbol c br =
      if br.pos + used > 8 * br.data.size then .err .eos else .ok (v, { br with pos := br.pos + used })
  zeroOrPos : (∃ s, ∀ j, j < 128 → t[j]? = some ⟨0, s⟩) ∨
    (∀ j v used, j < 128 → t[j]? = some ⟨used, v⟩ → 1 ≤ used)

theorem clTab_of_build {cl : Array Nat} {c : Code} {t : Table} (h : buildCode cl = .ok c)
    (ht : buildTable 7 cl = .ok t) (hsz : cl.size = 19) (h7 : ∀ x ∈ cl, x ≤ 7) : CLTab c t := by
  obtain ⟨h15, hpos, _, _, _⟩ := buildCode_ok h
  obtain ⟨t', ht', hcanon⟩ := table_lookup_eq_canonical h 7 (by omega) (by omega)
  rw [ht] at ht'; cases ht'
  have e128 : (2 : Nat) ^ 7 = 128 := by decide
  have cellfacts : (∀ w : Nat, ∃ v used, t[w % 128]? = some ⟨used, v⟩ ∧ used ≤ 7 ∧ v < 19) ∧
      ((∃ s, ∀ j, j < 128 → t[j]? = some ⟨0, s⟩) ∨ (∀ j v used, j < 128 → t[j]? = some ⟨used, v⟩ → 1 ≤ used)) := by
    by_cases h1 : offs cl 16 = 1
    · obtain ⟨t', ht', hlook⟩ := buildTable_single cl h15 h1 7
      rw [ht] at ht'; cases ht'
      obtain ⟨l, hl1, hl15, hc⟩ := Webp.Proofs.VP8LFastPaths.exists_used hpos
      obtain ⟨s, hs, hsl, _⟩ := exists_sym (lens := cl) (l := l) (m := 0) ⟨hl1, hl15, hc⟩
      have hne : cl.getD s 0 ≠ 0 := by omega
      have hall := hlook s hs hne
      have hcell : ∀ w, t[w % 128]? = some ⟨0, s⟩ := fun w => cell_of_raw7 (hall w) (by omega)
      refine ⟨fun w => ⟨s, 0, hcell w, by omega, by omega⟩, Or.inl ⟨s, fun j hj => ?_⟩⟩
      have := hcell j
      rwa [Nat.mod_eq_of_lt hj] at this
    · have hc := complete_of_buildCode h h1
      obtain ⟨t', sorted, ht', hsorted, hlook, hcells⟩ := buildTable_complete_cells hc 7 (by omega) (by omega)
      rw [ht] at ht'; cases ht'
      have key : ∀ w : Nat, ∃ l s, 1 ≤ l ∧ l ≤ 7 ∧ s < 19 ∧ t[w % 128]? = some ⟨l, s⟩ := by
        intro w
        obtain ⟨l, m, hs, hw⟩ := cover hc w
        obtain ⟨s, hss, hsl, hsm⟩ := exists_sym hs
        have hl7 : l ≤ 7 := by
          rw [← hsl, getD_eq_getElem cl s hss]; exact h7 _ (Array.getElem_mem hss)
        have hne : cl.getD s 0 ≠ 0 := by have := hs.1; omega
        have hsymOf : symOf cl sorted l m = s := by
          unfold symOf
          have := hsorted s hss hne
          rw [hsl, hsm] at this; exact this
        have hmod : w % 128 % 2 ^ l = keyOf cl l m := by
          have e : 128 = 2 ^ l * 2 ^ (7 - l) := by rw [← Nat.pow_add, ← e128]; congr 1; omega
          rw [e, Nat.mod_mul_right_mod]; exact hw
        have := hcells l m hs hl7 (w % 128) (by rw [e128]; exact Nat.mod_lt _ (by decide)) hmod
        rw [hsymOf] at this
        exact ⟨l, s, hs.1, hl7, by omega, this⟩
      refine ⟨fun w => ?_, Or.inr fun j v used hj hjv => ?_⟩
      · obtain ⟨l, s, _, a, b, c⟩ := key w
        exact ⟨s, l, c, a, b⟩
      · obtain ⟨l, s, a, _, _, c⟩ := key j
        rw [Nat.mod_eq_of_lt hj, hjv] at c
        injection c with c; injection c with c1 c2
        omega
  refine ⟨cellfacts.1, ?_, cellfacts.2⟩
  intro br hbr v used hcell
  rw [← hcanon br hbr]
  unfold Webp.Impl.VP8LEntropy.readSymbol
  obtain ⟨v', used', hc', hu', _⟩ := cellfacts.1 (peekBits br 32)
  rw [hcell] at hc'
  injection hc' with hc'; injection hc' with c1 c2
  subst c1; subst c2
  have := raw_root 7 t (peekBits br 32) ⟨used, v⟩ (by rw [e128]; exact hcell) hu'
  rw [this]

end Webp.Proofs.VP8LWindow
