import Webp.Proofs.LTransformPalette
/-
  The decoder's sequential colour-index loop (`colorIndexInverseTransform`, `src ≠ dst`:
  fetch a word every `pixelsPerByte` columns, shift it right per pixel, restart at every row)
  computes the specification's inverse.   No `bv_decide` in this file.
-/
namespace Webp.Proofs.LTransformPaletteDec
open Webp.Spec.LTransform
open Webp.Impl.LTransform (colorIndexLoop colorIndexInverse expandedMap)
open Webp.Proofs.LTransformPalette (paletteBits_cases size_colorIndexInv getD_colorIndexInv)

/-- the specification's value of output pixel `i` -/
def specPix (pal : Array Px) (w : Nat) (src : Array Px) (i : Nat) : Px :=
  pal.getD (unpackIndex (paletteBits pal.size)
    (src.getD ((i / w) * subSampleSize w (paletteBits pal.size) + (i % w) >>> (paletteBits pal.size)) 0)
    (i % w)) 0

theorem step_arith (ppw x w : Nat) (hp : ppw = 1 ∨ ppw = 2 ∨ ppw = 4 ∨ ppw = 8) (hx : x < w) :
    (x % ppw = 0 → (x + ppw - 1) / ppw = x / ppw) ∧
    (x + 1 = w → (if x % ppw = 0 then x / ppw + 1 else (x + ppw - 1) / ppw) = (w + ppw - 1) / ppw) ∧
    (x + 1 < w → (if x % ppw = 0 then x / ppw + 1 else (x + ppw - 1) / ppw) = (x + 1 + ppw - 1) / ppw) ∧
    ((x + 1) % ppw ≠ 0 → (x + 1) / ppw = x / ppw ∧ (x + 1) % ppw = x % ppw + 1) := by
  rcases hp with rfl | rfl | rfl | rfl <;> refine ⟨?_, ?_, ?_, ?_⟩ <;> intros <;> (try split) <;> omega

theorem mask_toNat (g : UInt32) (bpp : Nat) (hb : bpp ≤ 8) :
    (g &&& UInt32.ofNat ((1 <<< bpp) - 1)).toNat = g.toNat % (1 <<< bpp) := by
  have hM : (1 <<< bpp) - 1 < 2 ^ 32 := by
    have : (1 <<< bpp) ≤ 2 ^ 8 := by
      rw [Nat.one_shiftLeft]; exact Nat.pow_le_pow_right (by decide) hb
    omega
  rw [UInt32.toNat_and, UInt32.toNat_ofNat', Nat.mod_eq_of_lt hM, Nat.one_shiftLeft,
    Nat.and_two_pow_sub_one_eq_mod]

theorem shr_toNat (g : UInt32) (bpp : Nat) (hb : bpp ≤ 8) :
    (g >>> UInt32.ofNat bpp).toNat = g.toNat >>> bpp := by
  rw [UInt32.toNat_shiftRight, UInt32.toNat_ofNat', Nat.mod_eq_of_lt (show bpp < 2 ^ 32 by omega),
    Nat.mod_eq_of_lt (show bpp < 32 by omega)]

theorem size_expandedMap (pal : Array Px) :
    (expandedMap pal).size = 1 <<< (8 >>> paletteBits pal.size) := by
  simp [expandedMap]

theorem getD_expandedMap (pal : Array Px) (i : Nat) (hi : i < 1 <<< (8 >>> paletteBits pal.size)) :
    (expandedMap pal).getD i 0 = pal.getD i 0 := by
  simp [expandedMap, Array.getD, hi]

/-- loop invariant of `colorIndexInverseTransform` -/
theorem colorIndexLoop_spec (pal : Array Px) (w h : Nat) (src : Array Px)
    (bits bpp ppw : Nat) (hbits : paletteBits pal.size = bits) (hbpp : 8 >>> bits = bpp)
    (hppw : 1 <<< bits = ppw) (hp : ppw = 1 ∨ ppw = 2 ∨ ppw = 4 ∨ ppw = 8) (hb8 : bpp ≤ 8) :
    ∀ (n x srcOff : Nat) (packed : UInt32) (dst : Array Px),
      dst.size + n = w * h →
      (n ≠ 0 → x = dst.size % w ∧
        srcOff = dst.size / w * subSampleSize w bits + (x + ppw - 1) / ppw ∧
        (x % ppw ≠ 0 → packed.toNat =
          ((src.getD (dst.size / w * subSampleSize w bits + x / ppw) 0 >>> 8) &&& 0xff).toNat
            >>> (bpp * (x % ppw)))) →
      (∀ j, j < dst.size → dst.getD j 0 = specPix pal w src j) →
      ∀ j, j < w * h →
        (colorIndexLoop (expandedMap pal) bits w src n x srcOff packed dst).getD j 0
          = specPix pal w src j := by
  intro n
  induction n with
  | zero =>
    intro x srcOff packed dst hsz _ hpre j hj
    simp only [colorIndexLoop]
    exact hpre j (by omega)
  | succ n ih =>
    intro x srcOff packed dst hsz hinv hpre j hj
    obtain ⟨hx, hso, hpk⟩ := hinv (by omega)
    have hd : dst.size < w * h := by omega
    have hw : 0 < w := by
      rcases Nat.eq_zero_or_pos w with h0 | h0
      · subst h0; simp at hd
      · exact h0
    have hxw : x < w := by rw [hx]; exact Nat.mod_lt _ hw
    have hdm : dst.size / w * w + x = dst.size := by
      rw [hx, Nat.mul_comm]; exact Nat.div_add_mod _ _
    obtain ⟨a1, a2, a3, a4⟩ := step_arith ppw x w hp hxw
    have hssz : subSampleSize w bits = (w + ppw - 1) / ppw := by
      unfold subSampleSize; rw [hppw, Nat.shiftRight_eq_div_pow, ← Nat.one_shiftLeft, hppw]
    simp only [colorIndexLoop, hppw, hbpp]
    -- the word in use and its shifted value
    have hpacked : (if x % ppw = 0 then (src.getD srcOff 0 >>> 8) &&& 0xff else packed).toNat
        = ((src.getD (dst.size / w * subSampleSize w bits + x / ppw) 0 >>> 8) &&& 0xff).toNat
            >>> (bpp * (x % ppw)) := by
      by_cases hf : x % ppw = 0
      · rw [if_pos hf, hso, a1 hf, hf]; simp
      · rw [if_neg hf]; exact hpk hf
    generalize hP : (if x % ppw = 0 then (src.getD srcOff 0 >>> 8) &&& 0xff else packed) = P at hpacked
    -- the pixel written
    have hidx : (P &&& UInt32.ofNat ((1 <<< bpp) - 1)).toNat
        = unpackIndex bits (src.getD (dst.size / w * subSampleSize w bits + x >>> bits) 0) x := by
      rw [mask_toNat _ _ hb8, hpacked]
      unfold unpackIndex
      simp only [hppw, hbpp]
      rw [Nat.shiftRight_eq_div_pow x bits, ← Nat.one_shiftLeft, hppw]
    have hlt : (P &&& UInt32.ofNat ((1 <<< bpp) - 1)).toNat < (expandedMap pal).size := by
      rw [size_expandedMap, hbits, hbpp, mask_toNat _ _ hb8]
      exact Nat.mod_lt _ (by rw [Nat.one_shiftLeft]; exact Nat.pow_pos (by decide))
    have hnew : (if (P &&& UInt32.ofNat ((1 <<< bpp) - 1)).toNat < (expandedMap pal).size
        then (expandedMap pal).getD (P &&& UInt32.ofNat ((1 <<< bpp) - 1)).toNat 0 else 0)
        = specPix pal w src dst.size := by
      rw [if_pos hlt, getD_expandedMap _ _ (by rw [← size_expandedMap]; exact hlt), hidx]
      unfold specPix
      rw [hbits, ← hx]
    rw [hnew]
    apply ih _ _ _ _ (by simp; omega) ?_ ?_ j hj
    · -- invariant for the next pixel
      intro hn
      simp only [Array.size_push]
      have hd1 : dst.size + 1 < w * h := by omega
      by_cases hrow : x + 1 = w
      · -- next row
        have hdiv : (dst.size + 1) / w = dst.size / w + 1 := by
          have : dst.size + 1 = (dst.size / w + 1) * w := by rw [Nat.add_mul]; omega
          rw [this, Nat.mul_div_cancel _ hw]
        have hmod : (dst.size + 1) % w = 0 := by
          have : dst.size + 1 = (dst.size / w + 1) * w := by rw [Nat.add_mul]; omega
          rw [this, Nat.mul_mod_left]
        rw [if_pos hrow, hdiv, hmod]
        refine ⟨rfl, ?_, by simp⟩
        have := a2 hrow
        have e0 : (0 + ppw - 1) / ppw = 0 := by rcases hp with rfl | rfl | rfl | rfl <;> simp
        rw [e0, hssz, Nat.add_mul, hso, hssz]
        by_cases hf : x % ppw = 0
        · rw [if_pos hf] at this ⊢; rw [a1 hf]; omega
        · rw [if_neg hf] at this ⊢; omega
      · -- same row
        have hlt1 : x + 1 < w := by omega
        have hdiv : (dst.size + 1) / w = dst.size / w := by
          have : dst.size + 1 = w * (dst.size / w) + (x + 1) := by rw [Nat.mul_comm]; omega
          rw [this, Nat.mul_add_div hw, Nat.div_eq_of_lt hlt1]; simp
        have hmod : (dst.size + 1) % w = x + 1 := by
          have : dst.size + 1 = w * (dst.size / w) + (x + 1) := by rw [Nat.mul_comm]; omega
          rw [this, Nat.mul_add_mod, Nat.mod_eq_of_lt hlt1]
        rw [if_neg hrow, hdiv, hmod]
        refine ⟨rfl, ?_, ?_⟩
        · have := a3 hlt1
          rw [hso]
          by_cases hf : x % ppw = 0
          · rw [if_pos hf] at this ⊢; rw [a1 hf]; omega
          · rw [if_neg hf] at this ⊢; omega
        · intro hne
          obtain ⟨e1, e2⟩ := a4 hne
          rw [shr_toNat _ _ hb8, hpacked, e1, e2, ← Nat.shiftRight_add]
          rw [Nat.mul_add, Nat.mul_one]
    · -- pixels already written
      intro j' hj'
      simp only [Array.size_push] at hj'
      by_cases hjl : j' < dst.size
      · have := hpre j' hjl
        simpa [Array.getD, Array.getElem_push, hjl, hj'] using this
      · have hje : j' = dst.size := by omega
        subst hje
        simp [Array.getD]

/-- `colorIndexInverseTransform` (`src ≠ dst`) = the specification, for every palette, size and
    input -/
theorem colorIndexInverse_eq_spec (pal : Array Px) (w h : Nat) (src : Array Px) :
    colorIndexInverse pal w h src = colorIndexInv pal w h src := by
  have hsize : ∀ (n x srcOff : Nat) (packed : UInt32) (dst : Array Px),
      (colorIndexLoop (expandedMap pal) (paletteBits pal.size) w src n x srcOff packed dst).size
        = dst.size + n := by
    intro n
    induction n with
    | zero => intros; rfl
    | succ n ih => intro x s p d; simp only [colorIndexLoop]; rw [ih]; simp; omega
  have hall : ∀ j, j < w * h → (colorIndexInverse pal w h src).getD j 0 = specPix pal w src j := by
    unfold colorIndexInverse
    have hgen : ∀ (bits bpp ppw : Nat), paletteBits pal.size = bits → 8 >>> bits = bpp →
        1 <<< bits = ppw → (ppw = 1 ∨ ppw = 2 ∨ ppw = 4 ∨ ppw = 8) → bpp ≤ 8 →
        ∀ j, j < w * h →
          (colorIndexLoop (expandedMap pal) bits w src (w * h) 0 0 0 #[]).getD j 0
            = specPix pal w src j := by
      intro bits bpp ppw hbits hbpp hppw hp hb8
      apply colorIndexLoop_spec pal w h src bits bpp ppw hbits hbpp hppw hp hb8
      · simp
      · intro _
        refine ⟨by simp, ?_, by simp⟩
        simp
        rcases hp with rfl | rfl | rfl | rfl <;> simp
      · intro j hj; simp at hj
    rcases paletteBits_cases pal.size with ⟨_, hb⟩ | ⟨_, _, hb⟩ | ⟨_, _, hb⟩ | ⟨_, hb⟩
    · rw [hb]; exact hgen 3 1 8 hb (by decide) (by decide) (by simp) (by decide)
    · rw [hb]; exact hgen 2 2 4 hb (by decide) (by decide) (by simp) (by decide)
    · rw [hb]; exact hgen 1 4 2 hb (by decide) (by decide) (by simp) (by decide)
    · rw [hb]; exact hgen 0 8 1 hb (by decide) (by decide) (by simp) (by decide)
  apply Array.ext
  · unfold colorIndexInverse; rw [hsize, size_colorIndexInv]; simp
  · intro i h1 h2
    have hi : i < w * h := by rw [size_colorIndexInv] at h2; exact h2
    have e1 := hall i hi
    have e2 := getD_colorIndexInv pal w h src i hi
    unfold specPix at e1
    rw [← e2] at e1
    simpa [Array.getD, h1, h2] using e1

end Webp.Proofs.LTransformPaletteDec
