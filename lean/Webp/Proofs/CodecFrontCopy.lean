import Webp.Proofs.CodecFrontVP8Frame
import Webp.Impl.CodecFrontL
/-
  VP8L: the backward-reference guards of `decodeImageData` make `copyBlock32` safe
  (`copyStep_post`), `PlaneCodeToDistance ≥ 1` (`planeCodeToDistance_pos`), and
  `expandColorMap` stays inside its three buffers (`expandColorMap_post`).
-/
namespace Webp.Impl.CodecFrontL
open Webp.Go
open Webp.Impl.CodecFront (Mem memTotal)

/-! ### PlaneCodeToDistance -/

theorem planeCodeToDistance_pos (xsize : Nat) (planeCode : Int) :
    1 ≤ planeCodeToDistance xsize planeCode := by
  unfold planeCodeToDistance
  split
  · omega
  split
  · omega
  dsimp only
  split
  · omega
  split <;> omega

/-! ### copyBlock32 -/

/-- what one block move of a copy at `pos` (distance `dist`, `length` pixels) may touch:
    it reads `[slo, slo+n)` and writes `[dlo, dlo+n)`;
      * reads start at or after `pos - dist ≥ 0` and end at or before where the write starts
        (so source and destination never overlap inside one `copy`, and every read index is
        smaller than every write index),
      * writes lie in `[pos, pos+length)`, which is inside the buffer. -/
structure MoveOK (len : Nat) (pos dist length : Int) (mv : Move) : Prop where
  src_lo : pos - dist ≤ mv.slo
  disjoint : mv.slo + mv.n ≤ mv.dlo
  dst_lo : pos ≤ mv.dlo
  dst_hi : (mv.dlo : Int) + mv.n ≤ pos + length
  inside : mv.dlo + mv.n ≤ len

theorem doubling_post (len pos length : Nat) (hin : pos + length ≤ len)
    (Q : Move → Prop)
    (hQ : ∀ mv : Move, mv.slo = pos → mv.slo + mv.n ≤ mv.dlo → mv.dlo + mv.n ≤ pos + length → Q mv) :
    ∀ (fuel copied : Nat) (acc : List Move), 1 ≤ copied → copied ≤ length → length < copied + fuel →
      (∀ mv ∈ acc, Q mv) →
      (doubling len pos length fuel copied acc).Post (fun r => ∀ mv ∈ r, Q mv)
  | 0, copied, acc, hc, hle, hf, hacc => by
    omega
  | fuel + 1, copied, acc, hc, hle, hf, hacc => by
    unfold doubling
    by_cases hlt : copied < length
    · rw [if_pos hlt]
      dsimp only
      generalize hn : (if copied > length - copied then length - copied else copied) = n
      have hn1 : 1 ≤ n := by rw [← hn]; split <;> omega
      have hn2 : n ≤ copied := by rw [← hn]; split <;> omega
      have hn3 : copied + n ≤ length := by rw [← hn]; split <;> omega
      rw [if_pos ⟨by omega, by omega⟩]
      refine doubling_post len pos length hin Q hQ fuel (copied + n) _ (by omega) (by omega) (by omega) ?_
      intro mv hmv
      rcases List.mem_append.mp hmv with h | h
      · exact hacc mv h
      · rw [List.mem_singleton] at h
        subst h
        exact hQ _ rfl (by dsimp only; omega) (by dsimp only; omega)
    · rw [if_neg hlt]
      exact hacc

theorem copyBlock32_post (len : Nat) (pos dist length : Int) (hp : dist ≤ pos) (hd : 1 ≤ dist)
    (hl : 1 ≤ length) (hin : pos + length ≤ len) :
    (copyBlock32 len pos dist length).Post (fun r => ∀ mv ∈ r, MoveOK len pos dist length mv) := by
  unfold copyBlock32
  dsimp only
  by_cases h1 : dist ≥ length
  · rw [if_pos h1]
    rw [if_pos (by omega)]
    intro mv hmv
    rw [List.mem_singleton] at hmv
    subst hmv
    refine ⟨?_, ?_, ?_, ?_, ?_⟩ <;> dsimp only <;> omega
  · rw [if_neg h1]
    by_cases h2 : dist = 1
    · rw [if_pos h2]
      rw [if_pos (by omega)]
      intro mv hmv
      obtain ⟨i, hi, rfl⟩ := List.mem_map.mp hmv
      rw [List.mem_range] at hi
      refine ⟨?_, ?_, ?_, ?_, ?_⟩ <;> dsimp only <;> omega
    · rw [if_neg h2]
      rw [if_pos (by omega)]
      have hpn : pos.toNat + length.toNat ≤ len := by omega
      refine doubling_post len pos.toNat length.toNat hpn (MoveOK len pos dist length) ?_
        length.toNat dist.toNat _ (by omega) (by omega) (by omega) ?_
      · intro mv e1 e2 e3
        refine ⟨?_, ?_, ?_, ?_, ?_⟩ <;> omega
      · intro mv hmv
        rw [List.mem_singleton] at hmv
        subst hmv
        refine ⟨?_, ?_, ?_, ?_, ?_⟩ <;> dsimp only <;> omega

/-- **copy_in_bounds.**  With the two guards the decoder applies (`pos < dist`,
    `srcEnd - pos < length`), for a buffer of exactly `srcEnd` elements, a position inside it,
    `length ≥ 1` (`getCopyLength`) and `dist ≥ 1` (`PlaneCodeToDistance`): `copyBlock32` neither
    panics nor loops, every block move is `MoveOK`, and the new position is `pos + length ≤ srcEnd`. -/
theorem copyStep_post (srcEnd : Nat) (pos dist length : Int) (hd : 1 ≤ dist)
    (hl : 1 ≤ length) :
    (copyStep srcEnd srcEnd pos dist length).Post (fun r => r.2 = pos + length ∧ r.2 ≤ (srcEnd : Int) ∧
      ∀ mv ∈ r.1, MoveOK srcEnd pos dist length mv) := by
  unfold copyStep
  by_cases hg : pos < dist ∨ (srcEnd : Int) - pos < length
  · rw [if_pos hg]; trivial
  · rw [if_neg hg]
    refine Res.Post.bind (copyBlock32_post srcEnd pos dist length (by omega) hd hl (by omega))
      (fun mv hmv => ?_)
    exact ⟨rfl, (by show pos + length ≤ (srcEnd : Int); omega), hmv⟩

/-- The hypotheses `1 ≤ dist` is not decoration: with `dist = 0` the guards pass and the doubling
    loop never advances (`copied` stays 0). -/
theorem copyStep_dist0_hangs : copyStep 10 10 2 0 3 = .hang := by decide

/-! ### expandColorMap -/

theorem forIdx_post (chk : Nat → Bool) : ∀ (n i : Nat), (∀ k, i ≤ k → k < i + n → chk k = true) →
    (forIdx n i chk).Post (fun _ => True)
  | 0, _, _ => trivial
  | n + 1, i, h => by
    unfold forIdx
    rw [if_pos (h i (Nat.le_refl _) (by omega))]
    exact forIdx_post chk n (i + 1) (fun k h1 h2 => h k (by omega) (by omega))

theorem allocL_post (memCap : Nat) (m : Mem) (bytes : Nat) :
    (allocL memCap m bytes).Post (fun m' => m' = bytes :: m ∧ bytes ≤ memCap) := by
  unfold allocL
  by_cases h : bytes ≤ memCap
  · rw [if_pos h]; exact ⟨rfl, h⟩
  · rw [if_neg h]; trivial

/-- the `bits` the decoder derives from `numColors` -/
def bitsFor (numColors : Nat) : Nat :=
  if numColors > 16 then 0 else if numColors > 4 then 1 else if numColors > 2 then 2 else 3

theorem final_ge (numColors : Nat) (h1 : 1 ≤ numColors) (h2 : numColors ≤ 256) :
    numColors ≤ 1 <<< (8 >>> bitsFor numColors) ∧ 2 ≤ 1 <<< (8 >>> bitsFor numColors) ∧
    1 <<< (8 >>> bitsFor numColors) ≤ 256 := by
  unfold bitsFor
  split
  · exact ⟨by simpa using h2, by decide, by decide⟩
  split
  · exact ⟨by simp; omega, by decide, by decide⟩
  split
  · exact ⟨by simp; omega, by decide, by decide⟩
  · exact ⟨by simp; omega, by decide, by decide⟩

/-- **expandColorMap_in_bounds**: for every `numColors` in 1..256 (with the `bits` the decoder
    derives from it) and a palette of ANY length, every index into `newMap`, `oldBytes`,
    `newBytes` is in range; the result has `1 << (8 >> bits)` entries. -/
theorem expandColorMap_post (memCap numColors paletteLen : Nat) (m : Mem) (h1 : 1 ≤ numColors)
    (h2 : numColors ≤ 256) :
    (expandColorMap memCap numColors (bitsFor numColors) paletteLen m).Post (fun r =>
      r.1 = 1 <<< (8 >>> bitsFor numColors) ∧
      memTotal r.2 ≤
        memTotal m + 8 * (1 <<< (8 >>> bitsFor numColors)) + 4 * paletteLen ∧
      (∀ x ∈ r.2, x ∈ m ∨ x ≤ memCap)) := by
  unfold expandColorMap
  obtain ⟨f1, f2, f3⟩ := final_ge numColors h1 h2
  generalize 1 <<< (8 >>> bitsFor numColors) = fin at *
  dsimp only
  refine Res.Post.bind (allocL_post memCap m _) (fun m1 hm1 => ?_)
  rw [if_neg (by omega)]
  refine Res.Post.bind (allocL_post memCap m1 _) (fun m2 hm2 => ?_)
  refine Res.Post.bind (forIdx_post _ _ _ (fun k _ hk => by simp; omega)) (fun _ _ => ?_)
  refine Res.Post.bind (allocL_post memCap m2 _) (fun m3 hm3 => ?_)
  refine Res.Post.bind (forIdx_post _ _ _ (fun k _ hk => by simp; omega)) (fun _ _ => ?_)
  generalize hnc : (if paletteLen < numColors then paletteLen else numColors) = nc
  have hnc1 : nc ≤ numColors := by rw [← hnc]; split <;> omega
  have hnc2 : nc ≤ paletteLen := by rw [← hnc]; split <;> omega
  refine Res.Post.bind (forIdx_post _ _ _ (fun k h1 hk => by simp; omega)) (fun _ _ => ?_)
  refine Res.Post.bind (forIdx_post _ _ _ (fun k h1 hk => by simp; omega)) (fun _ _ => ?_)
  refine Res.Post.bind (forIdx_post _ _ _ (fun k _ hk => by simp; omega)) (fun _ _ => ?_)
  obtain ⟨e1, c1⟩ := hm1
  obtain ⟨e2, c2⟩ := hm2
  obtain ⟨e3, c3⟩ := hm3
  refine ⟨rfl, ?_, ?_⟩
  · show memTotal m3 ≤ _
    rw [e3, e2, e1]
    unfold memTotal
    simp only [List.sum_cons]
    omega
  · intro x hx
    have hx' : x ∈ m3 := hx
    rw [e3, e2, e1] at hx'
    simp only [List.mem_cons] at hx'
    rcases hx' with rfl | rfl | rfl | h
    · exact Or.inr c3
    · exact Or.inr c2
    · exact Or.inr c1
    · exact Or.inl h

end Webp.Impl.CodecFrontL
