import Webp.Impl.Alpha
import Mathlib.Data.Rat.Floor
import Mathlib.Tactic.Linarith
import Mathlib.Tactic.FieldSimp
import Mathlib.Tactic.Positivity
import Mathlib.Data.Finset.Card
import Mathlib.Order.Interval.Finset.Nat
/-
  Helper lemmas for property C07: the level quantiser (`quantizeLevels`) keeps the extreme
  values and produces at most `numLevels` distinct values — for every numeric model `num`
  (level bound) resp. every numeric model whose rounding is monotone and exact on the
  half-integers up to 1024 (`RndOK`; extremes).
-/
namespace Webp.Proofs.AlphaQuant
open Webp.Impl.Alpha

/-- what the proofs need from the rounding function of the numeric model -/
structure RndOK (num : Num) : Prop where
  mono : ∀ x y : Rat, x ≤ y → num.rnd x ≤ num.rnd y
  half : ∀ k : Int, -2048 ≤ k → k ≤ 2048 → num.rnd ((k : Rat) / 2) = (k : Rat) / 2

theorem rndOK_exact : RndOK Num.exact := ⟨fun _ _ h => h, fun _ _ _ => rfl⟩

theorem RndOK.nat {num : Num} (ok : RndOK num) (k : Nat) (hk : k ≤ 1024) :
    num.rnd (k : Rat) = (k : Rat) := by
  have := ok.half (2 * (k : Int)) (by omega) (by omega)
  have e : (((2 * (k : Int) : Int) : Rat)) / 2 = (k : Rat) := by push_cast; ring
  rwa [e] at this

theorem RndOK.natHalf {num : Num} (ok : RndOK num) (k : Nat) (hk : k ≤ 1000) :
    num.rnd ((k : Rat) + 1 / 2) = (k : Rat) + 1 / 2 := by
  have := ok.half (2 * (k : Int) + 1) (by omega) (by omega)
  have e : (((2 * (k : Int) + 1 : Int) : Rat)) / 2 = (k : Rat) + 1 / 2 := by push_cast; ring
  rwa [e] at this

/-- invariant of `invQLevel` during the k-means loop -/
structure CentroidsOK (minS maxS n : Nat) (inv : List Rat) : Prop where
  len : inv.length = n
  first : inv.getD 0 0 = (minS : Rat)
  last : inv.getD (n - 1) 0 = (maxS : Rat)
  lo : ∀ j, j < n → (minS : Rat) ≤ inv.getD j 0
  hi : ∀ j, j + 1 < n → inv.getD j 0 ≤ (maxS : Rat) - 1

theorem getD_map_range {α : Type} (n : Nat) (f : Nat → α) (d : α) (j : Nat) (hj : j < n) :
    ((List.range n).map f).getD j d = f j := by
  simp [List.getD_eq_getElem?_getD, hj]

theorem init_ok (num : Num) (ok : RndOK num) (minS maxS n : Nat) (hn : 2 ≤ n)
    (hd : minS + n ≤ maxS) (hmax : maxS ≤ 255) :
    CentroidsOK minS maxS n (initInv num minS maxS n) := by
  have hn1 : (0 : Rat) < ((n - 1 : Nat) : Rat) := by
    have : 0 < n - 1 := by omega
    exact_mod_cast this
  have r0 : num.rnd 0 = 0 := by simpa using ok.nat 0 (by omega)
  have hcast : ((maxS - minS : Nat) : Rat) = (maxS : Rat) - (minS : Rat) := by
    rw [Nat.cast_sub (by omega)]
  have hnc : ((n - 1 : Nat) : Rat) = (n : Rat) - 1 := by
    rw [Nat.cast_sub (by omega)]; simp
  refine ⟨by simp [initInv], ?_, ?_, ?_, ?_⟩
  · rw [initInv, getD_map_range _ _ _ _ (by omega)]
    simp only [Nat.mul_zero, Nat.cast_zero, zero_div, r0, add_zero]
    exact ok.nat minS (by omega)
  · rw [initInv, getD_map_range _ _ _ _ (by omega)]
    have e : (((maxS - minS) * (n - 1) : Nat) : Rat) / ((n - 1 : Nat) : Rat) = ((maxS - minS : Nat) : Rat) := by
      rw [Nat.cast_mul]; field_simp
    rw [e, ok.nat (maxS - minS) (by omega), hcast]
    have : (minS : Rat) + ((maxS : Rat) - (minS : Rat)) = (maxS : Rat) := by ring
    rw [this]
    exact ok.nat maxS (by omega)
  · intro j hj
    rw [initInv, getD_map_range _ _ _ _ hj]
    have h0 : (0 : Rat) ≤ num.rnd ((((maxS - minS) * j : Nat) : Rat) / ((n - 1 : Nat) : Rat)) := by
      rw [← r0]
      apply ok.mono
      positivity
    have : (minS : Rat) = num.rnd (minS : Rat) := (ok.nat minS (by omega)).symm
    rw [this]
    apply ok.mono
    rw [← this]
    linarith
  · intro j hj
    rw [initInv, getD_map_range _ _ _ _ (by omega)]
    have hmax1 : ((maxS - 1 : Nat) : Rat) = (maxS : Rat) - 1 := by
      rw [Nat.cast_sub (by omega)]; simp
    have hd1 : ((maxS - minS - 1 : Nat) : Rat) = (maxS : Rat) - (minS : Rat) - 1 := by
      rw [Nat.cast_sub (by omega), hcast]; simp
    -- (maxS-minS)*j/(n-1) ≤ maxS-minS-1
    have hq : (((maxS - minS) * j : Nat) : Rat) / ((n - 1 : Nat) : Rat) ≤ ((maxS - minS - 1 : Nat) : Rat) := by
      rw [div_le_iff₀ hn1]
      have : (maxS - minS) * j ≤ (maxS - minS - 1) * (n - 1) := by
        have hj2 : j ≤ n - 2 := by omega
        calc (maxS - minS) * j ≤ (maxS - minS) * (n - 2) := Nat.mul_le_mul_left _ hj2
          _ ≤ (maxS - minS - 1) * (n - 1) := by
            obtain ⟨d, hd'⟩ : ∃ d, maxS - minS = d + n := ⟨maxS - minS - n, by omega⟩
            obtain ⟨m, hm⟩ : ∃ m, n = m + 2 := ⟨n - 2, by omega⟩
            rw [hd', hm]
            simp only [Nat.add_sub_cancel]
            have : d + (m + 2) - 1 = d + m + 1 := by omega
            rw [this]
            have : m + 2 - 1 = m + 1 := by omega
            rw [this]
            nlinarith
      exact_mod_cast this
    have h1 : num.rnd ((((maxS - minS) * j : Nat) : Rat) / ((n - 1 : Nat) : Rat)) ≤ ((maxS - minS - 1 : Nat) : Rat) := by
      rw [← ok.nat (maxS - minS - 1) (by omega)]
      exact ok.mono _ _ hq
    rw [← hmax1, ← ok.nat (maxS - 1) (by omega)]
    apply ok.mono
    rw [hmax1]
    rw [hd1] at h1
    linarith

/-! ## the assignment loop -/

theorem advance_ge (num : Num) (inv : List Rat) (n s fuel slot : Nat) :
    slot ≤ advance num inv n s fuel slot := by
  induction fuel generalizing slot with
  | zero => simp [advance]
  | succ fuel ih =>
    simp only [advance]
    split
    · exact Nat.le_trans (Nat.le_succ _) (ih (slot + 1))
    · exact Nat.le_refl _

theorem advance_lt (num : Num) (inv : List Rat) (n s fuel slot : Nat) (h : slot < n) :
    advance num inv n s fuel slot < n := by
  induction fuel generalizing slot with
  | zero => simpa [advance]
  | succ fuel ih =>
    simp only [advance]
    split
    · rename_i hc; exact ih (slot + 1) hc.1
    · exact h

/-- the smallest symbol stays in slot 0 -/
theorem advance_minS (num : Num) (ok : RndOK num) (minS maxS n : Nat) (inv : List Rat)
    (hn : 2 ≤ n) (hmax : maxS ≤ 255) (hlt : minS ≤ maxS) (c : CentroidsOK minS maxS n inv) (fuel : Nat) :
    advance num inv n minS fuel 0 = 0 := by
  cases fuel with
  | zero => rfl
  | succ fuel =>
    simp only [advance]
    have h1 := c.lo 1 (by omega)
    have hs : ((2 * minS : Nat) : Rat) ≤ inv.getD 0 0 + inv.getD (0 + 1) 0 := by
      rw [c.first]; push_cast; linarith
    have : ¬ (0 + 1 < n ∧ num.rnd (inv.getD 0 0 + inv.getD (0 + 1) 0) < ((2 * minS : Nat) : Rat)) := by
      intro h
      have h2 := h.2
      rw [← not_le] at h2
      apply h2
      rw [← ok.nat (2 * minS) (by omega)]
      exact ok.mono _ _ hs
    rw [if_neg this]

/-- the largest symbol goes to the last slot -/
theorem advance_maxS (num : Num) (ok : RndOK num) (minS maxS n : Nat) (inv : List Rat)
    (hn : 2 ≤ n) (hmax : maxS ≤ 255) (hlt : minS < maxS) (c : CentroidsOK minS maxS n inv)
    (fuel slot : Nat) (hs : slot < n) (hf : n - 1 - slot ≤ fuel) :
    advance num inv n maxS fuel slot = n - 1 := by
  induction fuel generalizing slot with
  | zero => simp only [advance]; omega
  | succ fuel ih =>
    simp only [advance]
    by_cases hlast : slot + 1 < n
    · have ha := c.hi slot hlast
      have hb : inv.getD (slot + 1) 0 ≤ (maxS : Rat) := by
        by_cases h2 : slot + 1 + 1 < n
        · have := c.hi (slot + 1) h2; linarith
        · have : slot + 1 = n - 1 := by omega
          rw [this, c.last]
      have hsum : inv.getD slot 0 + inv.getD (slot + 1) 0 ≤ ((2 * maxS - 1 : Nat) : Rat) := by
        rw [Nat.cast_sub (by omega)]; push_cast; linarith
      have hr : num.rnd (inv.getD slot 0 + inv.getD (slot + 1) 0) < ((2 * maxS : Nat) : Rat) := by
        have := ok.mono _ _ hsum
        rw [ok.nat (2 * maxS - 1) (by omega)] at this
        have h3 : ((2 * maxS - 1 : Nat) : Rat) < ((2 * maxS : Nat) : Rat) := by
          exact_mod_cast (by omega : 2 * maxS - 1 < 2 * maxS)
        linarith
      rw [if_pos ⟨hlast, hr⟩]
      exact ih (slot + 1) hlast (by omega)
    · have : ¬ (slot + 1 < n ∧ num.rnd (inv.getD slot 0 + inv.getD (slot + 1) 0) < ((2 * maxS : Nat) : Rat)) :=
        fun h => hlast h.1
      rw [if_neg this]; omega

theorem length_slotsFrom (num : Num) (inv : List Rat) (n : Nat) (ss : List Nat) (slot : Nat) :
    (slotsFrom num inv n ss slot).length = ss.length := by
  induction ss generalizing slot with
  | nil => rfl
  | cons s ss ih => simp [slotsFrom, ih]

/-- every `qLevel[s]` is the result of `advance` for that symbol from some valid slot -/
theorem slotsFrom_zip (num : Num) (inv : List Rat) (n : Nat) (ss : List Nat) (slot : Nat) (hs : slot < n) :
    ∀ p ∈ ss.zip (slotsFrom num inv n ss slot), ∃ sl, sl < n ∧ p.2 = advance num inv n p.1 n sl := by
  induction ss generalizing slot with
  | nil => intro p hp; simp [slotsFrom] at hp
  | cons s ss ih =>
    intro p hp
    simp only [slotsFrom, List.zip_cons_cons, List.mem_cons] at hp
    rcases hp with rfl | hp
    · exact ⟨slot, hs, rfl⟩
    · exact ih _ (advance_lt num inv n s n slot hs) p hp

theorem slotsFrom_lt (num : Num) (inv : List Rat) (n : Nat) (ss : List Nat) (slot : Nat) (hs : slot < n) :
    ∀ x ∈ slotsFrom num inv n ss slot, x < n := by
  induction ss generalizing slot with
  | nil => intro x hx; simp [slotsFrom] at hx
  | cons s ss ih =>
    intro x hx
    simp only [slotsFrom, List.mem_cons] at hx
    rcases hx with rfl | hx
    · exact advance_lt num inv n s n slot hs
    · exact ih _ (advance_lt num inv n s n slot hs) x hx

/-- facts about `qLevel` that the remap step uses -/
structure LevelsOK (minS maxS n : Nat) (lv : List Nat) : Prop where
  lt : ∀ x ∈ lv, x < n
  first : lv.getD 0 0 = 0
  last : lv.getD (maxS - minS) 0 = n - 1

def symsOf (minS maxS : Nat) : List Nat := List.range' minS (maxS + 1 - minS)

theorem levels_ok (num : Num) (ok : RndOK num) (minS maxS n : Nat) (inv : List Rat)
    (hn : 2 ≤ n) (hmax : maxS ≤ 255) (hlt : minS < maxS) (c : CentroidsOK minS maxS n inv) :
    LevelsOK minS maxS n (slotsFrom num inv n (symsOf minS maxS) 0) := by
  refine ⟨slotsFrom_lt num inv n _ 0 (by omega), ?_, ?_⟩
  · have : symsOf minS maxS = minS :: List.range' (minS + 1) (maxS - minS) := by
      unfold symsOf
      have : maxS + 1 - minS = (maxS - minS) + 1 := by omega
      rw [this, List.range'_succ]
    rw [this]
    simp only [slotsFrom, List.getD_cons_zero]
    exact advance_minS num ok minS maxS n inv hn hmax (by omega) c n
  · have hlen : (slotsFrom num inv n (symsOf minS maxS) 0).length = maxS + 1 - minS := by
      rw [length_slotsFrom]; simp [symsOf]
    have hk : maxS - minS < (slotsFrom num inv n (symsOf minS maxS) 0).length := by omega
    have hk2 : maxS - minS < (symsOf minS maxS).length := by simp [symsOf]; omega
    rw [List.getD_eq_getElem?_getD, List.getElem?_eq_getElem hk, Option.getD_some]
    have hmem : ((symsOf minS maxS)[maxS - minS], (slotsFrom num inv n (symsOf minS maxS) 0)[maxS - minS])
        ∈ (symsOf minS maxS).zip (slotsFrom num inv n (symsOf minS maxS) 0) := by
      rw [List.mem_iff_getElem]
      exact ⟨maxS - minS, by simp [List.length_zip]; omega, by simp [List.getElem_zip]⟩
    obtain ⟨sl, hsl, he⟩ := slotsFrom_zip num inv n _ 0 (by omega) _ hmem
    simp only at he
    have hsym : (symsOf minS maxS)[maxS - minS] = maxS := by
      simp [symsOf, List.getElem_range']; omega
    rw [he, hsym]
    exact advance_maxS num ok minS maxS n inv hn hmax hlt c n sl hsl (by omega)

/-! ## the centroid update -/

theorem pair_sums (fr : List Nat) (L : List (Nat × Nat)) (j lo hi : Nat)
    (h : ∀ p ∈ L, p.2 = j → lo ≤ p.1 ∧ p.1 ≤ hi) :
    lo * (L.map fun p => if p.2 = j then fr.getD p.1 0 else 0).sum
        ≤ (L.map fun p => if p.2 = j then p.1 * fr.getD p.1 0 else 0).sum ∧
    (L.map fun p => if p.2 = j then p.1 * fr.getD p.1 0 else 0).sum
        ≤ hi * (L.map fun p => if p.2 = j then fr.getD p.1 0 else 0).sum := by
  induction L with
  | nil => simp
  | cons p L ih =>
    have ih' := ih (fun q hq => h q (List.mem_cons_of_mem _ hq))
    simp only [List.map_cons, List.sum_cons]
    by_cases hp : p.2 = j
    · obtain ⟨h1, h2⟩ := h p List.mem_cons_self hp
      simp only [hp, if_true]
      constructor
      · have := Nat.mul_le_mul_right (fr.getD p.1 0) h1
        rw [Nat.mul_add]; omega
      · have := Nat.mul_le_mul_right (fr.getD p.1 0) h2
        rw [Nat.mul_add]; omega
    · simp only [hp, if_false, Nat.zero_add]
      exact ih'

/-- what the update needs to know about the assignment `syms ↦ lv` -/
def AssignOK (minS maxS n : Nat) (syms lv : List Nat) : Prop :=
  ∀ p ∈ syms.zip lv, minS ≤ p.1 ∧ p.1 ≤ maxS ∧ (p.1 = maxS → p.2 = n - 1)

theorem assign_ok (num : Num) (ok : RndOK num) (minS maxS n : Nat) (inv : List Rat)
    (hn : 2 ≤ n) (hmax : maxS ≤ 255) (hlt : minS < maxS) (c : CentroidsOK minS maxS n inv) :
    AssignOK minS maxS n (symsOf minS maxS) (slotsFrom num inv n (symsOf minS maxS) 0) := by
  intro p hp
  obtain ⟨sl, hsl, he⟩ := slotsFrom_zip num inv n _ 0 (by omega) p hp
  have hmem : p.1 ∈ symsOf minS maxS := (List.of_mem_zip hp).1
  simp only [symsOf, List.mem_range'_1] at hmem
  refine ⟨hmem.1, by omega, ?_⟩
  intro hpm
  rw [he, hpm]
  exact advance_maxS num ok minS maxS n inv hn hmax hlt c n sl hsl (by omega)

theorem update_ok (num : Num) (ok : RndOK num) (minS maxS n : Nat) (fr syms lv : List Nat)
    (inv : List Rat) (hn : 2 ≤ n) (hmax : maxS ≤ 255) (hlt : minS < maxS)
    (c : CentroidsOK minS maxS n inv) (ha : AssignOK minS maxS n syms lv) :
    CentroidsOK minS maxS n (update num fr syms lv n inv) := by
  have hmax1 : ((maxS - 1 : Nat) : Rat) = (maxS : Rat) - 1 := by
    rw [Nat.cast_sub (by omega)]; simp
  refine ⟨by simp [update], ?_, ?_, ?_, ?_⟩
  · rw [update, getD_map_range _ _ _ _ (by omega)]
    have : ¬ (0 < 0 ∧ 0 + 1 < n ∧ 0 < qCount fr syms lv 0) := by omega
    rw [if_neg this, c.first]
  · rw [update, getD_map_range _ _ _ _ (by omega)]
    have : ¬ (0 < n - 1 ∧ n - 1 + 1 < n ∧ 0 < qCount fr syms lv (n - 1)) := by omega
    rw [if_neg this, c.last]
  · intro j hj
    rw [update, getD_map_range _ _ _ _ hj]
    split
    · rename_i hc
      have hs := (pair_sums fr (syms.zip lv) j minS maxS (fun p hp _ => ⟨(ha p hp).1, (ha p hp).2.1⟩)).1
      have hpos : (0 : Rat) < ((qCount fr syms lv j : Nat) : Rat) := by exact_mod_cast hc.2.2
      rw [← ok.nat minS (by omega)]
      apply ok.mono
      rw [le_div_iff₀ hpos]
      unfold qCount qSum
      exact_mod_cast hs
    · exact c.lo j hj
  · intro j hj
    rw [update, getD_map_range _ _ _ _ (by omega)]
    split
    · rename_i hc
      have hs := (pair_sums fr (syms.zip lv) j minS (maxS - 1) (fun p hp hpj => by
        obtain ⟨h1, h2, h3⟩ := ha p hp
        refine ⟨h1, ?_⟩
        have : p.1 ≠ maxS := by
          intro he
          have := h3 he
          omega
        omega)).2
      have hpos : (0 : Rat) < ((qCount fr syms lv j : Nat) : Rat) := by exact_mod_cast hc.2.2
      rw [← hmax1, ← ok.nat (maxS - 1) (by omega)]
      apply ok.mono
      rw [div_le_iff₀ hpos]
      unfold qCount qSum
      exact_mod_cast hs
    · exact c.hi j hj

/-! ## the k-means loop -/

theorem kmeans_ok (num : Num) (ok : RndOK num) (minS maxS n : Nat) (fr : List Nat) (thr : Rat)
    (hn : 2 ≤ n) (hmax : maxS ≤ 255) (hlt : minS < maxS) (iters : Nat) :
    ∀ (inv : List Rat) (lastErr : Rat) (lv0 : List Nat), CentroidsOK minS maxS n inv →
      CentroidsOK minS maxS n (kmeans num fr (symsOf minS maxS) n thr (iters + 1) inv lastErr lv0).1 ∧
      LevelsOK minS maxS n (kmeans num fr (symsOf minS maxS) n thr (iters + 1) inv lastErr lv0).2 := by
  induction iters with
  | zero =>
    intro inv lastErr lv0 c
    have hl := levels_ok num ok minS maxS n inv hn hmax hlt c
    have hu := update_ok num ok minS maxS n fr _ _ inv hn hmax hlt c
      (assign_ok num ok minS maxS n inv hn hmax hlt c)
    simp only [kmeans]
    split <;> exact ⟨hu, hl⟩
  | succ k ih =>
    intro inv lastErr lv0 c
    have hl := levels_ok num ok minS maxS n inv hn hmax hlt c
    have hu := update_ok num ok minS maxS n fr _ _ inv hn hmax hlt c
      (assign_ok num ok minS maxS n inv hn hmax hlt c)
    rw [kmeans]
    split
    · exact ⟨hu, hl⟩
    · exact ih _ _ _ hu

/-- the level indices stay below `n` for *every* numeric model -/
theorem kmeans_levels_lt (num : Num) (fr syms : List Nat) (n : Nat) (thr : Rat) (hn : 0 < n)
    (iters : Nat) : ∀ (inv : List Rat) (lastErr : Rat) (lv0 : List Nat), (∀ x ∈ lv0, x < n) →
      ∀ x ∈ (kmeans num fr syms n thr iters inv lastErr lv0).2, x < n := by
  induction iters with
  | zero => intro inv lastErr lv0 h; simpa [kmeans] using h
  | succ k ih =>
    intro inv lastErr lv0 _
    rw [kmeans]
    split
    · exact slotsFrom_lt num inv n syms 0 hn
    · exact ih _ _ _ (slotsFrom_lt num inv n syms 0 hn)

/-! ## minimum, maximum, frequency table -/

theorem foldl_min_le (l : List UInt8) (m : Nat) :
    l.foldl (fun m v => if v.toNat < m then v.toNat else m) m ≤ m ∧
    ∀ v ∈ l, l.foldl (fun m v => if v.toNat < m then v.toNat else m) m ≤ v.toNat := by
  induction l generalizing m with
  | nil => simp
  | cons x l ih =>
    simp only [List.foldl_cons, List.mem_cons]
    by_cases hx : x.toNat < m
    · simp only [hx, if_true]
      obtain ⟨h1, h2⟩ := ih x.toNat
      refine ⟨by omega, fun v hv => ?_⟩
      rcases hv with rfl | hv
      · exact h1
      · exact h2 v hv
    · simp only [hx, if_false]
      obtain ⟨h1, h2⟩ := ih m
      refine ⟨h1, fun v hv => ?_⟩
      rcases hv with rfl | hv
      · omega
      · exact h2 v hv

theorem foldl_min_mem (l : List UInt8) (m : Nat) :
    l.foldl (fun m v => if v.toNat < m then v.toNat else m) m = m ∨
    ∃ v ∈ l, v.toNat = l.foldl (fun m v => if v.toNat < m then v.toNat else m) m := by
  induction l generalizing m with
  | nil => simp
  | cons x l ih =>
    simp only [List.foldl_cons, List.mem_cons]
    rcases ih (if x.toNat < m then x.toNat else m) with h | ⟨v, hv, he⟩
    · by_cases hx : x.toNat < m
      · right; refine ⟨x, Or.inl rfl, ?_⟩; rw [h]; simp [hx]
      · left; rw [h]; simp [hx]
    · right; exact ⟨v, Or.inr hv, he⟩

theorem foldl_max_ge (l : List UInt8) (m : Nat) :
    m ≤ l.foldl (fun m v => if v.toNat > m then v.toNat else m) m ∧
    ∀ v ∈ l, v.toNat ≤ l.foldl (fun m v => if v.toNat > m then v.toNat else m) m := by
  induction l generalizing m with
  | nil => simp
  | cons x l ih =>
    simp only [List.foldl_cons, List.mem_cons]
    by_cases hx : x.toNat > m
    · simp only [hx, if_true]
      obtain ⟨h1, h2⟩ := ih x.toNat
      refine ⟨by omega, fun v hv => ?_⟩
      rcases hv with rfl | hv
      · exact h1
      · exact h2 v hv
    · simp only [hx, if_false]
      obtain ⟨h1, h2⟩ := ih m
      refine ⟨h1, fun v hv => ?_⟩
      rcases hv with rfl | hv
      · omega
      · exact h2 v hv

theorem foldl_max_mem (l : List UInt8) (m : Nat) :
    l.foldl (fun m v => if v.toNat > m then v.toNat else m) m = m ∨
    ∃ v ∈ l, v.toNat = l.foldl (fun m v => if v.toNat > m then v.toNat else m) m := by
  induction l generalizing m with
  | nil => simp
  | cons x l ih =>
    simp only [List.foldl_cons, List.mem_cons]
    rcases ih (if x.toNat > m then x.toNat else m) with h | ⟨v, hv, he⟩
    · by_cases hx : x.toNat > m
      · right; refine ⟨x, Or.inl rfl, ?_⟩; rw [h]; simp [hx]
      · left; rw [h]; simp [hx]
    · right; exact ⟨v, Or.inr hv, he⟩

theorem u8_le (v : UInt8) : v.toNat ≤ 255 := by have := UInt8.toNat_lt v; omega

theorem minOf_le (l : List UInt8) (v : UInt8) (hv : v ∈ l) : minOf l ≤ v.toNat :=
  (foldl_min_le l 255).2 v hv

theorem le_maxOf (l : List UInt8) (v : UInt8) (hv : v ∈ l) : v.toNat ≤ maxOf l :=
  (foldl_max_ge l 0).2 v hv

theorem maxOf_le (l : List UInt8) : maxOf l ≤ 255 := by
  rcases foldl_max_mem l 0 with h | ⟨v, _, he⟩
  · unfold maxOf; omega
  · unfold maxOf; rw [← he]; exact u8_le v

theorem minOf_mem (l : List UInt8) (hl : l ≠ []) : ∃ v ∈ l, v.toNat = minOf l := by
  rcases foldl_min_mem l 255 with h | h
  · obtain ⟨v, hv⟩ := List.exists_mem_of_ne_nil l hl
    refine ⟨v, hv, ?_⟩
    have := minOf_le l v hv
    have := u8_le v
    unfold minOf at *
    omega
  · exact h

theorem maxOf_mem (l : List UInt8) (hl : l ≠ []) : ∃ v ∈ l, v.toNat = maxOf l := by
  rcases foldl_max_mem l 0 with h | h
  · obtain ⟨v, hv⟩ := List.exists_mem_of_ne_nil l hl
    refine ⟨v, hv, ?_⟩
    have := le_maxOf l v hv
    unfold maxOf at *
    omega
  · exact h

/-- the symbols that occur -/
def present (l : List UInt8) : List Nat :=
  (List.range 256).filter fun s => decide (0 < l.count (UInt8.ofNat s))

theorem numLevelsIn_eq (l : List UInt8) : numLevelsIn (freqTable l) = (present l).length := by
  unfold numLevelsIn freqTable present
  rw [List.filter_map, List.length_map]
  rfl

theorem mem_present (l : List UInt8) (s : Nat) :
    s ∈ present l ↔ s < 256 ∧ UInt8.ofNat s ∈ l := by
  simp [present, List.count_pos_iff]

theorem present_nodup (l : List UInt8) : (present l).Nodup :=
  List.Nodup.filter _ List.nodup_range

/-- number of distinct values ≤ `numLevelsIn` -/
theorem distinct_le_numLevelsIn (l : List UInt8) : l.toFinset.card ≤ numLevelsIn (freqTable l) := by
  rw [numLevelsIn_eq, ← List.toFinset_card_of_nodup (present_nodup l)]
  apply Finset.card_le_card_of_injOn (fun v => v.toNat)
  · intro v hv
    simp only [Finset.mem_coe, List.mem_toFinset] at hv ⊢
    rw [mem_present]
    exact ⟨UInt8.toNat_lt v, by simpa using hv⟩
  · intro a _ b _ h
    exact UInt8.toNat_inj.mp h

theorem numLevelsIn_le_256 (l : List UInt8) : numLevelsIn (freqTable l) ≤ 256 := by
  rw [numLevelsIn_eq]
  have := List.length_filter_le (fun s => decide (0 < l.count (UInt8.ofNat s))) (List.range 256)
  simpa [present] using this

theorem numLevelsIn_le_span (l : List UInt8) : numLevelsIn (freqTable l) ≤ maxOf l + 1 - minOf l := by
  rw [numLevelsIn_eq, ← List.toFinset_card_of_nodup (present_nodup l), ← Nat.card_Icc]
  apply Finset.card_le_card
  intro s hs
  rw [List.mem_toFinset, mem_present] at hs
  have h1 := minOf_le l _ hs.2
  have h2 := le_maxOf l _ hs.2
  have : (UInt8.ofNat s).toNat = s := by
    rw [UInt8.toNat_ofNat']; omega
  rw [this] at h1 h2
  exact Finset.mem_Icc.mpr ⟨h1, h2⟩

/-! ## the remap step -/

theorem toByte_natHalf (k : Nat) : toByte ((k : Rat) + 1 / 2) = UInt8.ofNat k := by
  unfold toByte
  have : Rat.floor ((k : Rat) + 1 / 2) = (k : Int) := by
    show ⌊(k : Rat) + 1 / 2⌋ = (k : Int)
    rw [Int.floor_eq_iff]
    constructor
    · push_cast; linarith
    · push_cast; linarith
  rw [this]; simp

theorem toByte_between (lo hi : Nat) (hhi : hi ≤ 255) (x : Rat)
    (h1 : (lo : Rat) + 1 / 2 ≤ x) (h2 : x ≤ (hi : Rat) + 1 / 2) :
    lo ≤ (toByte x).toNat ∧ (toByte x).toNat ≤ hi := by
  unfold toByte
  have f1 : (lo : Int) ≤ Rat.floor x := by
    show (lo : Int) ≤ ⌊x⌋
    rw [Int.le_floor]; push_cast; linarith
  have f2 : Rat.floor x ≤ (hi : Int) := by
    show ⌊x⌋ ≤ (hi : Int)
    have : ⌊x⌋ < (hi : Int) + 1 := by
      rw [Int.floor_lt]; push_cast; linarith
    omega
  rw [UInt8.toNat_ofNat']
  have : (Rat.floor x).toNat ≤ hi := by omega
  have : lo ≤ (Rat.floor x).toNat := by omega
  omega

/-! ## quantizeLevels -/

/-- the two ways `quantizeLevels` can end -/
theorem quantize_cases (num : Num) (a : Plane) (w h n : Nat) :
    (quantizeLevels num a w h n = a ∧
      (n < 2 ∨ n > 256 ∨ w * h = 0 ∨ numLevelsIn (freqTable a.toList) ≤ n)) ∨
    (2 ≤ n ∧ n ≤ 256 ∧ n < numLevelsIn (freqTable a.toList) ∧
     quantizeLevels num a w h n =
       a.map (remapOf num
         (kmeans num (freqTable a.toList) (symsOf (minOf a.toList) (maxOf a.toList)) n
            (num.rnd (num.errThreshold * ((w * h : Nat) : Rat))) 6
            (initInv num (minOf a.toList) (maxOf a.toList) n) num.bigErr []).1
         (kmeans num (freqTable a.toList) (symsOf (minOf a.toList) (maxOf a.toList)) n
            (num.rnd (num.errThreshold * ((w * h : Nat) : Rat))) 6
            (initInv num (minOf a.toList) (maxOf a.toList) n) num.bigErr []).2
         (minOf a.toList))) := by
  unfold quantizeLevels
  by_cases h1 : n < 2 ∨ n > 256
  · left; exact ⟨by simp [h1], by omega⟩
  · by_cases h2 : w * h = 0
    · left; exact ⟨by simp [h1, h2], by omega⟩
    · by_cases h3 : numLevelsIn (freqTable a.toList) ≤ n
      · left; exact ⟨by simp [h1, h2, h3], by omega⟩
      · right
        refine ⟨by omega, by omega, by omega, ?_⟩
        simp only [h1, h2, h3, if_false, symsOf]

theorem getD_lt_of_all_lt (lv : List Nat) (n k : Nat) (hn : 0 < n) (h : ∀ x ∈ lv, x < n) :
    lv.getD k 0 < n := by
  rw [List.getD_eq_getElem?_getD]
  cases hk : lv[k]? with
  | none => simpa using hn
  | some x => simpa using h x (List.mem_of_getElem? hk)

theorem map_remap_card (num : Num) (inv : List Rat) (lv : List Nat) (minS n : Nat) (hn : 0 < n)
    (hlv : ∀ x ∈ lv, x < n) (l : List UInt8) :
    (l.map (remapOf num inv lv minS)).toFinset.card ≤ n := by
  have hsub : (l.map (remapOf num inv lv minS)).toFinset ⊆
      (Finset.range n).image (fun j => toByte (num.rnd (inv.getD j 0 + 1 / 2))) := by
    intro x hx
    rw [List.mem_toFinset, List.mem_map] at hx
    obtain ⟨v, _, rfl⟩ := hx
    rw [Finset.mem_image]
    exact ⟨lv.getD (v.toNat - minS) 0, Finset.mem_range.mpr (getD_lt_of_all_lt lv n _ hn hlv), rfl⟩
  calc _ ≤ ((Finset.range n).image _).card := Finset.card_le_card hsub
    _ ≤ (Finset.range n).card := Finset.card_image_le
    _ = n := Finset.card_range n

/-- **level bound, for every numeric model**: at most `n` distinct values remain -/
theorem quantize_levels_le (num : Num) (a : Plane) (w h n : Nat) (hn : 2 ≤ n)
    (hsz : a.size = w * h) :
    (quantizeLevels num a w h n).toList.toFinset.card ≤ n := by
  rcases quantize_cases num a w h n with ⟨hq, hr⟩ | ⟨_, _, _, hq⟩
  · rw [hq]
    rcases hr with h1 | h1 | h1 | h1
    · omega
    · have := distinct_le_numLevelsIn a.toList
      have := numLevelsIn_le_256 a.toList
      omega
    · have : a = #[] := by
        apply Array.eq_empty_of_size_eq_zero; omega
      subst this; simp
    · exact Nat.le_trans (distinct_le_numLevelsIn a.toList) h1
  · rw [hq, Array.toList_map]
    apply map_remap_card num _ _ _ n (by omega)
    exact kmeans_levels_lt num _ _ n _ (by omega) 6 _ _ [] (by intro x hx; cases hx)

theorem size_quantize (num : Num) (a : Plane) (w h n : Nat) :
    (quantizeLevels num a w h n).size = a.size := by
  rcases quantize_cases num a w h n with ⟨hq, _⟩ | ⟨_, _, _, hq⟩ <;> rw [hq]
  simp

/-- **extremes kept** (numeric models with `RndOK`): the result is `a.map g` for a `g` that fixes
    the smallest and the largest value of the plane and maps every value into `[min, max]` -/
theorem quantize_is_map (num : Num) (ok : RndOK num) (a : Plane) (w h n : Nat) :
    ∃ g : UInt8 → UInt8, quantizeLevels num a w h n = a.map g ∧
      ∀ v ∈ a.toList,
        (v.toNat = minOf a.toList → g v = v) ∧ (v.toNat = maxOf a.toList → g v = v) ∧
        minOf a.toList ≤ (g v).toNat ∧ (g v).toNat ≤ maxOf a.toList := by
  rcases quantize_cases num a w h n with ⟨hq, _⟩ | ⟨hn2, hn256, hlev, hq⟩
  · refine ⟨id, by rw [hq]; simp, ?_⟩
    intro v hv
    exact ⟨fun _ => rfl, fun _ => rfl, minOf_le _ v hv, le_maxOf _ v hv⟩
  · refine ⟨_, hq, ?_⟩
    have hspan := numLevelsIn_le_span a.toList
    have hmax := maxOf_le a.toList
    have hd : minOf a.toList + n ≤ maxOf a.toList := by omega
    have hlt : minOf a.toList < maxOf a.toList := by omega
    obtain ⟨c, lv⟩ := kmeans_ok num ok (minOf a.toList) (maxOf a.toList) n (freqTable a.toList)
      (num.rnd (num.errThreshold * ((w * h : Nat) : Rat))) hn2 hmax hlt 5
      (initInv num (minOf a.toList) (maxOf a.toList) n) num.bigErr []
      (init_ok num ok _ _ n hn2 hd hmax)
    generalize (kmeans num (freqTable a.toList) (symsOf (minOf a.toList) (maxOf a.toList)) n
      (num.rnd (num.errThreshold * ((w * h : Nat) : Rat))) (5 + 1)
      (initInv num (minOf a.toList) (maxOf a.toList) n) num.bigErr []) = r at c lv
    intro v hv
    have hvmin := minOf_le _ v hv
    have hvmax := le_maxOf _ v hv
    refine ⟨?_, ?_, ?_⟩
    · intro he
      unfold remapOf
      rw [he, Nat.sub_self, lv.first, c.first, ok.natHalf _ (by omega), toByte_natHalf, ← he]
      exact UInt8.ofNat_toNat
    · intro he
      unfold remapOf
      rw [he, lv.last, c.last, ok.natHalf _ (by omega), toByte_natHalf, ← he]
      exact UInt8.ofNat_toNat
    · unfold remapOf
      have hj := getD_lt_of_all_lt r.2 n (v.toNat - minOf a.toList) (by omega) lv.lt
      generalize r.2.getD (v.toNat - minOf a.toList) 0 = j at hj
      have hlo := c.lo j hj
      have hhi : r.1.getD j 0 ≤ (maxOf a.toList : Rat) := by
        by_cases h2 : j + 1 < n
        · have := c.hi j h2; linarith
        · have : j = n - 1 := by omega
          rw [this, c.last]
      apply toByte_between _ _ hmax
      · rw [← ok.natHalf (minOf a.toList) (by omega)]
        apply ok.mono; linarith
      · rw [← ok.natHalf (maxOf a.toList) (by omega)]
        apply ok.mono; linarith

theorem minOf_eq_of (l : List UInt8) (m : Nat) (h1 : ∀ v ∈ l, m ≤ v.toNat)
    (h2 : ∃ v ∈ l, v.toNat = m) : minOf l = m := by
  obtain ⟨v, hv, he⟩ := h2
  have hl : l ≠ [] := List.ne_nil_of_mem hv
  obtain ⟨v', hv', he'⟩ := minOf_mem l hl
  have := minOf_le l v hv
  have := h1 v' hv'
  omega

theorem maxOf_eq_of (l : List UInt8) (m : Nat) (h1 : ∀ v ∈ l, v.toNat ≤ m)
    (h2 : ∃ v ∈ l, v.toNat = m) : maxOf l = m := by
  obtain ⟨v, hv, he⟩ := h2
  have hl : l ≠ [] := List.ne_nil_of_mem hv
  obtain ⟨v', hv', he'⟩ := maxOf_mem l hl
  have := le_maxOf l v hv
  have := h1 v' hv'
  omega

/-- the smallest and the largest value of the plane are the smallest and the largest value of
    the quantised plane -/
theorem quantize_minmax (num : Num) (ok : RndOK num) (a : Plane) (w h n : Nat) (hne : a ≠ #[]) :
    minOf (quantizeLevels num a w h n).toList = minOf a.toList ∧
    maxOf (quantizeLevels num a w h n).toList = maxOf a.toList := by
  obtain ⟨g, hq, hg⟩ := quantize_is_map num ok a w h n
  have hl : a.toList ≠ [] := by
    intro he; apply hne; exact Array.toList_eq_nil_iff.mp he
  rw [hq, Array.toList_map]
  constructor
  · apply minOf_eq_of
    · intro v hv
      obtain ⟨u, hu, rfl⟩ := List.mem_map.mp hv
      exact (hg u hu).2.2.1
    · obtain ⟨u, hu, he⟩ := minOf_mem _ hl
      exact ⟨g u, List.mem_map_of_mem hu, by rw [(hg u hu).1 he, he]⟩
  · apply maxOf_eq_of
    · intro v hv
      obtain ⟨u, hu, rfl⟩ := List.mem_map.mp hv
      exact (hg u hu).2.2.2
    · obtain ⟨u, hu, he⟩ := maxOf_mem _ hl
      exact ⟨g u, List.mem_map_of_mem hu, by rw [(hg u hu).2.1 he, he]⟩

end Webp.Proofs.AlphaQuant
