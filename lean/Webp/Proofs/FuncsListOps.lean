import Webp.Go.IntSem
import Webp.Proofs.FuncsBridge
/-
  Lemmas about the slice operations of `Webp/Go/IntSem.lean` (`idxI`, `setI`, `sliceI`, `spliceI`)
  used by the ties of the slice-writing translated functions (filters, transforms, LE writers).
-/
namespace Webp.Proofs.FuncsListOps
open Webp.Go Webp.Go.IntSem Webp.Proofs.FuncsBridge

theorem bind_ok_id {α : Type} (x : R α) : (x.bind fun t => Res.ok t) = x := by cases x <;> rfl

/-- in-range read, index given as a natural number -/
theorem idxI_nat' (xs : List Int) (i : Nat) (h : i < xs.length) : idxI xs (i : Int) = .ok (xs.getD i 0) :=
  idxI_nat xs i h

/-- in-range read, `Int` index -/
theorem idxI_ok (xs : List Int) (i : Int) (h0 : 0 ≤ i) (h : i < xs.length) :
    idxI xs i = .ok (xs.getD i.toNat 0) :=
  idxI_of_range xs i h0 (by omega)

theorem idxI_neg (xs : List Int) (i : Int) (h : i < 0) : idxI xs i = .panic := by
  unfold idxI; simp [h]

theorem idxI_ge (xs : List Int) (i : Int) (h : (xs.length : Int) ≤ i) : idxI xs i = .panic := by
  unfold idxI
  have h1 : ¬ i < 0 := by omega
  have h2 : xs.length ≤ i.toNat := by omega
  simp [h1, List.getElem?_eq_none h2]

/-- in-range write -/
theorem setI_ok (xs : List Int) (i v : Int) (h0 : 0 ≤ i) (h : i < xs.length) :
    setI xs i v = .ok (xs.set i.toNat v) := by
  unfold setI
  have h1 : ¬ i < 0 := by omega
  have h2 : i.toNat < xs.length := by omega
  simp [h1, h2]

theorem setI_nat (xs : List Int) (i : Nat) (v : Int) (h : i < xs.length) :
    setI xs (i : Int) v = .ok (xs.set i v) := by
  have := setI_ok xs i v (by omega) (by omega)
  simpa using this

theorem setI_neg (xs : List Int) (i v : Int) (h : i < 0) : setI xs i v = .panic := by
  unfold setI; simp [h]

theorem setI_ge (xs : List Int) (i v : Int) (h : (xs.length : Int) ≤ i) : setI xs i v = .panic := by
  unfold setI
  have h1 : ¬ i < 0 := by omega
  have h2 : ¬ i.toNat < xs.length := by omega
  simp [h1, h2]

theorem getD_set_eq (xs : List Int) (i : Nat) (v : Int) (h : i < xs.length) :
    (xs.set i v).getD i 0 = v := by
  simp [List.getD, h]

theorem getD_set_ne (xs : List Int) (i j : Nat) (v : Int) (h : i ≠ j) :
    (xs.set i v).getD j 0 = xs.getD j 0 := by
  simp [List.getD, List.getElem?_set_ne h]

theorem getD_set (xs : List Int) (i j : Nat) (v : Int) :
    (xs.set i v).getD j 0 = if i = j ∧ i < xs.length then v else xs.getD j 0 := by
  by_cases h : i = j
  · subst h
    by_cases hl : i < xs.length
    · simp [getD_set_eq xs i v hl, hl]
    · have : xs.set i v = xs := List.set_eq_of_length_le (by omega)
      simp [this, hl]
  · simp [getD_set_ne xs i j v h, h]

theorem length_set (xs : List Int) (i : Nat) (v : Int) : (xs.set i v).length = xs.length :=
  List.length_set

/-- `xs[a:b]` in range -/
theorem sliceI_ok (xs : List Int) (a b : Int) (h0 : 0 ≤ a) (h1 : a ≤ b) (h2 : b ≤ xs.length) :
    sliceI xs a b = .ok ((xs.take b.toNat).drop a.toNat) := by
  unfold sliceI lenI; simp [h0, h1, h2]

theorem sliceI_to_end (xs : List Int) (a : Int) (h0 : 0 ≤ a) (h1 : a ≤ xs.length) :
    sliceI xs a (lenI xs) = .ok (xs.drop a.toNat) := by
  rw [sliceI_ok xs a (lenI xs) h0 (by unfold lenI; omega) (by unfold lenI; omega)]
  unfold lenI; simp

theorem getD_drop (xs : List Int) (a j : Nat) : (xs.drop a).getD j 0 = xs.getD (a + j) 0 := by
  simp [List.getD, List.getElem?_drop]

/-- writing back a same-length updated tail: positions below `a` keep `xs`, the others read `ys` -/
theorem getD_spliceI_tail (xs ys : List Int) (a : Nat) (ha : a ≤ xs.length) (hy : ys.length = xs.length - a) (j : Nat) :
    (spliceI xs (a : Int) ys).getD j 0 = if j < a then xs.getD j 0 else ys.getD (j - a) 0 := by
  unfold spliceI
  have hd : List.drop (a + ys.length) xs = [] := List.drop_eq_nil_of_le (by omega)
  simp only [Int.toNat_natCast, hd, List.append_nil, List.getD]
  by_cases h : j < a
  · simp [h, List.getElem?_append_left (show j < (xs.take a).length by simp; omega), List.getElem?_take, h]
  · simp [h, List.getElem?_append_right (show (xs.take a).length ≤ j by simp; omega), Nat.min_eq_left ha]

theorem length_spliceI_tail (xs ys : List Int) (a : Nat) (ha : a ≤ xs.length) (hy : ys.length = xs.length - a) :
    (spliceI xs (a : Int) ys).length = xs.length := by
  unfold spliceI
  have hd : List.drop (a + ys.length) xs = [] := List.drop_eq_nil_of_le (by omega)
  simp [hd, Nat.min_eq_left ha]; omega

end Webp.Proofs.FuncsListOps
