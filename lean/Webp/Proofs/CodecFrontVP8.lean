import Webp.Proofs.CodecFrontBasic
/-
  VP8 front end: `parseHeaders` never panics whatever the boolean reader answers, and the token
  partitions it slices tile the tail of the payload exactly.
-/
namespace Webp.Impl.CodecFront
open Webp.Go

variable {σ : Type}

/-! ### GetValue -/

theorem getValue_lt (S : BitSrc σ) : ∀ (n : Nat) (s : σ) (acc k : Nat), acc < 2 ^ k →
    (getValue S n s acc).1 < 2 ^ (k + n)
  | 0, s, acc, k, h => by simpa [getValue] using h
  | n + 1, s, acc, k, h => by
    unfold getValue
    have h2 : 2 * acc + (if (S.getBit s 128).1 then 1 else 0) < 2 ^ (k + 1) := by
      have : 2 ^ (k + 1) = 2 * 2 ^ k := by rw [Nat.pow_succ]; omega
      split <;> omega
    have := getValue_lt S n (S.getBit s 128).2 _ (k + 1) h2
    have e : k + 1 + n = k + (n + 1) := by omega
    rw [e] at this
    exact this

theorem getValue2_lt (S : BitSrc σ) (s : σ) : (getValue S 2 s 0).1 < 4 := by
  have := getValue_lt S 2 s 0 0 (by decide)
  simpa using this

/-! ### frame tag -/

structure TagOK (data : Bytes) (t : Tag) : Prop where
  len : 10 ≤ data.length
  rest : t.rest = data.drop 10
  w1 : 1 ≤ t.width
  w2 : t.width ≤ 16383
  h1 : 1 ≤ t.height
  h2 : t.height ≤ 16383
  pl : t.partLen < 524288

theorem frameTag_post (data : Bytes) : (frameTag data).Post (TagOK data) := by
  unfold frameTag
  by_cases h4 : data.length < 4
  · rw [if_pos h4]; trivial
  rw [if_neg h4]
  refine Res.Post.bind (idx_post data 0 (by omega)) (fun b0 _ => ?_)
  refine Res.Post.bind (idx_post data 1 (by omega)) (fun b1 _ => ?_)
  refine Res.Post.bind (idx_post data 2 (by omega)) (fun b2 _ => ?_)
  have hb0 := UInt8.toNat_lt b0
  have hb1 := UInt8.toNat_lt b1
  have hb2 := UInt8.toNat_lt b2
  generalize hbits : b0.toNat + b1.toNat * 256 + b2.toNat * 65536 = bits
  have hbits_lt : bits < 16777216 := by omega
  dsimp only
  split
  · trivial
  split
  · trivial
  split
  · trivial
  refine Res.Post.bind (sliceFrom_post data 3 (by omega)) (fun buf hbuf => ?_)
  have hbl : buf.length = data.length - 3 := by rw [hbuf, List.length_drop]
  by_cases h7 : buf.length < 7
  · rw [if_pos h7]; trivial
  rw [if_neg h7]
  refine Res.Post.bind (idx_post buf 0 (by omega)) (fun s0 _ => ?_)
  refine Res.Post.bind (idx_post buf 1 (by omega)) (fun s1 _ => ?_)
  refine Res.Post.bind (idx_post buf 2 (by omega)) (fun s2 _ => ?_)
  split
  · trivial
  refine Res.Post.bind (slice_post buf 3 5 (by omega) (by omega)) (fun wb hwb => ?_)
  have hwbl : wb.length = 2 := by
    rw [hwb, List.length_drop, List.length_take]; omega
  refine Res.Post.bind (idx_post wb 0 (by omega)) (fun w0 _ => ?_)
  refine Res.Post.bind (idx_post wb 1 (by omega)) (fun w1 _ => ?_)
  refine Res.Post.bind (idx_post buf 4 (by omega)) (fun b4 _ => ?_)
  refine Res.Post.bind (slice_post buf 5 7 (by omega) (by omega)) (fun hb hhb => ?_)
  have hhbl : hb.length = 2 := by
    rw [hhb, List.length_drop, List.length_take]; omega
  refine Res.Post.bind (idx_post hb 0 (by omega)) (fun h0 _ => ?_)
  refine Res.Post.bind (idx_post hb 1 (by omega)) (fun h1 _ => ?_)
  refine Res.Post.bind (idx_post buf 6 (by omega)) (fun b6 _ => ?_)
  refine Res.Post.bind (sliceFrom_post buf 7 (by omega)) (fun rest hrest => ?_)
  split
  · trivial
  · rename_i hz
    refine ⟨by omega, ?_, ?_, ?_, ?_, ?_, ?_⟩
    · show rest = data.drop 10
      rw [hrest, hbuf, List.drop_drop]
    · show 1 ≤ (w0.toNat + w1.toNat * 256) % 16384
      omega
    · show (w0.toNat + w1.toNat * 256) % 16384 ≤ 16383
      omega
    · show 1 ≤ (h0.toNat + h1.toNat * 256) % 16384
      omega
    · show (h0.toNat + h1.toNat * 256) % 16384 ≤ 16383
      omega
    · show bits / 32 < 524288
      omega

/-! ### token partitions -/

/-- `l` is a run of back-to-back windows of `data` from offset `a` to offset `b` -/
def Chain (data : Bytes) : Nat → List Part → Nat → Prop
  | a, [], b => a = b
  | a, p :: ps, b => p.off = a ∧ p.bytes = (data.drop a).take p.bytes.length ∧
      a + p.bytes.length ≤ data.length ∧ Chain data (a + p.bytes.length) ps b

theorem Chain.append {data : Bytes} : ∀ {l1 l2 : List Part} {a b c : Nat},
    Chain data a l1 b → Chain data b l2 c → Chain data a (l1 ++ l2) c
  | [], _, a, b, c, h1, h2 => by
    have : a = b := h1
    subst this; simpa using h2
  | p :: ps, l2, a, b, c, h1, h2 => by
    obtain ⟨e1, e2, e3, e4⟩ := h1
    exact ⟨e1, e2, e3, Chain.append e4 h2⟩

/-- total size of a chain = distance covered -/
theorem Chain.sum {data : Bytes} : ∀ {l : List Part} {a b : Nat}, Chain data a l b →
    a + (l.map (fun p => p.bytes.length)).sum = b
  | [], a, b, h => by simpa [Chain] using h
  | p :: ps, a, b, h => by
    obtain ⟨_, _, _, e4⟩ := h
    have := Chain.sum e4
    simp only [List.map_cons, List.sum_cons]
    omega

/-- every member of a chain is a window of `data` inside `[a, b)` -/
theorem Chain.mem {data : Bytes} : ∀ {l : List Part} {a b : Nat}, Chain data a l b →
    ∀ p ∈ l, a ≤ p.off ∧ p.off + p.bytes.length ≤ b ∧ p.off + p.bytes.length ≤ data.length ∧
      p.bytes = (data.drop p.off).take p.bytes.length
  | [], _, _, _, p, hp => by cases hp
  | q :: qs, a, b, h, p, hp => by
    obtain ⟨e1, e2, e3, e4⟩ := h
    have hs := Chain.sum e4
    rcases List.mem_cons.mp hp with rfl | hp
    · refine ⟨by omega, ?_, by omega, by rw [e1]; exact e2⟩
      have : 0 ≤ (qs.map (fun p => p.bytes.length)).sum := Nat.zero_le _
      omega
    · obtain ⟨m1, m2, m3, m4⟩ := Chain.mem e4 p hp
      exact ⟨by omega, m2, m3, m4⟩

/-- result of `partLoop`: (new parts, partStart, sizeLeft, offset of partStart, next index) -/
def LoopOK (data : Bytes) (n p off : Nat) (acc : List Part)
    (r : List Part × Bytes × Nat × Nat × Nat) : Prop :=
  ∃ new : List Part, r.1 = acc ++ new ∧ new.length = n ∧ r.2.2.2.2 = p + n ∧
    r.2.1 = data.drop r.2.2.2.1 ∧ r.2.2.1 = r.2.1.length ∧ r.2.2.2.1 ≤ data.length ∧
    Chain data off new r.2.2.2.1

theorem partLoop_post (data : Bytes) : ∀ (n p : Nat) (sz ps : Bytes) (sizeLeft off : Nat)
    (acc : List Part), 3 * n ≤ sz.length → ps = data.drop off → sizeLeft = ps.length →
    off ≤ data.length → p + n ≤ 7 →
    (partLoop n p sz ps sizeLeft off acc).Post (LoopOK data n p off acc)
  | 0, p, sz, ps, sizeLeft, off, acc, _, hps, hsl, hoff, _ => by
    unfold partLoop
    exact ⟨[], by simp, rfl, rfl, hps, hsl, hoff, rfl⟩
  | n + 1, p, sz, ps, sizeLeft, off, acc, hsz, hps, hsl, hoff, hp => by
    unfold partLoop
    refine Res.Post.bind (idx_post sz 0 (by omega)) (fun z0 _ => ?_)
    refine Res.Post.bind (idx_post sz 1 (by omega)) (fun z1 _ => ?_)
    refine Res.Post.bind (idx_post sz 2 (by omega)) (fun z2 _ => ?_)
    generalize z0.toNat + z1.toNat * 256 + z2.toNat * 65536 = psize
    dsimp only
    by_cases hgt : psize > sizeLeft
    · rw [if_pos hgt]; trivial
    rw [if_neg hgt]
    have hp8 : ¬ p ≥ 8 := by omega
    rw [if_neg hp8]
    refine Res.Post.bind (slice_post ps 0 psize (by omega) (by omega)) (fun part hpart => ?_)
    refine Res.Post.bind (sliceFrom_post ps psize (by omega)) (fun ps' hps' => ?_)
    refine Res.Post.bind (sliceFrom_post sz 3 (by omega)) (fun sz' hsz' => ?_)
    have hpl : part.length = psize := by
      rw [hpart, List.drop_zero, List.length_take]; omega
    have hpsl : ps.length = data.length - off := by rw [hps, List.length_drop]
    have h1 : 3 * n ≤ sz'.length := by rw [hsz', List.length_drop]; omega
    have h2 : ps' = data.drop (off + psize) := by rw [hps', hps, List.drop_drop]
    have h3 : sizeLeft - psize = ps'.length := by rw [hps', List.length_drop]; omega
    have h4 : off + psize ≤ data.length := by omega
    have ih := partLoop_post data n (p + 1) sz' ps' (sizeLeft - psize) (off + psize)
      (acc ++ [{ off := off, bytes := part }]) h1 h2 h3 h4 (by omega)
    refine ih.mono (fun r hr => ?_)
    obtain ⟨new, e1, e2, e3, e4, e5, e6, e7⟩ := hr
    refine ⟨{ off := off, bytes := part } :: new, ?_, by simp [e2], by omega, e4, e5, e6, ?_⟩
    · rw [e1, List.append_assoc]; rfl
    · refine ⟨rfl, ?_, by simp only [hpl]; omega, by simpa only [hpl] using e7⟩
      show part = (data.drop off).take part.length
      rw [hpl, hpart, List.drop_zero, hps]

/-- what `parsePartitions` guarantees about the slices it hands to the token readers -/
structure PartsOK (data : Bytes) (base : Nat) (r : Nat × List Part) : Prop where
  /-- 1, 2, 4 or 8 partitions -/
  count : r.1 = 0 ∨ r.1 = 1 ∨ r.1 = 3 ∨ r.1 = 7
  len : r.2.length = r.1 + 1
  /-- back to back from the end of the size table to the end of the payload -/
  chain : Chain data (base + 3 * r.1) r.2 data.length

theorem parsePartitions_post (S : BitSrc σ) (s : σ) (data buf : Bytes) (base : Nat)
    (hbuf : buf = data.drop base) (hbase : base ≤ data.length) :
    (parsePartitions S s buf base).Post (fun r => PartsOK data base r.1) := by
  unfold parsePartitions
  have hv := getValue2_lt S s
  generalize (getValue S 2 s 0) = v at hv ⊢
  dsimp only
  have hn : (1 <<< v.1) - 1 = 0 ∨ (1 <<< v.1) - 1 = 1 ∨ (1 <<< v.1) - 1 = 3 ∨ (1 <<< v.1) - 1 = 7 := by
    have : v.1 = 0 ∨ v.1 = 1 ∨ v.1 = 2 ∨ v.1 = 3 := by omega
    rcases this with h | h | h | h <;> rw [h] <;> decide
  generalize (1 <<< v.1) - 1 = lp at hn ⊢
  have hlp : lp ≤ 7 := by omega
  have hbl : buf.length = data.length - base := by rw [hbuf, List.length_drop]
  by_cases hlt : buf.length < 3 * lp
  · rw [if_pos hlt]; trivial
  rw [if_neg hlt]
  refine Res.Post.bind (sliceFrom_post buf (lp * 3) (by omega)) (fun partStart hps => ?_)
  have hps2 : partStart = data.drop (base + lp * 3) := by rw [hps, hbuf, List.drop_drop]
  have hloop := partLoop_post data lp 0 buf partStart partStart.length (base + lp * 3) []
    (by omega) hps2 rfl (by omega) (by omega)
  refine Res.Post.bind hloop (fun r hr => ?_)
  obtain ⟨new, e1, e2, e3, e4, e5, e6, e7⟩ := hr
  obtain ⟨acc, ps, sizeLeft, off, p⟩ := r
  dsimp only at e1 e3 e4 e5 e6 e7 ⊢
  have hp8 : ¬ p ≥ 8 := by omega
  rw [if_neg hp8]
  refine Res.Post.bind (slice_post ps 0 sizeLeft (by omega) (by omega)) (fun last hlast => ?_)
  have hpsl : ps.length = data.length - off := by rw [e4, List.length_drop]
  have hll : last.length = data.length - off := by
    rw [hlast, List.drop_zero, List.length_take]; omega
  refine ⟨hn, ?_, ?_⟩
  · show (acc ++ [({ off := off, bytes := last } : Part)]).length = lp + 1
    rw [e1]; simp [e2]
  · show Chain data (base + 3 * lp) (acc ++ [({ off := off, bytes := last } : Part)]) data.length
    rw [e1, List.nil_append]
    have e7' : Chain data (base + 3 * lp) new off := by
      have : base + lp * 3 = base + 3 * lp := by omega
      rw [← this]; exact e7
    refine Chain.append e7' ⟨rfl, ?_, by simp only [hll]; omega, ?_⟩
    · show last = (data.drop off).take last.length
      rw [hll, hlast, List.drop_zero, e4, e5, hpsl]
    · show off + last.length = data.length
      omega

end Webp.Impl.CodecFront
