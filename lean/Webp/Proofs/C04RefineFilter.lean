import Webp.Impl.VP8DecFilter
import Webp.Spec.VP8.LoopFilter
import Mathlib.Tactic.NormNum
/-
  C04 refinement, layer 4 (loop filter), parameters: the Go decoder's per-macroblock filter
  strengths (`precomputeFilterStrengths` + `doFilter`'s thresholds, `Webp.Impl.VP8DecFilter`) are
  RFC 6386's (§9.3, §9.6, §15.1: `Webp.Spec.VP8.filterParams`) for every header, segment and mode.
-/
namespace Webp.Proofs.C04RefineFilter
open Webp.Impl.VP8DecFilter
open Webp.Spec.VP8 (FrameHdr MBInfo filterParams filterLevel B_PRED clampInt)

/-- the filter fields of the Go decoder's state and of the RFC frame header carry the same values -/
structure FiltRel (seg : SegHdr) (hdr : FilterHdr) (h : FrameHdr) : Prop where
  level : hdr.level = (h.filter.level : Int)
  level63 : h.filter.level ≤ 63
  sharp : hdr.sharpness = (h.filter.sharpness : Int)
  sharp7 : h.filter.sharpness ≤ 7
  delta : hdr.useLFDelta = h.filter.deltaEnabled
  ref0 : hdr.refLFDelta0 = h.filter.refDelta.getD 0 0
  mode0 : hdr.modeLFDelta0 = h.filter.modeDelta.getD 0 0
  useSeg : seg.useSegment = h.seg.enabled
  abs : seg.absoluteDelta = h.seg.absolute
  strength : ∀ s, seg.filterStrength s = h.seg.lfLevel.getD s 0

theorem level_eq (seg : SegHdr) (hdr : FilterHdr) (h : FrameHdr) (hr : FiltRel seg hdr h) (m : MBInfo) :
    mbLevel seg hdr m.segment (decide (m.ymode = B_PRED)) = (filterLevel h {} m : Int) := by
  have key : ∀ z : Int, ((if z < 0 then 0 else if z > 63 then 63 else z : Int).toNat : Int) =
      (if z < 0 then 0 else if z > 63 then 63 else z) := by
    intro z; rw [Int.toNat_of_nonneg]; split_ifs <;> omega
  have hL0 : (0 : Int) ≤ (h.filter.level : Int) := Int.natCast_nonneg _
  have hL63 : (h.filter.level : Int) ≤ 63 := by have := hr.level63; omega
  unfold mbLevel baseLevel filterLevel
  rw [hr.useSeg, hr.abs, hr.strength, hr.level, hr.delta, hr.ref0, hr.mode0]
  simp only [Bool.false_and, Bool.or_false, if_true, clampInt]
  rw [key]
  generalize h.seg.lfLevel.getD m.segment 0 = v
  generalize h.filter.refDelta.getD 0 0 = rd
  generalize h.filter.modeDelta.getD 0 0 = md
  generalize (h.filter.level : Int) = L at *
  by_cases hB : m.ymode = B_PRED <;> by_cases hs : h.seg.enabled = true <;> by_cases ha : h.seg.absolute = true <;>
    by_cases hd : h.filter.deltaEnabled = true <;>
    simp only [hB, hs, ha, hd, decide_true, decide_false, if_true, if_false, Bool.not_true, Bool.not_false,
      Bool.false_eq_true] <;>
    split_ifs <;> omega

/-- what `doFilter` gets for level `L`, sharpness `sh` -/
def goParams (sh L : Int) : Option (Nat × Nat × Nat × Nat) :=
  if L > 0 then
    edgeParams
      { fILevel := u8 (interiorLevel ⟨0, sh, false, 0, 0⟩ L)
        fLimit := u8 (2 * L + interiorLevel ⟨0, sh, false, 0, 0⟩ L)
        hevThresh := if L ≥ 40 then 2 else if L ≥ 15 then 1 else 0
        fInner := false }
  else none

/-- RFC 6386 §15.1 for level `x`, sharpness `sh` -/
def specParams (sh x : Nat) : Option (Nat × Nat × Nat × Nat) :=
  let interior := if sh = 0 then x else min (x >>> (if sh > 4 then 2 else 1)) (9 - sh)
  let interior := if interior = 0 then 1 else interior
  if x = 0 then none
  else some ((x + 2) * 2 + interior, x * 2 + interior, interior, if x ≥ 40 then 2 else if x ≥ 15 then 1 else 0)

set_option maxRecDepth 100000 in
theorem params_table' : ∀ sh : Fin 8, ∀ x : Fin 64, goParams (sh.val : Int) (x.val : Int) = specParams sh.val x.val := by
  decide

theorem params_table (sh : Nat) (hs : sh < 8) (x : Nat) (hx : x < 64) : goParams (sh : Int) (x : Int) = specParams sh x :=
  params_table' ⟨sh, hs⟩ ⟨x, hx⟩

theorem strength_params (seg : SegHdr) (hdr : FilterHdr) (s : Nat) (i4 : Bool) (prev : FInfo) :
    edgeParams (strength seg hdr s i4 prev) = goParams hdr.sharpness (mbLevel seg hdr s i4) := by
  unfold strength goParams
  simp only
  split_ifs <;> rfl

theorem spec_params (h : FrameHdr) (m : MBInfo) :
    (if (filterParams h {} m).level = 0 then none
      else some ((filterParams h {} m).mbLimit, (filterParams h {} m).subLimit,
                 (filterParams h {} m).interior, (filterParams h {} m).hevThreshold)) =
    specParams h.filter.sharpness (filterLevel h {} m) := rfl

/-- **Loop-filter parameters: Go = RFC 6386.**  For every header (level ≤ 63, sharpness ≤ 7: the
    widths of the fields), segment and luma mode: the macroblock is filtered iff its RFC level is
    not 0, and then the edge limits (`limit + 4` for macroblock edges, `limit` for sub-block edges),
    the interior limit and the high-edge-variance threshold `doFilter` uses are the RFC's. -/
theorem params_eq (seg : SegHdr) (hdr : FilterHdr) (h : FrameHdr) (hr : FiltRel seg hdr h) (m : MBInfo) (prev : FInfo) :
    edgeParams (strength seg hdr m.segment (decide (m.ymode = B_PRED)) prev) =
      if (filterParams h {} m).level = 0 then none
      else some ((filterParams h {} m).mbLimit, (filterParams h {} m).subLimit,
                 (filterParams h {} m).interior, (filterParams h {} m).hevThreshold) := by
  have h63 : filterLevel h {} m < 64 := by
    unfold filterLevel
    simp only [clampInt]
    split_ifs <;> omega
  rw [spec_params, strength_params, level_eq seg hdr h hr m, hr.sharp]
  exact params_table h.filter.sharpness (by have := hr.sharp7; omega) (filterLevel h {} m) h63

theorem zeros_getD (s : Nat) : (#[0, 0, 0, 0] : Array Int).getD s 0 = 0 := by
  rw [Array.getD_eq_getD_getElem?]
  rcases Nat.lt_or_ge s 4 with h | h
  · have : ∀ j : Fin 4, (#[0, 0, 0, 0] : Array Int)[j.val]? = some 0 := by decide
    rw [this ⟨s, h⟩]; rfl
  · rw [Array.getElem?_eq_none (by simpa using h)]; rfl

end Webp.Proofs.C04RefineFilter
