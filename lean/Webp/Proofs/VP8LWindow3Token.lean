import Webp.Proofs.VP8LWindow2Image
/-
  The WINDOW BUDGET, part 10: one token read WITH THE REGISTER POSITION IT LEAVES.  The theorems of
  VP8LWindowToken / VP8LWindowFast once more, with the slack of the final state as a function of the
  refill placement (`oGreen`): for the refills of the Go source a token leaves the register position
  `≤ 61`, so that a `ReadBits(1)` may follow a pixel loop (a sub-image) directly.
-/
namespace Webp.Proofs.VP8LWindow
open Webp.Go (Res)
open Webp.Spec.VP8L (BitReader Err Token Code Group EntropyParams)
open Webp.Impl.VP8LEntropy
open Webp.Impl.VP8LWindow
open Webp.Impl.VP8LFastPaths (HTreeGroup Tables5 MaxLens5 mkGroup cell packedEntry huffmanPackedTableSize bitsSpecialMarker)
open Webp.Proofs.VP8LEntropyBits
open Webp.Proofs.VP8LEntropyReader
open Webp.Proofs.VP8LFastPaths (TSpec trivLit trivCode usePacked arb totalBits)

/-- `Agree` with the register bound `K` of the final state as a parameter -/
def AgreeK (buf : Array UInt8) (K : Nat) (go : Res Err (Token × Reader)) (sp : Res Err (Token × BitReader)) : Prop :=
  (∃ t r' P', go = .ok (t, r') ∧ sp = .ok (t, brAt buf P') ∧ Good buf r' P' K) ∨
  (go = .err .eos ∧ sp = .err .eos)

theorem AgreeK.mono {buf : Array UInt8} {K K' : Nat} {go : Res Err (Token × Reader)} {sp : Res Err (Token × BitReader)}
    (h : AgreeK buf K go sp) (hK : K ≤ K') : AgreeK buf K' go sp := by
  rcases h with ⟨t, r', P', a, b, c⟩ | h
  · exact Or.inl ⟨t, r', P', a, b, c.mono hK⟩
  · exact Or.inr h

/-- register position after alpha / blue+alpha / red+blue+alpha / the distance part / a whole
    backward reference / anything after green, started at register position `≤ k` -/
def oA (fs : FillSites) (k : Nat) : Nat := after fs.alpha k + 15
def oBA (fs : FillSites) (k : Nat) : Nat := oA fs (after fs.blue k + 15)
def oRBA (fs : FillSites) (k : Nat) : Nat := oBA fs (after fs.red k + 15)
def oDist (fs : FillSites) (k : Nat) : Nat :=
  max (after fs.dist k + 15) (after fs.distExtra (after fs.dist k + 15) + 18)
def oCopy (fs : FillSites) (k : Nat) : Nat := oDist fs (max k (after fs.lenExtra k + 10))
def oGreen (fs : FillSites) (k : Nat) : Nat := max k (max (oRBA fs k) (oCopy fs k))

section agree
variable {G : Group} {g : HTreeGroup} (hG : GroupOK G g) {fs : FillSites} {buf : Array UInt8}
include hG

theorem readA_agreeK {r : Reader} {P k : Nat} (hg : Good buf r P k) (hk : k ≤ 64) (hw : wA fs k)
    {code rv bv : Nat} (hc : code < 256) (hr : rv < 256) (hb : bv < 256) :
    AgreeK buf (oA fs k) (readA goOps fs g code rv bv r) (specA G code rv bv (brAt buf P)) := by
  unfold wA at hw
  have hg1 := fillIf_good' fs.alpha hg hk
  obtain ⟨v, used, h1, hv, hcase⟩ := sym_step hG.alpha hg1 hw "HuffAlpha"
  unfold readA specA
  rcases hcase with ⟨hs, hg2⟩ | ⟨hs, hd⟩
  · have hne := hg2.not_eos hw
    simp only [h1, hs, goOps_eos, hne, Bool.false_eq_true, if_false]
    exact Or.inl ⟨_, _, _, rfl, by rw [argb_eq hv hr hc hb], hg2⟩
  · unfold Doomed at hd
    simp only [h1, hs, goOps_eos, hd, if_true]
    exact Or.inr ⟨rfl, rfl⟩

theorem readBA_agreeK {r : Reader} {P k : Nat} (hg : Good buf r P k) (hk : k ≤ 64) (hw : wBA fs k)
    {code rv : Nat} (hc : code < 256) (hr : rv < 256) :
    AgreeK buf (oBA fs k) (readBA goOps fs g code rv r) (specBA G code rv (brAt buf P)) := by
  obtain ⟨hw1, hw2⟩ := hw
  have hg1 := fillIf_good' fs.blue hg hk
  obtain ⟨v, used, h1, hv, hcase⟩ := sym_step hG.blue hg1 hw1 "HuffBlue"
  unfold readBA specBA
  rcases hcase with ⟨hs, hg2⟩ | ⟨hs, hd⟩
  · simp only [h1, hs]
    exact readA_agreeK hG hg2 hw1 hw2 hc hr hv
  · simp only [h1, hs]
    exact Or.inr ⟨readA_doomed hG fs code rv v hd, rfl⟩

theorem readRBA_agreeK {r : Reader} {P k : Nat} (hg : Good buf r P k) (hk : k ≤ 64) (hw : wRBA fs k)
    {code : Nat} (hc : code < 256) :
    AgreeK buf (oRBA fs k) (readRBA goOps fs g code r) (specRBA G code (brAt buf P)) := by
  obtain ⟨hw1, hw2⟩ := hw
  have hg1 := fillIf_good' fs.red hg hk
  obtain ⟨v, used, h1, hv, hcase⟩ := sym_step hG.red hg1 hw1 "HuffRed"
  unfold readRBA specRBA
  rcases hcase with ⟨hs, hg2⟩ | ⟨hs, hd⟩
  · simp only [h1, hs]
    exact readBA_agreeK hG hg2 hw1 hw2 hc hv
  · simp only [h1, hs]
    exact Or.inr ⟨readBA_doomed hG fs code v hd, rfl⟩

theorem readDist_agreeK {r : Reader} {P k : Nat} (hg : Good buf r P k) (hk : k ≤ 64) (hw : wDist fs k)
    {xsize : Nat} (hx : xsize ≤ 153391689) (length : Nat) :
    AgreeK buf (oDist fs k) (readDist goOps fs g xsize length r) (specDist G xsize length (brAt buf P)) := by
  obtain ⟨hw1, hw2⟩ := hw
  have hg1 := fillIf_good' fs.dist hg hk
  obtain ⟨v, used, h1, hv, hcase⟩ := sym_step hG.dist hg1 hw1 "HuffDist"
  unfold readDist specDist
  rcases hcase with ⟨hs, hg2⟩ | ⟨hs, hd⟩
  · simp only [h1, hs]
    have hex := readExtra_good hg2 hw1 fs.distExtra v 18 (by omega) (by omega) hw2
    have hpos := readExtra_pos fs.distExtra v ((fillIf goOps fs.dist r).advance used)
    generalize readExtra goOps fs.distExtra v ((fillIf goOps fs.dist r).advance used) = x at hex hpos ⊢
    obtain ⟨dc, r3⟩ := x
    rcases hex with ⟨P', he, hg3⟩ | ⟨he, hd3⟩
    · have hle : max (after fs.dist k + 15) (after fs.distExtra (after fs.dist k + 15) + 18) ≤ 64 := by
        omega
      have hne := hg3.not_eos hle
      simp only [he, goOps_eos, hne, Bool.false_eq_true, if_false]
      refine Or.inl ⟨_, _, _, rfl, ?_, hg3⟩
      rw [Webp.Proofs.VP8LEntropyTokens.planeCodeToDistance_eq,
        ← Webp.Proofs.LTransformCodes.impl_plane_eq_spec xsize dc hpos hx]
    · unfold Doomed at hd3
      simp only [he, goOps_eos, hd3, if_true]
      exact Or.inr ⟨rfl, rfl⟩
  · simp only [h1, hs]
    have h3 := readExtra_doomed hd fs.distExtra v
    unfold Doomed at h3
    simp only [goOps_eos, h3, if_true]
    exact Or.inr ⟨rfl, rfl⟩

theorem readCopy_agreeK {r : Reader} {P k : Nat} (hg : Good buf r P k) (hk : k ≤ 64) (hw : wCopy fs k)
    {xsize : Nat} (hx : xsize ≤ 153391689) {code : Nat} (hc : code < 256 + 24) :
    AgreeK buf (oCopy fs k) (readCopy goOps fs g xsize code r) (specCopy G xsize code (brAt buf P)) := by
  obtain ⟨hw1, hw2⟩ := hw
  unfold readCopy specCopy
  dsimp only
  have hex := readExtra_good hg hk fs.lenExtra (code - 256) 10 (by omega) (by omega) hw1
  generalize readExtra goOps fs.lenExtra (code - 256) r = x at hex ⊢
  obtain ⟨len, r1⟩ := x
  have e256 : Webp.Spec.VP8L.numLiteralCodes = 256 := rfl
  rw [e256]
  rcases hex with ⟨P', he, hg1⟩ | ⟨he, hd⟩
  · simp only [he]
    have hle : max k (after fs.lenExtra k + 10) ≤ 64 := by omega
    exact readDist_agreeK hG hg1 hle hw2 hx len
  · simp only [he]
    exact Or.inr ⟨readDist_doomed hG fs xsize len hd, rfl⟩

theorem afterGreen_agreeK {r : Reader} {P k : Nat} (hg : Good buf r P k) (hk : k ≤ 64)
    (hw1 : wRBA fs k) (hw2 : wCopy fs k) (hlit : TrivLitOK G g)
    {xsize : Nat} (hx : xsize ≤ 153391689) (code : Nat) :
    AgreeK buf (oGreen fs k) (afterGreen goOps fs g xsize code r) (specAfterGreen G xsize code (brAt buf P)) := by
  have hne := hg.not_eos hk
  have e256 : Webp.Spec.VP8L.numLiteralCodes = 256 := rfl
  have e24 : Webp.Spec.VP8L.numLengthCodes = 24 := rfl
  have hk1 : k ≤ oGreen fs k := Nat.le_max_left _ _
  have hk2 : oRBA fs k ≤ oGreen fs k := Nat.le_trans (Nat.le_max_left _ _) (Nat.le_max_right _ _)
  have hk3 : oCopy fs k ≤ oGreen fs k := Nat.le_trans (Nat.le_max_right _ _) (Nat.le_max_right _ _)
  unfold afterGreen specAfterGreen
  simp only [goOps_eos, hne, Bool.false_eq_true, if_false, e256, e24]
  by_cases h1 : code < 256
  · rw [if_pos h1, if_pos h1]
    by_cases ht : g.isTrivialLiteral = true
    · rw [if_pos ht, hlit ht buf P code (hg.P_le hk) h1]
      exact Or.inl ⟨_, _, _, rfl, rfl, hg.mono hk1⟩
    · rw [if_neg ht]
      exact (readRBA_agreeK hG hg hk hw1 h1).mono hk2
  · rw [if_neg h1, if_neg h1]
    by_cases h2 : code < 256 + 24
    · rw [if_pos h2, if_pos h2]
      exact (readCopy_agreeK hG hg hk hw2 hx h2).mono hk3
    · rw [if_neg h2, if_neg h2]
      exact Or.inl ⟨_, _, _, rfl, rfl, hg.mono hk1⟩

theorem readTokenAt_agreeK' (hS : Sufficient fs) (f1 : g.isTrivialCode = false) (f2 : g.usePackedTable = false)
    (hlit : TrivLitOK G g) {r : Reader} {P : Nat} (hg : Good buf r P 64)
    {xsize : Nat} (hx : xsize ≤ 153391689) :
    AgreeK buf (oGreen fs (after fs.top 64 + 15)) (readTokenAt goOps fs g xsize r)
      (Webp.Spec.VP8L.readToken G xsize (brAt buf P)) := by
  obtain ⟨hs0, hs1, hs2⟩ := hS
  obtain ⟨A, hgreen⟩ := hG.green
  have hg1 := fillIf_good' fs.top hg (Nat.le_refl _)
  obtain ⟨v, used, h1, hv, hcase⟩ := sym_step hgreen hg1 hs0 "HuffGreen"
  rw [readToken_eq]
  unfold readTokenAt
  simp only [f1, f2, Bool.false_eq_true, if_false]
  rcases hcase with ⟨hs, hg2⟩ | ⟨hs, hd⟩
  · simp only [h1, hs]
    exact afterGreen_agreeK hG hg2 hs0 hs1 hs2 hlit hx v
  · simp only [h1, hs]
    exact Or.inr ⟨afterGreen_doomed fs g xsize v hd, rfl⟩

end agree

/-- register position a whole token read leaves, started at register position `≤ k0` -/
def oToken (fs : FillSites) (k0 : Nat) : Nat := max k0 (max 37 (oGreen fs (after fs.top 64 + 15)))

/-- for the refills of the Go source: 61 (after alpha: refill 31, blue 15, alpha 15) -/
theorem oToken_go (k0 : Nat) : oToken goFills k0 = max k0 61 := by
  unfold oToken oGreen oRBA oBA oA oCopy oDist after
  simp [goFills]

section packed
variable {G : Group} {t : Tables5} {m : MaxLens5} {Ng : Nat} (hB : Built G t m Ng)
include hB

theorem trivCode_agreeK (fs : FillSites) (htc : trivCode t = true) {buf : Array UInt8} {r : Reader} {P k0 : Nat}
    (hg : Good buf r P k0) (hk0 : k0 ≤ 64) (xsize : Nat) :
    AgreeK buf k0 (readTokenAt goOps fs (mkGroup t m) xsize r) (Webp.Spec.VP8L.readToken G xsize (brAt buf P)) := by
  rcases trivCode_agree hB fs htc (hg.mono hk0) xsize with ⟨tk, r', P', h1, h2, _⟩ | ⟨h1, h2⟩
  · -- the reader is untouched
    obtain ⟨f1, f2, f3, f4, f5⟩ := Webp.Proofs.VP8LFastPaths.mkGroup_flags t m
    have hr : readTokenAt goOps fs (mkGroup t m) xsize r = .ok (.literal (mkGroup t m).literalARB, r) := by
      unfold readTokenAt
      rw [f2, htc, if_pos rfl]
    rw [hr] at h1
    injection h1 with h1; injection h1 with e1 e2
    subst e1; subst e2
    -- the specification's position is unchanged too: both are consistent with `r`
    have hPP : P' = P := by
      have a := (win_geom (by assumption : Good buf r P' 64).win).1
      have b := (win_geom hg.win).1
      omega
    subst hPP
    exact Or.inl ⟨_, r, P', hr, h2, hg⟩
  · exact Or.inr ⟨h1, h2⟩

theorem packed_agreeK {fs : FillSites} (hS : Sufficient fs) (htc : trivCode t = false) (hp : usePacked t m = true)
    {buf : Array UInt8} {r : Reader} {P : Nat} (hg : Good buf r P 64) {xsize : Nat} (hx : xsize ≤ 153391689) :
    AgreeK buf (max 37 (oGreen fs (after fs.top 64 + 15))) (readTokenAt goOps fs (mkGroup t m) xsize r)
      (Webp.Spec.VP8L.readToken G xsize (brAt buf P)) := by
  obtain ⟨f1, f2, f3, f4, f5⟩ := Webp.Proofs.VP8LFastPaths.mkGroup_flags t m
  obtain ⟨eg, er, eb, ea⟩ := Webp.Proofs.VP8LFastPaths.mkGroup_tables t m
  have hG := hB.groupOK
  obtain ⟨hs0, hs1, hs2⟩ := hS
  have htop : fs.top = true := by
    unfold after at hs0
    cases h : fs.top
    · rw [h] at hs0; simp at hs0
    · rfl
  have h32 : after fs.top 64 = 32 := by rw [htop]; rfl
  rw [h32] at hs1 hs2 ⊢
  have hM : m.green + m.red + m.blue + m.alpha < 6 := by
    unfold usePacked at hp
    simp only [Bool.and_eq_true, decide_eq_true_eq] at hp
    exact hp.2
  have hg1 := fillIf_good' fs.top hg (Nat.le_refl _)
  rw [h32] at hg1
  have hP1 := hg1.P_le (by omega)
  have hpk := readTokenAt_packed fs (mkGroup t m) xsize r (by rw [f2]; exact htc) (by rw [f3]; exact hp)
  generalize fillIf goOps fs.top r = r1 at hg1 hpk
  obtain ⟨sg, l1, hsg, hraw1, hl1, hcode, hlitE⟩ :=
    Webp.Proofs.VP8LFastPaths.packedEntry_spec hB.sgreen hB.sred hB.sblue hB.salpha hM r1.prefetchBits.toNat
  have hentry := packed_entry (t := t) (m := m) hp r1.prefetchBits.toNat
  have hK37 : 37 ≤ max 37 (oGreen fs (32 + 15)) := Nat.le_max_left _ _
  by_cases h256 : 256 ≤ sg
  · have hround : (UInt32.ofNat sg).toNat = sg := by
      rw [UInt32.toNat_ofNat']
      exact Nat.mod_eq_of_lt (by have := hB.hNg; omega)
    have hrp : readPacked goOps (mkGroup t m) r1 = ((0, sg, false), r1.advance l1) := by
      rw [readPacked_eq, hentry, hcode h256]
      simp only
      rw [if_neg (by show ¬ l1 + 256 < 256; omega), hround]
      show ((0, sg, false), r1.advance (l1 + 256 - 256)) = _
      rw [Nat.add_sub_cancel]
    rw [hpk _ _ _ _ hrp, readToken_eq]
    obtain ⟨_, _, hcase⟩ := raw_step (eg ▸ hB.green) hg1 (by omega) (eg.symm ▸ hraw1)
    rcases hcase with ⟨hs, hg2⟩ | ⟨hs, hd⟩
    · rw [hs, if_neg (by rw [hg2.not_eos (by omega)]; simp)]
      simp only [Bool.false_eq_true, if_false]
      exact (afterGreen_agreeK hG hg2 (by omega) hs1 hs2 (trivLitOK_mk hB htc) hx sg).mono (Nat.le_max_right _ _)
    · unfold Doomed at hd
      rw [hs, if_pos hd]
      exact Or.inr ⟨rfl, rfl⟩
  · have h256' : sg < 256 := by omega
    obtain ⟨sr, l2, sb, l3, sa, l4, hraw2, hraw3, hraw4, hsum, he⟩ := hlitE h256'
    have hrp : readPacked goOps (mkGroup t m) r1 =
        ((UInt32.ofNat sa <<< 24 ||| UInt32.ofNat sr <<< 16 ||| UInt32.ofNat sg <<< 8 ||| UInt32.ofNat sb, 0, true),
          r1.advance (l1 + l2 + l3 + l4)) := by
      rw [readPacked_eq, hentry, he]
      simp only
      rw [if_pos (by show l1 + l2 + l3 + l4 < 256; omega)]
    rw [hpk _ _ _ _ hrp]
    simp only [if_true]
    obtain ⟨ga, gb, gc⟩ := win_geom hg1.win
    by_cases hb : r1.bitPos < 64
    · have hwW : r1.prefetchBits.toNat = peekBits (brAt buf P) 32 := by
        have h := prefetch_low hg1 32 (Nat.le_refl _) (by omega) hb
        have l1 : r1.prefetchBits.toNat < 2 ^ 32 := r1.prefetchBits.toNat_lt
        have l2 : peekBits (brAt buf P) 32 < 2 ^ 32 := by
          unfold peekBits
          have := ofBitsLE_lt ((restBits (brAt buf P)).take 32)
          have hl : ((restBits (brAt buf P)).take 32).length ≤ 32 := by simp
          exact Nat.lt_of_lt_of_le this (Nat.pow_le_pow_right (by decide) hl)
        rw [Nat.mod_eq_of_lt l1, Nat.mod_eq_of_lt l2] at h
        exact h
      rw [hwW] at hraw1 hraw2 hraw3 hraw4
      rw [spec_chain_lit hG buf hP1 xsize h256' (eg.symm ▸ hraw1) (er.symm ▸ hraw2) (eb.symm ▸ hraw3)
        (ea.symm ▸ hraw4) (by omega)]
      by_cases hPL : P + (l1 + l2 + l3 + l4) ≤ nbits buf
      · have hg2 := advance_good hg1 (l1 + l2 + l3 + l4) hPL
        rw [if_neg (by rw [hg2.not_eos (by omega)]; simp), if_neg (by omega)]
        exact Or.inl ⟨_, _, _, rfl, rfl, hg2.mono (by omega)⟩
      · have hd := advance_doomed hg1 (l1 + l2 + l3 + l4) (by omega) (by omega)
        unfold Doomed at hd
        rw [if_pos hd, if_pos (by omega)]
        exact Or.inr ⟨rfl, rfl⟩
    · have hpos : r1.pos = buf.size := by have := hg1.room; omega
      have hPn : P = nbits buf := by have := gc hpos; have := hg1.le64 (by omega); omega
      rw [spec_chain_lit_end hG buf hPn xsize h256' (eg.symm ▸ hraw1) (er.symm ▸ hraw2) (eb.symm ▸ hraw3)
        (ea.symm ▸ hraw4)]
      by_cases hL0 : l1 + l2 + l3 + l4 = 0
      · have hg2 := advance_good hg1 (l1 + l2 + l3 + l4) (by omega)
        rw [if_neg (by rw [hg2.not_eos (by omega)]; simp), if_pos hL0]
        refine Or.inl ⟨_, _, P, rfl, rfl, ?_⟩
        have := hg2.mono (show 32 + (l1 + l2 + l3 + l4) ≤ max 37 (oGreen fs (32 + 15)) by omega)
        rw [hL0] at this ⊢
        exact this
      · have hd := advance_doomed hg1 (l1 + l2 + l3 + l4) (by omega) (by omega)
        unfold Doomed at hd
        rw [if_pos hd, if_neg hL0]
        exact Or.inr ⟨rfl, rfl⟩

/-- **one token read, all paths, with the register position it leaves** -/
theorem readTokenAt_agree_builtK {fs : FillSites} (hS : Sufficient fs) {buf : Array UInt8} {r : Reader} {P k0 : Nat}
    (hg : Good buf r P k0) (hk0 : k0 ≤ 64) {xsize : Nat} (hx : xsize ≤ 153391689) :
    AgreeK buf (oToken fs k0) (readTokenAt goOps fs (mkGroup t m) xsize r)
      (Webp.Spec.VP8L.readToken G xsize (brAt buf P)) := by
  obtain ⟨f1, f2, f3, f4, f5⟩ := Webp.Proofs.VP8LFastPaths.mkGroup_flags t m
  have a1 : k0 ≤ oToken fs k0 := Nat.le_max_left _ _
  have a2 : max 37 (oGreen fs (after fs.top 64 + 15)) ≤ oToken fs k0 := Nat.le_max_right _ _
  have a3 : oGreen fs (after fs.top 64 + 15) ≤ oToken fs k0 := Nat.le_trans (Nat.le_max_right _ _) a2
  rcases Bool.eq_false_or_eq_true (trivCode t) with htc | htc
  · exact (trivCode_agreeK hB fs htc hg hk0 xsize).mono a1
  rcases Bool.eq_false_or_eq_true (usePacked t m) with hp | hp
  · exact (packed_agreeK hB hS htc hp (hg.mono hk0) hx).mono a2
  · exact (readTokenAt_agreeK' hB.groupOK hS (by rw [f2]; exact htc) (by rw [f3]; exact hp) (trivLitOK_mk hB htc)
      (hg.mono hk0) hx).mono a3

end packed

end Webp.Proofs.VP8LWindow
