import Webp.Proofs.ContainerSafe
/-
  What a successful run of the container parser guarantees about its result
  (helper lemmas for the resource part of C05 and for C16).
-/
namespace Webp.Impl.Parser
open Webp.Go
set_option maxHeartbeats 400000
set_option linter.unusedTactic false
set_option linter.unusedVariables false

/-- fields of `Features` that are fixed once the first chunk has been read -/
def Features.sameMeta (a b : Features) : Prop :=
  a.format = b.format ∧ a.hasAnim = b.hasAnim ∧ a.canvasWidth = b.canvasWidth ∧
  a.canvasHeight = b.canvasHeight ∧ a.hasICCP = b.hasICCP ∧ a.hasEXIF = b.hasEXIF ∧
  a.hasXMP = b.hasXMP

def Features.sameLoop (a b : Features) : Prop :=
  a.loopCount = b.loopCount ∧ a.bgColor = b.bgColor

def Features.sameDims (a b : Features) : Prop :=
  a.width = b.width ∧ a.height = b.height ∧ a.hasAlpha = b.hasAlpha

theorem Features.sameMeta_refl (a : Features) : a.sameMeta a := ⟨rfl, rfl, rfl, rfl, rfl, rfl, rfl⟩
theorem Features.sameMeta_trans {a b c : Features} (h1 : a.sameMeta b) (h2 : b.sameMeta c) :
    a.sameMeta c := by
  obtain ⟨a1, a2, a3, a4, a5, a6, a7⟩ := h1
  obtain ⟨b1, b2, b3, b4, b5, b6, b7⟩ := h2
  exact ⟨a1.trans b1, a2.trans b2, a3.trans b3, a4.trans b4, a5.trans b5, a6.trans b6, a7.trans b7⟩
theorem Features.sameLoop_refl (a : Features) : a.sameLoop a := ⟨rfl, rfl⟩
theorem Features.sameLoop_trans {a b c : Features} (h1 : a.sameLoop b) (h2 : b.sameLoop c) :
    a.sameLoop c := ⟨h1.1.trans h2.1, h1.2.trans h2.2⟩
theorem Features.sameDims_refl (a : Features) : a.sameDims a := ⟨rfl, rfl, rfl⟩
theorem Features.sameDims_trans {a b c : Features} (h1 : a.sameDims b) (h2 : b.sameDims c) :
    a.sameDims c := ⟨h1.1.trans h2.1, h1.2.1.trans h2.2.1, h1.2.2.trans h2.2.2⟩

/-- payload bytes a frame keeps alive -/
def FrameInfo.plen (f : FrameInfo) : Nat := (f.payload.getD []).length
def FrameInfo.alen (f : FrameInfo) : Nat := (f.alphaData.getD []).length

/-- geometry fields (set from the ANMF header, never touched by the sub-chunk loop) -/
def FrameInfo.sameGeom (a b : FrameInfo) : Prop :=
  a.xOffset = b.xOffset ∧ a.yOffset = b.yOffset ∧ a.width = b.width ∧ a.height = b.height ∧
  a.duration = b.duration ∧ a.disposeBG = b.disposeBG ∧ a.blendNone = b.blendNone

theorem subFinish_ok {fr : FrameInfo} {al : Option Bytes} {fc : Nat} {pl : Bytes} {f : FrameInfo}
    (h : subFinish fr al fc pl = .ok f) :
    f.sameGeom fr ∧ (f.payload = fr.payload ∨ f.payload = some pl) ∧
      (f.alphaData = fr.alphaData ∨ f.alphaData = al) := by
  unfold subFinish at h
  by_cases c1 : fc = ccVP8L
  · rewrite [if_pos c1] at h
    by_cases c2 : al.isSome = true
    · rewrite [if_pos c2] at h; cases h
    · rewrite [if_neg c2] at h
      rcases parseVP8LHeader_cases pl with ⟨e, hh⟩ | ⟨hh, _⟩
      · rewrite [hh] at h; cases h
      · rewrite [hh] at h; cases h
        exact ⟨⟨rfl, rfl, rfl, rfl, rfl, rfl, rfl⟩, .inr rfl, .inl rfl⟩
  · rewrite [if_neg c1] at h
    by_cases c3 : fc = ccVP8
    · rewrite [if_pos c3] at h; cases h
      exact ⟨⟨rfl, rfl, rfl, rfl, rfl, rfl, rfl⟩, .inr rfl, .inr rfl⟩
    · rewrite [if_neg c3] at h
      by_cases c2 : al.isSome = true
      · rewrite [if_pos c2] at h; cases h
      · rewrite [if_neg c2] at h; cases h
        exact ⟨⟨rfl, rfl, rfl, rfl, rfl, rfl, rfl⟩, .inl rfl, .inl rfl⟩

theorem window_infix (buf : Bytes) (a b : Nat) : (buf.take b).drop a <:+: buf :=
  List.IsInfix.trans (List.drop_suffix _ _).isInfix (List.take_prefix _ _).isInfix

theorem window_length {buf : Bytes} {ps : Nat} (h : 8 + ps ≤ buf.length) :
    ((buf.take (8 + ps)).drop 8).length = ps := by
  rw [List.length_drop, List.length_take]; omega

theorem infix_drop {a buf : Bytes} {k : Nat} (h : a <:+: buf.drop k) : a <:+: buf :=
  List.IsInfix.trans h (List.drop_suffix _ _).isInfix

/-- `chunkAt` with the chunk fields as opaque variables.  (Proof-engineering note: keeping
    `le32 buf 4` inside `List.take`/`List.drop` indices and then asking for a definitional
    unfolding makes the kernel diverge; all later lemmas therefore work with `ps`, `pl`.) -/
theorem chunkAt_cases' (buf : Bytes) :
    (∃ e, chunkAt buf = .err e) ∨
    ∃ fc ps pl, chunkAt buf = .ok (fc, ps, 8 + (ps + ps % 2), pl) ∧
      8 + (ps + ps % 2) ≤ buf.length ∧ pl.length = ps ∧ pl <:+: buf ∧
      pl = (buf.take (8 + ps)).drop 8 ∧ fc = le32 buf 0 ∧ ps = le32 buf 4 := by
  rcases chunkAt_cases buf with ⟨e, hc⟩ | ⟨hle, hc⟩
  · exact .inl ⟨e, hc⟩
  · exact .inr ⟨_, _, _, hc, hle, window_length (by omega), window_infix _ _ _, rfl, rfl, rfl⟩

theorem getD_some_length (pl : Bytes) : ((some pl : Option Bytes).getD []).length = pl.length := rfl
theorem getD_none_length : ((none : Option Bytes).getD []).length = 0 := rfl

theorem parseFrameSubChunks_ok (fuel : Nat) :
    ∀ (fr : FrameInfo) (al : Option Bytes) (buf : Bytes) (f : FrameInfo),
      parseFrameSubChunks fuel fr al buf = .ok f → fr.payload = none → fr.alphaData = none →
      f.sameGeom fr ∧
      (f.payload = none ∨ ∃ pl, f.payload = some pl ∧ pl <:+: buf) ∧
      (f.alphaData = none ∨ ∃ a, f.alphaData = some a ∧ (al = some a ∨ a <:+: buf)) ∧
      f.plen + f.alen ≤ buf.length + (al.getD []).length := by
  induction fuel with
  | zero => intro fr al buf f h; rewrite [parseFrameSubChunks_zero] at h; cases h
  | succ fuel ih =>
    intro fr al buf f h hp0 ha0
    rewrite [parseFrameSubChunks_succ] at h
    by_cases h8 : buf.length < 8
    · rewrite [subStep_short h8] at h
      by_cases c2 : al.isSome = true
      · rewrite [if_pos c2] at h; cases h
      · rewrite [if_neg c2] at h
        injection h with h
        subst h
        refine ⟨⟨rfl, rfl, rfl, rfl, rfl, rfl, rfl⟩, .inl hp0, .inl ha0, ?_⟩
        unfold FrameInfo.plen FrameInfo.alen
        rewrite [hp0, ha0]
        exact Nat.zero_le _
    · rcases chunkAt_cases' buf with ⟨e, hc⟩ | ⟨fc, ps, pl, hc, hle, hwl, hin, -, -, -⟩
      · rewrite [subStep_chunkErr h8 hc] at h; cases h
      · by_cases hfc : fc = ccALPH
        · rewrite [subStep_alph h8 hc hfc hle] at h
          obtain ⟨g, hp, ha, hcost⟩ := ih _ _ _ _ h hp0 ha0
          refine ⟨g, ?_, ?_, ?_⟩
          · rcases hp with hp | ⟨pl', hp, hin'⟩
            · exact .inl hp
            · exact .inr ⟨pl', hp, infix_drop hin'⟩
          · rcases ha with ha | ⟨a, ha, hin'⟩
            · exact .inl ha
            · refine .inr ⟨a, ha, .inr ?_⟩
              rcases hin' with hin' | hin'
              · injection hin' with hin'; subst hin'; exact hin
              · exact infix_drop hin'
          · rewrite [List.length_drop, getD_some_length] at hcost
            clear ih h hc hfc hp ha g hp0 ha0 hin
            omega
        · rewrite [subStep_fin h8 hc hfc] at h
          obtain ⟨g, hp, ha⟩ := subFinish_ok h
          refine ⟨g, ?_, ?_, ?_⟩
          · rcases hp with hp | hp
            · exact .inl (hp.trans hp0)
            · exact .inr ⟨_, hp, hin⟩
          · rcases ha with ha | ha
            · exact .inl (ha.trans ha0)
            · cases al with
              | none => exact .inl ha
              | some a => exact .inr ⟨a, ha, .inl rfl⟩
          · unfold FrameInfo.plen FrameInfo.alen
            rcases hp with hp | hp <;> rcases ha with ha | ha
            · rewrite [hp, ha, hp0, ha0, getD_none_length]; omega
            · rewrite [hp, ha, hp0, getD_none_length]; omega
            · rewrite [hp, ha, ha0, getD_none_length, getD_some_length]
              clear ih h hc hfc hp ha g hp0 ha0 hin
              omega
            · rewrite [hp, ha, getD_some_length]
              clear ih h hc hfc hp ha g hp0 ha0 hin
              omega

theorem anmfFrame_fields (payload : Bytes) :
    (anmfFrame payload).payload = none ∧ (anmfFrame payload).alphaData = none ∧
    (anmfFrame payload).width = 1 + le24 payload 6 ∧
    (anmfFrame payload).height = 1 + le24 payload 9 := ⟨rfl, rfl, rfl, rfl⟩

/-- what a successfully parsed ANMF frame looks like -/
theorem parseANMF_ok {payload : Bytes} {f : FrameInfo} (h : parseANMF payload = .ok f) :
    f.sameGeom (anmfFrame payload) ∧ 1 ≤ f.width ∧ 1 ≤ f.height ∧
    f.width * f.height < maxImageArea ∧
    (f.payload = none ∨ ∃ pl, f.payload = some pl ∧ pl <:+: payload) ∧
    (f.alphaData = none ∨ ∃ a, f.alphaData = some a ∧ a <:+: payload) ∧
    f.plen + f.alen + 16 ≤ payload.length := by
  rcases parseANMF_cases payload with ⟨e, he⟩ | ⟨h16, harea, he⟩
  · rewrite [he] at h; cases h
  · rewrite [he] at h
    obtain ⟨g, hp, ha, hcost⟩ := parseFrameSubChunks_ok _ _ _ _ _ h rfl rfl
    have gw : f.width = 1 + le24 payload 6 := g.2.2.1
    have gh : f.height = 1 + le24 payload 9 := g.2.2.2.1
    refine ⟨g, by omega, by omega, by rw [gw, gh]; exact harea, ?_, ?_, ?_⟩
    · rcases hp with hp | ⟨pl, hp, hin⟩
      · exact .inl hp
      · exact .inr ⟨pl, hp, infix_drop hin⟩
    · rcases ha with ha | ⟨a, ha, hin⟩
      · exact .inl ha
      · rcases hin with hin | hin
        · cases hin
        · exact .inr ⟨a, ha, infix_drop hin⟩
    · rewrite [List.length_drop, getD_none_length] at hcost
      omega

/-- what `parseExtSingleImage` / `parseSingleImage` guarantee about the still frame -/
structure StillOK (st sd : State) (f : FrameInfo) (pl : Bytes) : Prop where
  frames : sd.frames = st.frames ++ [f]
  chunks : sd.chunks = st.chunks
  loop : sd.features.sameLoop st.features
  fw : sd.features.width = f.width
  fh : sd.features.height = f.height
  w1 : 1 ≤ f.width
  h1 : 1 ≤ f.height
  w2 : f.width ≤ 16384
  h2 : f.height ≤ 16384
  payload : f.payload = some pl

theorem extFinish_ok {st : State} {fr : FrameInfo} {al : Option Bytes} {fc : Nat} {pl : Bytes}
    {sd : State} (h : extFinish st fr al fc pl = .ok sd) :
    ∃ f, StillOK st sd f pl ∧ sd.features.sameMeta st.features ∧
      (f.alphaData = fr.alphaData ∨ f.alphaData = al) := by
  unfold extFinish at h
  by_cases c1 : fc = ccVP8L
  · rewrite [if_pos c1] at h
    by_cases c2 : al.isSome = true
    · rewrite [if_pos c2] at h; cases h
    · rewrite [if_neg c2] at h
      cases hh : parseVP8LHeader pl with
      | err e => rewrite [hh] at h; cases h
      | panic => rewrite [hh] at h; cases h
      | hang => rewrite [hh] at h; cases h
      | ok v =>
        obtain ⟨w, hgt, a⟩ := v
        obtain ⟨-, -, -, hw1, hh1, hw2, hh2, -, -⟩ := parseVP8LHeader_ok hh
        rewrite [hh] at h
        injection h with h
        subst h
        exact ⟨_, ⟨rfl, rfl, ⟨rfl, rfl⟩, rfl, rfl, hw1, hh1, hw2, hh2, rfl⟩,
          ⟨rfl, rfl, rfl, rfl, rfl, rfl, rfl⟩, .inl rfl⟩
  · rewrite [if_neg c1] at h
    by_cases c3 : fc = ccVP8
    · rewrite [if_pos c3] at h
      cases hh : parseVP8Header pl with
      | err e => rewrite [hh] at h; cases h
      | panic => rewrite [hh] at h; cases h
      | hang => rewrite [hh] at h; cases h
      | ok v =>
        obtain ⟨w, hgt⟩ := v
        obtain ⟨-, -, hw1, hh1, hw2, hh2, -⟩ := parseVP8Header_ok hh
        rewrite [hh] at h
        injection h with h
        subst h
        exact ⟨_, ⟨rfl, rfl, ⟨rfl, rfl⟩, rfl, rfl, hw1, hh1, Nat.le_of_lt hw2, Nat.le_of_lt hh2, rfl⟩,
          ⟨rfl, rfl, rfl, rfl, rfl, rfl, rfl⟩, .inr rfl⟩
    · rewrite [if_neg c3] at h; cases h

theorem StillOK.of_alpha {st sd : State} {f : FrameInfo} {pl : Bytes}
    (h : StillOK { st with features := { st.features with hasAlpha := true } } sd f pl) :
    StillOK st sd f pl :=
  ⟨h.frames, h.chunks, h.loop, h.fw, h.fh, h.w1, h.h1, h.w2, h.h2, h.payload⟩

theorem parseExtSingleImage_ok (fuel : Nat) :
    ∀ (st : State) (fr : FrameInfo) (al : Option Bytes) (buf : Bytes) (sd : State),
      parseExtSingleImage fuel st fr al buf = .ok sd → fr.alphaData = none →
      ∃ f pl, StillOK st sd f pl ∧ sd.features.sameMeta st.features ∧ pl <:+: buf ∧
        (f.alphaData = none ∨ ∃ a, f.alphaData = some a ∧ (al = some a ∨ a <:+: buf)) ∧
        8 + f.plen + f.alen ≤ buf.length + (al.getD []).length := by
  induction fuel with
  | zero => intro st fr al buf sd h; rewrite [parseExtSingleImage_zero] at h; cases h
  | succ fuel ih =>
    intro st fr al buf sd h ha0
    rewrite [parseExtSingleImage_succ] at h
    by_cases h8 : buf.length < 8
    · rewrite [extStep_short h8] at h; cases h
    · rcases chunkAt_cases' buf with ⟨e, hc⟩ | ⟨fc, ps, pl, hc, hle, hwl, hin, -, -, -⟩
      · rewrite [extStep_chunkErr h8 hc] at h; cases h
      · by_cases hfc : fc = ccALPH
        · rewrite [extStep_alph h8 hc hfc hle] at h
          obtain ⟨f, pl', hok, hmeta, hin', ha, hcost⟩ := ih _ _ _ _ _ h ha0
          refine ⟨f, pl', hok.of_alpha, hmeta, infix_drop hin', ?_, ?_⟩
          · rcases ha with ha | ⟨a, ha, hin''⟩
            · exact .inl ha
            · refine .inr ⟨a, ha, .inr ?_⟩
              rcases hin'' with hin'' | hin''
              · injection hin'' with hin''; subst hin''; exact hin
              · exact infix_drop hin''
          · rewrite [List.length_drop, getD_some_length] at hcost
            clear ih h hc hfc ha hok hmeta ha0 hin hin'
            omega
        · rewrite [extStep_fin h8 hc hfc] at h
          obtain ⟨f, hok, hmeta, ha⟩ := extFinish_ok h
          refine ⟨f, pl, hok, hmeta, hin, ?_, ?_⟩
          · rcases ha with ha | ha
            · exact .inl (ha.trans ha0)
            · cases al with
              | none => exact .inl ha
              | some a => exact .inr ⟨a, ha, .inl rfl⟩
          · unfold FrameInfo.plen FrameInfo.alen
            rewrite [hok.payload, getD_some_length]
            rcases ha with ha | ha
            · rewrite [ha, ha0, getD_none_length]
              clear ih h hc hfc ha hok hmeta ha0 hin
              omega
            · rewrite [ha]
              clear ih h hc hfc ha hok hmeta ha0 hin
              omega

/-! ### one iteration of the VP8X chunk loop -/

theorem ok_some_inj {st st' : State} {ac ac' : Nat}
    (h : (Res.ok (some (st, ac)) : R (Option (State × Nat))) = .ok (some (st', ac'))) :
    st = st' ∧ ac = ac' := by
  injection h with h; injection h with h; injection h with h1 h2; exact ⟨h1, h2⟩

theorem vp8xDecide_some {st : State} {ac fc ps : Nat} {pl : Bytes} {st' : State} {ac' : Nat}
    (h : vp8xDecide st ac fc ps pl = .ok (some (st', ac'))) :
    st'.features.sameMeta st.features ∧ st'.features.sameDims st.features ∧ ac ≤ ac' ∧
    ((ac' = ac ∧ st'.features.sameLoop st.features) ∨
      (st.features.hasAnim = true ∧ ac' = ac + 1)) ∧
    ((st'.frames = st.frames ∧
        (st'.chunks = st.chunks ∨ st'.chunks = st.chunks ++ [⟨fc, pl⟩])) ∨
      (ac ≠ 0 ∧ st.frames.length < maxFrames ∧ st'.chunks = st.chunks ∧
        ∃ f, st'.frames = st.frames ++ [f] ∧ parseANMF pl = .ok f)) := by
  unfold vp8xDecide at h
  generalize maxMetadataSize = MM at h
  have M0 : st.features.sameMeta st.features := Features.sameMeta_refl _
  have D0 : st.features.sameDims st.features := Features.sameDims_refl _
  have L0 : st.features.sameLoop st.features := Features.sameLoop_refl _
  by_cases c1 : fc = ccVP8X
  · rewrite [if_pos c1] at h; cases h
  rewrite [if_neg c1] at h
  by_cases c2 : fc = ccANIM
  · rewrite [if_pos c2] at h
    by_cases c2b : (!st.features.hasAnim) = true
    · rewrite [if_pos c2b] at h
      obtain ⟨h1, h2⟩ := ok_some_inj h
      subst h1 h2
      exact ⟨M0, D0, Nat.le_refl _, .inl ⟨rfl, L0⟩, .inl ⟨rfl, .inl rfl⟩⟩
    rewrite [if_neg c2b] at h
    have hA : st.features.hasAnim = true := by
      cases hb : st.features.hasAnim with
      | true => rfl
      | false => rewrite [hb] at c2b; exact absurd rfl c2b
    by_cases c2a : ps < animChunkSize
    · rewrite [if_pos c2a] at h; cases h
    · rewrite [if_neg c2a] at h
      obtain ⟨h1, h2⟩ := ok_some_inj h
      subst h1 h2
      exact ⟨⟨rfl, rfl, rfl, rfl, rfl, rfl, rfl⟩, ⟨rfl, rfl, rfl⟩, Nat.le_succ _,
        .inr ⟨hA, rfl⟩, .inl ⟨rfl, .inl rfl⟩⟩
  rewrite [if_neg c2] at h
  by_cases c3 : fc = ccANMF
  · rewrite [if_pos c3] at h
    by_cases c3a : ac = 0
    · rewrite [if_pos c3a] at h; cases h
    rewrite [if_neg c3a] at h
    by_cases c3b : st.frames.length ≥ maxFrames
    · rewrite [if_pos c3b] at h; cases h
    rewrite [if_neg c3b] at h
    cases hp : parseANMF pl with
    | err e => rewrite [hp] at h; cases h
    | panic => rewrite [hp] at h; cases h
    | hang => rewrite [hp] at h; cases h
    | ok f =>
      rewrite [hp] at h
      obtain ⟨h1, h2⟩ := ok_some_inj h
      subst h1 h2
      exact ⟨M0, D0, Nat.le_refl _, .inl ⟨rfl, L0⟩,
        .inr ⟨c3a, Nat.lt_of_not_ge c3b, rfl, f, rfl, rfl⟩⟩
  rewrite [if_neg c3] at h
  by_cases c4 : fc = ccVP8 ∨ fc = ccVP8L ∨ fc = ccALPH
  · rewrite [if_pos c4] at h
    by_cases c4a : ac > 0 ∨ st.features.hasAnim = true
    · rewrite [if_pos c4a] at h; cases h
    · rewrite [if_neg c4a] at h
      injection h with h; cases h
  rewrite [if_neg c4] at h
  by_cases c5 : fc = ccICCP ∨ fc = ccEXIF ∨ fc = ccXMP
  · rewrite [if_pos c5] at h
    by_cases c5a : (if fc = ccICCP then st.features.hasICCP
        else if fc = ccEXIF then st.features.hasEXIF else st.features.hasXMP) = true
    · rewrite [if_pos c5a] at h
      by_cases c5b : ps > MM
      · rewrite [if_pos c5b] at h; cases h
      · rewrite [if_neg c5b] at h
        obtain ⟨h1, h2⟩ := ok_some_inj h
        subst h1 h2
        exact ⟨M0, D0, Nat.le_refl _, .inl ⟨rfl, L0⟩, .inl ⟨rfl, .inr rfl⟩⟩
    · rewrite [if_neg c5a] at h
      obtain ⟨h1, h2⟩ := ok_some_inj h
      subst h1 h2
      exact ⟨M0, D0, Nat.le_refl _, .inl ⟨rfl, L0⟩, .inl ⟨rfl, .inl rfl⟩⟩
  rewrite [if_neg c5] at h
  by_cases c6 : st.chunks.length ≥ maxChunks
  · rewrite [if_pos c6] at h; cases h
  rewrite [if_neg c6] at h
  by_cases c7 : ps > MM
  · rewrite [if_pos c7] at h; cases h
  · rewrite [if_neg c7] at h
    obtain ⟨h1, h2⟩ := ok_some_inj h
    subst h1 h2
    exact ⟨M0, D0, Nat.le_refl _, .inl ⟨rfl, L0⟩, .inl ⟨rfl, .inr rfl⟩⟩

theorem vp8xDecide_none {st : State} {ac fc ps : Nat} {pl : Bytes}
    (h : vp8xDecide st ac fc ps pl = .ok none) :
    ac = 0 ∧ st.features.hasAnim = false ∧ (fc = ccVP8 ∨ fc = ccVP8L ∨ fc = ccALPH) := by
  unfold vp8xDecide at h
  generalize maxMetadataSize = MM at h
  by_cases c1 : fc = ccVP8X
  · rewrite [if_pos c1] at h; cases h
  rewrite [if_neg c1] at h
  by_cases c2 : fc = ccANIM
  · rewrite [if_pos c2] at h
    by_cases c2b : (!st.features.hasAnim) = true
    · rewrite [if_pos c2b] at h; injection h with h; cases h
    rewrite [if_neg c2b] at h
    by_cases c2a : ps < animChunkSize
    · rewrite [if_pos c2a] at h; cases h
    · rewrite [if_neg c2a] at h; injection h with h; cases h
  rewrite [if_neg c2] at h
  by_cases c3 : fc = ccANMF
  · rewrite [if_pos c3] at h
    by_cases c3a : ac = 0
    · rewrite [if_pos c3a] at h; cases h
    rewrite [if_neg c3a] at h
    by_cases c3b : st.frames.length ≥ maxFrames
    · rewrite [if_pos c3b] at h; cases h
    rewrite [if_neg c3b] at h
    cases hp : parseANMF pl with
    | err e => rewrite [hp] at h; cases h
    | panic => rewrite [hp] at h; cases h
    | hang => rewrite [hp] at h; cases h
    | ok f => rewrite [hp] at h; injection h with h; cases h
  rewrite [if_neg c3] at h
  by_cases c4 : fc = ccVP8 ∨ fc = ccVP8L ∨ fc = ccALPH
  · rewrite [if_pos c4] at h
    by_cases c4a : ac > 0 ∨ st.features.hasAnim = true
    · rewrite [if_pos c4a] at h; cases h
    · refine ⟨?_, ?_, c4⟩
      · exact Nat.eq_zero_of_not_pos (fun hp => c4a (.inl hp))
      · cases hb : st.features.hasAnim with
        | false => rfl
        | true => exact absurd (.inr hb) c4a
  rewrite [if_neg c4] at h
  by_cases c5 : fc = ccICCP ∨ fc = ccEXIF ∨ fc = ccXMP
  · rewrite [if_pos c5] at h
    by_cases c5a : (if fc = ccICCP then st.features.hasICCP
        else if fc = ccEXIF then st.features.hasEXIF else st.features.hasXMP) = true
    · rewrite [if_pos c5a] at h
      by_cases c5b : ps > MM
      · rewrite [if_pos c5b] at h; cases h
      · rewrite [if_neg c5b] at h; injection h with h; cases h
    · rewrite [if_neg c5a] at h; injection h with h; cases h
  rewrite [if_neg c5] at h
  by_cases c6 : st.chunks.length ≥ maxChunks
  · rewrite [if_pos c6] at h; cases h
  rewrite [if_neg c6] at h
  by_cases c7 : ps > MM
  · rewrite [if_pos c7] at h; cases h
  · rewrite [if_neg c7] at h; injection h with h; cases h

/-! ### the whole chunk loop: resource accounting -/

/-- bytes of input accounted for by what the state retains: every recorded chunk and every
    frame stands for at least an 8-byte header plus its payload / alpha bytes -/
def State.cost (s : State) : Nat :=
  (s.chunks.map (fun c => 8 + c.payload.length)).sum +
  (s.frames.map (fun f => 8 + f.plen + f.alen)).sum

theorem State.cost_frames (s : State) (f : FrameInfo) :
    State.cost { s with frames := s.frames ++ [f] } = s.cost + (8 + f.plen + f.alen) := by
  unfold State.cost
  simp only [List.map_append, List.sum_append, List.map_cons, List.map_nil, List.sum_cons,
    List.sum_nil]
  omega

theorem State.cost_chunks (s : State) (c : Chunk) :
    State.cost { s with chunks := s.chunks ++ [c] } = s.cost + (8 + c.payload.length) := by
  unfold State.cost
  simp only [List.map_append, List.sum_append, List.map_cons, List.map_nil, List.sum_cons,
    List.sum_nil]
  omega

theorem State.cost_eq {s t : State} (hf : s.frames = t.frames) (hc : s.chunks = t.chunks) :
    s.cost = t.cost := by
  unfold State.cost; rw [hf, hc]

/-- per-frame guarantee: positive dimensions, area below `MaxImageArea`, and the retained
    byte strings are contiguous pieces of the buffer -/
structure FrameOK (buf : Bytes) (f : FrameInfo) : Prop where
  w1 : 1 ≤ f.width
  h1 : 1 ≤ f.height
  area : f.width * f.height < maxImageArea
  inPl : ∀ pl, f.payload = some pl → pl <:+: buf
  inAl : ∀ a, f.alphaData = some a → a <:+: buf

theorem FrameOK.of_drop {buf : Bytes} {k : Nat} {f : FrameInfo} (h : FrameOK (buf.drop k) f) :
    FrameOK buf f :=
  ⟨h.w1, h.h1, h.area, fun pl hp => infix_drop (h.inPl pl hp), fun a ha => infix_drop (h.inAl a ha)⟩

theorem FrameOK.of_infix {a buf : Bytes} {f : FrameInfo} (hi : a <:+: buf) (h : FrameOK a f) :
    FrameOK buf f :=
  ⟨h.w1, h.h1, h.area, fun pl hp => (h.inPl pl hp).trans hi, fun x ha => (h.inAl x ha).trans hi⟩

theorem still_area {w h : Nat} (hw : w ≤ 16384) (hh : h ≤ 16384) : w * h < maxImageArea := by
  have : w * h ≤ 16384 * 16384 := Nat.mul_le_mul hw hh
  have e : maxImageArea = 1073741824 := rfl
  omega

theorem maxFrames_pos : 1 ≤ maxFrames := by decide

theorem mem_append_singleton {α : Type} {x y : α} {l : List α} (h : x ∈ l ++ [y]) :
    x ∈ l ∨ x = y := by
  rcases List.mem_append.mp h with h | h
  · exact .inl h
  · exact .inr (List.mem_singleton.mp h)

theorem parseVP8XChunks_ok (fuel : Nat) :
    ∀ (st : State) (ac : Nat) (buf : Bytes) (sd : State),
      parseVP8XChunks fuel st ac buf = .ok sd →
      sd.features.sameMeta st.features ∧
      (st.frames.length ≤ maxFrames → (ac = 0 → st.frames = []) →
        sd.frames.length ≤ maxFrames) ∧
      sd.cost ≤ st.cost + buf.length ∧
      (∀ f ∈ sd.frames, f ∈ st.frames ∨ FrameOK buf f) ∧
      (∀ c ∈ sd.chunks, c ∈ st.chunks ∨ c.payload <:+: buf) ∧
      (1 ≤ st.features.width ∧ 1 ≤ st.features.height →
        1 ≤ sd.features.width ∧ 1 ≤ sd.features.height) := by
  induction fuel with
  | zero => intro st ac buf sd h; rewrite [parseVP8XChunks_zero] at h; cases h
  | succ fuel ih =>
    intro st ac buf sd h
    rewrite [parseVP8XChunks_succ] at h
    by_cases h8 : buf.length < 8
    · rewrite [vp8xStep_short h8] at h
      injection h with h
      subst h
      exact ⟨Features.sameMeta_refl _, fun h _ => h, Nat.le_add_right _ _,
        fun f hf => .inl hf, fun c hc => .inl hc, fun h => h⟩
    · rcases chunkAt_cases' buf with ⟨e, hc⟩ | ⟨fc, ps, pl, hc, hle, hwl, hin, -, -, -⟩
      · rewrite [vp8xStep_chunkErr h8 hc] at h; cases h
      · cases hdec : vp8xDecide st ac fc ps pl with
        | err e => rewrite [vp8xStep_err h8 hc hdec] at h; cases h
        | panic =>
          have := vp8xDecide_safe st ac fc ps pl
          rewrite [hdec] at this; exact absurd this id
        | hang =>
          have := vp8xDecide_safe st ac fc ps pl
          rewrite [hdec] at this; exact absurd this id
        | ok o =>
          cases o with
          | none =>
            rewrite [vp8xStep_ext h8 hc hdec] at h
            obtain ⟨hac, -, -⟩ := vp8xDecide_none hdec
            obtain ⟨f, pl', hok, hmeta, hin', ha, hcost⟩ :=
              parseExtSingleImage_ok _ _ _ _ _ _ h rfl
            have hfr := hok.frames
            refine ⟨hmeta, ?_, ?_, ?_, ?_, ?_⟩
            · intro _ h0
              rewrite [hfr, h0 hac]
              exact maxFrames_pos
            · have e1 : sd.cost = State.cost { st with frames := st.frames ++ [f] } :=
                State.cost_eq hfr hok.chunks
              rewrite [e1, State.cost_frames, getD_none_length] at *
              omega
            · intro g hg
              rewrite [hfr] at hg
              rcases mem_append_singleton hg with hg | hg
              · exact .inl hg
              · subst hg
                refine .inr ⟨hok.w1, hok.h1, still_area hok.w2 hok.h2, ?_, ?_⟩
                · intro p hp
                  rewrite [hok.payload] at hp
                  injection hp with hp
                  subst hp; exact hin'
                · intro a ha'
                  rcases ha with ha | ⟨a', ha, hia⟩
                  · rewrite [ha] at ha'; cases ha'
                  · rewrite [ha] at ha'
                    injection ha' with ha'
                    subst ha'
                    rcases hia with hia | hia
                    · cases hia
                    · exact hia
            · intro c hc'
              rewrite [hok.chunks] at hc'
              exact .inl hc'
            · intro _
              rewrite [hok.fw, hok.fh]
              exact ⟨hok.w1, hok.h1⟩
          | some v =>
            obtain ⟨st', ac'⟩ := v
            rewrite [vp8xStep_next h8 hc hdec hle] at h
            obtain ⟨hmeta, hdims, hacle, -, hfc⟩ := vp8xDecide_some hdec
            obtain ⟨imeta, ifr, icost, iok, ich, idims⟩ := ih _ _ _ _ h
            refine ⟨Features.sameMeta_trans imeta hmeta, ?_, ?_, ?_, ?_, ?_⟩
            · intro hlen h0
              apply ifr
              · rcases hfc with ⟨hfr, _⟩ | ⟨_, hlt, _, f, hfr, _⟩
                · rewrite [hfr]; exact hlen
                · rewrite [hfr, List.length_append]; exact hlt
              · intro hz
                have hz' : ac = 0 := Nat.eq_zero_of_le_zero (hz ▸ hacle)
                rcases hfc with ⟨hfr, _⟩ | ⟨hne, _⟩
                · rewrite [hfr]; exact h0 hz'
                · exact absurd hz' hne
            · have hst' : st'.cost ≤ st.cost + (8 + (ps + ps % 2)) := by
                rcases hfc with ⟨hfr, hch⟩ | ⟨_, _, hch, f, hfr, hpa⟩
                · rcases hch with hch | hch
                  · rewrite [State.cost_eq hfr hch]; exact Nat.le_add_right _ _
                  · have e1 : st'.cost = State.cost { st with chunks := st.chunks ++ [⟨fc, pl⟩] } :=
                      State.cost_eq hfr hch
                    rewrite [e1, State.cost_chunks]
                    show st.cost + (8 + pl.length) ≤ _
                    omega
                · obtain ⟨-, -, -, -, -, -, hc16⟩ := parseANMF_ok hpa
                  have e1 : st'.cost = State.cost { st with frames := st.frames ++ [f] } :=
                    State.cost_eq hfr hch
                  rewrite [e1, State.cost_frames]
                  omega
              rewrite [List.length_drop] at icost
              omega
            · intro g hg
              rcases iok g hg with hg' | hg'
              · rcases hfc with ⟨hfr, _⟩ | ⟨_, _, _, f, hfr, hpa⟩
                · rewrite [hfr] at hg'; exact .inl hg'
                · rewrite [hfr] at hg'
                  rcases mem_append_singleton hg' with hg' | hg'
                  · exact .inl hg'
                  · subst hg'
                    obtain ⟨-, w1, h1, ar, hp, ha, -⟩ := parseANMF_ok hpa
                    refine .inr ⟨w1, h1, ar, ?_, ?_⟩
                    · intro p hp'
                      rcases hp with hp | ⟨p', hp, hip⟩
                      · rewrite [hp] at hp'; cases hp'
                      · rewrite [hp] at hp'; injection hp' with hp'
                        subst hp'; exact hip.trans hin
                    · intro a ha'
                      rcases ha with ha | ⟨a', ha, hia⟩
                      · rewrite [ha] at ha'; cases ha'
                      · rewrite [ha] at ha'; injection ha' with ha'
                        subst ha'; exact hia.trans hin
              · exact .inr hg'.of_drop
            · intro c hc'
              rcases ich c hc' with hc'' | hc''
              · rcases hfc with ⟨_, hch⟩ | ⟨_, _, hch, _⟩
                · rcases hch with hch | hch
                  · rewrite [hch] at hc''; exact .inl hc''
                  · rewrite [hch] at hc''
                    rcases mem_append_singleton hc'' with hc'' | hc''
                    · exact .inl hc''
                    · subst hc''; exact .inr hin
                · rewrite [hch] at hc''; exact .inl hc''
              · exact .inr (infix_drop hc'')
            · intro hd
              apply idims
              rewrite [hdims.1, hdims.2.1]
              exact hd

/-! ### shape of the result: still vs. animation -/

theorem parseVP8XChunks_shape (fuel : Nat) :
    ∀ (st : State) (ac : Nat) (buf : Bytes) (sd : State),
      parseVP8XChunks fuel st ac buf = .ok sd → (0 < ac → st.features.hasAnim = true) →
      (st.features.hasAnim = false →
        sd.features.sameLoop st.features ∧
        ((sd.frames = st.frames ∧ sd.features.sameDims st.features) ∨
          ∃ f pl, sd.frames = st.frames ++ [f] ∧ sd.features.width = f.width ∧
            sd.features.height = f.height ∧ f.payload = some pl)) ∧
      (st.features.hasAnim = true → sd.features.sameDims st.features) := by
  induction fuel with
  | zero => intro st ac buf sd h; rewrite [parseVP8XChunks_zero] at h; cases h
  | succ fuel ih =>
    intro st ac buf sd h hac
    rewrite [parseVP8XChunks_succ] at h
    by_cases h8 : buf.length < 8
    · rewrite [vp8xStep_short h8] at h
      injection h with h
      subst h
      exact ⟨fun _ => ⟨Features.sameLoop_refl _, .inl ⟨rfl, Features.sameDims_refl _⟩⟩,
        fun _ => Features.sameDims_refl _⟩
    · rcases chunkAt_cases' buf with ⟨e, hc⟩ | ⟨fc, ps, pl, hc, hle, hwl, hin, -, -, -⟩
      · rewrite [vp8xStep_chunkErr h8 hc] at h; cases h
      · cases hdec : vp8xDecide st ac fc ps pl with
        | err e => rewrite [vp8xStep_err h8 hc hdec] at h; cases h
        | panic =>
          have := vp8xDecide_safe st ac fc ps pl
          rewrite [hdec] at this; exact absurd this id
        | hang =>
          have := vp8xDecide_safe st ac fc ps pl
          rewrite [hdec] at this; exact absurd this id
        | ok o =>
          cases o with
          | none =>
            rewrite [vp8xStep_ext h8 hc hdec] at h
            obtain ⟨_, hna, _⟩ := vp8xDecide_none hdec
            obtain ⟨f, pl', hok, _, _, _, _⟩ := parseExtSingleImage_ok _ _ _ _ _ _ h rfl
            refine ⟨fun _ => ⟨hok.loop, .inr ⟨f, pl', hok.frames, hok.fw, hok.fh, hok.payload⟩⟩,
              fun ht => ?_⟩
            rewrite [hna] at ht; cases ht
          | some v =>
            obtain ⟨st', ac'⟩ := v
            rewrite [vp8xStep_next h8 hc hdec hle] at h
            obtain ⟨hmeta, hdims, _, hloop, hfc⟩ := vp8xDecide_some hdec
            have hanim : st'.features.hasAnim = st.features.hasAnim := hmeta.2.1
            have hac' : 0 < ac' → st'.features.hasAnim = true := by
              intro hp
              rewrite [hanim]
              rcases hloop with ⟨he, _⟩ | ⟨ht, _⟩
              · exact hac (he ▸ hp)
              · exact ht
            obtain ⟨i1, i2⟩ := ih _ _ _ _ h hac'
            refine ⟨fun hf => ?_, fun ht => ?_⟩
            · have hz : ac = 0 := by
                rcases Nat.eq_zero_or_pos ac with hz | hp
                · exact hz
                · have := hac hp; rewrite [hf] at this; cases this
              obtain ⟨j1, j2⟩ := i1 (hanim.trans hf)
              have hl : st'.features.sameLoop st.features := by
                rcases hloop with ⟨_, hl⟩ | ⟨ht, _⟩
                · exact hl
                · rewrite [hf] at ht; cases ht
              have hfr : st'.frames = st.frames := by
                rcases hfc with ⟨hfr, _⟩ | ⟨hne, _⟩
                · exact hfr
                · exact absurd hz hne
              refine ⟨Features.sameLoop_trans j1 hl, ?_⟩
              rcases j2 with ⟨k1, k2⟩ | ⟨f, pl', k1, k2, k3, k4⟩
              · exact .inl ⟨k1.trans hfr, Features.sameDims_trans k2 hdims⟩
              · exact .inr ⟨f, pl', by rewrite [k1, hfr]; rfl, k2, k3, k4⟩
            · exact Features.sameDims_trans (i2 (hanim.trans ht)) hdims

/-! ### whole file -/

theorem simpleFinish_ok {st : State} {fc : Nat} {pl : Bytes} {sd : State}
    (h : simpleFinish st fc pl = .ok sd) :
    ∃ f, StillOK st sd f pl ∧ f.alphaData = none ∧ sd.features.format = st.features.format ∧
      sd.features.hasAnim = st.features.hasAnim ∧
      sd.features.canvasWidth = f.width ∧ sd.features.canvasHeight = f.height := by
  unfold simpleFinish at h
  by_cases c1 : fc = ccVP8L
  · rewrite [if_pos c1] at h
    cases hh : parseVP8LHeader pl with
    | err e => rewrite [hh] at h; cases h
    | panic => rewrite [hh] at h; cases h
    | hang => rewrite [hh] at h; cases h
    | ok v =>
      obtain ⟨w, hgt, a⟩ := v
      obtain ⟨-, -, -, hw1, hh1, hw2, hh2, -, -⟩ := parseVP8LHeader_ok hh
      rewrite [hh] at h
      injection h with h
      subst h
      exact ⟨_, ⟨rfl, rfl, ⟨rfl, rfl⟩, rfl, rfl, hw1, hh1, hw2, hh2, rfl⟩, rfl, rfl, rfl, rfl, rfl⟩
  · rewrite [if_neg c1] at h
    cases hh : parseVP8Header pl with
    | err e => rewrite [hh] at h; cases h
    | panic => rewrite [hh] at h; cases h
    | hang => rewrite [hh] at h; cases h
    | ok v =>
      obtain ⟨w, hgt⟩ := v
      obtain ⟨-, -, hw1, hh1, hw2, hh2, -⟩ := parseVP8Header_ok hh
      rewrite [hh] at h
      injection h with h
      subst h
      exact ⟨_, ⟨rfl, rfl, ⟨rfl, rfl⟩, rfl, rfl, hw1, hh1, Nat.le_of_lt hw2, Nat.le_of_lt hh2, rfl⟩,
        rfl, rfl, rfl, rfl, rfl⟩

/-- everything `parse` guarantees about a successful result, relative to the window `buf`
    it dispatches on -/
structure ResultOK (buf : Bytes) (s : State) : Prop where
  nframes : s.frames.length ≤ maxFrames
  cost : s.cost ≤ buf.length
  frames : ∀ f ∈ s.frames, FrameOK buf f
  chunks : ∀ c ∈ s.chunks, c.payload <:+: buf
  w1 : 1 ≤ s.features.width
  h1 : 1 ≤ s.features.height

theorem parseSingleImage_ok {st : State} {buf : Bytes} {sd : State}
    (h : parseSingleImage st buf = .ok sd) (hf : st.frames = []) (hc : st.chunks = []) :
    ResultOK buf sd ∧ ∃ f pl, StillOK st sd f pl ∧ f.alphaData = none ∧
      sd.features.format = st.features.format ∧ sd.features.hasAnim = st.features.hasAnim ∧
      sd.features.canvasWidth = f.width ∧ sd.features.canvasHeight = f.height := by
  rewrite [parseSingleImage_eq] at h
  rcases chunkAt_cases' buf with ⟨e, hca⟩ | ⟨fc, ps, pl, hca, hle, hwl, hin, -, -, -⟩
  · rewrite [hca] at h; cases h
  · rewrite [hca] at h
    obtain ⟨f, hok, ha, hfmt, han, hcw, hch⟩ := simpleFinish_ok h
    refine ⟨⟨?_, ?_, ?_, ?_, ?_, ?_⟩, f, pl, hok, ha, hfmt, han, hcw, hch⟩
    · rewrite [hok.frames, hf]; exact maxFrames_pos
    · have e1 : sd.cost = State.cost { st with frames := st.frames ++ [f] } :=
        State.cost_eq hok.frames hok.chunks
      rewrite [e1, State.cost_frames]
      unfold State.cost FrameInfo.plen FrameInfo.alen
      rewrite [hf, hc, hok.payload, ha, getD_some_length, getD_none_length]
      show 0 + 0 + (8 + pl.length + 0) ≤ _
      omega
    · intro g hg
      rewrite [hok.frames, hf] at hg
      have hg' : g = f := List.mem_singleton.mp hg
      subst hg'
      refine ⟨hok.w1, hok.h1, still_area hok.w2 hok.h2, ?_, ?_⟩
      · intro p hp
        rewrite [hok.payload] at hp
        injection hp with hp
        subst hp; exact hin
      · intro a ha'
        rewrite [ha] at ha'; cases ha'
    · intro c hc'
      rewrite [hok.chunks, hc] at hc'
      cases hc'
    · rewrite [hok.fw]; exact hok.w1
    · rewrite [hok.fh]; exact hok.h1

theorem vp8xFeatures_dims (payload : Bytes) :
    1 ≤ (vp8xFeatures payload).width ∧ 1 ≤ (vp8xFeatures payload).height ∧
    (vp8xFeatures payload).format = .vp8x ∧
    (vp8xFeatures payload).width = (vp8xFeatures payload).canvasWidth ∧
    (vp8xFeatures payload).height = (vp8xFeatures payload).canvasHeight ∧
    (vp8xFeatures payload).loopCount = 0 := by
  refine ⟨?_, ?_, rfl, rfl, rfl, rfl⟩
  · show 1 ≤ 1 + _; omega
  · show 1 ≤ 1 + _; omega

theorem parseVP8X_ok {buf : Bytes} {sd : State} (h : parseVP8X buf = .ok sd) :
    ResultOK buf sd ∧ sd.features.format = .vp8x := by
  rcases parseVP8X_cases buf with ⟨e, he⟩ | ⟨h18, _, he⟩
  · rewrite [he] at h; cases h
  · rewrite [he] at h
    obtain ⟨imeta, ifr, icost, iok, ich, idims⟩ := parseVP8XChunks_ok _ _ _ _ _ h
    have hd := vp8xFeatures_dims ((buf.take 18).drop 8)
    refine ⟨⟨?_, ?_, ?_, ?_, ?_, ?_⟩, ?_⟩
    · exact ifr (Nat.zero_le _) (fun _ => rfl)
    · rewrite [List.length_drop] at icost
      have : State.cost { features := vp8xFeatures ((buf.take 18).drop 8) } = 0 := rfl
      omega
    · intro f hf
      rcases iok f hf with hf' | hf'
      · cases hf'
      · exact hf'.of_drop
    · intro c hc
      rcases ich c hc with hc' | hc'
      · cases hc'
      · exact infix_drop hc'
    · exact (idims ⟨hd.1, hd.2.1⟩).1
    · exact (idims ⟨hd.1, hd.2.1⟩).2
    · exact imeta.1.trans hd.2.2.1

theorem dispatch_ok {buf : Bytes} {sd : State} (h : dispatch buf = .ok sd) : ResultOK buf sd := by
  unfold dispatch at h
  by_cases c1 : le32 buf 0 = ccVP8X
  · rewrite [if_pos c1] at h; exact (parseVP8X_ok h).1
  rewrite [if_neg c1] at h
  by_cases c2 : le32 buf 0 = ccVP8
  · rewrite [if_pos c2] at h; exact (parseSingleImage_ok h rfl rfl).1
  rewrite [if_neg c2] at h
  by_cases c3 : le32 buf 0 = ccVP8L
  · rewrite [if_pos c3] at h; exact (parseSingleImage_ok h rfl rfl).1
  · rewrite [if_neg c3] at h; cases h

theorem riffBuf_infix (data : Bytes) : riffBuf data <:+: data := window_infix _ _ _

theorem riffBuf_length (data : Bytes) (h : 12 ≤ data.length) :
    (riffBuf data).length + 12 ≤ data.length := by
  unfold riffBuf
  rewrite [List.length_drop, List.length_take]
  split_ifs <;> omega

/-- C05 resource bounds, in terms of the whole file -/
theorem parse_ok {data : Bytes} {s : State} (h : parse data = .ok s) :
    s.frames.length ≤ maxFrames ∧ s.cost + 12 ≤ data.length ∧
    (∀ f ∈ s.frames, FrameOK data f) ∧ (∀ c ∈ s.chunks, c.payload <:+: data) ∧
    1 ≤ s.features.width ∧ 1 ≤ s.features.height := by
  rcases parse_cases data with ⟨e, he⟩ | ⟨h12, _, _, _, _, he⟩
  · rewrite [he] at h; cases h
  · rewrite [he] at h
    have r := dispatch_ok h
    have hl := riffBuf_length data h12
    refine ⟨r.nframes, by have := r.cost; omega, ?_, ?_, r.w1, r.h1⟩
    · intro f hf; exact (r.frames f hf).of_infix (riffBuf_infix data)
    · intro c hc; exact (r.chunks c hc).trans (riffBuf_infix data)

/-- a file whose animation flag is clear yields at most one frame, whose bitstream dimensions
    are the reported dimensions, and the default loop count -/
theorem parse_still {data : Bytes} {s : State} (h : parse data = .ok s)
    (hna : s.features.hasAnim = false) :
    s.features.loopCount = 0 ∧
    (s.frames = [] ∨ ∃ f pl, s.frames = [f] ∧ s.features.width = f.width ∧
      s.features.height = f.height ∧ f.payload = some pl) := by
  rcases parse_cases data with ⟨e, he⟩ | ⟨_, _, _, _, _, he⟩
  · rewrite [he] at h; cases h
  rewrite [he] at h
  unfold dispatch at h
  generalize riffBuf data = buf at h
  have simple : ∀ fmt, parseSingleImage { features := { format := fmt } } buf = .ok s →
      s.features.loopCount = 0 ∧
      (s.frames = [] ∨ ∃ f pl, s.frames = [f] ∧ s.features.width = f.width ∧
        s.features.height = f.height ∧ f.payload = some pl) := by
    intro fmt hs
    obtain ⟨_, f, pl, hok, _⟩ := parseSingleImage_ok hs rfl rfl
    exact ⟨hok.loop.1, .inr ⟨f, pl, hok.frames, hok.fw, hok.fh, hok.payload⟩⟩
  by_cases c1 : le32 buf 0 = ccVP8X
  · rewrite [if_pos c1] at h
    rcases parseVP8X_cases buf with ⟨e, hx⟩ | ⟨_, _, hx⟩
    · rewrite [hx] at h; cases h
    · rewrite [hx] at h
      obtain ⟨imeta, _⟩ := parseVP8XChunks_ok _ _ _ _ _ h
      have hna0 : (vp8xFeatures ((buf.take 18).drop 8)).hasAnim = false :=
        imeta.2.1.symm.trans hna
      obtain ⟨i1, _⟩ := parseVP8XChunks_shape _ _ _ _ _ h (fun hp => absurd hp (Nat.lt_irrefl 0))
      obtain ⟨j1, j2⟩ := i1 hna0
      refine ⟨j1.1, ?_⟩
      rcases j2 with ⟨k1, _⟩ | ⟨f, pl, k1, k2, k3, k4⟩
      · exact .inl k1
      · exact .inr ⟨f, pl, k1, k2, k3, k4⟩
  rewrite [if_neg c1] at h
  by_cases c2 : le32 buf 0 = ccVP8
  · rewrite [if_pos c2] at h; exact simple _ h
  rewrite [if_neg c2] at h
  by_cases c3 : le32 buf 0 = ccVP8L
  · rewrite [if_pos c3] at h; exact simple _ h
  · rewrite [if_neg c3] at h; cases h

/-- a file whose animation flag is set reports the canvas as its dimensions -/
theorem parse_anim {data : Bytes} {s : State} (h : parse data = .ok s)
    (ha : s.features.hasAnim = true) :
    s.features.format = .vp8x ∧ s.features.width = s.features.canvasWidth ∧
    s.features.height = s.features.canvasHeight := by
  rcases parse_cases data with ⟨e, he⟩ | ⟨_, _, _, _, _, he⟩
  · rewrite [he] at h; cases h
  rewrite [he] at h
  unfold dispatch at h
  generalize riffBuf data = buf at h
  have simple : ∀ fmt, parseSingleImage { features := { format := fmt } } buf = .ok s → False := by
    intro fmt hs
    obtain ⟨_, f, pl, _, _, _, han, _⟩ := parseSingleImage_ok hs rfl rfl
    rewrite [ha] at han; cases han
  by_cases c1 : le32 buf 0 = ccVP8X
  · rewrite [if_pos c1] at h
    rcases parseVP8X_cases buf with ⟨e, hx⟩ | ⟨_, _, hx⟩
    · rewrite [hx] at h; cases h
    · rewrite [hx] at h
      obtain ⟨imeta, _⟩ := parseVP8XChunks_ok _ _ _ _ _ h
      have ha0 : (vp8xFeatures ((buf.take 18).drop 8)).hasAnim = true :=
        imeta.2.1.symm.trans ha
      obtain ⟨_, i2⟩ := parseVP8XChunks_shape _ _ _ _ _ h (fun hp => absurd hp (Nat.lt_irrefl 0))
      have hd := i2 ha0
      have hv := vp8xFeatures_dims ((buf.take 18).drop 8)
      exact ⟨imeta.1.trans hv.2.2.1, (hd.1.trans hv.2.2.2.1).trans imeta.2.2.1.symm,
        (hd.2.1.trans hv.2.2.2.2.1).trans imeta.2.2.2.1.symm⟩
  rewrite [if_neg c1] at h
  by_cases c2 : le32 buf 0 = ccVP8
  · rewrite [if_pos c2] at h; exact (simple _ h).elim
  rewrite [if_neg c2] at h
  by_cases c3 : le32 buf 0 = ccVP8L
  · rewrite [if_pos c3] at h; exact (simple _ h).elim
  · rewrite [if_neg c3] at h; cases h

end Webp.Impl.Parser
