import Webp.Go.Basic
/-
  Spec model of the WebP lossless (VP8L) bitstream — part 1: errors and the bit reader.

  Written from the "WebP Lossless Bitstream Specification" (RFC 9649 §3), *not* from the Go
  decoder.  `ReadBits(n)` reads `n` bits LSB-first: the first bit read is the least
  significant bit of the first byte, and the value of a multi-bit field has its first bit
  in the least significant position.

  Reading past the end of the data is an error (`eos`).  (The Go/libwebp reader keeps a
  64-bit window that is zero-padded for inputs shorter than 8 bytes and raises a sticky
  end-of-stream flag that callers poll at a few places; see the report in VP8L.lean for
  the observable differences.)
-/
namespace Webp.Spec.VP8L
open Webp.Go (Res)

/-- Why a byte string is not a VP8L stream. -/
inductive Err where
  | badSignature      -- first byte is not 0x2f
  | badVersion        -- version field ≠ 0
  | eosHeader         -- data ends inside the 5-byte header
  | eos               -- data ends inside the image stream
  | dupTransform      -- a transform type occurs twice
  | badCacheBits      -- colour-cache bits outside 1..11
  | codeSymbolRange   -- simple code names a symbol outside the alphabet
  | codeLengthRange   -- a code length above 15
  | codeEmpty         -- all code lengths are zero
  | codeIncomplete    -- ≥ 2 used symbols and Kraft sum < 1
  | codeOversubscribed -- Kraft sum > 1
  | maxSymbol         -- max_symbol larger than the alphabet
  | repeatOverflow    -- a repeat code runs past the end of the alphabet
  | noSymbol          -- no code word matched within 15 bits (impossible for a complete code)
  | copyBeforeStart   -- backward reference reaches before the first pixel
  | copyPastEnd       -- backward reference runs past the last pixel
  | cacheIndex        -- colour-cache symbol without / outside the cache
  | groupIndex        -- entropy image names a prefix-code group that does not exist
  deriving Repr, DecidableEq, Inhabited

def Err.toString : Err → String
  | .badSignature => "badSignature" | .badVersion => "badVersion" | .eosHeader => "eosHeader"
  | .eos => "eos" | .dupTransform => "dupTransform" | .badCacheBits => "badCacheBits"
  | .codeSymbolRange => "codeSymbolRange" | .codeLengthRange => "codeLengthRange"
  | .codeEmpty => "codeEmpty" | .codeIncomplete => "codeIncomplete"
  | .codeOversubscribed => "codeOversubscribed" | .maxSymbol => "maxSymbol"
  | .repeatOverflow => "repeatOverflow" | .noSymbol => "noSymbol"
  | .copyBeforeStart => "copyBeforeStart" | .copyPastEnd => "copyPastEnd"
  | .cacheIndex => "cacheIndex" | .groupIndex => "groupIndex"

/-- coarse class used on the wire: `header` or `bitstream` -/
def Err.isHeader : Err → Bool
  | .badSignature | .badVersion | .eosHeader => true
  | _ => false

abbrev R := Res Err

/-- A position in a byte string, counted in bits. -/
structure BitReader where
  data : ByteArray
  pos : Nat := 0

namespace BitReader

/-- number of unread bits -/
def remaining (br : BitReader) : Nat := 8 * br.data.size - br.pos

/-- one bit, LSB of each byte first -/
@[inline] def readBit (br : BitReader) : R (Nat × BitReader) :=
  let i := br.pos >>> 3
  if h : i < br.data.size then
    .ok (((br.data[i]).toNat >>> (br.pos &&& 7)) &&& 1, { br with pos := br.pos + 1 })
  else .err .eos

/-- `ReadBits(n)`: the first bit read is the least significant bit of the result. -/
def readBits (br : BitReader) : (n : Nat) → R (Nat × BitReader)
  | 0 => .ok (0, br)
  | n + 1 =>
    match br.readBit with
    | .ok (b, br) =>
      match readBits br n with
      | .ok (v, br) => .ok (b + 2 * v, br)
      | .err e => .err e
      | .panic => .panic
      | .hang => .hang
    | .err e => .err e
    | .panic => .panic
    | .hang => .hang

end BitReader

/-- `DIV_ROUND_UP(size, 1 << bits)` -/
@[inline] def subSampleSize (size bits : Nat) : Nat := (size + (1 <<< bits) - 1) >>> bits

end Webp.Spec.VP8L
