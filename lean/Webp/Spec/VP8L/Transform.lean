import Webp.Spec.VP8L.Bits
/-
  Spec model of VP8L — part 3: the four inverse transforms (RFC 9649 §3.4), written per
  pixel and per channel exactly as the specification's pseudo-code, each producing a *fresh*
  output array from an input array (no in-place aliasing).

  Pixels are `UInt32` ARGB: alpha bits 31..24, red 23..16, green 15..8, blue 7..0.
  Images are row-major `Array UInt32` with explicit width and height.
-/
namespace Webp.Spec.VP8L

/-! ### channels -/

@[inline] def chA (p : UInt32) : UInt32 := p >>> 24
@[inline] def chR (p : UInt32) : UInt32 := (p >>> 16) &&& 0xff
@[inline] def chG (p : UInt32) : UInt32 := (p >>> 8) &&& 0xff
@[inline] def chB (p : UInt32) : UInt32 := p &&& 0xff

/-- assemble a pixel; every argument is taken mod 256 -/
@[inline] def mkARGB (a r g b : UInt32) : UInt32 :=
  ((a &&& 0xff) <<< 24) ||| ((r &&& 0xff) <<< 16) ||| ((g &&& 0xff) <<< 8) ||| (b &&& 0xff)

/-- per-channel addition mod 256 -/
@[inline] def addPixels (x y : UInt32) : UInt32 :=
  mkARGB (chA x + chA y) (chR x + chR y) (chG x + chG y) (chB x + chB y)

/-- `Average2`: per-channel `(a + b) / 2` -/
@[inline] def average2 (x y : UInt32) : UInt32 :=
  mkARGB ((chA x + chA y) / 2) ((chR x + chR y) / 2) ((chG x + chG y) / 2) ((chB x + chB y) / 2)

@[inline] def chI (f : UInt32 → UInt32) (p : UInt32) : Int := ((f p).toNat : Int)

@[inline] def clamp255 (v : Int) : UInt32 :=
  if v < 0 then 0 else if v > 255 then 255 else v.toNat.toUInt32

/-- `Select(L, T, TL)` of the specification -/
def select (l t tl : UInt32) : UInt32 :=
  -- per-channel estimate L + T - TL
  let pA := chI chA l + chI chA t - chI chA tl
  let pR := chI chR l + chI chR t - chI chR tl
  let pG := chI chG l + chI chG t - chI chG tl
  let pB := chI chB l + chI chB t - chI chB tl
  -- Manhattan distances of the estimate to L and to T
  let dL := (pA - chI chA l).natAbs + (pR - chI chR l).natAbs + (pG - chI chG l).natAbs + (pB - chI chB l).natAbs
  let dT := (pA - chI chA t).natAbs + (pR - chI chR t).natAbs + (pG - chI chG t).natAbs + (pB - chI chB t).natAbs
  if dL < dT then l else t

/-- `ClampAddSubtractFull(a, b, c) = Clamp(a + b - c)` per channel -/
def clampAddSubtractFull (a b c : UInt32) : UInt32 :=
  mkARGB (clamp255 (chI chA a + chI chA b - chI chA c)) (clamp255 (chI chR a + chI chR b - chI chR c))
         (clamp255 (chI chG a + chI chG b - chI chG c)) (clamp255 (chI chB a + chI chB b - chI chB c))

/-- `ClampAddSubtractHalf(a, b) = Clamp(a + (a - b) / 2)` per channel, C division (toward zero) -/
def clampAddSubtractHalf (a b : UInt32) : UInt32 :=
  let f (x y : Int) : UInt32 := clamp255 (x + (x - y).tdiv 2)
  mkARGB (f (chI chA a) (chI chA b)) (f (chI chR a) (chI chR b))
         (f (chI chG a) (chI chG b)) (f (chI chB a) (chI chB b))

/-! ### predictor transform -/

/-- The 14 prediction modes from the neighbours L, T, TR, TL.  The specification defines modes
    0..13 only; a 4-bit mode field can also hold 14 and 15, which libwebp (and the Go port)
    treat like mode 0 — the spec model follows libwebp here. -/
def predict (mode : Nat) (l t tr tl : UInt32) : UInt32 :=
  match mode with
  | 0 => 0xff000000
  | 1 => l
  | 2 => t
  | 3 => tr
  | 4 => tl
  | 5 => average2 (average2 l tr) t
  | 6 => average2 l tl
  | 7 => average2 l t
  | 8 => average2 tl t
  | 9 => average2 t tr
  | 10 => average2 (average2 l tl) (average2 t tr)
  | 11 => select l t tl
  | 12 => clampAddSubtractFull l t tl
  | 13 => clampAddSubtractHalf (average2 l t) tl
  | _ => 0xff000000

/-- Prediction for pixel `i` of a `w`-wide image whose pixels `< i` are in `out`.
    Top-left pixel: 0xff000000; rest of the top row: L; leftmost column: T; otherwise the
    mode of the pixel's tile.  Neighbours are addressed in memory order, so the TR of the
    rightmost pixel is the leftmost pixel of the current row. -/
@[inline] def predictorAt (w bits : Nat) (modes out : Array UInt32) (i : Nat) : UInt32 :=
  let x := i % w
  let y := i / w
  if y = 0 then
    if x = 0 then 0xff000000 else out.getD (i - 1) 0
  else if x = 0 then out.getD (i - w) 0
  else
    let tilesPerRow := subSampleSize w bits
    let mode := (chG (modes.getD ((y >>> bits) * tilesPerRow + (x >>> bits)) 0) &&& 0xf).toNat
    predict mode (out.getD (i - 1) 0) (out.getD (i - w) 0) (out.getD (i - w + 1) 0) (out.getD (i - w - 1) 0)

def inversePredictorLoop (w bits : Nat) (modes residuals : Array UInt32) :
    (k : Nat) → (out : Array UInt32) → Array UInt32
  | 0, out => out
  | k + 1, out =>
    let i := out.size
    inversePredictorLoop w bits modes residuals k
      (out.push (addPixels (residuals.getD i 0) (predictorAt w bits modes out i)))

/-- Inverse predictor transform of a `w × h` residual image; `modes` is the sub-resolution
    image (`⌈w/2^bits⌉ × ⌈h/2^bits⌉`) whose green channel holds the mode of each tile. -/
def inversePredictor (w h bits : Nat) (modes residuals : Array UInt32) : Array UInt32 :=
  inversePredictorLoop w bits modes residuals (w * h) (Array.emptyWithCapacity (w * h))

/-! ### colour (cross-colour) transform -/

/-- an 8-bit value as a signed `int8` -/
@[inline] def sext8 (v : UInt32) : Int := if v < 128 then (v.toNat : Int) else (v.toNat : Int) - 256

/-- `ColorTransformDelta(t, c) = (int8 t * int8 c) >> 5` (arithmetic shift) -/
@[inline] def colorTransformDelta (t c : UInt32) : Int := (sext8 t * sext8 c) >>> 5

@[inline] def byteOfInt (v : Int) : UInt32 := (v % 256).toNat.toUInt32

/-- inverse colour transform of one pixel with the tile's `ColorTransformElement`
    (`red_to_blue` bits 16..23, `green_to_blue` bits 8..15, `green_to_red` bits 0..7) -/
def inverseCrossColorPixel (elem px : UInt32) : UInt32 :=
  let greenToRed := chB elem
  let greenToBlue := chG elem
  let redToBlue := chR elem
  let green := chG px
  let red := byteOfInt (chI chR px + colorTransformDelta greenToRed green)
  let blue := byteOfInt (chI chB px + colorTransformDelta greenToBlue green + colorTransformDelta redToBlue red)
  mkARGB (chA px) red green blue

def inverseCrossColorLoop (w bits : Nat) (elems inp : Array UInt32) :
    (k : Nat) → (out : Array UInt32) → Array UInt32
  | 0, out => out
  | k + 1, out =>
    let i := out.size
    let x := i % w
    let y := i / w
    let e := elems.getD ((y >>> bits) * subSampleSize w bits + (x >>> bits)) 0
    inverseCrossColorLoop w bits elems inp k (out.push (inverseCrossColorPixel e (inp.getD i 0)))

def inverseCrossColor (w h bits : Nat) (elems inp : Array UInt32) : Array UInt32 :=
  inverseCrossColorLoop w bits elems inp (w * h) (Array.emptyWithCapacity (w * h))

/-! ### subtract-green transform -/

@[inline] def addGreenPixel (px : UInt32) : UInt32 :=
  mkARGB (chA px) (chR px + chG px) (chG px) (chB px + chG px)

def inverseSubtractGreen (inp : Array UInt32) : Array UInt32 := inp.map addGreenPixel

/-! ### colour-indexing transform -/

/-- `width_bits`: 8 / 4 / 2 / 1 pixels per coded pixel for ≤ 2 / ≤ 4 / ≤ 16 / more colours -/
def packingBits (numColors : Nat) : Nat :=
  if numColors ≤ 2 then 3 else if numColors ≤ 4 then 2 else if numColors ≤ 16 then 1 else 0

/-- width of the coded (index) image for an image `w` pixels wide -/
def packedWidth (w numColors : Nat) : Nat := subSampleSize w (packingBits numColors)

/-- The palette is transmitted as per-channel differences: entry i = entry i-1 + delta i. -/
def deltaDecodePaletteLoop (coded : Array UInt32) : (k : Nat) → (out : Array UInt32) → Array UInt32
  | 0, out => out
  | k + 1, out =>
    let i := out.size
    let prev := if i = 0 then 0 else out.getD (i - 1) 0
    deltaDecodePaletteLoop coded k (out.push (addPixels (coded.getD i 0) prev))

def deltaDecodePalette (coded : Array UInt32) : Array UInt32 :=
  deltaDecodePaletteLoop coded coded.size (Array.emptyWithCapacity coded.size)

def inverseColorIndexingLoop (w cw wbits : Nat) (palette coded : Array UInt32) :
    (k : Nat) → (out : Array UInt32) → Array UInt32
  | 0, out => out
  | k + 1, out =>
    let i := out.size
    let x := i % w
    let y := i / w
    let bitsPerPixel := 8 >>> wbits
    let packed := (chG (coded.getD (y * cw + (x >>> wbits)) 0)).toNat
    let idx := (packed >>> (bitsPerPixel * (x &&& ((1 <<< wbits) - 1)))) &&& ((1 <<< bitsPerPixel) - 1)
    -- an index outside the palette denotes transparent black
    inverseColorIndexingLoop w cw wbits palette coded k (out.push (palette.getD idx 0))

/-- Inverse colour indexing: `coded` is `packedWidth w n × h`; the green channel of each coded
    pixel holds 1, 2, 4 or 8 indices, least significant bits first. -/
def inverseColorIndexing (w h : Nat) (palette coded : Array UInt32) : Array UInt32 :=
  let wbits := packingBits palette.size
  inverseColorIndexingLoop w (subSampleSize w wbits) wbits palette coded (w * h)
    (Array.emptyWithCapacity (w * h))

end Webp.Spec.VP8L
