import Webp.Spec.VP8L.Bits
/-
  Spec model of VP8L — part 2: prefix codes (RFC 9649 §3.7.2), LZ77 prefix values (§3.5.2.2)
  and the distance map.

  A prefix code is given by a vector of code lengths (0 = symbol unused, 1..15).  Code words
  are assigned canonically (shorter first, then by symbol value) and are read most
  significant bit first, one bit at a time, from the LSB-first bit stream (as in DEFLATE).

  Validity (the specification only says "the prefix code"; libwebp's BuildHuffmanTable is the
  de-facto rule and the Go port copies it):
    * all lengths zero                        → invalid (`codeEmpty`);
    * exactly one used symbol (any length)    → valid, the symbol takes **zero** bits;
    * otherwise the lengths must form a complete prefix code: Kraft sum Σ 2^-len = 1.
-/
namespace Webp.Spec.VP8L
open Webp.Go (Res)

def maxCodeLength : Nat := 15

/-- A canonical prefix code, in the form used by bit-serial decoding. -/
structure Code where
  /-- `counts[l]` = number of symbols with code length `l` (index 0 holds 0); size 16 -/
  counts : Array Nat
  /-- used symbols ordered by (length, symbol value) -/
  symbols : Array Nat
  deriving Repr, DecidableEq, Inhabited

/-- Σ 2^(15-len) over the used symbols; a complete code has `kraftSum = 2^15`. -/
def kraftSum (lengths : Array Nat) : Nat :=
  lengths.foldl (fun s l => if l = 0 then s else s + 2 ^ (maxCodeLength - l)) 0

/-- histogram of the code lengths (size 16; lengths > 15 are not counted) -/
def lengthCounts (lengths : Array Nat) : Array Nat :=
  lengths.foldl (fun c l => c.modify l (· + 1)) (Array.replicate (maxCodeLength + 1) 0)

/-- `offsets[l]` = number of used symbols with length < l (1 ≤ l ≤ 15); size 16 -/
def lengthOffsets (counts : Array Nat) : Array Nat :=
  Nat.fold maxCodeLength (fun l _ offs =>
    -- l = 0..14: offs[l+1] = offs[l] + (if l = 0 then 0 else counts[l])
    offs.push (offs.getD l 0 + (if l = 0 then 0 else counts.getD l 0))) #[0]

/-- used symbols sorted by (length, symbol): counting sort -/
def sortSymbols (lengths counts : Array Nat) : Array Nat :=
  let used := lengths.size - counts.getD 0 0
  let init : Array Nat × Array Nat := (Array.replicate used 0, lengthOffsets counts)
  (Nat.fold lengths.size (fun s _ (acc : Array Nat × Array Nat) =>
    let l := lengths.getD s 0
    if l = 0 then acc
    else
      let (sorted, offs) := acc
      let o := offs.getD l 0
      (sorted.setIfInBounds o s, offs.setIfInBounds l (o + 1))) init).1

/-- Build the canonical code of a length vector, or say why it is not a prefix code. -/
def buildCode (lengths : Array Nat) : R Code :=
  if lengths.any (· > maxCodeLength) then .err .codeLengthRange
  else
    let counts := lengthCounts lengths
    let used := lengths.size - counts.getD 0 0
    if used = 0 then .err .codeEmpty
    else
      let k := kraftSum lengths
      if used ≠ 1 ∧ k > 2 ^ maxCodeLength then .err .codeOversubscribed
      else if used ≠ 1 ∧ k < 2 ^ maxCodeLength then .err .codeIncomplete
      else .ok { counts := counts.setIfInBounds 0 0, symbols := sortSymbols lengths counts }

/-- bit-serial canonical decoding: `code` is the code word read so far (already shifted),
    `first` the first code word of length `len`, `index` the rank of its symbol. -/
def readSymbolAux (c : Code) : (fuel : Nat) → (len code first index : Nat) → BitReader →
    R (Nat × BitReader)
  | 0, _, _, _, _, _ => .err .noSymbol
  | fuel + 1, len, code, first, index, br =>
    match br.readBit with
    | .ok (b, br) =>
      let code := code + b
      let count := c.counts.getD len 0
      if code < first + count then
        .ok (c.symbols.getD (index + (code - first)) 0, br)
      else
        readSymbolAux c fuel (len + 1) (2 * code) (2 * (first + count)) (index + count) br
    | .err e => .err e
    | .panic => .panic
    | .hang => .hang

/-- `ReadSymbol`: a code with a single used symbol consumes no bits. -/
def readSymbol (c : Code) (br : BitReader) : R (Nat × BitReader) :=
  if c.symbols.size = 1 then .ok (c.symbols.getD 0 0, br)
  else readSymbolAux c maxCodeLength 1 0 0 0 br

/-- order in which the code-length code lengths are transmitted -/
def codeLengthCodeOrder : Array Nat :=
  #[17, 18, 0, 1, 2, 3, 4, 5, 16, 6, 7, 8, 9, 10, 11, 12, 13, 14, 15]

def numCodeLengthCodes : Nat := 19

/-- `n` copies of `v` appended -/
def pushN (a : Array Nat) (v : Nat) : Nat → Array Nat
  | 0 => a
  | n + 1 => pushN (a.push v) v n

/-- The token loop of the code-length decoding.  `tokens` is the number of code-length
    symbols that may still be read (`max_symbol`; one repeat code counts once — this is
    libwebp's reading of "read up to max_symbol code lengths", see VP8L.lean).  `prev` is
    the last non-zero length (initially 8).  Unread lengths are zero. -/
def readCodeLengthsLoop (clCode : Code) (alphabetSize : Nat) :
    (tokens : Nat) → (prev : Nat) → (acc : Array Nat) → BitReader → R (Array Nat × BitReader)
  | 0, _, acc, br => .ok (pushN acc 0 (alphabetSize - acc.size), br)
  | tokens + 1, prev, acc, br =>
    if acc.size ≥ alphabetSize then .ok (acc, br)
    else
      match readSymbol clCode br with
      | .ok (s, br) =>
        if s < 16 then
          readCodeLengthsLoop clCode alphabetSize tokens (if s = 0 then prev else s) (acc.push s) br
        else
          let extra := if s = 16 then 2 else if s = 17 then 3 else 7
          let offset := if s = 18 then 11 else 3
          match br.readBits extra with
          | .ok (e, br) =>
            let rep := offset + e
            if acc.size + rep > alphabetSize then .err .repeatOverflow
            else
              readCodeLengthsLoop clCode alphabetSize tokens prev
                (pushN acc (if s = 16 then prev else 0) rep) br
          | .err e => .err e
          | .panic => .panic
          | .hang => .hang
      | .err e => .err e
      | .panic => .panic
      | .hang => .hang

/-- Read the code lengths of a normal prefix code with the code-length code `clCode`. -/
def readCodeLengths (clCode : Code) (alphabetSize : Nat) (br : BitReader) :
    R (Array Nat × BitReader) := do
  let (useMax, br) ← br.readBits 1
  if useMax = 1 then
    let (n, br) ← br.readBits 3
    let (m, br) ← br.readBits (2 + 2 * n)
    let maxSymbol := 2 + m
    if maxSymbol > alphabetSize then .err .maxSymbol
    else readCodeLengthsLoop clCode alphabetSize maxSymbol 8 (Array.emptyWithCapacity alphabetSize) br
  else
    readCodeLengthsLoop clCode alphabetSize alphabetSize 8 (Array.emptyWithCapacity alphabetSize) br

/-- the `numCodes` 3-bit code-length code lengths, stored in `codeLengthCodeOrder` -/
def readCodeLengthCodeLengths : (n : Nat) → (i : Nat) → Array Nat → BitReader → R (Array Nat × BitReader)
  | 0, _, acc, br => .ok (acc, br)
  | n + 1, i, acc, br =>
    match br.readBits 3 with
    | .ok (v, br) =>
      readCodeLengthCodeLengths n (i + 1) (acc.setIfInBounds (codeLengthCodeOrder.getD i 0) v) br
    | .err e => .err e
    | .panic => .panic
    | .hang => .hang

/-- The code lengths of one prefix code (simple or normal), §3.7.2.1. -/
def readCodeLengthVector (alphabetSize : Nat) (br : BitReader) : R (Array Nat × BitReader) := do
  let (simple, br) ← br.readBits 1
  if simple = 1 then
    let (numSymbolsM1, br) ← br.readBits 1
    let (isFirst8Bits, br) ← br.readBits 1
    let (s0, br) ← br.readBits (1 + 7 * isFirst8Bits)
    -- The specification does not say what a symbol outside the alphabet means (only the
    -- 40-symbol distance alphabet can be exceeded).  libwebp silently ignores it, the Go
    -- port rejects the stream; the spec model rejects as well (a code word for a symbol
    -- that does not exist is not a code of this alphabet).
    if s0 ≥ alphabetSize then .err .codeSymbolRange
    else
      let lengths := (Array.replicate alphabetSize 0).setIfInBounds s0 1
      if numSymbolsM1 = 1 then
        let (s1, br) ← br.readBits 8
        if s1 ≥ alphabetSize then .err .codeSymbolRange
        else pure (lengths.setIfInBounds s1 1, br)   -- s1 = s0 is allowed: one symbol, zero bits
      else pure (lengths, br)
  else
    let (n, br) ← br.readBits 4
    let (clLengths, br) ← readCodeLengthCodeLengths (4 + n) 0 (Array.replicate numCodeLengthCodes 0) br
    let clCode ← buildCode clLengths
    readCodeLengths clCode alphabetSize br

/-- Read one prefix code for an alphabet of the given size. -/
def readCode (alphabetSize : Nat) (br : BitReader) : R (Code × BitReader) := do
  let (lengths, br) ← readCodeLengthVector alphabetSize br
  let c ← buildCode lengths
  pure (c, br)

/-! ### LZ77 prefix coding -/

/-- Value of a length / distance prefix symbol with its extra bits (§3.5.2.2). -/
def readPrefixValue (prefixCode : Nat) (br : BitReader) : R (Nat × BitReader) :=
  if prefixCode < 4 then .ok (prefixCode + 1, br)
  else
    let extraBits := (prefixCode - 2) >>> 1
    let offset := (2 + (prefixCode &&& 1)) <<< extraBits
    match br.readBits extraBits with
    | .ok (e, br) => .ok (offset + e + 1, br)
    | .err e => .err e
    | .panic => .panic
    | .hang => .hang

/-- The 120 (dx, dy) neighbourhood offsets of the short distance codes, as listed in the
    specification: distance code `i+1` denotes the pixel `dy` rows up and `dx` columns to
    the left (`dx` may be negative = to the right). -/
def distanceMap : Array (Int × Nat) := #[
  (0, 1),  (1, 0),  (1, 1),  (-1, 1), (0, 2),  (2, 0),  (1, 2),
  (-1, 2), (2, 1),  (-2, 1), (2, 2),  (-2, 2), (0, 3),  (3, 0),
  (1, 3),  (-1, 3), (3, 1),  (-3, 1), (2, 3),  (-2, 3), (3, 2),
  (-3, 2), (0, 4),  (4, 0),  (1, 4),  (-1, 4), (4, 1),  (-4, 1),
  (3, 3),  (-3, 3), (2, 4),  (-2, 4), (4, 2),  (-4, 2), (0, 5),
  (3, 4),  (-3, 4), (4, 3),  (-4, 3), (5, 0),  (1, 5),  (-1, 5),
  (5, 1),  (-5, 1), (2, 5),  (-2, 5), (5, 2),  (-5, 2), (4, 4),
  (-4, 4), (3, 5),  (-3, 5), (5, 3),  (-5, 3), (0, 6),  (6, 0),
  (1, 6),  (-1, 6), (6, 1),  (-6, 1), (2, 6),  (-2, 6), (6, 2),
  (-6, 2), (4, 5),  (-4, 5), (5, 4),  (-5, 4), (3, 6),  (-3, 6),
  (6, 3),  (-6, 3), (0, 7),  (7, 0),  (1, 7),  (-1, 7), (5, 5),
  (-5, 5), (7, 1),  (-7, 1), (4, 6),  (-4, 6), (6, 4),  (-6, 4),
  (2, 7),  (-2, 7), (7, 2),  (-7, 2), (3, 7),  (-3, 7), (7, 3),
  (-7, 3), (5, 6),  (-5, 6), (6, 5),  (-6, 5), (8, 0),  (4, 7),
  (-4, 7), (7, 4),  (-7, 4), (8, 1),  (8, 2),  (6, 6),  (-6, 6),
  (8, 3),  (5, 7),  (-5, 7), (7, 5),  (-7, 5), (8, 4),  (6, 7),
  (-6, 7), (7, 6),  (-7, 6), (8, 5),  (7, 7),  (-7, 7), (8, 6),
  (8, 7)]

/-- libwebp's packed form of the same table (`kCodeToPlane`): `dy = v >> 4`,
    `dx = 8 - (v & 15)`.  Kept only to cross-check `distanceMap` (see `distanceMap_eq_packed`). -/
def codeToPlane : Array Nat := #[
  0x18, 0x07, 0x17, 0x19, 0x28, 0x06, 0x27, 0x29, 0x16, 0x1a,
  0x26, 0x2a, 0x38, 0x05, 0x37, 0x39, 0x15, 0x1b, 0x36, 0x3a,
  0x25, 0x2b, 0x48, 0x04, 0x47, 0x49, 0x14, 0x1c, 0x35, 0x3b,
  0x46, 0x4a, 0x24, 0x2c, 0x58, 0x45, 0x4b, 0x34, 0x3c, 0x03,
  0x57, 0x59, 0x13, 0x1d, 0x56, 0x5a, 0x23, 0x2d, 0x44, 0x4c,
  0x55, 0x5b, 0x33, 0x3d, 0x68, 0x02, 0x67, 0x69, 0x12, 0x1e,
  0x66, 0x6a, 0x22, 0x2e, 0x54, 0x5c, 0x43, 0x4d, 0x65, 0x6b,
  0x32, 0x3e, 0x78, 0x01, 0x77, 0x79, 0x53, 0x5d, 0x11, 0x1f,
  0x64, 0x6c, 0x42, 0x4e, 0x76, 0x7a, 0x21, 0x2f, 0x75, 0x7b,
  0x31, 0x3f, 0x63, 0x6d, 0x52, 0x5e, 0x00, 0x74, 0x7c, 0x41,
  0x4f, 0x10, 0x20, 0x62, 0x6e, 0x30, 0x73, 0x7d, 0x51, 0x5f,
  0x40, 0x72, 0x7e, 0x61, 0x6f, 0x50, 0x71, 0x7f, 0x60, 0x70]

theorem distanceMap_eq_packed :
    distanceMap.toList = codeToPlane.toList.map (fun v => ((8 : Int) - ((v % 16 : Nat) : Int), v / 16)) := by
  decide +kernel

/-- Distance code → linear pixel distance for an image `xsize` pixels wide:
    codes above 120 are `code - 120`; the others are `dx + dy·xsize`, at least 1. -/
def planeCodeToDistance (xsize : Nat) (distCode : Nat) : Nat :=
  if distCode > 120 then distCode - 120
  else
    let (dx, dy) := distanceMap.getD (distCode - 1) (0, 0)
    let d : Int := dx + (dy * xsize : Nat)
    if d < 1 then 1 else d.toNat

end Webp.Spec.VP8L
