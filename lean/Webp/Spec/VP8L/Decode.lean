import Webp.Spec.VP8L.Prefix
import Webp.Spec.VP8L.Transform
/-
  Spec model of VP8L — part 4: colour cache, the LZ77 / cache pixel loop, the image-stream
  grammar (RFC 9649 §3.8) and the top-level `decode`.

    spatially-coded image = *transform  color-cache-info  meta-prefix  codes  pixels   (the ARGB image)
    entropy-coded image   =             color-cache-info               codes  pixels   (every sub-image)
-/
namespace Webp.Spec.VP8L
open Webp.Go (Res)

/-! ### colour cache -/

/-- `(0x1e35a7bd * argb) >> (32 - bits)` with a 32-bit product -/
@[inline] def cacheHash (bits : Nat) (argb : UInt32) : Nat :=
  ((0x1e35a7bd * argb) >>> (32 - bits).toUInt32).toNat

/-- a cache of `2^bits` entries, all zero; no cache (`bits = 0`) is the empty array -/
def cacheNew (bits : Nat) : Array UInt32 :=
  if bits = 0 then #[] else Array.replicate (1 <<< bits) 0

@[inline] def cacheInsert (bits : Nat) (cache : Array UInt32) (argb : UInt32) : Array UInt32 :=
  if bits = 0 then cache else cache.setIfInBounds (cacheHash bits argb) argb

/-! ### prefix-code groups -/

/-- the five prefix codes of one group, in stream order -/
structure Group where
  green : Code      -- literals 0..255, length prefixes 256..279, cache indices 280..
  red : Code
  blue : Code
  alpha : Code
  dist : Code
  deriving Repr, Inhabited

def numLiteralCodes : Nat := 256
def numLengthCodes : Nat := 24
def numDistanceCodes : Nat := 40

def greenAlphabetSize (cacheBits : Nat) : Nat :=
  numLiteralCodes + numLengthCodes + (if cacheBits = 0 then 0 else 1 <<< cacheBits)

def readGroup (cacheBits : Nat) (br : BitReader) : R (Group × BitReader) := do
  let (green, br) ← readCode (greenAlphabetSize cacheBits) br
  let (red, br) ← readCode 256 br
  let (blue, br) ← readCode 256 br
  let (alpha, br) ← readCode 256 br
  let (dist, br) ← readCode numDistanceCodes br
  pure ({ green, red, blue, alpha, dist }, br)

def readGroups (cacheBits : Nat) : (n : Nat) → Array Group → BitReader → R (Array Group × BitReader)
  | 0, acc, br => .ok (acc, br)
  | n + 1, acc, br =>
    match readGroup cacheBits br with
    | .ok (g, br) => readGroups cacheBits n (acc.push g) br
    | .err e => .err e
    | .panic => .panic
    | .hang => .hang

/-- Everything the pixel loop needs to know about one entropy-coded image. -/
structure EntropyParams where
  width : Nat
  height : Nat
  cacheBits : Nat
  /-- 0 = a single group for the whole image; otherwise the entropy image has one entry per
      `2^prefixBits`-square tile -/
  prefixBits : Nat := 0
  /-- group index per tile (already `(pixel >> 8) & 0xffff`), `⌈width/2^prefixBits⌉` per row -/
  entropy : Array Nat := #[]
  groups : Array Group
  deriving Inhabited

/-- group index for the pixel at `pos` -/
@[inline] def groupIndexAt (p : EntropyParams) (pos : Nat) : Nat :=
  if p.prefixBits = 0 then 0
  else
    let x := pos % p.width
    let y := pos / p.width
    p.entropy.getD ((y >>> p.prefixBits) * subSampleSize p.width p.prefixBits + (x >>> p.prefixBits)) 0

/-! ### tokens -/

/-- one step of the entropy-coded pixel stream -/
inductive Token where
  | literal (argb : UInt32)
  | copy (length dist : Nat)      -- `dist` is the linear pixel distance (≥ 1)
  | cache (index : Nat)
  deriving Repr, DecidableEq, Inhabited

/-- Read one token with the codes of group `g`; `xsize` is the image width (distance map). -/
def readToken (g : Group) (xsize : Nat) (br : BitReader) : R (Token × BitReader) := do
  let (s, br) ← readSymbol g.green br
  if s < numLiteralCodes then
    let (red, br) ← readSymbol g.red br
    let (blue, br) ← readSymbol g.blue br
    let (alpha, br) ← readSymbol g.alpha br
    pure (.literal (mkARGB alpha.toUInt32 red.toUInt32 s.toUInt32 blue.toUInt32), br)
  else if s < numLiteralCodes + numLengthCodes then
    let (length, br) ← readPrefixValue (s - numLiteralCodes) br
    let (ds, br) ← readSymbol g.dist br
    let (distCode, br) ← readPrefixValue ds br
    pure (.copy length (planeCodeToDistance xsize distCode), br)
  else
    pure (.cache (s - (numLiteralCodes + numLengthCodes)), br)

/-- copy `n` pixels from `dist` back, one at a time (so the regions may overlap);
    every copied pixel enters the colour cache -/
def copyLoop (cacheBits dist : Nat) : (n : Nat) → (out cache : Array UInt32) → Array UInt32 × Array UInt32
  | 0, out, cache => (out, cache)
  | n + 1, out, cache =>
    let px := out.getD (out.size - dist) 0
    copyLoop cacheBits dist n (out.push px) (cacheInsert cacheBits cache px)

/-- Execute a token on the pixels produced so far (`out`) for an image of `npix` pixels. -/
def execToken (npix cacheBits : Nat) (t : Token) (out cache : Array UInt32) :
    R (Array UInt32 × Array UInt32) :=
  match t with
  | .literal argb => .ok (out.push argb, cacheInsert cacheBits cache argb)
  | .copy length dist =>
    if out.size < dist then .err .copyBeforeStart
    else if npix - out.size < length then .err .copyPastEnd
    else .ok (copyLoop cacheBits dist length out cache)
  | .cache idx =>
    if h : idx < cache.size then
      let px := cache[idx]
      .ok (out.push px, cacheInsert cacheBits cache px)
    else .err .cacheIndex

/-- The pixel loop.  Every token yields at least one pixel, so `npix + 1` iterations suffice. -/
def decodePixelsLoop (p : EntropyParams) (npix : Nat) :
    (fuel : Nat) → (out cache : Array UInt32) → BitReader → R (Array UInt32 × BitReader)
  | 0, _, _, _ => .hang
  | fuel + 1, out, cache, br =>
    if out.size ≥ npix then .ok (out, br)
    else
      let gi := groupIndexAt p out.size
      if h : gi < p.groups.size then
        match readToken p.groups[gi] p.width br with
        | .ok (t, br) =>
          match execToken npix p.cacheBits t out cache with
          | .ok (out, cache) => decodePixelsLoop p npix fuel out cache br
          | .err e => .err e
          | .panic => .panic
          | .hang => .hang
        | .err e => .err e
        | .panic => .panic
        | .hang => .hang
      else .err .groupIndex

/-- Decode the `width × height` pixels of an entropy-coded image.
    (The capacity hint is capped so that a header announcing 2^28 pixels in front of a few
    bytes of data does not reserve memory; it has no effect on the result.) -/
def decodePixels (p : EntropyParams) (br : BitReader) : R (Array UInt32 × BitReader) :=
  let npix := p.width * p.height
  decodePixelsLoop p npix (npix + 1) (Array.emptyWithCapacity (min npix (1 <<< 22)))
    (cacheNew p.cacheBits) br

/-! ### image streams -/

/-- `color-cache-info`: 0 = no cache, else 1..11 -/
def readColorCacheInfo (br : BitReader) : R (Nat × BitReader) := do
  let (present, br) ← br.readBits 1
  if present = 1 then
    let (bits, br) ← br.readBits 4
    if bits < 1 ∨ bits > 11 then .err .badCacheBits else pure (bits, br)
  else pure (0, br)

/-- An entropy-coded image (transform data, colour map, entropy image): one group, no meta codes. -/
def readEntropyCodedImage (w h : Nat) (br : BitReader) : R (Array UInt32 × BitReader) := do
  let (cacheBits, br) ← readColorCacheInfo br
  let (g, br) ← readGroup cacheBits br
  decodePixels { width := w, height := h, cacheBits, groups := #[g] } br

/-- A transform as read from the stream, with its decoded data. -/
inductive Transform where
  | predictor (bits : Nat) (modes : Array UInt32)
  | crossColor (bits : Nat) (elems : Array UInt32)
  | subtractGreen
  | colorIndexing (palette : Array UInt32)      -- already delta-decoded
  deriving Repr, Inhabited

def Transform.kind : Transform → Nat
  | .predictor .. => 0 | .crossColor .. => 1 | .subtractGreen => 2 | .colorIndexing .. => 3

/-- Read the data of a transform of type `ty` (2 bits) for an image that is currently `w × h`;
    returns the width of the image that follows it in the stream (smaller after a packing
    colour-indexing transform). -/
def readTransformData (ty w h : Nat) (br : BitReader) : R (Transform × Nat × BitReader) := do
  match ty with
  | 0 =>
    let (b, br) ← br.readBits 3
    let bits := b + 2
    let (modes, br) ← readEntropyCodedImage (subSampleSize w bits) (subSampleSize h bits) br
    pure (.predictor bits modes, w, br)
  | 1 =>
    let (b, br) ← br.readBits 3
    let bits := b + 2
    let (elems, br) ← readEntropyCodedImage (subSampleSize w bits) (subSampleSize h bits) br
    pure (.crossColor bits elems, w, br)
  | 2 => pure (.subtractGreen, w, br)
  | _ =>
    let (n, br) ← br.readBits 8
    let numColors := n + 1
    let (coded, br) ← readEntropyCodedImage numColors 1 br
    pure (.colorIndexing (deltaDecodePalette coded), packedWidth w numColors, br)

/-- `*transform`: each type at most once, so at most four (the fifth round can only end the
    list or fail); `ts` holds (transform, width of the image it produces when inverted) in
    stream order. -/
def readTransforms (h : Nat) : (fuel : Nat) → (w : Nat) → (ts : Array (Transform × Nat)) → BitReader →
    R (Array (Transform × Nat) × Nat × BitReader)
  | 0, _, _, _ => .hang
  | fuel + 1, w, ts, br =>
    match br.readBits 1 with
    | .ok (present, br) =>
      if present = 0 then .ok (ts, w, br)
      else
        match br.readBits 2 with
        | .ok (ty, br) =>
          if ts.any (fun p => p.1.kind = ty) then .err .dupTransform
          else
            match readTransformData ty w h br with
            | .ok (t, w', br) => readTransforms h fuel w' (ts.push (t, w)) br
            | .err e => .err e
            | .panic => .panic
            | .hang => .hang
        | .err e => .err e
        | .panic => .panic
        | .hang => .hang
    | .err e => .err e
    | .panic => .panic
    | .hang => .hang

/-- `meta-prefix` + codes for the ARGB image (`w × h` after the transforms). -/
def readMetaPrefix (w h cacheBits : Nat) (br : BitReader) : R (EntropyParams × BitReader) := do
  let (present, br) ← br.readBits 1
  if present = 1 then
    let (b, br) ← br.readBits 3
    let prefixBits := b + 2
    let (img, br) ← readEntropyCodedImage (subSampleSize w prefixBits) (subSampleSize h prefixBits) br
    let entropy : Array Nat := img.map (fun (px : UInt32) => ((px >>> 8) &&& 0xffff).toNat)
    let numGroups := entropy.foldl max 0 + 1
    let (groups, br) ← readGroups cacheBits numGroups (Array.emptyWithCapacity numGroups) br
    pure ({ width := w, height := h, cacheBits, prefixBits, entropy, groups }, br)
  else
    let (g, br) ← readGroup cacheBits br
    pure ({ width := w, height := h, cacheBits, groups := #[g] }, br)

/-- Undo one transform; `w` is the width of the image it produces. -/
def applyInverse (h : Nat) (t : Transform) (w : Nat) (px : Array UInt32) : Array UInt32 :=
  match t with
  | .predictor bits modes => inversePredictor w h bits modes px
  | .crossColor bits elems => inverseCrossColor w h bits elems px
  | .subtractGreen => inverseSubtractGreen px
  | .colorIndexing palette => inverseColorIndexing w h palette px

/-- Undo all transforms, last read first. -/
def applyInverseTransforms (h : Nat) (ts : Array (Transform × Nat)) (px : Array UInt32) : Array UInt32 :=
  ts.foldr (fun (t, w) px => applyInverse h t w px) px

/-! ### top level -/

structure Header where
  width : Nat
  height : Nat
  hasAlpha : Bool
  deriving Repr, DecidableEq, Inhabited

/-- signature 0x2f, 14-bit width-1, 14-bit height-1, alpha_is_used, 3-bit version (= 0) -/
def readHeader (data : ByteArray) : R (Header × BitReader) :=
  let br : BitReader := { data }
  let hdr : R (Header × BitReader) := do
    let (sig, br) ← br.readBits 8
    if sig ≠ 0x2f then .err .badSignature
    else
      let (w, br) ← br.readBits 14
      let (h, br) ← br.readBits 14
      let (a, br) ← br.readBits 1
      let (v, br) ← br.readBits 3
      if v ≠ 0 then .err .badVersion
      else pure ({ width := w + 1, height := h + 1, hasAlpha := a = 1 }, br)
  match hdr with
  | .err .eos => .err .eosHeader
  | r => r

structure Image where
  width : Nat
  height : Nat
  hasAlpha : Bool
  pixels : Array UInt32     -- ARGB 0xAARRGGBB, row-major, `width * height` entries
  deriving Repr, Inhabited

/-- What a stream is made of (for reports and classification). -/
structure StreamInfo where
  header : Header
  transforms : Array (Transform × Nat)
  params : EntropyParams
  deriving Inhabited

/-- Parse the whole stream: header, transforms, entropy parameters, transformed pixels. -/
def decodeStream (data : ByteArray) : R (StreamInfo × Array UInt32 × BitReader) := do
  let (hdr, br) ← readHeader data
  let (ts, w, br) ← readTransforms hdr.height 5 hdr.width (Array.emptyWithCapacity 4) br
  let (cacheBits, br) ← readColorCacheInfo br
  let (params, br) ← readMetaPrefix w hdr.height cacheBits br
  let (px, br) ← decodePixels params br
  pure ({ header := hdr, transforms := ts, params }, px, br)

/-- The pixels the format defines for a VP8L payload (trailing bytes are ignored). -/
def decode (data : ByteArray) : R Image := do
  let (info, px, _) ← decodeStream data
  pure { width := info.header.width, height := info.header.height, hasAlpha := info.header.hasAlpha,
         pixels := applyInverseTransforms info.header.height info.transforms px }

end Webp.Spec.VP8L
