import Webp.Spec.VP8L.Decode
/-
  Kernel-evaluated samples of the VP8L spec model (tests, not theorems): they pin the
  arithmetic conventions of the component functions.
-/
namespace Webp.Spec.VP8L.Examples
open Webp.Spec.VP8L Webp.Go

-- ColorTransformDelta is an arithmetic shift of the signed product
example : colorTransformDelta 0xff 0x01 = -1 := by decide +kernel
example : colorTransformDelta 0x80 0x80 = 512 := by decide +kernel
-- ClampAddSubtractHalf divides toward zero: 3 + (3 - 4) / 2 = 3
example : clampAddSubtractHalf 0x00000003 0x00000004 = 0x00000003 := by decide +kernel
example : clampAddSubtractHalf 0x00000000 0x000000ff = 0 := by decide +kernel
-- Select returns L only when the estimate is strictly closer to L
example : select 0x01000000 0x02000000 0x02000000 = 0x01000000 := by decide +kernel
example : select 0x01000000 0x02000000 0x00000000 = 0x02000000 := by decide +kernel
-- distance map: code 1 = pixel above, code 2 = previous pixel, code 4 = (-1, 1); never below 1
example : planeCodeToDistance 10 1 = 10 := by decide +kernel
example : planeCodeToDistance 10 2 = 1 := by decide +kernel
example : planeCodeToDistance 10 4 = 9 := by decide +kernel
example : planeCodeToDistance 1 4 = 1 := by decide +kernel
example : planeCodeToDistance 3 121 = 1 := by decide +kernel
-- prefix-code validity
example : (buildCode #[1, 1]).isOk = true := by decide +kernel
example : buildCode #[1, 2] = .err .codeIncomplete := by decide +kernel
example : buildCode #[1, 1, 1] = .err .codeOversubscribed := by decide +kernel
example : (buildCode #[0, 7, 0]).isOk = true := by decide +kernel          -- one symbol, any length
example : buildCode #[0, 0] = .err .codeEmpty := by decide +kernel
-- colour-cache hash
example : cacheHash 4 0xff000000 = 4 := by decide +kernel

/-
  Whole-stream samples (checked through the compiled driver by suite `vp8l`; they also reduce
  in the kernel with `decide +kernel`, but take minutes, so they are not part of the build):

    decode 2f 00 00 00 00 88 88 58 00        = ok 1×1, pixels #[0x00000000]
        (five simple codes: four one-symbol codes and the distance code {0, 1})
    decode 2f 00 00 00 00 88 88 58           = err eos
        (the last, all-zero byte is missing; the Go decoder zero-pads inputs of ≤ 8 bytes and accepts)
    decode 2f 04 80 00 10 07 d0 d7 26 d4 bc ff 91 88 88 fe 07 22 22 02
                                             = ok 5×3, 15 × 0xff09afe6
        (encoder output for a flat image, Quality 100 Method 6: colour indexing with 8 pixels per
         coded pixel followed by a predictor — /repo before c1fa12f returned 8 transparent pixels)
-/

end Webp.Spec.VP8L.Examples
