import Webp.Go.Basic
/-
  Spec model: the byte layout of a VP8 key frame (RFC 6386 §9.1 frame tag / start code /
  dimensions and §9.5 token-partition table) on byte *lists*.  It is the list-based twin of
  `Webp.Spec.VP8.parseFrameTag` + `Webp.Spec.VP8.partitionBounds` (which work on `ByteArray`
  and read the partition count from the arithmetic-coded first partition); here the number of
  token partitions is a parameter, and the result are the byte ranges themselves.
-/
namespace Webp.Spec.VP8Layout
open Webp.Go

structure Layout where
  width : Nat
  height : Nat
  xScale : Nat
  yScale : Nat
  part0 : Bytes
  parts : List Bytes
  deriving Repr, DecidableEq, Inhabited

/-- read `n` three-byte sizes from `table` and cut `data` accordingly; what is left is the last
    partition -/
def cutParts : Nat → Bytes → Bytes → Option (List Bytes)
  | 0, _, data => some [data]
  | n + 1, table, data =>
    if table.length < 3 then none
    else
      let sz := le24 table 0
      if sz > data.length then none
      else (cutParts n (table.drop 3) (data.drop sz)).map fun r => data.take sz :: r

/-- frame tag, start code, dimensions, first partition, partition table, token partitions -/
def splitFrame (numParts : Nat) (b : Bytes) : Option Layout :=
  if b.length < 10 then none
  else
    let tag := le24 b 0
    if tag % 2 ≠ 0 then none                      -- not a key frame
    else if tag / 2 % 8 > 3 then none             -- version
    else if tag / 16 % 2 ≠ 1 then none            -- show_frame
    else if byteAt b 3 ≠ 0x9d ∨ byteAt b 4 ≠ 0x01 ∨ byteAt b 5 ≠ 0x2a then none
    else
      let p0 := tag / 32
      let w := le16 b 6
      let h := le16 b 8
      if w % 16384 = 0 ∨ h % 16384 = 0 then none
      else if numParts = 0 then none
      else if 10 + p0 + 3 * (numParts - 1) > b.length then none
      else
        let rest := b.drop (10 + p0)
        (cutParts (numParts - 1) (rest.take (3 * (numParts - 1))) (rest.drop (3 * (numParts - 1)))).map
          fun parts => { width := w % 16384, height := h % 16384, xScale := w / 16384,
                         yScale := h / 16384, part0 := (b.drop 10).take p0, parts }

end Webp.Spec.VP8Layout
