/-
  Specification of animated-WebP playback (canvas reconstruction), written from the rule in
  the WebP container specification ("Assembling the canvas from frames") — property C09:

    start from a transparent canvas; for each frame: when the *previous* frame asked for
    dispose-to-background, clear that frame's rectangle (clipped to the canvas); then, for every
    pixel of the frame's rectangle clipped to the canvas, overwrite it (blend method "none") or
    alpha-blend the frame's pixel over it (blend method "alpha") with the non-premultiplied
    blend formula; the canvas after each frame is the picture of that frame.

  Nothing here mentions key frames, two buffers or loops over clipped rectangles — those are
  implementation devices (`Webp.Impl.AnimDec`).  Core Lean only.
-/
namespace Webp.Spec.Anim

/-- one non-premultiplied RGBA pixel (`color.NRGBA`) -/
structure Px where
  r : UInt8
  g : UInt8
  b : UInt8
  a : UInt8
  deriving DecidableEq, Repr, Inhabited

/-- transparent black, the container's "transparent" -/
def Px.zero : Px := ⟨0, 0, 0, 0⟩

/-- a canvas of `w*h` pixels, row-major -/
abbrev Canvas := Array Px

/-- pixel `i` of a canvas (`Px.zero` beyond the end; never used beyond the end) -/
@[inline] def Canvas.px (c : Canvas) (i : Nat) : Px := c.getD i Px.zero

/-- One animation frame: an `fw × fh` picture placed with its top-left corner at
    `(offX, offY)` on the canvas.  Offsets are integers: a file can only express
    non-negative even offsets, but a programmatically built `Animation` can hold any Go `int`. -/
structure Frame where
  offX : Int
  offY : Int
  fw : Nat
  fh : Nat
  /-- `fw*fh` pixels, row-major -/
  px : Array Px
  /-- blend method: `true` = do not blend (overwrite), `false` = alpha-blend -/
  blendNone : Bool
  /-- dispose method: `true` = dispose to background after this frame was shown -/
  disposeBG : Bool
  /-- the bit-stream level "has alpha" flag (not used by the specification of playback) -/
  hasAlpha : Bool
  deriving DecidableEq, Repr, Inhabited

/-- pixel `(sx, sy)` of the frame's own picture -/
@[inline] def Frame.at (f : Frame) (sx sy : Nat) : Px := f.px.getD (sy * f.fw + sx) Px.zero

/-- canvas position `(x, y)` lies in the frame's rectangle -/
@[inline] def Frame.covers (f : Frame) (x y : Nat) : Bool :=
  decide (f.offX ≤ (x : Int)) && decide ((x : Int) < f.offX + f.fw) &&
  decide (f.offY ≤ (y : Int)) && decide ((y : Int) < f.offY + f.fh)

/-! ### Blend arithmetic -/

/-- libwebp `BlendChannelNonPremult`: `(src_c*src_a + dst_c*dst_factor_a) * scale >> 24`,
    returned as `uint8_t` -/
@[inline] def blendChannel (sc sa dc dfa scale : Nat) : UInt8 :=
  UInt8.ofNat (((sc * sa + dc * dfa) * scale) >>> 24)

/-- The integer formula of libwebp `BlendPixelNonPremult` (src/demux/anim_decode.c) for
    `0 < src.a`: `dst_factor_a = (dst_a*(256-src_a)) >> 8`, `blend_a = src_a + dst_factor_a`,
    `scale = (1<<24)/blend_a`, `c = (src_c*src_a + dst_c*dst_factor_a)*scale >> 24`. -/
def blendFormula (s d : Px) : Px :=
  let sa := s.a.toNat
  let dfa := (d.a.toNat * (256 - sa)) >>> 8
  let ba := sa + dfa
  let scale := (1 <<< 24) / ba
  ⟨blendChannel s.r.toNat sa d.r.toNat dfa scale,
   blendChannel s.g.toNat sa d.g.toNat dfa scale,
   blendChannel s.b.toNat sa d.b.toNat dfa scale,
   UInt8.ofNat ba⟩

/-- libwebp exactly as coded: `BlendPixelRowNonPremult` skips opaque source pixels
    (`src_alpha != 0xff`), `BlendPixelNonPremult` returns `dst` for `src_a == 0` and the integer
    formula otherwise.  There is **no** `dst_a == 0` case in the C code. -/
def blendLibwebp (s d : Px) : Px :=
  if s.a = 255 then s
  else if s.a = 0 then d
  else blendFormula s d

/-- The blend of the specification of playback.  The container specification defines
    `blend.A = src.A + dst.A·(1 − src.A/255)`,
    `blend.RGB = (src.RGB·src.A + dst.RGB·dst.A·(1 − src.A/255)) / blend.A` over the reals.
    Where this is exact it is taken exactly: `src.A = 0 ↦ dst`, `src.A = 255 ↦ src`,
    `dst.A = 0 ↦ src` (then `blend.A = src.A`, `blend.RGB = src.RGB·src.A/src.A`); everywhere else
    the value is libwebp's integer approximation `blendFormula`.
    The third case is where this differs from `blendLibwebp` (theorems in `Props/C09.lean`):
    it is forced by the property itself — "treating some frames as key frames never changes a
    result" needs `blend s transparent = s`. -/
def blend (s d : Px) : Px :=
  if s.a = 0 then d
  else if s.a = 255 then s
  else if d.a = 0 then s
  else blendFormula s d

/-! ### Playback -/

/-- the fully transparent canvas -/
def transparent (w h : Nat) : Canvas := Array.replicate (w * h) Px.zero

/-- clear the rectangle of `p` (clipped to the canvas: only canvas positions are visited) -/
def disposeRect (w h : Nat) (p : Frame) (c : Canvas) : Canvas :=
  Array.ofFn (n := w * h) fun i =>
    if p.covers (i.val % w) (i.val / w) then Px.zero else c.px i.val

/-- render frame `f` over canvas `c` with blend function `bl` -/
def draw (bl : Px → Px → Px) (w h : Nat) (f : Frame) (c : Canvas) : Canvas :=
  Array.ofFn (n := w * h) fun i =>
    let x := i.val % w
    let y := i.val / w
    if f.covers x y then
      let s := f.at ((x : Int) - f.offX).toNat ((y : Int) - f.offY).toNat
      if f.blendNone then s else bl s (c.px i.val)
    else c.px i.val

/-- dispose step before rendering the next frame -/
def disposePrev (w h : Nat) (prev : Option Frame) (c : Canvas) : Canvas :=
  match prev with
  | some p => if p.disposeBG then disposeRect w h p c else c
  | none => c

/-- playback from canvas `c` whose last rendered frame was `prev` -/
def playFrom (bl : Px → Px → Px) (w h : Nat) : Canvas → Option Frame → List Frame → List Canvas
  | _, _, [] => []
  | c, prev, f :: fs =>
    let c' := draw bl w h f (disposePrev w h prev c)
    c' :: playFrom bl w h c' (some f) fs

/-- the pictures of all frames, for an arbitrary blend function -/
def playWith (bl : Px → Px → Px) (w h : Nat) (frames : List Frame) : List Canvas :=
  playFrom bl w h (transparent w h) none frames

/-- **the specification**: the picture of every frame of the animation -/
def play (w h : Nat) (frames : List Frame) : List Canvas := playWith blend w h frames

end Webp.Spec.Anim
