/-
  An idealised VP8 boolean (arithmetic) coder over unbounded naturals (RFC 6386 §7 with the
  registers made infinitely wide).  Core Lean only.

  * The encoder keeps the interval `[low, low + range)` at scale `2^k` (`k` = number of doublings
    so far): `range` is the true width, `128 ≤ range ≤ 255` between symbols (it starts at 255),
    `low` has `k + 8` significant bits.
        split = 1 + (((range − 1) · prob) >> 8)             prob/256 ≈ probability of a 0
        bit 0 :  range := split
        bit 1 :  low := low + split,  range := range − split
        renormalise: double `low` and `range` (and count it in `k`) until `range ≥ 128`
    The code number of a symbol sequence is the final `low` (any number of the final interval
    decodes to the same symbols: `Webp.Proofs.BoolIdeal.decode_of_mem_final`).
  * The decoder owns the whole code number `val` (minus what it has subtracted so far) and an
    exponent `e`: the interval's unit has weight `2^e` in `val`.
        big = split · 2^e;   val ≥ big →  bit 1, val := val − big, range := range − split
                             otherwise →  bit 0, range := split
        renormalise: double `range` and decrement `e` until `range ≥ 128`
-/
namespace Webp.Spec.VP8.BoolIdeal

/-- the split point of an interval of width `range` for a zero-probability of `prob/256` -/
def split (range prob : Nat) : Nat := 1 + (((range - 1) * prob) >>> 8)

/-- number of doublings that bring a width `1 ≤ r ≤ 255` into `128 ..= 255` -/
def normShift (r : Nat) : Nat :=
  if r ≥ 128 then 0 else if r ≥ 64 then 1 else if r ≥ 32 then 2 else if r ≥ 16 then 3
  else if r ≥ 8 then 4 else if r ≥ 4 then 5 else if r ≥ 2 then 6 else 7

/-- encoder state -/
structure Enc where
  low : Nat := 0
  range : Nat := 255
  k : Nat := 0
  deriving Repr, DecidableEq, Inhabited

/-- encode one symbol -/
def Enc.put (s : Enc) (bit : Bool) (prob : Nat) : Enc :=
  let sp := split s.range prob
  let low := if bit then s.low + sp else s.low
  let r := if bit then s.range - sp else sp
  let sh := normShift r
  { low := low * 2 ^ sh, range := r * 2 ^ sh, k := s.k + sh }

/-- encode a sequence of `(bit, prob)` from a state -/
def Enc.putAll (s : Enc) (ps : List (Bool × Nat)) : Enc := ps.foldl (fun s p => s.put p.1 p.2) s

/-- a code number with `k + 8` significant bits -/
structure Code where
  value : Nat
  k : Nat
  deriving Repr, DecidableEq, Inhabited

/-- the code number of a symbol sequence: the lower end of the final interval -/
def idealEncode (ps : List (Bool × Nat)) : Code :=
  let s := Enc.putAll {} ps
  { value := s.low, k := s.k }

/-- decoder state -/
structure Dec where
  val : Nat
  range : Nat := 255
  e : Nat
  deriving Repr, DecidableEq, Inhabited

/-- decode one symbol -/
def Dec.get (d : Dec) (prob : Nat) : Bool × Dec :=
  let sp := split d.range prob
  let big := sp * 2 ^ d.e
  let bit := decide (big ≤ d.val)
  let val := if bit then d.val - big else d.val
  let r := if bit then d.range - sp else sp
  let sh := normShift r
  (bit, { val, range := r * 2 ^ sh, e := d.e - sh })

/-- decode one symbol per probability -/
def Dec.run (d : Dec) : List Nat → List Bool
  | [] => []
  | p :: ps => (d.get p).1 :: (d.get p).2.run ps

/-- the decoder over a code number -/
def idealDecode (c : Code) (probs : List Nat) : List Bool :=
  Dec.run { val := c.value, range := 255, e := c.k } probs

end Webp.Spec.VP8.BoolIdeal
