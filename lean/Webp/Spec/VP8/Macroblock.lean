import Webp.Spec.VP8.Header
/-
  Spec model of the VP8 key-frame decoder — part 3: what is read per macroblock.

  * from the first partition (§19.3): segment id (§9.3/§10), `mb_skip_coeff` (§11.1), the luma
    mode (§11.2), for `B_PRED` the sixteen sub-block modes with their contexts (§11.3–11.5), the
    chroma mode;
  * from the macroblock row's token partition (§13): the DCT/WHT coefficient tokens of up to 25
    blocks.

  Mode numbering is the RFC's:
    luma/chroma  DC_PRED 0, V_PRED 1, H_PRED 2, TM_PRED 3, B_PRED 4
    sub-block    B_DC 0, B_TM 1, B_VE 2, B_HE 3, B_LD 4, B_RD 5, B_VR 6, B_VL 7, B_HD 8, B_HU 9
-/
namespace Webp.Spec.VP8
open Webp.Go (Res)

def DC_PRED : Nat := 0
def V_PRED : Nat := 1
def H_PRED : Nat := 2
def TM_PRED : Nat := 3
def B_PRED : Nat := 4

def B_DC_PRED : Nat := 0
def B_TM_PRED : Nat := 1
def B_VE_PRED : Nat := 2
def B_HE_PRED : Nat := 3
def B_LD_PRED : Nat := 4
def B_RD_PRED : Nat := 5
def B_VR_PRED : Nat := 6
def B_VL_PRED : Nat := 7
def B_HD_PRED : Nat := 8
def B_HU_PRED : Nat := 9

/-! ### trees (RFC 6386 §8.1 notation: pairs of entries, `≤ 0` = leaf `-value`) -/

/-- `mb_segment_tree` (§9.3) -/
def segmentTree : Array Int := #[2, 4, 0, -1, -2, -3]
/-- `kf_ymode_tree` (§11.2) -/
def kfYModeTree : Array Int := #[-4, 2, 4, 6, 0, -1, -2, -3]
/-- `uv_mode_tree` (§11.2) -/
def uvModeTree : Array Int := #[0, 2, -1, 4, -2, -3]
/-- `bmode_tree` (§11.2) -/
def bModeTree : Array Int :=
  #[0, 2,            -- B_DC_PRED = "0"
    -1, 4,           -- B_TM_PRED = "10"
    -2, 6,           -- B_VE_PRED = "110"
    8, 12,
    -3, 10,          -- B_HE_PRED = "11100"
    -5, -6,          -- B_RD_PRED = "111010", B_VR_PRED = "111011"
    -4, 14,          -- B_LD_PRED = "111101"
    -7, 16,          -- B_VL_PRED = "1111100"
    -8, -9]          -- B_HD_PRED = "11111010", B_HU_PRED = "11111011"

/-- token numbers: DCT_0 … DCT_4 = 0 … 4, dct_cat1 … dct_cat6 = 5 … 10, dct_eob = 11 -/
def DCT_EOB : Nat := 11
/-- `coeff_tree` (§13.2) -/
def coeffTree : Array Int :=
  #[-11, 2,          -- dct_eob = "0"
    0, 4,            -- DCT_0   = "10"
    -1, 6,           -- DCT_1   = "110"
    8, 12,
    -2, 10,          -- DCT_2   = "11100"
    -3, -4,          -- DCT_3   = "111010", DCT_4 = "111011"
    14, 16,
    -5, -6,          -- cat1 = "111100", cat2 = "111101"
    18, 20,
    -7, -8,          -- cat3 = "1111100", cat4 = "1111101"
    -9, -10]         -- cat5 = "1111110", cat6 = "1111111"

/-- the sub-block mode a non-`B_PRED` macroblock stands for in its neighbours' contexts (§11.3) -/
def impliedBMode (ymode : Nat) : Nat :=
  if ymode = V_PRED then B_VE_PRED
  else if ymode = H_PRED then B_HE_PRED
  else if ymode = TM_PRED then B_TM_PRED
  else B_DC_PRED

/-- What the first partition says about one macroblock, plus what token decoding found. -/
structure MBInfo where
  segment : Nat := 0
  /-- `mb_skip_coeff` (false when the frame has `mb_no_coeff_skip = 0`) -/
  skip : Bool := false
  ymode : Nat := 0
  /-- the 16 sub-block modes, raster order; the implied ones when `ymode ≠ B_PRED` -/
  bmodes : Array Nat := Array.replicate 16 0
  uvmode : Nat := 0
  /-- bit `i` set ⇔ block `i` (0–15 Y, 16–19 U, 20–23 V, 24 Y2) has at least one token before its
      end-of-block, i.e. `eob > first` -/
  coded : Nat := 0
  /-- per block: position after the last token read (0 for blocks not read) -/
  eobs : Array Nat := Array.replicate 25 0
  /-- some `value × factor` product did not fit 16 bits (diagnostic) -/
  overflow : Bool := false
  deriving Inhabited, Repr

@[inline] def MBInfo.hasY2 (m : MBInfo) : Bool := m.ymode ≠ B_PRED

/-- intra-mode contexts: the sub-block modes along the bottom edge of the macroblock row above
    (4 per macroblock column) and along the right edge of the macroblock to the left; `B_DC_PRED`
    outside the frame -/
structure ModeCtx where
  above : Array Nat
  left : Array Nat := #[0, 0, 0, 0]

/-- §19.3 `macroblock_header()` for a key frame -/
def readMBHeader (h : FrameHdr) (mbX : Nat) (ctx : ModeCtx) (d : BoolDec) : MBInfo × ModeCtx × BoolDec := Id.run do
  let mut d := d
  let mut segment := 0
  if h.seg.updateMap then
    let (s, d1) := BoolDec.readTree segmentTree (fun i => h.seg.treeProbs.getD i 255) d
    segment := s
    d := d1
  let mut skip := false
  if h.skipEnabled then
    let (s, d1) := d.readBool h.probSkipFalse
    skip := s
    d := d1
  let (ymode, d1) := BoolDec.readTree kfYModeTree (fun i => Tables.kfYModeProbs.getD i 128) d
  d := d1
  let mut above := ctx.above
  let mut left := ctx.left
  let mut bmodes : Array Nat := Array.replicate 16 (impliedBMode ymode)
  if ymode = B_PRED then
    for by' in [0:4] do
      for bx in [0:4] do
        let a := above.getD (4 * mbX + bx) 0
        let l := left.getD by' 0
        let (m, d2) := BoolDec.readTree bModeTree (fun i => Tables.kfBModeProbs.getD ((a * 10 + l) * 9 + i) 128) d
        d := d2
        bmodes := bmodes.setIfInBounds (4 * by' + bx) m
        above := above.setIfInBounds (4 * mbX + bx) m
        left := left.setIfInBounds by' m
  else
    let m := impliedBMode ymode
    for k in [0:4] do
      above := above.setIfInBounds (4 * mbX + k) m
      left := left.setIfInBounds k m
  let (uvmode, d2) := BoolDec.readTree uvModeTree (fun i => Tables.kfUVModeProbs.getD i 128) d
  return ({ segment, skip, ymode, bmodes, uvmode }, { above, left }, d2)

/-! ### coefficient tokens (§13) -/

/-- 16-bit two's-complement wrap: dequantised coefficients are stored as 16-bit signed integers
    (§14.1 "computed and stored using 16-bit signed integers") -/
@[inline] def wrap16 (x : Int) : Int := (x + 32768) % 65536 - 32768

/-- extra bits of a value category, most significant first -/
def readExtra (probs : Array Nat) (d : BoolDec) : Nat × BoolDec := Id.run do
  let mut v := 0
  let mut d := d
  for p in probs do
    let (b, d1) := d.readBool p
    v := 2 * v + (if b then 1 else 0)
    d := d1
  return (v, d)

/-- magnitude of a token other than `dct_eob` (§13.2: `DCT_0…4` literal, cat1 5–6, cat2 7–10,
    cat3 11–18, cat4 19–34, cat5 35–66, cat6 67–2114) -/
def tokenMagnitude (tok : Nat) (d : BoolDec) : Nat × BoolDec :=
  if tok ≤ 4 then (tok, d)
  else
    let (base, probs) :=
      if tok = 5 then (5, Tables.pcat1) else if tok = 6 then (7, Tables.pcat2)
      else if tok = 7 then (11, Tables.pcat3) else if tok = 8 then (19, Tables.pcat4)
      else if tok = 9 then (35, Tables.pcat5) else (67, Tables.pcat6)
    let (e, d) := readExtra probs d
    (base + e, d)

/-- Tokens of one block of type `t` (0 Y after Y2, 1 Y2, 2 chroma, 3 Y with DC) whose first
    coded position is `first` and whose neighbour context is `ctx0`; `dcQ`/`acQ` are the
    dequantisation factors.  Writes the dequantised coefficients into `coeffs[base + raster]` and
    returns the end-of-block position (`first` if the block is empty, 16 if no `dct_eob` was read).

    After a `DCT_0` token no end-of-block can follow: the next token is read from the second tree
    node on.  The context of position `i+1` is 0, 1 or 2 for a token at `i` of magnitude 0, 1, >1. -/
def readBlock (probs : Array Nat) (t first ctx0 : Nat) (dcQ acQ : Int) (base : Nat)
    (coeffs : Array Int) (d : BoolDec) : Nat × Array Int × Bool × BoolDec :=
  go 16 first ctx0 false coeffs false d
where
  go : Nat → Nat → Nat → Bool → Array Int → Bool → BoolDec → Nat × Array Int × Bool × BoolDec
  | 0, i, _, _, coeffs, ovf, d => (i, coeffs, ovf, d)
  | fuel + 1, i, ctx, afterZero, coeffs, ovf, d =>
    if i ≥ 16 then (16, coeffs, ovf, d) else
    let band := Tables.coeffBands.getD i 0
    let pbase := ((t * 8 + band) * 3 + ctx) * 11
    let (tok, d) := BoolDec.readTree coeffTree (fun n => probs.getD (pbase + n) 128) d (if afterZero then 2 else 0)
    if tok = DCT_EOB then (i, coeffs, ovf, d)
    else if tok = 0 then go fuel (i + 1) 0 true coeffs ovf d
    else
      let (mag, d) := tokenMagnitude tok d
      let (neg, d) := d.readBool 128
      let v : Int := if neg then - (Int.ofNat mag) else Int.ofNat mag
      let q := if i = 0 then dcQ else acQ
      let coeffs := coeffs.setIfInBounds (base + Tables.zigzag.getD i 0) (wrap16 (v * q))
      go fuel (i + 1) (if mag = 1 then 1 else 2) false coeffs (ovf || wrap16 (v * q) ≠ v * q) d

/-- "has coefficients" contexts of the blocks along the bottom edge of the macroblock row above
    (9 per macroblock column: 4 Y, 2 U, 2 V, 1 Y2) and along the right edge of the macroblock to
    the left (same 9); all 0 outside the frame -/
structure CoeffCtx where
  above : Array Nat
  left : Array Nat := Array.replicate 9 0

/-- dequantisation factors of one segment: `(dc, ac)` for Y, Y2 and chroma (§14.1) -/
structure DequantFactors where
  y1dc : Int
  y1ac : Int
  y2dc : Int
  y2ac : Int
  uvdc : Int
  uvac : Int
  deriving Repr, Inhabited, DecidableEq

/-- §13 `residual_data()`: the blocks of one macroblock in stream order (Y2 if the macroblock has
    one, 16 Y, 4 U, 4 V); returns the 25·16 dequantised coefficients (Y2 in block 24), the updated
    macroblock record and contexts.  For a macroblock with `mb_skip_coeff` nothing is read and
    the contexts are cleared — except the Y2 context, which a macroblock without Y2 leaves alone. -/
def readResiduals (probs : Array Nat) (q : DequantFactors) (mbX : Nat) (m : MBInfo) (ctx : CoeffCtx)
    (d : BoolDec) : Array Int × MBInfo × CoeffCtx × BoolDec := Id.run do
  let mut coeffs : Array Int := Array.replicate 400 0
  let mut above := ctx.above
  let mut left := ctx.left
  let ab := 9 * mbX
  if m.skip then
    for k in [0:8] do
      above := above.setIfInBounds (ab + k) 0
      left := left.setIfInBounds k 0
    if m.hasY2 then
      above := above.setIfInBounds (ab + 8) 0
      left := left.setIfInBounds 8 0
    return (coeffs, m, { above, left }, d)
  let mut d := d
  let mut coded := 0
  let mut eobs : Array Nat := Array.replicate 25 0
  let mut ovf := false
  let mut first := 0
  let mut ytype := 3
  if m.hasY2 then
    let c := above.getD (ab + 8) 0 + left.getD 8 0
    let (eob, cs, o, d1) := readBlock probs 1 0 c q.y2dc q.y2ac (24 * 16) coeffs d
    coeffs := cs; d := d1; ovf := ovf || o
    let f := if eob > 0 then 1 else 0
    above := above.setIfInBounds (ab + 8) f
    left := left.setIfInBounds 8 f
    coded := coded ||| (f <<< 24)
    eobs := eobs.setIfInBounds 24 eob
    first := 1
    ytype := 0
  for by' in [0:4] do
    for bx in [0:4] do
      let c := above.getD (ab + bx) 0 + left.getD by' 0
      let blk := 4 * by' + bx
      let (eob, cs, o, d1) := readBlock probs ytype first c q.y1dc q.y1ac (blk * 16) coeffs d
      coeffs := cs; d := d1; ovf := ovf || o
      let f := if eob > first then 1 else 0
      above := above.setIfInBounds (ab + bx) f
      left := left.setIfInBounds by' f
      coded := coded ||| (f <<< blk)
      eobs := eobs.setIfInBounds blk eob
  for plane in [0:2] do
    for by' in [0:2] do
      for bx in [0:2] do
        let ai := ab + 4 + 2 * plane + bx
        let li := 4 + 2 * plane + by'
        let c := above.getD ai 0 + left.getD li 0
        let blk := 16 + 4 * plane + 2 * by' + bx
        let (eob, cs, o, d1) := readBlock probs 2 0 c q.uvdc q.uvac (blk * 16) coeffs d
        coeffs := cs; d := d1; ovf := ovf || o
        let f := if eob > 0 then 1 else 0
        above := above.setIfInBounds ai f
        left := left.setIfInBounds li f
        coded := coded ||| (f <<< blk)
        eobs := eobs.setIfInBounds blk eob
  return (coeffs, { m with coded, eobs, overflow := ovf }, { above, left }, d)

end Webp.Spec.VP8
