import Webp.Spec.VP8.LoopFilter
/-
  Spec model of the VP8 key-frame decoder — part 6: the frame (§19.3, §5): all macroblocks in
  raster order, each one read (first partition + its row's token partition) and reconstructed;
  then the loop filter over the whole frame; then cropping to the frame size.
-/
namespace Webp.Spec.VP8
open Webp.Go (Res)

/-- Decoded picture: planes cropped to `width × height` luma and `⌈w/2⌉ × ⌈h/2⌉` chroma samples,
    rows packed (`yStride = width`, `uvStride = ⌈width/2⌉`). -/
structure Frame where
  width : Nat
  height : Nat
  y : ByteArray
  u : ByteArray
  v : ByteArray
  yStride : Nat
  uvStride : Nat
  deriving Inhabited

/-- Everything decoding produces before the loop filter. -/
structure Decoded where
  hdr : FrameHdr
  /-- one record per macroblock, raster order -/
  mbs : Array MBInfo
  /-- libwebp's "this macroblock has a non-zero coefficient" (by value, see `Conv.innerSkipByValue`) -/
  nzByValue : Array Bool
  /-- per macroblock: some dequantised coefficient (or WHT output) is outside ±2047, the range a
      forward DCT of 8-bit samples can produce and within which no 16-bit implementation of the
      inverse transforms overflows (their two passes have a gain below 16) -/
  bigCoeff : Array Bool
  /-- unfiltered reconstruction, whole macroblocks -/
  Y : Plane
  U : Plane
  V : Plane
  /-- a decision in the first partition needed bits beyond its end -/
  overFirst : Bool
  /-- same, per token partition (never set for a partition that was not read) -/
  overToken : Array Bool
  /-- a partition that was read from begins with 0xff (`BoolDec.startsWithFF`); first partition, token partitions -/
  ffFirst : Bool
  ffToken : Array Bool
  /-- `(start, stop)` of the token partitions -/
  partBounds : Array (Nat × Nat)
  /-- bytes of the first partition covered by decisions -/
  usedFirst : Nat
  deriving Inhabited

/-- libwebp's per-macroblock non-zero test: a block counts when it has a token beyond its first
    position, else when its first coefficient (for luma blocks under a Y2 block: the WHT output) is
    not 0 -/
def nzByValueMB (m : MBInfo) (coeffs : Array Int) : Bool × Bool := Id.run do
  if m.skip then return (false, false)
  let mut big := m.overflow
  for c in coeffs do
    if c.natAbs > 2047 then big := true
  let mut coeffs := coeffs
  if m.hasY2 then
    let dc := inverseWHT coeffs (24 * 16)
    for i in [0:16] do
      if (dc.getD i 0).natAbs > 2047 then big := true
      coeffs := coeffs.setIfInBounds (16 * i) (wrap16 (dc.getD i 0))
  let mut any := false
  for blk in [0:24] do
    if m.eobs.getD blk 0 > 1 || coeffs.getD (16 * blk) 0 ≠ 0 then any := true
  return (any, big)

/-- Steps 1–4 of the summary above: headers, every macroblock, no loop filter yet.  Reading past
    the end of a partition yields zero bits here; `decodeUnfiltered`/`decode` reject such frames. -/
def decodeCore (cv : Conv) (b : ByteArray) : R Decoded := do
  let h0 ← parseFrameTag b
  let (h, d0) := parseFrameHdr h0 (BoolDec.init b 10 (10 + h0.firstPartSize))
  let bounds ← partitionBounds b h
  let mbW := h.mbW
  let mbH := h.mbH
  let factors : Array DequantFactors := (Array.range 4).map (dequantFactors h cv)
  return Id.run do
    let mut d0 := d0
    let mut parts : Array BoolDec := bounds.map (fun se => BoolDec.init b se.1 se.2)
    let mut mctx : ModeCtx := { above := Array.replicate (4 * mbW) B_DC_PRED }
    let mut cctx : CoeffCtx := { above := Array.replicate (9 * mbW) 0 }
    let mut Y := Plane.new (16 * mbW) (16 * mbH)
    let mut U := Plane.new (8 * mbW) (8 * mbH)
    let mut V := Plane.new (8 * mbW) (8 * mbH)
    let mut mbs : Array MBInfo := Array.mkEmpty (mbW * mbH)
    let mut nzv : Array Bool := Array.mkEmpty (mbW * mbH)
    let mut big : Array Bool := Array.mkEmpty (mbW * mbH)
    for mbY in [0:mbH] do
      -- nothing lies to the left of the first macroblock of a row
      mctx := { mctx with left := Array.replicate 4 B_DC_PRED }
      cctx := { cctx with left := Array.replicate 9 0 }
      -- §9.5: macroblock row r uses token partition r mod numParts
      let pi := mbY % h.numParts
      let mut pd := parts.getD pi default
      for mbX in [0:mbW] do
        let (m, mc, d1) := readMBHeader h mbX mctx d0
        d0 := d1; mctx := mc
        let (coeffs, m, cc, pd1) := readResiduals h.coeffProbs (factors.getD m.segment default) mbX m cctx pd
        pd := pd1; cctx := cc
        let (nz, bg) := nzByValueMB m coeffs
        nzv := nzv.push nz
        big := big.push bg
        let (y, u, v) := reconMB cv m coeffs mbX mbY Y U V
        Y := y; U := u; V := v
        mbs := mbs.push m
      parts := parts.setIfInBounds pi pd
    return { hdr := h, mbs, nzByValue := nzv, bigCoeff := big, Y, U, V, overFirst := d0.over, overToken := parts.map (·.over),
             ffFirst := d0.startsWithFF, ffToken := parts.map (fun p => p.used && p.startsWithFF),
             partBounds := bounds, usedFirst := d0.needed }

/-- rows `0 … h-1`, columns `0 … w-1` of a plane, packed -/
def Plane.crop (p : Plane) (w h : Nat) : ByteArray := Id.run do
  let mut out := ByteArray.emptyWithCapacity (w * h)
  for y in [0:h] do
    out := out ++ p.data.extract (y * p.stride) (y * p.stride + w)
  return out

def mkFrame (h : FrameHdr) (Y U V : Plane) : Frame :=
  let cw := (h.width + 1) / 2
  let ch := (h.height + 1) / 2
  { width := h.width, height := h.height, y := Y.crop h.width h.height, u := U.crop cw ch, v := V.crop cw ch,
    yStride := h.width, uvStride := cw }

/-- a frame is rejected when decoding it had to look beyond the end of a partition -/
def Decoded.check (r : Decoded) : R Decoded :=
  if r.overFirst || r.overToken.any id then .err .truncated else .ok r

def Decoded.innerFlags (r : Decoded) (cv : Conv) : Array Bool :=
  if cv.innerSkipByFlagOnly then
    r.mbs.map fun m => m.ymode = B_PRED || !m.skip
  else if cv.innerSkipByValue then
    (Array.range r.mbs.size).map fun i => (r.mbs.getD i {}).ymode = B_PRED || r.nzByValue.getD i false
  else r.mbs.map filterInner

/-- The reconstruction before the loop filter (what the encoder's own reconstruction must equal
    when the frame's filter level is 0; property C06 compares against it). -/
def decodeUnfilteredWith (cv : Conv) (b : ByteArray) : R Frame := do
  let r ← decodeCore cv b
  let r ← r.check
  return mkFrame r.hdr r.Y r.U r.V

def decodeWith (cv : Conv) (b : ByteArray) : R Frame := do
  let r ← decodeCore cv b
  let r ← r.check
  let (Y, U, V) := loopFilter r.hdr cv r.mbs (r.innerFlags cv) r.Y r.U r.V
  return mkFrame r.hdr Y U V

/-- **The Y, Cb and Cr samples RFC 6386 defines for a key frame**, in-loop deblocking included. -/
def decode (b : ByteArray) : R Frame := decodeWith {} b

def decodeUnfiltered (b : ByteArray) : R Frame := decodeUnfilteredWith {} b

/-- Header and per-macroblock records (modes, segment, skip flag, coded-block flags), for
    diagnosing a disagreement; does not reject over-reads (they are reported in the record). -/
def decodeInfo (b : ByteArray) : R Decoded := decodeCore {} b

end Webp.Spec.VP8
